#!/bin/bash
# usage: apply_fix.sh <ID_slug>  — applies proposed_fixes/<ID_slug>.diff (production files only)
# to /repo, builds, runs the touched packages' tests, commits with the .msg message.
set -u
export GOFLAGS=-mod=mod GOPROXY=off GOSUMDB=off GOTOOLCHAIN=local MOCKEY_CHECK_GCFLAGS=false
f=/verif/proposed_fixes/$1
cd /repo || exit 1
git apply --exclude='*_test.go' --check "$f.diff" || { echo "DOES NOT APPLY: $1"; exit 2; }
git apply --exclude='*_test.go' "$f.diff"
files=$(git diff --name-only)
gofmt -l $files
go build ./... || { echo "BUILD FAILS"; git checkout -- .; exit 3; }
go build -tags verif ./... || { echo "BUILD(verif) FAILS"; git checkout -- .; exit 3; }
pkgs=$(for x in $files; do echo ./$(dirname $x)/...; done | sort -u)
echo "testing $pkgs"
go test -vet=off -count=1 $pkgs 2>&1 | grep -v "^ok\|no test files" | grep -- "--- FAIL\|^FAIL\|panic:" | sort | uniq -c | head -20
msg=$(cat "$f.msg" 2>/dev/null)
case "$msg" in fix:*) ;; *) msg="fix: $1"$'\n\n'"$msg";; esac
git add $files && git commit -q -m "$msg" && git log --oneline | head -1
