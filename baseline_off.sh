#!/bin/bash
# Runs the repository's own test suite with the verif guard OFF and compares with BASELINE.json.
export GOFLAGS=-mod=mod GOPROXY=off GOSUMDB=off GOTOOLCHAIN=local
out=${1:-/tmp/verif_baseline_$$.json}
cd /repo && go test -mod=mod -json -vet=off -count=1 -timeout 25m ./... > "$out" 2>/dev/null
python3 - "$out" <<'PY'
import json,sys
res={}
for ln in open(sys.argv[1],errors='replace'):
    try: e=json.loads(ln)
    except Exception: continue
    if e.get('Test') and e.get('Action') in('pass','fail','skip'):
        res[e['Package']+'::'+e['Test']]=e['Action']
base=json.load(open('/root/.vp/BASELINE.json'))['stable_pass']
bad=[t for t in base if res.get(t)!='pass']
print('baseline stable tests: %d, passing now: %d, not passing: %d'%(len(base),len(base)-len(bad),len(bad)))
for t in bad[:40]: print('  NOT PASSING:',t,res.get(t))
sys.exit(1 if bad else 0)
PY
rc=$?
rm -f "$out"
exit $rc
