// Package rp holds helpers of the connection-pool monitors (C24): an exact "nothing can move
// without me" detector built on goroutine dumps taken with the world stopped.
// Standard library only.
package rp

import (
	"bytes"
	"runtime"
	"strconv"
	"strings"
	"time"
)

// Gid is the id of the calling goroutine.
func Gid() int64 {
	var b [64]byte
	n := runtime.Stack(b[:], false)
	s := b[:n]
	if !bytes.HasPrefix(s, []byte("goroutine ")) {
		return -1
	}
	s = s[len("goroutine "):]
	i := bytes.IndexByte(s, ' ')
	if i < 0 {
		return -1
	}
	v, _ := strconv.ParseInt(string(s[:i]), 10, 64)
	return v
}

// Wait reasons that only user-level synchronisation produces. "semacquire" is deliberately
// absent: the runtime parks goroutines with that reason for its own purposes (a goroutine
// that starts a GC cycle waits for the world semaphore which the dumping goroutine holds).
// "IO wait", "sleep", "syscall" are not blocked either: something outside will wake them.
var blocked = map[string]bool{
	"chan receive": true, "chan send": true, "select": true, "sync.Mutex.Lock": true,
	"sync.Cond.Wait": true, "sync.WaitGroup.Wait": true,
	"sync.RWMutex.Lock": true, "sync.RWMutex.RLock": true,
	"chan receive (nil chan)": true, "chan send (nil chan)": true, "select (no cases)": true,
}

// Quiet decides quiescence of the goroutines whose stacks mention one of Patterns.
type Quiet struct {
	Patterns []string // substrings of function names, e.g. "util.(*ResourcePool)."
	Tags     []string // substrings counted separately among the relevant goroutines (Tagged)
	Tagged   int      // relevant goroutines matching a tag at the last successful Wait
	Dumps    int64
	buf      []byte
}

// Busy returns the number of relevant goroutines (other than self) that are not parked in a
// channel/mutex wait, the number of relevant goroutines and how many of them match a tag.
func (q *Quiet) Busy(self int64) (busy, relevant, tagged int) {
	if q.buf == nil {
		q.buf = make([]byte, 1<<18)
	}
	n := 0
	for {
		n = runtime.Stack(q.buf, true)
		if n < len(q.buf) {
			break
		}
		q.buf = make([]byte, 2*len(q.buf))
	}
	q.Dumps++
	for _, blk := range strings.Split(string(q.buf[:n]), "\n\n") {
		if !strings.HasPrefix(blk, "goroutine ") {
			continue
		}
		rel := false
		for _, p := range q.Patterns {
			if strings.Contains(blk, p) {
				rel = true
				break
			}
		}
		hdrEnd := strings.IndexByte(blk, '\n')
		if hdrEnd < 0 {
			hdrEnd = len(blk)
		}
		hdr := blk[:hdrEnd]
		sp := strings.IndexByte(hdr[10:], ' ')
		if sp < 0 {
			continue
		}
		id, _ := strconv.ParseInt(hdr[10:10+sp], 10, 64)
		if id == self {
			continue
		}
		if !rel {
			// A goroutine of some library (the interrupter goroutine of net.Dial, a fake
			// server's connection handler ...) that is ready to run may be about to wake a
			// relevant one that waits for it on a channel: not quiescent yet.
			if strings.Contains(hdr, "[runnable") || strings.Contains(hdr, "[running") {
				busy++
			}
			continue
		}
		relevant++
		for _, t := range q.Tags {
			if strings.Contains(blk, t) {
				tagged++
				break
			}
		}
		lb, rb := strings.IndexByte(hdr, '['), strings.LastIndexByte(hdr, ']')
		state := ""
		if lb >= 0 && rb > lb {
			state = hdr[lb+1 : rb]
			if c := strings.IndexByte(state, ','); c >= 0 {
				state = state[:c]
			}
		}
		if !blocked[state] {
			busy++
		}
	}
	return busy, relevant, tagged
}

// Wait polls until no relevant goroutine can move without the caller. Wall clock only paces
// the polling; false means the (generous) watchdog expired.
func (q *Quiet) Wait(self int64, watchdog time.Duration) bool {
	start := time.Now()
	pause := 5 * time.Microsecond
	for {
		runtime.Gosched()
		busy, _, tg := q.Busy(self)
		if busy == 0 {
			q.Tagged = tg
			return true
		}
		if time.Since(start) > watchdog {
			return false
		}
		time.Sleep(pause)
		if pause < 400*time.Microsecond {
			pause *= 2
		}
	}
}
