// Package verifkit is the shared harness library of /verif. It is overlaid into the Gaea
// module as github.com/XiaoMi/Gaea/verifkit and must depend on the standard library only
// (white-box monitors inside every Gaea package import it).
package verifkit

import (
	"hash/fnv"
	"os"
	"strconv"
)

// Rand is a splitmix64 stream. All workloads are functions of VERIF_SEED through it.
type Rand struct{ s uint64 }

func NewRand(seed uint64) *Rand { return &Rand{s: seed} }

// SubRand derives an independent stream named by label (so adding draws in one part of a
// monitor does not shift the cases of another part).
func SubRand(seed uint64, label string) *Rand {
	h := fnv.New64a()
	h.Write([]byte(label))
	return &Rand{s: seed*0x9E3779B97F4A7C15 ^ h.Sum64()}
}

func (r *Rand) State() uint64     { return r.s }
func (r *Rand) SetState(s uint64) { r.s = s }

func (r *Rand) Uint64() uint64 {
	r.s += 0x9E3779B97F4A7C15
	z := r.s
	z = (z ^ (z >> 30)) * 0xBF58476D1CE4E5B9
	z = (z ^ (z >> 27)) * 0x94D049BB133111EB
	return z ^ (z >> 31)
}

func (r *Rand) Intn(n int) int {
	if n <= 0 {
		return 0
	}
	return int(r.Uint64() % uint64(n))
}

// Range returns a value in [lo,hi].
func (r *Rand) Range(lo, hi int) int { return lo + r.Intn(hi-lo+1) }

func (r *Rand) Int63() int64 { return int64(r.Uint64() >> 1) }

func (r *Rand) Bool() bool { return r.Uint64()&1 == 1 }

// Chance is true with probability num/den.
func (r *Rand) Chance(num, den int) bool { return r.Intn(den) < num }

func (r *Rand) Float() float64 { return float64(r.Uint64()>>11) / (1 << 53) }

func (r *Rand) Pick(ss []string) string { return ss[r.Intn(len(ss))] }

func (r *Rand) PickInt(ss []int) int { return ss[r.Intn(len(ss))] }

func (r *Rand) PickI64(ss []int64) int64 { return ss[r.Intn(len(ss))] }

func (r *Rand) Perm(n int) []int {
	p := make([]int, n)
	for i := range p {
		p[i] = i
	}
	for i := n - 1; i > 0; i-- {
		j := r.Intn(i + 1)
		p[i], p[j] = p[j], p[i]
	}
	return p
}

func (r *Rand) Bytes(n int) []byte {
	b := make([]byte, n)
	for i := 0; i < n; i += 8 {
		v := r.Uint64()
		for j := 0; j < 8 && i+j < n; j++ {
			b[i+j] = byte(v >> (8 * uint(j)))
		}
	}
	return b
}

// Seed returns VERIF_SEED (default 1).
func Seed() uint64 {
	if s := os.Getenv("VERIF_SEED"); s != "" {
		if v, err := strconv.ParseUint(s, 10, 64); err == nil {
			return v
		}
		if v, err := strconv.ParseInt(s, 10, 64); err == nil {
			return uint64(v)
		}
	}
	return 1
}

// Tier returns "quick" or "thorough" (VERIF_TIER, default quick).
func Tier() string {
	if os.Getenv("VERIF_TIER") == "thorough" {
		return "thorough"
	}
	return "quick"
}

// N picks the tier constant.
func N(quick, thorough int) int {
	if Tier() == "thorough" {
		return thorough
	}
	return quick
}

// Hash64 hashes strings to a short hex id.
func Hash64(parts ...string) string {
	h := fnv.New64a()
	for _, p := range parts {
		h.Write([]byte(p))
		h.Write([]byte{0})
	}
	return strconv.FormatUint(h.Sum64(), 16)
}
