package verifkit

import (
	"encoding/json"
	"fmt"
	"io/ioutil"
	"os"
	"path/filepath"
	"sort"
	"sync"
	"time"
)

// TB is the part of *testing.T the recorder needs.
type TB interface {
	Errorf(format string, args ...interface{})
	Logf(format string, args ...interface{})
}

// OutDir is where evidence/, replay/ and build/verdict/ live (VERIF_OUT, default /verif).
func OutDir() string {
	if d := os.Getenv("VERIF_OUT"); d != "" {
		return d
	}
	return "/verif"
}

// HomeDir is where the committed framework lives (known_findings.json, known/): VERIF_HOME,
// default /verif. It differs from OutDir only when results are redirected (seeded-mutant runs).
func HomeDir() string {
	if d := os.Getenv("VERIF_HOME"); d != "" {
		return d
	}
	return "/verif"
}

type knownFinding struct {
	Property  string `json:"property"`
	Signature string `json:"signature"`
	What      string `json:"what"`
}

type knownFile struct {
	Findings []knownFinding `json:"findings"`
}

// Rec collects what one monitor run observed and turns it into the evidence file, the
// verdict file and the VIOLATION / KNOWN-FINDING lines. Safe for concurrent use.
type Rec struct {
	ID    string
	Level string
	Rule  string

	mu          sync.Mutex
	start       time.Time
	evals       int64
	distinct    map[string]struct{}
	samples     []interface{}
	sampleSeen  int64
	counters    map[string]int64
	extra       map[string]interface{}
	assumptions []string
	exhaustive  bool
	known       map[string]string // listed signature -> what
	knownSeen   map[string]int64
	viol        map[string]int64 // unlisted signature -> count
	violOrder   []string
	violReplay  map[string]string
	incon       []string
	srand       *Rand
}

const maxSamples = 6

// Start creates the recorder for property id at the given claimed level.
func Start(id, level, rule string) *Rec {
	r := &Rec{ID: id, Level: level, Rule: rule, start: time.Now(),
		distinct: map[string]struct{}{}, counters: map[string]int64{}, extra: map[string]interface{}{},
		known: map[string]string{}, knownSeen: map[string]int64{}, viol: map[string]int64{},
		violReplay: map[string]string{}, srand: SubRand(Seed(), "samples/"+id)}
	paths := []string{filepath.Join(HomeDir(), "known_findings.json")}
	more, _ := filepath.Glob(filepath.Join(HomeDir(), "known", "*.json"))
	sort.Strings(more)
	for _, p := range append(paths, more...) {
		b, err := ioutil.ReadFile(p)
		if err != nil {
			continue
		}
		var kf knownFile
		if json.Unmarshal(b, &kf) == nil {
			for _, f := range kf.Findings {
				if f.Property == id {
					r.known[f.Signature] = f.What
				}
			}
		}
	}
	return r
}

// Eval counts n executed cases.
func (r *Rec) Eval(n int) {
	r.mu.Lock()
	r.evals += int64(n)
	r.mu.Unlock()
}

// Nontrivial registers the canonical key of a case that reached the interesting branch.
func (r *Rec) Nontrivial(key string) {
	r.mu.Lock()
	if len(r.distinct) < 2000000 {
		r.distinct[key] = struct{}{}
	}
	r.mu.Unlock()
}

// Sample keeps a few of the offered cases (reservoir, deterministic in the seed).
func (r *Rec) Sample(v interface{}) {
	r.mu.Lock()
	r.sampleSeen++
	if len(r.samples) < maxSamples {
		r.samples = append(r.samples, v)
	} else if j := r.srand.Intn(int(r.sampleSeen)); j < maxSamples {
		r.samples[j] = v
	}
	r.mu.Unlock()
}

// Count adds to a named counter that ends up in coverage.counters.
func (r *Rec) Count(name string, n int64) {
	r.mu.Lock()
	r.counters[name] += n
	r.mu.Unlock()
}

// CounterValue reads a counter.
func (r *Rec) CounterValue(name string) int64 {
	r.mu.Lock()
	defer r.mu.Unlock()
	return r.counters[name]
}

// Set stores an extra coverage key.
func (r *Rec) Set(name string, v interface{}) {
	r.mu.Lock()
	r.extra[name] = v
	r.mu.Unlock()
}

func (r *Rec) Assume(s string) {
	r.mu.Lock()
	r.assumptions = append(r.assumptions, s)
	r.mu.Unlock()
}

func (r *Rec) Exhaustive(b bool) {
	r.mu.Lock()
	r.exhaustive = b
	r.mu.Unlock()
}

// IsKnown reports whether sig is a listed known finding of this property.
func (r *Rec) IsKnown(sig string) bool {
	r.mu.Lock()
	defer r.mu.Unlock()
	_, ok := r.known[sig]
	return ok
}

// Violation reports that the oracle was refuted. sig is the canonical signature of the
// failing case (property-specific; see DESIGN §1.1); what is a one-line description;
// cse is the replayable concrete case. A listed signature is counted as a known finding;
// anything else produces a VIOLATION line (once per signature) and a replay file.
func (r *Rec) Violation(sig, what string, cse interface{}) {
	r.mu.Lock()
	defer r.mu.Unlock()
	if _, ok := r.known[sig]; ok {
		r.knownSeen[sig]++
		return
	}
	r.viol[sig]++
	if r.viol[sig] > 1 {
		return
	}
	r.violOrder = append(r.violOrder, sig)
	dir := filepath.Join(OutDir(), "replay", r.ID)
	os.MkdirAll(dir, 0o755)
	path := filepath.Join(dir, Hash64(r.ID, sig)+".json")
	doc := map[string]interface{}{"property": r.ID, "seed": Seed(), "tier": Tier(), "signature": sig, "what": what, "case": cse}
	b, err := json.MarshalIndent(doc, "", " ")
	if err != nil {
		b, _ = json.MarshalIndent(map[string]interface{}{"property": r.ID, "seed": Seed(), "signature": sig, "what": what, "case": fmt.Sprintf("%+v", cse)}, "", " ")
	}
	ioutil.WriteFile(path, b, 0o644)
	r.violReplay[sig] = path
	if len(r.violOrder) <= 25 {
		fmt.Printf("VIOLATION property=%s replay=%s\n", r.ID, path)
		fmt.Printf("  signature: %s\n  what: %s\n", sig, oneLine(what, 600))
	}
}

// Inconclusive records that the run could not decide (watchdog, hook never reached...).
func (r *Rec) Inconclusive(reason string) {
	r.mu.Lock()
	r.incon = append(r.incon, reason)
	r.mu.Unlock()
}

func oneLine(s string, max int) string {
	b := []byte(s)
	for i, c := range b {
		if c == '\n' || c == '\r' {
			b[i] = ' '
		}
	}
	if len(b) > max {
		b = append(b[:max], "..."...)
	}
	return string(b)
}

// Violations returns the number of distinct unlisted signatures seen so far.
func (r *Rec) Violations() int {
	r.mu.Lock()
	defer r.mu.Unlock()
	return len(r.violOrder)
}

// Finish writes evidence/<id>.json and build/verdict/<id>.json, prints KNOWN-FINDING
// lines, and fails the test when an unlisted violation was seen.
func (r *Rec) Finish(t TB) {
	r.mu.Lock()
	defer r.mu.Unlock()
	if r.evals == 0 {
		r.incon = append(r.incon, "monitor observed nothing (0 evaluations)")
	}
	sigs := make([]string, 0, len(r.known))
	for s := range r.known {
		sigs = append(sigs, s)
	}
	sort.Strings(sigs)
	var knownTotal int64
	knownList := []map[string]interface{}{}
	for _, s := range sigs {
		fmt.Printf("KNOWN-FINDING: property=%s %s [signature=%s observed=%d]\n", r.ID, oneLine(r.known[s], 400), s, r.knownSeen[s])
		knownTotal += r.knownSeen[s]
		knownList = append(knownList, map[string]interface{}{"signature": s, "observed": r.knownSeen[s]})
	}
	cov := map[string]interface{}{}
	for k, v := range r.extra {
		cov[k] = v
	}
	cov["evaluations"] = r.evals
	cov["distinct_nontrivial"] = len(r.distinct)
	cov["rule"] = r.Rule
	if len(r.samples) == 0 {
		cov["samples"] = []interface{}{}
	} else {
		cov["samples"] = r.samples
	}
	cov["counters"] = r.counters
	cov["exhaustive"] = r.exhaustive
	cov["known_findings_observed"] = knownList
	if len(r.incon) > 0 {
		cov["inconclusive"] = r.incon
	}
	vs := []map[string]interface{}{}
	for _, s := range r.violOrder {
		vs = append(vs, map[string]interface{}{"signature": s, "count": r.viol[s], "replay": r.violReplay[s]})
	}
	if len(vs) > 0 {
		cov["violation_signatures"] = vs
	}
	ev := map[string]interface{}{
		"property_id": r.ID, "tier": Tier(), "seed": int64(Seed()), "level": r.Level,
		"coverage": cov, "assumptions": r.assumptions, "wall_s": time.Since(r.start).Seconds(),
		"violations": len(r.violOrder),
	}
	if ev["assumptions"] == nil || len(r.assumptions) == 0 {
		ev["assumptions"] = []string{}
	}
	b, err := json.MarshalIndent(ev, "", " ")
	if err != nil {
		// a sample that cannot be marshalled must not lose the evidence
		cov["samples"] = []interface{}{fmt.Sprintf("%+v", r.samples)}
		b, _ = json.MarshalIndent(ev, "", " ")
	}
	part := os.Getenv("VERIF_PART")
	tag := r.ID
	if part != "" {
		tag = r.ID + ".part_" + part
	}
	os.MkdirAll(filepath.Join(OutDir(), "evidence"), 0o755)
	os.MkdirAll(filepath.Join(OutDir(), "build", "verdict"), 0o755)
	if part == "" {
		ioutil.WriteFile(filepath.Join(OutDir(), "evidence", r.ID+".json"), b, 0o644)
	} else {
		// a further part of the check (another package): the runner merges it into evidence/<ID>.json
		ioutil.WriteFile(filepath.Join(OutDir(), "build", "verdict", tag+".evidence.json"), b, 0o644)
	}

	verdict := "held"
	if len(r.violOrder) > 0 {
		verdict = "violated"
	} else if len(r.incon) > 0 {
		verdict = "inconclusive"
	}
	vd := map[string]interface{}{"property": r.ID, "verdict": verdict, "violations": len(r.violOrder),
		"known_observed": knownTotal, "inconclusive": r.incon, "evaluations": r.evals, "distinct_nontrivial": len(r.distinct)}
	vb, _ := json.MarshalIndent(vd, "", " ")
	os.MkdirAll(filepath.Join(OutDir(), "build", "verdict"), 0o755)
	ioutil.WriteFile(filepath.Join(OutDir(), "build", "verdict", tag+".json"), vb, 0o644)

	fmt.Printf("VERDICT property=%s %s evaluations=%d distinct_nontrivial=%d violations=%d known_observed=%d\n",
		r.ID, verdict, r.evals, len(r.distinct), len(r.violOrder), knownTotal)
	for _, s := range r.incon {
		fmt.Printf("INCONCLUSIVE property=%s reason=%s\n", r.ID, oneLine(s, 300))
	}
	if len(r.violOrder) > 0 {
		t.Errorf("%s: %d distinct unlisted violation signature(s)", r.ID, len(r.violOrder))
	}
}

// ReplayPath is the witness to re-execute (VERIF_REPLAY), or "".
func ReplayPath() string { return os.Getenv("VERIF_REPLAY") }

// LoadReplay decodes the "case" member of a replay file into v.
func LoadReplay(path string, v interface{}) error {
	b, err := ioutil.ReadFile(path)
	if err != nil {
		return err
	}
	var doc struct {
		Case json.RawMessage `json:"case"`
	}
	if err := json.Unmarshal(b, &doc); err != nil {
		return err
	}
	return json.Unmarshal(doc.Case, v)
}

// PreLog is an append-only file to which survival monitors (C12, C38) write every input
// *before* issuing it, so that a process-fatal error is attributable.
type PreLog struct {
	f    *os.File
	Path string
}

func NewPreLog(id string) *PreLog {
	dir := filepath.Join(OutDir(), "build", "prelog")
	os.MkdirAll(dir, 0o755)
	if part := os.Getenv("VERIF_PART"); part != "" {
		id = id + ".part_" + part
	}
	p := filepath.Join(dir, id+".log")
	f, _ := os.Create(p)
	return &PreLog{f: f, Path: p}
}

func (p *PreLog) Write(s string) {
	if p.f != nil {
		p.f.WriteString(s + "\n")
	}
}

func (p *PreLog) Close() {
	if p.f != nil {
		p.f.Close()
	}
}
