// Package cckit holds the control-plane rig R5 of /verif: an in-process fake of the etcd v2
// keys API and a fault-injecting reverse shim for proxy admin endpoints. Standard library
// only, so it can be imported from white-box monitors in any Gaea package.
package cckit

import (
	"encoding/json"
	"fmt"
	"net"
	"net/http"
	"sort"
	"strconv"
	"strings"
	"sync"
)

// FakeEtcd implements the part of the etcd v2 HTTP API that github.com/coreos/etcd/client
// uses on behalf of Gaea's models/etcd wrapper: GET /version, and PUT / GET (optionally
// recursive) / DELETE on /v2/keys/<key>, with the v2 error body {"errorCode":100,...} and
// HTTP 404 for a missing key, 105/412 for prevExist=false on an existing key, 102/403 for
// "not a file", 104/400 for "not a directory". Written from the etcd v2 API documentation.
type FakeEtcd struct {
	mu    sync.Mutex
	vals  map[string]string   // leaf key -> value
	dirs  map[string]struct{} // explicit and implied directories (except "/")
	index uint64
	ops   map[string]int64
	ln    net.Listener
	srv   *http.Server

	// FailWrite, when set, is consulted for every PUT/DELETE (method, key); a non-empty
	// return makes the fake answer HTTP 500 with errorCode 300 and change nothing.
	FailWrite func(method, key string) string
}

// NewFakeEtcd starts the fake on a loopback port.
func NewFakeEtcd() (*FakeEtcd, error) {
	ln, err := net.Listen("tcp4", "127.0.0.1:0")
	if err != nil {
		return nil, err
	}
	f := &FakeEtcd{vals: map[string]string{}, dirs: map[string]struct{}{}, ops: map[string]int64{}, ln: ln, index: 1}
	f.srv = &http.Server{Handler: http.HandlerFunc(f.serve)}
	go f.srv.Serve(ln)
	return f, nil
}

// Addr is host:port of the fake.
func (f *FakeEtcd) Addr() string { return f.ln.Addr().String() }

// URL is the endpoint as Gaea's coordinator_addr expects it.
func (f *FakeEtcd) URL() string { return "http://" + f.Addr() }

// Close stops the listener.
func (f *FakeEtcd) Close() { f.srv.Close() }

// Get reads a leaf directly (oracle side, not through HTTP).
func (f *FakeEtcd) Get(key string) (string, bool) {
	f.mu.Lock()
	defer f.mu.Unlock()
	v, ok := f.vals[normKey(key)]
	return v, ok
}

// Put writes a leaf directly (set-up side).
func (f *FakeEtcd) Put(key, val string) {
	f.mu.Lock()
	defer f.mu.Unlock()
	f.put(normKey(key), val)
}

// Del removes a leaf directly.
func (f *FakeEtcd) Del(key string) {
	f.mu.Lock()
	defer f.mu.Unlock()
	delete(f.vals, normKey(key))
	f.index++
}

// Keys lists the leaf keys under prefix (sorted).
func (f *FakeEtcd) Keys(prefix string) []string {
	f.mu.Lock()
	defer f.mu.Unlock()
	p := normKey(prefix)
	var out []string
	for k := range f.vals {
		if p == "/" || k == p || strings.HasPrefix(k, p+"/") {
			out = append(out, k)
		}
	}
	sort.Strings(out)
	return out
}

// Ops returns a copy of the per-method counters.
func (f *FakeEtcd) Ops() map[string]int64 {
	f.mu.Lock()
	defer f.mu.Unlock()
	m := map[string]int64{}
	for k, v := range f.ops {
		m[k] = v
	}
	return m
}

func normKey(k string) string {
	if !strings.HasPrefix(k, "/") {
		k = "/" + k
	}
	for len(k) > 1 && strings.HasSuffix(k, "/") {
		k = k[:len(k)-1]
	}
	return k
}

func parentOf(k string) string {
	i := strings.LastIndex(k, "/")
	if i <= 0 {
		return "/"
	}
	return k[:i]
}

func (f *FakeEtcd) put(k, v string) {
	for p := parentOf(k); p != "/"; p = parentOf(p) {
		f.dirs[p] = struct{}{}
	}
	f.vals[k] = v
	f.index++
}

type etcdNode struct {
	Key           string      `json:"key"`
	Dir           bool        `json:"dir,omitempty"`
	Value         string      `json:"value"`
	Nodes         []*etcdNode `json:"nodes,omitempty"`
	ModifiedIndex uint64      `json:"modifiedIndex"`
	CreatedIndex  uint64      `json:"createdIndex"`
}

func (f *FakeEtcd) isDir(k string) bool {
	if k == "/" {
		return true
	}
	_, ok := f.dirs[k]
	return ok
}

func (f *FakeEtcd) children(k string) []string {
	set := map[string]struct{}{}
	pre := k + "/"
	if k == "/" {
		pre = "/"
	}
	add := func(x string) {
		if x != k && strings.HasPrefix(x, pre) {
			rest := x[len(pre):]
			if i := strings.Index(rest, "/"); i >= 0 {
				rest = rest[:i]
			}
			if rest != "" {
				set[pre+rest] = struct{}{}
			}
		}
	}
	for x := range f.vals {
		add(x)
	}
	for x := range f.dirs {
		add(x)
	}
	out := make([]string, 0, len(set))
	for x := range set {
		out = append(out, x)
	}
	sort.Strings(out)
	return out
}

func (f *FakeEtcd) node(k string, recursive bool, depth int) *etcdNode {
	if v, ok := f.vals[k]; ok {
		return &etcdNode{Key: k, Value: v, ModifiedIndex: f.index, CreatedIndex: f.index}
	}
	n := &etcdNode{Key: k, Dir: true, ModifiedIndex: f.index, CreatedIndex: f.index}
	if depth == 0 || recursive {
		for _, c := range f.children(k) {
			n.Nodes = append(n.Nodes, f.node(c, recursive, depth+1))
		}
	}
	return n
}

func (f *FakeEtcd) fail(w http.ResponseWriter, status, code int, msg, cause string) {
	w.Header().Set("Content-Type", "application/json")
	w.Header().Set("X-Etcd-Index", strconv.FormatUint(f.index, 10))
	w.WriteHeader(status)
	b, _ := json.Marshal(map[string]interface{}{"errorCode": code, "message": msg, "cause": cause, "index": f.index})
	w.Write(b)
}

func (f *FakeEtcd) ok(w http.ResponseWriter, status int, body map[string]interface{}) {
	w.Header().Set("Content-Type", "application/json")
	w.Header().Set("X-Etcd-Index", strconv.FormatUint(f.index, 10))
	w.Header().Set("X-Etcd-Cluster-Id", "verif")
	w.WriteHeader(status)
	b, _ := json.Marshal(body)
	w.Write(b)
}

func (f *FakeEtcd) serve(w http.ResponseWriter, r *http.Request) {
	f.mu.Lock()
	defer f.mu.Unlock()
	if r.URL.Path == "/version" {
		f.ops["version"]++
		w.Header().Set("Content-Type", "application/json")
		w.Write([]byte(`{"etcdserver":"3.3.13","etcdcluster":"3.3.0"}`))
		return
	}
	const pre = "/v2/keys"
	if !strings.HasPrefix(r.URL.Path, pre) {
		http.NotFound(w, r)
		return
	}
	key := normKey(strings.TrimPrefix(r.URL.Path, pre))
	q := r.URL.Query()
	switch r.Method {
	case "GET":
		f.ops["get"]++
		if _, leaf := f.vals[key]; !leaf && !f.isDir(key) {
			f.fail(w, http.StatusNotFound, 100, "Key not found", key)
			return
		}
		f.ok(w, http.StatusOK, map[string]interface{}{"action": "get", "node": f.node(key, q.Get("recursive") == "true", 0)})
	case "PUT":
		f.ops["put"]++
		if err := r.ParseForm(); err != nil {
			f.fail(w, http.StatusBadRequest, 209, "Invalid field", err.Error())
			return
		}
		if f.FailWrite != nil {
			if m := f.FailWrite("PUT", key); m != "" {
				f.fail(w, http.StatusInternalServerError, 300, "Raft Internal Error", m)
				return
			}
		}
		_, isLeaf := f.vals[key]
		exists := isLeaf || f.isDir(key)
		switch q.Get("prevExist") {
		case "false":
			if exists {
				f.fail(w, http.StatusPreconditionFailed, 105, "Key already exists", key)
				return
			}
		case "true":
			if !exists {
				f.fail(w, http.StatusNotFound, 100, "Key not found", key)
				return
			}
		}
		for p := parentOf(key); p != "/"; p = parentOf(p) {
			if _, leaf := f.vals[p]; leaf {
				f.fail(w, http.StatusBadRequest, 104, "Not a directory", p)
				return
			}
		}
		if key == "/" {
			f.fail(w, http.StatusForbidden, 107, "Root is read only", "/")
			return
		}
		status := http.StatusOK
		if !exists {
			status = http.StatusCreated
		}
		if q.Get("dir") == "true" || r.PostForm.Get("dir") == "true" {
			if isLeaf {
				f.fail(w, http.StatusForbidden, 102, "Not a file", key)
				return
			}
			f.dirs[key] = struct{}{}
			for p := parentOf(key); p != "/"; p = parentOf(p) {
				f.dirs[p] = struct{}{}
			}
			f.index++
			f.ok(w, status, map[string]interface{}{"action": "set", "node": f.node(key, false, 1)})
			return
		}
		if !isLeaf && f.isDir(key) {
			f.fail(w, http.StatusForbidden, 102, "Not a file", key)
			return
		}
		f.put(key, r.PostForm.Get("value"))
		f.ok(w, status, map[string]interface{}{"action": "set", "node": f.node(key, false, 0)})
	case "DELETE":
		f.ops["delete"]++
		if f.FailWrite != nil {
			if m := f.FailWrite("DELETE", key); m != "" {
				f.fail(w, http.StatusInternalServerError, 300, "Raft Internal Error", m)
				return
			}
		}
		if _, leaf := f.vals[key]; leaf {
			prev := f.node(key, false, 0)
			delete(f.vals, key)
			f.index++
			f.ok(w, http.StatusOK, map[string]interface{}{"action": "delete",
				"node": &etcdNode{Key: key, ModifiedIndex: f.index, CreatedIndex: prev.CreatedIndex}, "prevNode": prev})
			return
		}
		if !f.isDir(key) {
			f.fail(w, http.StatusNotFound, 100, "Key not found", key)
			return
		}
		if q.Get("recursive") != "true" && q.Get("dir") != "true" {
			f.fail(w, http.StatusForbidden, 102, "Not a file", key)
			return
		}
		if q.Get("recursive") != "true" && len(f.children(key)) > 0 {
			f.fail(w, http.StatusForbidden, 108, "Directory not empty", key)
			return
		}
		for k := range f.vals {
			if strings.HasPrefix(k, key+"/") {
				delete(f.vals, k)
			}
		}
		for k := range f.dirs {
			if k == key || strings.HasPrefix(k, key+"/") {
				delete(f.dirs, k)
			}
		}
		f.index++
		f.ok(w, http.StatusOK, map[string]interface{}{"action": "delete", "node": &etcdNode{Key: key, Dir: true, ModifiedIndex: f.index}})
	default:
		f.fail(w, http.StatusMethodNotAllowed, 0, fmt.Sprintf("method %s not allowed", r.Method), key)
	}
}
