package cckit

import (
	"bytes"
	"io/ioutil"
	"net"
	"net/http"
	"strings"
	"sync"
	"time"
)

// Fault is what the shim does with one request.
type Fault int

const (
	// FaultOK forwards the request and relays the reply.
	FaultOK Fault = iota
	// FaultRefuse answers an HTTP error (status 800, as Gaea's admin does) without forwarding.
	FaultRefuse
	// FaultReset closes the client connection without forwarding and without a reply.
	FaultReset
	// FaultDrop forwards the request, waits for the real reply, then closes the client
	// connection without relaying it: the caller sees an immediate transport error while the
	// proxy has acted (emulation of a reply lost / timed out).
	FaultDrop
)

func (f Fault) String() string {
	switch f {
	case FaultOK:
		return "ok"
	case FaultRefuse:
		return "refuse"
	case FaultReset:
		return "reset"
	case FaultDrop:
		return "drop"
	}
	return "?"
}

// ShimRequest describes one request reaching a shim.
type ShimRequest struct {
	Shim   int    // index given at creation
	Op     string // ping | prepare | commit | delete | other
	Name   string // namespace name for prepare/commit/delete
	Method string
	Path   string
}

// ShimEvent is one entry of the shim's log.
type ShimEvent struct {
	Req      ShimRequest
	Fault    Fault
	Upstream int // HTTP status of the real admin server (0 if not forwarded or transport error)
}

// Shim is a reverse proxy in front of one real admin endpoint.
type Shim struct {
	Index  int
	target string
	ln     net.Listener
	srv    *http.Server
	cli    *http.Client

	mu     sync.Mutex
	decide func(ShimRequest) Fault
	after  func(ShimEvent)
	events []ShimEvent
}

// NewShim listens on a loopback port and forwards to target (host:port).
func NewShim(index int, target string) (*Shim, error) {
	ln, err := net.Listen("tcp4", "127.0.0.1:0")
	if err != nil {
		return nil, err
	}
	s := &Shim{Index: index, target: target, ln: ln}
	s.cli = &http.Client{Transport: &http.Transport{MaxIdleConnsPerHost: 4}, Timeout: 120 * time.Second}
	s.srv = &http.Server{Handler: http.HandlerFunc(s.serve)}
	// one request per connection: a dropped connection can never be mistaken by the caller's
	// transport for a stale idle connection (which it would silently retry).
	s.srv.SetKeepAlivesEnabled(false)
	go s.srv.Serve(ln)
	return s, nil
}

// Port is the listening port as a string.
func (s *Shim) Port() string {
	_, p, _ := net.SplitHostPort(s.ln.Addr().String())
	return p
}

// Close stops the shim.
func (s *Shim) Close() { s.srv.Close() }

// SetDecide installs the fault policy (nil = forward everything) and clears the log.
func (s *Shim) SetDecide(d func(ShimRequest) Fault) {
	s.mu.Lock()
	s.decide = d
	s.after = nil
	s.events = nil
	s.mu.Unlock()
}

// SetAfter installs a callback run when a request has been fully handled (reply relayed,
// refused or dropped). Call it after SetDecide.
func (s *Shim) SetAfter(a func(ShimEvent)) {
	s.mu.Lock()
	s.after = a
	s.mu.Unlock()
}

// Events returns a copy of the log since the last SetDecide.
func (s *Shim) Events() []ShimEvent {
	s.mu.Lock()
	defer s.mu.Unlock()
	return append([]ShimEvent(nil), s.events...)
}

func classify(path string) (op, name string) {
	switch {
	case strings.HasSuffix(path, "/api/proxy/ping"):
		return "ping", ""
	case strings.Contains(path, "/api/proxy/config/prepare/"):
		return "prepare", path[strings.Index(path, "/prepare/")+len("/prepare/"):]
	case strings.Contains(path, "/api/proxy/config/commit/"):
		return "commit", path[strings.Index(path, "/commit/")+len("/commit/"):]
	case strings.Contains(path, "/api/proxy/namespace/delete/"):
		return "delete", path[strings.Index(path, "/delete/")+len("/delete/"):]
	}
	return "other", ""
}

func (s *Shim) hangUp(w http.ResponseWriter) {
	if hj, ok := w.(http.Hijacker); ok {
		if c, _, err := hj.Hijack(); err == nil {
			if tc, ok := c.(*net.TCPConn); ok {
				tc.SetLinger(0)
			}
			c.Close()
			return
		}
	}
	panic(http.ErrAbortHandler)
}

func (s *Shim) serve(w http.ResponseWriter, r *http.Request) {
	op, name := classify(r.URL.Path)
	req := ShimRequest{Shim: s.Index, Op: op, Name: name, Method: r.Method, Path: r.URL.Path}
	s.mu.Lock()
	d := s.decide
	s.mu.Unlock()
	f := FaultOK
	if d != nil {
		f = d(req)
	}
	ev := ShimEvent{Req: req, Fault: f}
	defer func() {
		s.mu.Lock()
		s.events = append(s.events, ev)
		a := s.after
		s.mu.Unlock()
		if a != nil {
			a(ev)
		}
	}()
	switch f {
	case FaultRefuse:
		w.Header().Set("Content-Type", "application/json; charset=utf-8")
		w.WriteHeader(800)
		w.Write([]byte(`"injected: proxy refused the request"`))
		return
	case FaultReset:
		s.hangUp(w)
		return
	}
	body, _ := ioutil.ReadAll(r.Body)
	u := *r.URL
	u.Scheme = "http"
	u.Host = s.target
	out, err := http.NewRequest(r.Method, u.String(), bytes.NewReader(body))
	if err != nil {
		http.Error(w, err.Error(), http.StatusBadGateway)
		return
	}
	for k, vs := range r.Header {
		for _, v := range vs {
			out.Header.Add(k, v)
		}
	}
	resp, err := s.cli.Do(out)
	var rb []byte
	if err == nil {
		rb, _ = ioutil.ReadAll(resp.Body)
		resp.Body.Close()
		ev.Upstream = resp.StatusCode
	}
	if f == FaultDrop {
		s.hangUp(w)
		return
	}
	if err != nil {
		// the real admin endpoint did not answer (e.g. its handler panicked and net/http
		// closed the connection): relay that as a closed connection, which is what the
		// control plane would have seen without the shim.
		s.hangUp(w)
		return
	}
	for k, vs := range resp.Header {
		for _, v := range vs {
			w.Header().Add(k, v)
		}
	}
	w.WriteHeader(resp.StatusCode)
	w.Write(rb)
}
