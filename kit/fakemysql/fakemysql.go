// Package fakemysql is rig R3 of /verif: a scriptable fake MySQL server on loopback TCP
// that speaks exactly what Gaea's backend client (backend.DirectConnection) expects:
// handshake v10 + mysql_native_password, COM_QUERY, COM_INIT_DB, COM_PING, COM_FIELD_LIST,
// COM_QUIT. It keeps a per-connection model of the backend session (current db, character
// set / collation, session variables, user variables, autocommit / in-transaction flags)
// which applies a multi-assignment SET atomically or rejects it atomically, and an event
// log recording, for every statement, the connection's actual session state at the instant
// the statement arrived. Result sets are streamed row by row from a generator, so results
// of tens of MiB and rows above the 16 MiB frame limit cost no more memory than one row.
//
// Standard library only: every Gaea package's white-box tests may import it.
package fakemysql

import (
	"bufio"
	"bytes"
	"crypto/sha1"
	"crypto/sha256"
	"encoding/binary"
	"errors"
	"fmt"
	"io"
	"net"
	"sort"
	"strings"
	"sync"
)

// Commands handled.
const (
	ComQuit      = 0x01
	ComInitDB    = 0x02
	ComQuery     = 0x03
	ComFieldList = 0x04
	ComPing      = 0x0e
)

// Capability flags.
const (
	CapLongPassword     = 1 << 0
	CapFoundRows        = 1 << 1
	CapLongFlag         = 1 << 2
	CapConnectWithDB    = 1 << 3
	CapProtocol41       = 1 << 9
	CapTransactions     = 1 << 13
	CapSecureConnection = 1 << 15
	CapMultiStatements  = 1 << 16
	CapMultiResults     = 1 << 17
	CapPSMultiResults   = 1 << 18
	CapPluginAuth       = 1 << 19
	CapConnectAttrs     = 1 << 20
	CapPluginAuthLenenc = 1 << 21
)

// Server status flags.
const (
	StatusInTrans     = 0x0001
	StatusAutocommit  = 0x0002
	StatusMoreResults = 0x0008
)

// Column types used by the helpers.
const (
	TypeLong      = 0x03
	TypeLongLong  = 0x08
	TypeVarchar   = 0x0f
	TypeBlob      = 0xfc
	TypeVarString = 0xfd
)

const maxFrame = 1<<24 - 1

// Response kinds.
const (
	KindDefault = iota // let the built-in session model answer
	KindOK
	KindErr
	KindRows
	KindClose // close the connection without answering
)

// Column is one scripted column definition.
type Column struct {
	Schema, Table, OrgTable, Name, OrgName string
	Charset                                uint16 // 0 = 33 (utf8_general_ci)
	Length                                 uint32
	Type                                   byte // 0 = TypeVarString
	Flags                                  uint16
	Decimals                               byte
	Default                                []byte // COM_FIELD_LIST only
	WithDefault                            bool   // append the default-value field (COM_FIELD_LIST)
}

// Rows generates the rows of a result set one at a time. A nil cell is NULL. The returned
// cells need to stay valid only until the next call.
type Rows interface {
	Next() (cells [][]byte, ok bool)
}

// SliceRows is a Rows over rows held in memory.
type SliceRows struct {
	Data [][][]byte
	i    int
}

func (s *SliceRows) Next() ([][]byte, bool) {
	if s.i >= len(s.Data) {
		return nil, false
	}
	s.i++
	return s.Data[s.i-1], true
}

// FuncRows is a Rows that calls Fn(i) for i in [0,N).
type FuncRows struct {
	N  int
	Fn func(i int) [][]byte
	i  int
}

func (f *FuncRows) Next() ([][]byte, bool) {
	if f.i >= f.N {
		return nil, false
	}
	f.i++
	return f.Fn(f.i - 1), true
}

// Response is what a handler answers to one statement.
type Response struct {
	Kind         int
	AffectedRows uint64
	LastInsertID uint64
	Status       uint16 // extra status flags OR-ed into the connection's flags
	Warnings     uint16
	Info         string

	Code  uint16 // KindErr
	State string // 5 characters, default HY000
	Msg   string

	Cols     []Column // KindRows
	Rows     Rows     // nil = no rows
	HashRows bool     // record the SHA-256 of every emitted row packet in the event

	// CloseAfterRows > 0 cuts the connection after that many rows have been written
	// (no EOF follows): a backend dying in the middle of a result.
	CloseAfterRows int

	Next *Response // following result of a multi-result reply (SERVER_MORE_RESULTS_EXISTS)
}

// Default delegates to the built-in session model.
func Default() Response { return Response{Kind: KindDefault} }

// OK builds an OK reply.
func OK(affected, lastInsertID uint64) Response {
	return Response{Kind: KindOK, AffectedRows: affected, LastInsertID: lastInsertID}
}

// Err builds an ERR reply.
func Err(code uint16, state, msg string) Response {
	return Response{Kind: KindErr, Code: code, State: state, Msg: msg}
}

// Close drops the connection instead of answering.
func Close() Response { return Response{Kind: KindClose} }

// ResultSet builds a result-set reply.
func ResultSet(cols []Column, rows Rows) Response {
	return Response{Kind: KindRows, Cols: cols, Rows: rows}
}

// TextResult builds a small in-memory result whose columns are VAR_STRING; "" cells are
// empty strings (use ResultSet for NULLs).
func TextResult(names []string, rows ...[]string) Response {
	cols := make([]Column, len(names))
	for i, n := range names {
		cols[i] = Column{Name: n, OrgName: n, Type: TypeVarString, Length: 255}
	}
	data := make([][][]byte, len(rows))
	for i, r := range rows {
		cells := make([][]byte, len(r))
		for j, c := range r {
			cells[j] = []byte(c)
		}
		data[i] = cells
	}
	return ResultSet(cols, &SliceRows{Data: data})
}

// Session is the model of the backend session of one connection.
type Session struct {
	DB                string
	CharsetClient     string
	CharsetConnection string
	CharsetResults    string
	Collation         string            // collation_connection
	Vars              map[string]string // session system variables explicitly set (lower-case name -> value text); absent = default
	UserVars          map[string]string // user variables (lower-case, without '@'); absent = NULL
	Autocommit        bool
	InTx              bool
}

// Clone returns a deep copy.
func (s *Session) Clone() Session {
	c := *s
	c.Vars = make(map[string]string, len(s.Vars))
	for k, v := range s.Vars {
		c.Vars[k] = v
	}
	c.UserVars = make(map[string]string, len(s.UserVars))
	for k, v := range s.UserVars {
		c.UserVars[k] = v
	}
	return c
}

// String renders the state canonically (sorted), for messages and signatures.
func (s *Session) String() string {
	var b strings.Builder
	fmt.Fprintf(&b, "db=%s charset=%s/%s/%s collation=%s autocommit=%v intx=%v", s.DB, s.CharsetClient, s.CharsetConnection, s.CharsetResults, s.Collation, s.Autocommit, s.InTx)
	keys := make([]string, 0, len(s.Vars))
	for k := range s.Vars {
		keys = append(keys, k)
	}
	sort.Strings(keys)
	for _, k := range keys {
		fmt.Fprintf(&b, " %s=%q", k, s.Vars[k])
	}
	keys = keys[:0]
	for k := range s.UserVars {
		keys = append(keys, k)
	}
	sort.Strings(keys)
	for _, k := range keys {
		fmt.Fprintf(&b, " @%s=%q", k, s.UserVars[k])
	}
	return b.String()
}

// ConnState is one accepted connection. Its fields are owned by the connection's goroutine:
// handlers (which run on that goroutine) may read and change Sess; anything else must use
// the event log.
type ConnState struct {
	ID         uint32
	User       string
	Capability uint32
	Sess       Session
	Server     *Server
	Statements int // statements handled so far on this connection (COM_QUERY only)

	nc  net.Conn
	br  *bufio.Reader
	bw  *bufio.Writer
	seq byte
}

// Event is one entry of the server's log.
type Event struct {
	Seq       int64
	ConnID    uint32
	Cmd       byte
	SQL       string  // statement text; db name for COM_INIT_DB; "" for COM_PING; "connect"/"close" pseudo events have Cmd 0
	State     Session // the connection's actual session state when the statement arrived (deep copy)
	Kind      int     // kind of the reply
	ErrCode   uint16
	Rows      int   // rows emitted
	Bytes     int64 // row payload bytes emitted
	RowHashes [][32]byte
	IsSet     bool // a SET handled by the session model
	Applied   bool // ... and it was applied (false: rejected atomically)
}

// Handler answers one COM_QUERY statement. It runs on the connection's goroutine.
type Handler func(conn *ConnState, sql string) Response

// Assignment is one item of a SET statement as understood by the session model.
type Assignment struct {
	Kind      string // "names", "charset" (SET CHARACTER SET), "sys", "user", "global", "transaction"
	Name      string // lower-case variable name (without @ / @@session.)
	Value     string // canonical value text (quotes removed)
	Raw       string // value text as written
	Default   bool   // = DEFAULT (for user variables: = NULL)
	Charset   string // Kind == "names" or "charset"
	Collation string // Kind == "names", "" = default collation of Charset
}

// Server is the fake MySQL server.
type Server struct {
	Version        string // default "5.7.30-fake"
	DefaultCharset string // "utf8mb4"; used for SET NAMES DEFAULT and character_set_x = DEFAULT
	// DBCharset / DBCollation stand for @@character_set_database / @@collation_database:
	// SET CHARACTER SET x sets client and results to x but the connection to these.
	DBCharset   string
	DBCollation string
	// Users, when non-nil, maps user -> clear-text password and authentication is
	// checked (mysql_native_password); nil accepts anybody.
	Users map[string]string

	mu        sync.Mutex
	ln        net.Listener
	handler   Handler
	initDB    func(conn *ConnState, db string) Response
	fieldList func(conn *ConnState, table, wildcard string) Response
	setHook   func(conn *ConnState, as []Assignment) *Response
	conns     map[uint32]*ConnState
	nextID    uint32
	seq       int64
	events    []*Event
	logging   bool
	logPings  bool
	closed    bool
	wg        sync.WaitGroup
	accepted  int64
}

// Start listens on 127.0.0.1:0 and serves until Close.
func Start() (*Server, error) {
	ln, err := net.Listen("tcp", "127.0.0.1:0")
	if err != nil {
		return nil, err
	}
	s := &Server{Version: "5.7.30-fake", DefaultCharset: "utf8mb4", DBCharset: "utf8mb4", DBCollation: "utf8mb4_general_ci", ln: ln, conns: map[uint32]*ConnState{}, nextID: 1000, logging: true}
	s.wg.Add(1)
	go s.acceptLoop()
	return s, nil
}

// Addr is the host:port the server listens on.
func (s *Server) Addr() string { return s.ln.Addr().String() }

// SetHandler installs the COM_QUERY handler (nil: built-in session model only).
func (s *Server) SetHandler(h Handler) {
	s.mu.Lock()
	s.handler = h
	s.mu.Unlock()
}

// SetInitDBHandler scripts COM_INIT_DB (Default() applies the change and answers OK).
func (s *Server) SetInitDBHandler(h func(conn *ConnState, db string) Response) {
	s.mu.Lock()
	s.initDB = h
	s.mu.Unlock()
}

// SetFieldListHandler scripts COM_FIELD_LIST: answer KindRows (Cols only are used) or KindErr.
func (s *Server) SetFieldListHandler(h func(conn *ConnState, table, wildcard string) Response) {
	s.mu.Lock()
	s.fieldList = h
	s.mu.Unlock()
}

// SetSetHook installs the script deciding whether a SET handled by the session model is
// rejected: a non-nil Response (normally Err(1231, "42000", …)) rejects the whole statement
// atomically — no assignment of it is applied.
func (s *Server) SetSetHook(h func(conn *ConnState, as []Assignment) *Response) {
	s.mu.Lock()
	s.setHook = h
	s.mu.Unlock()
}

// SetLogging switches the event log on or off (on by default); pings are logged only when
// logPings is true.
func (s *Server) SetLogging(on, logPings bool) {
	s.mu.Lock()
	s.logging = on
	s.logPings = logPings
	s.mu.Unlock()
}

// Events returns a copy of the log.
func (s *Server) Events() []Event {
	s.mu.Lock()
	defer s.mu.Unlock()
	out := make([]Event, len(s.events))
	for i, e := range s.events {
		out[i] = *e
	}
	return out
}

// TakeEvents returns the log and empties it. Every statement is logged BEFORE its reply is
// written, so once a client has seen the reply the event is in the log; only the row
// counters of a result that is still being written may be incomplete.
func (s *Server) TakeEvents() []Event {
	s.mu.Lock()
	defer s.mu.Unlock()
	out := make([]Event, len(s.events))
	for i, e := range s.events {
		out[i] = *e
	}
	s.events = nil
	return out
}

// Accepted is the number of connections accepted so far.
func (s *Server) Accepted() int64 {
	s.mu.Lock()
	defer s.mu.Unlock()
	return s.accepted
}

// OpenConns is the number of currently open connections.
func (s *Server) OpenConns() int {
	s.mu.Lock()
	defer s.mu.Unlock()
	return len(s.conns)
}

// KillAll closes every open connection (the listener stays).
func (s *Server) KillAll() {
	s.mu.Lock()
	for _, c := range s.conns {
		c.nc.Close()
	}
	s.mu.Unlock()
}

// Close stops the listener, closes all connections and waits for their goroutines.
func (s *Server) Close() {
	s.mu.Lock()
	if s.closed {
		s.mu.Unlock()
		return
	}
	s.closed = true
	s.ln.Close()
	for _, c := range s.conns {
		c.nc.Close()
	}
	s.mu.Unlock()
	s.wg.Wait()
}

func (s *Server) acceptLoop() {
	defer s.wg.Done()
	for {
		nc, err := s.ln.Accept()
		if err != nil {
			return
		}
		if tc, ok := nc.(*net.TCPConn); ok {
			tc.SetNoDelay(true)
		}
		s.mu.Lock()
		if s.closed {
			s.mu.Unlock()
			nc.Close()
			return
		}
		s.nextID++
		s.accepted++
		c := &ConnState{ID: s.nextID, Server: s, nc: nc, br: bufio.NewReaderSize(nc, 64<<10), bw: bufio.NewWriterSize(nc, 64<<10)}
		c.Sess = Session{Vars: map[string]string{}, UserVars: map[string]string{}, Autocommit: true}
		s.conns[c.ID] = c
		s.wg.Add(1)
		s.mu.Unlock()
		go s.serve(c)
	}
}

// logEvent appends e to the log (if logging is on) and returns the logged entry, which
// finishEvent may complete later.
func (s *Server) logEvent(e Event) *Event {
	s.mu.Lock()
	defer s.mu.Unlock()
	if s.logging && (e.Cmd != ComPing || s.logPings) {
		s.seq++
		e.Seq = s.seq
		p := &e
		s.events = append(s.events, p)
		return p
	}
	return nil
}

// finishEvent stores what was emitted for a logged statement.
func (s *Server) finishEvent(p *Event, done *Event) {
	if p == nil {
		return
	}
	s.mu.Lock()
	p.Rows, p.Bytes, p.RowHashes, p.ErrCode = done.Rows, done.Bytes, done.RowHashes, done.ErrCode
	s.mu.Unlock()
}

// ---------------------------------------------------------------------------------------
// wire helpers

func (c *ConnState) readPacket() ([]byte, error) {
	var out []byte
	for {
		var hdr [4]byte
		if _, err := io.ReadFull(c.br, hdr[:]); err != nil {
			return nil, err
		}
		n := int(hdr[0]) | int(hdr[1])<<8 | int(hdr[2])<<16
		if hdr[3] != c.seq {
			return nil, fmt.Errorf("fakemysql: sequence mismatch: got %d want %d", hdr[3], c.seq)
		}
		c.seq++
		buf := make([]byte, n)
		if _, err := io.ReadFull(c.br, buf); err != nil {
			return nil, err
		}
		if out == nil {
			out = buf
		} else {
			out = append(out, buf...)
		}
		if n < maxFrame {
			return out, nil
		}
	}
}

// writeParts writes one logical packet whose payload is the concatenation of parts, split
// into frames of at most 16 MiB - 1 (with the empty trailing frame the protocol wants when
// the length is a multiple of that).
func (c *ConnState) writeParts(parts ...[]byte) error {
	total := 0
	for _, p := range parts {
		total += len(p)
	}
	remaining := total
	frameLeft := 0
	startFrame := func() error {
		n := remaining
		if n > maxFrame {
			n = maxFrame
		}
		hdr := [4]byte{byte(n), byte(n >> 8), byte(n >> 16), c.seq}
		c.seq++
		frameLeft = n
		_, err := c.bw.Write(hdr[:])
		return err
	}
	if err := startFrame(); err != nil {
		return err
	}
	lastFull := frameLeft == maxFrame
	for _, p := range parts {
		for len(p) > 0 {
			if frameLeft == 0 {
				if err := startFrame(); err != nil {
					return err
				}
				lastFull = frameLeft == maxFrame
			}
			n := len(p)
			if n > frameLeft {
				n = frameLeft
			}
			if _, err := c.bw.Write(p[:n]); err != nil {
				return err
			}
			p = p[n:]
			frameLeft -= n
			remaining -= n
		}
	}
	if lastFull && remaining == 0 {
		// payload length is a positive multiple of maxFrame: terminate with an empty frame
		hdr := [4]byte{0, 0, 0, c.seq}
		c.seq++
		if _, err := c.bw.Write(hdr[:]); err != nil {
			return err
		}
	}
	return nil
}

func (c *ConnState) writePacket(p []byte) error { return c.writeParts(p) }

func lenEncInt(n uint64) []byte {
	switch {
	case n < 251:
		return []byte{byte(n)}
	case n < 1<<16:
		return []byte{0xfc, byte(n), byte(n >> 8)}
	case n < 1<<24:
		return []byte{0xfd, byte(n), byte(n >> 8), byte(n >> 16)}
	default:
		return []byte{0xfe, byte(n), byte(n >> 8), byte(n >> 16), byte(n >> 24), byte(n >> 32), byte(n >> 40), byte(n >> 48), byte(n >> 56)}
	}
}

func lenEncStr(b *bytes.Buffer, s string) {
	b.Write(lenEncInt(uint64(len(s))))
	b.WriteString(s)
}

func (c *ConnState) status(extra uint16) uint16 {
	st := extra
	if c.Sess.Autocommit {
		st |= StatusAutocommit
	}
	if c.Sess.InTx {
		st |= StatusInTrans
	}
	return st
}

func (c *ConnState) writeOK(r *Response, extra uint16) error {
	var b bytes.Buffer
	b.WriteByte(0)
	b.Write(lenEncInt(r.AffectedRows))
	b.Write(lenEncInt(r.LastInsertID))
	st := c.status(r.Status | extra)
	b.Write([]byte{byte(st), byte(st >> 8), byte(r.Warnings), byte(r.Warnings >> 8)})
	b.WriteString(r.Info)
	return c.writePacket(b.Bytes())
}

func (c *ConnState) writeErr(code uint16, state, msg string) error {
	if len(state) != 5 {
		state = "HY000"
	}
	var b bytes.Buffer
	b.WriteByte(0xff)
	b.Write([]byte{byte(code), byte(code >> 8)})
	b.WriteByte('#')
	b.WriteString(state)
	b.WriteString(msg)
	return c.writePacket(b.Bytes())
}

func (c *ConnState) writeEOF(extra uint16, warnings uint16) error {
	st := c.status(extra)
	return c.writePacket([]byte{0xfe, byte(warnings), byte(warnings >> 8), byte(st), byte(st >> 8)})
}

func columnPacket(col Column) []byte {
	var b bytes.Buffer
	lenEncStr(&b, "def")
	lenEncStr(&b, col.Schema)
	lenEncStr(&b, col.Table)
	lenEncStr(&b, col.OrgTable)
	lenEncStr(&b, col.Name)
	lenEncStr(&b, col.OrgName)
	b.WriteByte(0x0c)
	cs := col.Charset
	if cs == 0 {
		cs = 33
	}
	typ := col.Type
	if typ == 0 {
		typ = TypeVarString
	}
	b.Write([]byte{byte(cs), byte(cs >> 8)})
	var l [4]byte
	binary.LittleEndian.PutUint32(l[:], col.Length)
	b.Write(l[:])
	b.WriteByte(typ)
	b.Write([]byte{byte(col.Flags), byte(col.Flags >> 8)})
	b.WriteByte(col.Decimals)
	b.Write([]byte{0, 0})
	if col.WithDefault {
		b.Write(lenEncInt(uint64(len(col.Default))))
		b.Write(col.Default)
	}
	return b.Bytes()
}

// TextRowPayload encodes cells as a text-protocol row packet payload (nil = NULL).
func TextRowPayload(cells [][]byte) []byte {
	var b bytes.Buffer
	for _, cell := range cells {
		if cell == nil {
			b.WriteByte(0xfb)
			continue
		}
		b.Write(lenEncInt(uint64(len(cell))))
		b.Write(cell)
	}
	return b.Bytes()
}

// HashCells is the SHA-256 of the text-protocol row payload of cells; it equals the hash
// recorded in Event.RowHashes for the same row.
func HashCells(cells [][]byte) [32]byte {
	h := sha256.New()
	for _, cell := range cells {
		if cell == nil {
			h.Write([]byte{0xfb})
			continue
		}
		h.Write(lenEncInt(uint64(len(cell))))
		h.Write(cell)
	}
	var out [32]byte
	copy(out[:], h.Sum(nil))
	return out
}

// writeResult writes one reply (and its chained successors) and returns what was emitted.
func (c *ConnState) writeResult(r *Response, ev *Event) (closed bool, err error) {
	for r != nil {
		var more uint16
		if r.Next != nil {
			more = StatusMoreResults
		}
		switch r.Kind {
		case KindOK, KindDefault:
			if err = c.writeOK(r, more); err != nil {
				return false, err
			}
		case KindErr:
			ev.ErrCode = r.Code
			if err = c.writeErr(r.Code, r.State, r.Msg); err != nil {
				return false, err
			}
			return false, c.bw.Flush() // an error ends a multi-result reply
		case KindClose:
			c.bw.Flush()
			return true, nil
		case KindRows:
			if err = c.writePacket(lenEncInt(uint64(len(r.Cols)))); err != nil {
				return false, err
			}
			for _, col := range r.Cols {
				if err = c.writePacket(columnPacket(col)); err != nil {
					return false, err
				}
			}
			if err = c.writeEOF(r.Status|more, 0); err != nil {
				return false, err
			}
			if r.Rows != nil {
				parts := make([][]byte, 0, 2*len(r.Cols))
				for {
					cells, ok := r.Rows.Next()
					if !ok {
						break
					}
					parts = parts[:0]
					n := 0
					for _, cell := range cells {
						if cell == nil {
							parts = append(parts, []byte{0xfb})
							n++
							continue
						}
						le := lenEncInt(uint64(len(cell)))
						parts = append(parts, le, cell)
						n += len(le) + len(cell)
					}
					if r.HashRows {
						h := sha256.New()
						for _, p := range parts {
							h.Write(p)
						}
						var sum [32]byte
						copy(sum[:], h.Sum(nil))
						ev.RowHashes = append(ev.RowHashes, sum)
					}
					if err = c.writeParts(parts...); err != nil {
						return false, err
					}
					ev.Rows++
					ev.Bytes += int64(n)
					if r.CloseAfterRows > 0 && ev.Rows >= r.CloseAfterRows {
						c.bw.Flush()
						return true, nil
					}
				}
			}
			if err = c.writeEOF(r.Status|more, r.Warnings); err != nil {
				return false, err
			}
		}
		r = r.Next
	}
	return false, c.bw.Flush()
}

// ---------------------------------------------------------------------------------------
// connection phase

func nativeScramble(salt []byte, password string) []byte {
	if password == "" {
		return nil
	}
	h1 := sha1.Sum([]byte(password))
	h2 := sha1.Sum(h1[:])
	h := sha1.New()
	h.Write(salt)
	h.Write(h2[:])
	h3 := h.Sum(nil)
	out := make([]byte, 20)
	for i := range out {
		out[i] = h1[i] ^ h3[i]
	}
	return out
}

const serverCaps = CapLongPassword | CapFoundRows | CapLongFlag | CapConnectWithDB | CapProtocol41 |
	CapTransactions | CapSecureConnection | CapMultiStatements | CapMultiResults | CapPSMultiResults | CapPluginAuth

func (s *Server) handshake(c *ConnState) error {
	salt := make([]byte, 20)
	x := uint32(c.ID)*2654435761 + 12345
	for i := range salt {
		x = x*1664525 + 1013904223
		salt[i] = byte(33 + (x>>16)%90) // printable, never 0
	}
	var b bytes.Buffer
	b.WriteByte(10)
	b.WriteString(s.Version)
	b.WriteByte(0)
	var id [4]byte
	binary.LittleEndian.PutUint32(id[:], c.ID)
	b.Write(id[:])
	b.Write(salt[:8])
	b.WriteByte(0)
	b.Write([]byte{byte(serverCaps & 0xff), byte((serverCaps >> 8) & 0xff)})
	b.WriteByte(45) // utf8mb4_general_ci
	st := c.status(0)
	b.Write([]byte{byte(st), byte(st >> 8)})
	b.Write([]byte{byte((serverCaps >> 16) & 0xff), byte((serverCaps >> 24) & 0xff)})
	b.WriteByte(21)
	b.Write(make([]byte, 10))
	b.Write(salt[8:])
	b.WriteByte(0)
	b.WriteString("mysql_native_password")
	b.WriteByte(0)
	c.seq = 0
	if err := c.writePacket(b.Bytes()); err != nil {
		return err
	}
	if err := c.bw.Flush(); err != nil {
		return err
	}
	p, err := c.readPacket()
	if err != nil {
		return err
	}
	if len(p) < 32 {
		return errors.New("fakemysql: short handshake response")
	}
	c.Capability = binary.LittleEndian.Uint32(p)
	coll := p[8]
	pos := 32
	i := bytes.IndexByte(p[pos:], 0)
	if i < 0 {
		return errors.New("fakemysql: handshake response without user terminator")
	}
	c.User = string(p[pos : pos+i])
	pos += i + 1
	var auth []byte
	if pos < len(p) {
		if c.Capability&CapPluginAuthLenenc != 0 || c.Capability&CapSecureConnection != 0 {
			n := int(p[pos])
			pos++
			if pos+n > len(p) {
				return errors.New("fakemysql: bad auth length")
			}
			auth = p[pos : pos+n]
			pos += n
		} else {
			j := bytes.IndexByte(p[pos:], 0)
			if j < 0 {
				j = len(p) - pos
			}
			auth = p[pos : pos+j]
			pos += j + 1
		}
	}
	if c.Capability&CapConnectWithDB != 0 && pos < len(p) {
		j := bytes.IndexByte(p[pos:], 0)
		if j < 0 {
			j = len(p) - pos
		}
		c.Sess.DB = string(p[pos : pos+j])
		pos += j + 1
	}
	// the auth plugin name may or may not follow (Gaea sets CLIENT_PLUGIN_AUTH without sending one)
	name, cs := CollationByID(coll)
	c.Sess.Collation = name
	c.Sess.CharsetClient, c.Sess.CharsetConnection, c.Sess.CharsetResults = cs, cs, cs
	if s.Users != nil {
		pw, ok := s.Users[c.User]
		if !ok || !bytes.Equal(auth, nativeScramble(salt, pw)) {
			c.writeErr(1045, "28000", fmt.Sprintf("Access denied for user '%s'@'localhost' (using password: YES)", c.User))
			c.bw.Flush()
			return errors.New("fakemysql: access denied")
		}
	}
	if err := c.writeOK(&Response{}, 0); err != nil {
		return err
	}
	return c.bw.Flush()
}

func (s *Server) serve(c *ConnState) {
	defer s.wg.Done()
	defer func() {
		c.nc.Close()
		s.mu.Lock()
		delete(s.conns, c.ID)
		s.mu.Unlock()
	}()
	if err := s.handshake(c); err != nil {
		return
	}
	s.logEvent(Event{ConnID: c.ID, SQL: "connect", State: c.Sess.Clone()})
	for {
		c.seq = 0
		p, err := c.readPacket()
		if err != nil {
			s.logEvent(Event{ConnID: c.ID, SQL: "close", State: c.Sess.Clone()})
			return
		}
		if len(p) == 0 {
			c.writeErr(1047, "08S01", "Unknown command")
			c.bw.Flush()
			continue
		}
		cmd, arg := p[0], p[1:]
		ev := Event{ConnID: c.ID, Cmd: cmd, State: c.Sess.Clone()}
		var resp Response
		switch cmd {
		case ComQuit:
			s.logEvent(Event{ConnID: c.ID, Cmd: ComQuit, SQL: "quit", State: c.Sess.Clone()})
			return
		case ComPing:
			resp = OK(0, 0)
		case ComInitDB:
			db := string(arg)
			ev.SQL = db
			s.mu.Lock()
			h := s.initDB
			s.mu.Unlock()
			resp = Default()
			if h != nil {
				resp = h(c, db)
			}
			if resp.Kind == KindDefault {
				c.Sess.DB = db
				resp = OK(0, 0)
			}
		case ComQuery:
			sql := string(arg)
			ev.SQL = sql
			c.Statements++
			s.mu.Lock()
			h := s.handler
			s.mu.Unlock()
			resp = Default()
			if h != nil {
				resp = h(c, sql)
			}
			if resp.Kind == KindDefault {
				resp = s.builtin(c, sql, &ev)
			}
		case ComFieldList:
			table, wild := string(arg), ""
			if i := bytes.IndexByte(arg, 0); i >= 0 {
				table, wild = string(arg[:i]), strings.TrimRight(string(arg[i+1:]), "\x00")
			}
			ev.SQL = table
			s.mu.Lock()
			h := s.fieldList
			s.mu.Unlock()
			resp = Response{Kind: KindRows}
			if h != nil {
				resp = h(c, table, wild)
			}
			if resp.Kind == KindRows {
				// COM_FIELD_LIST reply: column definitions (with default) + EOF, no count, no rows
				ev.Kind = KindRows
				s.logEvent(ev)
				var werr error
				for _, col := range resp.Cols {
					col.WithDefault = true
					if werr = c.writePacket(columnPacket(col)); werr != nil {
						break
					}
				}
				if werr == nil {
					werr = c.writeEOF(0, 0)
				}
				if werr == nil {
					werr = c.bw.Flush()
				}
				if werr != nil {
					return
				}
				continue
			}
		default:
			resp = Err(1047, "08S01", "Unknown command")
		}
		ev.Kind = resp.Kind
		if resp.Kind == KindErr {
			ev.ErrCode = resp.Code
		}
		logged := s.logEvent(ev) // before the reply: whoever sees the reply finds the event
		closed, werr := c.writeResult(&resp, &ev)
		s.finishEvent(logged, &ev)
		if closed || werr != nil {
			return
		}
	}
}

// ---------------------------------------------------------------------------------------
// built-in session model

func firstWords(sql string, n int) []string {
	f := strings.Fields(strings.ToLower(strings.TrimSpace(sql)))
	if len(f) > n {
		f = f[:n]
	}
	for i := range f {
		f[i] = strings.TrimRight(f[i], ";")
	}
	return f
}

func (s *Server) builtin(c *ConnState, sql string, ev *Event) Response {
	w := firstWords(sql, 3)
	if len(w) == 0 {
		return Err(1065, "42000", "Query was empty")
	}
	switch w[0] {
	case "set":
		as, perr := ParseSet(sql)
		if perr != nil {
			return Err(1064, "42000", "You have an error in your SQL syntax; "+perr.Error())
		}
		ev.IsSet = true
		if r := s.checkSet(c, as); r != nil {
			return *r
		}
		s.mu.Lock()
		hook := s.setHook
		s.mu.Unlock()
		if hook != nil {
			if r := hook(c, as); r != nil {
				return *r
			}
		}
		s.applySet(c, as)
		ev.Applied = true
		return OK(0, 0)
	case "begin":
		c.Sess.InTx = true
		return OK(0, 0)
	case "start":
		if len(w) > 1 && w[1] == "transaction" {
			c.Sess.InTx = true
		}
		return OK(0, 0)
	case "commit":
		c.Sess.InTx = false
		return OK(0, 0)
	case "rollback":
		if len(w) > 1 && (w[1] == "to" || w[1] == "work" && len(w) > 2 && w[2] == "to") {
			return OK(0, 0) // ROLLBACK TO SAVEPOINT keeps the transaction
		}
		c.Sess.InTx = false
		return OK(0, 0)
	case "use":
		db := strings.Trim(strings.TrimSpace(strings.TrimRight(strings.TrimSpace(sql)[3:], "; ")), "`")
		c.Sess.DB = db
		return OK(0, 0)
	case "select", "show", "desc", "describe", "explain":
		if !c.Sess.Autocommit && w[0] == "select" {
			c.Sess.InTx = true
		}
		return TextResult([]string{"fake"}, []string{"1"})
	case "insert", "update", "delete", "replace":
		if !c.Sess.Autocommit {
			c.Sess.InTx = true
		}
		return OK(1, 0)
	}
	return OK(0, 0)
}

// checkSet validates what real MySQL validates in the check phase of SET (before anything
// is assigned): character set and collation names.
func (s *Server) checkSet(c *ConnState, as []Assignment) *Response {
	for _, a := range as {
		if a.Kind != "names" && a.Kind != "charset" {
			continue
		}
		cs := a.Charset
		if cs == "default" {
			continue
		}
		if _, ok := charsetDefaultCollation[cs]; !ok {
			r := Err(1115, "42000", fmt.Sprintf("Unknown character set: '%s'", cs))
			return &r
		}
		if a.Collation != "" && a.Collation != "default" {
			ccs, ok := CharsetOfCollation(a.Collation)
			if !ok {
				r := Err(1273, "HY000", fmt.Sprintf("Unknown collation: '%s'", a.Collation))
				return &r
			}
			if ccs != cs {
				r := Err(1253, "42000", fmt.Sprintf("COLLATION '%s' is not valid for CHARACTER SET '%s'", a.Collation, cs))
				return &r
			}
		}
	}
	return nil
}

func isTrue(v string) bool {
	switch strings.ToLower(v) {
	case "1", "on", "true":
		return true
	}
	return false
}

func (s *Server) applySet(c *ConnState, as []Assignment) {
	for _, a := range as {
		switch a.Kind {
		case "names":
			cs := a.Charset
			if cs == "default" {
				cs = s.DefaultCharset
			}
			coll := a.Collation
			if coll == "" || coll == "default" {
				coll = charsetDefaultCollation[cs]
			}
			c.Sess.CharsetClient, c.Sess.CharsetConnection, c.Sess.CharsetResults = cs, cs, cs
			c.Sess.Collation = coll
		case "charset":
			cs := a.Charset
			if cs == "default" {
				cs = s.DefaultCharset
			}
			c.Sess.CharsetClient, c.Sess.CharsetResults = cs, cs
			c.Sess.CharsetConnection, c.Sess.Collation = s.DBCharset, s.DBCollation
		case "user":
			if a.Default {
				delete(c.Sess.UserVars, a.Name)
			} else {
				c.Sess.UserVars[a.Name] = a.Value
			}
		case "sys":
			switch a.Name {
			case "autocommit":
				on := a.Default || isTrue(a.Value)
				if on && !c.Sess.Autocommit {
					c.Sess.InTx = false // switching autocommit on commits
				}
				c.Sess.Autocommit = on
			case "character_set_client", "character_set_results", "character_set_connection":
				v := strings.ToLower(a.Value)
				if a.Default {
					v = s.DefaultCharset
				}
				switch a.Name {
				case "character_set_client":
					c.Sess.CharsetClient = v
				case "character_set_results":
					c.Sess.CharsetResults = v
				default:
					c.Sess.CharsetConnection = v
					if dc, ok := charsetDefaultCollation[v]; ok {
						c.Sess.Collation = dc
					}
				}
			case "collation_connection":
				v := strings.ToLower(a.Value)
				if cs, ok := CharsetOfCollation(v); ok {
					c.Sess.Collation = v
					c.Sess.CharsetConnection = cs
				}
			default:
				if a.Default {
					delete(c.Sess.Vars, a.Name)
				} else {
					c.Sess.Vars[a.Name] = a.Value
				}
			}
		}
		// "global" and "transaction" items do not change the modelled session state
	}
}

// splitTop splits s at sep occurring outside quotes and parentheses.
func splitTop(s string, sep byte) []string {
	var out []string
	depth := 0
	var q byte
	start := 0
	for i := 0; i < len(s); i++ {
		ch := s[i]
		if q != 0 {
			if ch == '\\' && q != '`' && i+1 < len(s) {
				i++
				continue
			}
			if ch == q {
				if i+1 < len(s) && s[i+1] == q {
					i++
					continue
				}
				q = 0
			}
			continue
		}
		switch ch {
		case '\'', '"', '`':
			q = ch
		case '(':
			depth++
		case ')':
			if depth > 0 {
				depth--
			}
		default:
			if ch == sep && depth == 0 {
				out = append(out, s[start:i])
				start = i + 1
			}
		}
	}
	return append(out, s[start:])
}

// Unquote removes one level of SQL string quoting ('..', "..", `..`); other text is
// returned trimmed.
func Unquote(v string) string {
	v = strings.TrimSpace(v)
	if len(v) >= 2 {
		q := v[0]
		if (q == '\'' || q == '"' || q == '`') && v[len(v)-1] == q {
			in := v[1 : len(v)-1]
			var b strings.Builder
			for i := 0; i < len(in); i++ {
				ch := in[i]
				if ch == '\\' && q != '`' && i+1 < len(in) {
					i++
					switch in[i] {
					case 'n':
						b.WriteByte('\n')
					case 't':
						b.WriteByte('\t')
					case '0':
						b.WriteByte(0)
					case 'r':
						b.WriteByte('\r')
					default:
						b.WriteByte(in[i])
					}
					continue
				}
				if ch == q && i+1 < len(in) && in[i+1] == q {
					i++
				}
				b.WriteByte(ch)
			}
			return b.String()
		}
	}
	return v
}

func hasPrefixFold(s, p string) bool {
	return len(s) >= len(p) && strings.EqualFold(s[:len(p)], p)
}

// ParseSet parses a SET statement into its assignments.
func ParseSet(sql string) ([]Assignment, error) {
	t := strings.TrimSpace(sql)
	t = strings.TrimRight(t, "; \t\r\n")
	if !hasPrefixFold(t, "set") || len(t) < 4 {
		return nil, errors.New("not a SET statement")
	}
	t = t[3:]
	var out []Assignment
	sticky := "sys" // SET GLOBAL a=1, b=2 makes b global too
	for idx, item := range splitTop(t, ',') {
		it := strings.TrimSpace(item)
		if it == "" {
			return nil, errors.New("empty assignment")
		}
		low := strings.ToLower(it)
		f := strings.Fields(low)
		if f[0] == "names" || (f[0] == "character" && len(f) > 1 && f[1] == "set") || f[0] == "charset" {
			of := strings.Fields(it)
			skip := 1
			if f[0] == "character" {
				skip = 2
			}
			if len(of) <= skip {
				return nil, errors.New("missing character set name")
			}
			a := Assignment{Kind: "names", Charset: strings.ToLower(Unquote(of[skip])), Raw: it}
			if f[0] != "names" {
				a.Kind = "charset" // SET CHARACTER SET / SET CHARSET
				if len(of) != skip+1 {
					return nil, fmt.Errorf("near '%s'", strings.Join(of[skip+1:], " "))
				}
			}
			if len(of) > skip+1 {
				if !strings.EqualFold(of[skip+1], "collate") || len(of) != skip+3 {
					return nil, fmt.Errorf("near '%s'", strings.Join(of[skip+1:], " "))
				}
				a.Collation = strings.ToLower(Unquote(of[skip+2]))
			}
			out = append(out, a)
			continue
		}
		if idx == 0 && (f[0] == "transaction" || (len(f) > 1 && f[1] == "transaction" && (f[0] == "session" || f[0] == "global" || f[0] == "local"))) {
			out = append(out, Assignment{Kind: "transaction", Raw: it, Value: low})
			continue
		}
		// lhs = rhs
		parts := splitTop(it, '=')
		if len(parts) < 2 {
			return nil, fmt.Errorf("near '%s'", it)
		}
		lhs := strings.TrimSpace(parts[0])
		rhs := strings.TrimSpace(strings.Join(parts[1:], "="))
		lhs = strings.TrimSpace(strings.TrimSuffix(lhs, ":"))
		a := Assignment{Kind: sticky, Raw: rhs}
		ll := strings.ToLower(lhs)
		switch {
		case strings.HasPrefix(ll, "@@global."):
			a.Kind, lhs = "global", lhs[9:]
		case strings.HasPrefix(ll, "@@session."):
			a.Kind, lhs = "sys", lhs[10:]
		case strings.HasPrefix(ll, "@@local."):
			a.Kind, lhs = "sys", lhs[8:]
		case strings.HasPrefix(ll, "@@"):
			a.Kind, lhs = "sys", lhs[2:]
		case strings.HasPrefix(ll, "@"):
			a.Kind, lhs = "user", lhs[1:]
		case strings.HasPrefix(ll, "global "):
			a.Kind, lhs = "global", strings.TrimSpace(lhs[7:])
			sticky = "global"
		case strings.HasPrefix(ll, "session "):
			a.Kind, lhs = "sys", strings.TrimSpace(lhs[8:])
			sticky = "sys"
		case strings.HasPrefix(ll, "local "):
			a.Kind, lhs = "sys", strings.TrimSpace(lhs[6:])
			sticky = "sys"
		}
		a.Name = strings.ToLower(Unquote(lhs))
		if a.Name == "" || strings.ContainsAny(a.Name, " \t") {
			return nil, fmt.Errorf("near '%s'", it)
		}
		if rhs == "" {
			return nil, fmt.Errorf("near '%s'", it)
		}
		switch {
		case strings.EqualFold(rhs, "default") && a.Kind != "user":
			a.Default = true
		case strings.EqualFold(rhs, "null") && a.Kind == "user":
			a.Default = true
		default:
			a.Value = Unquote(rhs)
		}
		out = append(out, a)
	}
	return out, nil
}

// ---------------------------------------------------------------------------------------
// character sets

var charsetDefaultCollation = map[string]string{
	"big5": "big5_chinese_ci", "dec8": "dec8_swedish_ci", "cp850": "cp850_general_ci", "hp8": "hp8_english_ci",
	"koi8r": "koi8r_general_ci", "latin1": "latin1_swedish_ci", "latin2": "latin2_general_ci", "swe7": "swe7_swedish_ci",
	"ascii": "ascii_general_ci", "ujis": "ujis_japanese_ci", "sjis": "sjis_japanese_ci", "hebrew": "hebrew_general_ci",
	"tis620": "tis620_thai_ci", "euckr": "euckr_korean_ci", "koi8u": "koi8u_general_ci", "gb2312": "gb2312_chinese_ci",
	"greek": "greek_general_ci", "cp1250": "cp1250_general_ci", "gbk": "gbk_chinese_ci", "latin5": "latin5_turkish_ci",
	"armscii8": "armscii8_general_ci", "utf8": "utf8_general_ci", "ucs2": "ucs2_general_ci", "cp866": "cp866_general_ci",
	"keybcs2": "keybcs2_general_ci", "macce": "macce_general_ci", "macroman": "macroman_general_ci", "cp852": "cp852_general_ci",
	"latin7": "latin7_general_ci", "utf8mb4": "utf8mb4_general_ci", "cp1251": "cp1251_general_ci", "utf16": "utf16_general_ci",
	"utf16le": "utf16le_general_ci", "cp1256": "cp1256_general_ci", "cp1257": "cp1257_general_ci", "utf32": "utf32_general_ci",
	"binary": "binary", "geostd8": "geostd8_general_ci", "cp932": "cp932_japanese_ci", "eucjpms": "eucjpms_japanese_ci",
	"gb18030": "gb18030_chinese_ci",
}

// DefaultCollation returns the default collation of a character set (MySQL 5.7 table).
func DefaultCollation(charset string) (string, bool) {
	c, ok := charsetDefaultCollation[strings.ToLower(charset)]
	return c, ok
}

// CharsetOfCollation derives the character set of a collation name (every MySQL collation
// name is "<charset>_..." except "binary").
func CharsetOfCollation(coll string) (string, bool) {
	coll = strings.ToLower(coll)
	if coll == "binary" {
		return "binary", true
	}
	i := strings.IndexByte(coll, '_')
	if i <= 0 {
		return "", false
	}
	cs := coll[:i]
	if _, ok := charsetDefaultCollation[cs]; !ok {
		return "", false
	}
	return cs, true
}

var collationIDs = map[byte]string{
	1: "big5_chinese_ci", 3: "dec8_swedish_ci", 4: "cp850_general_ci", 6: "hp8_english_ci", 7: "koi8r_general_ci",
	8: "latin1_swedish_ci", 9: "latin2_general_ci", 10: "swe7_swedish_ci", 11: "ascii_general_ci", 12: "ujis_japanese_ci",
	13: "sjis_japanese_ci", 16: "hebrew_general_ci", 18: "tis620_thai_ci", 19: "euckr_korean_ci", 22: "koi8u_general_ci",
	24: "gb2312_chinese_ci", 25: "greek_general_ci", 26: "cp1250_general_ci", 28: "gbk_chinese_ci", 30: "latin5_turkish_ci",
	32: "armscii8_general_ci", 33: "utf8_general_ci", 35: "ucs2_general_ci", 36: "cp866_general_ci", 37: "keybcs2_general_ci",
	38: "macce_general_ci", 39: "macroman_general_ci", 40: "cp852_general_ci", 41: "latin7_general_ci", 45: "utf8mb4_general_ci",
	46: "utf8mb4_bin", 47: "latin1_bin", 48: "latin1_general_ci", 49: "latin1_general_cs", 51: "cp1251_general_ci",
	54: "utf16_general_ci", 55: "utf16_bin", 56: "utf16le_general_ci", 57: "cp1256_general_ci", 59: "cp1257_general_ci",
	60: "utf32_general_ci", 61: "utf32_bin", 63: "binary", 65: "ascii_bin", 83: "utf8_bin", 84: "big5_bin", 86: "gb2312_bin",
	87: "gbk_bin", 90: "ucs2_bin", 92: "geostd8_general_ci", 95: "cp932_japanese_ci", 97: "eucjpms_japanese_ci",
	192: "utf8_unicode_ci", 224: "utf8mb4_unicode_ci", 248: "gb18030_chinese_ci", 249: "gb18030_bin", 255: "utf8mb4_0900_ai_ci",
}

// CollationByID maps a handshake collation id to (collation, charset); unknown ids give
// "#<id>" for both.
func CollationByID(id byte) (collation, charset string) {
	if n, ok := collationIDs[id]; ok {
		cs, _ := CharsetOfCollation(n)
		return n, cs
	}
	x := fmt.Sprintf("#%d", id)
	return x, x
}
