// Package mycli is a minimal MySQL client written from the protocol description,
// independently of Gaea's mysql package (standard library only). It is the client side of
// the session rigs and the independent decoder of text and binary result sets.
package mycli

import (
	"bytes"
	"crypto/sha1"
	"encoding/binary"
	"errors"
	"fmt"
	"io"
	"math"
	"net"
	"strconv"
	"time"
)

// Capability flags (subset).
const (
	ClientLongPassword     = 1 << 0
	ClientFoundRows        = 1 << 1
	ClientLongFlag         = 1 << 2
	ClientConnectWithDB    = 1 << 3
	ClientProtocol41       = 1 << 9
	ClientTransactions     = 1 << 13
	ClientSecureConnection = 1 << 15
	ClientMultiStatements  = 1 << 16
	ClientMultiResults     = 1 << 17
	ClientPSMultiResults   = 1 << 18
	ClientPluginAuth       = 1 << 19
)

// Commands.
const (
	ComQuit             = 0x01
	ComInitDB           = 0x02
	ComQuery            = 0x03
	ComFieldList        = 0x04
	ComPing             = 0x0e
	ComStmtPrepare      = 0x16
	ComStmtExecute      = 0x17
	ComStmtSendLongData = 0x18
	ComStmtClose        = 0x19
	ComStmtReset        = 0x1a
	ComSetOption        = 0x1b
)

const (
	StatusInTrans        = 0x0001
	StatusAutocommit     = 0x0002
	StatusMoreResults    = 0x0008
	maxPayload           = 1<<24 - 1
	defaultClientTimeout = 60 * time.Second
)

// Conn is one client connection.
type Conn struct {
	C          net.Conn
	seq        byte
	Capability uint32
	ConnID     uint32
	Salt       []byte
	ServerVer  string
	AuthPlugin string
	Timeout    time.Duration
}

// Col is a column definition as received.
type Col struct {
	Schema, Table, OrgTable, Name, OrgName string
	Charset                                uint16
	Length                                 uint32
	Type                                   byte
	Flags                                  uint16
	Decimals                               byte
}

// ErrPacket is a server error reply.
type ErrPacket struct {
	Code  uint16
	State string
	Msg   string
}

func (e *ErrPacket) Error() string { return fmt.Sprintf("ERROR %d (%s): %s", e.Code, e.State, e.Msg) }

// Reply is one result of a command: OK, ERR, or a result set.
type Reply struct {
	Err          *ErrPacket
	IsOK         bool
	AffectedRows uint64
	LastInsertID uint64
	Status       uint16
	Warnings     uint16
	Info         string
	Cols         []Col
	Rows         [][]*string // text rendering; nil = NULL
	RawRows      [][]byte    // raw row packets (text or binary protocol)
	Binary       bool
}

// Options for Connect.
type Options struct {
	User, Password, DB string
	Capability         uint32 // 0 = default
	Collation          byte   // 0 = 33 (utf8_general_ci)
	Timeout            time.Duration
	AuthResponse       []byte // if non-nil, sent instead of the computed scramble
	AuthPluginName     string // sent when ClientPluginAuth is set
}

// DefaultCapability is what Connect announces unless told otherwise.
const DefaultCapability = ClientLongPassword | ClientLongFlag | ClientConnectWithDB | ClientProtocol41 |
	ClientTransactions | ClientSecureConnection | ClientMultiStatements | ClientMultiResults | ClientPSMultiResults

// NativePassword computes the mysql_native_password scramble.
func NativePassword(salt []byte, password string) []byte {
	if password == "" {
		return nil
	}
	h1 := sha1.Sum([]byte(password))
	h2 := sha1.Sum(h1[:])
	h := sha1.New()
	h.Write(salt)
	h.Write(h2[:])
	h3 := h.Sum(nil)
	out := make([]byte, 20)
	for i := range out {
		out[i] = h1[i] ^ h3[i]
	}
	return out
}

// Dial connects over TCP and performs the handshake.
func Dial(addr string, o Options) (*Conn, error) {
	c, err := net.DialTimeout("tcp", addr, 10*time.Second)
	if err != nil {
		return nil, err
	}
	cn, err := Handshake(c, o)
	if err != nil {
		c.Close()
		return nil, err
	}
	return cn, nil
}

// NewRaw wraps a net.Conn without handshaking (for hostile-input monitors).
func NewRaw(c net.Conn, timeout time.Duration) *Conn {
	if timeout == 0 {
		timeout = defaultClientTimeout
	}
	return &Conn{C: c, Timeout: timeout}
}

// ReadHandshake reads and parses the server's initial handshake packet.
func (c *Conn) ReadHandshake() error {
	p, err := c.ReadPacket()
	if err != nil {
		return err
	}
	if len(p) > 0 && p[0] == 0xff {
		return parseErr(p)
	}
	if len(p) < 1 || p[0] != 10 {
		return fmt.Errorf("unexpected handshake protocol version")
	}
	pos := 1
	i := bytes.IndexByte(p[pos:], 0)
	if i < 0 {
		return errors.New("bad handshake")
	}
	c.ServerVer = string(p[pos : pos+i])
	pos += i + 1
	if len(p) < pos+4+8+1+2 {
		return errors.New("short handshake")
	}
	c.ConnID = binary.LittleEndian.Uint32(p[pos:])
	pos += 4
	salt := append([]byte{}, p[pos:pos+8]...)
	pos += 8 + 1
	capLo := binary.LittleEndian.Uint16(p[pos:])
	pos += 2
	c.Capability = uint32(capLo)
	if len(p) > pos {
		pos++ // charset
		pos += 2
		capHi := binary.LittleEndian.Uint16(p[pos:])
		c.Capability |= uint32(capHi) << 16
		pos += 2
		pos++ // auth data len
		pos += 10
		if len(p) >= pos+12 {
			salt = append(salt, p[pos:pos+12]...)
			pos += 13
		}
		if pos < len(p) {
			rest := p[pos:]
			if j := bytes.IndexByte(rest, 0); j >= 0 {
				rest = rest[:j]
			}
			c.AuthPlugin = string(rest)
		}
	}
	c.Salt = salt
	return nil
}

// Handshake performs the client side of the connection phase on an established net.Conn.
func Handshake(nc net.Conn, o Options) (*Conn, error) {
	c := NewRaw(nc, o.Timeout)
	if err := c.ReadHandshake(); err != nil {
		return nil, err
	}
	capab := o.Capability
	if capab == 0 {
		capab = DefaultCapability
	}
	if o.DB == "" {
		capab &^= ClientConnectWithDB
	}
	coll := o.Collation
	if coll == 0 {
		coll = 33
	}
	auth := o.AuthResponse
	if auth == nil {
		auth = NativePassword(c.Salt, o.Password)
	}
	var b bytes.Buffer
	w4 := make([]byte, 4)
	binary.LittleEndian.PutUint32(w4, capab)
	b.Write(w4)
	binary.LittleEndian.PutUint32(w4, 1<<24)
	b.Write(w4)
	b.WriteByte(coll)
	b.Write(make([]byte, 23))
	b.WriteString(o.User)
	b.WriteByte(0)
	b.WriteByte(byte(len(auth)))
	b.Write(auth)
	if capab&ClientConnectWithDB != 0 {
		b.WriteString(o.DB)
		b.WriteByte(0)
	}
	if capab&ClientPluginAuth != 0 {
		name := o.AuthPluginName
		if name == "" {
			name = "mysql_native_password"
		}
		b.WriteString(name)
		b.WriteByte(0)
	}
	if err := c.WritePacket(b.Bytes()); err != nil {
		return nil, err
	}
	p, err := c.ReadPacket()
	if err != nil {
		return nil, err
	}
	if len(p) > 0 && p[0] == 0xff {
		return nil, parseErr(p)
	}
	if len(p) > 0 && p[0] == 0xfe {
		return nil, fmt.Errorf("auth switch requested (not handled by mycli.Handshake)")
	}
	c.Capability = capab
	return c, nil
}

func (c *Conn) deadline() {
	t := c.Timeout
	if t == 0 {
		t = defaultClientTimeout
	}
	c.C.SetDeadline(time.Now().Add(t))
}

// ResetSeq starts a new command.
func (c *Conn) ResetSeq() { c.seq = 0 }

// Seq returns the next expected sequence id.
func (c *Conn) Seq() byte { return c.seq }

// WritePacket writes payload as one logical packet (split at 16MiB-1).
func (c *Conn) WritePacket(payload []byte) error {
	c.deadline()
	for {
		n := len(payload)
		if n > maxPayload {
			n = maxPayload
		}
		hdr := []byte{byte(n), byte(n >> 8), byte(n >> 16), c.seq}
		c.seq++
		if _, err := c.C.Write(append(hdr, payload[:n]...)); err != nil {
			return err
		}
		payload = payload[n:]
		if n < maxPayload {
			return nil
		}
	}
}

// ReadPacket reads one logical packet (reassembling 16MiB-1 frames).
func (c *Conn) ReadPacket() ([]byte, error) {
	c.deadline()
	var out []byte
	for {
		hdr := make([]byte, 4)
		if _, err := io.ReadFull(c.C, hdr); err != nil {
			return nil, err
		}
		n := int(hdr[0]) | int(hdr[1])<<8 | int(hdr[2])<<16
		if hdr[3] != c.seq {
			return nil, fmt.Errorf("mycli: sequence mismatch: got %d want %d", hdr[3], c.seq)
		}
		c.seq++
		buf := make([]byte, n)
		if _, err := io.ReadFull(c.C, buf); err != nil {
			return nil, err
		}
		if out == nil {
			out = buf
		} else {
			out = append(out, buf...)
		}
		if n < maxPayload {
			return out, nil
		}
	}
}

// Command writes a command packet with sequence 0.
func (c *Conn) Command(cmd byte, arg []byte) error {
	c.seq = 0
	return c.WritePacket(append([]byte{cmd}, arg...))
}

func parseErr(p []byte) *ErrPacket {
	e := &ErrPacket{}
	if len(p) >= 3 {
		e.Code = binary.LittleEndian.Uint16(p[1:])
	}
	rest := p[3:]
	if len(rest) >= 6 && rest[0] == '#' {
		e.State = string(rest[1:6])
		rest = rest[6:]
	}
	e.Msg = string(rest)
	return e
}

// LenEnc decodes a length-encoded integer.
func LenEnc(p []byte, pos int) (v uint64, next int, null bool, ok bool) {
	if pos >= len(p) {
		return 0, pos, false, false
	}
	n := 0
	switch p[pos] {
	case 0xfb:
		return 0, pos + 1, true, true
	case 0xfc:
		n = 2
	case 0xfd:
		n = 3
	case 0xfe:
		n = 8
	default:
		return uint64(p[pos]), pos + 1, false, true
	}
	if len(p)-pos-1 < n {
		return 0, pos, false, false
	}
	for i := 0; i < n; i++ {
		v |= uint64(p[pos+1+i]) << (8 * uint(i))
	}
	return v, pos + 1 + n, false, true
}

func lenEncStr(p []byte, pos int) (s []byte, next int, null bool, ok bool) {
	n, np, null, ok := LenEnc(p, pos)
	if !ok {
		return nil, pos, false, false
	}
	if null {
		return nil, np, true, true
	}
	if n > uint64(len(p)-np) {
		return nil, pos, false, false
	}
	return p[np : np+int(n)], np + int(n), false, true
}

func parseOK(p []byte, r *Reply) {
	r.IsOK = true
	pos := 1
	var ok bool
	r.AffectedRows, pos, _, ok = LenEnc(p, pos)
	if !ok {
		return
	}
	r.LastInsertID, pos, _, ok = LenEnc(p, pos)
	if !ok {
		return
	}
	if len(p) >= pos+2 {
		r.Status = binary.LittleEndian.Uint16(p[pos:])
		pos += 2
	}
	if len(p) >= pos+2 {
		r.Warnings = binary.LittleEndian.Uint16(p[pos:])
		pos += 2
	}
	if pos < len(p) {
		r.Info = string(p[pos:])
	}
}

func parseCol(p []byte) (Col, error) {
	var c Col
	pos := 0
	var s []byte
	var ok bool
	fields := []*string{new(string), &c.Schema, &c.Table, &c.OrgTable, &c.Name, &c.OrgName}
	for _, f := range fields {
		s, pos, _, ok = lenEncStr(p, pos)
		if !ok {
			return c, errors.New("bad column definition")
		}
		*f = string(s)
	}
	_, pos, _, ok = LenEnc(p, pos)
	if !ok || len(p) < pos+10 {
		return c, errors.New("bad column definition tail")
	}
	c.Charset = binary.LittleEndian.Uint16(p[pos:])
	c.Length = binary.LittleEndian.Uint32(p[pos+2:])
	c.Type = p[pos+6]
	c.Flags = binary.LittleEndian.Uint16(p[pos+7:])
	c.Decimals = p[pos+9]
	return c, nil
}

func isEOF(p []byte) bool { return len(p) > 0 && p[0] == 0xfe && len(p) < 9 }

// ReadReply reads one complete reply (OK / ERR / result set) of the current command.
func (c *Conn) ReadReply(binaryRows bool) (*Reply, error) {
	p, err := c.ReadPacket()
	if err != nil {
		return nil, err
	}
	r := &Reply{Binary: binaryRows}
	if len(p) == 0 {
		return nil, errors.New("empty reply packet")
	}
	switch p[0] {
	case 0x00:
		parseOK(p, r)
		return r, nil
	case 0xff:
		r.Err = parseErr(p)
		return r, nil
	case 0xfe:
		if len(p) < 9 {
			r.IsOK = true
			if len(p) >= 5 {
				r.Warnings = binary.LittleEndian.Uint16(p[1:])
				r.Status = binary.LittleEndian.Uint16(p[3:])
			}
			return r, nil
		}
	}
	ncol, _, _, ok := LenEnc(p, 0)
	if !ok || ncol == 0 || ncol > 4096 {
		return nil, fmt.Errorf("bad column count packet % x", p)
	}
	for i := 0; i < int(ncol); i++ {
		p, err = c.ReadPacket()
		if err != nil {
			return nil, err
		}
		col, err := parseCol(p)
		if err != nil {
			return nil, err
		}
		r.Cols = append(r.Cols, col)
	}
	p, err = c.ReadPacket()
	if err != nil {
		return nil, err
	}
	if !isEOF(p) {
		return nil, fmt.Errorf("expected EOF after column definitions, got % x", head(p))
	}
	for {
		p, err = c.ReadPacket()
		if err != nil {
			return nil, err
		}
		if isEOF(p) {
			if len(p) >= 5 {
				r.Warnings = binary.LittleEndian.Uint16(p[1:])
				r.Status = binary.LittleEndian.Uint16(p[3:])
			}
			return r, nil
		}
		if len(p) > 0 && p[0] == 0xff {
			r.Err = parseErr(p)
			return r, nil
		}
		r.RawRows = append(r.RawRows, p)
		var row []*string
		if binaryRows {
			row, err = DecodeBinaryRow(r.Cols, p)
		} else {
			row, err = DecodeTextRow(len(r.Cols), p)
		}
		if err != nil {
			return r, err
		}
		r.Rows = append(r.Rows, row)
	}
}

func head(p []byte) []byte {
	if len(p) > 16 {
		return p[:16]
	}
	return p
}

// DecodeTextRow decodes a text-protocol row; it must consume the packet exactly.
func DecodeTextRow(ncol int, p []byte) ([]*string, error) {
	row := make([]*string, ncol)
	pos := 0
	for i := 0; i < ncol; i++ {
		s, np, null, ok := lenEncStr(p, pos)
		if !ok {
			return nil, fmt.Errorf("text row: column %d truncated", i)
		}
		pos = np
		if !null {
			v := string(s)
			row[i] = &v
		}
	}
	if pos != len(p) {
		return nil, fmt.Errorf("text row: %d trailing bytes", len(p)-pos)
	}
	return row, nil
}

// MySQL column types.
const (
	TDecimal    = 0x00
	TTiny       = 0x01
	TShort      = 0x02
	TLong       = 0x03
	TFloat      = 0x04
	TDouble     = 0x05
	TNull       = 0x06
	TTimestamp  = 0x07
	TLongLong   = 0x08
	TInt24      = 0x09
	TDate       = 0x0a
	TTime       = 0x0b
	TDateTime   = 0x0c
	TYear       = 0x0d
	TNewDate    = 0x0e
	TVarchar    = 0x0f
	TBit        = 0x10
	TJSON       = 0xf5
	TNewDecimal = 0xf6
	TEnum       = 0xf7
	TSet        = 0xf8
	TTinyBlob   = 0xf9
	TMediumBlob = 0xfa
	TLongBlob   = 0xfb
	TBlob       = 0xfc
	TVarString  = 0xfd
	TString     = 0xfe
	TGeometry   = 0xff
	FlagUnsigned = 0x20
)

// DecodeBinaryRow decodes a binary-protocol row into canonical text renderings per the
// MySQL binary protocol; it must consume the packet exactly.
func DecodeBinaryRow(cols []Col, p []byte) ([]*string, error) {
	if len(p) < 1 || p[0] != 0 {
		return nil, errors.New("binary row: missing 0x00 header")
	}
	nb := (len(cols) + 7 + 2) / 8
	if len(p) < 1+nb {
		return nil, errors.New("binary row: short null bitmap")
	}
	bitmap := p[1 : 1+nb]
	pos := 1 + nb
	row := make([]*string, len(cols))
	need := func(n int) error {
		if len(p)-pos < n {
			return fmt.Errorf("binary row: truncated value at offset %d (need %d)", pos, n)
		}
		return nil
	}
	for i, c := range cols {
		bit := i + 2
		if bitmap[bit/8]&(1<<(uint(bit)%8)) != 0 {
			continue
		}
		unsigned := c.Flags&FlagUnsigned != 0
		var v string
		switch c.Type {
		case TNull:
			continue
		case TTiny:
			if err := need(1); err != nil {
				return nil, err
			}
			if unsigned {
				v = strconv.FormatUint(uint64(p[pos]), 10)
			} else {
				v = strconv.FormatInt(int64(int8(p[pos])), 10)
			}
			pos++
		case TShort, TYear:
			if err := need(2); err != nil {
				return nil, err
			}
			x := binary.LittleEndian.Uint16(p[pos:])
			if unsigned || c.Type == TYear {
				v = strconv.FormatUint(uint64(x), 10)
			} else {
				v = strconv.FormatInt(int64(int16(x)), 10)
			}
			pos += 2
		case TLong, TInt24:
			if err := need(4); err != nil {
				return nil, err
			}
			x := binary.LittleEndian.Uint32(p[pos:])
			if unsigned {
				v = strconv.FormatUint(uint64(x), 10)
			} else {
				v = strconv.FormatInt(int64(int32(x)), 10)
			}
			pos += 4
		case TLongLong:
			if err := need(8); err != nil {
				return nil, err
			}
			x := binary.LittleEndian.Uint64(p[pos:])
			if unsigned {
				v = strconv.FormatUint(x, 10)
			} else {
				v = strconv.FormatInt(int64(x), 10)
			}
			pos += 8
		case TFloat:
			if err := need(4); err != nil {
				return nil, err
			}
			f := math.Float32frombits(binary.LittleEndian.Uint32(p[pos:]))
			v = strconv.FormatFloat(float64(f), 'g', -1, 32)
			pos += 4
		case TDouble:
			if err := need(8); err != nil {
				return nil, err
			}
			f := math.Float64frombits(binary.LittleEndian.Uint64(p[pos:]))
			v = strconv.FormatFloat(f, 'g', -1, 64)
			pos += 8
		case TDate, TNewDate, TDateTime, TTimestamp:
			if err := need(1); err != nil {
				return nil, err
			}
			n := int(p[pos])
			pos++
			if err := need(n); err != nil {
				return nil, err
			}
			var y, mo, d, h, mi, s, us int
			switch n {
			case 0:
			case 4, 7, 11:
				y = int(binary.LittleEndian.Uint16(p[pos:]))
				mo, d = int(p[pos+2]), int(p[pos+3])
				if n >= 7 {
					h, mi, s = int(p[pos+4]), int(p[pos+5]), int(p[pos+6])
				}
				if n == 11 {
					us = int(binary.LittleEndian.Uint32(p[pos+7:]))
				}
			default:
				return nil, fmt.Errorf("binary row: bad date length %d", n)
			}
			pos += n
			if c.Type == TDate || c.Type == TNewDate {
				v = fmt.Sprintf("%04d-%02d-%02d", y, mo, d)
				if h != 0 || mi != 0 || s != 0 || us != 0 {
					v += fmt.Sprintf(" %02d:%02d:%02d", h, mi, s)
				}
			} else {
				v = fmt.Sprintf("%04d-%02d-%02d %02d:%02d:%02d", y, mo, d, h, mi, s)
			}
			if us != 0 {
				v += fmt.Sprintf(".%06d", us)
			}
		case TTime:
			if err := need(1); err != nil {
				return nil, err
			}
			n := int(p[pos])
			pos++
			if err := need(n); err != nil {
				return nil, err
			}
			var neg bool
			var days, h, mi, s, us int
			switch n {
			case 0:
			case 8, 12:
				neg = p[pos] != 0
				days = int(binary.LittleEndian.Uint32(p[pos+1:]))
				h, mi, s = int(p[pos+5]), int(p[pos+6]), int(p[pos+7])
				if n == 12 {
					us = int(binary.LittleEndian.Uint32(p[pos+8:]))
				}
			default:
				return nil, fmt.Errorf("binary row: bad time length %d", n)
			}
			pos += n
			sign := ""
			if neg {
				sign = "-"
			}
			v = fmt.Sprintf("%s%02d:%02d:%02d", sign, days*24+h, mi, s)
			if us != 0 {
				v += fmt.Sprintf(".%06d", us)
			}
		default:
			s, np, null, ok := lenEncStr(p, pos)
			if !ok || null {
				return nil, fmt.Errorf("binary row: column %d (type 0x%x): bad length-encoded string at offset %d", i, c.Type, pos)
			}
			pos = np
			v = string(s)
		}
		vv := v
		row[i] = &vv
	}
	if pos != len(p) {
		return nil, fmt.Errorf("binary row: %d trailing bytes (row not consumed exactly)", len(p)-pos)
	}
	return row, nil
}

// Query sends COM_QUERY and reads all results (following SERVER_MORE_RESULTS_EXISTS).
func (c *Conn) Query(sql string) ([]*Reply, error) {
	if err := c.Command(ComQuery, []byte(sql)); err != nil {
		return nil, err
	}
	var out []*Reply
	for {
		r, err := c.ReadReply(false)
		if r != nil {
			out = append(out, r)
		}
		if err != nil {
			return out, err
		}
		if r.Err != nil || r.Status&StatusMoreResults == 0 {
			return out, nil
		}
	}
}

// Query1 is Query for a single-result command.
func (c *Conn) Query1(sql string) (*Reply, error) {
	rs, err := c.Query(sql)
	if err != nil {
		return nil, err
	}
	return rs[len(rs)-1], nil
}

// Simple sends a command whose reply is OK/ERR.
func (c *Conn) Simple(cmd byte, arg []byte) (*Reply, error) {
	if err := c.Command(cmd, arg); err != nil {
		return nil, err
	}
	return c.ReadReply(false)
}

// Stmt is a prepared statement handle.
type Stmt struct {
	ID      uint32
	Columns uint16
	Params  uint16
}

// Prepare sends COM_STMT_PREPARE.
func (c *Conn) Prepare(sql string) (*Stmt, *ErrPacket, error) {
	if err := c.Command(ComStmtPrepare, []byte(sql)); err != nil {
		return nil, nil, err
	}
	p, err := c.ReadPacket()
	if err != nil {
		return nil, nil, err
	}
	if len(p) > 0 && p[0] == 0xff {
		return nil, parseErr(p), nil
	}
	if len(p) < 12 || p[0] != 0 {
		return nil, nil, fmt.Errorf("bad prepare response % x", head(p))
	}
	st := &Stmt{ID: binary.LittleEndian.Uint32(p[1:]), Columns: binary.LittleEndian.Uint16(p[5:]), Params: binary.LittleEndian.Uint16(p[7:])}
	if st.Params > 0 {
		for i := 0; i < int(st.Params); i++ {
			if _, err := c.ReadPacket(); err != nil {
				return nil, nil, err
			}
		}
		if p, err = c.ReadPacket(); err != nil || !isEOF(p) {
			return nil, nil, fmt.Errorf("prepare: expected EOF after params: %v", err)
		}
	}
	if st.Columns > 0 {
		for i := 0; i < int(st.Columns); i++ {
			if _, err := c.ReadPacket(); err != nil {
				return nil, nil, err
			}
		}
		if p, err = c.ReadPacket(); err != nil || !isEOF(p) {
			return nil, nil, fmt.Errorf("prepare: expected EOF after columns: %v", err)
		}
	}
	return st, nil, nil
}

// Param is one bound parameter for COM_STMT_EXECUTE.
type Param struct {
	Type     byte
	Unsigned bool
	Null     bool
	Raw      []byte // value bytes exactly as they go on the wire (already length-prefixed where the type needs it)
	LongData bool   // sent through SEND_LONG_DATA: no value bytes in the execute packet
}

// LenEncBytes encodes b as a length-encoded string.
func LenEncBytes(b []byte) []byte {
	n := uint64(len(b))
	var h []byte
	switch {
	case n < 251:
		h = []byte{byte(n)}
	case n < 1<<16:
		h = []byte{0xfc, byte(n), byte(n >> 8)}
	case n < 1<<24:
		h = []byte{0xfd, byte(n), byte(n >> 8), byte(n >> 16)}
	default:
		h = []byte{0xfe, byte(n), byte(n >> 8), byte(n >> 16), byte(n >> 24), byte(n >> 32), byte(n >> 40), byte(n >> 48), byte(n >> 56)}
	}
	return append(h, b...)
}

// BuildExecute builds the payload (without command byte) of COM_STMT_EXECUTE.
func BuildExecute(id uint32, flags byte, params []Param, newParamsBound bool) []byte {
	var b bytes.Buffer
	w := make([]byte, 4)
	binary.LittleEndian.PutUint32(w, id)
	b.Write(w)
	b.WriteByte(flags)
	binary.LittleEndian.PutUint32(w, 1)
	b.Write(w)
	if len(params) > 0 {
		nb := make([]byte, (len(params)+7)/8)
		for i, p := range params {
			if p.Null {
				nb[i/8] |= 1 << (uint(i) % 8)
			}
		}
		b.Write(nb)
		if newParamsBound {
			b.WriteByte(1)
			for _, p := range params {
				b.WriteByte(p.Type)
				if p.Unsigned {
					b.WriteByte(0x80)
				} else {
					b.WriteByte(0)
				}
			}
		} else {
			b.WriteByte(0)
		}
		for _, p := range params {
			if p.Null || p.LongData {
				continue
			}
			b.Write(p.Raw)
		}
	}
	return b.Bytes()
}

// Execute sends COM_STMT_EXECUTE and reads the reply (binary rows).
func (c *Conn) Execute(id uint32, params []Param) (*Reply, error) {
	return c.ExecuteRaw(BuildExecute(id, 0, params, true))
}

// ExecuteRaw sends an arbitrary COM_STMT_EXECUTE payload.
func (c *Conn) ExecuteRaw(payload []byte) (*Reply, error) {
	if err := c.Command(ComStmtExecute, payload); err != nil {
		return nil, err
	}
	return c.ReadReply(true)
}

// SendLongData sends COM_STMT_SEND_LONG_DATA (no reply).
func (c *Conn) SendLongData(id uint32, param uint16, data []byte) error {
	b := make([]byte, 6, 6+len(data))
	binary.LittleEndian.PutUint32(b, id)
	binary.LittleEndian.PutUint16(b[4:], param)
	return c.Command(ComStmtSendLongData, append(b, data...))
}

// StmtReset sends COM_STMT_RESET.
func (c *Conn) StmtReset(id uint32) (*Reply, error) {
	b := make([]byte, 4)
	binary.LittleEndian.PutUint32(b, id)
	return c.Simple(ComStmtReset, b)
}

// StmtClose sends COM_STMT_CLOSE (no reply).
func (c *Conn) StmtClose(id uint32) error {
	b := make([]byte, 4)
	binary.LittleEndian.PutUint32(b, id)
	return c.Command(ComStmtClose, b)
}

// FieldList sends COM_FIELD_LIST and returns the columns or the error packet.
func (c *Conn) FieldList(table, wildcard string) ([]Col, *ErrPacket, error) {
	arg := append([]byte(table), 0)
	arg = append(arg, wildcard...)
	if err := c.Command(ComFieldList, arg); err != nil {
		return nil, nil, err
	}
	var cols []Col
	for {
		p, err := c.ReadPacket()
		if err != nil {
			return cols, nil, err
		}
		if len(p) > 0 && p[0] == 0xff {
			return cols, parseErr(p), nil
		}
		if isEOF(p) || (len(p) > 0 && p[0] == 0 && len(cols) == 0 && len(p) < 12) {
			return cols, nil, nil
		}
		col, err := parseCol(p)
		if err != nil {
			return cols, nil, err
		}
		cols = append(cols, col)
	}
}

// Ping sends COM_PING.
func (c *Conn) Ping() (*Reply, error) { return c.Simple(ComPing, nil) }

// InitDB sends COM_INIT_DB.
func (c *Conn) InitDB(db string) (*Reply, error) { return c.Simple(ComInitDB, []byte(db)) }

// Quit sends COM_QUIT and closes.
func (c *Conn) Quit() {
	c.Command(ComQuit, nil)
	c.C.Close()
}

// Close closes the socket without COM_QUIT (client disconnect).
func (c *Conn) Close() { c.C.Close() }
