#!/usr/bin/env python3
"""Regenerates MANIFEST.json from checks.tsv + manifest_src.json (per-check texts)."""
import json, os
V = os.path.dirname(os.path.abspath(__file__))
src = json.load(open(os.path.join(V, "manifest_src.json")))
import glob
metas = [json.load(open(p)) for p in sorted(glob.glob(os.path.join(V, "meta", "*.json")))]
rows = [[m["id"]] for m in metas]
src["checks"] = {m["id"]: m for m in metas}
ids = [json.loads(l)["id"] for l in open(os.path.join(V, "properties.jsonl"))]
built = {r[0] for r in rows}
checks = []
for r in rows:
    cid = r[0]
    m = src["checks"][cid]
    checks.append({
        "property_id": cid,
        "quick_cmd": "./check %s quick" % cid,
        "thorough_cmd": "./check %s thorough" % cid,
        "evidence_file": "/verif/evidence/%s.json" % cid,
        "replay_cmd_template": "./check %s --replay {path}" % cid,
        "engine": "go-monitor",
        "level_claimed": {"category": m["level"], "text": m["text"], "design_ref": "DESIGN.md §4 " + cid},
        "level_note": m["note"],
        "technique": m["technique"],
    })
na = []
for i in ids:
    if i not in built:
        na.append({"property_id": i, "reason": src.get("not_applicable", {}).get(i, "monitor designed in DESIGN.md §4 but not built yet; not claimed")})
man = {
    "version": 1,
    "setup_cmd": "./setup.sh",
    "hooks": src["hooks"],
    "engines": [{"name": "go-monitor", "path": "/verif/check", "serves_properties": sorted(built),
                 "kind_free_text": "runtime monitors: white-box Go test files overlaid into Gaea packages (go test -overlay, build tag verif, -race where marked), run in a child process per property; oracles over observed events of the real code"}],
    "checks": checks,
    "notes": src.get("notes", ""),
    "not_applicable": na,
}
json.dump(man, open(os.path.join(V, "MANIFEST.json"), "w"), indent=1)
print("MANIFEST.json: %d checks, %d not claimed" % (len(checks), len(na)))
