#!/bin/bash
# usage: ./sweep.sh [quick|thorough] [jobs] [ids...]   (env VERIF_SEED)
tier=${1:-quick}; jobs=${2:-6}; shift 2 2>/dev/null
ids=${@:-$(ls /verif/meta | sed 's/.json//')}
mkdir -p /verif/build/sweep
out=/verif/build/sweep/${tier}_seed${VERIF_SEED:-1}
rm -rf $out; mkdir -p $out
echo $ids | tr ' ' '\n' | xargs -P $jobs -I{} bash -c "s=\$(date +%s); /verif/check {} $tier > $out/{}.log 2>&1; rc=\$?; echo \"{} exit=\$rc wall=\$(( \$(date +%s)-s ))s \$(grep -c '^VIOLATION' $out/{}.log) viol \$(grep -c '^KNOWN-FINDING' $out/{}.log) known\" | tee -a $out/SUMMARY"
sort $out/SUMMARY > $out/SUMMARY.sorted; echo; cat $out/SUMMARY.sorted | awk '{print}' ; echo "non-zero exits: $(grep -vc 'exit=0' $out/SUMMARY.sorted)"
