#!/bin/bash
# Offline setup: warms the Go build cache for every monitor (plain and -race flavours) so
# that the per-check rebuild from /repo's working tree is incremental. Builds nothing that
# a check depends on: every check rebuilds its own binary from the current tree.
set -u
cd "$(dirname "$0")"
export GOFLAGS=-mod=mod GOPROXY=off GOSUMDB=off GOTOOLCHAIN=local
mkdir -p build evidence replay
chmod +x check baseline_off.sh 2>/dev/null
go version || exit 1
ids=$(ls meta | sed "s/.json//")
# one at a time first for each flavour (std with -race), the rest in parallel
first_race=$(grep -l "\"race\": true" meta/*.json | head -1 | xargs -r basename | sed "s/.json//")
[ -n "$first_race" ] && ./check "$first_race" --build-only
echo "$ids" | xargs -P 6 -n 1 -I{} ./check {} --build-only
exit 0
