package server

// C22 — read/write splitting sends only plain reads to replicas.
//
// Ground truth by construction (R6): a statement is assembled from a FORM whose class the
// generator knows (plain read, write, locking read with a known lock clause, read carrying
// a master hint, read_only probe) and DECORATIONS that do not change what MySQL executes
// (leading / trailing comments as trace-adding drivers append them, newline / tab token
// separation, keyword case, case of the hint word / variable name).
// Oracle (rig R2, fake pools): every backend exec of the statement must come from a MASTER
// pool when: the session is inside a transaction (any user); or the user is read-write
// without rw-split; or the user is rw-split and the statement is a write, a locking read
// (only when check_select_lock is on), carries a master hint, or probes read_only. No claim
// is made for plain reads of rw-split users nor, outside transactions, for read-only users
// (docs/faq.md: read-only users read from replicas whatever the statement).

import (
	"fmt"
	"sort"
	"strings"
	"testing"

	kit "github.com/XiaoMi/Gaea/verifkit"
	"github.com/XiaoMi/Gaea/verifkit/mycli"
)

type c22Form struct {
	Name  string
	Class string // plain | write | lock | hint | probe
	Tmpl  string // {kw} keywords, [LOCK] lock clause, [HINT] hint word, [VAR] variable name
	PTmpl string // prepared variant with ? ("" = none)
	PArgs []mycli.Param
}

var c22Forms = []c22Form{
	{"plain_t2", "plain", "{select} c {from} t2 {where} id = 1", "{select} c {from} t2 {where} id = ?", []mycli.Param{rwParamInt(1)}},
	{"plain_shard", "plain", "{select} c {from} tbl_shard {where} id = 1", "", nil},
	{"plain_show", "plain", "{show} {tables}", "", nil},
	{"w_insert", "write", "{insert} {into} t2 (id, c) {values} (1, 'x')", "{insert} {into} t2 (id, c) {values} (?, ?)", []mycli.Param{rwParamInt(1), rwParamStr("x")}},
	{"w_replace", "write", "{replace} {into} t2 (id, c) {values} (1, 'x')", "", nil},
	{"w_update", "write", "{update} t2 {set} c = 'x' {where} id = 1", "{update} t2 {set} c = ? {where} id = ?", []mycli.Param{rwParamStr("x"), rwParamInt(1)}},
	{"w_update_shard", "write", "{update} tbl_shard {set} c = 'x' {where} id = 1", "", nil},
	{"w_delete", "write", "{delete} {from} t2 {where} id = 1", "", nil},
	{"w_ddl", "write", "{create} {table} t9 (id int)", "", nil},
	{"lock_t2", "lock", "{select} c {from} t2 {where} id = 1 [LOCK]", "{select} c {from} t2 {where} id = ? [LOCK]", []mycli.Param{rwParamInt(1)}},
	{"lock_shard", "lock", "{select} c {from} tbl_shard {where} id = 1 [LOCK]", "", nil},
	{"lock_limit", "lock", "{select} c {from} t2 {where} id > 1 {order} {by} id {limit} 1 [LOCK]", "", nil},
	{"hint_lead", "hint", "/*[HINT]*/ {select} c {from} t2 {where} id = 1", "/*[HINT]*/ {select} c {from} t2 {where} id = ?", []mycli.Param{rwParamInt(1)}},
	{"hint_lead_shard", "hint", "/*[HINT]*/ {select} c {from} tbl_shard {where} id = 1", "", nil},
	{"hint_after", "hint", "{select} /*[HINT]*/ c {from} t2 {where} id = 1", "", nil},
	{"hint_after_shard", "hint", "{select} /*[HINT]*/ c {from} tbl_shard {where} id = 1", "", nil},
	{"probe_sel", "probe", "{select} @@[VAR]", "", nil},
	{"probe_sel_global", "probe", "{select} @@{global}.[VAR]", "", nil},
	// read_only is not the FIRST @@variable of the statement
	{"probe_sel_second", "probe", "{select} @@hostname, @@[VAR]", "", nil},
	{"probe_sel_second_global", "probe", "{select} @@version_comment, @@{global}.[VAR]", "", nil},
	{"probe_sel_alias_third", "probe", "{select} @@session.tx_isolation {as} iso, @@version {as} v, @@{global}.[VAR] {as} ro", "", nil},
	{"probe_show", "probe", "{show} {variables} {like} '[VAR]'", "", nil},
	{"probe_show_global", "probe", "{show} {global} {variables} {like} '[VAR]'", "", nil},
	{"probe_show_where", "probe", "{show} {variables} {where} variable_name = '[VAR]'", "", nil},
}

var c22FormIdx = func() map[string]int {
	m := map[string]int{}
	for i, f := range c22Forms {
		m[f.Name] = i
	}
	return m
}()

var c22LockClause = map[string]string{
	"for_update":         "{for} {update}",
	"for_update_nowait":  "{for} {update} {nowait}",
	"for_update_skip":    "{for} {update} {skip} {locked}",
	"for_share":          "{for} {share}",
	"for_share_nowait":   "{for} {share} {nowait}",
	"for_share_skip":     "{for} {share} {skip} {locked}",
	"lock_in_share_mode": "{lock} {in} {share} {mode}",
	"for_update_of":      "{for} {update} {of} [T]",
	"for_share_of_skip":  "{for} {share} {of} [T] {skip} {locked}",
}

// dimensions; first value = default (feature absent)
var c22Dims = []struct {
	Name string
	Vals []string
}{
	{"lockclause", []string{"for_update", "for_update_nowait", "for_update_skip", "for_share", "for_share_nowait", "for_share_skip", "lock_in_share_mode", "for_update_of", "for_share_of_skip"}},
	{"lead", []string{"none", "block", "line", "ws"}},
	{"trail", []string{"none", "block", "block_tight", "line", "hash", "semi", "semi2", "semi3"}},
	{"sep", []string{"space", "nl", "tab"}},
	{"case", []string{"lower", "upper", "mixed"}},
	{"wordcase", []string{"lower", "upper"}}, // hint word / variable name
	{"channel", []string{"query", "multi_after", "prepare", "prepare_param"}},
	{"csl", []string{"on", "off"}},
	{"user", []string{"rws", "rw", "ro", "ro2"}},
	{"tx", []string{"none", "begin", "ac0"}},
}

func c22Default(dim string) string {
	for _, d := range c22Dims {
		if d.Name == dim {
			return d.Vals[0]
		}
	}
	return ""
}

func c22Vals(dim string) []string {
	for _, d := range c22Dims {
		if d.Name == dim {
			return d.Vals
		}
	}
	return nil
}

var c22LeadText = map[string]string{"none": "", "block": "/* trace */ ", "line": "-- trace\n", "ws": "\n\t "}
var c22TrailText = map[string]string{"none": "", "block": " /* trace */", "block_tight": "/* trace */", "line": " -- trace", "hash": " # trace", "semi": ";", "semi2": ";;", "semi3": ";;;"}
var c22SepText = map[string]string{"space": " ", "nl": "\n", "tab": "\t"}

const c22Control = "select 7"

type c22Case struct {
	Form string            `json:"form"`
	D    map[string]string `json:"dims"`
	Text string            `json:"text,omitempty"`
}

func (c c22Case) get(dim string) string {
	if v, ok := c.D[dim]; ok {
		return v
	}
	return c22Default(dim)
}

func (c c22Case) with(dim, val string) c22Case {
	d := map[string]string{}
	for k, v := range c.D {
		d[k] = v
	}
	if val == c22Default(dim) {
		delete(d, dim)
	} else {
		d[dim] = val
	}
	return c22Case{Form: c.Form, D: d}
}

func (c c22Case) decoKey() string {
	var ks []string
	for k, v := range c.D {
		ks = append(ks, k+"="+v)
	}
	sort.Strings(ks)
	if len(ks) == 0 {
		return "-"
	}
	return strings.Join(ks, ",")
}

func (c c22Case) key() string   { return c.Form + "|" + c.decoKey() }
func (c c22Case) form() c22Form { return c22Forms[c22FormIdx[c.Form]] }

func (c c22Case) valid() bool {
	f := c.form()
	if c.get("lockclause") != "for_update" && f.Class != "lock" {
		return false
	}
	if c.get("wordcase") != "lower" && f.Class != "hint" && f.Class != "probe" {
		return false
	}
	if c.get("channel") == "prepare_param" && f.PTmpl == "" {
		return false
	}
	// a leading line comment in front of a lead hint would swallow nothing (newline-terminated) - fine;
	// `-- trace` / `# trace` trailing comments run to the end of the text: not inside multi pieces before other text (the
	// statement under test is always the last piece) - fine.
	return true
}

func (c c22Case) text(param bool) string {
	f := c.form()
	t := f.Tmpl
	if param {
		t = f.PTmpl
	}
	if strings.Contains(t, "[LOCK]") {
		lc := c22LockClause[c.get("lockclause")]
		tbl := "t2"
		if strings.Contains(t, "tbl_shard") {
			tbl = "tbl_shard"
		}
		lc = strings.Replace(lc, "[T]", tbl, -1)
		t = strings.Replace(t, "[LOCK]", lc, -1)
	}
	word := func(w string) string {
		if c.get("wordcase") == "upper" {
			return strings.ToUpper(w)
		}
		return w
	}
	t = strings.Replace(t, "[HINT]", word("master"), -1)
	t = strings.Replace(t, "[VAR]", word("read_only"), -1)
	core := rwRender(t, c.get("case"), c22SepText[c.get("sep")])
	return c22LeadText[c.get("lead")] + core + c22TrailText[c.get("trail")]
}

// mustMaster: does the property demand a master for this case; reason names the clause.
func (c c22Case) mustMaster() (bool, string) {
	f := c.form()
	if c.get("tx") != "none" {
		return true, "in-transaction"
	}
	switch c.get("user") {
	case "rw":
		return true, "non-split-user"
	case "ro", "ro2":
		return false, ""
	}
	switch f.Class {
	case "write":
		return true, "write"
	case "lock":
		if c.get("csl") == "on" {
			return true, "locking-read"
		}
	case "hint":
		return true, "master-hint"
	case "probe":
		return true, "read-only-probe"
	}
	return false, ""
}

type c22Result struct {
	Replies  string
	ErrReply bool
	Execs    []string // "slice/role sql"
	NonMast  []string // execs not on a master
	NExec    int
	IOErr    string
}

type c22Harness struct {
	r    *rig
	sess map[string]*rwSession // key csl+"/"+user
}

func c22NS(csl string) string {
	if csl == "on" {
		return "ns22a"
	}
	return "ns22b"
}

func c22NewHarness(t *testing.T) *c22Harness {
	h := &c22Harness{sess: map[string]*rwSession{}}
	ks := rwNamespace("ns22k", true)
	ks.SetForKeepSession = true
	h.r = rigStart(t, rigOpts{Namespaces: rwNSList(rwNamespace("ns22a", true), rwNamespace("ns22b", false), ks), FakePools: true})
	for _, csl := range []string{"on", "off"} {
		for _, u := range []string{"rws", "rw", "ro", "ro2"} {
			s, err := rwOpen(h.r, c22NS(csl), u, "db")
			if err != nil {
				h.r.Close()
				t.Fatalf("C22 dial %s/%s: %v", csl, u, err)
			}
			h.sess[csl+"/"+u] = s
		}
	}
	return h
}

func (h *c22Harness) close() {
	for _, s := range h.sess {
		s.Close()
	}
	h.r.Close()
}

func (h *c22Harness) run(c c22Case) c22Result {
	s := h.sess[c.get("csl")+"/"+c.get("user")]
	var res c22Result
	tx := c.get("tx")
	switch tx {
	case "begin":
		s.Query("begin")
	case "ac0":
		s.Query("set autocommit=0")
	}
	var rs []*mycli.Reply
	var obs rwObs
	var err error
	skipCtl := 0
	switch c.get("channel") {
	case "query":
		rs, obs, err = s.Query(c.text(false))
	case "multi_after":
		rs, obs, err = s.Query(c22Control + "; " + c.text(false))
		skipCtl = 1
	case "prepare":
		rs, obs, err = s.PrepExec(c.text(false), nil)
	case "prepare_param":
		rs, obs, err = s.PrepExec(c.text(true), c.form().PArgs)
	}
	if err != nil {
		res.IOErr = err.Error()
	}
	if len(rs) > 0 {
		res.ErrReply = rs[len(rs)-1].Err != nil
	}
	res.Replies = rwReplyBrief(rs, err)
	for _, e := range obs.Execs {
		if skipCtl > 0 && e.SQL == c22Control {
			skipCtl--
			continue
		}
		if strings.HasPrefix(strings.ToLower(e.SQL), "savepoint") {
			continue
		}
		res.NExec++
		d := fmt.Sprintf("%s/%s %q", e.Slice, e.Role, e.SQL)
		res.Execs = append(res.Execs, d)
		if e.Role != "master" {
			res.NonMast = append(res.NonMast, d)
		}
	}
	switch tx {
	case "begin":
		s.Query("rollback")
	case "ac0":
		s.Query("rollback")
		s.Query("set autocommit=1")
	}
	return res
}

func TestVerif_C22(t *testing.T) {
	rec := kit.Start("C22", "exploration",
		"case = statement form (3 plain reads, 6 writes, 3 locking-read templates x 9 lock clauses, 4 master-hint placements, 8 read_only probes (read_only as first or later @@variable)) x decorations "+
			"{leading comment/white space (4), trailing comment or one/two/three ';' (8), token separator (3), keyword case (3), hint-word/variable-name case (2)} x channel {query, piece of a multi-statement, prepare+execute, with parameters} "+
			"x check_select_lock {on, off} x user {rw-split, read-write, read-only with/without split} x {no tx, BEGIN, autocommit=0}; thorough enumerates the product for the rw-split user outside transactions and "+
			"every single-decoration case for the other users / transactions; plus keep-session histories (namespace with set_for_keep_session: fresh session, first statement a plain read or nothing, then every must-master statement in a chain and alone, read-write users with/without split); non-trivial = a master is demanded and the statement produced >=1 backend exec")
	defer rec.Finish(t)
	rec.Assume("a master hint is the comment /*master*/ placed before the statement (possibly after other leading comments) or directly after SELECT, as in docs/faq.md and executor_test.go; a trailing hint is not claimed")
	rec.Assume("no claim for plain reads of rw-split users and, outside transactions, for read-only users (docs/faq.md)")

	h := c22NewHarness(t)
	defer h.close()

	type verdict struct {
		Clause string
		What   string
		NExec  int
	}
	cache := map[string]verdict{}
	eval := func(c c22Case) verdict {
		if v, ok := cache[c.key()]; ok {
			return v
		}
		res := h.run(c)
		rec.Count("rig.commands", 1)
		rec.Count("rig.events.exec", int64(res.NExec))
		var v verdict
		v.NExec = res.NExec
		must, why := c.mustMaster()
		switch {
		case res.IOErr != "":
			v.Clause, v.What = "io", "client I/O error "+res.IOErr
		case must && len(res.NonMast) > 0:
			v.Clause = "replica:" + why
			v.What = fmt.Sprintf("%s statement served by a replica: user %s, check_select_lock %s, channel %s, tx %s, statement %q -> backend %q, replies [%s]",
				why, c.get("user"), c.get("csl"), c.get("channel"), c.get("tx"), c.text(c.get("channel") == "prepare_param"), res.Execs, res.Replies)
		}
		if !must && len(res.NonMast) > 0 {
			rec.Count("reads.on_replica", 1)
		}
		cache[c.key()] = v
		return v
	}
	shrink := func(c c22Case, clause string) c22Case {
		cur := c
		for changed := true; changed; {
			changed = false
			var names []string
			for k := range cur.D {
				names = append(names, k)
			}
			sort.Strings(names)
			for _, dim := range names {
				cand := cur.with(dim, c22Default(dim))
				if !cand.valid() {
					continue
				}
				if eval(cand).Clause == clause {
					cur = cand
					changed = true
					break
				}
			}
			if !changed {
				// the first form of the class is the default template
				for _, f := range c22Forms {
					if f.Class == cur.form().Class {
						if f.Name != cur.Form {
							cand := c22Case{Form: f.Name, D: cur.D}
							if cand.valid() && eval(cand).Clause == clause {
								cur = cand
								changed = true
							}
						}
						break
					}
				}
			}
		}
		return cur
	}
	sigOf := func(c c22Case, clause string) string {
		return fmt.Sprintf("C22/%s/%s/%s", clause, c.Form, c.decoKey())
	}

	ioFail := false
	nSeen := 0
	one := func(c c22Case) {
		if !c.valid() || ioFail {
			return
		}
		rec.Eval(1)
		v := eval(c)
		must, _ := c.mustMaster()
		if must && v.NExec > 0 {
			rec.Nontrivial(c.key())
		}
		if nSeen%1499 == 0 && nSeen < 1499*6 {
			rec.Sample(map[string]interface{}{"case": c.key(), "text": c.text(c.get("channel") == "prepare_param"), "must_master": must, "verdict": v.Clause, "execs": v.NExec})
		}
		nSeen++
		if v.Clause == "" {
			return
		}
		if v.Clause == "io" {
			rec.Inconclusive(v.What)
			ioFail = true
			return
		}
		min := shrink(c, v.Clause)
		mv := eval(min)
		min.Text = min.text(min.get("channel") == "prepare_param")
		rec.Violation(sigOf(min, v.Clause), mv.What, min)
	}

	// ---- keep-session namespace (set_for_keep_session): the session pins one backend
	// connection per slice with its first statement. Histories: a fresh session whose first
	// statement is a plain read (or nothing), followed by every statement that must run on a
	// master (writes, locking reads, hinted reads, read_only probes, anything inside a
	// transaction) - on the SAME session, in sequence, and each alone on a fresh session.
	// Claimed for read-write users (with and without rw-split); read-only users keep their
	// session on a replica by design.
	ksPhase := func() {
		if ioFail {
			return
		}
		firsts := []string{"", "plain_t2", "plain_shard", "plain_show"}
		type step struct {
			form string
			tx   string
		}
		var steps []step
		for _, f := range c22Forms {
			if f.Class != "plain" {
				steps = append(steps, step{f.Name, "none"})
			}
		}
		for _, f := range []string{"plain_t2", "plain_shard", "w_update", "lock_t2"} {
			steps = append(steps, step{f, "begin"}, step{f, "ac0"})
		}
		runOn := func(sess *rwSession, st step) (rwObs, string, error) {
			c := c22Case{Form: st.form, D: map[string]string{}}
			switch st.tx {
			case "begin":
				sess.Query("begin")
			case "ac0":
				sess.Query("set autocommit=0")
			}
			rs, obs, err := sess.Query(c.text(false))
			switch st.tx {
			case "begin":
				sess.Query("rollback")
			case "ac0":
				sess.Query("rollback")
				sess.Query("set autocommit=1")
			}
			return obs, rwReplyBrief(rs, err), err
		}
		judge := func(user, first, mode string, st step, obs rwObs, reply string) {
			rec.Eval(1)
			rec.Count("keepsession.steps", 1)
			var non []string
			n := 0
			for _, e := range obs.Execs {
				if strings.HasPrefix(strings.ToLower(e.SQL), "savepoint") {
					continue
				}
				n++
				if e.Role != "master" {
					non = append(non, fmt.Sprintf("%s/%s %q", e.Slice, e.Role, e.SQL))
				}
			}
			rec.Count("rig.events.exec", int64(n))
			if n > 0 {
				rec.Nontrivial("ks|" + user + "|" + first + "|" + mode + "|" + st.form + "|" + st.tx)
			}
			if len(non) == 0 {
				return
			}
			why := "in-transaction"
			if st.tx == "none" {
				why = c22Forms[c22FormIdx[st.form]].Class
			}
			c := c22Case{Form: st.form, D: map[string]string{"user": user, "tx": st.tx, "keep_session": "on", "first": first, "mode": mode}}
			rec.Violation(fmt.Sprintf("C22/replica:keep-session:%s/%s/first=%s,user=%s", why, st.form, first, user),
				fmt.Sprintf("keep-session namespace, user %s, session whose first statement was %q, then (tx %s) %q ran on a replica: %q, replies [%s]", user, first, st.tx, c22Case{Form: st.form, D: map[string]string{}}.text(false), non, reply), c)
		}
		for _, user := range []string{"rws", "rw"} {
			for _, first := range firsts {
				open := func() *rwSession {
					sess, err := rwOpen(h.r, "ns22k", user, "db")
					if err != nil {
						rec.Inconclusive("keep-session phase: dial: " + err.Error())
						ioFail = true
						return nil
					}
					if first != "" {
						_, obs, err := sess.Query(c22Case{Form: first, D: map[string]string{}}.text(false))
						if err != nil {
							rec.Inconclusive("keep-session phase: I/O error " + err.Error())
							ioFail = true
							sess.Close()
							return nil
						}
						for _, e := range obs.Execs {
							if e.Role != "master" {
								rec.Count("keepsession.first_read_on_replica", 1)
							}
						}
					}
					return sess
				}
				// (a) the whole chain on one session
				if sess := open(); sess != nil {
					for _, st := range steps {
						obs, reply, err := runOn(sess, st)
						if err != nil {
							rec.Inconclusive("keep-session phase: I/O error " + err.Error())
							ioFail = true
							break
						}
						judge(user, first, "chain", st, obs, reply)
					}
					sess.Close()
				}
				// (b) each step alone on a fresh session
				for _, st := range steps {
					if ioFail {
						return
					}
					sess := open()
					if sess == nil {
						return
					}
					obs, reply, err := runOn(sess, st)
					sess.Close()
					if err != nil {
						rec.Inconclusive("keep-session phase: I/O error " + err.Error())
						ioFail = true
						return
					}
					judge(user, first, "alone", st, obs, reply)
				}
			}
		}
		if rec.CounterValue("keepsession.steps") == 0 {
			rec.Inconclusive("keep-session phase observed nothing")
		}
	}
	if p := kit.ReplayPath(); p != "" {
		var c c22Case
		if err := kit.LoadReplay(p, &c); err != nil {
			rec.Inconclusive("cannot load replay: " + err.Error())
			return
		}
		if c.D == nil {
			c.D = map[string]string{}
		}
		if c.D["keep_session"] == "on" {
			fmt.Printf("REPLAY keep-session history: running the whole keep-session phase\n")
			ksPhase()
			rec.Sample(c)
			return
		}
		c.Text = ""
		v := eval(c)
		rec.Eval(1)
		rec.Nontrivial(c.key())
		rec.Nontrivial(c.key() + "#replay")
		rec.Sample(c)
		fmt.Printf("REPLAY %s clause=%q %s\n", c.key(), v.Clause, v.What)
		if v.Clause != "" {
			rec.Violation(sigOf(c, v.Clause), v.What, c)
		}
		return
	}

	deco := []string{"lockclause", "lead", "trail", "sep", "case", "wordcase"}
	if kit.Tier() == "thorough" {
		for _, f := range c22Forms {
			// full product for the rw-split user outside transactions
			var walk func(i int, c c22Case)
			walk = func(i int, c c22Case) {
				if i == len(deco) {
					for _, ch := range c22Vals("channel") {
						for _, csl := range c22Vals("csl") {
							one(c.with("channel", ch).with("csl", csl))
						}
					}
					return
				}
				for _, v := range c22Vals(deco[i]) {
					n := c.with(deco[i], v)
					// prune dimensions that do not apply to this form
					if (deco[i] == "lockclause" && f.Class != "lock" && v != "for_update") || (deco[i] == "wordcase" && f.Class != "hint" && f.Class != "probe" && v != "lower") {
						continue
					}
					walk(i+1, n)
				}
			}
			walk(0, c22Case{Form: f.Name, D: map[string]string{}})
			// other users and transactions: undecorated and every single decoration
			for _, u := range c22Vals("user") {
				for _, tx := range c22Vals("tx") {
					if u == "rws" && tx == "none" {
						continue
					}
					for _, ch := range c22Vals("channel") {
						for _, csl := range c22Vals("csl") {
							base := c22Case{Form: f.Name, D: map[string]string{}}.with("user", u).with("tx", tx).with("channel", ch).with("csl", csl)
							one(base)
							for _, d := range deco {
								for _, v := range c22Vals(d)[1:] {
									one(base.with(d, v))
								}
							}
						}
					}
				}
			}
		}
		rec.Exhaustive(true)
	} else {
		rnd := kit.SubRand(kit.Seed(), "C22/cases")
		for i := 0; i < 4000; i++ {
			f := c22Forms[rnd.Intn(len(c22Forms))]
			c := c22Case{Form: f.Name, D: map[string]string{}}
			for _, d := range deco {
				if rnd.Chance(1, 2) {
					c = c.with(d, rnd.Pick(c22Vals(d)))
				}
			}
			c = c.with("channel", rnd.Pick(c22Vals("channel"))).with("csl", rnd.Pick(c22Vals("csl")))
			if rnd.Chance(1, 3) {
				c = c.with("user", rnd.Pick(c22Vals("user")))
			}
			if rnd.Chance(1, 4) {
				c = c.with("tx", rnd.Pick(c22Vals("tx")))
			}
			if !c.valid() {
				if c.get("channel") == "prepare_param" {
					c = c.with("channel", "prepare")
				}
				if f.Class != "lock" {
					c = c.with("lockclause", "for_update")
				}
				if f.Class != "hint" && f.Class != "probe" {
					c = c.with("wordcase", "lower")
				}
			}
			one(c)
		}
	}
	ksPhase()
	rec.Set("distinct_cases_evaluated", len(cache))
	if rec.CounterValue("rig.events.exec") == 0 {
		rec.Inconclusive("no statement reached a backend")
	}
	if rec.CounterValue("reads.on_replica") == 0 {
		rec.Inconclusive("no read was ever served by a replica: the rig does not exercise rw-splitting")
	}
}
