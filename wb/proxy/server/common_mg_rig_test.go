package server

// Helpers shared by the C29 / C30 / C31 monitors (tag mg). Everything is prefixed mg*.
//
// What is real: Manager, NamespaceManager, UserManager, Namespace (NewNamespace from a
// models.Namespace), Session.handleHandshakeResponse, SessionExecutor. The Manager is
// assembled exactly as the repo's own prepareNamespaceManager (executor_test.go) does:
// NewManager + one process-wide StatisticManager (prometheus registration can only happen
// once per process) + CreateNamespaceManager + CreateUserManager.
// What is not there: backends. Every generated namespace has one slice without a master or
// replica address, so NewNamespace creates no connection pool, Namespace.Init starts no
// health-check loop and the delayed Namespace.Close has nothing to close.

import (
	"crypto/sha1"
	"crypto/sha256"
	"encoding/hex"
	"fmt"
	"io/ioutil"
	"net"
	"os"
	"runtime"
	"strings"
	"sync"
	"time"

	"github.com/XiaoMi/Gaea/log"
	"github.com/XiaoMi/Gaea/models"
	"github.com/XiaoMi/Gaea/mysql"
)

// ---------------------------------------------------------------- quiet logging

type mgNullLogger struct{}

func (mgNullLogger) SetLevel(name, level string) error                    { return nil }
func (mgNullLogger) Debug(format string, a ...interface{}) error          { return nil }
func (mgNullLogger) Trace(format string, a ...interface{}) error          { return nil }
func (mgNullLogger) Notice(format string, a ...interface{}) error         { return nil }
func (mgNullLogger) Warn(format string, a ...interface{}) error           { return nil }
func (mgNullLogger) Fatal(format string, a ...interface{}) error          { return nil }
func (mgNullLogger) Debugx(logID, format string, a ...interface{}) error  { return nil }
func (mgNullLogger) Tracex(logID, format string, a ...interface{}) error  { return nil }
func (mgNullLogger) Noticex(logID, format string, a ...interface{}) error { return nil }
func (mgNullLogger) Warnx(logID, format string, a ...interface{}) error   { return nil }
func (mgNullLogger) Fatalx(logID, format string, a ...interface{}) error  { return nil }
func (mgNullLogger) Close()                                               {}
func (mgNullLogger) Dropped(i int) uint64                                 { return 0 }

// ---------------------------------------------------------------- process-wide statistics

var (
	mgOnce      sync.Once
	mgStatsBase *StatisticManager
	mgLogDir    string
	mgInitErr   error
)

const mgIDC = "c3"

// mgInit silences Gaea's console logger and creates the one StatisticManager of the process.
func mgInit() error {
	mgOnce.Do(func() {
		log.SetGlobalLogger(mgNullLogger{})
		dir, err := ioutil.TempDir(os.Getenv("VERIF_RUNDIR"), "mglog")
		if err != nil {
			mgInitErr = err
			return
		}
		mgLogDir = dir
		cfg := &models.Proxy{ConfigType: "file", Service: "gaea_proxy", Cluster: "gaea", Environ: "local",
			LogPath: dir, LogLevel: "Notice", LogFileName: "gaea", LogOutput: "file",
			SlowSQLTime: 100000, SessionTimeout: 3600, StatsEnabled: "false", StatsInterval: 3600, ServerIdc: mgIDC}
		st, err := CreateStatisticManager(cfg, NewManager())
		if err != nil {
			mgInitErr = err
			return
		}
		mgStatsBase = st
	})
	return mgInitErr
}

// mgCleanup stops the statistics goroutine, closes the SQL logger and removes its directory.
func mgCleanup() {
	if mgStatsBase != nil {
		func() {
			defer func() { recover() }()
			mgStatsBase.Close()
			if mgStatsBase.generalLogger != nil {
				mgStatsBase.generalLogger.Close()
			}
		}()
	}
	if mgLogDir != "" {
		os.RemoveAll(mgLogDir)
	}
}

// mgStatsFor returns a StatisticManager for one worker: the gauges/counters/logger of the
// process-wide instance with a private SQLResponsePercentile map (ReloadNamespacePrepare
// writes that map without a lock, so managers driven from different goroutines must not
// share it).
func mgStatsFor() *StatisticManager {
	b := mgStatsBase
	return &StatisticManager{
		manager: b.manager, clusterName: b.clusterName, startTime: b.startTime, statsType: b.statsType,
		handlers: b.handlers, generalLogger: b.generalLogger, logDroppedCounts: b.logDroppedCounts,
		sqlTimings: b.sqlTimings, sqlFingerprintSlowCounts: b.sqlFingerprintSlowCounts, sqlErrorCounts: b.sqlErrorCounts,
		sqlFingerprintErrorCounts: b.sqlFingerprintErrorCounts, sqlForbidenCounts: b.sqlForbidenCounts, flowCounts: b.flowCounts,
		sessionCounts: b.sessionCounts, CPUBusy: b.CPUBusy, backendSQLSwitchMasterCounts: b.backendSQLSwitchMasterCounts,
		backendSQLTimings: b.backendSQLTimings, backendSQLFingerprintSlowCounts: b.backendSQLFingerprintSlowCounts,
		backendSQLErrorCounts: b.backendSQLErrorCounts, backendSQLFingerprintErrorCounts: b.backendSQLFingerprintErrorCounts,
		backendConnectPoolIdleCounts: b.backendConnectPoolIdleCounts, backendConnectPoolInUseCounts: b.backendConnectPoolInUseCounts,
		backendConnectPoolActiveCounts: b.backendConnectPoolActiveCounts, backendConnectPoolWaitCounts: b.backendConnectPoolWaitCounts,
		backendConnectPoolCapacityCounts: b.backendConnectPoolCapacityCounts, backendInstanceDownCounts: b.backendInstanceDownCounts,
		uptimeCounts: b.uptimeCounts, backendSQLResponse99MaxCounts: b.backendSQLResponse99MaxCounts,
		backendSQLResponse99AvgCounts: b.backendSQLResponse99AvgCounts, backendSQLResponse95MaxCounts: b.backendSQLResponse95MaxCounts,
		backendSQLResponse95AvgCounts: b.backendSQLResponse95AvgCounts,
		SQLResponsePercentile:         map[string]*SQLResponse{}, slowSQLTime: b.slowSQLTime, CPUNums: b.CPUNums, closeChan: b.closeChan,
	}
}

// ---------------------------------------------------------------- configs and managers

type mgUser struct {
	User     string `json:"user"`
	Password string `json:"password"`
}

const mgVersionBase = 1000

// mgNamespaceConfig is a namespace configuration the control plane would accept (one slice,
// default slice set, at least one user) whose version is observable as maxSqlExecuteTime.
func mgNamespaceConfig(name string, version int, users []mgUser) *models.Namespace {
	us := make([]*models.User, 0, len(users))
	for _, u := range users {
		us = append(us, &models.User{UserName: u.User, Password: u.Password, Namespace: name,
			RWFlag: models.ReadWrite, RWSplit: models.NoReadWriteSplit})
	}
	return &models.Namespace{
		Name: name, Online: true, AllowedDBS: map[string]bool{"db": true},
		Slices:       []*models.Slice{{Name: "slice-0", UserName: "root", Password: "root", Capacity: 4, MaxCapacity: 8, IdleTimeout: 3600}},
		DefaultSlice: "slice-0", Users: us, MaxSqlExecuteTime: mgVersionBase + version,
	}
}

// mgBrokenConfig is a configuration that passes models.Namespace.Verify (slow_sql_time is
// not checked there) but that NewNamespace refuses ("parse slowSQLTime error"): a prepare of
// it fails, and at start-up CreateNamespaceManager skips it.
func mgBrokenConfig(name string, version int, users []mgUser) *models.Namespace {
	c := mgNamespaceConfig(name, version, users)
	c.SlowSQLTime = "not-a-number"
	return c
}

// mgVersionOf reads the version of a live namespace (-1 = no such namespace).
func mgVersionOf(ns *Namespace) int {
	if ns == nil {
		return -1
	}
	return ns.maxSqlExecuteTime - mgVersionBase
}

// mgNewManager assembles a real Manager over the given initial namespaces (the steps of
// CreateManager without a second StatisticManager and without the metrics tickers).
func mgNewManager(st *StatisticManager, initial []*models.Namespace) *Manager {
	m := NewManager()
	m.statistics = st
	cfgs := make(map[string]*models.Namespace, len(initial))
	for _, c := range initial {
		cfgs[c.Name] = c
	}
	current, _, _ := m.switchIndex.Get()
	m.namespaces[current] = CreateNamespaceManager(mgIDC, cfgs)
	m.namespaces[current].serverIDC = mgIDC
	um, _ := CreateUserManager(cfgs)
	m.users[current] = um
	for _, c := range initial {
		if _, ok := st.SQLResponsePercentile[c.Name]; !ok {
			st.SQLResponsePercentile[c.Name] = NewSQLResponse(c.Name) // 160 kB each: once per name and worker
		}
	}
	return m
}

// mgDropManager releases what the harness still holds of a manager (contexts of the live
// namespaces; there are no pools).
func mgDropManager(m *Manager) {
	current, _, _ := m.switchIndex.Get()
	if m.namespaces[current] == nil {
		return
	}
	for _, ns := range m.namespaces[current].namespaces {
		if ns != nil && ns.CloseCancel != nil {
			ns.CloseCancel()
		}
	}
}

// mgThrottle keeps the number of goroutines sleeping in Namespace.Close(true) (60 s each,
// not configurable) bounded. It is resource control only: no verdict depends on it, except
// that a wait beyond the cap makes the run inconclusive.
func mgThrottle(limit int, inconclusive func(string)) {
	if runtime.NumGoroutine() <= limit {
		return
	}
	deadline := time.Now().Add(15 * time.Minute)
	for runtime.NumGoroutine() > limit/2 {
		if time.Now().After(deadline) {
			inconclusive(fmt.Sprintf("more than %d goroutines for 15 minutes while waiting for delayed namespace closes", limit/2))
			return
		}
		time.Sleep(500 * time.Millisecond)
	}
}

// ---------------------------------------------------------------- handshake decision path

const (
	mgPlugDefault = ""
	mgPlugNative  = mysql.MysqlNativePassword
	mgPlugSha2    = mysql.CachingSHA2Password
)

// mgSession is a Session as newSession builds it, minus the TCP connection.
type mgSession struct {
	cc   *Session
	a, b net.Conn
}

func mgNewSession(m *Manager) *mgSession {
	a, b := net.Pipe()
	cc := new(Session)
	cc.c = NewClientConn(mysql.NewConn(a), m)
	cc.manager = m
	cc.executor = newSessionExecutor(m)
	cc.executor.clientAddr = "pipe"
	cc.executor.session = cc
	cc.closed.Store(false)
	return &mgSession{cc: cc, a: a, b: b}
}

func (s *mgSession) close() { s.a.Close(); s.b.Close() }

// use points the session at manager m and clears what a previous handshake left.
func (s *mgSession) use(m *Manager) {
	s.cc.manager = m
	s.cc.c.manager = m
	s.cc.executor.manager = m
	s.cc.namespace = ""
	s.cc.c.namespace = ""
	s.cc.executor.namespace = ""
	s.cc.executor.user = ""
	s.cc.executor.contextNamespace = nil
}

type mgAuthResult struct {
	Passed    bool   `json:"passed"`    // handleHandshakeResponse returned nil
	Namespace string `json:"namespace"` // namespace the session was bound to
	Live      bool   `json:"live"`      // that namespace exists in the manager (Handshake refuses otherwise)
	Panic     string `json:"panic,omitempty"`
	Err       string `json:"err,omitempty"`
}

// Accepted: the client is let in (password check passed and the session is bound to a
// namespace the manager serves).
func (r mgAuthResult) Accepted() bool { return r.Passed && r.Live }

// auth runs the real decision path for one handshake response. resp is copied: the caller's
// bytes stay what the client sent.
func (s *mgSession) auth(m *Manager, user string, salt, resp []byte, plugin string) (res mgAuthResult) {
	s.use(m)
	info := HandshakeResponseInfo{CollationID: 33, User: user, Salt: append([]byte(nil), salt...),
		AuthResponse: append([]byte(nil), resp...), Database: "", AuthPlugin: plugin}
	defer func() {
		if r := recover(); r != nil {
			res = mgAuthResult{Panic: fmt.Sprint(r)}
		}
	}()
	err := s.cc.handleHandshakeResponse(info)
	if err != nil {
		return mgAuthResult{Err: err.Error()}
	}
	res.Passed = true
	res.Namespace = s.cc.namespace
	res.Live = s.cc.getNamespace() != nil
	return res
}

// ---------------------------------------------------------------- independent scrambles
// Written from the protocol description (MySQL internals: Secure Password Authentication,
// caching_sha2_password fast path) with the standard library only.

// mgNativeProof is what a mysql_native_password client sends:
// SHA1(password) XOR SHA1(salt + SHA1(SHA1(password))); empty for the empty password.
func mgNativeProof(salt, password []byte) []byte {
	if len(password) == 0 {
		return []byte{}
	}
	s1 := sha1.Sum(password)
	s2 := sha1.Sum(s1[:])
	h := sha1.New()
	h.Write(salt)
	h.Write(s2[:])
	mask := h.Sum(nil)
	out := make([]byte, sha1.Size)
	for i := range out {
		out[i] = s1[i] ^ mask[i]
	}
	return out
}

// mgNativeStage2 is what mysql.user stores for mysql_native_password: SHA1(SHA1(password)).
func mgNativeStage2(password []byte) []byte {
	s1 := sha1.Sum(password)
	s2 := sha1.Sum(s1[:])
	return s2[:]
}

// mgNativeVerify is the server side: SHA1(resp XOR SHA1(salt + stage2)) == stage2.
func mgNativeVerify(salt, resp, stage2 []byte) bool {
	if len(resp) != sha1.Size || len(stage2) != sha1.Size {
		return false
	}
	h := sha1.New()
	h.Write(salt)
	h.Write(stage2)
	mask := h.Sum(nil)
	s1 := make([]byte, sha1.Size)
	for i := range s1 {
		s1[i] = resp[i] ^ mask[i]
	}
	got := sha1.Sum(s1)
	return string(got[:]) == string(stage2)
}

// mgSha2Proof is the caching_sha2_password scramble:
// SHA256(password) XOR SHA256(SHA256(SHA256(password)) + salt).
func mgSha2Proof(salt, password []byte) []byte {
	if len(password) == 0 {
		return []byte{}
	}
	d1 := sha256.Sum256(password)
	d2 := sha256.Sum256(d1[:])
	h := sha256.New()
	h.Write(d2[:])
	h.Write(salt)
	mask := h.Sum(nil)
	out := make([]byte, sha256.Size)
	for i := range out {
		out[i] = d1[i] ^ mask[i]
	}
	return out
}

// mgHashForm renders the '*'-prefixed stored form of a password (upper-case hex, as
// MySQL's PASSWORD() prints it).
func mgHashForm(password []byte) string {
	return "*" + strings.ToUpper(hex.EncodeToString(mgNativeStage2(password)))
}

// mgIsHashForm: '*' followed by exactly 40 hex digits; returns the 20 stored bytes.
func mgIsHashForm(stored string) ([]byte, bool) {
	if len(stored) != 41 || stored[0] != '*' {
		return nil, false
	}
	b, err := hex.DecodeString(stored[1:])
	if err != nil || len(b) != sha1.Size {
		return nil, false
	}
	return b, true
}
