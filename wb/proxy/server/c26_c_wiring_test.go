package server

// C26 part c — the breaker's switch and parameters as wired by the real namespace builder.
//
// Namespaces are built by the real NewNamespace (parseSlices -> IsFuseEnabled ->
// InitFuseRecoveryPolicy) for every accepted spelling of fuse_enabled and several
// window / threshold / cool-down settings. Then, on every replica of every group, connection
// errors are reported at one second of the virtual clock through the real Slice.TryFuse:
// the replica must be marked down exactly by the error number fuse_min_error_count when the
// switch is on (any spelling of "on", or empty) and never when it is off (any spelling of
// "off"); non-positive window/threshold settings mean the defaults; a sibling's errors never
// count.

import (
	"fmt"
	"strings"
	"testing"
	"time"

	"github.com/XiaoMi/Gaea/backend"
	"github.com/XiaoMi/Gaea/mysql"
	kit "github.com/XiaoMi/Gaea/verifkit"
)

type c26cCase struct {
	Part     string `json:"part"` // wiring
	Enabled  string `json:"fuse_enabled"`
	W        int64  `json:"fuse_window_size"`
	Min      int64  `json:"fuse_min_error_count"`
	Cooldown int64  `json:"fuse_cool_down_period"`
}

func c26cRun(c c26cCase, now *int64) (clause, detail string, events int) {
	cfg := rigBasicNamespace("c26c")
	cfg.Slices[0].StatisticSlaves = []string{"127.0.0.1:13319", "127.0.0.1:13320"}
	cfg.FuseEnabled, cfg.FuseWindowSize, cfg.FuseMinErrorCount, cfg.FuseCoolDownPeriod = c.Enabled, c.W, c.Min, c.Cooldown
	if err := cfg.Verify(); err != nil {
		return "harness/config-rejected", err.Error(), 0
	}
	ns, err := NewNamespace(cfg, "c3")
	if err != nil {
		return "harness/namespace", err.Error(), 0
	}
	defer ns.Close(false)
	// non-positive settings mean the documented defaults (window 4 s, 6 errors)
	min := c.Min
	if min <= 0 {
		min = defaultFuseMinErrorCount
	}
	enabled := strings.ToLower(c.Enabled) != "off"
	*now += 1000
	for name, sl := range ns.slices {
		groups := map[string]*backend.DBInfo{"Slave": sl.Slave, "StatisticSlave": sl.StatisticSlave, "MonitorSlave": sl.MonitorSlave}
		for gname, g := range groups {
			if g == nil {
				continue
			}
			for i, node := range g.Nodes {
				// replica i receives errors one by one; its siblings with a lower index have
				// already received theirs and were set up again by the harness
				cerr := mysql.NewConnTypeError(node.Address, "dial timeout")
				limit := min + 1
				if limit < 3 {
					limit = 3
				}
				for k := int64(1); k <= limit; k++ {
					node.SetStatusUp()
					sl.TryFuse(node, cerr)
					events++
					want := enabled && k >= min
					got := node.IsStatusDown()
					if got != want {
						cl := "missed-at-threshold"
						switch {
						case got && !enabled:
							cl = "disabled-fired"
						case got:
							cl = "fired-below-threshold"
						}
						return cl, fmt.Sprintf("slice %s group %s replica %d: after connection error #%d at one second node down=%v (fuse_enabled=%q window=%d min=%d)", name, gname, i, k, got, c.Enabled, c.W, c.Min), events
					}
				}
				node.SetStatusUp()
			}
		}
	}
	return "", "", events
}

func TestVerif_C26c(t *testing.T) {
	rigQuietLogs()
	rec := kit.Start("C26", "exploration", "part c: namespaces built by the real NewNamespace for fuse_enabled in {on,ON,On,oN,\"\",off,OFF,Off,oFf} x window {0,1,4} x threshold {0,1,2,4} x cool-down {0,9}; connection errors reported one by one at one second through Slice.TryFuse on every replica of the Slave, StatisticSlave and MonitorSlave groups; non-trivial = distinct settings whose breaker is switched off by a spelling or switched on with threshold >= 2")
	defer rec.Finish(t)
	rec.Assume("part c: fuse_enabled is case-insensitive and only \"off\" disables (models.verifyFuseEnabled); other values are rejected by the configuration check and not generated")
	var now int64 = 1700000000
	backend.VerifSetClock(func() time.Time { return time.Unix(now, 0) })
	defer backend.VerifSetClock(nil)

	runOne := func(c c26cCase) {
		rec.Eval(1)
		cl, det, ev := c26cRun(c, &now)
		rec.Count("partc.error_events", int64(ev))
		if strings.HasPrefix(cl, "harness/") {
			rec.Inconclusive(cl + ": " + det)
			return
		}
		if cl != "" {
			sp := "lower-case"
			if c.Enabled != strings.ToLower(c.Enabled) {
				sp = "mixed-case-spelling"
			}
			rec.Violation(fmt.Sprintf("wiring/%s/enabled=%s/%s", cl, strings.ToLower(c.Enabled), sp), fmt.Sprintf("NewNamespace(fuse_enabled=%q, window=%d, min=%d, cooldown=%d): %s", c.Enabled, c.W, c.Min, c.Cooldown, det), c)
		}
		if strings.ToLower(c.Enabled) == "off" || c.Min >= 2 {
			rec.Nontrivial(fmt.Sprintf("%s/%d/%d/%d", c.Enabled, c.W, c.Min, c.Cooldown))
		}
	}
	if p := kit.ReplayPath(); p != "" {
		var c c26cCase
		if err := kit.LoadReplay(p, &c); err != nil || c.Part != "wiring" {
			rec.Eval(1)
			rec.Set("replay", "not a part-c case")
			return
		}
		runOne(c)
		return
	}
	for _, sp := range []string{"on", "ON", "On", "oN", "", "off", "OFF", "Off", "oFf"} {
		for _, w := range []int64{0, 1, 4} {
			for _, min := range []int64{0, 1, 2, 4} {
				for _, cool := range []int64{0, 9} {
					c := c26cCase{Part: "wiring", Enabled: sp, W: w, Min: min, Cooldown: cool}
					runOne(c)
					if sp == "Off" && w == 4 && min == 2 {
						rec.Sample(c)
					}
				}
			}
		}
	}
}
