package server

// Shared driver of the transaction / connection-lifecycle monitors C18, C19, C23 (tag tx).
//
// One rig R2 per process (Gaea's stats package can be initialised only once), holding
// txWorkers x 4 namespaces: per worker a plain ("p"), a keep-session ("k"), a plain with
// max_sql_execute_time ("t") and a keep-session with max_sql_execute_time ("u") namespace.
// A worker runs one case at a time in one of ITS namespaces, so every backend event of that
// namespace belongs to the case (events carry the namespace name), and several workers can
// run cases in parallel on the same real Manager/Server.
//
// A case is a list of client commands for one or two client sessions (driven strictly one
// command at a time, so every backend event is attributable to the command in flight) plus
// at most one injected backend fault addressed as (step index, slice, op, n-th such call).
// The driver returns the complete trace: per step the client's reply, the backend events
// and a ledger snapshot of every fake connection the case has touched, taken at the
// quiescent point after the reply.

import (
	"errors"
	"fmt"
	"net"
	"sort"
	"strings"
	"sync"
	"testing"
	"time"

	"github.com/XiaoMi/Gaea/models"
	"github.com/XiaoMi/Gaea/mysql"
	"github.com/XiaoMi/Gaea/verifkit/mycli"
)

const (
	txWorkers       = 8
	txTimeoutMs     = 1500 // max_sql_execute_time of the "t"/"u" namespaces
	txClientTimeout = 60 * time.Second
)

// ---------------------------------------------------------------- case model

type txStep struct {
	S  int    `json:"s"`  // client session index (0 or 1)
	Op string `json:"op"` // see txSQL / special ops: ping pingfail fl reload quit disc
}

// txFault addresses one backend call of the run: the N-th (0-based) call with operation Op
// on slice Slice while step Cmd is in flight.
type txFault struct {
	Kind  string `json:"kind"` // err | close | block | reload (the namespace is reloaded while the call is in flight)
	Cmd   int    `json:"cmd"`
	Slice string `json:"slice"`
	Op    string `json:"op"`
	N     int    `json:"n"`
}

type txCase struct {
	Mode  string   `json:"mode"`  // p plain | k keep-session | t plain+timeout | u keep-session+timeout
	Users []string `json:"users"` // per session: rw | rws | ro
	Steps []txStep `json:"steps"`
	Fault *txFault `json:"fault,omitempty"`
}

func (c *txCase) String() string {
	var sb strings.Builder
	sb.WriteString(c.Mode + "/" + strings.Join(c.Users, ",") + ":")
	for i, s := range c.Steps {
		if i > 0 {
			sb.WriteString(" ")
		}
		if len(c.Users) > 1 {
			sb.WriteString(fmt.Sprintf("%d.", s.S))
		}
		sb.WriteString(s.Op)
	}
	if c.Fault != nil {
		sb.WriteString(fmt.Sprintf(" !%s@%d/%s/%s#%d", c.Fault.Kind, c.Fault.Cmd, c.Fault.Slice, c.Fault.Op, c.Fault.N))
	}
	return sb.String()
}

func (c *txCase) clone() *txCase {
	d := &txCase{Mode: c.Mode, Users: append([]string(nil), c.Users...), Steps: append([]txStep(nil), c.Steps...)}
	if c.Fault != nil {
		f := *c.Fault
		d.Fault = &f
	}
	return d
}

// txSQL maps statement ops to SQL. tbl_shard: mod 4 on id, tables 0,1 on slice-0 and 2,3
// on slice-1; t2 is unsharded (default slice-0); tbl_glob is a global table on both slices.
var txSQL = map[string]string{
	"begin":    "begin",
	"start":    "start transaction",
	"commit":   "commit",
	"rollback": "rollback",
	"ac0":      "set autocommit=0",
	"ac1":      "set autocommit=1",
	"sp":       "savepoint s1",
	"rbsp":     "rollback to s1",
	"relsp":    "release savepoint s1",
	"rs0":      "select * from tbl_shard where id=1",
	"rs1":      "select * from tbl_shard where id=2",
	"rs2":      "select * from tbl_shard where id in (1,2)",
	"ws0":      "update tbl_shard set a=1 where id=1",
	"ws1":      "update tbl_shard set a=1 where id=2",
	"ws2":      "update tbl_shard set a=1 where id in (1,2)",
	"fs1":      "select * from tbl_shard where id=2 for update",
	"ru":       "select * from t2",
	"wu":       "insert into t2 values (1)",
	"fu":       "select * from t2 for update",
	"rg":       "select * from tbl_glob",
	"wg":       "update tbl_glob set a=1",
	"sr":       "select * from t3", // unsharded, answered as a streamed result set (2 further row chunks)
	"sm":       "select * from t4", // unsharded, answered with a second result set (multi-result)
	"multi":    "begin;insert into t2 values (1);commit",
}

// txClass is the coarse class of a step used in signatures.
func txClass(op string) string {
	switch op {
	case "begin", "start":
		return "B"
	case "commit":
		return "C"
	case "rollback":
		return "R"
	case "ac0":
		return "A0"
	case "ac1":
		return "A1"
	case "sp", "rbsp", "relsp":
		return "SP"
	case "rs0", "rs1", "rs2", "ws0", "ws1", "ws2", "fs1", "rg", "wg":
		return "S"
	case "ru", "wu", "fu", "sr", "sm":
		return "U"
	case "ping", "pingfail":
		return "P"
	case "fl":
		return "F"
	case "multi":
		return "M"
	case "quit", "disc":
		return "Q"
	case "reload":
		return "L"
	}
	return "?"
}

func txIsStatement(op string) bool {
	c := txClass(op)
	return c == "S" || c == "U"
}

// ---------------------------------------------------------------- trace

type txReply struct {
	Kind      string `json:"kind"` // ok | rows | err | lost | none
	Code      uint16 `json:"code,omitempty"`
	Msg       string `json:"msg,omitempty"`
	Status    uint16 `json:"status,omitempty"`
	HasStatus bool   `json:"has_status,omitempty"`
}

type txConnSnap struct {
	ID     int64  `json:"id"`
	Slice  string `json:"slice"`
	Role   string `json:"role"`
	Gen    int    `json:"gen"`
	Taken  bool   `json:"taken"`
	Closed bool   `json:"closed"`
	InTx   bool   `json:"in_tx"`
}

type txStepTrace struct {
	Step   txStep       `json:"step"`
	Reply  txReply      `json:"reply"`
	Events []rigEvent   `json:"events"`
	Snap   []txConnSnap `json:"snap"`
	// client-visible transaction state of the step's session after the reply
	InTx       bool `json:"in_tx"`
	Autocommit bool `json:"autocommit"`
	Ended      bool `json:"ended"` // the session is over after this step (quit, disc or server closed it)
	// for a block fault fired in this step: Seq of the blocked call and the log index at
	// which it was released (events with BlockSeq < Seq < ReleaseSeq happened while the
	// call was executing); -1 otherwise
	BlockSeq   int `json:"block_seq"`
	ReleaseSeq int `json:"release_seq"`
}

type txTrace struct {
	w         *txWorker
	Case      *txCase       `json:"case"`
	NS        string        `json:"ns"`
	Steps     []txStepTrace `json:"steps"`
	Fired     bool          `json:"fired"`
	FiredEv   rigEvent      `json:"fired_ev"`
	FiredHeld int           `json:"fired_held"` // connections of the namespace checked out when the fault hit
	FiredInTx bool          `json:"fired_in_tx"`
	Disturbed string        `json:"disturbed,omitempty"` // the run did not go as scripted (watchdog, spurious timeout): not judged
	GenAtEnd  int           `json:"gen_at_end"`
}

// ---------------------------------------------------------------- environment

type txEnv struct {
	r        *rig
	ws       []*txWorker
	byNS     map[string]*txWorker
	reloadMu sync.Mutex
}

type txWorker struct {
	env *txEnv
	idx int
	cur *txRun // guarded by env.r.B.mu
}

type txSess struct {
	c     *mycli.Conn
	alive bool
	ac    bool
	tx    bool
}

type txRun struct {
	ns      string
	stepIdx int
	fault   *txFault
	counts  map[string]int
	fired   bool
	firedEv rigEvent
	held    int
	block   chan struct{} // non-nil while a call is blocked by a block fault
	// blockDone is closed when the formerly blocked call has left the fake connection
	blockDone     chan struct{}
	blockDoneOnce bool
	blockWaited   bool
	releaseSeq    int // log index at which the blocked call was released (-1: not yet)
	seen          map[int64]*rigConn
	pingFailArmed bool
	reloadCfg     func() *models.Namespace
	reloadErr     error
}

var txErrInjected = errors.New("rig: injected backend error")

// txNamespace is rigBasicNamespace plus a global table, with backend addresses nobody
// listens on (KILL QUERY side connections are refused at once).
func txNamespace(name string, ks bool, timeoutMs int) *models.Namespace {
	ns := rigBasicNamespace(name)
	ns.Slices = []*models.Slice{
		rigSlice("slice-0", "127.0.0.1:1", []string{"127.0.0.1:2", "127.0.0.1:3"}),
		rigSlice("slice-1", "127.0.0.1:4", []string{"127.0.0.1:5"}),
	}
	ns.ShardRules = append(ns.ShardRules, &models.Shard{DB: "db", Table: "tbl_glob", Type: "global", Locations: []int{1, 1}, Slices: []string{"slice-0", "slice-1"}})
	ns.SetForKeepSession = ks
	ns.MaxSqlExecuteTime = timeoutMs
	return ns
}

func txNSName(worker int, mode string) string { return fmt.Sprintf("w%d%s", worker, mode) }

func txModeCfg(worker int, mode string) *models.Namespace {
	ks := mode == "k" || mode == "u"
	to := 0
	if mode == "t" || mode == "u" {
		to = txTimeoutMs
	}
	return txNamespace(txNSName(worker, mode), ks, to)
}

// txStartEnv builds the single rig of the process.
func txStartEnv(t testing.TB) *txEnv {
	var nss []*models.Namespace
	for w := 0; w < txWorkers; w++ {
		for _, m := range []string{"p", "k", "t", "u"} {
			nss = append(nss, txModeCfg(w, m))
		}
	}
	env := &txEnv{byNS: map[string]*txWorker{}}
	env.r = rigStart(t, rigOpts{Namespaces: nss, FakePools: true})
	for w := 0; w < txWorkers; w++ {
		wk := &txWorker{env: env, idx: w}
		env.ws = append(env.ws, wk)
		for _, m := range []string{"p", "k", "t", "u"} {
			env.byNS[txNSName(w, m)] = wk
		}
	}
	env.r.B.Fault = env.onCall
	env.r.B.Respond = env.respond
	env.r.B.Stream = env.stream
	return env
}

func (env *txEnv) Close() { env.r.Close() }

// onCall is the rig's fault hook: runs under the backend lock for every pool Get and every
// connection call (not for Recycle).
func (env *txEnv) onCall(ev *rigEvent) *rigFault {
	if ev.Check {
		return nil
	}
	w := env.byNS[ev.NS]
	if w == nil || w.cur == nil || w.cur.ns != ev.NS {
		return nil
	}
	run := w.cur
	if ev.Op == "close" || ev.Op == "reconnect" {
		// closing the connection a call is blocked on unblocks that call, as closing a
		// socket makes a blocked read return
		if ev.Op == "close" && run.block != nil && ev.Conn == run.firedEv.Conn {
			run.release(ev.Seq)
		}
		return nil
	}
	if run.pingFailArmed && ev.Op == "ping" {
		run.pingFailArmed = false
		return &rigFault{Name: "pingfail", Err: txErrInjected}
	}
	key := fmt.Sprintf("%d|%s|%s", run.stepIdx, ev.Slice, ev.Op)
	n := run.counts[key]
	run.counts[key] = n + 1
	f := run.fault
	// Slice "*" addresses the n-th such call on EVERY slice (a fault that hits all backends)
	if f == nil || (run.fired && f.Slice != "*") || f.Cmd != run.stepIdx || (f.Slice != ev.Slice && f.Slice != "*") || f.Op != ev.Op || f.N != n {
		return nil
	}
	run.fired = true
	run.firedEv = *ev
	held := 0
	for _, c := range env.r.B.conns {
		if c.pool.ns == run.ns && c.taken && !c.check {
			held++
		}
	}
	run.held = held
	switch f.Kind {
	case "err":
		return &rigFault{Name: "err", Err: txErrInjected}
	case "close":
		return &rigFault{Name: "close", Err: mysql.ErrBadConn, CloseConn: true}
	case "block":
		run.block = make(chan struct{})
		run.blockDone = make(chan struct{})
		return &rigFault{Name: "block", Block: run.block}
	case "reload":
		// reload the namespace (prepare + commit) while this backend call is in flight: the
		// call returns only after the commit. Runs in its own goroutine because installing
		// the new fakes needs the backend lock, which is held here.
		ch := make(chan struct{})
		cfg := run.reloadCfg
		go func() {
			env.reloadMu.Lock()
			err := env.r.Reload(cfg())
			env.reloadMu.Unlock()
			if err != nil {
				env.r.B.mu.Lock()
				run.reloadErr = err
				env.r.B.mu.Unlock()
			}
			close(ch)
		}()
		return &rigFault{Name: "reload", Block: ch}
	}
	return nil
}

// stream is the rig's Stream hook: statements on t3 / t4 get streamed answers. (Row chunks
// and a further result set are not combined: writeRowsWithEOF clears SERVER_MORE_RESULTS_EXISTS
// in the EOF that ends the streamed rows, so the client stops reading - a wire-protocol matter
// outside these properties.)
func (env *txEnv) stream(c *rigConn, sql string) (int, int) {
	switch {
	case strings.Contains(sql, " t3"):
		return 2, 0
	case strings.Contains(sql, " t4"):
		return 0, 1
	}
	return 0, 0
}

// release lets the blocked call continue (backend lock held).
func (run *txRun) release(seq int) {
	if run.block != nil {
		run.releaseSeq = seq
		close(run.block)
		run.block = nil
	}
}

// respond is the rig's Respond hook: rigDefaultRespond with the connection status read
// under the backend lock, and the signal that a formerly blocked call has finished.
func (env *txEnv) respond(c *rigConn, sql string) (*mysql.Result, error) {
	b := env.r.B
	b.mu.Lock()
	st := c.status()
	var done chan struct{}
	if w := env.byNS[c.pool.ns]; w != nil && w.cur != nil {
		run := w.cur
		if run.blockDone != nil && !run.blockDoneOnce && run.block == nil && run.firedEv.Conn == c.id && run.firedEv.SQL == sql {
			run.blockDoneOnce = true
			done = run.blockDone
		}
	}
	b.mu.Unlock()
	var res *mysql.Result
	var err error
	switch rigFirstWord(sql) {
	case "select", "show", "desc", "describe", "explain":
		var rs *mysql.Resultset
		rs, err = mysql.BuildResultset(nil, []string{"c"}, [][]interface{}{{int64(1)}})
		if err == nil {
			res = &mysql.Result{Status: st, Resultset: rs}
		}
	default:
		res = &mysql.Result{Status: st, AffectedRows: 1}
	}
	if done != nil {
		close(done)
	}
	return res, err
}

// txTruncateLog drops the event log (call only while no case is running).
func (env *txEnv) txTruncateLog() {
	b := env.r.B
	b.mu.Lock()
	b.events = nil
	b.mu.Unlock()
}

// ---------------------------------------------------------------- running a case

func txReplyOf(rs []*mycli.Reply, err error) txReply {
	if err != nil {
		return txReply{Kind: "lost", Msg: err.Error()}
	}
	if len(rs) == 0 {
		return txReply{Kind: "none"}
	}
	r := rs[len(rs)-1]
	if r.Err != nil {
		return txReply{Kind: "err", Code: r.Err.Code, Msg: r.Err.Msg}
	}
	if r.IsOK {
		return txReply{Kind: "ok", Status: r.Status, HasStatus: true}
	}
	return txReply{Kind: "rows", Status: r.Status, HasStatus: true}
}

func (s *txSess) update(op string, rp txReply) {
	if rp.HasStatus {
		s.ac = rp.Status&mycli.StatusAutocommit != 0
		s.tx = rp.Status&mycli.StatusInTrans != 0
		return
	}
	if rp.Kind == "err" {
		switch op {
		case "commit", "rollback":
			s.tx = false
		case "ac1":
			s.ac, s.tx = true, false
		case "ac0":
			s.ac = false
		}
	}
}

// waitEOF reads until the server closes the socket (Session.Close has then finished its
// backend work, because closing the client socket is the last thing it does).
func txWaitEOF(c *mycli.Conn) bool {
	for i := 0; i < 64; i++ {
		if _, err := c.ReadPacket(); err != nil {
			if ne, ok := err.(net.Error); ok && ne.Timeout() {
				return false
			}
			return true
		}
	}
	return false
}

func (w *txWorker) snapshot(run *txRun) []txConnSnap {
	b := w.env.r.B
	b.mu.Lock()
	defer b.mu.Unlock()
	ids := make([]int64, 0, len(run.seen))
	for id := range run.seen {
		ids = append(ids, id)
	}
	sort.Slice(ids, func(i, j int) bool { return ids[i] < ids[j] })
	out := make([]txConnSnap, 0, len(ids))
	for _, id := range ids {
		c := run.seen[id]
		out = append(out, txConnSnap{ID: id, Slice: c.pool.slice, Role: c.pool.role, Gen: c.pool.gen, Taken: c.taken, Closed: c.closed, InTx: c.inTx})
	}
	return out
}

// collect returns the events of the run's namespace logged since index from, and registers
// the connections they mention.
func (w *txWorker) collect(run *txRun, from int) []rigEvent {
	b := w.env.r.B
	b.mu.Lock()
	defer b.mu.Unlock()
	var out []rigEvent
	if from > len(b.events) {
		from = len(b.events)
	}
	for _, e := range b.events[from:] {
		if e.NS != run.ns || e.Check || e.Op == "poolclose" {
			continue
		}
		out = append(out, e)
		if e.Conn != 0 {
			if c := b.conns[e.Conn]; c != nil {
				run.seen[e.Conn] = c
			}
		}
	}
	return out
}

// Run executes one case and returns its trace.
func (w *txWorker) Run(c *txCase) *txTrace {
	env := w.env
	b := env.r.B
	ns := txNSName(w.idx, c.Mode)
	run := &txRun{ns: ns, fault: c.Fault, counts: map[string]int{}, seen: map[int64]*rigConn{}, releaseSeq: -1}
	run.reloadCfg = func() *models.Namespace { return txModeCfg(w.idx, c.Mode) }
	tr := &txTrace{Case: c, NS: ns, w: w}
	b.mu.Lock()
	w.cur = run
	// connections of the namespace still checked out before the case starts would be a
	// harness error (every run cleans up after itself)
	for _, cn := range b.conns {
		if cn.pool.ns == ns && cn.taken && !cn.check {
			tr.Disturbed = "namespace not clean at start"
		}
	}
	b.mu.Unlock()
	if tr.Disturbed != "" {
		return tr
	}
	sess := make([]*txSess, len(c.Users))
	firedSeen := false
	defer func() {
		for _, s := range sess {
			if s != nil && s.c != nil {
				s.c.Close()
			}
		}
	}()
	for i, st := range c.Steps {
		if st.S < 0 || st.S >= len(sess) {
			tr.Disturbed = "bad session index"
			break
		}
		s := sess[st.S]
		if s == nil {
			u := c.Users[st.S]
			cl, err := env.r.Dial(ns+"_"+u, "pw_"+u, "db")
			if err != nil {
				tr.Disturbed = "dial: " + err.Error()
				break
			}
			cl.Timeout = txClientTimeout
			s = &txSess{c: cl, alive: true, ac: true}
			sess[st.S] = s
		}
		stt := txStepTrace{Step: st, BlockSeq: -1, ReleaseSeq: -1}
		before := s.tx || !s.ac
		if !s.alive {
			stt.Reply = txReply{Kind: "none"}
			stt.Ended = true
			stt.Snap = w.snapshot(run)
			tr.Steps = append(tr.Steps, stt)
			continue
		}
		b.mu.Lock()
		run.stepIdx = i
		from := len(b.events)
		if st.Op == "pingfail" {
			run.pingFailArmed = true
		}
		b.mu.Unlock()

		switch st.Op {
		case "ping", "pingfail":
			r, err := s.c.Ping()
			if r != nil {
				stt.Reply = txReplyOf([]*mycli.Reply{r}, err)
			} else {
				stt.Reply = txReplyOf(nil, err)
			}
		case "fl":
			_, ep, err := s.c.FieldList("t2", "")
			if err != nil {
				stt.Reply = txReply{Kind: "lost", Msg: err.Error()}
			} else if ep != nil {
				stt.Reply = txReply{Kind: "err", Code: ep.Code, Msg: ep.Msg}
			} else {
				stt.Reply = txReply{Kind: "rows"}
			}
		case "reload":
			env.reloadMu.Lock()
			err := env.r.Reload(txModeCfg(w.idx, c.Mode))
			env.reloadMu.Unlock()
			if err != nil {
				tr.Disturbed = "reload: " + err.Error()
			}
			stt.Reply = txReply{Kind: "none"}
		case "quit":
			s.c.Command(mycli.ComQuit, nil)
			if !txWaitEOF(s.c) {
				tr.Disturbed = "server did not close the connection after COM_QUIT"
			}
			stt.Reply = txReply{Kind: "none"}
			s.alive = false
		case "disc":
			if tc, ok := s.c.C.(*net.TCPConn); ok {
				tc.CloseWrite()
			}
			if !txWaitEOF(s.c) {
				tr.Disturbed = "server did not close the connection after client EOF"
			}
			stt.Reply = txReply{Kind: "none"}
			s.alive = false
		default:
			sql, ok := txSQL[st.Op]
			if !ok {
				tr.Disturbed = "unknown op " + st.Op
				break
			}
			rs, err := s.c.Query(sql)
			stt.Reply = txReplyOf(rs, err)
			if (st.Op == "sr" || st.Op == "sm") && err == nil && stt.Reply.Kind != "err" {
				// a streamed answer is complete for the client before the server has run its
				// deferred recycleContinueConn: a backend-free command (COM_INIT_DB of the
				// current database) is answered only after that, and its OK packet carries
				// the session's own status (the streamed packets carry the backend's)
				if pr, perr := s.c.InitDB("db"); perr == nil && pr != nil && pr.IsOK {
					stt.Reply.Status, stt.Reply.HasStatus = pr.Status, true
				} else if perr != nil {
					stt.Reply = txReply{Kind: "lost", Msg: perr.Error()}
				}
			}
		}
		// release a blocked backend call now that the client has its reply, and wait until
		// it has left the fake connection (so that the next command does not overlap it)
		b.mu.Lock()
		if run.block != nil {
			run.release(len(b.events))
		}
		done := run.blockDone
		if done != nil && !run.blockWaited {
			run.blockWaited = true
			stt.BlockSeq, stt.ReleaseSeq = run.firedEv.Seq, run.releaseSeq
		} else {
			done = nil
		}
		b.mu.Unlock()
		if done != nil {
			select {
			case <-done:
			case <-time.After(30 * time.Second):
				tr.Disturbed = "blocked call did not finish after release"
			}
		}
		if stt.Reply.Kind == "lost" {
			s.alive = false
			// the server closed the connection (or is about to): wait for EOF so that
			// Session.Close has run
			txWaitEOF(s.c)
		}
		if stt.Reply.Kind == "err" && strings.Contains(stt.Reply.Msg, "namespace changed in transaction") {
			// the server closes the session after this reply
			if !txWaitEOF(s.c) {
				tr.Disturbed = "server did not close the connection after ErrTxNsChanged"
			}
			s.alive = false
		}
		if stt.Reply.Kind == "err" && strings.Contains(stt.Reply.Msg, "timed out") && (c.Fault == nil || c.Fault.Kind != "block" || !run.fired) {
			tr.Disturbed = "spurious max_sql_execute_time timeout"
		}
		if stt.Reply.Kind == "err" && s.alive && tr.Disturbed == "" {
			// an error packet carries no status flags: ask for them with a command that
			// touches no backend (COM_INIT_DB of the current database)
			if pr, err := s.c.InitDB("db"); err == nil && pr != nil && pr.IsOK {
				stt.Reply.Status, stt.Reply.HasStatus = pr.Status, true
			} else if err != nil {
				s.alive = false
				txWaitEOF(s.c)
			}
		}
		s.update(st.Op, stt.Reply)
		stt.InTx = s.tx || !s.ac
		stt.Autocommit = s.ac
		stt.Ended = !s.alive
		stt.Events = w.collect(run, from)
		b.mu.Lock()
		firedNow := run.fired
		b.mu.Unlock()
		if firedNow && !firedSeen {
			firedSeen = true
			tr.FiredInTx = before
		}
		stt.Snap = w.snapshot(run)
		tr.Steps = append(tr.Steps, stt)
		if tr.Disturbed != "" {
			break
		}
	}
	// end every session that is still alive (unrecorded safety net; generators end their
	// sessions explicitly)
	for _, s := range sess {
		if s != nil && s.alive {
			s.c.Command(mycli.ComQuit, nil)
			txWaitEOF(s.c)
			s.alive = false
		}
	}
	// clean the namespace for the next case: force-return what the case leaked
	b.mu.Lock()
	run.release(len(b.events))
	if run.reloadErr != nil && tr.Disturbed == "" {
		tr.Disturbed = "reload: " + run.reloadErr.Error()
	}
	tr.Fired, tr.FiredEv, tr.FiredHeld = run.fired, run.firedEv, run.held
	w.cur = nil
	var leaked []*rigConn
	for id, cn := range run.seen {
		if cn.taken {
			cn.closed = true
			leaked = append(leaked, cn)
		} else if cn.closed {
			delete(b.conns, id)
		}
	}
	b.mu.Unlock()
	for _, cn := range leaked {
		cn.Recycle()
	}
	b.mu.Lock()
	for _, cn := range leaked {
		delete(b.conns, cn.id)
	}
	b.mu.Unlock()
	env.reloadMu.Lock()
	tr.GenAtEnd = env.r.gen[ns]
	env.reloadMu.Unlock()
	return tr
}

// ---------------------------------------------------------------- parallel execution

// txRunAll runs cases on the worker pool, calling judge(trace) for each (judge must be
// safe for concurrent use). The event log is truncated between batches.
func (env *txEnv) txRunAll(cases []*txCase, judge func(*txTrace)) {
	const batch = 128
	for lo := 0; lo < len(cases); lo += batch {
		hi := lo + batch
		if hi > len(cases) {
			hi = len(cases)
		}
		ch := make(chan *txCase, hi-lo)
		for _, c := range cases[lo:hi] {
			ch <- c
		}
		close(ch)
		var wg sync.WaitGroup
		for _, w := range env.ws {
			wg.Add(1)
			go func(w *txWorker) {
				defer wg.Done()
				for c := range ch {
					judge(w.Run(c))
				}
			}(w)
		}
		wg.Wait()
		env.txTruncateLog()
	}
}

// ---------------------------------------------------------------- helpers for oracles

// txIsUse reports whether the event is a use of a connection (anything but taking,
// returning or closing it).
func txIsUse(e rigEvent) bool {
	switch e.Op {
	case "get", "getcheck", "recycle", "close", "put", "poolclose":
		return false
	}
	return e.Conn != 0
}

// txPos is a faultable backend call of a fault-free trace.
type txPos struct {
	F   txFault // Kind left empty
	SQL string
	Ev  rigEvent
}

// txFaultPositions lists the faultable calls of a fault-free trace as fault addresses.
func txFaultPositions(tr *txTrace) []txPos {
	var out []txPos
	for i, st := range tr.Steps {
		counts := map[string]int{}
		for _, e := range st.Events {
			if e.Op == "recycle" || e.Op == "close" || e.Op == "reconnect" {
				continue
			}
			k := e.Slice + "|" + e.Op
			n := counts[k]
			counts[k] = n + 1
			out = append(out, txPos{F: txFault{Cmd: i, Slice: e.Slice, Op: e.Op, N: n}, SQL: e.SQL, Ev: e})
		}
	}
	return out
}

func txKS(mode string) bool { return mode == "k" || mode == "u" }

func txB2i(b bool) int {
	if b {
		return 1
	}
	return 0
}

func txTraceLines(tr *txTrace) []string {
	var out []string
	for i, st := range tr.Steps {
		out = append(out, fmt.Sprintf("[%d] %s -> %s %s intx=%v", i, st.Step.Op, st.Reply.Kind, st.Reply.Msg, st.InTx))
		for _, e := range st.Events {
			if e.Op == "usedb" || e.Op == "setcharset" || e.Op == "setvars" || e.Op == "writeset" {
				if e.Fault == "" && e.Taken {
					continue
				}
			}
			out = append(out, fmt.Sprintf("      %s/%s c%d %s %s%s%s taken=%v closed=%v", e.Slice, e.Role, e.Conn, e.Op, e.SQL, map[bool]string{true: " FAULT=" + e.Fault, false: ""}[e.Fault != ""], map[bool]string{true: " err=" + e.Err, false: ""}[e.Err != ""], e.Taken, e.Closed))
		}
		var held []string
		for _, cs := range st.Snap {
			if cs.Taken {
				held = append(held, fmt.Sprintf("c%d(%s/%s%s)", cs.ID, cs.Slice, cs.Role, map[bool]string{true: ",closed", false: ""}[cs.Closed]))
			}
		}
		out = append(out, "      checked out: "+strings.Join(held, " "))
	}
	return out
}

func txSteps(ops []string, end string) []txStep {
	var s []txStep
	for _, o := range ops {
		s = append(s, txStep{Op: o})
	}
	return append(s, txStep{Op: end})
}
