package server

// C29 — credentials authenticate into exactly their own namespace, across reloads.
//
// Monitor: histories of create / reload / delete run on the real Manager (prepare + commit
// for create and reload, DeleteNamespace for delete). The oracle is a reference set of
// (namespace, user, password) triples kept beside the manager. After every step every
// (user, password) of the probing alphabet is presented to the real
// Session.handleHandshakeResponse with proofs computed by an independent scramble
// implementation, through the four ways the decision path can check a password; it must be
// let in iff the pair is in the set, bound to the namespace of the set.

import (
	"encoding/hex"
	"encoding/json"
	"fmt"
	"sort"
	"strings"
	"sync"
	"sync/atomic"
	"testing"

	"github.com/XiaoMi/Gaea/models"
	kit "github.com/XiaoMi/Gaea/verifkit"
)

type c29Op struct {
	// init | initbroken (configuration present at start-up that NewNamespace refuses) |
	// put (prepare+commit back to back: create or reload) | prep (prepare only) |
	// prepfail (prepare of a configuration NewNamespace refuses) | commit | del
	Kind  string   `json:"kind"`
	NS    string   `json:"ns"`
	Users []mgUser `json:"users,omitempty"`
}

// c29Case: the manager is created with Init (plus More, only for histories whose pairs are
// all distinct strings so that map iteration order cannot matter), then Ops run in order.
type c29Case struct {
	Init      c29Op    `json:"init"`
	More      []c29Op  `json:"more_init,omitempty"`
	Ops       []c29Op  `json:"ops"`
	Names     []string `json:"probe_users"`
	Passwords []string `json:"probe_passwords"`
	SaltHex   string   `json:"salt_hex"`
	// Plain maps a stored password of the '*'+40 hex form to the clear text behind it (the
	// client proves knowledge of the clear text; only mysql_native_password can verify it)
	Plain map[string]string `json:"plain,omitempty"`
}

type c29Failure struct {
	Step     int      `json:"step"` // 0 = after creation, i = after Ops[i-1]
	Trigger  string   `json:"trigger"`
	OpNS     string   `json:"op_namespace"`
	User     string   `json:"user"`
	Password string   `json:"password"`
	Clause   string   `json:"clause"`
	Paths    []string `json:"paths"`
	WantNS   string   `json:"want_namespace"` // "" = pair not configured
	GotNS    string   `json:"got_namespace"`
	Victim   string   `json:"victim"` // self | other: is the namespace concerned the one the step changed
}

type c29PathSpec struct{ name, plugin, scheme string }

var c29Paths = []c29PathSpec{
	{"default/native", mgPlugDefault, "native"}, {"default/sha2", mgPlugDefault, "sha2"},
	{"plugin-native", mgPlugNative, "native"}, {"plugin-sha2", mgPlugSha2, "sha2"},
}

type c29Rig struct {
	st      *StatisticManager
	sess    *mgSession
	rec     *kit.Rec
	runs    int
	ops     int64
	closers int64
}

// c29Valid: what the control plane guarantees. Every namespace has users, user names are
// unique inside a namespace (models.Namespace.verifyUsers), nothing is empty, and a
// (user, password) pair never exists in two namespaces at the same time.
func c29Valid(c c29Case) bool {
	live := map[string][]mgUser{}
	prepared := map[string][]mgUser{}
	wellFormed := func(op c29Op) bool {
		if len(op.Users) == 0 {
			return false
		}
		seen := map[string]bool{}
		for _, u := range op.Users {
			if u.User == "" || u.Password == "" || seen[u.User] {
				return false
			}
			seen[u.User] = true
		}
		return true
	}
	activate := func(ns string, users []mgUser) bool {
		for _, u := range users {
			for o, us := range live {
				if o == ns {
					continue
				}
				for _, x := range us {
					if x == u {
						return false
					}
				}
			}
		}
		live[ns] = users
		return true
	}
	apply := func(op c29Op) bool {
		switch op.Kind {
		case "del":
			delete(live, op.NS)
			return true
		case "prep":
			if !wellFormed(op) {
				return false
			}
			prepared[op.NS] = op.Users
			return true
		case "prepfail", "initbroken":
			return wellFormed(op) // refused by NewNamespace: no effect
		case "commit":
			// whether the manager accepts it is for the manager to decide; split histories are
			// restricted below so that no outcome can put one pair into two namespaces
			if us, ok := prepared[op.NS]; ok {
				live[op.NS] = us
			}
			return true
		}
		if op.Kind == "put" {
			prepared[op.NS] = op.Users
		}
		return wellFormed(op) && activate(op.NS, op.Users)
	}
	if c.Init.Kind != "init" || !apply(c.Init) {
		return false
	}
	for _, op := range c.More {
		if (op.Kind != "init" && op.Kind != "initbroken") || op.NS == c.Init.NS || !apply(op) {
			return false
		}
	}
	split := false
	for _, op := range c.Ops {
		switch op.Kind {
		case "put", "del":
		case "prep", "prepfail", "commit":
			split = true
		default:
			return false
		}
		if !apply(op) {
			return false
		}
	}
	if split || len(c.More) > 0 {
		// split histories: which commits are accepted is for the manager to decide, so every
		// pair of the history must belong to one namespace only, whatever gets activated
		owner := map[mgUser]string{}
		all := append(append([]c29Op{c.Init}, c.More...), c.Ops...)
		for _, op := range all {
			for _, u := range op.Users {
				if o, ok := owner[u]; ok && o != op.NS {
					return false
				}
				owner[u] = op.NS
			}
		}
	}
	return true
}

// run executes the history on a fresh real Manager and returns every failed check.
// onlyFirst stops at the first step with a failure.
func (r *c29Rig) run(c c29Case, onlyFirst bool) []c29Failure {
	r.runs++
	salt, _ := hex.DecodeString(c.SaltHex)
	type proofs struct{ native, sha2 []byte }
	pf := map[string]proofs{}
	hashForm := map[string]bool{}
	for _, p := range c.Passwords {
		clear := p
		if plain, ok := c.Plain[p]; ok {
			if _, isHash := mgIsHashForm(p); isHash {
				clear, hashForm[p] = plain, true
			}
		}
		pf[p] = proofs{mgNativeProof(salt, []byte(clear)), mgSha2Proof(salt, []byte(clear))}
	}
	initial := []*models.Namespace{mgNamespaceConfig(c.Init.NS, 0, c.Init.Users)}
	ref := map[mgUser]string{}
	live := map[string][]mgUser{c.Init.NS: c.Init.Users}
	for _, u := range c.Init.Users {
		ref[u] = c.Init.NS
	}
	for _, op := range c.More {
		if op.Kind == "initbroken" {
			// in the configuration map at start-up, refused by NewNamespace: CreateNamespaceManager
			// skips it (CreateUserManager still registers its users); it is not served
			initial = append(initial, mgBrokenConfig(op.NS, 0, op.Users))
			continue
		}
		initial = append(initial, mgNamespaceConfig(op.NS, 0, op.Users))
		live[op.NS] = op.Users
		for _, u := range op.Users {
			ref[u] = op.NS
		}
	}
	m := mgNewManager(r.st, initial)
	defer mgDropManager(m)
	// abstract specification of the control plane: live = active configurations, prepared =
	// configuration last prepared per namespace; a refused commit changes nothing, an accepted
	// commit(n) activates exactly prepared[n]
	prepared := map[string][]mgUser{}
	var fails []c29Failure
	check := func(step int, trigger, opNS string) {
		for _, un := range c.Names {
			for _, pw := range c.Passwords {
				want, configured := ref[mgUser{un, pw}]
				clause, gotNS := "", ""
				var paths []string
				for _, ps := range c29Paths {
					resp := pf[pw].native
					if ps.scheme == "sha2" {
						resp = pf[pw].sha2
					}
					res := r.sess.auth(m, un, salt, resp, ps.plugin)
					// a stored SHA1 hash can only be verified with mysql_native_password
					expect := configured && !(hashForm[pw] && ps.scheme == "sha2")
					cl := ""
					switch {
					case res.Panic != "":
						cl = "panic"
					case expect && !res.Accepted():
						cl = "false-reject"
					case !expect && res.Accepted():
						cl = "false-accept"
					case expect && res.Namespace != want:
						cl = "wrong-namespace"
					}
					if res.Passed && !res.Live {
						r.rec.Count("password-check-passed-but-no-namespace", 1)
					}
					if cl != "" {
						if clause == "" {
							clause, gotNS = cl, res.Namespace
						}
						if cl == clause {
							paths = append(paths, ps.name)
						}
					}
				}
				if clause != "" {
					concerned := want
					if concerned == "" {
						concerned = gotNS
					}
					victim := "other"
					if concerned == opNS {
						victim = "self"
					}
					fails = append(fails, c29Failure{Step: step, Trigger: trigger, OpNS: opNS, User: un, Password: pw, Clause: clause,
						Paths: paths, WantNS: want, GotNS: gotNS, Victim: victim})
				}
			}
		}
	}
	check(0, "init", c.Init.NS)
	if onlyFirst && len(fails) > 0 {
		return fails
	}
	for i, op := range c.Ops {
		trigger := "delete"
		r.ops++
		if op.Kind == "del" {
			if _, ok := live[op.NS]; ok {
				r.closers++
			}
			if err := m.DeleteNamespace(op.NS); err != nil {
				fails = append(fails, c29Failure{Step: i + 1, Trigger: trigger, OpNS: op.NS, Clause: "operation-error"})
				return fails
			}
			for _, u := range live[op.NS] {
				delete(ref, u)
			}
			delete(live, op.NS)
		} else if op.Kind == "prep" {
			trigger = "prepare"
			if err := m.ReloadNamespacePrepare(mgNamespaceConfig(op.NS, i+1, op.Users)); err != nil {
				fails = append(fails, c29Failure{Step: i + 1, Trigger: trigger, OpNS: op.NS, Clause: "operation-error"})
				return fails
			}
			prepared[op.NS] = op.Users
		} else if op.Kind == "prepfail" {
			trigger = "prepare-failed"
			// a failed prepare changes nothing, including what a later commit may activate
			if err := m.ReloadNamespacePrepare(mgBrokenConfig(op.NS, i+1, op.Users)); err == nil {
				r.rec.Count("split.broken-config-accepted", 1)
				prepared[op.NS] = op.Users
			} else {
				r.rec.Count("split.prepare-failed", 1)
			}
		} else if op.Kind == "commit" {
			trigger = "commit"
			var err error
			var pan interface{}
			func() {
				defer func() { pan = recover() }()
				err = m.ReloadNamespaceCommit(op.NS)
			}()
			if pan != nil {
				fails = append(fails, c29Failure{Step: i + 1, Trigger: trigger, OpNS: op.NS, Clause: "panic-in-commit"})
				return fails
			}
			if err != nil {
				trigger = "commit-refused"
				r.rec.Count("split.commit-refused", 1)
			} else {
				us, ok := prepared[op.NS]
				if !ok {
					fails = append(fails, c29Failure{Step: i + 1, Trigger: trigger, OpNS: op.NS, Clause: "commit-without-prepare"})
					return fails
				}
				r.rec.Count("split.commit-accepted", 1)
				if _, was := live[op.NS]; was {
					r.closers++
				}
				for _, u := range live[op.NS] {
					delete(ref, u)
				}
				live[op.NS] = us
				for _, u := range us {
					ref[u] = op.NS
				}
			}
		} else {
			trigger = "create"
			if _, ok := live[op.NS]; ok {
				trigger = "reload"
				r.closers++
			}
			cfg := mgNamespaceConfig(op.NS, i+1, op.Users)
			err := m.ReloadNamespacePrepare(cfg)
			if err == nil {
				err = m.ReloadNamespaceCommit(op.NS)
			}
			if err != nil {
				fails = append(fails, c29Failure{Step: i + 1, Trigger: trigger, OpNS: op.NS, Clause: "operation-error"})
				return fails
			}
			prepared[op.NS] = op.Users
			for _, u := range live[op.NS] {
				delete(ref, u)
			}
			live[op.NS] = op.Users
			for _, u := range op.Users {
				ref[u] = op.NS
			}
		}
		check(i+1, trigger, op.NS)
		if onlyFirst && len(fails) > 0 {
			return fails
		}
	}
	return fails
}

// c29MapColons rewrites ':' to '_' in user names and/or passwords everywhere in the case
// (the two coarse features of a case: "a user name contains ':'", "a password contains ':'").
func c29MapColons(c c29Case, users, passwords bool) c29Case {
	mu := func(s string) string {
		if users {
			return strings.Replace(s, ":", "_", -1)
		}
		return s
	}
	mp := func(s string) string {
		if passwords {
			return strings.Replace(s, ":", "_", -1)
		}
		return s
	}
	mop := func(op c29Op) c29Op {
		o := c29Op{Kind: op.Kind, NS: op.NS}
		for _, u := range op.Users {
			o.Users = append(o.Users, mgUser{mu(u.User), mp(u.Password)})
		}
		return o
	}
	d := c29Case{Init: mop(c.Init), SaltHex: c.SaltHex, Plain: c.Plain}
	for _, op := range c.More {
		d.More = append(d.More, mop(op))
	}
	for _, op := range c.Ops {
		d.Ops = append(d.Ops, mop(op))
	}
	for _, n := range c.Names {
		d.Names = append(d.Names, mu(n))
	}
	for _, p := range c.Passwords {
		d.Passwords = append(d.Passwords, mp(p))
	}
	return d
}

func c29HasColon(c c29Case) (users, passwords bool) {
	scan := func(op c29Op) {
		for _, u := range op.Users {
			users = users || strings.Contains(u.User, ":")
			passwords = passwords || strings.Contains(u.Password, ":")
		}
	}
	scan(c.Init)
	for _, op := range c.More {
		scan(op)
	}
	for _, op := range c.Ops {
		scan(op)
	}
	return
}

// reduceFeatures removes the two colon features (all user-name colons, all password colons)
// while the case stays valid and still fails.
func (r *c29Rig) reduceFeatures(c c29Case) c29Case {
	hu, hp := c29HasColon(c)
	fails := func(d c29Case) bool { return c29Valid(d) && len(r.run(d, true)) > 0 }
	if hu && hp {
		if d := c29MapColons(c, true, true); fails(d) {
			return d
		}
	}
	if hu {
		if d := c29MapColons(c, true, false); fails(d) {
			return d
		}
	}
	if hp {
		if d := c29MapColons(c, false, true); fails(d) {
			return d
		}
	}
	return c
}

var c29Neutral = c29Op{Kind: "init", NS: "nz", Users: []mgUser{{"zz", "zz"}}}

// shrinkOps: greedy one-at-a-time removal (ops after the failing step, single ops, single
// users of a configuration, the initial namespace replaced by a neutral one) while the case
// stays valid and still fails. Used for the witness of a signature class.
func (r *c29Rig) shrinkOps(c c29Case) c29Case {
	fails := func(d c29Case) bool { return c29Valid(d) && len(r.run(d, true)) > 0 }
	if f := r.run(c, true); len(f) > 0 && f[0].Step < len(c.Ops) {
		c.Ops = append([]c29Op(nil), c.Ops[:f[0].Step]...)
	}
	for changed := true; changed; {
		changed = false
		for i := range c.Ops {
			d := c
			d.Ops = append(append([]c29Op(nil), c.Ops[:i]...), c.Ops[i+1:]...)
			if fails(d) {
				c, changed = d, true
				break
			}
		}
		if changed {
			continue
		}
		dropUser := func(op c29Op, j int) c29Op {
			o := c29Op{Kind: op.Kind, NS: op.NS}
			o.Users = append(append([]mgUser(nil), op.Users[:j]...), op.Users[j+1:]...)
			return o
		}
		for j := 0; j < len(c.Init.Users) && len(c.Init.Users) > 1 && !changed; j++ {
			d := c
			d.Init = dropUser(c.Init, j)
			if fails(d) {
				c, changed = d, true
			}
		}
		for i := 0; i < len(c.Ops) && !changed; i++ {
			for j := 0; j < len(c.Ops[i].Users) && len(c.Ops[i].Users) > 1 && !changed; j++ {
				d := c
				d.Ops = append([]c29Op(nil), c.Ops...)
				d.Ops[i] = dropUser(c.Ops[i], j)
				if fails(d) {
					c, changed = d, true
				}
			}
		}
		for i := 0; i < len(c.More) && !changed; i++ {
			d := c
			d.More = append(append([]c29Op(nil), c.More[:i]...), c.More[i+1:]...)
			if fails(d) {
				c, changed = d, true
			}
		}
		if !changed && c.Init.NS != c29Neutral.NS {
			d := c
			d.Init = c29Neutral
			if fails(d) {
				c, changed = d, true
			}
		}
	}
	return c
}

func c29Bit(b bool) string {
	if b {
		return "1"
	}
	return "0"
}

func c29Sig(c c29Case, f c29Failure) string {
	hu, hp := c29HasColon(c)
	paths := strings.Join(f.Paths, "+")
	if len(f.Paths) == len(c29Paths) {
		paths = "all"
	}
	return fmt.Sprintf("%s|trigger=%s|victim=%s|colon-in-user=%s|colon-in-password=%s|paths=%s", f.Clause, f.Trigger, f.Victim, c29Bit(hu), c29Bit(hp), paths)
}

func c29Describe(c c29Case) string {
	one := func(op c29Op) string {
		if op.Kind == "del" {
			return "delete " + op.NS
		}
		if op.Kind == "commit" {
			return "commit " + op.NS
		}
		us := []string{}
		for _, u := range op.Users {
			us = append(us, fmt.Sprintf("%q/%q", u.User, u.Password))
		}
		k := "reload/create"
		if op.Kind == "init" {
			k = "start with"
		}
		switch op.Kind {
		case "prep":
			k = "prepare"
		case "prepfail":
			k = "prepare (refused by NewNamespace)"
		case "initbroken":
			k = "start with (refused by NewNamespace)"
		}
		return fmt.Sprintf("%s %s{%s}", k, op.NS, strings.Join(us, ","))
	}
	parts := []string{one(c.Init)}
	for _, op := range c.More {
		parts = append(parts, one(op))
	}
	for _, op := range c.Ops {
		parts = append(parts, one(op))
	}
	return strings.Join(parts, "; ")
}

// ---------------------------------------------------------------- generation

var (
	c29Hash1       = mgHashForm([]byte("h1"))
	c29Hash2       = mgHashForm([]byte("h2"))
	c29Plain       = map[string]string{c29Hash1: "h1", c29Hash2: "h2"}
	c29SmallUsers  = []string{"a", "a:b"}
	c29SmallPws    = []string{"a", "b", "a:b", "b:a", c29Hash1}
	c29SampleUsers = []string{"a", "b", "a:b", ":", "a;b"}
	c29SamplePws   = []string{"a", "b", ":", "a:b", "b:a", "::", "a;b", "x:y:z", c29Hash1, c29Hash2}
)

func c29Salt(r *kit.Rand) string { return hex.EncodeToString(r.Bytes(20)) }

// c29Enumerate calls f for every valid history of the small space: initial namespace n1
// with one user, then up to maxOps operations, each a single-user put on n1/n2 or a delete.
func c29Enumerate(maxOps int, salt string, f func(c29Case)) {
	var alphabet []c29Op
	for _, ns := range []string{"n1", "n2"} {
		for _, u := range c29SmallUsers {
			for _, p := range c29SmallPws {
				alphabet = append(alphabet, c29Op{Kind: "put", NS: ns, Users: []mgUser{{u, p}}})
			}
		}
		alphabet = append(alphabet, c29Op{Kind: "del", NS: ns})
	}
	var rec func(c c29Case)
	rec = func(c c29Case) {
		if !c29Valid(c) {
			return
		}
		f(c)
		if len(c.Ops) == maxOps {
			return
		}
		for _, op := range alphabet {
			d := c
			d.Ops = append(append([]c29Op(nil), c.Ops...), op)
			rec(d)
		}
	}
	for _, u := range c29SmallUsers {
		for _, p := range c29SmallPws {
			rec(c29Case{Init: c29Op{Kind: "init", NS: "n1", Users: []mgUser{{u, p}}}, Names: c29SmallUsers, Passwords: c29SmallPws, SaltHex: salt, Plain: c29Plain})
		}
	}
}

// c29Sample draws one valid history of the larger space (3 namespaces, 1..3 users per
// configuration, up to 6 operations, user names shared between namespaces).
func c29Sample(r *kit.Rand) c29Case {
	nss := []string{"n1", "n2", "n3"}
	for {
		c := c29Case{Names: c29SampleUsers, Passwords: c29SamplePws, SaltHex: c29Salt(r), Plain: c29Plain}
		taken := map[mgUser]string{}
		live := map[string][]mgUser{}
		mk := func(ns string) []mgUser {
			// pairs of ns itself become free again
			for _, u := range live[ns] {
				delete(taken, u)
			}
			n := r.Range(1, 3)
			var us []mgUser
			names := map[string]bool{}
			for tries := 0; len(us) < n && tries < 20; tries++ {
				u := mgUser{r.Pick(c29SampleUsers), r.Pick(c29SamplePws)}
				if r.Chance(1, 2) && len(live[ns]) > 0 {
					u = live[ns][r.Intn(len(live[ns]))] // reload keeps a user
				}
				if names[u.User] {
					continue
				}
				if _, dup := taken[u]; dup {
					continue
				}
				names[u.User] = true
				us = append(us, u)
			}
			for _, u := range us {
				taken[u] = ns
			}
			live[ns] = us
			return us
		}
		c.Init = c29Op{Kind: "init", NS: r.Pick(nss)}
		c.Init.Users = mk(c.Init.NS)
		nops := r.Range(1, 6)
		for i := 0; i < nops; i++ {
			ns := r.Pick(nss)
			if r.Chance(1, 4) {
				c.Ops = append(c.Ops, c29Op{Kind: "del", NS: ns})
				for _, u := range live[ns] {
					delete(taken, u)
				}
				delete(live, ns)
				continue
			}
			us := mk(ns)
			if len(us) == 0 {
				continue
			}
			c.Ops = append(c.Ops, c29Op{Kind: "put", NS: ns, Users: us})
		}
		if len(c.Init.Users) > 0 && c29Valid(c) {
			return c
		}
	}
}

// c29SplitEnumerate calls f for every history of exactly nOps split operations (prepare /
// prepare of a configuration NewNamespace refuses / commit / delete on n1, n2, n3) on a
// manager that starts with n1 and n2, once with n3 absent and once with n3 present in the
// start-up configuration but refused by NewNamespace. Shorter histories are their prefixes
// (the oracle runs after every step). Every configuration has user "a" with a password
// unique to (namespace, position), so any order of commits is valid; n2 starts with a
// '*'-hash password, so user "a" has a hash-form entry before clear-text ones.
func c29SplitEnumerate(nOps int, salt string, f func(c29Case)) {
	nss := []string{"n1", "n2", "n3"}
	pw := func(ns string, i int) string { return fmt.Sprintf("%s:%d", ns, i) }
	n2plain := "n2-clear-text"
	n2hash := mgHashForm([]byte(n2plain))
	for _, brokenAtStart := range []bool{false, true} {
		base := c29Case{Init: c29Op{Kind: "init", NS: "n1", Users: []mgUser{{"a", pw("n1", 0)}}},
			More:  []c29Op{{Kind: "init", NS: "n2", Users: []mgUser{{"a", n2hash}}}},
			Names: []string{"a"}, SaltHex: salt, Plain: map[string]string{n2hash: n2plain}, Passwords: []string{n2hash}}
		if brokenAtStart {
			base.More = append(base.More, c29Op{Kind: "initbroken", NS: "n3", Users: []mgUser{{"a", pw("n3", 0)}}})
		}
		for _, ns := range nss {
			for i := 0; i <= nOps; i++ {
				base.Passwords = append(base.Passwords, pw(ns, i))
			}
		}
		var rec func(ops []c29Op)
		rec = func(ops []c29Op) {
			if len(ops) == nOps {
				c := base
				c.Ops = append([]c29Op(nil), ops...)
				f(c)
				return
			}
			for _, k := range []string{"prep", "prepfail", "commit", "del"} {
				for _, ns := range nss {
					op := c29Op{Kind: k, NS: ns}
					if k == "prep" || k == "prepfail" {
						op.Users = []mgUser{{"a", pw(ns, len(ops)+1)}}
					}
					rec(append(append([]c29Op(nil), ops...), op))
				}
			}
		}
		rec(nil)
	}
}

// c29SplitSample draws a history that mixes split prepare / failing prepare / commit /
// delete with atomic reloads over 3 namespaces, some of them present but refused at
// start-up; user names are shared between namespaces, every password string belongs to one
// (namespace, position) only, and about a quarter of them are stored in '*'-hash form.
func c29SplitSample(r *kit.Rand) c29Case {
	nss := []string{"n1", "n2", "n3"}
	names := []string{"a", "b", "a:b"}
	bases := []string{"x", "x:y", ":", "p;q"}
	c := c29Case{Names: names, SaltHex: c29Salt(r), Passwords: []string{"never"}, Plain: map[string]string{}}
	users := func(ns string, pos int) []mgUser {
		perm := r.Perm(len(names))
		var us []mgUser
		for j := 0; j < r.Range(1, 2); j++ {
			p := fmt.Sprintf("%s@%s#%d", r.Pick(bases), ns, pos)
			if j > 0 {
				p += "'"
			}
			if r.Chance(1, 4) {
				h := mgHashForm([]byte(p))
				c.Plain[h] = p
				p = h
			}
			c.Passwords = append(c.Passwords, p)
			us = append(us, mgUser{names[perm[j]], p})
		}
		return us
	}
	first := r.Intn(3)
	c.Init = c29Op{Kind: "init", NS: nss[first], Users: users(nss[first], 0)}
	for k := 1; k <= 2; k++ {
		ns := nss[(first+k)%3]
		switch r.Intn(3) {
		case 0:
			c.More = append(c.More, c29Op{Kind: "init", NS: ns, Users: users(ns, 0)})
		case 1:
			c.More = append(c.More, c29Op{Kind: "initbroken", NS: ns, Users: users(ns, 0)})
		}
	}
	n := r.Range(3, 8)
	for i := 0; i < n; i++ {
		ns := r.Pick(nss)
		switch x := r.Intn(20); {
		case x < 6:
			c.Ops = append(c.Ops, c29Op{Kind: "prep", NS: ns, Users: users(ns, i+1)})
		case x < 8:
			c.Ops = append(c.Ops, c29Op{Kind: "prepfail", NS: ns, Users: users(ns, i+1)})
		case x < 13:
			c.Ops = append(c.Ops, c29Op{Kind: "commit", NS: ns})
		case x < 16:
			c.Ops = append(c.Ops, c29Op{Kind: "del", NS: ns})
		default:
			c.Ops = append(c.Ops, c29Op{Kind: "put", NS: ns, Users: users(ns, i+1)})
		}
	}
	return c
}

// ---------------------------------------------------------------- concurrent administrators

// c29AdminCall is one control-plane call of a script and what it returned.
type c29AdminCall struct {
	Call  string   `json:"call"` // prepare | commit | delete
	NS    string   `json:"ns"`
	Users []mgUser `json:"users,omitempty"`
	Err   string   `json:"err,omitempty"`
	Panic string   `json:"panic,omitempty"`
}

// c29ConcurrentRounds: on one manager with three namespaces that share the user name "a",
// two administrators run a short script each, on different namespaces, at the same time
// (no harness lock; a spin barrier plus a seeded number of spin iterations varies who is
// first). Scripts: commit of a pending prepare / delete / prepare+commit. Because the two
// scripts touch different namespaces, the credentials active afterwards follow from the
// specification and the observed return values alone (an accepted commit activates the
// pairs prepared for that namespace, a refused one changes nothing, a delete removes the
// namespace's pairs); every pair old and new is then probed through the handshake path.
func c29ConcurrentRounds(rec *kit.Rec, rig *c29Rig, r *kit.Rand, rounds int) {
	nss := []string{"na", "nb", "nc"}
	salt := r.Bytes(20)
	counter := 0
	fresh := func(ns string) []mgUser {
		counter++
		return []mgUser{{"a", fmt.Sprintf("%s:%d", ns, counter)}, {"u_" + ns, fmt.Sprintf("own:%d", counter)}}
	}
	var m *Manager
	live := map[string][]mgUser{}
	build := func() {
		if m != nil {
			mgDropManager(m)
		}
		var initial []*models.Namespace
		for _, ns := range nss {
			live[ns] = fresh(ns)
			initial = append(initial, mgNamespaceConfig(ns, 0, live[ns]))
		}
		m = mgNewManager(rig.st, initial)
	}
	build()
	defer func() { mgDropManager(m) }()
	do := func(c *c29AdminCall) {
		defer func() {
			if p := recover(); p != nil {
				c.Panic = fmt.Sprint(p)
			}
		}()
		var err error
		switch c.Call {
		case "prepare":
			err = m.ReloadNamespacePrepare(mgNamespaceConfig(c.NS, counter, c.Users))
		case "commit":
			err = m.ReloadNamespaceCommit(c.NS)
		default:
			err = m.DeleteNamespace(c.NS)
		}
		if err != nil {
			c.Err = err.Error()
		}
	}
	probe := func(u mgUser, wantNS string) (string, mgAuthResult) {
		for _, ps := range c29Paths {
			resp := mgNativeProof(salt, []byte(u.Password))
			if ps.scheme == "sha2" {
				resp = mgSha2Proof(salt, []byte(u.Password))
			}
			res := rig.sess.auth(m, u.User, salt, resp, ps.plugin)
			switch {
			case res.Panic != "":
				return "panic", res
			case wantNS != "" && !res.Accepted():
				return "false-reject", res
			case wantNS == "" && res.Accepted():
				return "false-accept", res
			case wantNS != "" && res.Namespace != wantNS:
				return "wrong-namespace", res
			}
		}
		return "", mgAuthResult{}
	}
	for round := 0; round < rounds; round++ {
		mgThrottle(kit.N(120000, 250000), rec.Inconclusive)
		perm := r.Perm(3)
		x, y := nss[perm[0]], nss[perm[1]]
		var scripts [2][]c29AdminCall
		var pendingX []mgUser
		kindX, kindY := []string{"commit", "delete", "put"}[r.Intn(3)], []string{"delete", "delete", "put"}[r.Intn(3)]
		mk := func(kind, ns string) []c29AdminCall {
			switch kind {
			case "delete":
				return []c29AdminCall{{Call: "delete", NS: ns}}
			case "put":
				us := fresh(ns)
				return []c29AdminCall{{Call: "prepare", NS: ns, Users: us}, {Call: "commit", NS: ns}}
			}
			return []c29AdminCall{{Call: "commit", NS: ns}}
		}
		if kindX == "commit" {
			// the prepare of x happens before the concurrent phase
			pendingX = fresh(x)
			pre := c29AdminCall{Call: "prepare", NS: x, Users: pendingX}
			do(&pre)
			if pre.Err != "" || pre.Panic != "" {
				rec.Violation("concurrent-admins|operation-error|prepare", "sequential prepare failed: "+pre.Err+pre.Panic, pre)
				build()
				continue
			}
		}
		scripts[0], scripts[1] = mk(kindX, x), mk(kindY, y)
		old := map[string][]mgUser{x: live[x], y: live[y]}
		var barrier int32
		var wg sync.WaitGroup
		delays := [2]int{r.Intn(400), r.Intn(400)}
		for g := 0; g < 2; g++ {
			wg.Add(1)
			go func(g int) {
				defer wg.Done()
				atomic.AddInt32(&barrier, 1)
				for atomic.LoadInt32(&barrier) < 2 {
				}
				spin := 0
				for i := 0; i < delays[g]; i++ {
					spin += i
				}
				_ = spin
				for i := range scripts[g] {
					do(&scripts[g][i])
				}
			}(g)
		}
		wg.Wait()
		rec.Eval(1)
		rec.Count("concurrent-admins.rounds", 1)
		rec.Nontrivial(fmt.Sprintf("conc|%s|%s|%d|%d", kindX, kindY, delays[0]/50, delays[1]/50))
		// expected credentials from the specification and the observed return values
		apply := func(ns string, script []c29AdminCall, pending []mgUser) (panicked bool) {
			prepared := pending
			for _, c := range script {
				if c.Panic != "" {
					return true
				}
				switch c.Call {
				case "prepare":
					if c.Err == "" {
						prepared = c.Users
					}
				case "commit":
					if c.Err == "" {
						live[ns] = prepared
						rec.Count("concurrent-admins.commit-accepted", 1)
					} else {
						rec.Count("concurrent-admins.commit-refused", 1)
					}
				default:
					if c.Err == "" {
						delete(live, ns)
					}
				}
			}
			return false
		}
		witness := map[string]interface{}{"first": scripts[0], "second": scripts[1], "pending_prepare": pendingX, "before": old}
		if apply(x, scripts[0], pendingX) || apply(y, scripts[1], nil) {
			rec.Violation(fmt.Sprintf("concurrent-admins|panic|%s||%s", kindX, kindY), fmt.Sprintf("an administrator call panicked while %s(%s) and %s(%s) ran concurrently", kindX, x, kindY, y), witness)
			build()
			continue
		}
		// probe every pair that was, is or could have become active in this round
		cands := map[mgUser]bool{}
		for _, us := range [][]mgUser{old[x], old[y], pendingX, live[x], live[y]} {
			for _, u := range us {
				cands[u] = true
			}
		}
		for _, sc := range scripts {
			for _, c := range sc {
				for _, u := range c.Users {
					cands[u] = true
				}
			}
		}
		for _, ns := range nss {
			for _, u := range live[ns] {
				cands[u] = true
			}
		}
		failed := false
		for u := range cands {
			want := ""
			for ns, us := range live {
				for _, o := range us {
					if o == u {
						want = ns
					}
				}
			}
			if clause, res := probe(u, want); clause != "" {
				witness["failure"] = map[string]interface{}{"user": u.User, "password": u.Password, "expected_namespace": want, "observed": res}
				rec.Violation(fmt.Sprintf("concurrent-admins|%s|%s||%s", clause, kindX, kindY),
					fmt.Sprintf("%s(%s) and %s(%s) ran concurrently and returned %+v / %+v; afterwards %q/%q: %s (expected namespace %q, observed %+v)", kindX, x, kindY, y, scripts[0], scripts[1], u.User, u.Password, clause, want, res), witness)
				failed = true
				break
			}
		}
		if failed {
			build()
			continue
		}
		// sequentially bring deleted namespaces back for the next round
		for _, ns := range nss {
			if _, ok := live[ns]; ok {
				continue
			}
			us := fresh(ns)
			p := c29AdminCall{Call: "prepare", NS: ns, Users: us}
			do(&p)
			c := c29AdminCall{Call: "commit", NS: ns}
			do(&c)
			if p.Err+p.Panic+c.Err+c.Panic != "" {
				rec.Violation("concurrent-admins|operation-error|recreate", fmt.Sprintf("sequential prepare+commit of %s failed: %+v %+v", ns, p, c), witness)
				build()
				break
			}
			live[ns] = us
		}
	}
}

func TestVerif_C29(t *testing.T) {
	rec := kit.Start("C29", "exploration", "histories on the real Manager: (1) every valid history of the small space (initial namespace with one user, then up to k single-user create/reload/delete operations over 2 namespaces, users {a, a:b} x passwords {a, b, a:b, b:a}); (2) seeded histories of the larger space (3 namespaces, 1..3 users per configuration, up to 6 operations, 5 user names x 8 passwords with ':' / '::' / ';'); (3) split control-plane operations: every history of exactly k operations over prepare / prepare refused by NewNamespace / commit / delete x 3 namespaces (two configured at start, the third absent or present-but-refused at start-up), and seeded histories of up to 8 operations mixing split and atomic operations; passwords are clear text or '*'-hash form for shared user names; (4) rounds in which two administrators run commit / delete / prepare+commit on different namespaces at the same time, credentials probed after each round; after every step all user x password pairs are probed through 4 password-check paths against the set of pairs active under the abstract control-plane specification; non-trivial = distinct histories in which a namespace is changed while another one is live, or an operation falls between a prepare and a later commit")
	defer rec.Finish(t)
	if err := mgInit(); err != nil {
		t.Fatal(err)
	}
	defer mgCleanup()
	rec.Assume("configurations are ones the control plane accepts: every namespace has users, user names unique inside a namespace, no empty name or password, a (user, password) pair never configured in two namespaces at once; in parts (1) and (2) create and reload are prepare immediately followed by commit")
	rec.Assume("a namespace whose configuration NewNamespace refuses at start-up is not served: its pairs are not in the reference set (the unchanged tree registers its users but binds them to a namespace that does not exist, and Session.Handshake refuses that); a prepare that fails changes nothing, including what a later commit may activate")
	rec.Assume("a pair whose password is stored in '*'-hash form is expected to be let in with the mysql_native_password proof of its clear text only; under caching_sha2_password no proof exists for it")
	rec.Assume("concurrent administrators act on different namespaces, so the credentials active after a round follow from the specification and the observed return values whatever the order; which interleavings occur depends on the scheduler")
	rec.Assume("split histories: prepare(n,cfg) records cfg as last prepared for n and changes no credential; commit(n) may be refused (no credential changes) or accepted (needs a configuration prepared for n; exactly its pairs replace n's pairs); delete(n) removes n's pairs; nothing else changes. Every password string of a split history belongs to one namespace, so every commit order is a valid configuration")
	rec.Assume("'let in' means handleHandshakeResponse returned nil and the bound namespace exists in the manager (Session.Handshake refuses a session whose namespace does not exist)")
	rec.Assume("in parts (1) and (2) the manager starts with exactly one namespace, so that CreateUserManager's map iteration cannot make outcomes differ between runs; split histories may start with two (their pairs are distinct strings); namespaces have no backend addresses")

	rig := &c29Rig{st: mgStatsFor(), rec: rec}
	rig.sess = mgNewSession(mgNewManager(rig.st, nil))
	defer rig.sess.close()
	shrunk := map[string]bool{}

	handle := func(c c29Case) {
		mgThrottle(kit.N(120000, 250000), rec.Inconclusive)
		fails := rig.run(c, false)
		rec.Eval(1)
		// non-trivial: a user name shared by two live namespaces at some point, or a change while another namespace is live
		live := map[string][]mgUser{c.Init.NS: c.Init.Users}
		for _, op := range c.More {
			if op.Kind == "init" {
				live[op.NS] = op.Users
			}
		}
		nt := false
		for i, op := range c.Ops {
			others := 0
			for ns := range live {
				if ns != op.NS {
					others++
				}
			}
			if others > 0 && op.Kind != "prep" && op.Kind != "prepfail" {
				nt = true
			}
			switch op.Kind {
			case "del":
				delete(live, op.NS)
			case "put":
				live[op.NS] = op.Users
			case "prep", "prepfail":
				// split histories: something happens between this prepare and a later commit
				for j := i + 2; j < len(c.Ops); j++ {
					if c.Ops[j].Kind == "commit" {
						nt = true
					}
				}
			case "commit":
				if _, ok := live[op.NS]; !ok {
					live[op.NS] = nil
				}
			}
		}
		if nt {
			b, _ := json.Marshal(c)
			rec.Nontrivial(kit.Hash64(string(b)))
		}
		if len(fails) == 0 {
			return
		}
		rec.Count("histories.failing", 1)
		red := rig.reduceFeatures(c)
		rf := rig.run(red, true)
		if len(rf) == 0 {
			// cannot happen for a deterministic manager: keep the concrete case in the signature
			rec.Violation("unstable|"+c29Describe(c), "history failed once and passed when repeated: "+c29Describe(c), c)
			return
		}
		sig := c29Sig(red, rf[0])
		witness := red
		if !shrunk[sig] {
			shrunk[sig] = true
			w := rig.shrinkOps(red)
			if wf := rig.run(w, true); len(wf) > 0 && c29Sig(w, wf[0]) == sig {
				witness, rf = w, wf
			}
		}
		f := rf[0]
		what := fmt.Sprintf("%s; then %q/%q: %s (expected namespace %q, session bound to %q, paths %s)", c29Describe(witness), f.User, f.Password, f.Clause, f.WantNS, f.GotNS, strings.Join(f.Paths, "+"))
		rec.Violation(sig, what, map[string]interface{}{"history": witness, "failure": f})
	}

	if p := kit.ReplayPath(); p != "" {
		var w struct {
			History c29Case `json:"history"`
		}
		if err := kit.LoadReplay(p, &w); err != nil {
			t.Fatal(err)
		}
		for _, f := range rig.run(w.History, false) {
			fmt.Printf("replay: %+v\n", f)
		}
		handle(w.History)
		return
	}

	r := kit.SubRand(kit.Seed(), "C29/histories")
	salt := c29Salt(r)
	small := 0
	c29Enumerate(kit.N(2, 3), salt, func(c c29Case) {
		small++
		handle(c)
	})
	rec.Set("small_space_histories", small)
	nSample := kit.N(2500, 40000)
	for i := 0; i < nSample; i++ {
		c := c29Sample(r)
		handle(c)
		if i%(nSample/5+1) == 0 {
			rec.Sample(c)
		}
	}
	rec.Set("sampled_histories", nSample)
	// split control-plane operations: prepare, commit and delete as separate steps in every order
	split, invalid := 0, 0
	c29SplitEnumerate(kit.N(3, 4), salt, func(c c29Case) {
		if !c29Valid(c) {
			invalid++
			return
		}
		split++
		handle(c)
		if split%2000 == 1 {
			rec.Sample(c)
		}
	})
	rec.Set("split_space_histories", split)
	nSplit := kit.N(1500, 15000)
	for i := 0; i < nSplit; i++ {
		c := c29SplitSample(r)
		if !c29Valid(c) {
			invalid++
			continue
		}
		handle(c)
		if i%(nSplit/3+1) == 0 {
			rec.Sample(c)
		}
	}
	rec.Set("split_sampled_histories", nSplit)
	if invalid > 0 {
		rec.Inconclusive(fmt.Sprintf("%d generated split histories were not valid configurations (generator bug)", invalid))
	}
	// two administrators at the same time on different namespaces
	c29ConcurrentRounds(rec, rig, kit.SubRand(kit.Seed(), "C29/concurrent-admins"), kit.N(2500, 40000))
	if rec.CounterValue("concurrent-admins.commit-accepted") == 0 {
		rec.Inconclusive("concurrent administrators: no commit was accepted, the part observed nothing")
	}
	rec.Set("manager_histories_executed_including_shrinking", rig.runs)
	rec.Count("manager.operations", rig.ops)
	rec.Count("delayed-namespace-closes", rig.closers)
	keys := []string{}
	for s := range shrunk {
		keys = append(keys, s)
	}
	sort.Strings(keys)
	rec.Set("failure_classes_seen", keys)
}
