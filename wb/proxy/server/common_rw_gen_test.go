package server

// Helpers shared by the lexical/routing monitors C06, C17, C21, C22 (tag rw).
// Everything is prefixed rw*.

import (
	"fmt"
	"sort"
	"strings"

	"github.com/XiaoMi/Gaea/models"
	"github.com/XiaoMi/Gaea/verifkit/mycli"
)

// rwNamespace is rigBasicNamespace plus: a second logical db, a linked table (child of
// tbl_shard), a global table, a read-only user WITHOUT rw-split, and the check_select_lock
// switch. Unsharded tables (t2, t3, ...) live on the default slice.
func rwNamespace(name string, checkSelectLock bool) *models.Namespace {
	ns := rigBasicNamespace(name)
	ns.CheckSelectLock = checkSelectLock
	ns.AllowedDBS = map[string]bool{"db": true, "db2": true}
	ns.DefaultPhyDBS = map[string]string{"db": "db", "db2": "db2"}
	ns.ShardRules = append(ns.ShardRules,
		&models.Shard{DB: "db", Table: "tbl_link", Type: "linked", ParentTable: "tbl_shard", Key: "id"},
		&models.Shard{DB: "db", Table: "tbl_glob", Type: "global", Locations: []int{2, 2}, Slices: []string{"slice-0", "slice-1"}},
	)
	ns.Users = append(ns.Users, rigUser(name, name+"_ro2", "pw_ro2", models.ReadOnly, models.NoReadWriteSplit))
	return ns
}

// rwUser names one of the four users of rwNamespace.
type rwUser struct {
	Suffix   string // rw | rws | ro | ro2
	ReadOnly bool
	Split    bool
}

var rwUsers = map[string]rwUser{
	"rw":  {"rw", false, false},
	"rws": {"rws", false, true},
	"ro":  {"ro", true, true},
	"ro2": {"ro2", true, false},
}

func rwDial(r *rig, ns, user, db string) (*mycli.Conn, error) {
	return r.Dial(ns+"_"+user, "pw_"+user, db)
}

// rwObs is what one client command made the fake backend do.
type rwObs struct {
	Events []rigEvent
	Gets   []rigEvent // Op == get
	Execs  []rigEvent // Op == exec
}

func rwObserve(evs []rigEvent) rwObs {
	o := rwObs{Events: evs}
	for _, e := range evs {
		switch e.Op {
		case "get":
			o.Gets = append(o.Gets, e)
		case "exec":
			o.Execs = append(o.Execs, e)
		}
	}
	return o
}

func (o rwObs) Roles() []string {
	var out []string
	for _, e := range o.Gets {
		out = append(out, e.Slice+"/"+e.Role)
	}
	return out
}

func (o rwObs) Brief() []string {
	var out []string
	for _, e := range o.Events {
		if e.Op == "get" || e.Op == "exec" || e.Op == "begin" || e.Op == "autocommit" {
			out = append(out, fmt.Sprintf("%s/%s %s %q", e.Slice, e.Role, e.Op, e.SQL+e.Arg))
		}
	}
	return out
}

// rwReplyBrief renders the replies of one command.
func rwReplyBrief(rs []*mycli.Reply, err error) string {
	var sb strings.Builder
	for i, x := range rs {
		if i > 0 {
			sb.WriteString(" | ")
		}
		switch {
		case x.Err != nil:
			sb.WriteString("ERR " + x.Err.Msg)
		case x.IsOK:
			sb.WriteString("OK")
		default:
			sb.WriteString(fmt.Sprintf("ROWS %d", len(x.Rows)))
		}
	}
	if err != nil {
		sb.WriteString(" ioerr=" + err.Error())
	}
	return sb.String()
}

// rwFeatureSet is a set of decoration names.
type rwFeatureSet map[string]bool

func rwFeatures(names ...string) rwFeatureSet {
	f := rwFeatureSet{}
	for _, n := range names {
		if n != "" {
			f[n] = true
		}
	}
	return f
}

func (f rwFeatureSet) List() []string {
	out := make([]string, 0, len(f))
	for k, v := range f {
		if v {
			out = append(out, k)
		}
	}
	sort.Strings(out)
	return out
}

func (f rwFeatureSet) Key() string { return strings.Join(f.List(), "+") }

func (f rwFeatureSet) Without(name string) rwFeatureSet {
	g := rwFeatureSet{}
	for k, v := range f {
		if v && k != name {
			g[k] = true
		}
	}
	return g
}

// rwShrink greedily removes one feature at a time while fails(candidate) stays true and
// returns a 1-minimal failing feature set (fails(start) is assumed true).
func rwShrink(start rwFeatureSet, fails func(rwFeatureSet) bool) rwFeatureSet {
	cur := start.Without("")
	for changed := true; changed; {
		changed = false
		for _, name := range cur.List() {
			cand := cur.Without(name)
			if fails(cand) {
				cur = cand
				changed = true
				break
			}
		}
	}
	return cur
}

// rwUpperKeywords / rwMixedCase transform a keyword.
func rwCaseWord(w string, mode int) string {
	switch mode {
	case 1:
		return strings.ToUpper(w)
	case 2:
		b := []byte(strings.ToLower(w))
		for i := range b {
			if i%2 == 0 && b[i] >= 'a' && b[i] <= 'z' {
				b[i] -= 32
			}
		}
		return string(b)
	}
	return w
}

// rwSubsets enumerates every subset of names (as feature sets), smallest first.
func rwSubsets(names []string) []rwFeatureSet {
	n := len(names)
	var out []rwFeatureSet
	for m := 0; m < 1<<uint(n); m++ {
		f := rwFeatureSet{}
		for i := 0; i < n; i++ {
			if m&(1<<uint(i)) != 0 {
				f[names[i]] = true
			}
		}
		out = append(out, f)
	}
	sort.SliceStable(out, func(i, j int) bool { return len(out[i]) < len(out[j]) })
	return out
}

func rwNSList(ns ...*models.Namespace) []*models.Namespace { return ns }

// rwRender renders a statement template: {word} marks a keyword (subject to the case
// decoration: lower | upper | mixed), every blank is a token separator that is replaced
// by ws (templates keep literals free of blanks so that this is sound by construction).
func rwRender(tmpl, caseMode, ws string) string {
	var sb strings.Builder
	for i := 0; i < len(tmpl); i++ {
		ch := tmpl[i]
		switch {
		case ch == '{':
			j := strings.IndexByte(tmpl[i:], '}')
			w := tmpl[i+1 : i+j]
			switch caseMode {
			case "upper":
				w = rwCaseWord(w, 1)
			case "mixed":
				w = rwCaseWord(w, 2)
			}
			sb.WriteString(w)
			i += j
		case ch == ' ' && ws != "" && ws != " ":
			sb.WriteString(ws)
		default:
			sb.WriteByte(ch)
		}
	}
	return sb.String()
}

// rwSession is one authenticated client of a rig whose commands are numbered so that the
// backend events of each command can be cut out of the log.
type rwSession struct {
	r *rig
	c *mycli.Conn
}

var rwCmdSeq int64

func rwOpen(r *rig, ns, user, db string) (*rwSession, error) {
	c, err := rwDial(r, ns, user, db)
	if err != nil {
		return nil, err
	}
	return &rwSession{r: r, c: c}, nil
}

func (s *rwSession) Close() {
	s.c.Quit()
	s.c.Close()
}

// Query runs one COM_QUERY and returns the replies plus what the backend saw.
func (s *rwSession) Query(sql string) ([]*mycli.Reply, rwObs, error) {
	rwCmdSeq++
	s.r.B.SetCmd(rwCmdSeq)
	from := s.r.B.Len()
	rs, err := s.c.Query(sql)
	return rs, rwObserve(s.r.B.Events(from)), err
}

// PrepExec prepares and executes; the prepare error (if any) is returned as a reply.
func (s *rwSession) PrepExec(sql string, params []mycli.Param) ([]*mycli.Reply, rwObs, error) {
	rwCmdSeq++
	s.r.B.SetCmd(rwCmdSeq)
	from := s.r.B.Len()
	st, perr, err := s.c.Prepare(sql)
	if err != nil {
		return nil, rwObserve(s.r.B.Events(from)), err
	}
	if perr != nil {
		return []*mycli.Reply{{Err: perr}}, rwObserve(s.r.B.Events(from)), nil
	}
	rep, err := s.c.Execute(st.ID, params)
	if err != nil {
		return nil, rwObserve(s.r.B.Events(from)), err
	}
	s.c.StmtClose(st.ID)
	return []*mycli.Reply{rep}, rwObserve(s.r.B.Events(from)), nil
}

func rwParamInt(v int64) mycli.Param {
	b := make([]byte, 8)
	for i := 0; i < 8; i++ {
		b[i] = byte(uint64(v) >> (8 * uint(i)))
	}
	return mycli.Param{Type: 8, Raw: b}
}

func rwParamStr(s string) mycli.Param {
	return mycli.Param{Type: 253, Raw: mycli.LenEncBytes([]byte(s))}
}
