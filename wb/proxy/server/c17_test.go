package server

// C17 — multi-statement text is split exactly at statement boundaries.
//
// Ground truth by construction (R6): a text is assembled from PIECES whose meaning the
// generator knows (a statement with a ';' inside a string / quoted identifier / comment, or
// an empty piece made of white space and comments only), joined by real separators.
// Oracle 1 (white-box): parser.SplitStatementToPieces(text) == the generator's list of
// non-empty statements (byte-exact up to surrounding white space).
// Oracle 2 (rig R2): a multi-statement client sends the text; the fake backend must see
// exactly those statements, in order, each unchanged (verbatim, or in the planner's own
// restored form of that single statement), one reply per statement; when the k-th backend
// exec is scripted to fail, the client gets k-1 results and one error and the backend sees
// nothing after the k-th statement.
// Gaea's parser is used only as a self-check of the generator (statement count).

import (
	"fmt"
	"strings"
	"testing"

	"github.com/XiaoMi/Gaea/mysql"
	"github.com/XiaoMi/Gaea/parser"
	"github.com/XiaoMi/Gaea/parser/format"
	kit "github.com/XiaoMi/Gaea/verifkit"
	"github.com/XiaoMi/Gaea/verifkit/mycli"
)

type c17Shape struct {
	Name  string
	Tmpl  string // %d = a number that makes the statement unique in its text
	Empty bool   // no statement (white space / comments only)
	Rig   bool   // can be sent through the rig (touches only unsharded tables / no table)
	Trap  bool   // contains a ';' that is NOT a separator
	Bad   bool   // a statement of its own that the grammar rejects (only characters the lexer has no rule for): it must reach execution, fail, and stop the rest
}

var c17Shapes = []c17Shape{
	{"plain", "select %d", false, true, false, false},
	{"sq_semi", "select %d, 'a;b'", false, true, true, false},
	{"sq_dblquote", "select %d, 'it'';s'", false, true, true, false},
	{"sq_bsquote", "select %d, 'q\\';x'", false, true, true, false},
	{"sq_bs_end", "select %d, 'x\\\\'", false, true, false, false},
	{"dq_semi", "select %d, \"d;q\"", false, true, true, false},
	{"dq_dbl", "select %d, \"d\"\";q\"", false, true, true, false},
	{"dq_sq", "select %d, \"a'b;\"", false, true, true, false},
	{"sq_dq", "select %d, 'a\"b;'", false, true, true, false},
	{"sq_cmt_open", "select %d, '/* ;'", false, true, true, false},
	{"sq_dash", "select %d, '-- ;'", false, true, true, false},
	{"sq_hash", "select %d, '# ;'", false, true, true, false},
	{"bq_semi", "select %d as `c;d`", false, true, true, false},
	{"bq_dbl", "select %d as `e``;f`", false, true, true, false},
	{"blk_cmt", "select /* c;d */ %d", false, true, true, false},
	{"blk_cmt_quote", "select /* it's; */ %d", false, true, true, false},
	{"blk_cmt_tight", "select %d/*;*/", false, true, true, false},
	{"blk_cmt_dash", "select /* -- ; */ %d", false, true, true, false},
	{"blk_cmt_ml", "select /* a\n;\nb */ %d", false, true, true, false},
	{"line_dash", "select %d -- x;y\n", false, true, true, false},
	{"line_hash", "select %d # x;y\n", false, true, true, false},
	{"line_dash_quote", "select %d -- it's;\n", false, true, true, false},
	{"lead_cmt", "/* ; */ select %d", false, true, true, false},
	{"lead_dash", "-- ;\nselect %d", false, true, true, false},
	{"ins_str", "insert into t2 (id, c) values (%d, 'x;y')", false, true, true, false},
	{"upd_str", "update t2 set c = 'x;y' where id = %d", false, true, true, false},
	{"del_str", "delete from t2 where id = %d and c = \";\"", false, true, true, false},
	{"from_t2", "select c from t2 where id = %d and c = 'p;q'", false, true, true, false},
	{"set_user", "set @a%d = 'v;w'", false, false, true, false},
	{"two_strings", "select %d, ';', ';'", false, true, true, false},
	{"adjacent_quotes", "select %d, ''';'''", false, true, true, false},
	// multi-byte characters and raw NUL bytes inside literals, identifiers and comments (the
	// scanner steps by rune width; a NUL is a one-byte character wherever it stands)
	{"sq_mb_semi", "select %d, '\u4e2d;\u6587'", false, false, true, false},
	{"sq_mb_nul_end", "select %d, '\u4e2d\x00'", false, false, false, false},
	{"sq_mb2_nul_semi", "select %d, '\u00e9\x00', 'a;b'", false, false, true, false},
	{"sq_mb4_nul_end", "select %d, 'a\U0001F600\x00'", false, false, false, false},
	{"sq_nul_semi", "select %d, 'a\x00;b'", false, false, true, false},
	{"dq_mb_nul_semi", "select %d, \"\u4e2d\x00;\"", false, false, true, false},
	{"bq_mb_semi", "select %d as `\u540d;x`", false, false, true, false},
	{"blk_cmt_mb_nul", "select /* \u4e2d\x00;*/ %d", false, false, true, false},
	{"line_dash_mb_nul", "select %d -- \u4e2d\x00;\n", false, false, true, false},
	// empty pieces
	{"e_none", "", true, true, false, false},
	{"e_space", " ", true, true, false, false},
	{"e_nl", "\n\t", true, true, false, false},
	{"e_blk", "/* ; */", true, true, true, false},
	{"e_dash", "-- ;\n", true, true, true, false},
	{"e_hash", "# ;\n", true, true, true, false},
	{"e_two", " /* a */ /* b; */ ", true, true, true, false},
}

// c17BrokenShape is a lexically INVALID tail: a construct opened and never closed, with a ';'
// after the opener. Everything from the start of that statement to the end of the text is
// inside the broken statement; it can only be the last piece of a text.
type c17BrokenShape struct {
	Name string
	Kind string // comment | quote
	Tmpl string
}

var c17Broken = []c17BrokenShape{
	{"b_cmt_last", "comment", "update t2 set c = 'v' /* keep ; where id = %d"},
	{"b_cmt_mid", "comment", "select %d /* x ; select 8; select 9"},
	{"b_cmt_ml", "comment", "select %d /* x\n; select 8"},
	{"b_cmt_tight", "comment", "delete from t2 where id > %d/*;*"},
	{"b_sq_last", "quote", "update t2 set c = 'v ; where id = %d"},
	{"b_sq_mid", "quote", "select %d, 'abc ; select 8; select 9"},
	{"b_sq_escaped_close", "quote", "select %d, 'abc\\' ; select 8"},
	{"b_dq_last", "quote", "delete from t2 where c = \"v ; and id = %d"},
	{"b_dq_mid", "quote", "select %d, \"abc ; select 8; select 9"},
	{"b_bq_last", "quote", "select %d as `c ; from t2"},
	{"b_bq_mid", "quote", "select %d as `abc ; select 8; select 9"},
}

var c17BrokenIdx = func() map[string]int {
	m := map[string]int{}
	for i, s := range c17Broken {
		m[s.Name] = i
	}
	return m
}()

// c17BaseShapes is the number of hand-written shapes above (the exhaustive depth-3
// enumeration of the thorough tier runs over them; depth 2 runs over all shapes).
var c17BaseShapes = len(c17Shapes)

// comment bodies that stress the comment scanner: starting/ending with '/' or '*', holding
// comment openers, quotes and ';'. None contains "*/", starts with '!' or '+'.
var c17BlockBodies = []struct{ Name, Body string }{
	{"empty", ""}, {"star", "*"}, {"slash", "/"}, {"slash_txt", "/ not ; a boundary "}, {"starstar", "**"},
	{"star_sp_slash", " * / ;"}, {"slashslash", "//;"}, {"open_in", " /* ; "}, {"sq", " ' ; "}, {"dq", " \" ; "}, {"bq", " ` ; "},
	{"semi", ";"}, {"star_semi_star", "*;*"}, {"end_star", " ; *"}, {"end_slash", " ; /"}, {"dash", " -- ; "}, {"hash", " # ; "},
}
var c17LineBodies = []struct{ Name, Body string }{
	{"open", "/* ;"}, {"close", "*/ ;"}, {"slash_open", "/*/ ;"}, {"sq", "' ;"}, {"dq", "\" ;"}, {"bq", "` ;"}, {"dash", "-- ;"}, {"hash", "# ;"},
}

func init() {
	for _, b := range c17BlockBodies {
		cm := "/*" + b.Body + "*/"
		trap := strings.Contains(b.Body, ";")
		c17Shapes = append(c17Shapes,
			c17Shape{"cb_" + b.Name + "_mid", "select " + cm + " %d", false, true, trap, false},
			c17Shape{"cb_" + b.Name + "_tail", "select %d" + cm, false, true, trap, false},
			c17Shape{"cb_" + b.Name + "_lead", cm + "select %d", false, true, trap, false})
	}
	for _, b := range c17LineBodies {
		c17Shapes = append(c17Shapes,
			c17Shape{"cl_" + b.Name + "_dash", "select %d -- " + b.Body + "\n", false, true, true, false},
			c17Shape{"cl_" + b.Name + "_hash", "select %d #" + b.Body + "\n", false, true, true, false})
	}
	// statements the grammar rejects: only characters the lexer has no rule for (+ blanks, comments)
	for _, x := range []struct{ Name, Text string }{
		{"x_rbracket", "]"}, {"x_lbracket", "["}, {"x_ctl", "\x01"}, {"x_two", "] ["}, {"x_ctl_blank", "\x01 \x02"},
		{"x_cmt_after", "] /* c */"}, {"x_cmt_before", "/* ; */ ]"}, {"x_line_after", "] -- ;\n"},
	} {
		c17Shapes = append(c17Shapes, c17Shape{x.Name, x.Text, false, true, strings.Contains(x.Text, ";"), true})
	}
	for _, b := range c17BlockBodies {
		c17Shapes = append(c17Shapes, c17Shape{"ce_" + b.Name, "/*" + b.Body + "*/", true, true, strings.Contains(b.Body, ";"), false})
	}
	for _, b := range c17LineBodies {
		c17Shapes = append(c17Shapes,
			c17Shape{"cle_" + b.Name + "_dash", "-- " + b.Body + "\n", true, true, true, false},
			c17Shape{"cle_" + b.Name + "_hash", "#" + b.Body + "\n", true, true, true, false})
	}
	for i, sh := range c17Shapes {
		c17ShapeIdx[sh.Name] = i
		if sh.Empty {
			c17EmptyIdx = append(c17EmptyIdx, i)
		} else {
			c17StmtIdx = append(c17StmtIdx, i)
		}
	}
}

var c17EmptyIdx, c17StmtIdx []int

var c17ShapeIdx = func() map[string]int {
	m := map[string]int{}
	for i, s := range c17Shapes {
		m[s.Name] = i
	}
	return m
}()

var c17Leads = []string{"", " ", "\n"}
var c17Trails = []string{"", ";", "; ", ";;", ";\n"}
var c17SepBefore = []string{"", " "}
var c17SepAfter = []string{"", " ", "\n"}

// c17Case is one text, in replayable structured form.
type c17Case struct {
	Lead    string   `json:"lead"`
	Shapes  []string `json:"shapes"`
	SepB    []string `json:"sep_before"` // len(Shapes)-1
	SepA    []string `json:"sep_after"`
	Trail   string   `json:"trail"`
	Broken  string   `json:"broken,omitempty"` // name of a c17Broken shape appended as the last piece ("" = none; Trail is then ignored)
	FaultAt int      `json:"fault_at"` // rig: k-th backend exec fails (0 = none)
	ViaRig  bool     `json:"via_rig"`
	Text    string   `json:"text,omitempty"`
}

type c17Built struct {
	Text  string
	Stmts []string // expected non-empty statements
	Bad   []bool   // Bad[i]: statement i is rejected by the grammar (must fail when executed)
	Start []int    // offset of statement i in Text
	End   []int
	Traps int
	// broken tail (lexically invalid last statement): offset where it starts, -1 = none
	BrokenStart int
	BrokenKind  string
}

func (c c17Case) build() c17Built {
	var sb strings.Builder
	var b c17Built
	sb.WriteString(c.Lead)
	for i, name := range c.Shapes {
		sh := c17Shapes[c17ShapeIdx[name]]
		if i > 0 {
			sb.WriteString(c.SepB[i-1])
			sb.WriteString(";")
			sb.WriteString(c.SepA[i-1])
		}
		txt := sh.Tmpl
		if strings.Contains(txt, "%d") {
			txt = fmt.Sprintf(txt, 100+i)
		}
		if sh.Trap {
			b.Traps++
		}
		if !sh.Empty {
			b.Start = append(b.Start, sb.Len())
			b.Stmts = append(b.Stmts, txt)
			b.Bad = append(b.Bad, sh.Bad)
			b.End = append(b.End, sb.Len()+len(txt))
		}
		sb.WriteString(txt)
	}
	b.BrokenStart = -1
	if c.Broken != "" {
		bs := c17Broken[c17BrokenIdx[c.Broken]]
		if len(c.Shapes) > 0 {
			sb.WriteString("; ")
		}
		b.BrokenStart = sb.Len()
		b.BrokenKind = bs.Kind
		sb.WriteString(fmt.Sprintf(bs.Tmpl, 100+len(c.Shapes)))
		b.Traps++
	} else {
		sb.WriteString(c.Trail)
	}
	b.Text = sb.String()
	return b
}

func (c c17Case) key() string {
	if c.Broken != "" {
		return strings.Join(c.Shapes, ",") + "!" + c.Broken
	}
	return strings.Join(c.Shapes, ",")
}

func (c c17Case) sig(clause string) string {
	f := "nofault"
	if c.FaultAt > 0 {
		f = fmt.Sprintf("fault@%d", c.FaultAt)
	}
	trail := c.Trail
	if c.Broken != "" {
		trail = ""
	}
	return fmt.Sprintf("C17/%s/shapes=%s/lead=%q/trail=%q/sepb=%q/sepa=%q/%s", clause, c.key(), c.Lead, trail, strings.Join(c.SepB, "|"), strings.Join(c.SepA, "|"), f)
}

func (b c17Built) badAt() int {
	for i, x := range b.Bad {
		if x {
			return i
		}
	}
	return -1
}

// c17CheckSplit returns "" or the failed clause + description.
func c17CheckSplit(b c17Built) (string, string) {
	got, err := parser.SplitStatementToPieces(b.Text)
	if b.BrokenStart >= 0 {
		return c17CheckSplitBroken(b, got, err)
	}
	if err != nil {
		return "split-error", fmt.Sprintf("SplitStatementToPieces(%q) error %v", b.Text, err)
	}
	if len(b.Stmts) == 0 && len(got) == 1 && (strings.TrimSpace(got[0]) == "" || (!strings.Contains(strings.TrimSuffix(b.Text, ";"), ";") && got[0] == strings.TrimSuffix(b.Text, ";"))) {
		// a text without any statement (blank, or comments only with no ';' except a final one): the fast path
		// hands back the text itself; such a piece is not a statement (the session answers it like MySQL's "Query was
		// empty"); oracle 2 still demands that nothing reaches a backend.
		return "", ""
	}
	if len(got) != len(b.Stmts) {
		return "split-count", fmt.Sprintf("SplitStatementToPieces(%q) = %q, constructed statements %q", b.Text, got, b.Stmts)
	}
	for i := range got {
		if strings.TrimSpace(got[i]) != strings.TrimSpace(b.Stmts[i]) {
			return "split-text", fmt.Sprintf("SplitStatementToPieces(%q) piece %d = %q, constructed statement %q", b.Text, i, got[i], b.Stmts[i])
		}
	}
	return "", ""
}

// c17CheckSplitBroken: the text ends in a lexically invalid statement. Pinned behaviour of the
// unchanged tree: an unterminated /* comment makes the splitter return an ERROR (the session
// splits the whole packet first, so nothing runs); an unterminated quote is handed on as ONE
// piece holding the whole broken tail verbatim after exactly the valid statements (the backend
// rejects it). Never acceptable: a piece cut out of the broken statement.
func c17CheckSplitBroken(b c17Built, got []string, err error) (string, string) {
	if err != nil {
		return "", ""
	}
	if b.BrokenKind == "comment" {
		return "broken-no-error", fmt.Sprintf("SplitStatementToPieces(%q) = %q without error although the last statement holds an unterminated comment", b.Text, got)
	}
	tail := strings.TrimSpace(b.Text[b.BrokenStart:])
	want := append(append([]string{}, b.Stmts...), tail)
	ok := len(got) == len(want) || len(got) == len(b.Stmts)
	for i := 0; ok && i < len(got); i++ {
		if strings.TrimSpace(got[i]) != strings.TrimSpace(want[i]) {
			ok = false
		}
	}
	if !ok {
		return "broken-pieces", fmt.Sprintf("SplitStatementToPieces(%q) = %q; constructed: statements %q then the broken tail %q (whole or not at all)", b.Text, got, b.Stmts, tail)
	}
	return "", ""
}

// c17SelfCheck compares the generator's statement count with Gaea's grammar. ok=false
// means the generator and the grammar disagree (generator bug, never a violation).
func c17SelfCheck(p *parser.Parser, b c17Built) (parsed bool, ok bool, detail string) {
	st, _, err := p.Parse(b.Text, "", "")
	if err != nil {
		return false, true, ""
	}
	if len(st) != len(b.Stmts) {
		return true, false, fmt.Sprintf("generator says %d statements, grammar sees %d in %q", len(b.Stmts), len(st), b.Text)
	}
	return true, true, ""
}

type c17Rig struct {
	r    *rig
	c    *mycli.Conn
	cmd  int64
	pars *parser.Parser
}

func c17NewRig(t *testing.T) *c17Rig {
	r := rigStart(t, rigOpts{Namespaces: rwNSList(rwNamespace("ns17", true)), FakePools: true})
	c, err := rwDial(r, "ns17", "rw", "db")
	if err != nil {
		r.Close()
		t.Fatalf("C17 dial: %v", err)
	}
	return &c17Rig{r: r, c: c, pars: parser.New()}
}

func (g *c17Rig) close() {
	g.c.Quit()
	g.c.Close()
	g.r.Close()
}

// restored is the planner's own rendering of ONE statement (used only as an accepted
// alternative spelling of the statement the generator constructed).
func (g *c17Rig) restored(stmt string) string {
	n, err := g.pars.ParseOneStmt(stmt, "", "")
	if err != nil {
		return ""
	}
	s := &strings.Builder{}
	if err := n.Restore(format.NewRestoreCtx(format.EscapeRestoreFlags, s)); err != nil {
		return ""
	}
	return s.String()
}

// c17SameStmt: observed backend text is statement i, possibly with the surrounding empty
// material (white space, empty pieces, separators) that the text has around statement i.
func c17SameStmt(b c17Built, i int, obs string) bool {
	o := strings.TrimSpace(obs)
	if o == strings.TrimSpace(b.Stmts[i]) {
		return true
	}
	lo := 0
	if i > 0 {
		lo = b.End[i-1]
	}
	hi := len(b.Text)
	if i+1 < len(b.Start) {
		hi = b.Start[i+1]
	} else if b.BrokenStart >= 0 {
		hi = b.BrokenStart
	}
	for s := lo; s <= b.Start[i]; s++ {
		for e := b.End[i]; e <= hi; e++ {
			if strings.TrimSpace(b.Text[s:e]) == o {
				return true
			}
		}
	}
	return false
}

// run sends the text and checks oracle 2. Returns failed clause ("" = ok), description and
// whether the observation was non-trivial (>= 2 execs or a fault consumed).
func (g *c17Rig) run(c c17Case, b c17Built) (string, string, rwObs, string) {
	g.cmd++
	cmd := g.cmd
	g.r.B.SetCmd(cmd)
	n := 0
	g.r.B.mu.Lock()
	g.r.B.Fault = nil
	if c.FaultAt > 0 {
		k := c.FaultAt
		g.r.B.Fault = func(ev *rigEvent) *rigFault {
			if ev.Op == "exec" && ev.Cmd == cmd {
				n++
				if n == k {
					return &rigFault{Name: "c17-fail", Err: mysql.NewError(1105, "c17 injected failure")}
				}
			}
			return nil
		}
	}
	g.r.B.mu.Unlock()
	from := g.r.B.Len()
	rs, err := g.c.Query(b.Text)
	obs := rwObserve(g.r.B.Events(from))
	g.r.B.mu.Lock()
	g.r.B.Fault = nil
	g.r.B.mu.Unlock()
	reply := rwReplyBrief(rs, err)
	if err != nil {
		return "io", fmt.Sprintf("client I/O error on %q: %v", b.Text, err), obs, reply
	}
	if b.BrokenStart >= 0 {
		cl, what := g.checkBroken(b, rs, obs, reply)
		return cl, what, obs, reply
	}
	// execution stops at the first statement the grammar rejects (it fails inside the proxy,
	// no backend exec) or at the scripted backend failure, whichever comes first
	want := len(b.Stmts)
	errAt := -1
	if ba := b.badAt(); ba >= 0 {
		want, errAt = ba, ba
	}
	if c.FaultAt > 0 && c.FaultAt <= want {
		want, errAt = c.FaultAt, c.FaultAt-1
	}
	wantReplies := len(b.Stmts)
	if errAt >= 0 {
		wantReplies = errAt + 1
	}
	desc := func(what string) string {
		return fmt.Sprintf("%s: text %q constructed statements %q fault_at=%d; backend saw %q; replies: %s", what, b.Text, b.Stmts, c.FaultAt, c17ExecSQL(obs), reply)
	}
	if len(obs.Execs) != want {
		return "rig-exec-count", desc(fmt.Sprintf("backend executed %d statements, expected %d", len(obs.Execs), want)), obs, reply
	}
	for i, e := range obs.Execs {
		if !c17SameStmt(b, i, e.SQL) {
			if rs := g.restored(b.Stmts[i]); rs == "" || rs != e.SQL {
				return "rig-exec-text", desc(fmt.Sprintf("backend exec %d is not constructed statement %d", i, i)), obs, reply
			}
		}
	}
	// replies
	if len(b.Stmts) == 0 {
		return "", "", obs, reply
	}
	if len(rs) != wantReplies {
		return "rig-reply-count", desc(fmt.Sprintf("%d replies, expected %d", len(rs), wantReplies)), obs, reply
	}
	for i, x := range rs {
		failing := i == errAt
		if failing != (x.Err != nil) {
			return "rig-reply-kind", desc(fmt.Sprintf("reply %d error=%v, expected error=%v", i, x.Err != nil, failing)), obs, reply
		}
	}
	return "", "", obs, reply
}

// checkBroken is oracle 2 for a text whose last statement is lexically invalid (see
// c17CheckSplitBroken for the pinned behaviour): unterminated comment => one error reply and
// NO backend exec for the packet; unterminated quote => either that, or exactly the valid
// statements in order followed at most by one exec of the WHOLE broken tail, verbatim.
func (g *c17Rig) checkBroken(b c17Built, rs []*mycli.Reply, obs rwObs, reply string) (string, string) {
	desc := func(what string) string {
		return fmt.Sprintf("%s: text %q = valid statements %q + broken tail %q; backend saw %q; replies: %s", what, b.Text, b.Stmts, b.Text[b.BrokenStart:], c17ExecSQL(obs), reply)
	}
	refused := len(obs.Execs) == 0 && len(rs) == 1 && rs[0].Err != nil
	if refused {
		return "", ""
	}
	if b.BrokenKind == "comment" {
		return "rig-broken-executed", desc("a packet whose last statement holds an unterminated comment was not refused as a whole")
	}
	n := len(b.Stmts)
	if ba := b.badAt(); ba >= 0 {
		// a statement the grammar rejects sits before the broken tail: execution stops there
		if len(obs.Execs) != ba {
			return "rig-broken-exec-count", desc(fmt.Sprintf("backend executed %d statements, expected the %d valid ones before the rejected piece", len(obs.Execs), ba))
		}
		n = ba
	}
	if len(obs.Execs) != n && len(obs.Execs) != n+1 {
		return "rig-broken-exec-count", desc(fmt.Sprintf("backend executed %d statements, expected %d valid ones (+ at most the whole broken tail)", len(obs.Execs), n))
	}
	for i := 0; i < n; i++ {
		if !c17SameStmt(b, i, obs.Execs[i].SQL) {
			if r := g.restored(b.Stmts[i]); r == "" || r != obs.Execs[i].SQL {
				return "rig-broken-exec-text", desc(fmt.Sprintf("backend exec %d is not constructed statement %d", i, i))
			}
		}
	}
	if len(obs.Execs) == n+1 && b.badAt() >= 0 {
		return "rig-broken-exec-count", desc("a statement ran after the piece the grammar rejects")
	}
	if len(obs.Execs) == n+1 {
		o := strings.TrimSpace(obs.Execs[n].SQL)
		lo := 0
		if n > 0 {
			lo = b.End[n-1]
		}
		ok := false
		for s := lo; s <= b.BrokenStart; s++ {
			if strings.TrimSpace(b.Text[s:]) == o {
				ok = true
				break
			}
		}
		if !ok {
			return "rig-broken-derived", desc("the backend received a statement derived from (cut out of) the broken statement")
		}
	}
	for i := 0; i < n && i < len(rs); i++ {
		if rs[i].Err != nil {
			return "rig-broken-reply", desc(fmt.Sprintf("reply %d for a valid statement is an error", i))
		}
	}
	return "", ""
}

func c17ExecSQL(o rwObs) []string {
	var out []string
	for _, e := range o.Execs {
		out = append(out, e.SQL)
	}
	return out
}

// c17Shrink reduces a failing case: drop pieces, plain separators, no lead/trail.
func c17Shrink(c c17Case, fails func(c17Case) bool) c17Case {
	cur := c
	for changed := true; changed; {
		changed = false
		var cands []c17Case
		for i := range cur.Shapes {
			if len(cur.Shapes) == 1 && cur.Broken == "" {
				break
			}
			d := cur
			d.Shapes = append(append([]string{}, cur.Shapes[:i]...), cur.Shapes[i+1:]...)
			j := i
			if j >= len(cur.SepB) {
				j = len(cur.SepB) - 1
			}
			if j >= 0 {
				d.SepB = append(append([]string{}, cur.SepB[:j]...), cur.SepB[j+1:]...)
				d.SepA = append(append([]string{}, cur.SepA[:j]...), cur.SepA[j+1:]...)
			}
			if d.FaultAt > 0 {
				// keep the fault inside the remaining statements
				nst := 0
				for _, s := range d.Shapes {
					if !c17Shapes[c17ShapeIdx[s]].Empty {
						nst++
					}
				}
				if d.FaultAt > nst {
					d.FaultAt = nst
				}
			}
			cands = append(cands, d)
		}
		if cur.Lead != "" {
			d := cur
			d.Lead = ""
			cands = append(cands, d)
		}
		if cur.Trail != "" {
			d := cur
			d.Trail = ""
			cands = append(cands, d)
		}
		for i := range cur.SepB {
			if cur.SepB[i] != "" {
				d := cur
				d.SepB = append([]string{}, cur.SepB...)
				d.SepB[i] = ""
				cands = append(cands, d)
			}
			if cur.SepA[i] != "" {
				d := cur
				d.SepA = append([]string{}, cur.SepA...)
				d.SepA[i] = ""
				cands = append(cands, d)
			}
		}
		for i, s := range cur.Shapes {
			sh := c17Shapes[c17ShapeIdx[s]]
			if !sh.Empty && s != "plain" {
				d := cur
				d.Shapes = append([]string{}, cur.Shapes...)
				d.Shapes[i] = "plain"
				cands = append(cands, d)
			}
			if sh.Bad && s != "x_rbracket" {
				d := cur
				d.Shapes = append([]string{}, cur.Shapes...)
				d.Shapes[i] = "x_rbracket"
				cands = append(cands, d)
			}
			if sh.Empty && s != "e_none" {
				d := cur
				d.Shapes = append([]string{}, cur.Shapes...)
				d.Shapes[i] = "e_none"
				cands = append(cands, d)
			}
		}
		if cur.FaultAt > 0 {
			d := cur
			d.FaultAt = 0
			cands = append(cands, d)
		}
		for _, d := range cands {
			if fails(d) {
				cur = d
				changed = true
				break
			}
		}
	}
	return cur
}

func c17Random(rnd *kit.Rand, maxPieces int, rigOnly bool) c17Case {
	n := rnd.Range(1, maxPieces)
	var c c17Case
	c.Lead = rnd.Pick(c17Leads)
	c.Trail = rnd.Pick(c17Trails)
	for i := 0; i < n; i++ {
		for {
			var sh c17Shape
			if rnd.Chance(1, 4) {
				sh = c17Shapes[c17EmptyIdx[rnd.Intn(len(c17EmptyIdx))]]
			} else {
				sh = c17Shapes[c17StmtIdx[rnd.Intn(len(c17StmtIdx))]]
			}
			if rigOnly && !sh.Rig {
				continue
			}
			c.Shapes = append(c.Shapes, sh.Name)
			break
		}
		if i > 0 {
			c.SepB = append(c.SepB, rnd.Pick(c17SepBefore))
			c.SepA = append(c.SepA, rnd.Pick(c17SepAfter))
		}
	}
	return c
}

func TestVerif_C17(t *testing.T) {
	rec := kit.Start("C17", "exploration",
		"texts are sequences of pieces (31 statement shapes with ';' inside '..', \"..\", `..`, /* */, --, #, 7 empty-piece shapes, and 11 lexically invalid tails: unterminated /* ' \" ` with a ';' after the opener, after 0..n valid statements) joined by real ';' with varied white space, lead and trail; "+
			"thorough enumerates every sequence of <=3 pieces x lead x trail and samples longer ones; a case is non-trivial when it has a ';' that is not a separator together with >=2 pieces (key = shape sequence)")
	defer rec.Finish(t)
	rec.Assume("line comments are newline-terminated by construction; sql_mode without NO_BACKSLASH_ESCAPES/ANSI_QUOTES; '/*! */' version comments are outside the generated space")
	rec.Assume("lexically invalid tails (unterminated /* comment, '..., \"..., `... with a ';' after the opener) are pinned to what the unchanged tree does: comment => the whole packet is refused (splitter error, no backend exec); quote => refused, or the valid statements in order plus at most the whole broken tail verbatim")
	rec.Assume("through the session a statement may reach the backend verbatim (with adjacent empty material) or in the planner's restored spelling of that single statement")

	pars := parser.New()
	var g *c17Rig
	getRig := func() *c17Rig {
		if g == nil {
			g = c17NewRig(t)
		}
		return g
	}
	defer func() {
		if g != nil {
			g.close()
		}
	}()

	evalSplit := func(c c17Case) (string, string) {
		return c17CheckSplit(c.build())
	}
	evalRig := func(c c17Case) (string, string) {
		cl, what, _, _ := getRig().run(c, c.build())
		return cl, what
	}
	report := func(c c17Case, clause, what string, viaRig bool) {
		ev := evalSplit
		if viaRig {
			ev = evalRig
		}
		// shrink on "fails at all" (one defect shows up under several clauses depending on the
		// shape around it); the signature carries the clause of the minimal case
		min := c17Shrink(c, func(d c17Case) bool { cl, _ := ev(d); return cl != "" && cl != "io" })
		mclause, mwhat := ev(min)
		if mclause != "" {
			clause = mclause
		}
		if mwhat == "" {
			mwhat = what
		}
		min.ViaRig = viaRig
		min.Text = min.build().Text
		rec.Violation(min.sig(clause), mwhat, min)
	}

	if p := kit.ReplayPath(); p != "" {
		var c c17Case
		if err := kit.LoadReplay(p, &c); err != nil {
			rec.Inconclusive("cannot load replay: " + err.Error())
			return
		}
		rec.Eval(1)
		var cl, what string
		if c.ViaRig {
			cl, what = evalRig(c)
		} else {
			cl, what = evalSplit(c)
		}
		fmt.Printf("REPLAY text=%q clause=%q %s\n", c.build().Text, cl, what)
		if cl != "" {
			rec.Violation(c.sig(cl), what, c)
		}
		rec.Nontrivial(c.key())
		rec.Nontrivial(c.key() + "#replay")
		rec.Sample(c)
		return
	}

	selfBad := 0
	one := func(c c17Case, selfCheck bool) {
		b := c.build()
		rec.Eval(1)
		rec.Count("whitebox.texts", 1)
		if selfCheck {
			parsed, ok, detail := c17SelfCheck(pars, b)
			if parsed {
				rec.Count("selfcheck.parsed", 1)
			} else {
				rec.Count("selfcheck.unparsed", 1)
			}
			if !ok {
				selfBad++
				if selfBad <= 3 {
					rec.Inconclusive("generator self-check failed: " + detail)
				}
				return
			}
		}
		if (b.Traps > 0 && len(c.Shapes) >= 2) || c.Broken != "" {
			if len(c.Shapes) <= 3 {
				rec.Nontrivial(c.key())
			}
			rec.Count("whitebox.nontrivial", 1)
		}
		if c.Broken != "" {
			rec.Count("whitebox.broken_tail", 1)
		}
		if cl, what := c17CheckSplit(b); cl != "" {
			report(c, cl, what, false)
		}
	}

	// ---- white-box part
	if kit.Tier() == "thorough" {
		// every sequence of <= 3 pieces x lead x trail with plain separators
		nsh := len(c17Shapes)
		allBase := func(prefix []string, i int) bool {
			if i >= c17BaseShapes {
				return false
			}
			for _, p := range prefix {
				if c17ShapeIdx[p] >= c17BaseShapes {
					return false
				}
			}
			return true
		}
		var rec3 func(prefix []string, depth int)
		cnt := 0
		rec3 = func(prefix []string, depth int) {
			if len(prefix) > 0 {
				for _, lead := range c17Leads {
					for _, trail := range c17Trails {
						c := c17Case{Lead: lead, Trail: trail, Shapes: append([]string{}, prefix...)}
						for i := 1; i < len(prefix); i++ {
							c.SepB = append(c.SepB, "")
							c.SepA = append(c.SepA, "")
						}
						cnt++
						one(c, cnt%4 == 0)
					}
				}
			}
			if depth == 3 {
				return
			}
			for i := 0; i < nsh; i++ {
				if depth == 2 && !allBase(prefix, i) {
					continue // depth 3 only over the hand-written base shapes
				}
				rec3(append(prefix, c17Shapes[i].Name), depth+1)
			}
		}
		rec3(nil, 0)
		rec.Set("exhaustive_sequences_up_to", 3)
		rec.Exhaustive(true)
	}
	rnd := kit.SubRand(kit.Seed(), "C17/whitebox")
	nWB := kit.N(20000, 1500000)
	for i := 0; i < nWB; i++ {
		c := c17Random(rnd, 6, false)
		one(c, kit.Tier() == "quick" || i%4 == 0)
		if i < 3 {
			c.Text = c.build().Text
			rec.Sample(c)
		}
	}

	// ---- lexically invalid tails (white-box): fixed grid + sampled prefixes
	brokenPrefixes := [][]string{{}, {"plain"}, {"plain", "plain"}, {"sq_semi", "e_blk", "plain"}, {"e_none", "line_dash"}, {"e_blk"}}
	mkBroken := func(prefix []string, lead, broken string) c17Case {
		c := c17Case{Lead: lead, Shapes: append([]string{}, prefix...), Broken: broken}
		for i := 1; i < len(prefix); i++ {
			c.SepB = append(c.SepB, "")
			c.SepA = append(c.SepA, " ")
		}
		return c
	}
	for _, bs := range c17Broken {
		for _, pre := range brokenPrefixes {
			for _, lead := range c17Leads {
				one(mkBroken(pre, lead, bs.Name), false)
			}
		}
	}
	if kit.Tier() == "thorough" {
		for _, bs := range c17Broken {
			for i := range c17Shapes {
				one(mkBroken([]string{c17Shapes[i].Name}, "", bs.Name), false)
				for j := range c17Shapes {
					one(mkBroken([]string{c17Shapes[i].Name, c17Shapes[j].Name}, "", bs.Name), false)
				}
			}
		}
	}
	rb := kit.SubRand(kit.Seed(), "C17/broken")
	for i, n := 0, kit.N(2000, 100000); i < n; i++ {
		c := c17Random(rb, 4, false)
		if rb.Chance(1, 5) {
			c.Shapes, c.SepB, c.SepA = nil, nil, nil
		}
		c.Broken = c17Broken[rb.Intn(len(c17Broken))].Name
		one(c, false)
		if i < 2 {
			c.Text = c.build().Text
			rec.Sample(c)
		}
	}

	// ---- rig part
	rigBroken := func(c c17Case) bool {
		c.ViaRig = true
		c.FaultAt = 0
		b := c.build()
		rec.Eval(1)
		rec.Count("rig.texts", 1)
		rec.Count("rig.broken_tail", 1)
		cl, what, obs, reply := getRig().run(c, b)
		rec.Count("rig.events.exec", int64(len(obs.Execs)))
		if cl == "io" {
			rec.Inconclusive(what)
			return false
		}
		if len(obs.Execs) == 0 {
			rec.Count("rig.broken_tail.refused_whole", 1)
		} else {
			rec.Count("rig.broken_tail.prefix_executed", 1)
		}
		rec.Nontrivial("rig:" + c.key())
		if rec.CounterValue("rig.broken_tail") <= 2 {
			rec.Sample(map[string]interface{}{"text": b.Text, "valid_statements": b.Stmts, "broken_tail": b.Text[b.BrokenStart:], "backend_saw": c17ExecSQL(obs), "replies": reply})
		}
		if cl != "" {
			report(c, cl, what, true)
		}
		return true
	}
	for _, bs := range c17Broken {
		for _, pre := range brokenPrefixes {
			if !rigBroken(mkBroken(pre, "", bs.Name)) {
				return
			}
		}
	}
	rbr := kit.SubRand(kit.Seed(), "C17/rig-broken")
	for i, n := 0, kit.N(400, 8000); i < n; i++ {
		c := c17Random(rbr, 4, true)
		if rbr.Chance(1, 5) {
			c.Shapes, c.SepB, c.SepA = nil, nil, nil
		}
		c.Broken = c17Broken[rbr.Intn(len(c17Broken))].Name
		if !rigBroken(c) {
			return
		}
	}
	rr := kit.SubRand(kit.Seed(), "C17/rig")
	nRig := kit.N(1500, 40000)
	nontrivRig := 0
	for i := 0; i < nRig; i++ {
		c := c17Random(rr, 5, true)
		c.ViaRig = true
		b := c.build()
		if len(b.Stmts) > 0 && rr.Chance(1, 3) {
			c.FaultAt = rr.Range(1, len(b.Stmts))
		}
		rec.Eval(1)
		rec.Count("rig.texts", 1)
		cl, what, obs, reply := getRig().run(c, b)
		rec.Count("rig.events.exec", int64(len(obs.Execs)))
		rec.Count("rig.events.get", int64(len(obs.Gets)))
		if c.FaultAt > 0 {
			rec.Count("rig.faulted", 1)
		}
		if cl == "io" {
			rec.Inconclusive(what)
			return
		}
		if b.badAt() >= 0 {
			rec.Count("rig.rejected_piece", 1)
		}
		if len(obs.Execs) >= 2 || ((c.FaultAt > 0 || b.badAt() >= 0) && len(b.Stmts) >= 2) {
			nontrivRig++
			rec.Nontrivial("rig:" + c.key() + fmt.Sprintf("@%d", c.FaultAt))
		}
		if i < 3 {
			rec.Sample(map[string]interface{}{"text": b.Text, "constructed": b.Stmts, "fault_at": c.FaultAt, "backend_saw": c17ExecSQL(obs), "replies": reply})
		}
		if cl != "" {
			report(c, cl, what, true)
		}
	}
	rec.Set("rig.nontrivial_cases", nontrivRig)
	if nontrivRig == 0 {
		rec.Inconclusive("no multi-statement text reached the backend")
	}
}
