package server

// C30 — password checks accept exactly the proofs MySQL would accept.
//
// Monitor: the real Session.handleHandshakeResponse decision path over a real UserManager
// (filled by the real addNamespaceUsers, one namespace per stored password so that a user
// has several passwords) is given auth responses of known provenance. The oracle is an
// independent implementation of the two protocols (common_mg_rig_test.go): under the
// method the session selects for this response (plugin name / response length), the
// response must be accepted iff it verifies, server side, against one of the stored
// passwords of that user, and the session must be bound to the namespace of that password.

import (
	"crypto/sha1"
	"encoding/hex"
	"fmt"
	"strings"
	"testing"

	"github.com/XiaoMi/Gaea/models"
	kit "github.com/XiaoMi/Gaea/verifkit"
)

// c30Case is one handshake against one user table. It is self-contained (replayable).
type c30Case struct {
	Stored  []string `json:"stored"`    // stored passwords of user "u", in table order; Stored[i] belongs to namespace ns<i>
	Forms   string   `json:"forms"`     // C = clear text, H = '*'+40 hex, X = '*'+40 non-hex characters (clear text that looks like a hash)
	Other   string   `json:"other"`     // stored clear-text password of user "v" (namespace nsv)
	Plugin  string   `json:"plugin"`    // HandshakeResponseInfo.AuthPlugin: "", mysql_native_password, caching_sha2_password
	SaltHex string   `json:"salt_hex"`  // 20 bytes
	RespHex string   `json:"resp_hex"`  // what the client sent
	Kind    string   `json:"kind"`      // how the response was made (label only; the oracle does not use it)
	Target  int      `json:"target"`    // index in Stored the response was derived from, -1 = none
	PlainHx []string `json:"plain_hex"` // clear-text passwords behind Stored (documentation of the case)
}

type c30Verdict struct {
	Clause string       `json:"clause"`
	Method string       `json:"method"`
	Want   bool         `json:"want_accept"`
	WantNS string       `json:"want_namespace"`
	Got    mgAuthResult `json:"got"`
}

// c30Rig: one real manager with namespaces ns0..ns2 and nsv; only its user table changes.
type c30Rig struct {
	m    *Manager
	sess *mgSession
}

func c30NewRig() *c30Rig {
	var initial []*models.Namespace
	for _, n := range []string{"ns0", "ns1", "ns2", "nsv"} {
		initial = append(initial, mgNamespaceConfig(n, 0, []mgUser{{User: "placeholder_" + n, Password: "placeholder"}}))
	}
	m := mgNewManager(mgStatsFor(), initial)
	return &c30Rig{m: m, sess: mgNewSession(m)}
}

// c30Method is the authentication method handleHandshakeResponse applies (session.go:205-218).
func c30Method(plugin string, respLen int) string {
	switch {
	case plugin == mgPlugDefault && respLen == 32:
		return "sha2"
	case plugin == mgPlugDefault:
		return "native"
	case plugin == mgPlugSha2:
		return "sha2"
	default:
		return "native"
	}
}

// c30Reference decides, independently of Gaea, whether resp proves knowledge of one of the
// stored passwords under method, and of which.
func c30Reference(method string, stored []string, salt, resp []byte) (bool, int) {
	for i, s := range stored {
		if s == "" {
			// an account without a password: MySQL accepts exactly the empty response
			if len(resp) == 0 {
				return true, i
			}
			continue
		}
		if stage2, isHash := mgIsHashForm(s); isHash {
			// only the double SHA1 is known: verifiable with mysql_native_password only
			if method == "native" && mgNativeVerify(salt, resp, stage2) {
				return true, i
			}
			continue
		}
		if method == "native" {
			if mgNativeVerify(salt, resp, mgNativeStage2([]byte(s))) {
				return true, i
			}
		} else if len(resp) == 32 && string(resp) == string(mgSha2Proof(salt, []byte(s))) {
			return true, i
		}
	}
	return false, -1
}

func (r *c30Rig) run(c c30Case) c30Verdict {
	um := NewUserManager()
	for i, s := range c.Stored {
		um.addNamespaceUsers(&models.Namespace{Name: fmt.Sprintf("ns%d", i), Users: []*models.User{{UserName: "u", Password: s}}})
	}
	um.addNamespaceUsers(&models.Namespace{Name: "nsv", Users: []*models.User{{UserName: "v", Password: c.Other}}})
	current, _, _ := r.m.switchIndex.Get()
	r.m.users[current] = um

	salt, _ := hex.DecodeString(c.SaltHex)
	resp, _ := hex.DecodeString(c.RespHex)
	v := c30Verdict{Method: c30Method(c.Plugin, len(resp))}
	want, idx := c30Reference(v.Method, c.Stored, salt, resp)
	v.Want = want
	if want {
		v.WantNS = fmt.Sprintf("ns%d", idx)
	}
	v.Got = r.sess.auth(r.m, "u", salt, resp, c.Plugin)
	switch {
	case v.Got.Panic != "":
		v.Clause = "panic"
	case want && !v.Got.Accepted():
		v.Clause = "false-reject"
	case !want && v.Got.Accepted():
		v.Clause = "false-accept"
	case want && v.Got.Namespace != v.WantNS:
		v.Clause = "wrong-namespace"
	}
	return v
}

// c30Shrink removes stored passwords one at a time while the same clause still fails (the
// response bytes stay fixed); returns the 1-minimal case.
func (r *c30Rig) shrink(c c30Case, clause string) c30Case {
	for changed := true; changed; {
		changed = false
		for i := 0; i < len(c.Stored) && len(c.Stored) > 1; i++ {
			d := c
			d.Stored = append(append([]string(nil), c.Stored[:i]...), c.Stored[i+1:]...)
			d.PlainHx = append(append([]string(nil), c.PlainHx[:i]...), c.PlainHx[i+1:]...)
			d.Forms = c.Forms[:i] + c.Forms[i+1:]
			if c.Target > i {
				d.Target = c.Target - 1
			} else if c.Target == i {
				d.Target = -1 // the failure does not need the entry the response was derived from
			}
			if r.run(d).Clause == clause {
				c = d
				changed = true
				break
			}
		}
	}
	return c
}

// c30Shape renders the stored forms with the target marked, e.g. "H,C*".
func c30Shape(c c30Case) string {
	parts := make([]string, len(c.Forms))
	for i := range c.Forms {
		parts[i] = string(c.Forms[i])
		if i == c.Target {
			parts[i] += "*"
		}
	}
	return strings.Join(parts, ",")
}

func c30LenClass(n int) string {
	switch {
	case n == 0:
		return "len0"
	case n < 20:
		return "len1..19"
	case n == 20:
		return "len20"
	case n < 32:
		return "len21..31"
	case n == 32:
		return "len32"
	}
	return "len33+"
}

func c30PluginLabel(p string) string {
	if p == "" {
		return "default"
	}
	return p
}

// ---------------------------------------------------------------- generation

var c30Kinds = []string{
	"native-correct", "sha2-correct", "native-bitflip", "sha2-bitflip", "native-truncated", "sha2-truncated",
	"native-extended-21", "sha2-extended-33", "native-padded-32", "native-wrong-salt", "sha2-wrong-salt",
	"native-of-stored-text", "sha2-of-stored-text", "other-user-native", "other-user-sha2", "empty", "random-20", "random-32",
	"native-hash-prefix-collision", "native-hash-suffix-collision",
}

// c30Costly kinds search ~2^16 SHA1 values per instance and are instantiated less often.
var c30Costly = map[string]bool{"native-hash-prefix-collision": true, "native-hash-suffix-collision": true}

func c30Password(r *kit.Rand) []byte {
	n := 1
	switch r.Intn(6) {
	case 0:
		n = 1
	case 1:
		n = 64
	case 2:
		n = r.Range(38, 43)
	default:
		n = r.Range(2, 32)
	}
	if r.Chance(1, 3) {
		// multi-byte: UTF-8 of random code points, cut to at most n bytes on a rune boundary
		var sb strings.Builder
		for sb.Len() < n {
			cp := []rune{0xe9, 0x4e2d, 0x6587, 0x1f600, 0x3b1, 0x5bc6, 0x7801, 0xdf}[r.Intn(8)]
			if sb.Len()+len(string(cp)) > n {
				break
			}
			sb.WriteRune(cp)
		}
		if sb.Len() > 0 {
			return []byte(sb.String())
		}
	}
	const alpha = "abcdefghijklmnopqrstuvwxyzABCDEFGHIJKLMNOPQRSTUVWXYZ0123456789:;*!@#$%^&()-_=+[]{}<>,.?/~|"
	b := make([]byte, n)
	for i := range b {
		b[i] = alpha[r.Intn(len(alpha))]
	}
	if b[0] == '*' {
		b[0] = 'p' // forms H and X are generated on purpose, never by accident
	}
	return b
}

// c30Make instantiates one structured cell (forms, target, plugin, kind) with random data.
func c30Make(r *kit.Rand, forms string, target int, plugin, kind string) c30Case {
	c := c30Case{Forms: forms, Plugin: plugin, Kind: kind, Target: target}
	seen := map[string]bool{}
	plains := make([][]byte, len(forms))
	for i := range forms {
		var p []byte
		for {
			p = c30Password(r)
			if forms[i] == 'E' {
				p = []byte{} // form E: the empty password (a configured blank password, trimmed by models.User.verify)
				break
			}
			if forms[i] == 'X' {
				// a clear-text password of 41 bytes that starts with '*' and is not hex
				const nonhex = "ghijklmnopqrstuvwxyzGHIJKLMNOPQRSTUVWXYZ_-"
				p = make([]byte, 41)
				p[0] = '*'
				for j := 1; j < 41; j++ {
					p[j] = nonhex[r.Intn(len(nonhex))]
				}
				// 8 random hex digits first: a lenient hex decoder returns a (distinct) prefix
				const hexd = "0123456789abcdefABCDEF"
				for j := 1; j <= 8; j++ {
					p[j] = hexd[r.Intn(len(hexd))]
				}
			}
			if !seen[string(p)] {
				break
			}
		}
		seen[string(p)] = true
		plains[i] = p
		c.PlainHx = append(c.PlainHx, hex.EncodeToString(p))
		if forms[i] == 'H' {
			c.Stored = append(c.Stored, mgHashForm(p))
		} else {
			c.Stored = append(c.Stored, string(p))
		}
	}
	var other []byte
	for {
		other = c30Password(r)
		if !seen[string(other)] {
			break
		}
	}
	c.Other = string(other)
	salt := r.Bytes(20)
	if r.Chance(1, 8) {
		salt[r.Intn(20)] = 0
	}
	c.SaltHex = hex.EncodeToString(salt)
	var tp []byte
	if target >= 0 {
		tp = plains[target]
	}
	flip := func(b []byte) []byte {
		b = append([]byte(nil), b...)
		b[r.Intn(len(b))] ^= 1 << uint(r.Intn(8))
		return b
	}
	otherSalt := func() []byte {
		s := append([]byte(nil), salt...)
		s[r.Intn(20)] ^= 1 << uint(r.Intn(8))
		return s
	}
	var resp []byte
	switch kind {
	case "native-correct":
		resp = mgNativeProof(salt, tp)
	case "sha2-correct":
		resp = mgSha2Proof(salt, tp)
	case "native-bitflip":
		resp = flip(mgNativeProof(salt, tp))
	case "sha2-bitflip":
		resp = flip(mgSha2Proof(salt, tp))
	case "native-truncated":
		resp = mgNativeProof(salt, tp)[:[]int{19, 10, 1}[r.Intn(3)]]
	case "sha2-truncated":
		resp = mgSha2Proof(salt, tp)[:[]int{31, 20, 21}[r.Intn(3)]]
	case "native-extended-21":
		resp = append(mgNativeProof(salt, tp), byte(r.Intn(256)))
	case "sha2-extended-33":
		resp = append(mgSha2Proof(salt, tp), byte(r.Intn(256)))
	case "native-padded-32":
		resp = append(mgNativeProof(salt, tp), make([]byte, 12)...)
	case "native-wrong-salt":
		resp = mgNativeProof(otherSalt(), tp)
	case "sha2-wrong-salt":
		resp = mgSha2Proof(otherSalt(), tp)
	case "native-of-stored-text":
		// the client knows only what is written in the configuration
		resp = mgNativeProof(salt, []byte(c.Stored[target]))
	case "sha2-of-stored-text":
		resp = mgSha2Proof(salt, []byte(c.Stored[target]))
	case "native-hash-prefix-collision", "native-hash-suffix-collision":
		// a response whose SHA1(resp XOR mask) agrees with the stored hash on 2 bytes only:
		// accepted by a server that compares a prefix/suffix, never by MySQL
		stage2 := mgNativeStage2(tp)
		off := 0
		if kind == "native-hash-suffix-collision" {
			off = 18
		}
		var x []byte
		for {
			x = r.Bytes(20)
			h := sha1.Sum(x)
			if h[off] == stage2[off] && h[off+1] == stage2[off+1] && string(h[:]) != string(stage2) {
				break
			}
		}
		hm := sha1.New()
		hm.Write(salt)
		hm.Write(stage2)
		mask := hm.Sum(nil)
		resp = make([]byte, 20)
		for i := range resp {
			resp[i] = x[i] ^ mask[i]
		}
	case "other-user-native":
		resp = mgNativeProof(salt, other)
	case "other-user-sha2":
		resp = mgSha2Proof(salt, other)
	case "empty":
		resp = []byte{}
	case "random-20":
		resp = r.Bytes(20)
	case "random-32":
		resp = r.Bytes(32)
	}
	c.RespHex = hex.EncodeToString(resp)
	return c
}

func c30AllForms(maxLen int) []string {
	out := []string{}
	var rec func(prefix string)
	rec = func(prefix string) {
		if len(prefix) > 0 {
			out = append(out, prefix)
		}
		if len(prefix) == maxLen {
			return
		}
		for _, f := range "CHX" {
			rec(prefix + string(f))
		}
	}
	rec("")
	return out
}

func TestVerif_C30(t *testing.T) {
	rec := kit.Start("C30", "exploration", "structured cells (stored-password forms C/H/X of length 1..3 in table order, plus 7 tables with an empty stored password E) x target entry x session plugin {none, mysql_native_password, caching_sha2_password} x response kind (20 kinds: correct / bit flipped / truncated / extended / padded to 32 / wrong salt / proof of the stored text / other user's / empty / random / responses whose hash agrees with the stored hash on a 2-byte prefix or suffix), each instantiated with random 20-byte salts and random ASCII or multi-byte passwords of 1..64 bytes; non-trivial = distinct (forms, target form, plugin, kind, expected outcome) cells whose response was derived from a configured password; plus the wire part: handshake responses parsed by the real readHandshakeResponse / Session.Handshake over in-memory connections while other connections read small packets from the shared buffer pool (interleaved and concurrent schedules)")
	defer rec.Finish(t)
	if err := mgInit(); err != nil {
		t.Fatal(err)
	}
	defer mgCleanup()
	rec.Assume("a stored password of the form '*' + 40 hex digits is a mysql_native_password hash (SHA1(SHA1(password))); it can be verified with mysql_native_password only, so under caching_sha2_password no response is a correct proof for it; any other stored string is clear text")
	rec.Assume("the user table is filled by the real UserManager.addNamespaceUsers in a fixed order (one namespace per stored password) instead of CreateUserManager, whose map iteration would make the order of a user's passwords vary between runs")
	rec.Assume("distinct stored entries of one user have distinct clear texts; at most one of them is empty (models.User.verify refuses \"\" but trims a password of blanks to it)")

	rig := c30NewRig()
	defer rig.sess.close()

	handle := func(c c30Case) {
		v := rig.run(c)
		rec.Eval(1)
		rec.Count("method."+v.Method, 1)
		if v.Want {
			rec.Count("expected.accept", 1)
		} else {
			rec.Count("expected.reject", 1)
		}
		if v.Got.Accepted() {
			rec.Count("observed.accept", 1)
		} else if v.Got.Panic != "" {
			rec.Count("observed.panic", 1)
		} else {
			rec.Count("observed.reject", 1)
		}
		if c.Target >= 0 {
			rec.Nontrivial(fmt.Sprintf("%s|%d|%s|%s|%v", c.Forms, c.Target, c30PluginLabel(c.Plugin), c.Kind, v.Want))
		}
		if v.Clause == "" {
			if v.Want && c.Kind != "native-correct" && c.Kind != "sha2-correct" {
				rec.Count("accepted.by.chance", 1)
			}
			return
		}
		min := rig.shrink(c, v.Clause)
		mv := rig.run(min)
		if mv.Clause == "panic" {
			min.Target = -1 // a panic does not depend on which entry the response was derived from
		}
		tf := "-"
		if min.Target >= 0 {
			tf = string(min.Forms[min.Target])
		}
		respClass := min.Kind
		if mv.Clause == "panic" || min.Target < 0 {
			// the failure does not depend on how the response was derived: classify by length
			respClass = c30LenClass(len(min.RespHex) / 2)
		}
		sig := fmt.Sprintf("%s|plugin=%s|method=%s|resp=%s|target=%s|stored=%s", mv.Clause, c30PluginLabel(min.Plugin), mv.Method, respClass, tf, c30Shape(min))
		what := fmt.Sprintf("user u with stored passwords [%s] (forms %s), plugin %q, %s response of %d bytes (%s): expected accept=%v into %q, observed %+v",
			strings.Join(min.Stored, " "), c30Shape(min), min.Plugin, mv.Method, len(min.RespHex)/2, min.Kind, mv.Want, mv.WantNS, mv.Got)
		rec.Violation(sig, what, min)
	}

	if p := kit.ReplayPath(); p != "" {
		var wc c30WireCase
		if kit.LoadReplay(p, &wc) == nil && wc.Wire {
			_, um := c30WireUsers()
			current, _, _ := rig.m.switchIndex.Get()
			rig.m.users[current] = um
			srv := &Server{manager: rig.m, ServerVersion: "5.7.25-gaea", ServerConfig: &models.Proxy{}}
			if wc.JunkLen == 0 {
				wc.JunkLen = 64
			}
			clause, detail := c30RunInterleaved(rig.m, srv, wc)
			rec.Eval(1)
			fmt.Printf("replay (interleaved schedule): clause=%q %s\n", clause, detail)
			if clause != "" {
				rec.Violation(fmt.Sprintf("wire|%s|schedule=interleaved|resp=%s", clause, wc.Kind), detail, wc)
			}
			return
		}
		var c c30Case
		if err := kit.LoadReplay(p, &c); err != nil {
			t.Fatal(err)
		}
		v := rig.run(c)
		fmt.Printf("replay: %+v\n", v)
		handle(c)
		return
	}

	r := kit.SubRand(kit.Seed(), "C30/cells")
	reps := kit.N(4, 200)
	plugins := []string{mgPlugDefault, mgPlugNative, mgPlugSha2}
	sampled := 0
	for _, forms := range c30AllForms(3) {
		for target := -1; target < len(forms); target++ {
			for _, plugin := range plugins {
				for _, kind := range c30Kinds {
					needsTarget := !(kind == "empty" || strings.HasPrefix(kind, "random") || strings.HasPrefix(kind, "other-user"))
					if needsTarget != (target >= 0) {
						continue
					}
					if strings.HasSuffix(kind, "-of-stored-text") && forms[target] != 'H' {
						continue // for clear text the stored text is the password: same as *-correct
					}
					n := reps
					if c30Costly[kind] {
						if forms[target] != 'H' {
							continue // only a stored hash is compared after hashing the response
						}
						n = kit.N(1, 4)
					}
					for i := 0; i < n; i++ {
						c := c30Make(r, forms, target, plugin, kind)
						handle(c)
						if sampled < 40 && r.Chance(1, 500) {
							sampled++
							rec.Sample(c)
						}
					}
				}
			}
		}
	}
	// form E: one stored password of user u is empty (a configured password of blanks only passes
	// models.User.verify and is trimmed to ""). The only proof of an empty password is the empty
	// response, under either method; proofs aimed at the other entries and responses of other
	// provenance are judged as before.
	nE := 0
	for _, forms := range []string{"E", "CE", "EC", "HE", "EH", "CEH", "XE"} {
		for target := -1; target < len(forms); target++ {
			for _, plugin := range plugins {
				for _, kind := range []string{"native-correct", "sha2-correct", "native-bitflip", "sha2-bitflip", "other-user-native", "other-user-sha2", "empty", "random-20", "random-32"} {
					needsTarget := !(kind == "empty" || strings.HasPrefix(kind, "random") || strings.HasPrefix(kind, "other-user"))
					if needsTarget != (target >= 0) || (target >= 0 && forms[target] == 'E') {
						continue // the proof of the empty password is the "empty" kind
					}
					for i := 0; i < reps; i++ {
						nE++
						handle(c30Make(r, forms, target, plugin, kind))
					}
				}
			}
		}
	}
	rec.Set("empty_password_cases", nE)
	c30WirePart(rec, rig.m)
	rec.Set("cells", map[string]interface{}{"forms": len(c30AllForms(3)), "plugins": len(plugins), "kinds": len(c30Kinds), "instances_per_cell": reps})
	if rec.CounterValue("expected.accept") == 0 || rec.CounterValue("observed.accept") == 0 {
		rec.Inconclusive("no handshake was expected to be accepted and accepted: the decision path was not exercised")
	}
}
