package server

// C38, cross-session integrity phase ("... or affects other sessions").
//
// Hostile clients log in, announce a packet of L bytes, send fewer and disconnect, for L in
// every size class of the read-buffer pool used by mysql.Conn. Before and WHILE they do so,
// K concurrent canary sessions send self-describing statements of the same size classes
// (text = session id + counter + padding derived from both): COM_QUERY and prepared executes,
// some written in two parts so that the server is inside its packet read while other sessions
// receive theirs. The fake backend checks every statement it sees for internal consistency and
// echoes it; every canary checks that each reply is the echo of exactly what it sent.
// Any statement that is nobody's, any reply that is another session's or not byte-exact, any
// unexpected error or lost canary connection is `canary-corrupted`.

import (
	"encoding/json"
	"fmt"
	"net"
	"strconv"
	"strings"
	"sync"
	"sync/atomic"
	"time"

	"github.com/XiaoMi/Gaea/mysql"
	kit "github.com/XiaoMi/Gaea/verifkit"
	"github.com/XiaoMi/Gaea/verifkit/mycli"
)

const c38CrossPrefix = "select 'c38x:"

// c38CrossText builds the self-describing statement of canary sid, number n, total length size.
// Layout: select 'c38x:<sid>:<n>:<size>:<padding>' from t2   (padding from a PRNG of sid,n)
func c38CrossText(sid, n, size int) string {
	head := fmt.Sprintf("%s%d:%d:%d:", c38CrossPrefix, sid, n, size)
	tail := "' from t2"
	pad := size - len(head) - len(tail)
	if pad < 0 {
		pad = 0
	}
	r := kit.NewRand(uint64(sid)*1000003 + uint64(n)*7919 + 17)
	b := make([]byte, pad)
	const alpha = "abcdefghijklmnopqrstuvwxyzABCDEFGHIJKLMNOPQRSTUVWXYZ0123456789"
	for i := range b {
		if i%8 == 0 {
			v := r.Uint64()
			for j := 0; j < 8 && i+j < len(b); j++ {
				b[i+j] = alpha[int(v>>(8*uint(j))&0xff)%len(alpha)]
			}
		}
	}
	return head + string(b) + tail
}

// c38CrossValid reports whether sql is exactly a statement some canary could have sent.
func c38CrossValid(sql string) (sid int, ok bool) {
	if !strings.HasPrefix(sql, c38CrossPrefix) {
		return 0, false
	}
	parts := strings.SplitN(sql[len(c38CrossPrefix):], ":", 4)
	if len(parts) != 4 {
		return 0, false
	}
	sid, e1 := strconv.Atoi(parts[0])
	n, e2 := strconv.Atoi(parts[1])
	size, e3 := strconv.Atoi(parts[2])
	if e1 != nil || e2 != nil || e3 != nil || size < 0 || size > 1<<25 {
		return 0, false
	}
	return sid, c38CrossText(sid, n, size) == sql
}

type c38CrossProblem struct {
	Kind   string `json:"kind"`
	Sid    int    `json:"sid"`
	N      int    `json:"n"`
	Size   int    `json:"size"`
	Via    string `json:"via"`
	Detail string `json:"detail"`
}

func c38Clip(s string) string {
	if len(s) > 160 {
		return s[:80] + "..." + s[len(s)-60:] + fmt.Sprintf(" (%d bytes)", len(s))
	}
	return s
}

func c38Cross(rec *kit.Rec, r *rig, pre *kit.PreLog) {
	var mu sync.Mutex
	var problems []c38CrossProblem
	report := func(p c38CrossProblem) {
		mu.Lock()
		if len(problems) < 50 {
			problems = append(problems, p)
		}
		mu.Unlock()
	}
	var backendSeen, backendBad int64
	// (the hook is installed and removed under the backend's lock: every fake Execute takes that
	// lock before it reads the hook, which orders the accesses)
	hook := func(c *rigConn, sql string) (*mysql.Result, error) {
		if strings.HasPrefix(sql, "select 'c38x") || strings.Contains(sql, "c38x:") {
			atomic.AddInt64(&backendSeen, 1)
			if _, ok := c38CrossValid(sql); !ok {
				atomic.AddInt64(&backendBad, 1)
				report(c38CrossProblem{Kind: "backend-saw-corrupted-statement", Via: "backend", Detail: c38Clip(sql)})
			}
			rs, err := mysql.BuildResultset(nil, []string{"echo"}, [][]interface{}{{sql}})
			if err != nil {
				return nil, err
			}
			return &mysql.Result{Status: c.status(), Resultset: rs}, nil
		}
		return rigDefaultRespond(c, sql)
	}
	r.B.mu.Lock()
	r.B.Respond = hook
	r.B.mu.Unlock()
	defer func() {
		r.B.mu.Lock()
		r.B.Respond = nil
		r.B.mu.Unlock()
	}()

	// size classes of the read-buffer pool: 128 * 2^k
	maxClass := kit.N(1<<16, 1<<19)
	var classes []int
	for c := 128; c <= maxClass; c *= 2 {
		classes = append(classes, c)
	}
	K := 8
	Q := kit.N(18, 120)
	M := kit.N(8, 40)

	canaries := make([]*mycli.Conn, K)
	stmts := make([]*mycli.Stmt, K)
	for i := range canaries {
		c, err := r.Dial("ns1_rw", "pw_rw", "db")
		if err != nil {
			rec.Inconclusive("cross-session phase: cannot open canary: " + err.Error())
			return
		}
		defer c.Close()
		st, ep, err := c.Prepare("select ? from t2")
		if err != nil || ep != nil {
			rec.Inconclusive(fmt.Sprintf("cross-session phase: canary prepare: %v %v", err, ep))
			return
		}
		c.C = &c38SplitConn{Conn: c.C}
		canaries[i], stmts[i] = c, st
	}

	// one truncated-then-disconnect client: announce `announce` bytes, send `send`, close.
	hostile := func(class, i int) {
		announce := class - (i % 5) // same size class (class/2 < announce <= class)
		if announce <= class/2 {
			announce = class
		}
		send := []int{0, 1, announce / 2, announce - 1, 5}[i%5]
		if send >= announce {
			send = announce - 1
		}
		line, _ := json.Marshal(map[string]interface{}{"group": "cross/truncated-disconnect", "class": "cross/truncated-disconnect", "announce": announce, "send": send})
		pre.Write(string(line))
		nc, err := r.DialRaw()
		if err != nil {
			return
		}
		defer nc.Close()
		if _, err := mycli.Handshake(nc, mycli.Options{User: "ns1_rw", Password: "pw_rw", DB: "db", Timeout: c38Watchdog}); err != nil {
			report(c38CrossProblem{Kind: "hostile-prelude-failed", Via: "hostile", Detail: err.Error()})
			return
		}
		payload := make([]byte, send)
		if send > 0 {
			payload[0] = mycli.ComQuery
			copy(payload[1:], "select 'truncated")
		}
		c38WriteFrame(nc, 0, announce, payload)
		rec.Count("cross.hostile_truncated_disconnects", 1)
	}

	t0 := time.Now()
	classWall := map[string]string{}
	for _, class := range classes {
		tc := time.Now()
		// before: truncated-then-disconnect clients of this class
		for i := 0; i < M; i++ {
			hostile(class, i)
		}
		// during: canaries and more truncated clients at the same time
		var wg sync.WaitGroup
		stop := make(chan struct{})
		wg.Add(1)
		go func(class int) {
			defer wg.Done()
			for i := 0; i < 4*M; i++ { // bounded by count; ends earlier when the canaries are done
				select {
				case <-stop:
					return
				default:
				}
				hostile(class, i)
			}
		}(class)
		var cw sync.WaitGroup
		for sid := 0; sid < K; sid++ {
			cw.Add(1)
			go func(sid, class int) {
				defer cw.Done()
				q := Q
				if class > 1<<14 {
					// the cost of a statement grows with its length (race build, 8 at a time: ~0.5 s at 64 KiB, ~12 s at 512 KiB)
					q = Q * (1 << 14) / class
					if q < 3 {
						q = 3
					}
				}
				for n := 0; n < q; n++ {
					// payload = 1 command byte + text: keep it inside this size class
					size := class - 1 - (n*7+sid)%(class/4)
					if n%3 == 2 && class <= 1<<16 {
						// prepared execute: payload = 10 bytes header + bitmap/types + lenenc value
						c38CrossCanary(rec, canaries[sid], stmts[sid], report, sid, class*1000+n, size, "execute")
					} else if n%3 == 1 {
						c38CrossCanary(rec, canaries[sid], stmts[sid], report, sid, class*1000+n, size, "split")
					} else {
						c38CrossCanary(rec, canaries[sid], stmts[sid], report, sid, class*1000+n, size, "query")
					}
				}
			}(sid, class)
		}
		done := make(chan struct{})
		go func() { cw.Wait(); close(done) }()
		select {
		case <-done:
		case <-time.After(20 * c38Watchdog):
			// a session that does not answer makes its canary fail with an i/o timeout (reported as
			// canary-io-error); this watchdog only fires when the whole phase is too slow
			rec.Inconclusive(fmt.Sprintf("cross-session phase: canaries did not finish size class %d within the watchdog", class))
			close(stop)
			wg.Wait()
			goto out
		}
		classWall[fmt.Sprint(class)] = fmt.Sprintf("%.1fs", time.Since(tc).Seconds())
		close(stop)
		wg.Wait()
	}
out:
	rec.Set("cross_wall_s", time.Since(t0).Seconds())
	rec.Set("cross_size_classes", classes)
	rec.Set("cross_class_wall", classWall)
	rec.Set("cross_backend_statements_checked", atomic.LoadInt64(&backendSeen))
	if atomic.LoadInt64(&backendSeen) == 0 {
		rec.Inconclusive("cross-session phase: the fake backend saw no canary statement")
	}
	mu.Lock()
	defer mu.Unlock()
	byKind := map[string][]c38CrossProblem{}
	for _, p := range problems {
		byKind[p.Kind] = append(byKind[p.Kind], p)
	}
	for kind, ps := range byKind {
		if kind == "hostile-prelude-failed" {
			rec.Inconclusive(fmt.Sprintf("cross-session phase: %d well-formed hostile preludes failed: %s", len(ps), ps[0].Detail))
			continue
		}
		rec.Violation("canary-corrupted:"+kind, fmt.Sprintf("while other clients announced packets, sent fewer bytes and disconnected, a well-behaved concurrent session was disturbed (%s, %d occurrence(s)): %+v", kind, len(ps), ps[0]),
			map[string]interface{}{"kind": kind, "occurrences": ps})
	}
}

// c38CrossCanary sends one self-describing statement and checks the echo.
func c38CrossCanary(rec *kit.Rec, c *mycli.Conn, st *mycli.Stmt, report func(c38CrossProblem), sid, n, size int, via string) {
	if size < 48 {
		size = 48
	}
	text := c38CrossText(sid, n, size)
	var rp *mycli.Reply
	var err error
	switch via {
	case "execute":
		val := text[len("select '") : len(text)-len("' from t2")]
		rp, err = c.Execute(st.ID, []mycli.Param{{Type: mycli.TVarString, Raw: mycli.LenEncBytes([]byte(val))}})
	case "split":
		// the packet goes out in two writes: the server sits inside its body read while other sessions receive theirs
		sc := c.C.(*c38SplitConn)
		sc.split = true
		var rs []*mycli.Reply
		rs, err = c.Query(text)
		sc.split = false
		if len(rs) > 0 {
			rp = rs[len(rs)-1]
		}
	default:
		var rs []*mycli.Reply
		rs, err = c.Query(text)
		if len(rs) > 0 {
			rp = rs[len(rs)-1]
		}
	}
	rec.Eval(1)
	rec.Count("cross.canary_statements."+via, 1)
	p := c38CrossProblem{Sid: sid, N: n, Size: size, Via: via}
	switch {
	case err != nil:
		p.Kind, p.Detail = "canary-io-error", err.Error()
	case rp == nil:
		p.Kind = "canary-no-reply"
	case rp.Err != nil:
		p.Kind, p.Detail = "canary-unexpected-error", c38Clip(rp.Err.Error())
	case len(rp.Rows) != 1 || len(rp.Rows[0]) != 1 || rp.Rows[0][0] == nil:
		p.Kind, p.Detail = "canary-wrong-shape", fmt.Sprintf("%d rows", len(rp.Rows))
	case *rp.Rows[0][0] != text:
		got := *rp.Rows[0][0]
		p.Kind = "canary-reply-corrupted"
		if osid, ok := c38CrossValid(got); ok && osid != sid {
			p.Kind = "canary-got-other-sessions-statement"
		}
		p.Detail = "want " + c38Clip(text) + " got " + c38Clip(got)
	default:
		rec.Nontrivial(fmt.Sprintf("cross|%s|size-class-of-%d", via, c38ClassOf(size+1)))
		return
	}
	report(p)
}

func c38ClassOf(n int) int {
	c := 128
	for c < n {
		c *= 2
	}
	return c
}

// c38SplitConn writes large buffers in two parts with a pause between them.
type c38SplitConn struct {
	net.Conn
	split bool
}

func (s *c38SplitConn) Write(b []byte) (int, error) {
	if !s.split || len(b) < 16 {
		return s.Conn.Write(b)
	}
	cut := len(b) / 2
	n1, err := s.Conn.Write(b[:cut])
	if err != nil {
		return n1, err
	}
	time.Sleep(500 * time.Microsecond)
	n2, err := s.Conn.Write(b[cut:])
	return n1 + n2, err
}
