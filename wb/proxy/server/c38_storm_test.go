package server

// C38, "same malformed statement at the same moment" phase.
//
// K sessions are released together, round after round, each round with a text nobody has sent
// before (so whatever the proxy creates on first sight of a failing statement - counters keyed
// by the statement's fingerprint, cache entries - is created by several sessions at once).
// Every session must get its error packet. Afterwards fresh canary sessions send failing and
// succeeding statements. A session that is not answered within the generous client timeout,
// confirmed by a fresh, otherwise idle canary that is not answered either, is a hang.

import (
	"encoding/json"
	"fmt"
	"sync"
	"sync/atomic"
	"time"

	kit "github.com/XiaoMi/Gaea/verifkit"
	"github.com/XiaoMi/Gaea/verifkit/mycli"
)

// c38StormTexts: the failing statements of one round (same for every session).
func c38StormTexts(seed uint64, round int) []string {
	tag := fmt.Sprintf("c38s%dr%d", seed, round)
	switch round % 4 {
	case 0:
		return []string{"selec " + tag + " from t2"} // syntax error, new fingerprint
	case 1:
		return []string{"select * from tbl_shard where id = = " + tag} // parse error in the sharded path
	case 2:
		return []string{"insert into " + tag + "_tbl (id values (1)"}
	default:
		return []string{"select " + tag + " from nodb_" + tag + ".tbl_shard where", "update " + tag + " set"}
	}
}

// c38StormCanary: a fresh session must get answers to a failing and to a succeeding statement.
func c38StormCanary(r *rig, text string) (string, bool) {
	c, err := mycli.Dial(r.Addr(), mycli.Options{User: "ns1_rw", Password: "pw_rw", DB: "db", Timeout: c38Watchdog})
	if err != nil {
		return "login: " + err.Error(), false
	}
	defer c.Close()
	rs, err := c.Query(text)
	if err != nil {
		return fmt.Sprintf("failing statement %q: %v", text, err), false
	}
	if len(rs) == 0 || rs[len(rs)-1].Err == nil {
		return fmt.Sprintf("failing statement %q was not refused", text), true
	}
	rp, err := c.Query1("select * from tbl_shard where id = 3")
	if err != nil || rp.Err != nil {
		return fmt.Sprintf("succeeding statement: %v", c38ReplyText(rp, err)), err == nil
	}
	c.Quit()
	return "", true
}

func c38Storm(rec *kit.Rec, r *rig, pre *kit.PreLog) (hung bool) {
	v0 := rec.Violations()
	defer func() { hung = rec.Violations() > v0 }()
	seed := kit.Seed()
	K := 16
	rounds := kit.N(350, 6000)
	conns := make([]*mycli.Conn, K)
	for i := range conns {
		c, err := mycli.Dial(r.Addr(), mycli.Options{User: []string{"ns1_rw", "ns2_rw"}[i%2], Password: "pw_rw", DB: "db", Timeout: c38Watchdog})
		if err != nil {
			rec.Inconclusive("storm phase: cannot open session: " + err.Error())
			return false
		}
		defer c.Close()
		conns[i] = c
	}
	t0 := time.Now()
	var unanswered, wrong int64
	var firstProblem atomic.Value
	for round := 0; round < rounds; round++ {
		texts := c38StormTexts(seed, round)
		line, _ := json.Marshal(map[string]interface{}{"group": "storm/same-malformed", "class": "storm/same-malformed", "round": round, "texts": texts, "sessions": K})
		pre.Write(string(line))
		var wg sync.WaitGroup
		start := make(chan struct{})
		for i := range conns {
			wg.Add(1)
			go func(i int) {
				defer wg.Done()
				<-start
				for _, q := range texts {
					rs, err := conns[i].Query(q)
					rec.Eval(1)
					if err != nil {
						atomic.AddInt64(&unanswered, 1)
						firstProblem.Store(fmt.Sprintf("round %d session %d %q: %v", round, i, q, err))
						return
					}
					if len(rs) == 0 || rs[len(rs)-1].Err == nil {
						atomic.AddInt64(&wrong, 1)
					} else {
						rec.Nontrivial(fmt.Sprintf("storm|form%d|err%d", round%4, rs[len(rs)-1].Err.Code))
					}
				}
			}(i)
		}
		close(start)
		wg.Wait()
		rec.Count("storm.rounds", 1)
		if atomic.LoadInt64(&unanswered) > 0 {
			break
		}
		if round%100 == 99 {
			if msg, ok := c38StormCanary(r, fmt.Sprintf("selec c38canary%d_%d", seed, round)); !ok {
				atomic.AddInt64(&unanswered, 1)
				firstProblem.Store("canary after round " + fmt.Sprint(round) + ": " + msg)
				break
			}
		}
	}
	rec.Set("storm_wall_s", time.Since(t0).Seconds())
	rec.Set("storm_sessions", K)
	if wrong > 0 {
		rec.Count("storm.malformed_statement_not_refused", wrong)
	}
	// the closing canaries: failing statements (new and already seen) and succeeding ones
	confirm := ""
	for i, q := range []string{fmt.Sprintf("selec c38final%d from t2", seed), c38StormTexts(seed, 0)[0], "select * from tbl_shard where id = = 1"} {
		if msg, ok := c38StormCanary(r, q); !ok {
			confirm = fmt.Sprintf("canary %d: %s", i, msg)
			break
		}
	}
	if confirm != "" {
		// a second fresh session decides: only two unanswered canaries in a row confirm the hang
		if _, ok := c38StormCanary(r, fmt.Sprintf("selec c38final2_%d from t2", seed)); ok {
			rec.Inconclusive("storm phase: one canary was not served, the next one was: " + confirm)
			confirm = ""
		}
	}
	fp, _ := firstProblem.Load().(string)
	switch {
	case unanswered > 0 && confirm != "":
		rec.Violation("hang:storm/same-malformed", fmt.Sprintf("after %d sessions sent the same never-seen malformed statement at the same moment, a session was not answered within %v (%s), and a fresh, otherwise idle session sending a failing statement is not answered either (%s)", K, c38Watchdog, fp, confirm),
			map[string]interface{}{"first": fp, "confirm": confirm, "sessions": K})
	case confirm != "":
		rec.Violation("hang:storm/canary", fmt.Sprintf("after the rounds of simultaneous malformed statements a fresh session is not served: %s", confirm), map[string]interface{}{"confirm": confirm})
	case unanswered > 0:
		rec.Inconclusive("storm phase: a session got no answer within the watchdog but fresh canaries are served: " + fp)
	}
	return false // replaced by the deferred function
}
