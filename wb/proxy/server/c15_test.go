package server

// C15 — binding parameters preserves their values and cannot change the statement.
//
// Monitor: the real Server/Session (rig R2, loopback TCP) prepares templates with 1-4
// placeholders and executes them with generated binary-protocol values under sql_modes set
// through the real `SET sql_mode=...` path and under the session character sets utf8, gbk,
// big5, sjis and gb18030. The text that reaches the fake backend connection is lexed along the template by
// the independent literal lexer of common_ps_lex_test.go, under the sql_mode and
// character set the proxy put THAT backend connection in. Every placeholder must have
// become exactly one literal token denoting the bound value, followed by the unchanged
// template.

import (
	"encoding/hex"
	"fmt"
	"math"
	"sort"
	"strings"
	"testing"

	kit "github.com/XiaoMi/Gaea/verifkit"
	"github.com/XiaoMi/Gaea/verifkit/mycli"
)

// ---------------------------------------------------------------- case space

type c15Param struct {
	Type     byte     `json:"type"`
	Unsigned bool     `json:"unsigned,omitempty"`
	Null     bool     `json:"null,omitempty"`
	Raw      []byte   `json:"raw,omitempty"`  // inline wire bytes
	Long     [][]byte `json:"long,omitempty"` // chunks sent with COM_STMT_SEND_LONG_DATA (non-nil: no inline value)
	IsLong   bool     `json:"is_long,omitempty"`
	Want     psWant   `json:"want"`
	Class    string   `json:"class"` // generator's value class
}

type c15Case struct {
	Mode    string     `json:"mode"`    // key of c15Modes
	Charset string     `json:"charset"` // utf8 | gbk
	Tpl     int        `json:"tpl"`     // index into c15Templates
	Params  []c15Param `json:"params"`
}

type c15ModeT struct {
	Key, SQL, Class string
	NBE             bool
}

var c15Modes = []c15ModeT{
	{"default", "", "default", false},
	{"strict", "set sql_mode='STRICT_TRANS_TABLES'", "default", false},
	{"nbe", "set sql_mode='NO_BACKSLASH_ESCAPES'", "nbe.string", true},
	{"nbe_list", "set session sql_mode='STRICT_TRANS_TABLES,no_backslash_escapes'", "nbe.string", true},
	{"nbe_sys", "set @@session.sql_mode=\"NO_BACKSLASH_ESCAPES\"", "nbe.string", true},
	{"nbe_ident", "set sql_mode=NO_BACKSLASH_ESCAPES", "nbe.ident", true},
	{"nbe_num", "set sql_mode=1048576", "nbe.numeric", true},
	{"nbe_expr", "set sql_mode=concat(@@sql_mode,',NO_BACKSLASH_ESCAPES')", "nbe.expr", true},
}

// session character sets: utf8 (connection default) and the sets whose trailing bytes can
// be 0x5c; the first two are combined with every sql_mode form in the systematic part
var c15Charsets = []string{"utf8", "gbk", "big5", "sjis", "gb18030"}

func c15Mode(key string) c15ModeT {
	for _, m := range c15Modes {
		if m.Key == key {
			return m
		}
	}
	return c15Modes[0]
}

// Templates as pieces; the prepared text is strings.Join(pieces, "?"). Template 0 is the
// canonical single-placeholder template used for shrinking. No piece after a placeholder
// starts with a quote or an identifier character.
var c15Templates = [][]string{
	{"select * from t1 where a = ", ""},
	{"select * from t1 where a = ", " and b = ", ""},
	{"insert into t1 (a, b, c) values (", ", ", ", ", ")"},
	{"update t1 set a = ", ", b = ", " where c = ", " and d in (", ")"},
	{"select * from t1 where a in (", ",", ") or b<", " limit 1"},
	{"select * from t1 where k = 'it''s' and a = ", " order by a"},
	{"select ", " from t1"},
	{"delete from t1 where a=", " or (b>=", ")"},
}

var c15StrTypes = []byte{mycli.TVarString, mycli.TString, mycli.TVarchar, mycli.TBlob, mycli.TTinyBlob, mycli.TMediumBlob,
	mycli.TLongBlob, mycli.TDecimal, mycli.TNewDecimal, mycli.TEnum, mycli.TSet, mycli.TBit, mycli.TJSON, mycli.TGeometry}

func c15Bytes(tp byte, b []byte, class string) c15Param {
	return c15Param{Type: tp, Raw: mycli.LenEncBytes(b), Want: psWant{Kind: "bytes", Bytes: append([]byte{}, b...)}, Class: class}
}

func c15LongBytes(tp byte, chunks [][]byte, class string) c15Param {
	p := c15Param{Type: tp, IsLong: true, Class: class, Want: psWant{Kind: "bytes", Bytes: []byte{}}}
	for _, ch := range chunks {
		p.Long = append(p.Long, append([]byte{}, ch...))
		p.Want.Bytes = append(p.Want.Bytes, ch...)
	}
	return p
}

func c15Null(tp byte, viaType bool) c15Param {
	if viaType {
		return c15Param{Type: mycli.TNull, Want: psWant{Kind: "null"}, Class: "null.type"}
	}
	return c15Param{Type: tp, Null: true, Want: psWant{Kind: "null"}, Class: "null.bitmap"}
}

// c15Int builds an integer parameter of the given wire type from the raw bit pattern.
func c15Int(tp byte, unsigned bool, bits uint64, class string) c15Param {
	width := map[byte]int{mycli.TTiny: 1, mycli.TShort: 2, mycli.TYear: 2, mycli.TLong: 4, mycli.TInt24: 4, mycli.TLongLong: 8}[tp]
	mask := uint64(math.MaxUint64)
	if width < 8 {
		mask = (uint64(1) << (8 * uint(width))) - 1
	}
	bits &= mask
	var txt string
	if unsigned {
		txt = fmt.Sprintf("%d", bits)
	} else {
		shift := uint(64 - 8*width)
		txt = fmt.Sprintf("%d", int64(bits<<shift)>>shift)
	}
	return c15Param{Type: tp, Unsigned: unsigned, Raw: psLE(width, bits), Want: psWant{Kind: "int", Int: txt}, Class: class}
}

func c15F32(bits uint32, class string) c15Param {
	return c15Param{Type: mycli.TFloat, Raw: psF32(bits), Want: psWant{Kind: "f32", Bits: uint64(bits)}, Class: class}
}

func c15F64(bits uint64, class string) c15Param {
	return c15Param{Type: mycli.TDouble, Raw: psF64(bits), Want: psWant{Kind: "f64", Bits: bits}, Class: class}
}

func c15FloatClass(f float64) string {
	switch {
	case math.IsNaN(f):
		return "nan"
	case math.IsInf(f, 1):
		return "+inf"
	case math.IsInf(f, -1):
		return "-inf"
	}
	return "finite"
}

// c15Date builds DATE (tp TDate/TNewDate) or DATETIME/TIMESTAMP parameters; n is the wire
// payload length. Fields beyond the payload length are not transmitted and therefore zero.
func c15Date(tp byte, n int, t [7]int) c15Param {
	if n < 4 {
		t = [7]int{}
	}
	if n < 7 {
		t[3], t[4], t[5] = 0, 0, 0
	}
	if n < 11 {
		t[6] = 0
	}
	kind := "datetime"
	if tp == mycli.TDate || tp == mycli.TNewDate {
		kind = "date" // the time part of a DATE parameter is discarded by MySQL
	}
	return c15Param{Type: tp, Raw: psDateWire(n, t), Want: psWant{Kind: kind, T: t}, Class: fmt.Sprintf("len%d", n)}
}

func c15Time(n int, neg bool, days, h, m, s, us int) c15Param {
	if n < 8 {
		neg, days, h, m, s = false, 0, 0, 0, 0
	}
	if n < 12 {
		us = 0
	}
	w := psWant{Kind: "time", Neg: neg}
	w.T[3], w.T[4], w.T[5], w.T[6] = days*24+h, m, s, us
	return c15Param{Type: mycli.TTime, Raw: psTimeWire(n, neg, days, h, m, s, us), Want: w, Class: fmt.Sprintf("len%d", n)}
}

var c15Specials = []byte{'\'', '\\', '"', 0x00, 0xbf, 0x81, 0xe5, 0x1a, ';', '?'}

// c15RandBytes draws a byte string biased towards quotes, backslashes, NUL, GBK lead bytes.
func c15RandBytes(r *kit.Rand, maxLen int) []byte {
	n := r.Intn(maxLen + 1)
	b := make([]byte, n)
	for i := range b {
		switch r.Intn(10) {
		case 0, 1, 2, 3:
			b[i] = c15Specials[r.Intn(len(c15Specials))]
		case 4, 5:
			b[i] = byte(r.Intn(256))
		case 6:
			b[i] = byte(0x80 + r.Intn(128))
		default:
			b[i] = "abcXYZ019 _%-,()=#/*"[r.Intn(20)]
		}
	}
	return b
}

func c15IntTypes() []byte {
	return []byte{mycli.TTiny, mycli.TShort, mycli.TYear, mycli.TLong, mycli.TInt24, mycli.TLongLong}
}

// c15ScalarParams is the systematic list of non-string values.
func c15ScalarParams(r *kit.Rand) []c15Param {
	var out []c15Param
	for _, tp := range c15IntTypes() {
		for _, uns := range []bool{false, true} {
			for _, v := range []struct {
				bits  uint64
				class string
			}{{0, "zero"}, {1, "one"}, {math.MaxUint64, "allones"}, {0x7f7f7f7f7f7f7f7f &^ 0, "mixed"}, {0x8000000000000000 | 0x80808080, "signbits"}, {r.Uint64(), "random"}} {
				bits := v.bits
				// extremes of this width: all ones, sign bit only, sign bit clear
				out = append(out, c15Int(tp, uns, bits, v.class))
			}
			w := map[byte]uint{mycli.TTiny: 8, mycli.TShort: 16, mycli.TYear: 16, mycli.TLong: 32, mycli.TInt24: 32, mycli.TLongLong: 64}[tp]
			out = append(out, c15Int(tp, uns, uint64(1)<<(w-1), "min"), c15Int(tp, uns, (uint64(1)<<(w-1))-1, "max"))
		}
	}
	f64s := []float64{0, math.Copysign(0, -1), 1, -1, 0.1, -0.1, 1e20, 1e21, 1e-5, 123456789.125, math.MaxFloat64, -math.MaxFloat64,
		math.SmallestNonzeroFloat64, 2.2250738585072014e-308, 1e300, 1e-300, 9007199254740993, math.Pi, math.NaN(), math.Inf(1), math.Inf(-1)}
	for _, f := range f64s {
		out = append(out, c15F64(math.Float64bits(f), c15FloatClass(f)))
	}
	for k := 0; k < 6; k++ {
		b := r.Uint64()
		if f := math.Float64frombits(b); !math.IsNaN(f) && !math.IsInf(f, 0) {
			out = append(out, c15F64(b, "finite"))
		}
	}
	f32s := []float32{0, float32(math.Copysign(0, -1)), 1, -1, 0.1, 1e20, 1e21, 1e-5, 16777217, math.MaxFloat32, -math.MaxFloat32,
		math.SmallestNonzeroFloat32, 1.17549435e-38, float32(math.NaN()), float32(math.Inf(1)), float32(math.Inf(-1))}
	for _, f := range f32s {
		out = append(out, c15F32(math.Float32bits(f), c15FloatClass(float64(f))))
	}
	for k := 0; k < 6; k++ {
		b := uint32(r.Uint64())
		if f := float64(math.Float32frombits(b)); !math.IsNaN(f) && !math.IsInf(f, 0) {
			out = append(out, c15F32(b, "finite"))
		}
	}
	dts := [][7]int{{0, 0, 0, 0, 0, 0, 0}, {2024, 2, 29, 13, 14, 15, 123456}, {9999, 12, 31, 23, 59, 59, 999999}, {1000, 1, 1, 0, 0, 0, 1},
		{1970, 1, 1, 0, 0, 1, 0}, {2015, 8, 4, 0, 0, 0, 500000}, {1, 1, 1, 1, 1, 1, 100}, {2000, 0, 0, 0, 0, 0, 0}}
	for _, t := range dts {
		for _, n := range []int{0, 4, 7, 11} {
			out = append(out, c15Date(mycli.TDateTime, n, t), c15Date(mycli.TTimestamp, n, t))
			if n != 11 {
				out = append(out, c15Date(mycli.TDate, n, t))
			}
		}
		out = append(out, c15Date(mycli.TNewDate, 4, t))
	}
	for _, x := range []struct {
		neg            bool
		d, h, m, s, us int
	}{{false, 0, 0, 0, 0, 0}, {false, 0, 1, 2, 3, 4}, {true, 0, 1, 2, 3, 4}, {false, 1, 2, 3, 4, 500000}, {true, 34, 22, 59, 59, 0},
		{false, 34, 22, 59, 59, 999999}, {true, 0, 0, 0, 0, 1}, {false, 0, 23, 59, 59, 999999}, {true, 0, 0, 0, 0, 0}} {
		for _, n := range []int{0, 8, 12} {
			out = append(out, c15Time(n, x.neg, x.d, x.h, x.m, x.s, x.us))
		}
	}
	out = append(out, c15Null(mycli.TVarString, false), c15Null(mycli.TLongLong, false), c15Null(mycli.TDouble, false),
		c15Null(mycli.TDateTime, false), c15Null(mycli.TBlob, false), c15Null(0, true))
	return out
}

// c15RandParam draws one parameter of any kind.
func c15RandParam(r *kit.Rand, scalars []c15Param) c15Param {
	switch k := r.Intn(20); {
	case k < 9:
		tp := c15StrTypes[r.Intn(len(c15StrTypes))]
		return c15Bytes(tp, c15RandBytes(r, 12), "rand")
	case k < 10 && r.Chance(1, 6):
		// long values crossing the 1-, 3- and 4-byte length-prefix boundaries
		n := []int{250, 251, 300, 65535, 65536, 70000}[r.Intn(6)]
		b := make([]byte, n)
		fill := c15RandBytes(r, 12)
		if len(fill) == 0 {
			fill = []byte{'x'}
		}
		for i := range b {
			b[i] = fill[i%len(fill)]
		}
		return c15Bytes(mycli.TBlob, b, "long")
	case k < 12:
		nch := 1 + r.Intn(3)
		var chunks [][]byte
		for i := 0; i < nch; i++ {
			chunks = append(chunks, c15RandBytes(r, 8))
		}
		return c15LongBytes(mycli.TBlob, chunks, "longdata")
	default:
		return scalars[r.Intn(len(scalars))]
	}
}

// c15Generate builds the case list of this run: a systematic part (every byte singly and
// pairs around special bytes for every sql_mode form and both character sets; the scalar
// list) and a random part (multi-placeholder templates with mixed values).
func c15Generate(emit func(c15Case)) int {
	seed := kit.Seed()
	r := kit.SubRand(seed, "C15/gen")
	n := 0
	add := func(c c15Case) { n++; emit(c) }
	thorough := kit.Tier() == "thorough"
	scalars := c15ScalarParams(kit.SubRand(seed, "C15/scalars"))
	for _, m := range c15Modes {
		for ci, cs := range c15Charsets {
			if ci >= 2 && m.Key != "default" && m.Key != "nbe" {
				continue
			}
			for _, q := range [][]byte{{0x81, 0x30, 0x81, 0x30}, {0x81, 0x30, 0x81, '\''}, {0x81, 0x30, '\\', 0x30}, {0x81, 0x30, 0x81, '\\'}, {0x81, 0x30, 0x81, 0x30, '\''}, {0xbf, 0x5c, 0x27}, {0xbf, 0x27, 0x27}} {
				add(c15Case{Mode: m.Key, Charset: cs, Tpl: 0, Params: []c15Param{c15Bytes(mycli.TVarString, q, "quad")}})
			}
			for b := 0; b < 256; b++ {
				add(c15Case{Mode: m.Key, Charset: cs, Tpl: 0, Params: []c15Param{c15Bytes(mycli.TVarString, []byte{byte(b)}, "single")}})
			}
			add(c15Case{Mode: m.Key, Charset: cs, Tpl: 0, Params: []c15Param{c15Bytes(mycli.TVarString, nil, "empty")}})
			for _, s := range c15Specials[:7] {
				for b := 0; b < 256; b++ {
					if !thorough && !r.Chance(1, 24) {
						continue
					}
					add(c15Case{Mode: m.Key, Charset: cs, Tpl: 0, Params: []c15Param{c15Bytes(mycli.TVarString, []byte{s, byte(b)}, "pair")}})
					add(c15Case{Mode: m.Key, Charset: cs, Tpl: 0, Params: []c15Param{c15Bytes(mycli.TVarString, []byte{byte(b), s}, "pair")}})
				}
			}
			// triples of the three quoting characters and a GBK lead byte
			quad := []byte{'\'', '\\', '"', 0xbf}
			for _, a := range quad {
				for _, b := range quad {
					for _, c := range quad {
						if !thorough && !r.Chance(1, 4) {
							continue
						}
						add(c15Case{Mode: m.Key, Charset: cs, Tpl: 0, Params: []c15Param{c15Bytes(mycli.TVarString, []byte{a, b, c}, "triple")}})
					}
				}
			}
		}
	}
	// every string type with the quoting characters, as inline value and as long data
	for _, tp := range c15StrTypes {
		for _, m := range []string{"default", "nbe"} {
			add(c15Case{Mode: m, Charset: "utf8", Tpl: 0, Params: []c15Param{c15Bytes(tp, []byte("a'b\\c\"d\x00e"), "types")}})
			add(c15Case{Mode: m, Charset: "utf8", Tpl: 0, Params: []c15Param{c15LongBytes(tp, [][]byte{[]byte("a'b"), []byte("\\c\"d"), {0, 'e'}}, "types.long")}})
		}
	}
	for _, m := range []string{"default", "nbe", "nbe_num"} {
		for _, cs := range []string{"utf8", "gbk"} {
			if m == "nbe_num" && cs == "gbk" {
				continue
			}
			for _, p := range scalars {
				add(c15Case{Mode: m, Charset: cs, Tpl: 0, Params: []c15Param{p}})
			}
		}
	}
	total := kit.N(30000, 600000)
	for n < total {
		tpl := r.Intn(len(c15Templates))
		c := c15Case{Mode: c15Modes[r.Intn(len(c15Modes))].Key, Charset: []string{"utf8", "utf8", "utf8", "gbk", "gbk", "big5", "sjis", "gb18030"}[r.Intn(8)], Tpl: tpl}
		for i := 0; i < len(c15Templates[tpl])-1; i++ {
			c.Params = append(c.Params, c15RandParam(r, scalars))
		}
		add(c)
	}
	return n
}

// ---------------------------------------------------------------- driver

type c15Client struct {
	c     *mycli.Conn
	stmts map[int]uint32 // template -> statement id
	uses  int
}

type c15Runner struct {
	t       *testing.T
	rec     *kit.Rec
	rig     *rig
	clients map[string]*c15Client
	fatal   string
}

func (x *c15Runner) client(mode, cs string) (*c15Client, error) {
	key := mode + "/" + cs
	if cl := x.clients[key]; cl != nil {
		if cl.uses < 20000 {
			return cl, nil
		}
		cl.c.Quit()
		delete(x.clients, key)
	}
	c, err := x.rig.Dial(psUser, psPass, psDB)
	if err != nil {
		return nil, fmt.Errorf("dial: %v", err)
	}
	if sql := c15Mode(mode).SQL; sql != "" {
		rp, err := c.Query1(sql)
		if err != nil {
			return nil, fmt.Errorf("%s: %v", sql, err)
		}
		if rp.Err != nil {
			return nil, fmt.Errorf("%s: refused: %v", sql, rp.Err)
		}
	}
	if cs != "utf8" {
		rp, err := c.Query1("set names " + cs)
		if err != nil || rp.Err != nil {
			return nil, fmt.Errorf("set names %s: %v %v", cs, err, rp)
		}
	}
	cl := &c15Client{c: c, stmts: map[int]uint32{}}
	x.clients[key] = cl
	return cl, nil
}

func (x *c15Runner) drop(mode, cs string) {
	key := mode + "/" + cs
	if cl := x.clients[key]; cl != nil {
		cl.c.Close()
		delete(x.clients, key)
	}
}

// c15Outcome is what one execution produced.
type c15Outcome struct {
	Rejected   string   // error reply of the proxy ("" = executed)
	Execs      []psExec // statements that reached the backend
	HarnessErr string   // transport problem (inconclusive)
}

func (x *c15Runner) run(cs c15Case) c15Outcome {
	var out c15Outcome
	cl, err := x.client(cs.Mode, cs.Charset)
	if err != nil {
		out.HarnessErr = err.Error()
		return out
	}
	cl.uses++
	pieces := c15Templates[cs.Tpl]
	id, ok := cl.stmts[cs.Tpl]
	if !ok {
		st, ep, err := cl.c.Prepare(strings.Join(pieces, "?"))
		if err != nil || ep != nil {
			out.HarnessErr = fmt.Sprintf("prepare: %v %v", err, ep)
			x.drop(cs.Mode, cs.Charset)
			return out
		}
		if int(st.Params) != len(pieces)-1 {
			out.HarnessErr = fmt.Sprintf("prepare reports %d params for %d placeholders", st.Params, len(pieces)-1)
			return out
		}
		id = st.ID
		cl.stmts[cs.Tpl] = id
	}
	params := make([]mycli.Param, len(cs.Params))
	sentLong := false
	for i, p := range cs.Params {
		params[i] = mycli.Param{Type: p.Type, Unsigned: p.Unsigned, Null: p.Null, Raw: p.Raw, LongData: p.IsLong}
		for _, b := range p.Long {
			if err := cl.c.SendLongData(id, uint16(i), b); err != nil {
				out.HarnessErr = "send_long_data: " + err.Error()
				x.drop(cs.Mode, cs.Charset)
				return out
			}
			sentLong = true
		}
	}
	if sentLong {
		if uns, err := psBarrier(cl.c); err != nil || len(uns) > 0 {
			out.HarnessErr = fmt.Sprintf("send_long_data on an open statement was answered: %v %v", uns, err)
			x.drop(cs.Mode, cs.Charset)
			return out
		}
	}
	from := x.rig.B.Len()
	rp, err := cl.c.Execute(id, params)
	if err != nil {
		out.HarnessErr = "execute: " + err.Error()
		x.drop(cs.Mode, cs.Charset)
		return out
	}
	out.Execs = psExecsSince(x.rig, from)
	if rp.Err != nil {
		out.Rejected = rp.Err.Error()
		// isolate the next case from whatever a failed execution left in the statement
		cl.c.StmtClose(id)
		delete(cl.stmts, cs.Tpl)
	}
	return out
}

// c15Judge applies the oracle. clause "" = held; "rejected" = the proxy refused to run it.
func c15Judge(cs c15Case, out c15Outcome) (clause string, idx int, detail string) {
	if out.Rejected != "" && len(out.Execs) == 0 {
		return "rejected", -1, out.Rejected
	}
	if len(out.Execs) != 1 {
		return "exec_count", -1, fmt.Sprintf("%d statements reached the backend for one execute (reply error %q)", len(out.Execs), out.Rejected)
	}
	e := out.Execs[0]
	nbe := false
	if e.HasMode {
		v, ok := psSQLModeNBE(e.SQLMode)
		if !ok {
			return "harness", -1, "sql_mode form not understood by the oracle: " + e.SQLMode
		}
		nbe = v
	}
	cset := e.Charset
	pieces := c15Templates[cs.Tpl]
	toks, failAt, cl := psWalk(pieces, []byte(e.SQL), nbe, cset)
	if cl != "" {
		return cl, failAt, fmt.Sprintf("backend text %q lexed with no_backslash_escapes=%v charset=%s", e.SQL, nbe, cset)
	}
	for i, tk := range toks {
		if ok, why := psTokMatches(tk, cs.Params[i].Want); !ok {
			return why, i, fmt.Sprintf("placeholder %d became %s in %q (no_backslash_escapes=%v charset=%s)", i, psDescribeTok(tk), c15Clip(e.SQL), nbe, cset)
		}
	}
	return "", -1, ""
}

func c15Clip(s string) string {
	if len(s) > 300 {
		return s[:300] + "..."
	}
	return s
}

func (x *c15Runner) fails(cs c15Case) (bool, string, int) {
	out := x.run(cs)
	if out.HarnessErr != "" {
		return false, "", -1
	}
	cl, idx, _ := c15Judge(cs, out)
	if cl == "" || cl == "rejected" || cl == "harness" {
		return false, cl, idx
	}
	return true, cl, idx
}

func c15ByteClass(b byte) string {
	switch {
	case b == '\'':
		return "Q"
	case b == '\\':
		return "B"
	case b == '"':
		return "D"
	case b == 0:
		return "Z"
	case b >= 0x80:
		return "H"
	case b < 0x20 || b == 0x7f:
		return "C"
	case (b >= '0' && b <= '9') || (b >= 'a' && b <= 'z') || (b >= 'A' && b <= 'Z') || b == ' ':
		return "a"
	}
	return "p"
}

func c15TypeName(tp byte) string { return fmt.Sprintf("0x%02x", tp) }

// c15Shrink reduces a failing case to a canonical 1-minimal one and returns its signature:
// clause | value kind | wire type | sql_mode class | charset | value class.
func (x *c15Runner) shrink(cs c15Case, clause string, idx int) (string, c15Case) {
	cur := cs
	multi := false
	// 1. one parameter in the canonical template
	found := false
	order := []int{}
	if idx >= 0 && idx < len(cs.Params) {
		order = append(order, idx)
	}
	for i := range cs.Params {
		if i != idx {
			order = append(order, i)
		}
	}
	for _, i := range order {
		c := c15Case{Mode: cs.Mode, Charset: cs.Charset, Tpl: 0, Params: []c15Param{cs.Params[i]}}
		if f, cl, _ := x.fails(c); f {
			cur, clause, found = c, cl, true
			break
		}
	}
	if !found {
		multi = true
	}
	try := func(c c15Case) bool {
		if f, cl, _ := x.fails(c); f {
			cur, clause = c, cl
			return true
		}
		return false
	}
	// 2. sql_mode
	modeClass := c15Mode(cur.Mode).Class
	if cur.Mode != "default" {
		c := cur
		c.Mode = "default"
		if try(c) {
			modeClass = "any"
		}
	} else {
		modeClass = "any"
	}
	// 3. charset
	csClass := "any"
	if cur.Charset != "utf8" {
		c := cur
		c.Charset = "utf8"
		if !try(c) {
			csClass = cur.Charset
		}
	}
	if multi {
		kinds := []string{}
		for _, p := range cur.Params {
			kinds = append(kinds, p.Want.Kind+":"+p.Class)
		}
		sort.Strings(kinds)
		return fmt.Sprintf("%s|multi|%s|mode=%s|cs=%s", clause, strings.Join(kinds, ","), modeClass, csClass), cur
	}
	p := cur.Params[0]
	// 4. long data -> inline
	via := "inline"
	if p.IsLong {
		via = "long"
		c := cur
		c.Params = []c15Param{c15Bytes(p.Type, p.Want.Bytes, p.Class)}
		if try(c) {
			via = "inline"
		}
	}
	p = cur.Params[0]
	tname := c15TypeName(p.Type)
	valClass := p.Class
	if p.Want.Kind == "bytes" {
		// 5. wire type
		mk := func(tp byte, b []byte) c15Case {
			c := cur
			if via == "long" {
				c.Params = []c15Param{c15LongBytes(tp, [][]byte{b}, p.Class)}
			} else {
				c.Params = []c15Param{c15Bytes(tp, b, p.Class)}
			}
			return c
		}
		if p.Type != mycli.TVarString {
			if try(mk(mycli.TVarString, p.Want.Bytes)) {
				tname = "str"
			}
		} else {
			tname = "str"
		}
		// 6. value: halve, then remove one byte at a time
		val := append([]byte{}, cur.Params[0].Want.Bytes...)
		tp := cur.Params[0].Type
		// fast path: one of its bytes alone, then one adjacent pair alone (quoting characters first)
		quick := false
		seen := map[string]bool{}
		var singles [][]byte
		for _, pref := range []byte{'\'', '\\'} {
			for _, b := range val {
				if b == pref && !seen[string([]byte{b})] {
					seen[string([]byte{b})] = true
					singles = append(singles, []byte{b})
				}
			}
		}
		for _, b := range val {
			if !seen[string([]byte{b})] && len(singles) < 24 {
				seen[string([]byte{b})] = true
				singles = append(singles, []byte{b})
			}
		}
		if len(val) > 1 {
			for _, c := range singles {
				if try(mk(tp, c)) {
					val, quick = c, true
					break
				}
			}
		}
		for i := 0; !quick && len(val) > 2 && i+1 < len(val) && i < 24; i++ {
			c := []byte{val[i], val[i+1]}
			if (c[1] == '\'' || c[1] == '\\') && !seen[string(c)] {
				seen[string(c)] = true
				if try(mk(tp, c)) {
					val, quick = c, true
				}
			}
		}
		for len(val) > 16 {
			h := len(val) / 2
			if try(mk(tp, val[:h])) {
				val = val[:h]
			} else if try(mk(tp, val[h:])) {
				val = val[h:]
			} else {
				break
			}
		}
		if len(val) <= 64 {
			for changed := true; changed; {
				changed = false
				for i := 0; i < len(val); i++ {
					v2 := append(append([]byte{}, val[:i]...), val[i+1:]...)
					if try(mk(tp, v2)) {
						val = v2
						changed = true
						break
					}
				}
				// two adjacent bytes at once (a multi-byte character keeps the parity of what follows)
				for i := 0; !changed && i+1 < len(val); i++ {
					v2 := append(append([]byte{}, val[:i]...), val[i+2:]...)
					if try(mk(tp, v2)) {
						val = v2
						changed = true
					}
				}
			}
			valClass = ""
			for _, b := range val {
				valClass += c15ByteClass(b)
			}
			if valClass == "" {
				valClass = "empty"
			}
		} else {
			valClass = "long"
		}
	}
	return fmt.Sprintf("%s|%s|type=%s|%s|mode=%s|cs=%s|val=%s", clause, p.Want.Kind, tname, via, modeClass, csClass, valClass), cur
}

func (x *c15Runner) one(cs c15Case) {
	x.rec.Eval(1)
	out := x.run(cs)
	if out.HarnessErr != "" {
		x.rec.Count("harness_errors", 1)
		if x.fatal == "" {
			x.fatal = out.HarnessErr
		}
		return
	}
	clause, idx, detail := c15Judge(cs, out)
	switch clause {
	case "harness":
		x.rec.Count("harness_errors", 1)
		if x.fatal == "" {
			x.fatal = detail
		}
		return
	case "rejected":
		x.rec.Count("rejected", 1)
		for _, p := range cs.Params {
			x.rec.Count("rejected.kind."+p.Want.Kind+"."+p.Class, 1)
		}
		return
	}
	x.rec.Count("executed", 1)
	e := psExec{}
	if len(out.Execs) > 0 {
		e = out.Execs[0]
	}
	if nbe, _ := psSQLModeNBE(e.SQLMode); nbe && e.HasMode {
		x.rec.Count("executed.backend_no_backslash_escapes", 1)
	}
	x.rec.Count("executed.backend_charset."+e.Charset, 1)
	for _, p := range cs.Params {
		key := p.Want.Kind + "/" + p.Class
		if p.Want.Kind == "bytes" && len(p.Want.Bytes) <= 2 {
			key += "/" + hex.EncodeToString(p.Want.Bytes)
		}
		x.rec.Nontrivial(c15Mode(cs.Mode).Class + "/" + cs.Charset + "/" + key)
		x.rec.Count("params."+p.Want.Kind, 1)
	}
	if clause == "" {
		return
	}
	x.rec.Count("refuted."+clause, 1)
	sig, min := x.shrink(cs, clause, idx)
	x.rec.Violation(sig, detail, map[string]interface{}{"minimal": min, "original": cs})
}

func TestVerif_C15(t *testing.T) {
	rec := kit.Start("C15", "exploration",
		"single-step cases = (sql_mode form set via SET, session charset utf8|gbk|big5|sjis|gb18030, template with 1-4 placeholders, binary-protocol values); systematic: every byte singly, pairs around quote/backslash/NUL/GBK lead bytes, int extremes of every width and sign, float specials, dates/times of every wire length, NULLs, long data; random multi-placeholder mixes; multi-step shapes: long data + refused execute + good execute, typed execute (+re-bind with other types) + other packets of assorted sizes + re-execute with new-params-bound=0. distinct = (sql_mode class, charset, value kind/class[/bytes])")
	defer rec.Finish(t)
	rec.Assume("the backend lexes statements as MySQL 5.7/8.0 does (sql_lex.cc get_text / number states) under the sql_mode and character_set_client the proxy set on that backend connection; the backend's global sql_mode does not contain NO_BACKSLASH_ESCAPES")
	rec.Assume("FLOAT values are compared after parsing the literal to 32-bit precision (shortest round-trip text), DOUBLE to 64-bit")
	rec.Assume("a value the proxy refuses with an error reply is counted (rejected.*), not judged: the property speaks about what is run")
	r := psRigStart(t)
	defer r.Close()
	x := &c15Runner{t: t, rec: rec, rig: r, clients: map[string]*c15Client{}}
	defer func() {
		for _, cl := range x.clients {
			cl.c.Quit()
		}
	}()
	if p := kit.ReplayPath(); p != "" {
		var doc struct {
			Minimal  c15Case `json:"minimal"`
			Original c15Case `json:"original"`
			Seq      *c15Seq `json:"seq"`
			SeqOrig  *c15Seq `json:"seq_original"`
		}
		if err := kit.LoadReplay(p, &doc); err != nil {
			t.Fatal(err)
		}
		for _, sq := range []*c15Seq{doc.Seq, doc.SeqOrig} {
			if sq != nil {
				x.oneSeq(*sq)
				rec.Sample(map[string]interface{}{"shape": sq.Shape, "refuse": sq.Refuse, "between": sq.Between})
			}
		}
		for _, c := range []c15Case{doc.Minimal, doc.Original} {
			if len(c.Params) > 0 {
				x.one(c)
				rec.Sample(c)
			}
		}
		rec.Nontrivial("replay-a")
		rec.Nontrivial("replay-b")
		return
	}
	i := -1
	stop := false
	ncases := c15Generate(func(cs c15Case) {
		i++
		if stop {
			return
		}
		x.one(cs)
		if i%997 == 0 {
			rec.Sample(map[string]interface{}{"mode": cs.Mode, "charset": cs.Charset, "template": strings.Join(c15Templates[cs.Tpl], "?"), "params": c15SampleParams(cs.Params)})
		}
		if i%2000 == 1999 {
			psTrimEvents(r)
		}
		if rec.CounterValue("harness_errors") > 20 {
			stop = true
		}
	})
	// multi-step shapes (see c15_seq_test.go)
	sr := kit.SubRand(kit.Seed(), "C15/seq")
	nseq := kit.N(2500, 40000)
	for k := 0; k < nseq && !stop; k++ {
		sq := c15GenSeq(sr)
		x.oneSeq(sq)
		if k%499 == 0 {
			rec.Sample(map[string]interface{}{"shape": sq.Shape, "refuse": sq.Refuse, "mode": sq.Mode, "charset": sq.Charset, "template": strings.Join(c15Templates[sq.Tpl], "?"),
				"rebind": sq.Mid != nil, "between": sq.Between, "final": c15SampleParams(sq.Final)})
		}
		if k%1000 == 999 {
			psTrimEvents(r)
		}
		if rec.CounterValue("harness_errors") > 20 {
			stop = true
		}
	}
	ncases += nseq
	rec.Set("cases_generated", ncases)
	if rec.CounterValue("seq.refused") == 0 || rec.CounterValue("seq.retypes") == 0 {
		rec.Inconclusive("no multi-step shape (refused execute / bound=0 re-execute) was played")
	}
	if x.fatal != "" && rec.CounterValue("harness_errors") > 0 {
		rec.Inconclusive(fmt.Sprintf("%d harness errors, first: %s", rec.CounterValue("harness_errors"), x.fatal))
	}
	if rec.CounterValue("executed") < int64(ncases)/2 {
		rec.Inconclusive(fmt.Sprintf("only %d of %d cases were executed by the proxy (rest refused)", rec.CounterValue("executed"), ncases))
	}
	if rec.CounterValue("executed.backend_no_backslash_escapes") == 0 {
		rec.Inconclusive("no statement reached a backend connection that had been put into NO_BACKSLASH_ESCAPES")
	}
	for _, cs := range c15Charsets {
		if rec.CounterValue("executed.backend_charset."+cs) == 0 {
			rec.Inconclusive("no statement reached a backend connection with character set " + cs)
		}
	}
}

func c15SampleParams(ps []c15Param) []map[string]interface{} {
	var out []map[string]interface{}
	for _, p := range ps {
		m := map[string]interface{}{"type": c15TypeName(p.Type), "kind": p.Want.Kind, "class": p.Class}
		if p.Want.Kind == "bytes" {
			b := p.Want.Bytes
			if len(b) > 32 {
				b = b[:32]
			}
			m["bytes_hex"] = hex.EncodeToString(b)
			m["len"] = len(p.Want.Bytes)
		}
		out = append(out, m)
	}
	return out
}
