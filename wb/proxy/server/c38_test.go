package server

// C38 — malformed client input never crashes the proxy (survival monitor).
//
// Rig R2: a real Manager + Server whose accept loop runs the REAL Server.onConn (newSession ->
// Handshake -> Session.Run with the production recover()s) on loopback TCP; backends are the
// fake pools with a ledger. Hostile clients are hand-driven raw sockets. Every input is
// written to the kit PreLog BEFORE it is sent; if this process dies the runner reports a
// VIOLATION with the last logged input.
//
// Oracle, per hostile frame: the connection answers (any packet) or is closed; a frame that
// got neither within the watchdog is re-run alone and, if it again hangs, is a violation.
// Per batch: every hostile session has ended once its client is gone, a canary session on the
// same Manager gets byte-identical answers before and after, a fresh client can still log in,
// no fake backend connection stays checked out, goroutine count is back to baseline (+slack).
// A panic that a production recover() turns into an error or a closed connection is allowed.

import (
	"bytes"
	"crypto/sha256"
	"encoding/binary"
	"encoding/hex"
	"encoding/json"
	"fmt"
	"io"
	"net"
	"runtime"
	"sort"
	"strconv"
	"strings"
	"testing"
	"time"

	"github.com/XiaoMi/Gaea/models"
	uber_atomic "go.uber.org/atomic"
	kit "github.com/XiaoMi/Gaea/verifkit"
	"github.com/XiaoMi/Gaea/verifkit/mycli"
)

const (
	c38ProbeCmd   = 0xF7 // an unassigned command byte: the server must answer "command 247 not supported now"
	c38ShortWait  = 2 * time.Second  // after this the client stops waiting for an answer and half-closes (never decides a verdict)
	c38Watchdog   = 30 * time.Second // generous: answer-or-close; firing twice (second time alone) is a hang
	c38BigWait    = 150 * time.Second // for commands of 16 MiB: allocation and copying of that size is slow in this sandbox
	c38KnownWait  = 1500 * time.Millisecond // only for inputs that match an already established hang signature
	c38KnownTries = 2                // how often an established hang is re-observed before matching inputs are skipped
	c38Slack      = 12
	c38CanaryUser = "ns1_rws"
	c38SmallMaxConns = 8
)

var c38ProbeMark = []byte("command 247 not supported")

func c38Namespaces() []*models.Namespace {
	ns1 := rigBasicNamespace("ns1")
	ns2 := rigBasicNamespace("ns2")
	ns2.SetForKeepSession = true
	ns3 := rigBasicNamespace("ns3")
	ns3.MaxClientConnections = c38SmallMaxConns // a leaked client-connection slot locks other clients out quickly
	return []*models.Namespace{ns1, ns2, ns3}
}

// ---------------------------------------------------------------- building handshake bytes

func c38Sha2(salt []byte, password string) []byte {
	if password == "" {
		return nil
	}
	h1 := sha256.Sum256([]byte(password))
	h2 := sha256.Sum256(h1[:])
	h := sha256.New()
	h.Write(h2[:])
	h.Write(salt)
	h3 := h.Sum(nil)
	out := make([]byte, 32)
	for i := range out {
		out[i] = h1[i] ^ h3[i]
	}
	return out
}

func c38BuildHS(h *c38HS, salt []byte) []byte {
	if h.RawWhole != nil {
		return h.RawWhole
	}
	var b bytes.Buffer
	b.Write(c38U32(h.Cap))
	b.Write(c38U32(h.MaxPkt))
	b.WriteByte(byte(h.Coll))
	b.Write(make([]byte, h.Filler))
	b.WriteString(h.User)
	if h.UserNUL {
		b.WriteByte(0)
	}
	var auth []byte
	switch {
	case strings.HasPrefix(h.Auth, "native:"):
		auth = mycli.NativePassword(salt, h.Auth[7:])
	case strings.HasPrefix(h.Auth, "sha2:"):
		auth = c38Sha2(salt, h.Auth[5:])
	case strings.HasPrefix(h.Auth, "hex:"):
		auth, _ = hex.DecodeString(h.Auth[4:])
	case strings.HasPrefix(h.Auth, "zero:"):
		n, _ := strconv.Atoi(h.Auth[5:])
		auth = make([]byte, n)
	}
	switch {
	case h.AuthLen == "byte":
		b.WriteByte(byte(len(auth)))
	case strings.HasPrefix(h.AuthLen, "byte:"):
		n, _ := strconv.Atoi(h.AuthLen[5:])
		b.WriteByte(byte(n))
	case strings.HasPrefix(h.AuthLen, "lenenc:"):
		p, _ := hex.DecodeString(h.AuthLen[7:])
		b.Write(p)
	}
	b.Write(auth)
	if h.AuthLen == "nul" {
		b.WriteByte(0)
	}
	if h.HasDB {
		b.WriteString(h.DB)
		if h.DBNUL {
			b.WriteByte(0)
		}
	}
	if h.HasPlug {
		b.WriteString(h.Plugin)
		if h.PlugNUL {
			b.WriteByte(0)
		}
	}
	b.Write(h.Tail)
	out := b.Bytes()
	for i, p := range h.FlipPos {
		if p < len(out) {
			out[p] ^= byte(h.FlipXor[i])
		}
	}
	if h.Trunc >= 0 && h.Trunc < len(out) {
		out = out[:h.Trunc]
	}
	return out
}

// ---------------------------------------------------------------- raw socket helpers

func c38WriteFrame(c net.Conn, seq int, hdrLen int, payload []byte) error {
	n := len(payload)
	if hdrLen >= 0 {
		n = hdrLen
	}
	buf := make([]byte, 0, 4+len(payload))
	buf = append(buf, byte(n), byte(n>>8), byte(n>>16), byte(seq))
	buf = append(buf, payload...)
	c.SetWriteDeadline(time.Now().Add(c38Watchdog))
	_, err := c.Write(buf)
	return err
}

// c38ReadFrame reads one frame ignoring sequence ids. kind: "frame" | "closed" | "timeout".
func c38ReadFrame(c net.Conn, wait time.Duration) (payload []byte, kind string) {
	c.SetReadDeadline(time.Now().Add(wait))
	hdr := make([]byte, 4)
	if _, err := io.ReadFull(c, hdr); err != nil {
		if ne, ok := err.(net.Error); ok && ne.Timeout() {
			return nil, "timeout"
		}
		return nil, "closed"
	}
	n := int(hdr[0]) | int(hdr[1])<<8 | int(hdr[2])<<16
	buf := make([]byte, n)
	if _, err := io.ReadFull(c, buf); err != nil {
		if ne, ok := err.(net.Error); ok && ne.Timeout() {
			return nil, "timeout"
		}
		return nil, "closed"
	}
	return buf, "frame"
}

func c38FirstKind(p []byte) string {
	if len(p) == 0 {
		return "empty"
	}
	switch p[0] {
	case 0x00:
		return "ok"
	case 0xff:
		if len(p) >= 3 {
			return fmt.Sprintf("err%d", binary.LittleEndian.Uint16(p[1:]))
		}
		return "err"
	case 0xfe:
		if len(p) < 9 {
			return "eof"
		}
	}
	return "data"
}

// c38Drain: after the client has nothing more to say it shuts down its write side; the server
// must then close. Returns "closed" or "hang".
func c38Drain(c net.Conn, wait time.Duration) string {
	if tc, ok := c.(*net.TCPConn); ok {
		tc.CloseWrite()
	}
	deadline := time.Now().Add(wait)
	for {
		left := time.Until(deadline)
		if left <= 0 {
			return "hang"
		}
		_, k := c38ReadFrame(c, left)
		if k == "closed" {
			return "closed"
		}
		if k == "timeout" {
			return "hang"
		}
	}
}

// ---------------------------------------------------------------- the driver

type c38Outcome struct {
	Frame   int    `json:"frame"`
	Class   string `json:"class"`
	Result  string `json:"result"` // reply kind of the first answer frame | closed | noreply-alive | hang
	Hang    bool   `json:"hang"`
	Sig     string `json:"sig,omitempty"` // established hang signature this frame matched (short watchdog used)
	Problem string `json:"problem,omitempty"`
}

type c38Driver struct {
	r       *rig
	pre     *kit.PreLog
	rec     *kit.Rec
	wait    time.Duration // watchdog for "answer or close"
	inputs  int64
	setupKO int
	// hang signatures established in this run (confirmed with the generous watchdog) or listed
	// as known findings: sig -> times observed. Inputs matching one are watched briefly and,
	// after c38KnownTries observations, skipped (each hang leaves a spinning session behind).
	established map[string]int
	onHang      func()
	skipped     int64
	filler      []byte
}

// ---------------------------------------------------------------- hang signatures

var c38FeatureOrder = []string{"bracket", "bslash", "comment", "ctl", "high", "long", "multi", "quote"}

// c38QueryFeatures: lexical feature classes of a COM_QUERY text.
func c38QueryFeatures(q []byte) map[string]bool {
	f := map[string]bool{}
	for i, b := range q {
		switch {
		case b == ';' && i < len(q)-1:
			f["multi"] = true
		case b == '[' || b == ']':
			f["bracket"] = true
		case b == '\\':
			f["bslash"] = true
		case b == '\'' || b == '"' || b == '`':
			f["quote"] = true
		case b >= 0x80:
			f["high"] = true
		case b == 0x7f || (b < 0x20 && !(b >= 9 && b <= 13)):
			f["ctl"] = true
		case b == '#' || (b == '/' && i+1 < len(q) && q[i+1] == '*') || (b == '-' && i+1 < len(q) && q[i+1] == '-'):
			f["comment"] = true
		}
	}
	if len(q) > 4096 {
		f["long"] = true
	}
	return f
}

// c38Neutralise removes one feature class from a query text.
func c38Neutralise(q []byte, feat string) []byte {
	out := append([]byte{}, q...)
	if feat == "long" {
		if len(out) > 4096 {
			out = out[:4096]
		}
		return out
	}
	for i, b := range out {
		switch feat {
		case "multi":
			if b == ';' {
				out[i] = ' '
			}
		case "bracket":
			if b == '[' || b == ']' {
				out[i] = 'x'
			}
		case "bslash":
			if b == '\\' {
				out[i] = 'x'
			}
		case "quote":
			if b == '\'' || b == '"' || b == '`' {
				out[i] = ' '
			}
		case "high":
			if b >= 0x80 {
				out[i] = 'x'
			}
		case "ctl":
			if b == 0x7f || (b < 0x20 && !(b >= 9 && b <= 13)) {
				out[i] = 'x'
			}
		case "comment":
			if b == '#' || b == '*' || b == '-' {
				out[i] = ' '
			}
		}
	}
	return out
}

func c38FeatSig(f map[string]bool) string {
	var on []string
	for _, n := range c38FeatureOrder {
		if f[n] {
			on = append(on, n)
		}
	}
	if len(on) == 0 {
		return "hang:cmd/query:plain"
	}
	return "hang:cmd/query:" + strings.Join(on, "+")
}

func c38IsQuery(f *c38Frame) bool {
	return f.HS == nil && len(f.Payload) > 0 && f.Payload[0] == mycli.ComQuery
}

// matchEstablished returns the established/known hang signature (if any) whose feature set is
// contained in the frame's.
func (d *c38Driver) matchEstablished(f *c38Frame) string {
	if !c38IsQuery(f) {
		sig := "hang:" + f.Class
		if _, ok := d.established[sig]; ok || d.rec.IsKnown(sig) {
			return sig
		}
		return ""
	}
	feats := c38QueryFeatures(f.Payload[1:])
	var on []string
	for _, n := range c38FeatureOrder {
		if feats[n] {
			on = append(on, n)
		}
	}
	best := ""
	for m := 0; m < 1<<uint(len(on)); m++ {
		sub := map[string]bool{}
		for i, n := range on {
			if m&(1<<uint(i)) != 0 {
				sub[n] = true
			}
		}
		sig := c38FeatSig(sub)
		if _, ok := d.established[sig]; ok || d.rec.IsKnown(sig) {
			if best == "" || len(sig) < len(best) {
				best = sig
			}
		}
	}
	return best
}

func (d *c38Driver) logFrame(cs *c38Case, fi int) {
	f := cs.Frames[fi]
	p := f.Payload
	if len(p) > 96 {
		p = p[:96]
	}
	line, _ := json.Marshal(map[string]interface{}{"group": cs.Group, "idx": cs.Idx, "frame": fi, "class": f.Class, "setup": cs.Setup, "user": cs.User,
		"seq": f.Seq, "hdr_len": f.HdrLen, "payload_len": len(f.Payload), "big": f.Big, "cont": len(f.Cont), "complete": f.Complete, "payload_head_hex": hex.EncodeToString(p), "hs": f.HS})
	d.pre.Write(string(line))
}

// open connects and performs the well-formed prelude of a cmd case.
func (d *c38Driver) open(cs *c38Case) (net.Conn, error) {
	nc, err := d.r.DialRaw()
	if err != nil {
		return nil, err
	}
	pw := "pw_rw"
	user := cs.User
	if user == "" {
		user = "ns1_rw"
	}
	db := "db"
	if cs.DB == "<none>" {
		db = ""
	} else if cs.DB != "" {
		db = cs.DB // the handshake's database name is stored unchecked by the proxy
	}
	c, err := mycli.Handshake(nc, mycli.Options{User: user, Password: pw, DB: db, Timeout: c38Watchdog})
	if err != nil {
		nc.Close()
		return nil, fmt.Errorf("prelude handshake: %v", err)
	}
	if strings.Contains(cs.Setup, "prep") {
		for i, q := range c38PrepSet {
			if i > 0 && strings.Contains(cs.Setup, "prep1") {
				break // only statement 0 is needed by this group
			}
			st, ep, err := c.Prepare(q)
			if err != nil || ep != nil || int(st.ID) != i || int(st.Params) != c38PrepParams[i] {
				nc.Close()
				return nil, fmt.Errorf("prelude prepare %d: %v %v %+v", i, err, ep, st)
			}
		}
	}
	if strings.Contains(cs.Setup, "noac") {
		if _, err := c.Query("set autocommit=0"); err != nil {
			nc.Close()
			return nil, fmt.Errorf("prelude autocommit: %v", err)
		}
	}
	if strings.Contains(cs.Setup, "tx") {
		for _, q := range []string{"begin", "update tbl_shard set a=1 where id in (1,2,3)", "insert into t2 values (1)"} {
			rs, err := c.Query(q)
			if err != nil || rs[len(rs)-1].Err != nil {
				nc.Close()
				return nil, fmt.Errorf("prelude tx %q: %v", q, err)
			}
		}
	}
	return nc, nil
}

// writeCmd writes a command frame, its filler (Big) and its continuation frames (Cont).
func (d *c38Driver) writeCmd(nc net.Conn, f *c38Frame) error {
	if f.Big == 0 && len(f.Cont) == 0 {
		return c38WriteFrame(nc, f.Seq, f.HdrLen, f.Payload)
	}
	n := len(f.Payload) + f.Big
	if f.HdrLen >= 0 {
		n = f.HdrLen
	}
	nc.SetWriteDeadline(time.Now().Add(c38BigWait))
	if _, err := nc.Write(append([]byte{byte(n), byte(n >> 8), byte(n >> 16), byte(f.Seq)}, f.Payload...)); err != nil {
		return err
	}
	if f.Big > 0 {
		if len(d.filler) < f.Big {
			d.filler = bytes.Repeat([]byte{'a'}, f.Big) // one buffer for the whole run (fresh pages are expensive here)
		}
		if _, err := nc.Write(d.filler[:f.Big]); err != nil {
			return err
		}
	}
	for i, c := range f.Cont {
		if err := c38WriteFrame(nc, f.Seq+1+i, -1, c); err != nil {
			return err
		}
	}
	return nil
}

func (d *c38Driver) noteHang(est string) {
	if est != "" {
		d.established[est]++
	}
	if d.onHang != nil {
		d.onHang()
	}
}

// run sends the frames of cs from index `from` on; every frame is sent (reconnecting when the
// server closed the connection). only >= 0 restricts to a single frame.
func (d *c38Driver) run(cs *c38Case, only int) []c38Outcome {
	var outs []c38Outcome
	if cs.Kind == "hs" {
		return d.runHS(cs)
	}
	var nc net.Conn
	defer func() {
		if nc != nil {
			nc.Close()
		}
	}()
	for fi := range cs.Frames {
		if only >= 0 && fi != only {
			continue
		}
		f := cs.Frames[fi]
		est := d.matchEstablished(&f)
		if est != "" && d.established[est] >= c38KnownTries {
			d.skipped++
			outs = append(outs, c38Outcome{Frame: fi, Class: f.Class, Result: "skipped-established-hang", Sig: est})
			continue
		}
		dwait := d.wait
		if est != "" && c38KnownWait < dwait {
			dwait = c38KnownWait
		}
		if nc == nil {
			var err error
			nc, err = d.open(cs)
			if err != nil {
				d.setupKO++
				outs = append(outs, c38Outcome{Frame: fi, Class: f.Class, Result: "prelude-failed", Problem: err.Error()})
				nc = nil
				return outs
			}
		}
		d.logFrame(cs, fi)
		d.inputs++
		o := c38Outcome{Frame: fi, Class: f.Class}
		if err := d.writeCmd(nc, &f); err != nil {
			o.Result = "closed"
			outs = append(outs, o)
			nc.Close()
			nc = nil
			continue
		}
		preFirst := ""
		if f.Complete && !f.NoReply {
			// every announced byte of this command has been sent and the protocol demands an answer:
			// wait for it as a client would, WITHOUT sending anything else and without half-closing
			// (a server that still waits for more input now is not waiting for anything announced)
			cw := d.wait
			if f.Big > 0 {
				cw = c38BigWait
			}
			p, k := c38ReadFrame(nc, cw)
			if k == "closed" {
				o.Result = "closed"
				outs = append(outs, o)
				nc.Close()
				nc = nil
				continue
			}
			if k == "timeout" {
				o.Result, o.Hang = "hang", true
				if c38Drain(nc, c38ShortWait) == "hang" {
					d.noteHang("") // and the session does not even end when the client leaves
				}
				outs = append(outs, o)
				nc.Close()
				nc = nil
				continue
			}
			preFirst = c38FirstKind(p)
			if preFirst == "data" {
				preFirst = "" // a result set: let the generic reader below consume the rest
			}
		}
		if f.Half {
			if c38Drain(nc, dwait) == "hang" {
				o.Result, o.Hang, o.Sig = "hang", true, est
				d.noteHang(est)
			} else {
				o.Result = "closed"
			}
			outs = append(outs, o)
			nc.Close()
			nc = nil
			continue
		}
		// the probe: an unassigned command; its error reply is recognisable
		probe, mark := byte(c38ProbeCmd), c38ProbeMark
		if len(f.Payload) > 0 && f.Payload[0] == probe {
			probe, mark = c38ProbeCmd-1, []byte(fmt.Sprintf("command %d not supported", c38ProbeCmd-1))
		}
		if err := c38WriteFrame(nc, 0, -1, []byte{probe}); err != nil {
			o.Result = "closed"
			outs = append(outs, o)
			nc.Close()
			nc = nil
			continue
		}
		first := preFirst
		wait := c38ShortWait
		if d.wait < wait {
			wait = d.wait
		}
		closed := false
		for {
			p, k := c38ReadFrame(nc, wait)
			if k == "frame" {
				if len(p) > 0 && p[0] == 0xff && bytes.Contains(p, mark) {
					if first == "" {
						first = "noreply"
					}
					break
				}
				if first == "" {
					first = c38FirstKind(p)
				}
				continue
			}
			if k == "closed" {
				closed = true
				break
			}
			// timeout: the server may legitimately be waiting for bytes a lying header announced;
			// the client gives up its write side, after which the server must close.
			if c38Drain(nc, dwait) == "hang" {
				o.Hang, o.Sig = true, est
				d.noteHang(est)
			}
			closed = true
			break
		}
		switch {
		case o.Hang:
			o.Result = "hang"
		case closed && first == "":
			o.Result = "closed"
		case closed:
			o.Result = first + "+closed"
		default:
			o.Result = first
		}
		outs = append(outs, o)
		if closed {
			nc.Close()
			nc = nil
		}
	}
	return outs
}

func (d *c38Driver) runHS(cs *c38Case) []c38Outcome {
	var outs []c38Outcome
	nc, err := d.r.DialRaw()
	if err != nil {
		return []c38Outcome{{Class: cs.Frames[0].Class, Result: "prelude-failed", Problem: err.Error()}}
	}
	defer nc.Close()
	c := mycli.NewRaw(nc, c38Watchdog)
	if err := c.ReadHandshake(); err != nil {
		d.setupKO++
		return []c38Outcome{{Class: cs.Frames[0].Class, Result: "prelude-failed", Problem: "server greeting: " + err.Error()}}
	}
	wait := c38ShortWait
	if d.wait < wait {
		wait = d.wait
	}
	for fi, f := range cs.Frames {
		payload := f.Payload
		if f.HS != nil {
			payload = c38BuildHS(f.HS, c.Salt)
		}
		d.logFrame(cs, fi)
		d.inputs++
		o := c38Outcome{Frame: fi, Class: f.Class}
		if err := c38WriteFrame(nc, f.Seq, f.HdrLen, payload); err != nil {
			o.Result = "closed"
			outs = append(outs, o)
			return outs
		}
		if f.Half {
			if c38Drain(nc, d.wait) == "hang" {
				o.Result, o.Hang = "hang", true
				d.noteHang("")
			} else {
				o.Result = "closed"
			}
			outs = append(outs, o)
			return outs
		}
		p, k := c38ReadFrame(nc, wait)
		switch k {
		case "closed":
			o.Result = "closed"
			outs = append(outs, o)
			return outs
		case "timeout":
			if c38Drain(nc, d.wait) == "hang" {
				o.Result, o.Hang = "hang", true
				d.noteHang("")
			} else {
				o.Result = "waited+closed"
			}
			outs = append(outs, o)
			return outs
		}
		o.Result = c38FirstKind(p)
		outs = append(outs, o)
		if len(p) > 0 && p[0] == 0xfe && fi+1 < len(cs.Frames) {
			continue // auth switch request: the next frame is the client's answer
		}
		if len(p) > 0 && p[0] == 0x00 {
			// logged in: the session must be a working one
			if err := c38WriteFrame(nc, 0, -1, []byte{c38ProbeCmd}); err == nil {
				q, k2 := c38ReadFrame(nc, d.wait)
				if k2 == "timeout" {
					outs[len(outs)-1].Hang = true
					outs[len(outs)-1].Result = "ok-then-hang"
					d.noteHang("")
				} else if k2 == "frame" && !bytes.Contains(q, c38ProbeMark) {
					outs[len(outs)-1].Result = "ok-then-" + c38FirstKind(q)
				}
			}
			return outs
		}
		break
	}
	// whatever is left: the client leaves; the server must close its side
	if c38Drain(nc, d.wait) == "hang" {
		outs[len(outs)-1].Hang = true
		outs[len(outs)-1].Result += "+hang"
		d.noteHang("")
	}
	return outs
}

// ---------------------------------------------------------------- canary and batch checks

type c38Canary struct {
	c  *mycli.Conn
	st *mycli.Stmt
}

func c38OpenCanary(r *rig) (*c38Canary, error) {
	c, err := r.Dial(c38CanaryUser, "pw_rws", "db")
	if err != nil {
		return nil, err
	}
	st, ep, err := c.Prepare("select * from tbl_shard where id = ?")
	if err != nil || ep != nil {
		c.Close()
		return nil, fmt.Errorf("canary prepare: %v %v", err, ep)
	}
	return &c38Canary{c: c, st: st}, nil
}

func c38ReplyText(rp *mycli.Reply, err error) string {
	if err != nil {
		return "IOERR " + err.Error()
	}
	if rp.Err != nil {
		return "ERR " + rp.Err.Error()
	}
	var sb strings.Builder
	fmt.Fprintf(&sb, "ok=%v status=%x cols=", rp.IsOK, rp.Status)
	for _, c := range rp.Cols {
		sb.WriteString(c.Name + ",")
	}
	for _, row := range rp.Rows {
		sb.WriteString(" row(")
		for _, v := range row {
			if v == nil {
				sb.WriteString("NULL,")
			} else {
				sb.WriteString(*v + ",")
			}
		}
		sb.WriteString(")")
	}
	return sb.String()
}

// probe issues the canary's known commands and renders every answer.
func (cn *c38Canary) probe() (string, bool) {
	var parts []string
	alive := true
	for _, q := range []string{"select * from tbl_shard where id = 1", "select a from tbl_shard where id in (1,2,3)", "select * from t2", "insert into t2 values (1)"} {
		rs, err := cn.c.Query(q)
		var rp *mycli.Reply
		if len(rs) > 0 {
			rp = rs[len(rs)-1]
		}
		if err != nil {
			alive = false
		}
		if rp == nil {
			rp = &mycli.Reply{}
		}
		parts = append(parts, q+" => "+c38ReplyText(rp, err))
	}
	one := []byte{1, 0, 0, 0, 0, 0, 0, 0}
	rp, err := cn.c.Execute(cn.st.ID, []mycli.Param{{Type: mycli.TLongLong, Raw: one}})
	if err != nil {
		alive = false
		rp = &mycli.Reply{}
	}
	parts = append(parts, "execute(1) => "+c38ReplyText(rp, err))
	cols, ep, err := cn.c.FieldList("tbl_shard", "")
	if err != nil {
		alive = false
	}
	parts = append(parts, fmt.Sprintf("fieldlist => %d cols err=%v", len(cols), ep))
	rp, err = cn.c.Ping()
	if err != nil {
		alive = false
		rp = &mycli.Reply{}
	}
	parts = append(parts, "ping => "+c38ReplyText(rp, err))
	return strings.Join(parts, "\n"), alive
}

type c38Checker struct {
	r        *rig
	canary   *c38Canary
	want     string
	baseline int
	wait     time.Duration
	// sessions known to be stuck (each already reported as a hang): not reported again
	allowOpen int
	// client-connection slots per namespace (white-box: StatisticManager.clientConnecions) when only the canary is connected
	slots   map[string]int32
	ns3Dead bool
}

// connSlots reads the per-namespace client connection counters the handshake checks against max_client_connections.
func (k *c38Checker) connSlots() map[string]int32 {
	out := map[string]int32{}
	for _, ns := range []string{"ns1", "ns2", "ns3"} {
		if v, ok := k.r.m.statistics.clientConnecions.Load(ns); ok {
			out[ns] = v.(*uber_atomic.Int32).Load()
		} else {
			out[ns] = 0
		}
	}
	return out
}

// slotsSettled waits until the counters are back at their baseline (+ sessions already reported as hung).
func (k *c38Checker) slotsSettled() (map[string]int32, bool) {
	deadline := time.Now().Add(k.wait)
	for {
		cur := k.connSlots()
		extra := int32(0)
		for ns, v := range cur {
			if v > k.slots[ns] {
				extra += v - k.slots[ns]
			} else if v < k.slots[ns] {
				return cur, false
			}
		}
		if extra <= int32(k.allowOpen) {
			return cur, true
		}
		if time.Now().After(deadline) {
			return cur, false
		}
		time.Sleep(2 * time.Millisecond)
	}
}

// sessionsGone waits until only the canary's socket is open on the server side.
func (k *c38Checker) sessionsGone() bool {
	deadline := time.Now().Add(k.wait)
	for {
		if k.r.activeSessions() <= 1+k.allowOpen {
			return true
		}
		if time.Now().After(deadline) {
			return false
		}
		time.Sleep(time.Millisecond)
	}
}

func (k *c38Checker) goroutinesSettled() (int, bool) {
	deadline := time.Now().Add(k.wait)
	n := 0
	for {
		n = runtime.NumGoroutine()
		if n <= k.baseline+c38Slack {
			return n, true
		}
		if time.Now().After(deadline) {
			return n, false
		}
		time.Sleep(5 * time.Millisecond)
	}
}

// check returns the list of violated batch clauses (empty = fine).
func (k *c38Checker) check(fresh bool) []string {
	var bad []string
	if !k.sessionsGone() {
		n := k.r.activeSessions() - 1 - k.allowOpen
		bad = append(bad, fmt.Sprintf("session-stuck: %d server-side session(s) still open after their clients left (not counting %d already reported as hung)", n, k.allowOpen))
		k.allowOpen += n // report once
	}
	got, alive := k.canary.probe()
	if !alive {
		bad = append(bad, "canary-dead: the canary session lost its connection: "+got)
	} else if got != k.want {
		bad = append(bad, "canary-changed: want\n"+k.want+"\ngot\n"+got)
	}
	if fresh {
		c, err := k.r.Dial("ns1_rw", "pw_rw", "db")
		if err != nil {
			bad = append(bad, "accept-dead: a new client cannot log in: "+err.Error())
		} else {
			rp, err := c.Query1("select * from tbl_shard where id = 2")
			if err != nil || rp.Err != nil || len(rp.Rows) != 1 {
				bad = append(bad, fmt.Sprintf("accept-dead: a new session cannot query: %v", c38ReplyText(rp, err)))
			}
			c.Quit()
		}
		if !k.sessionsGone() {
			bad = append(bad, "session-stuck: the fresh client's session did not end")
			k.allowOpen = k.r.activeSessions() - 1
		}
	}
	if fresh && !k.ns3Dead {
		// the namespace with a small max_client_connections must still admit a client
		c, err := k.r.Dial("ns3_rw", "pw_rw", "db")
		if err != nil {
			bad = append(bad, fmt.Sprintf("accept-dead: a new client of the namespace with max_client_connections=%d cannot log in although no other client of it is connected: %v", c38SmallMaxConns, err))
			k.ns3Dead = true // report once
		} else {
			c.Quit()
			k.sessionsGone()
		}
	}
	if cur, ok := k.slotsSettled(); !ok {
		bad = append(bad, fmt.Sprintf("conn-slot-leak: client-connection counters of the namespaces are %v with only the canary connected, baseline %v (each leaked slot counts against max_client_connections for ever)", cur, k.slots))
		k.slots = cur // report once
	}
	var leaked []string
	for _, ci := range k.r.B.Conns() {
		if ci.Taken {
			leaked = append(leaked, fmt.Sprintf("%s/%s/%s#%d", ci.NS, ci.Slice, ci.Role, ci.ID))
		}
	}
	if len(leaked) > 0 {
		sort.Strings(leaked)
		bad = append(bad, "backend-conn-leak: fake backend connections still checked out with no hostile session alive: "+strings.Join(leaked, " "))
		// give them back so that the leak is reported once and not in every later batch
		k.r.B.mu.Lock()
		for _, c := range k.r.B.conns {
			if c.taken {
				c.taken = false
				c.pool.inUse--
			}
		}
		k.r.B.mu.Unlock()
	}
	if n, ok := k.goroutinesSettled(); !ok {
		bad = append(bad, fmt.Sprintf("goroutine-leak: %d goroutines, baseline %d (+%d slack)", n, k.baseline, c38Slack))
		k.baseline = n // report once
	}
	return bad
}

func c38Clause(s string) string {
	if i := strings.Index(s, ":"); i > 0 {
		return s[:i]
	}
	return s
}

// ---------------------------------------------------------------- the monitor

type c38Witness struct {
	Case     c38Case      `json:"case"`
	Frame    int          `json:"frame"`
	Outcomes []c38Outcome `json:"outcomes"`
	Detail   string       `json:"detail"`
}

func TestVerif_C38(t *testing.T) {
	rec := kit.Start("C38", "exploration",
		"deterministic structure-aware mutation of well-formed handshake responses and command packets (truncation at every length, flag combinations, "+
			"length lies, every command byte, every parameter type x value length, odd SQL texts, token soup, byte mutations); a case is one frame on a real session; distinct = frame class x observed outcome")
	defer rec.Finish(t)
	rec.Assume("backends are fakes: malformed input that only a real MySQL would choke on is out of scope")
	rec.Assume("a server that waits for bytes a frame header announced is not hanging; the client then half-closes and the server must close")
	pre := kit.NewPreLog("C38")
	defer pre.Close()

	r := rigStart(t, rigOpts{Namespaces: c38Namespaces(), FakePools: true})
	defer r.Close()
	seed := kit.Seed()

	groups := map[string][]c38Case{}
	for g, cs := range c38GenHandshake(seed) {
		groups[g] = cs
	}
	for g, cs := range c38GenCommands(seed) {
		groups[g] = cs
	}
	var names []string
	for g := range groups {
		names = append(names, g)
	}
	sort.Strings(names)

	d := &c38Driver{r: r, pre: pre, rec: rec, wait: c38Watchdog, established: map[string]int{}}
	canary, err := c38OpenCanary(r)
	if err != nil {
		rec.Inconclusive("cannot open the canary session: " + err.Error())
		return
	}
	defer canary.c.Close()
	want, alive := canary.probe()
	if !alive {
		rec.Inconclusive("canary does not work before any hostile input: " + want)
		return
	}
	// warm-up so that lazily started goroutines are part of the baseline
	warm := c38Case{Group: "warmup", Kind: "cmd", User: "ns2_rw", Setup: "prep", Frames: []c38Frame{c38Cmd("warmup", mycli.ComQuery, []byte("select * from tbl_shard"))}}
	d.run(&warm, -1)
	warm.User = "ns1_rw"
	d.run(&warm, -1)
	k := &c38Checker{r: r, canary: canary, want: want, wait: c38Watchdog}
	d.onHang = func() { k.allowOpen++; k.baseline++ } // a hung session stays (socket + goroutine); it is reported as the hang, once
	k.sessionsGone()
	time.Sleep(50 * time.Millisecond)
	k.baseline = runtime.NumGoroutine()
	k.slots = k.connSlots()
	if bad := k.check(true); len(bad) > 0 {
		rec.Inconclusive("batch checks fail before any hostile input: " + strings.Join(bad, "; "))
		return
	}
	rec.Set("goroutine_baseline", k.baseline)
	rec.Set("canary_answers", strings.Split(want, "\n"))

	// ---- replay of one witness
	if p := kit.ReplayPath(); p != "" {
		var w c38Witness
		if err := kit.LoadReplay(p, &w); err != nil || len(w.Case.Frames) == 0 {
			var crash struct {
				Last string `json:"last_logged_input"`
			}
			var ref struct {
				Group string `json:"group"`
				Idx   int    `json:"idx"`
			}
			if kit.LoadReplay(p, &crash) != nil || json.Unmarshal([]byte(crash.Last), &ref) != nil || ref.Idx >= len(groups[ref.Group]) {
				t.Fatalf("cannot read replay file %s", p)
			}
			w.Case = groups[ref.Group][ref.Idx]
		}
		outs := d.run(&w.Case, -1)
		rec.Eval(len(outs))
		c38Judge(rec, d, k, []c38Case{w.Case}, [][]c38Outcome{outs}, k.check(true))
		rec.Sample(map[string]interface{}{"replayed": w.Case.Group, "outcomes": outs})
		return
	}

	// ---- the batches
	batchSize := 40
	groupWall := map[string]string{}
	for _, g := range names {
		tg := time.Now()
		in0 := d.inputs
		cases := groups[g]
		for i := 0; i < len(cases); i += batchSize {
			j := i + batchSize
			if j > len(cases) {
				j = len(cases)
			}
			batch := cases[i:j]
			outs := make([][]c38Outcome, len(batch))
			for bi := range batch {
				outs[bi] = d.run(&batch[bi], -1)
				for _, o := range outs[bi] {
					rec.Eval(1)
					rec.Count("outcome."+c38OutcomeClass(o.Result), 1)
					if o.Result != "prelude-failed" {
						rec.Nontrivial(o.Class + "|" + o.Result)
					}
					if o.Result == "noreply" && !batch[bi].Frames[o.Frame].NoReply {
						// the session went on to answer the probe but never answered this command
						w := c38Witness{Case: batch[bi], Frame: o.Frame, Outcomes: []c38Outcome{o}, Detail: "the next command was answered, this one was not"}
						w.Case.Frames = []c38Frame{batch[bi].Frames[o.Frame]}
						rec.Violation("no-answer:"+o.Class, fmt.Sprintf("frame of class %s got neither an error/answer nor a close; the session silently went on to the next command", o.Class), w)
					}
				}
			}
			rec.Count("batches", 1)
			rec.Count("cases."+strings.SplitN(g, "/", 2)[0], int64(len(batch)))
			c38Judge(rec, d, k, batch, outs, k.check(true))
		}
		rec.Count("groups", 1)
		groupWall[g] = fmt.Sprintf("%d inputs %.1fs", d.inputs-in0, time.Since(tg).Seconds())
	}
	rec.Set("group_inputs_wall", groupWall)
	// ---- cross-session integrity: truncated-then-disconnect clients while canaries are busy
	c38Cross(rec, r, pre)
	if bad := k.check(true); len(bad) > 0 {
		for _, b := range bad {
			rec.Violation(c38Clause(b)+":cross/truncated-disconnect", "after the cross-session phase (clients that announce a packet, send less and disconnect): "+b, map[string]interface{}{"detail": b})
		}
	}
	// ---- many sessions sending the same never-seen malformed statement at the same moment
	if !c38Storm(rec, r, pre) {
		if bad := k.check(true); len(bad) > 0 {
			for _, b := range bad {
				rec.Violation(c38Clause(b)+":storm/same-malformed", "after the rounds of simultaneous malformed statements: "+b, map[string]interface{}{"detail": b})
			}
		}
	}
	rec.Set("inputs_sent", d.inputs)
	rec.Set("inputs_skipped_matching_established_hang", d.skipped)
	rec.Set("hang_signatures_established", d.established)
	rec.Set("groups", names)
	rec.Set("goroutines_end", runtime.NumGoroutine())
	rec.Set("fake_backend_events", r.B.Len())
	if d.setupKO > 0 {
		rec.Inconclusive(fmt.Sprintf("%d well-formed preludes failed (the rig, not the hostile input, is broken)", d.setupKO))
	}
	// samples: a few frames with what they produced
	sr := kit.SubRand(seed, "C38/samples")
	for i := 0; i < 5; i++ {
		g := names[sr.Intn(len(names))]
		cs := groups[g][sr.Intn(len(groups[g]))]
		f := cs.Frames[0]
		if len(f.Payload) > 64 {
			f.Payload = f.Payload[:64]
		}
		rec.Sample(map[string]interface{}{"group": g, "setup": cs.Setup, "first_frame": f})
	}
}

func c38OutcomeClass(res string) string {
	switch {
	case strings.HasPrefix(res, "skipped"):
		return "skipped"
	case strings.Contains(res, "hang"):
		return "hang"
	case strings.HasPrefix(res, "err"):
		if strings.HasSuffix(res, "+closed") {
			return "err+closed"
		}
		return "err"
	case res == "closed" || res == "waited+closed":
		return "closed"
	}
	return res
}

// c38Judge turns frame outcomes and failed batch clauses into violations, attributing batch
// clauses to a single case / frame by re-running the batch's cases alone.
func c38Judge(rec *kit.Rec, d *c38Driver, k *c38Checker, batch []c38Case, outs [][]c38Outcome, bad []string) {
	// (a) frames that neither answered nor closed
	for bi := range batch {
		for _, o := range outs[bi] {
			if !o.Hang {
				continue
			}
			f := batch[bi].Frames[o.Frame]
			w := c38Witness{Case: batch[bi], Frame: o.Frame, Outcomes: []c38Outcome{o}}
			w.Case.Frames = []c38Frame{f}
			if o.Sig != "" {
				// matches a hang signature that is listed or was confirmed earlier in this run
				w.Detail = "matches an established hang signature; observed with the short watchdog"
				rec.Violation(o.Sig, fmt.Sprintf("frame of class %s (setup %q) got neither an answer nor a close (input matches established signature)", o.Class, batch[bi].Setup), w)
				continue
			}
			// confirm alone with the generous watchdog
			again := d.run(&batch[bi], o.Frame)
			if !(len(again) == 1 && again[0].Hang) {
				rec.Count("hang_not_reproduced", 1)
				continue
			}
			sig := "hang:" + o.Class
			if c38IsQuery(&f) {
				// greedy shrink over lexical feature classes: drop a class if the text still hangs without it
				text := append([]byte{}, f.Payload[1:]...)
				feats := c38QueryFeatures(text)
				save := d.wait
				d.wait = 5 * time.Second
				for _, n := range c38FeatureOrder {
					if !feats[n] {
						continue
					}
					cand := c38Neutralise(text, n)
					cs := c38Case{Group: "shrink", Kind: "cmd", User: batch[bi].User, Setup: batch[bi].Setup, Frames: []c38Frame{c38Cmd(o.Class, mycli.ComQuery, cand)}}
					res := d.run(&cs, -1)
					if len(res) == 1 && res[0].Hang {
						text = cand
						feats = c38QueryFeatures(text)
					}
				}
				d.wait = save
				sig = c38FeatSig(feats)
				w.Case.Frames = []c38Frame{c38Cmd(o.Class, mycli.ComQuery, text)}
			}
			d.established[sig]++
			w.Detail = "no answer and no close within the watchdog, twice (second time alone)"
			rec.Violation(sig, fmt.Sprintf("frame of class %s (setup %q) got neither an answer nor a close within the watchdog (%v; %v for 16 MiB commands), also when re-run alone", o.Class, batch[bi].Setup, d.wait, c38BigWait), w)
		}
	}
	if len(bad) == 0 {
		return
	}
	// (b) batch clauses: find the culprit
	left := map[string]string{}
	for _, b := range bad {
		left[c38Clause(b)] = b
	}
	for bi := range batch {
		if len(left) == 0 {
			break
		}
		d.run(&batch[bi], -1)
		res := k.check(false)
		for _, b := range res {
			cl := c38Clause(b)
			if _, ok := left[cl]; !ok {
				continue
			}
			// shrink to one frame
			cls, fr := "multi:"+batch[bi].Frames[0].Class, -1
			for fi := range batch[bi].Frames {
				d.run(&batch[bi], fi)
				hit := false
				for _, b2 := range k.check(false) {
					if c38Clause(b2) == cl {
						hit = true
					}
				}
				if hit {
					cls, fr = batch[bi].Frames[fi].Class, fi
					break
				}
			}
			w := c38Witness{Case: batch[bi], Frame: fr, Detail: b}
			if fr >= 0 {
				w.Case.Frames = []c38Frame{batch[bi].Frames[fr]}
			}
			rec.Violation(cl+":"+cls, fmt.Sprintf("after a hostile client (setup %q, frame class %s): %s", batch[bi].Setup, cls, b), w)
			delete(left, cl)
		}
	}
	for cl, b := range left {
		// seen after the batch but not after any single case of it
		w := map[string]interface{}{"batch_group": batch[0].Group, "first_idx": batch[0].Idx, "n": len(batch), "detail": b}
		rec.Violation(cl+":batch:"+batch[0].Group, "after a batch of hostile clients (not reproduced by one case alone): "+b, w)
	}
}
