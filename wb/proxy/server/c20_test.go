package server

// C20 — session settings never leak between clients sharing pooled connections.
//
// Monitor: real Server/Session/Executor (rig R2) over a REAL connection pool of capacity 1-2
// onto the fake MySQL server (rig R3), whose per-connection session model applies a
// multi-assignment SET atomically or rejects it atomically (scripted, error 1231/1298).
// Three clients issue interleaved SET NAMES / SET of allowed session variables / user
// variables / = DEFAULT / queries. For every query that reaches the backend, the oracle
// compares the backend connection's ACTUAL session state at that instant (fake's log) with
// what the issuing client requested (client-side model) — defaults for everything else.

import (
	"fmt"
	"sort"
	"strings"
	"testing"

	"github.com/XiaoMi/Gaea/models"
	kit "github.com/XiaoMi/Gaea/verifkit"
	"github.com/XiaoMi/Gaea/verifkit/fakemysql"
	"github.com/XiaoMi/Gaea/verifkit/mycli"
)

// c20Step is one client action.
type c20Step struct {
	Client int    `json:"client"` // 0..2
	Op     string `json:"op"`     // names | namesdefault | charset (SET CHARACTER SET) | csvar (character_set_x = v|DEFAULT) | collconn | set | setuser | query
	Var    string `json:"var,omitempty"`
	Val    string `json:"val,omitempty"` // SQL text of the value; "DEFAULT" / "NULL" reset
	Bad    bool   `json:"bad,omitempty"` // the backend is scripted to reject this value
	Coll   string `json:"coll,omitempty"`
}

type c20Case struct {
	Cap   int       `json:"pool_capacity"`
	Steps []c20Step `json:"steps"`
}

func (s c20Step) sql(idx int) string {
	switch s.Op {
	case "names":
		if s.Coll != "" {
			return fmt.Sprintf("SET NAMES %s COLLATE %s", s.Val, s.Coll)
		}
		return "SET NAMES " + s.Val
	case "namesdefault":
		return "SET NAMES DEFAULT"
	case "charset":
		return "SET CHARACTER SET " + s.Val
	case "csvar":
		return fmt.Sprintf("SET %s = %s", s.Var, s.Val)
	case "collconn":
		return "SET collation_connection = " + s.Val
	case "set":
		return fmt.Sprintf("SET %s = %s", s.Var, s.Val)
	case "setuser":
		return fmt.Sprintf("SET @%s = %s", s.Var, s.Val)
	}
	return fmt.Sprintf("select * from c20t where k = 'r%dc%d:%d'", c20RunNo, s.Client, idx)
}

// c20RunNo tags the queries of the current run, so that a straggling event of an earlier
// run can never be attributed to this one.
var c20RunNo int

func (s c20Step) describe(idx int) string {
	b := ""
	if s.Bad {
		b = "(rejected by backend)"
	}
	return fmt.Sprintf("c%d:%s%s", s.Client, s.sql(idx), b)
}

func (s c20Step) String() string { return s.describe(0) }

// kind is the class of a step used in signatures of charset mismatches.
func (s c20Step) kind() string {
	switch s.Op {
	case "names":
		if s.Coll != "" {
			return "names_collate"
		}
		return "names"
	case "csvar":
		if s.Val == "DEFAULT" {
			return "cs_default"
		}
		return "cs_value"
	case "collconn":
		return "collation_connection"
	case "charset":
		return "character_set"
	}
	return s.Op
}

// the variables of the workload: name -> class, good values, the value the backend rejects
type c20VarSpec struct {
	Class string
	Good  []string
	Bad   string
}

var c20Vars = map[string]c20VarSpec{
	"sql_mode":         {"sql_mode", []string{"'ANSI'", "'STRICT_TRANS_TABLES'", "''"}, "'NO_SUCH_MODE'"},
	"time_zone":        {"verified", []string{"'+08:00'", "'+00:00'", "'-03:30'"}, "'+05:99'"},
	"sql_select_limit": {"verified", []string{"10", "200", "3000"}, "-1"},
	"optimizer_switch": {"custom", []string{"'index_merge=off'", "'mrr=off'"}, "'no_such_flag=on'"},
}
var c20VarNames = []string{"sql_mode", "time_zone", "sql_select_limit", "optimizer_switch"}

var c20Charsets = [][2]string{{"utf8", ""}, {"utf8mb4", ""}, {"latin1", ""}, {"gbk", ""}, {"utf8mb4", "utf8mb4_bin"}, {"utf8", "utf8_bin"}, {"latin1", "latin1_bin"}}

// the namespace's (= the "server's" and the database's) default character set and collation
const (
	c20NsCharset   = "utf8mb4"
	c20NsCollation = "utf8mb4_general_ci"
)

// handshake collations of the three clients
var c20Handshake = []struct {
	ID        byte
	Charset   string
	Collation string
}{{45, "utf8mb4", "utf8mb4_general_ci"}, {33, "utf8", "utf8_general_ci"}, {8, "latin1", "latin1_swedish_ci"}}

// c20Model is what one client has requested so far.
type c20Model struct {
	Client, Conn, Results string // character_set_client / _connection / _results
	Collation            string // collation_connection
	Vars               map[string]string // canonical values of non-default settings
	User               map[string]string
	Unknown            map[string]bool // variables whose last requested value the backend rejects
}

func c20NewModel(client int) *c20Model {
	h := c20Handshake[client]
	return &c20Model{Client: h.Charset, Conn: h.Charset, Results: h.Charset, Collation: h.Collation, Vars: map[string]string{}, User: map[string]string{}, Unknown: map[string]bool{}}
}

func (m *c20Model) clone() *c20Model {
	c := &c20Model{Client: m.Client, Conn: m.Conn, Results: m.Results, Collation: m.Collation, Vars: map[string]string{}, User: map[string]string{}, Unknown: map[string]bool{}}
	for k, v := range m.Vars {
		c.Vars[k] = v
	}
	for k, v := range m.User {
		c.User[k] = v
	}
	for k, v := range m.Unknown {
		c.Unknown[k] = v
	}
	return c
}

// apply records a request the proxy acknowledged with OK.
func (m *c20Model) apply(s c20Step) {
	switch s.Op {
	case "names":
		m.Client, m.Conn, m.Results = s.Val, s.Val, s.Val
		m.Collation = s.Coll
		if m.Collation == "" {
			m.Collation, _ = fakemysql.DefaultCollation(s.Val)
		}
	case "namesdefault":
		m.Client, m.Conn, m.Results, m.Collation = c20NsCharset, c20NsCharset, c20NsCharset, c20NsCollation
	case "charset":
		// MySQL: client and results become x, the connection takes the database's character set and collation
		m.Client, m.Results = s.Val, s.Val
		m.Conn, m.Collation = c20NsCharset, c20NsCollation
	case "csvar":
		if s.Val == "DEFAULT" {
			// Gaea defines character_set_x = DEFAULT as the return of the session to the
			// namespace's default character set and collation (it keeps one charset per session)
			m.Client, m.Conn, m.Results, m.Collation = c20NsCharset, c20NsCharset, c20NsCharset, c20NsCollation
			break
		}
		switch s.Var {
		case "character_set_client":
			m.Client = s.Val
		case "character_set_results":
			m.Results = s.Val
		default:
			m.Conn = s.Val
			m.Collation, _ = fakemysql.DefaultCollation(s.Val)
		}
	case "collconn":
		m.Collation = s.Val
		m.Conn, _ = fakemysql.CharsetOfCollation(s.Val)
	case "set":
		delete(m.Unknown, s.Var)
		if s.Val == "DEFAULT" {
			delete(m.Vars, s.Var)
		} else {
			m.Vars[s.Var] = fakemysql.Unquote(s.Val)
			if s.Bad {
				m.Unknown[s.Var] = true
			}
		}
	case "setuser":
		if s.Val == "NULL" {
			delete(m.User, s.Var)
		} else {
			m.User[s.Var] = fakemysql.Unquote(s.Val)
		}
	}
}

// ---------------------------------------------------------------- rig

type c20Rig struct {
	r   *rig
	srv *fakemysql.Server
}

func c20NsName(capacity int) string { return fmt.Sprintf("c20cap%d", capacity) }

func c20Namespace(capacity int, addr string) *models.Namespace {
	name := c20NsName(capacity)
	sl := rigSlice("slice-0", addr, nil)
	sl.UserName = fmt.Sprintf("cap%d", capacity)
	sl.Capacity, sl.MaxCapacity = capacity, capacity
	sl.HandshakeTimeout = 20000
	return &models.Namespace{
		Name: name, Online: true,
		AllowedDBS:              map[string]bool{"db": true},
		DefaultPhyDBS:           map[string]string{"db": "db"},
		Slices:                  []*models.Slice{sl},
		Users:                   []*models.User{rigUser(name, name+"_u", "pw", models.ReadWrite, models.NoReadWriteSplit)},
		DefaultSlice:            "slice-0",
		DefaultCharset:          c20NsCharset,
		DefaultCollation:        c20NsCollation,
		AllowedSessionVariables: map[string]string{"optimizer_switch": "string"},
	}
}

func c20Reject(conn *fakemysql.ConnState, as []fakemysql.Assignment) *fakemysql.Response {
	for _, a := range as {
		if a.Kind != "sys" || a.Default {
			continue
		}
		spec, ok := c20Vars[a.Name]
		if !ok || a.Value != fakemysql.Unquote(spec.Bad) {
			continue
		}
		var r fakemysql.Response
		if a.Name == "time_zone" {
			r = fakemysql.Err(1298, "HY000", fmt.Sprintf("Unknown or incorrect time zone: '%s'", a.Value))
		} else {
			r = fakemysql.Err(1231, "42000", fmt.Sprintf("Variable '%s' can't be set to the value of '%s'", a.Name, a.Value))
		}
		return &r
	}
	return nil
}

func c20Start(t *testing.T) (*c20Rig, error) {
	srv, err := fakemysql.Start()
	if err != nil {
		return nil, err
	}
	srv.SetSetHook(c20Reject)
	srv.SetHandler(func(conn *fakemysql.ConnState, sql string) fakemysql.Response {
		if strings.Contains(sql, "c20t") {
			return fakemysql.TextResult([]string{"k"}, []string{"1"})
		}
		return fakemysql.Default()
	})
	rg := &c20Rig{srv: srv}
	rg.r = rigStart(t, rigOpts{Namespaces: []*models.Namespace{c20Namespace(1, srv.Addr()), c20Namespace(2, srv.Addr())}, FakePools: false})
	return rg, nil
}

func (rg *c20Rig) close() {
	rg.r.Close()
	rg.srv.Close()
}

// resetPool replaces the namespace's backend connections by fresh ones, so that every
// interleaving starts from connections without history (replayable cases).
func (rg *c20Rig) resetPool(capacity int) error {
	ns := rg.r.Manager().GetNamespace(c20NsName(capacity))
	if ns == nil {
		return fmt.Errorf("namespace missing")
	}
	sl := ns.GetSlice("slice-0")
	if sl == nil || len(sl.Master.Nodes) != 1 {
		return fmt.Errorf("slice missing")
	}
	p := sl.Master.Nodes[0].ConnPool
	p.Close()
	return p.Open()
}

// ---------------------------------------------------------------- run + oracle

type c20Mismatch struct {
	Clause    string `json:"clause"`    // foreign-value | own-value-missing | charset-mismatch
	Class     string `json:"class"`     // names | sql_mode | verified | custom | user
	Var       string `json:"var"`
	Actual    string `json:"actual"`
	Requested string `json:"requested"`
	Step      int    `json:"step"`
	BackendID uint32 `json:"backend_conn"`
}

type c20Outcome struct {
	Replies    []string      `json:"replies"`
	Queries    int           `json:"queries_reaching_backend"`
	QueryErrs  int           `json:"queries_failed"`
	Rejected   int           `json:"sets_rejected_by_backend"`
	SetRefused int           `json:"sets_refused_by_proxy"`
	Conns      int           `json:"backend_connections"`
	Shared     bool          `json:"backend_conn_shared_by_clients"`
	Mis        []c20Mismatch `json:"mismatches,omitempty"`
	Trace      []string      `json:"backend_trace,omitempty"`
}

func c20ClassOf(v string, user bool) string {
	if user {
		return "user"
	}
	if s, ok := c20Vars[v]; ok {
		return s.Class
	}
	return "other"
}

func c20RunCase(rg *c20Rig, c c20Case) (c20Outcome, error) {
	var o c20Outcome
	c20RunNo++
	if err := rg.resetPool(c.Cap); err != nil {
		return o, err
	}
	rg.srv.TakeEvents()
	ns := c20NsName(c.Cap)
	clients := make([]*mycli.Conn, 3)
	models_ := []*c20Model{c20NewModel(0), c20NewModel(1), c20NewModel(2)}
	defer func() {
		for _, cl := range clients {
			if cl != nil {
				cl.Quit()
			}
		}
	}()
	// requested state of the issuing client at each query step
	reqAt := map[int]*c20Model{}
	okQuery := map[int]bool{}
	for i, s := range c.Steps {
		if clients[s.Client] == nil {
			cl, err := mycli.Dial(rg.r.Addr(), mycli.Options{User: ns + "_u", Password: "pw", DB: "db", Collation: c20Handshake[s.Client].ID})
			if err != nil {
				return o, fmt.Errorf("dial: %v", err)
			}
			clients[s.Client] = cl
		}
		rs, err := clients[s.Client].Query(s.sql(i))
		if err != nil || len(rs) == 0 {
			return o, fmt.Errorf("step %d (%s): %v", i, s.String(), err)
		}
		rep := rs[len(rs)-1]
		if rep.Err != nil {
			o.Replies = append(o.Replies, fmt.Sprintf("ERR %d %s", rep.Err.Code, rep.Err.Msg))
		} else {
			o.Replies = append(o.Replies, "ok")
		}
		if s.Op == "query" {
			reqAt[i] = models_[s.Client].clone()
			if rep.Err != nil {
				o.QueryErrs++
			} else {
				okQuery[i] = true
			}
			continue
		}
		if rep.Err != nil {
			o.SetRefused++
			continue
		}
		models_[s.Client].apply(s)
	}
	for i, cl := range clients {
		if cl != nil {
			cl.Quit()
			clients[i] = nil
		}
	}
	evs := rg.srv.TakeEvents()
	connUsers := map[uint32]map[int]bool{}
	conns := map[uint32]bool{}
	for _, e := range evs {
		if e.Cmd == fakemysql.ComQuery {
			st := ""
			if e.IsSet && !e.Applied {
				o.Rejected++
				st = fmt.Sprintf("  -> ERR %d (rejected atomically)", e.ErrCode)
			}
			o.Trace = append(o.Trace, fmt.Sprintf("conn%d: %s%s", e.ConnID, e.SQL, st))
		}
		if e.Cmd != fakemysql.ComQuery || !strings.Contains(e.SQL, "c20t") {
			continue
		}
		conns[e.ConnID] = true
		var run, cli, step int
		k := strings.Index(e.SQL, "'r")
		if k < 0 {
			continue
		}
		if _, err := fmt.Sscanf(e.SQL[k:], "'r%dc%d:%d'", &run, &cli, &step); err != nil || run != c20RunNo {
			continue
		}
		if connUsers[e.ConnID] == nil {
			connUsers[e.ConnID] = map[int]bool{}
		}
		connUsers[e.ConnID][cli] = true
		req := reqAt[step]
		if req == nil || !okQuery[step] {
			continue
		}
		o.Queries++
		act := e.State
		add := func(m c20Mismatch) {
			m.Step, m.BackendID = step, e.ConnID
			o.Mis = append(o.Mis, m)
		}
		if act.CharsetClient != req.Client || act.CharsetConnection != req.Conn || act.CharsetResults != req.Results || act.Collation != req.Collation {
			add(c20Mismatch{Clause: "charset-mismatch", Class: "names", Var: "client/connection/results collation",
				Actual:    fmt.Sprintf("%s/%s/%s %s", act.CharsetClient, act.CharsetConnection, act.CharsetResults, act.Collation),
				Requested: fmt.Sprintf("%s/%s/%s %s", req.Client, req.Conn, req.Results, req.Collation)})
		}
		cmp := func(actual, requested map[string]string, user bool) {
			names := map[string]bool{}
			for k := range actual {
				names[k] = true
			}
			for k := range requested {
				names[k] = true
			}
			keys := make([]string, 0, len(names))
			for k := range names {
				keys = append(keys, k)
			}
			sort.Strings(keys)
			for _, k := range keys {
				if !user && req.Unknown[k] {
					continue
				}
				a, aok := actual[k]
				r, rok := requested[k]
				if aok == rok && a == r {
					continue
				}
				m := c20Mismatch{Class: c20ClassOf(k, user), Var: k, Actual: "(default)", Requested: "(default)"}
				if aok {
					m.Actual = a
				}
				if rok {
					m.Requested = r
				}
				if aok {
					m.Clause = "foreign-value" // the backend session carries a value this client did not ask for
				} else {
					m.Clause = "own-value-missing"
				}
				add(m)
			}
		}
		cmp(act.Vars, req.Vars, false)
		cmp(act.UserVars, req.User, true)
	}
	o.Conns = len(conns)
	for _, us := range connUsers {
		if len(us) > 1 {
			o.Shared = true
		}
	}
	return o, nil
}

// c20Sig derives the canonical class of a (1-minimal) failing case: which oracle clause
// failed and which class of variable the rejected SET still present in the minimal case was
// about ("none": the mismatch needs no rejected SET at all). The class of the mismatching
// variable is reported in the description only: the same defect shows up through every
// class of variable that happens to be lying around.
func c20Sig(c c20Case, m c20Mismatch) string {
	rej := "none"
	for _, s := range c.Steps {
		if s.Bad {
			rej = c20ClassOf(s.Var, false)
		}
	}
	if m.Clause == "charset-mismatch" {
		// which kinds of character set statements the minimal case needs
		set := map[string]bool{}
		for _, s := range c.Steps {
			switch s.Op {
			case "names", "namesdefault", "charset", "csvar", "collconn":
				set[s.kind()] = true
			}
		}
		kinds := make([]string, 0, len(set))
		for k := range set {
			kinds = append(kinds, k)
		}
		sort.Strings(kinds)
		if len(kinds) == 0 {
			kinds = []string{"handshake"}
		}
		return fmt.Sprintf("C20:%s:%s:after-reject=%s", m.Clause, strings.Join(kinds, "+"), rej)
	}
	return fmt.Sprintf("C20:%s:after-reject=%s", m.Clause, rej)
}

// c20Shrink removes steps one at a time while a mismatch of the same clause remains; the
// result is 1-minimal.
func c20Shrink(rg *c20Rig, c c20Case, m c20Mismatch) (c20Case, c20Mismatch, c20Outcome, error) {
	same := func(o c20Outcome) (c20Mismatch, bool) {
		for _, x := range o.Mis {
			if x.Clause == m.Clause {
				return x, true
			}
		}
		return c20Mismatch{}, false
	}
	cur, err := c20RunCase(rg, c)
	if err != nil {
		return c, m, cur, err
	}
	for changed := true; changed; {
		changed = false
		for i := 0; i < len(c.Steps); i++ {
			cand := c20Case{Cap: c.Cap}
			cand.Steps = append(cand.Steps, c.Steps[:i]...)
			cand.Steps = append(cand.Steps, c.Steps[i+1:]...)
			o, err := c20RunCase(rg, cand)
			if err != nil {
				return c, m, cur, err
			}
			if x, ok := same(o); ok {
				c, m, cur, changed = cand, x, o, true
				i--
			}
		}
		if c.Cap == 2 {
			cand := c20Case{Cap: 1, Steps: c.Steps}
			o, err := c20RunCase(rg, cand)
			if err != nil {
				return c, m, cur, err
			}
			if x, ok := same(o); ok {
				c, m, cur, changed = cand, x, o, true
			}
		}
	}
	if x, ok := same(cur); ok {
		m = x
	}
	return c, m, cur, nil
}

func c20GenCase(r *kit.Rand) c20Case {
	c := c20Case{Cap: r.Range(1, 2)}
	n := r.Range(4, 12)
	nclients := r.Range(2, 3)
	pendingQuery := -1
	for i := 0; i < n; i++ {
		cl := r.Intn(nclients)
		if pendingQuery >= 0 && r.Chance(1, 2) {
			cl = pendingQuery // a client that changed something tends to run a statement next
		}
		var s c20Step
		switch k := r.Intn(12); {
		case k < 4 || i == n-1:
			s = c20Step{Client: cl, Op: "query"}
		case k < 6:
			cs := c20Charsets[r.Intn(len(c20Charsets))]
			s = c20Step{Client: cl, Op: "names", Val: cs[0], Coll: cs[1]}
			switch x := r.Intn(12); {
			case x < 3: // one of the three character_set_x variables: a value or DEFAULT
				v := []string{"character_set_client", "character_set_results", "character_set_connection"}[r.Intn(3)]
				val := "DEFAULT"
				if r.Bool() {
					val = []string{"utf8", "utf8mb4", "latin1", "gbk"}[r.Intn(4)]
				}
				s = c20Step{Client: cl, Op: "csvar", Var: v, Val: val}
			case x == 3:
				// collations no other step can produce: whether the statement took effect never depends on the history
				s = c20Step{Client: cl, Op: "collconn", Val: []string{"utf8mb4_unicode_ci", "utf8_unicode_ci", "latin1_general_ci", "gbk_bin"}[r.Intn(4)]}
			case x == 4:
				s = c20Step{Client: cl, Op: "charset", Val: []string{"utf8", "utf8mb4", "latin1", "gbk"}[r.Intn(4)]}
			case x == 5:
				s = c20Step{Client: cl, Op: "namesdefault"}
			}
		case k < 10:
			v := c20VarNames[r.Intn(len(c20VarNames))]
			spec := c20Vars[v]
			switch x := r.Intn(6); {
			case x == 0:
				s = c20Step{Client: cl, Op: "set", Var: v, Val: "DEFAULT"}
			case x == 1:
				s = c20Step{Client: cl, Op: "set", Var: v, Val: spec.Bad, Bad: true}
			default:
				s = c20Step{Client: cl, Op: "set", Var: v, Val: spec.Good[r.Intn(len(spec.Good))]}
			}
		default:
			u := []string{"u", "w"}[r.Intn(2)]
			if r.Chance(1, 4) {
				s = c20Step{Client: cl, Op: "setuser", Var: u, Val: "NULL"}
			} else {
				s = c20Step{Client: cl, Op: "setuser", Var: u, Val: []string{"5", "'abc'", "42"}[r.Intn(3)]}
			}
		}
		if s.Op == "query" {
			pendingQuery = -1
		} else {
			pendingQuery = cl
		}
		c.Steps = append(c.Steps, s)
	}
	return c
}

func (c c20Case) describe() string {
	parts := make([]string, len(c.Steps))
	for i, s := range c.Steps {
		parts[i] = s.describe(i)
	}
	return fmt.Sprintf("pool capacity %d: %s", c.Cap, strings.Join(parts, " ; "))
}

func TestVerif_C20(t *testing.T) {
	rec := kit.Start("C20", "exploration", "case = interleaving of <=12 steps of 2-3 clients over one real connection pool of capacity 1-2: SET NAMES x [COLLATE y] | SET NAMES DEFAULT | SET CHARACTER SET x | SET character_set_client/results/connection = x | DEFAULT | SET collation_connection = y, SET sql_mode/time_zone/sql_select_limit/optimizer_switch(allowed custom) = good value | value the backend rejects | DEFAULT, SET @u = v | NULL, query; generated from the seed; non-trivial when at least two clients' queries ran on the same backend connection; distinct key = hash of the step sequence")
	defer rec.Finish(t)
	rec.Assume("the fake backend applies a multi-assignment SET atomically or rejects it atomically (MySQL checks all assignments before updating any); it rejects only the scripted values: sql_mode 'NO_SUCH_MODE' (1231), time_zone '+05:99' (1298), sql_select_limit -1 (1231), optimizer_switch 'no_such_flag=on' (1231)")
	rec.Assume("character set model = MySQL's: SET NAMES sets client/connection/results and the collation; character_set_connection = x also sets the collation to x's default; collation_connection = y also sets character_set_connection; SET CHARACTER SET x sets client/results to x and the connection to the database's (= namespace default) charset and collation; exception: character_set_x = DEFAULT is taken with Gaea's meaning, the return of the whole session to the namespace default charset and collation")
	rec.Assume("requested state = handshake collation, then every SET the proxy acknowledged with OK; a variable whose last requested value is one the backend rejects is 'unknown' until set again; steps run one at a time (no concurrent statements), pools are re-opened before each interleaving")
	rg, err := c20Start(t)
	if err != nil {
		rec.Inconclusive("cannot start rig: " + err.Error())
		return
	}
	defer rg.close()

	report := func(c c20Case, o c20Outcome) bool {
		seen := map[string]bool{}
		for _, m := range o.Mis {
			k := m.Clause
			if seen[k] {
				continue
			}
			seen[k] = true
			min, mm, mo, err := c20Shrink(rg, c, m)
			if err != nil {
				rec.Inconclusive("while shrinking: " + err.Error())
				return false
			}
			what := fmt.Sprintf("%s: query of client c%d (step %d) ran on backend connection %d with %s=%q, the client requested %q; %s", mm.Clause, min.Steps[mm.Step].Client, mm.Step, mm.BackendID, mm.Var, mm.Actual, mm.Requested, min.describe())
			rec.Violation(c20Sig(min, mm), what, map[string]interface{}{"pool_capacity": min.Cap, "steps": min.Steps, "found_as": c, "found_observed": o, "mismatch": mm, "observed": mo})
		}
		return true
	}

	if p := kit.ReplayPath(); p != "" {
		var c c20Case
		if err := kit.LoadReplay(p, &c); err != nil {
			rec.Inconclusive("cannot load replay: " + err.Error())
			return
		}
		o, err := c20RunCase(rg, c)
		if err != nil {
			rec.Inconclusive(err.Error())
			return
		}
		rec.Eval(1)
		rec.Nontrivial("replay")
		rec.Nontrivial("replay2")
		rec.Sample(map[string]interface{}{"case": c.describe(), "observed": o})
		if len(o.Mis) > 0 {
			report(c, o)
		}
		return
	}

	r := kit.SubRand(kit.Seed(), "C20/cases")
	n := kit.N(2000, 60000)
	for i := 0; i < n; i++ {
		c := c20GenCase(r)
		o, err := c20RunCase(rg, c)
		if err != nil {
			rec.Inconclusive(fmt.Sprintf("case %d (%s): %v", i, c.describe(), err))
			return
		}
		rec.Eval(1)
		rec.Count("queries.checked", int64(o.Queries))
		rec.Count("queries.failed", int64(o.QueryErrs))
		rec.Count("sets.rejected_by_backend", int64(o.Rejected))
		rec.Count("sets.refused_by_proxy", int64(o.SetRefused))
		rec.Count("backend.connections", int64(o.Conns))
		if o.Shared {
			rec.Count("cases.backend_conn_shared", 1)
			rec.Nontrivial(kit.Hash64(c.describe()))
		}
		if o.Rejected > 0 {
			rec.Count("cases.with_rejected_set", 1)
		}
		if i%400 == 0 || len(o.Mis) > 0 {
			tr := o.Trace
			if len(tr) > 30 {
				tr = tr[:30]
			}
			rec.Sample(map[string]interface{}{"case": c.describe(), "replies": o.Replies, "queries_checked": o.Queries, "mismatches": o.Mis, "backend_trace": tr})
		}
		if len(o.Mis) > 0 {
			rec.Count("cases.with_mismatch", 1)
			if !report(c, o) {
				return
			}
		}
	}
	rec.Set("backend_connections_accepted", rg.srv.Accepted())
}
