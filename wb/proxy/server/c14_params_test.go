package server

// C14 — prepared-statement parameters are exactly the SQL grammar's placeholders.
// Monitor (rig R6, ground truth by construction): statements are assembled from lexical
// units whose meaning the generator knows — a real placeholder, a '…' / "…" string, a `…`
// identifier, a "-- …\n", "#…\n" or "/* … */" comment, each with a body made of named pieces
// (?, \', \", '', "", \\, the other quote characters, comment markers, newline). The oracle
// is the construction: CalcParams must report exactly the byte offsets at which the
// generator placed a placeholder unit, and its sqlItems must split the text exactly there.
// Gaea's own parser is used only to check the generator (count/offsets of ParamMarkerExpr);
// a disagreement makes the run inconclusive, never a violation.

import (
	"fmt"
	"sort"
	"strings"
	"testing"

	"github.com/XiaoMi/Gaea/parser"
	"github.com/XiaoMi/Gaea/parser/ast"
	driver "github.com/XiaoMi/Gaea/parser/tidb-types/parser_driver"
	kit "github.com/XiaoMi/Gaea/verifkit"
)

type c14Tok struct {
	Kind string   `json:"kind"` // ph sq dq bq dash hash cc mm
	Body []string `json:"body,omitempty"`
	// Open: dash: what follows the two dashes ("" = space, tab nl cr ff vt c01 c1f c7f eot);
	// cc: the byte right after /* ("" = none, sp tab nl star slash dash).
	Open string `json:"open,omitempty"`
	// Term: dash/hash: the end of the line comment ("" = \n, crnl, eot = end of text);
	// cc: the byte right before */ ("" = none, sp nl star slash).
	Term string `json:"term,omitempty"`
	// Glue: no blank between the previous text and this unit.
	Glue bool `json:"glue,omitempty"`
}

// units without a body:
//   sc    /*!40001 */ executable comment without content ("nc": /*!40001 SQL_NO_CACHE */, only
//         right behind select; "nover": /*! */)
//   scph  /*!40001 ? */ an expression: the ? inside MySQL-specific code is executed, a real placeholder
//   hint  /*+ MAX_EXECUTION_TIME(1000) */ optimizer hint, only right behind select
//   tmul tdiv tsub tmm   *3  /3  -3  --3  continue the previous expression
//   tmulc tmulq tdivc     the same with an ordinary comment between operator and operand, the
//         operator glued to the comment opener ("*/*" reads like a comment end to a scanner
//         that still believes it is inside an earlier /*! */ block)
var c14Fixed = map[string]string{"mm": "1--2", "tmul": "*3", "tdiv": "/3", "tsub": "-3", "tmm": "--3", "scph": "/*!40001 ? */", "tmulc": "*/* why? */3", "tmulq": "*/* it's */3", "tdivc": "/ /* why? */3", "hint": "/*+ MAX_EXECUTION_TIME(1000) */"}
var c14ScText = map[string]string{"": "/*!40001 */", "nc": "/*!40001 SQL_NO_CACHE */", "nover": "/*! */"}

func c14IsTail(kind string) bool {
	return kind == "tmul" || kind == "tdiv" || kind == "tsub" || kind == "tmm" || kind == "tmulc" || kind == "tmulq" || kind == "tdivc"
}
func c14FirstOnly(t c14Tok) bool { return t.Kind == "hint" || (t.Kind == "sc" && t.Open == "nc") }

var c14DashOpen = map[string]string{"": " ", "tab": "\t", "nl": "\n", "cr": "\r", "ff": "\f", "vt": "\v", "c01": "\x01", "c1f": "\x1f", "c7f": "\x7f", "eot": ""}
var c14DashOpens = []string{"", "tab", "nl", "cr", "ff", "vt", "c01", "c1f", "c7f", "eot"}
var c14LineTerm = map[string]string{"": "\n", "crnl": "\r\n", "eot": ""}
var c14LineTerms = []string{"", "crnl", "eot"}
var c14CcOpen = map[string]string{"": "", "sp": " ", "tab": "\t", "nl": "\n", "star": "*", "slash": "/", "dash": "-"}
var c14CcOpens = []string{"", "sp", "tab", "nl", "star", "slash", "dash"}
var c14CcTerm = map[string]string{"": "", "sp": " ", "nl": "\n", "star": "*", "slash": "/"}
var c14CcTerms = []string{"", "sp", "nl", "star", "slash"}

// c14AtEnd: the unit runs to the end of the text (must be the last unit, empty suffix).
func c14AtEnd(t c14Tok) bool {
	return (t.Kind == "dash" && (t.Open == "eot" || (t.Open != "nl" && t.Term == "eot"))) || (t.Kind == "hash" && t.Term == "eot")
}

// c14ParserDisagrees: Gaea's lexer accepts only unicode white space after "--", MySQL also
// control characters; the self-check is skipped for those openers.
func c14ParserDisagrees(c c14Case) bool {
	for _, t := range c.Toks {
		if t.Kind == "dash" && (t.Open == "c01" || t.Open == "c1f" || t.Open == "c7f") {
			return true
		}
	}
	return false
}

type c14Case struct {
	Skel int      `json:"skel"`
	Toks []c14Tok `json:"toks"`
}

var c14PieceText = map[string]string{
	"q": "?", "txt": "a", "sp": " ", "nl": "\n",
	"bs-sq": `\'`, "bs-dq": `\"`, "bs2": `\\`, "bs-n": `\n`, "bs": `\`,
	"sq2": "''", "dq2": `""`, "bq2": "``", "sq": "'", "dq": `"`, "bq": "`",
	"dash": "-- ", "hashc": "#", "cco": "/*", "ccc": "*/",
}

// pieces that may appear in the body of each kind of unit without ending it
var c14Valid = map[string][]string{
	"sq":   {"q", "txt", "sp", "nl", "bs-sq", "bs-dq", "bs2", "bs-n", "sq2", "dq2", "bq2", "dq", "bq", "dash", "hashc", "cco", "ccc"},
	"dq":   {"q", "txt", "sp", "nl", "bs-sq", "bs-dq", "bs2", "bs-n", "sq2", "dq2", "bq2", "sq", "bq", "dash", "hashc", "cco", "ccc"},
	"bq":   {"q", "txt", "sp", "bs", "sq2", "dq2", "bq2", "sq", "dq", "dash", "hashc", "cco", "ccc"},
	"dash": {"q", "txt", "sp", "bs", "bs-sq", "bs-dq", "bs2", "sq2", "dq2", "bq2", "sq", "dq", "bq", "dash", "hashc", "cco", "ccc"},
	"hash": {"q", "txt", "sp", "bs", "bs-sq", "bs-dq", "bs2", "sq2", "dq2", "bq2", "sq", "dq", "bq", "dash", "hashc", "cco", "ccc"},
	"cc":   {"q", "txt", "sp", "nl", "bs", "bs-sq", "bs-dq", "bs2", "sq2", "dq2", "bq2", "sq", "dq", "bq", "dash", "hashc", "cco"},
}

// simpler piece that keeps the same special character (used by the shrinker)
var c14Simpler = map[string]string{"bs-sq": "sq", "bs-dq": "dq", "sq2": "sq", "dq2": "dq", "bq2": "bq", "bs2": "bs", "bs-n": "txt",
	"dash": "txt", "hashc": "txt", "cco": "txt", "ccc": "txt", "sp": "txt", "nl": "txt"}

var c14Skels = [][2]string{{"select", " from t"}, {"select 1 from t where c in (", ")"}, {"insert into t values (", ")"}, {"select", ""}}

func c14PieceOK(kind, piece string) bool {
	for _, p := range c14Valid[kind] {
		if p == piece {
			return true
		}
	}
	return false
}

// c14TokText renders one unit; ok=false if the body would end the unit early.
func c14TokText(t c14Tok) (string, bool) {
	if t.Kind == "sc" {
		txt, ok := c14ScText[t.Open]
		return txt, ok && len(t.Body) == 0 && t.Term == ""
	}
	if t.Kind != "dash" && t.Kind != "hash" && t.Kind != "cc" && (t.Open != "" || t.Term != "") {
		return "", false
	}
	if t.Kind == "ph" {
		return "?", len(t.Body) == 0
	}
	if txt, ok := c14Fixed[t.Kind]; ok {
		// mm / tmm: "--" not followed by white space is two minus signs, not a comment
		return txt, len(t.Body) == 0
	}
	var b strings.Builder
	for _, p := range t.Body {
		if !c14PieceOK(t.Kind, p) {
			return "", false
		}
		b.WriteString(c14PieceText[p])
	}
	body := b.String()
	switch t.Kind {
	case "sq":
		return "'" + body + "'", true
	case "dq":
		return `"` + body + `"`, true
	case "bq":
		return "`c" + body + "`", true
	case "dash":
		op, ok1 := c14DashOpen[t.Open]
		tm, ok2 := c14LineTerm[t.Term]
		if !ok1 || !ok2 {
			return "", false
		}
		switch t.Open {
		case "nl": // the line break that makes "--" a comment also ends it
			return "--\n", len(t.Body) == 0 && t.Term == ""
		case "eot":
			return "--", len(t.Body) == 0 && t.Term == ""
		}
		return "--" + op + body + tm, true
	case "hash":
		tm, ok := c14LineTerm[t.Term]
		if !ok || t.Open != "" {
			return "", false
		}
		return "#" + body + tm, true
	case "cc":
		op, ok1 := c14CcOpen[t.Open]
		tm, ok2 := c14CcTerm[t.Term]
		if !ok1 || !ok2 {
			return "", false
		}
		full := "/*" + op + body + tm + "*/" // never /*! or /*+
		// the first */ must be the closing one
		if strings.Index(full[2:], "*/") != len(full)-4 {
			return "", false
		}
		return full, true
	}
	return "", false
}

func c14IsComment(kind string) bool {
	return kind == "dash" || kind == "hash" || kind == "cc" || kind == "sc" || kind == "hint"
}

func c14Alnum(c byte) bool {
	return c == '_' || (c >= '0' && c <= '9') || (c >= 'a' && c <= 'z') || (c >= 'A' && c <= 'Z')
}

// c14Build assembles the statement and the construction's ground truth.
func c14Build(c c14Case) (sql string, want []int, ok bool) {
	if c.Skel < 0 || c.Skel >= len(c14Skels) {
		return "", nil, false
	}
	var b strings.Builder
	b.WriteString(c14Skels[c.Skel][0])
	want = []int{}
	need := false
	for i, t := range c.Toks {
		txt, tok := c14TokText(t)
		if !tok {
			return "", nil, false
		}
		if c14AtEnd(t) {
			if i != len(c.Toks)-1 || c14Skels[c.Skel][1] != "" {
				return "", nil, false
			}
			if !need {
				b.WriteString(" 1")
				need = true
			}
		}
		if c14FirstOnly(t) && (i != 0 || c14Skels[c.Skel][0] != "select") {
			return "", nil, false
		}
		if c14IsTail(t.Kind) {
			if !need {
				return "", nil, false // nothing to continue
			}
		} else if !c14IsComment(t.Kind) && need {
			b.WriteString(",")
		}
		if !t.Glue {
			b.WriteString(" ")
		} else if last := b.String()[b.Len()-1]; c14Alnum(last) && c14Alnum(txt[0]) {
			return "", nil, false // would merge two words
		}
		switch t.Kind {
		case "ph":
			want = append(want, b.Len())
		case "scph":
			want = append(want, b.Len()+strings.Index(txt, "?"))
		}
		b.WriteString(txt)
		if !c14IsComment(t.Kind) {
			need = true
		}
	}
	if !need {
		b.WriteString(" 1")
	}
	b.WriteString(c14Skels[c.Skel][1])
	return b.String(), want, true
}

// c14Judge runs the real CalcParams and compares with the construction.
func c14Judge(sql string, want []int) (clause, detail string) {
	defer func() {
		if r := recover(); r != nil {
			clause, detail = "panic", fmt.Sprint(r)
		}
	}()
	count, offs, items, err := CalcParams(sql)
	if err != nil {
		return "refused", err.Error()
	}
	if count != len(want) || len(offs) != len(want) {
		return "wrong-params", fmt.Sprintf("count=%d offsets=%v, construction has %d at %v", count, offs, len(want), want)
	}
	for i := range want {
		if offs[i] != want[i] {
			return "wrong-params", fmt.Sprintf("offsets=%v, construction has %v", offs, want)
		}
	}
	if strings.Join(items, "") != sql {
		return "wrong-items", "sqlItems do not concatenate to the statement"
	}
	pos, k, marks := 0, 0, 0
	for _, it := range items {
		if it == "?" {
			marks++
			if k < len(want) && pos == want[k] {
				k++
			}
		}
		pos += len(it)
	}
	if marks != len(want) || k != len(want) {
		return "wrong-items", fmt.Sprintf("sqlItems mark %d parameters (%d at constructed offsets), construction has %d", marks, k, len(want))
	}
	return "", ""
}

type c14Visitor struct{ offs []int }

func (v *c14Visitor) Enter(n ast.Node) (ast.Node, bool) {
	if p, ok := n.(*driver.ParamMarkerExpr); ok {
		v.offs = append(v.offs, p.Offset)
	}
	return n, false
}
func (v *c14Visitor) Leave(n ast.Node) (ast.Node, bool) { return n, true }

// c14SelfCheck asks Gaea's parser; returns "" when it agrees with the construction.
func c14SelfCheck(p *parser.Parser, sql string, want []int) string {
	stmts, _, err := p.Parse(sql, "", "")
	if err != nil || len(stmts) != 1 {
		return fmt.Sprintf("parser rejects generated statement %q: %v", sql, err)
	}
	v := &c14Visitor{}
	stmts[0].Accept(v)
	sort.Ints(v.offs)
	if len(v.offs) != len(want) {
		return fmt.Sprintf("parser sees %d markers at %v, generator placed %d at %v in %q", len(v.offs), v.offs, len(want), want, sql)
	}
	for i := range want {
		if v.offs[i] != want[i] {
			return fmt.Sprintf("parser sees markers at %v, generator placed them at %v in %q", v.offs, want, sql)
		}
	}
	return ""
}

func c14Fails(c c14Case) bool {
	sql, want, ok := c14Build(c)
	if !ok {
		return false
	}
	cl, _ := c14Judge(sql, want)
	return cl != ""
}

func c14Clone(c c14Case) c14Case {
	d := c14Case{Skel: c.Skel, Toks: make([]c14Tok, len(c.Toks))}
	for i, t := range c.Toks {
		d.Toks[i] = c14Tok{Kind: t.Kind, Body: append([]string{}, t.Body...), Open: t.Open, Term: t.Term, Glue: t.Glue}
	}
	return d
}

// c14Shrink greedily removes units / pieces / escapes while the case still fails.
func c14Shrink(c c14Case) c14Case {
	c = c14Clone(c)
	// fast path: a single unit of the case that fails on its own
	if len(c.Toks) > 1 {
		for _, t := range c.Toks {
			d := c14Case{Skel: c.Skel, Toks: []c14Tok{t}}
			if c14Fails(d) {
				c = c14Clone(d)
				break
			}
		}
	}
	for changed := true; changed; {
		changed = false
		if c.Skel != 0 {
			d := c14Clone(c)
			d.Skel = 0
			if c14Fails(d) {
				c, changed = d, true
				continue
			}
		}
		for i := 0; i < len(c.Toks) && !changed; i++ {
			d := c14Clone(c)
			d.Toks = append(d.Toks[:i], d.Toks[i+1:]...)
			if c14Fails(d) {
				c, changed = d, true
			}
		}
		for i := 0; i < len(c.Toks) && !changed; i++ {
			for j := 0; j < len(c.Toks[i].Body) && !changed; j++ {
				d := c14Clone(c)
				d.Toks[i].Body = append(d.Toks[i].Body[:j], d.Toks[i].Body[j+1:]...)
				if c14Fails(d) {
					c, changed = d, true
				}
			}
		}
		// canonical probe: a piece of a unit that is wrongly read as code is replaced by a ?
		for i := 0; i < len(c.Toks) && !changed; i++ {
			for j := 0; j < len(c.Toks[i].Body) && !changed; j++ {
				if c.Toks[i].Body[j] == "q" || !c14PieceOK(c.Toks[i].Kind, "q") {
					continue
				}
				d := c14Clone(c)
				d.Toks[i].Body[j] = "q"
				if c14Fails(d) {
					c, changed = d, true
				}
			}
		}
		// a blank in front of a glued unit
		for i := 0; i < len(c.Toks) && !changed; i++ {
			if c.Toks[i].Glue {
				d := c14Clone(c)
				d.Toks[i].Glue = false
				if c14Fails(d) {
					c, changed = d, true
				}
			}
		}
		// default opener / terminator of a comment
		for i := 0; i < len(c.Toks) && !changed; i++ {
			if c.Toks[i].Open != "" {
				d := c14Clone(c)
				d.Toks[i].Open = ""
				if c14Fails(d) {
					c, changed = d, true
					continue
				}
			}
			if c.Toks[i].Term != "" {
				d := c14Clone(c)
				d.Toks[i].Term = ""
				if c14Fails(d) {
					c, changed = d, true
				}
			}
		}
		// two at a time (an even number of quotes cancels out for a toggling scanner)
		for i := 0; i < len(c.Toks) && !changed; i++ {
			for j := i + 1; j < len(c.Toks) && !changed; j++ {
				d := c14Clone(c)
				d.Toks = append(append(d.Toks[:i:i], d.Toks[i+1:j]...), d.Toks[j+1:]...)
				if c14Fails(d) {
					c, changed = d, true
				}
			}
		}
		for i := 0; i < len(c.Toks) && !changed; i++ {
			b := c.Toks[i].Body
			for j := 0; j < len(b) && !changed; j++ {
				for k := j + 1; k < len(b) && !changed; k++ {
					d := c14Clone(c)
					d.Toks[i].Body = append(append(append([]string{}, b[:j]...), b[j+1:k]...), b[k+1:]...)
					if c14Fails(d) {
						c, changed = d, true
					}
				}
			}
		}
		for i := 0; i < len(c.Toks) && !changed; i++ {
			for j := 0; j < len(c.Toks[i].Body) && !changed; j++ {
				s, ok := c14Simpler[c.Toks[i].Body[j]]
				if !ok || !c14PieceOK(c.Toks[i].Kind, s) {
					continue
				}
				d := c14Clone(c)
				d.Toks[i].Body[j] = s
				if c14Fails(d) {
					c, changed = d, true
				}
			}
		}
	}
	return c
}

func c14Desc(t c14Tok) string {
	g := ""
	if t.Glue {
		g = "+"
	}
	if _, fixed := c14Fixed[t.Kind]; fixed || t.Kind == "ph" {
		return g + t.Kind
	}
	if t.Kind == "sc" {
		if t.Open != "" {
			return g + "sc<" + t.Open + ">"
		}
		return g + "sc"
	}
	d := g + t.Kind
	if t.Open != "" {
		d += "<" + t.Open + ">"
	}
	d += "[" + strings.Join(t.Body, ",") + "]"
	if t.Term != "" {
		d += "<" + t.Term + ">"
	}
	return d
}

func c14Sig(c c14Case) (sig, what string) {
	sql, want, _ := c14Build(c)
	cl, detail := c14Judge(sql, want)
	ds := make([]string, len(c.Toks))
	for i, t := range c.Toks {
		ds[i] = c14Desc(t)
	}
	return cl + "/" + strings.Join(ds, " "), fmt.Sprintf("CalcParams(%q): %s (%s); real placeholders by construction at %v", sql, cl, detail, want)
}

// the fixed alphabet of the exhaustive sequence enumeration
var c14Alphabet = []c14Tok{
	{Kind: "ph"},
	{Kind: "sq", Body: []string{"txt", "q"}},
	{Kind: "sq", Body: []string{"bs-sq", "q"}},
	{Kind: "sq", Body: []string{"sq2", "q"}},
	{Kind: "sq", Body: []string{"q", "bs2"}},
	{Kind: "sq", Body: []string{"dq", "q"}},
	{Kind: "dq", Body: []string{"txt", "q"}},
	{Kind: "dq", Body: []string{"bs-dq", "q"}},
	{Kind: "dq", Body: []string{"dq2", "q"}},
	{Kind: "dq", Body: []string{"sq", "q"}},
	{Kind: "bq", Body: []string{"q"}},
	{Kind: "dash", Body: []string{"q", "sq"}},
	{Kind: "hash", Body: []string{"q", "dq"}},
	{Kind: "cc", Body: []string{"q", "sq"}},
	{Kind: "mm"},
	{Kind: "dash", Open: "tab", Body: []string{"q", "sq"}},
}

func TestVerif_C14(t *testing.T) {
	rec := kit.Start("C14", "exploration", "statements assembled from lexical units (placeholder, '…', \"…\", `…`, -- …, #…, /*…*/, 1--2) whose bodies are sequences of named pieces (?, \\', \\\", '', \"\", \\\\, other quote chars, comment markers, newline) in 3 statement skeletons; (a) every unit with every body up to a length bound, alone and next to a real placeholder, (a2) every opener/terminator of the comment units (what follows --, how a line comment ends, bytes after /* and before */), (a3) every ordered pair of 25 unit prototypes (incl. /*! */, /*!40001 ? */, /*+ */ and the expression tails *3 /3 -3 --3 */* why? */3 */* it's */3) glued without a blank, (b) every sequence of a 16-unit alphabet up to a length bound, (c) random sequences of random units; non-trivial = distinct (set of unit descriptions, number of real placeholders, outcome)")
	rec.Assume("default sql_mode: backslash is an escape inside '…' and \"…\", \"…\" is a string (no ANSI_QUOTES, no NO_BACKSLASH_ESCAPES)")
	rec.Assume("/*! … */ is executed by the server: a ? inside it is a real placeholder; only the fixed forms /*!40001 */, /*!40001 SQL_NO_CACHE */, /*! */, /*!40001 ? */ and the hint /*+ MAX_EXECUTION_TIME(1000) */ are generated")
	defer rec.Finish(t)
	lxQuietLogs()
	ps := parser.New()

	sigSeen := map[string]bool{}
	shrunkOf := map[string]string{} // memo: description of a single failing unit -> signature
	selfBad := 0
	samples := 0

	violate := func(c c14Case) {
		memoKey := ""
		for _, tk := range c.Toks {
			d := c14Case{Skel: c.Skel, Toks: []c14Tok{tk}}
			if c14Fails(d) {
				memoKey = fmt.Sprint(c.Skel, c14Desc(tk))
				break
			}
		}
		if memoKey != "" {
			if sig, ok := shrunkOf[memoKey]; ok {
				rec.Violation(sig, "", nil)
				return
			}
		}
		m := c14Shrink(c)
		sig, what := c14Sig(m)
		if memoKey != "" {
			shrunkOf[memoKey] = sig
		}
		if sigSeen[sig] {
			rec.Violation(sig, "", nil)
			return
		}
		sigSeen[sig] = true
		rec.Violation(sig, what, m)
	}

	// runOne judges one case; selfCheck also asks the parser about the generator.
	runOne := func(c c14Case, selfCheck bool, ntKey string) {
		sql, want, ok := c14Build(c)
		if !ok {
			rec.Count("generator.invalid_skipped", 1)
			return
		}
		if selfCheck && c14ParserDisagrees(c) {
			rec.Count("selfcheck.skipped_control_char_after_dashes", 1)
			selfCheck = false
		}
		if selfCheck {
			rec.Count("selfcheck.parsed", 1)
			if msg := c14SelfCheck(ps, sql, want); msg != "" {
				selfBad++
				if selfBad <= 3 {
					rec.Inconclusive("C14 generator self-check: " + msg)
				}
				return
			}
		}
		cl, _ := c14Judge(sql, want)
		rec.Count("calls.CalcParams", 1)
		out := "ok"
		if cl != "" {
			out = cl
			rec.Count("outcome."+cl, 1)
			violate(c)
		} else {
			rec.Count("outcome.agrees", 1)
			if samples < 5 && len(want) > 0 && len(c.Toks) >= 3 {
				samples++
				rec.Sample(map[string]interface{}{"sql": sql, "placeholders_at": want})
			}
		}
		if ntKey != "" {
			rec.Nontrivial(ntKey + "#" + fmt.Sprint(len(want)) + "/" + out)
		}
	}

	if p := kit.ReplayPath(); p != "" {
		var c c14Case
		if err := kit.LoadReplay(p, &c); err != nil {
			t.Fatal(err)
		}
		rec.Eval(1)
		runOne(c, true, "replay")
		rec.Nontrivial("replay")
		sql, want, _ := c14Build(c)
		rec.Sample(map[string]interface{}{"sql": sql, "placeholders_at": want})
		return
	}

	evals := 0
	// (a) every unit with every body of up to maxBody pieces, alone / after / before a placeholder
	maxBody := kit.N(2, 3)
	kinds := []string{"sq", "dq", "bq", "dash", "hash", "cc"}
	for ki, kind := range kinds {
		pieces := c14Valid[kind]
		var bodies [][]string
		bodies = append(bodies, []string{})
		frontier := [][]string{{}}
		for l := 1; l <= maxBody; l++ {
			var next [][]string
			for _, b := range frontier {
				for _, p := range pieces {
					nb := append(append([]string{}, b...), p)
					next = append(next, nb)
				}
			}
			bodies = append(bodies, next...)
			frontier = next
		}
		for bi, body := range bodies {
			tk := c14Tok{Kind: kind, Body: body}
			d := c14Desc(tk)
			skel := (ki + bi) % len(c14Skels)
			for arr, toks := range [][]c14Tok{{tk}, {{Kind: "ph"}, tk}, {tk, {Kind: "ph"}}, {{Kind: "ph"}, tk, {Kind: "ph"}}} {
				evals++
				runOne(c14Case{Skel: skel, Toks: toks}, true, fmt.Sprintf("a%d/%s", arr, d))
			}
		}
	}
	rec.Set("units_enumerated_body_len", maxBody)

	// (a2) every opener / terminator of the comment units: what follows "--" (space, tab,
	// line break, CR, FF, VT, other control bytes, end of text), how a "-- " / "#" comment ends
	// (\n, \r\n, end of text), the bytes right after /* and right before */
	maxVarBody := kit.N(1, 2)
	type c14oc struct{ open, term string }
	variants := map[string][]c14oc{}
	for _, o := range c14DashOpens {
		for _, tm := range c14LineTerms {
			variants["dash"] = append(variants["dash"], c14oc{o, tm})
		}
	}
	for _, tm := range c14LineTerms {
		variants["hash"] = append(variants["hash"], c14oc{"", tm})
	}
	for _, o := range c14CcOpens {
		for _, tm := range c14CcTerms {
			variants["cc"] = append(variants["cc"], c14oc{o, tm})
		}
	}
	nvar := 0
	for _, kind := range []string{"dash", "hash", "cc"} {
		pieces := c14Valid[kind]
		bodies := [][]string{{}}
		frontier := [][]string{{}}
		for l := 1; l <= maxVarBody; l++ {
			var next [][]string
			for _, b := range frontier {
				for _, p := range pieces {
					next = append(next, append(append([]string{}, b...), p))
				}
			}
			bodies = append(bodies, next...)
			frontier = next
		}
		for vi, v := range variants[kind] {
			if v.open == "" && v.term == "" {
				continue // done in (a)
			}
			for bi, body := range bodies {
				tk := c14Tok{Kind: kind, Body: body, Open: v.open, Term: v.term}
				if _, ok := c14TokText(tk); !ok {
					continue
				}
				d := c14Desc(tk)
				skel := (vi + bi) % len(c14Skels)
				arrs := [][]c14Tok{{tk}, {{Kind: "ph"}, tk}, {tk, {Kind: "ph"}}, {{Kind: "ph"}, tk, {Kind: "ph"}}}
				if c14AtEnd(tk) {
					skel = 3
					arrs = arrs[:2]
				}
				for arr, toks := range arrs {
					evals++
					nvar++
					runOne(c14Case{Skel: skel, Toks: toks}, true, fmt.Sprintf("v%d/%s", arr, d))
				}
			}
		}
	}
	rec.Set("opener_terminator_variant_cases", nvar)

	// (a3) glue: every ordered pair of unit prototypes with no blank between them (and with /
	// without a blank in front of the first), alone, before a real placeholder and between two
	protos := []c14Tok{{Kind: "ph"}, {Kind: "sq", Body: []string{"txt"}}, {Kind: "sq", Body: []string{"q"}}, {Kind: "dq", Body: []string{"q"}},
		{Kind: "bq", Body: []string{"q"}}, {Kind: "dash", Body: []string{"q"}}, {Kind: "dash", Open: "tab", Body: []string{"q"}}, {Kind: "hash", Body: []string{"q"}},
		{Kind: "cc", Body: []string{"q"}}, {Kind: "cc"}, {Kind: "cc", Open: "star"}, {Kind: "cc", Open: "slash", Body: []string{"q"}},
		{Kind: "sc"}, {Kind: "sc", Open: "nc"}, {Kind: "sc", Open: "nover"}, {Kind: "scph"}, {Kind: "hint"}, {Kind: "mm"},
		{Kind: "tmul"}, {Kind: "tdiv"}, {Kind: "tsub"}, {Kind: "tmm"}, {Kind: "tmulc"}, {Kind: "tmulq"}, {Kind: "tdivc"}}
	nglue := 0
	for ai, a := range protos {
		for bi, b := range protos {
			for _, firstGlued := range []bool{false, true} {
				a2, b2 := a, b
				a2.Glue, b2.Glue = firstGlued, true
				d := c14Desc(a2) + " " + c14Desc(b2)
				for arr, toks := range [][]c14Tok{{a2, b2}, {a2, b2, {Kind: "ph"}}, {{Kind: "ph"}, a2, b2, {Kind: "ph"}}, {{Kind: "ph"}, a2, b2, {Kind: "ph", Glue: true}}} {
					skel := []int{0, 3, 1, 2}[(ai+bi+arr)%4]
					if c14FirstOnly(a) {
						skel = []int{0, 3}[(bi+arr)%2]
					}
					c := c14Case{Skel: skel, Toks: toks}
					if _, _, ok := c14Build(c); !ok {
						continue
					}
					evals++
					nglue++
					runOne(c, true, fmt.Sprintf("g%d/%s", arr, d))
				}
			}
		}
	}
	rec.Set("glue_pair_cases", nglue)

	// (b) every sequence over the fixed alphabet up to maxLen
	maxLen := kit.N(3, 6)
	na := len(c14Alphabet)
	for l := 1; l <= maxLen; l++ {
		idx := make([]int, l)
		n := 0
		for {
			toks := make([]c14Tok, l)
			mask := 0
			for i, x := range idx {
				toks[i] = c14Alphabet[x]
				mask |= 1 << uint(x)
			}
			n++
			evals++
			runOne(c14Case{Skel: (n + l) % len(c14Skels), Toks: toks}, l <= 3 || n%997 == 0, fmt.Sprintf("b/%x", mask))
			i := l - 1
			for i >= 0 {
				idx[i]++
				if idx[i] < na {
					break
				}
				idx[i] = 0
				i--
			}
			if i < 0 {
				break
			}
		}
	}
	rec.Set("alphabet_sequences_max_len", maxLen)
	rec.Exhaustive(true)

	// (c) random sequences of random units
	r := kit.SubRand(kit.Seed(), "C14/random")
	nRand := kit.N(20000, 1000000)
	for i := 0; i < nRand; i++ {
		nt := r.Range(1, 8)
		c := c14Case{Skel: r.Intn(len(c14Skels))}
		nph := 0
		var ds []string
		for j := 0; j < nt; j++ {
			if nph < 6 && r.Chance(1, 3) {
				c.Toks = append(c.Toks, c14Tok{Kind: "ph", Glue: r.Chance(1, 3)})
				nph++
				continue
			}
			if r.Chance(1, 8) {
				k := r.Pick([]string{"mm", "tmul", "tdiv", "tsub", "tmm", "sc", "scph", "tmulc", "tmulq", "tdivc"})
				tk := c14Tok{Kind: k, Glue: r.Chance(1, 2)}
				if k == "scph" {
					if nph >= 6 {
						continue
					}
					nph++
				}
				c.Toks = append(c.Toks, tk)
				ds = append(ds, c14Desc(tk))
				continue
			}
			kind := kinds[r.Intn(len(kinds))]
			tk := c14Tok{Kind: kind}
			for k := r.Intn(5); k > 0; k-- {
				tk.Body = append(tk.Body, r.Pick(c14Valid[kind]))
			}
			for len(tk.Body) > 0 {
				if _, ok := c14TokText(tk); ok {
					break
				}
				tk.Body = tk.Body[:len(tk.Body)-1]
			}
			if r.Chance(1, 2) {
				v := tk
				switch kind {
				case "dash":
					v.Open, v.Term = r.Pick(c14DashOpens[:9]), r.Pick(c14LineTerms[:2])
				case "hash":
					v.Term = r.Pick(c14LineTerms[:2])
				case "cc":
					v.Open, v.Term = r.Pick(c14CcOpens), r.Pick(c14CcTerms)
				}
				if _, ok := c14TokText(v); ok {
					tk = v
				}
			}
			tk.Glue = r.Chance(1, 3)
			c.Toks = append(c.Toks, tk)
			u := append([]string{}, tk.Body...)
			u = append(u, "<"+tk.Open+tk.Term+">", fmt.Sprint(tk.Glue))
			sort.Strings(u)
			ds = append(ds, kind+strings.Join(u, ""))
		}
		sort.Strings(ds)
		evals++
		runOne(c, i%10 == 0, "c/"+kit.Hash64(strings.Join(ds, " ")))
	}
	rec.Eval(evals)
	if selfBad > 3 {
		rec.Inconclusive(fmt.Sprintf("C14 generator self-check failed on %d statements in total", selfBad))
	}
}
