package server

// Independent MySQL literal lexer used by the prepared-statement monitors (C15, C16).
//
// It is written from the description of MySQL's lexer (sql_lex.cc: get_text, number states)
// and shares nothing with Gaea's parser or escaping code. It answers one question: at byte
// offset pos of a statement text that a MySQL server would lex under a given sql_mode
// (NO_BACKSLASH_ESCAPES or not) and character_set_client, which literal token starts there,
// where does it end and which value does it denote.

import (
	"bytes"
	"fmt"
	"math"
	"math/big"
	"strconv"
	"strings"
)

// psTok is one literal token.
type psTok struct {
	Kind         string // str | hex | int | dec | float | null | bad
	Bytes        []byte // value of str / hex
	Num          string // text of a numeric token, including a leading '-'
	End          int    // offset just after the token
	Unterminated bool   // a string literal that runs to the end of the text
}

// psMBLen returns the length (>1) of a valid multi-byte character of charset cs starting at
// b[i], or 0. Only character sets whose trail bytes can collide with ASCII matter here.
func psMBLen(cs string, b []byte, i int) int {
	if i+1 >= len(b) {
		return 0
	}
	l, t := b[i], b[i+1]
	switch cs {
	case "gbk", "gb18030":
		if l >= 0x81 && l <= 0xfe && ((t >= 0x40 && t <= 0x7e) || (t >= 0x80 && t <= 0xfe)) {
			return 2
		}
		if cs == "gb18030" && i+3 < len(b) && l >= 0x81 && l <= 0xfe && t >= 0x30 && t <= 0x39 &&
			b[i+2] >= 0x81 && b[i+2] <= 0xfe && b[i+3] >= 0x30 && b[i+3] <= 0x39 {
			return 4
		}
	case "big5":
		if l >= 0xa1 && l <= 0xf9 && ((t >= 0x40 && t <= 0x7e) || (t >= 0xa1 && t <= 0xfe)) {
			return 2
		}
	case "sjis", "cp932":
		if ((l >= 0x81 && l <= 0x9f) || (l >= 0xe0 && l <= 0xfc)) && ((t >= 0x40 && t <= 0x7e) || (t >= 0x80 && t <= 0xfc)) {
			return 2
		}
	}
	return 0
}

func psIsDigit(c byte) bool { return c >= '0' && c <= '9' }
func psIsHex(c byte) bool {
	return psIsDigit(c) || (c >= 'a' && c <= 'f') || (c >= 'A' && c <= 'F')
}
func psIsIdent(c byte) bool {
	return psIsDigit(c) || (c >= 'a' && c <= 'z') || (c >= 'A' && c <= 'Z') || c == '_' || c == '$' || c >= 0x80
}

// psLexString lexes a quoted string starting at text[pos] (a quote character).
func psLexString(text []byte, pos int, nbe bool, cs string) psTok {
	sep := text[pos]
	var val []byte
	i := pos + 1
	for i < len(text) {
		if n := psMBLen(cs, text, i); n > 0 {
			val = append(val, text[i:i+n]...)
			i += n
			continue
		}
		c := text[i]
		if c == '\\' && !nbe {
			if i+1 >= len(text) {
				return psTok{Kind: "str", Bytes: val, End: len(text), Unterminated: true}
			}
			e := text[i+1]
			switch e {
			case 'n':
				val = append(val, '\n')
			case 't':
				val = append(val, '\t')
			case 'r':
				val = append(val, '\r')
			case 'b':
				val = append(val, '\b')
			case '0':
				val = append(val, 0)
			case 'Z':
				val = append(val, 0x1a)
			case '_', '%':
				val = append(val, '\\', e)
			default:
				val = append(val, e)
			}
			i += 2
			continue
		}
		if c == sep {
			if i+1 < len(text) && text[i+1] == sep {
				val = append(val, sep)
				i += 2
				continue
			}
			return psTok{Kind: "str", Bytes: val, End: i + 1}
		}
		val = append(val, c)
		i++
	}
	return psTok{Kind: "str", Bytes: val, End: len(text), Unterminated: true}
}

// psLexLiteral lexes the literal token starting at text[pos].
func psLexLiteral(text []byte, pos int, nbe bool, cs string) psTok {
	if pos >= len(text) {
		return psTok{Kind: "bad", End: pos}
	}
	c := text[pos]
	switch {
	case c == '\'' || c == '"':
		return psLexString(text, pos, nbe, cs)
	case (c == 'x' || c == 'X') && pos+1 < len(text) && text[pos+1] == '\'':
		i := pos + 2
		for i < len(text) && psIsHex(text[i]) {
			i++
		}
		if i < len(text) && text[i] == '\'' && (i-pos-2)%2 == 0 {
			v := make([]byte, (i-pos-2)/2)
			for k := range v {
				x, _ := strconv.ParseUint(string(text[pos+2+2*k:pos+4+2*k]), 16, 8)
				v[k] = byte(x)
			}
			return psTok{Kind: "hex", Bytes: v, End: i + 1}
		}
		return psTok{Kind: "bad", End: pos}
	case c == '0' && pos+2 < len(text) && text[pos+1] == 'x' && psIsHex(text[pos+2]):
		i := pos + 2
		for i < len(text) && psIsHex(text[i]) {
			i++
		}
		if i < len(text) && psIsIdent(text[i]) {
			return psTok{Kind: "bad", End: pos}
		}
		h := string(text[pos+2 : i])
		if len(h)%2 == 1 {
			h = "0" + h
		}
		v := make([]byte, len(h)/2)
		for k := range v {
			x, _ := strconv.ParseUint(h[2*k:2*k+2], 16, 8)
			v[k] = byte(x)
		}
		return psTok{Kind: "hex", Bytes: v, End: i}
	case c == 'n' || c == 'N':
		if pos+4 <= len(text) && strings.EqualFold(string(text[pos:pos+4]), "null") && (pos+4 == len(text) || !psIsIdent(text[pos+4])) {
			return psTok{Kind: "null", End: pos + 4}
		}
		return psTok{Kind: "bad", End: pos}
	}
	// numbers, with at most one leading minus sign
	i := pos
	if c == '-' {
		i++
	}
	start := i
	for i < len(text) && psIsDigit(text[i]) {
		i++
	}
	intDigits := i - start
	kind := "int"
	fracDigits := 0
	if i < len(text) && text[i] == '.' {
		j := i + 1
		for j < len(text) && psIsDigit(text[j]) {
			j++
		}
		fracDigits = j - i - 1
		if intDigits+fracDigits > 0 {
			kind = "dec"
			i = j
		}
	}
	if intDigits+fracDigits == 0 {
		return psTok{Kind: "bad", End: pos}
	}
	if i < len(text) && (text[i] == 'e' || text[i] == 'E') {
		j := i + 1
		if j < len(text) && (text[j] == '+' || text[j] == '-') {
			j++
		}
		k := j
		for k < len(text) && psIsDigit(text[k]) {
			k++
		}
		if k > j {
			kind = "float"
			i = k
		}
	}
	if i < len(text) && psIsIdent(text[i]) {
		// digits running into identifier characters are an identifier for MySQL
		return psTok{Kind: "bad", End: pos}
	}
	return psTok{Kind: kind, Num: string(text[pos:i]), End: i}
}

// psWalk lexes text along the template pieces: text must be pieces[0] + L1 + pieces[1] +
// ... + Ln + pieces[n] where every Li is exactly one literal token as the backend would
// lex it. It returns the tokens, or the index of the failing placeholder and the clause:
//
//	prefix        text does not start with pieces[0]
//	not_literal   no literal token starts where placeholder i was
//	unterminated  the string literal of placeholder i never ends (swallows the rest)
//	structure     after the token of placeholder i the template does not continue
//	              (the literal ended early or late: the statement's structure changed)
func psWalk(pieces []string, text []byte, nbe bool, cs string) (toks []psTok, failAt int, clause string) {
	if !bytes.HasPrefix(text, []byte(pieces[0])) {
		return nil, 0, "prefix"
	}
	pos := len(pieces[0])
	for i := 1; i < len(pieces); i++ {
		tk := psLexLiteral(text, pos, nbe, cs)
		if tk.Kind == "bad" {
			return toks, i - 1, "not_literal"
		}
		if tk.Unterminated {
			return toks, i - 1, "unterminated"
		}
		rest := text[tk.End:]
		if i == len(pieces)-1 {
			if string(rest) != pieces[i] {
				return toks, i - 1, "structure"
			}
		} else if !bytes.HasPrefix(rest, []byte(pieces[i])) {
			return toks, i - 1, "structure"
		}
		toks = append(toks, tk)
		pos = tk.End + len(pieces[i])
	}
	return toks, -1, ""
}

// ------------------------------------------------------------------ expected values

// psWant is the value a placeholder was bound to, in the monitor's own terms.
type psWant struct {
	Kind  string `json:"kind"`            // null | int | f32 | f64 | bytes | date | datetime | time
	Int   string `json:"int,omitempty"`   // decimal text of the exact integer
	Bits  uint64 `json:"bits,omitempty"`  // IEEE bits of f32 (low 32) / f64
	Bytes []byte `json:"bytes,omitempty"` // bytes of a string / blob
	// temporal fields: date/datetime: Y M D h m s us; time: Neg, H (days*24+hours) m s us
	T   [7]int `json:"t,omitempty"`
	Neg bool   `json:"neg,omitempty"`
}

// psParseTemporal parses 'YYYY-MM-DD[ hh:mm:ss[.f]]'.
func psParseDateTime(s string) (t [7]int, hasTime bool, ok bool) {
	datePart, timePart := s, ""
	if i := strings.IndexByte(s, ' '); i >= 0 {
		datePart, timePart = s[:i], s[i+1:]
		hasTime = true
	}
	dp := strings.Split(datePart, "-")
	if len(dp) != 3 {
		return t, false, false
	}
	for k := 0; k < 3; k++ {
		if dp[k] == "" || len(dp[k]) > 5 {
			return t, false, false
		}
		n, err := strconv.Atoi(dp[k])
		if err != nil || n < 0 || strings.TrimLeft(dp[k], "0123456789") != "" {
			return t, false, false
		}
		t[k] = n
	}
	if hasTime {
		h, m, sec, us, neg, ok2 := psParseClock(timePart)
		if !ok2 || neg {
			return t, false, false
		}
		t[3], t[4], t[5], t[6] = h, m, sec, us
	}
	return t, hasTime, true
}

// psParseClock parses '[-]h+:mm:ss[.f{1,6}]'.
func psParseClock(s string) (h, m, sec, us int, neg bool, ok bool) {
	if strings.HasPrefix(s, "-") {
		neg = true
		s = s[1:]
	}
	frac := ""
	if i := strings.IndexByte(s, '.'); i >= 0 {
		frac = s[i+1:]
		s = s[:i]
		if frac == "" || len(frac) > 6 || strings.TrimLeft(frac, "0123456789") != "" {
			return 0, 0, 0, 0, false, false
		}
		for len(frac) < 6 {
			frac += "0"
		}
	}
	p := strings.Split(s, ":")
	if len(p) != 3 {
		return 0, 0, 0, 0, false, false
	}
	v := [3]int{}
	for k := 0; k < 3; k++ {
		if p[k] == "" || len(p[k]) > 4 || strings.TrimLeft(p[k], "0123456789") != "" {
			return 0, 0, 0, 0, false, false
		}
		v[k], _ = strconv.Atoi(p[k])
	}
	if frac != "" {
		us, _ = strconv.Atoi(frac)
	}
	return v[0], v[1], v[2], us, neg, true
}

// psTokMatches decides whether token tk denotes exactly the wanted value. The second
// result names the failed clause: kind (wrong sort of literal) or value.
func psTokMatches(tk psTok, w psWant) (bool, string) {
	switch w.Kind {
	case "null":
		if tk.Kind != "null" {
			return false, "kind"
		}
		return true, ""
	case "bytes":
		if tk.Kind != "str" && tk.Kind != "hex" {
			return false, "kind"
		}
		if !bytes.Equal(tk.Bytes, w.Bytes) {
			return false, "value"
		}
		return true, ""
	case "int":
		if tk.Kind != "int" {
			return false, "kind"
		}
		a, ok1 := new(big.Int).SetString(tk.Num, 10)
		b, ok2 := new(big.Int).SetString(w.Int, 10)
		if !ok1 || !ok2 || a.Cmp(b) != 0 {
			return false, "value"
		}
		return true, ""
	case "f32", "f64":
		if tk.Kind != "int" && tk.Kind != "dec" && tk.Kind != "float" {
			return false, "kind"
		}
		if w.Kind == "f32" {
			want := math.Float32frombits(uint32(w.Bits))
			got, err := strconv.ParseFloat(tk.Num, 32)
			if err != nil || float32(got) != want {
				return false, "value"
			}
			return true, ""
		}
		want := math.Float64frombits(w.Bits)
		got, err := strconv.ParseFloat(tk.Num, 64)
		if err != nil || got != want {
			return false, "value"
		}
		return true, ""
	case "date", "datetime":
		if tk.Kind != "str" {
			return false, "kind"
		}
		t, hasTime, ok := psParseDateTime(string(tk.Bytes))
		if !ok {
			return false, "value"
		}
		if w.Kind == "date" {
			if hasTime && (t[3] != 0 || t[4] != 0 || t[5] != 0 || t[6] != 0) {
				return false, "value"
			}
			if t[0] != w.T[0] || t[1] != w.T[1] || t[2] != w.T[2] {
				return false, "value"
			}
			return true, ""
		}
		if t != w.T {
			return false, "value"
		}
		return true, ""
	case "time":
		if tk.Kind != "str" {
			return false, "kind"
		}
		h, m, s, us, neg, ok := psParseClock(string(tk.Bytes))
		if !ok {
			return false, "value"
		}
		zero := h == 0 && m == 0 && s == 0 && us == 0
		if h != w.T[3] || m != w.T[4] || s != w.T[5] || us != w.T[6] || (!zero && neg != w.Neg) {
			return false, "value"
		}
		return true, ""
	}
	return false, "kind"
}

// psSQLModeNBE evaluates the text of a sql_mode assignment (as the backend receives it
// after `SET sql_mode = `) for the forms the monitors generate: a quoted list of mode
// names, a bare mode name, a number (bit 20 = NO_BACKSLASH_ESCAPES), or
// concat(@@sql_mode, ',<list>'). ok=false: a form this evaluator does not know.
func psSQLModeNBE(v string) (nbe bool, ok bool) {
	s := strings.TrimSpace(v)
	low := strings.ToLower(s)
	if strings.HasPrefix(low, "concat(@@sql_mode,") && strings.HasSuffix(low, ")") {
		inner := strings.TrimSpace(s[len("concat(@@sql_mode,") : len(s)-1])
		return psSQLModeNBE(inner)
	}
	if n, err := strconv.ParseUint(s, 10, 64); err == nil {
		return n&(1<<20) != 0, true
	}
	if len(s) >= 2 && (s[0] == '\'' || s[0] == '"') && s[len(s)-1] == s[0] {
		s = s[1 : len(s)-1]
	} else if s != "" && strings.Trim(low, "abcdefghijklmnopqrstuvwxyz_0123456789") != "" {
		return false, false
	}
	for _, m := range strings.Split(s, ",") {
		if strings.EqualFold(strings.TrimSpace(m), "NO_BACKSLASH_ESCAPES") {
			return true, true
		}
	}
	return false, true
}

func psDescribeTok(tk psTok) string {
	switch tk.Kind {
	case "str", "hex":
		return fmt.Sprintf("%s(%q)", tk.Kind, tk.Bytes)
	case "null":
		return "NULL"
	}
	return fmt.Sprintf("%s(%s)", tk.Kind, tk.Num)
}
