package server

// C15, multi-step shapes: the value a placeholder denotes must be the value bound by THIS
// execute also when the statement has a history on the connection:
//
//	refused: long data for a parameter, then an execute the proxy refuses (cursor flag, short
//	         type section, truncated value), then a well-formed execute with inline values;
//	retypes: an execute that declares types, optionally a second one that re-binds with
//	         different types, then other packets of assorted sizes on the same connection
//	         (pings, queries, prepares/executes/long data of other statements), then a
//	         re-execute with new-params-bound = 0 (types remembered by the server).
//
// Everything goes through the real connection of the rig; the judged execute's text at the
// backend is compared with the values the client sent (c15Judge). Values are benign
// (alphanumeric strings, integers, finite floats, dates), so a refusal of the judged
// execute is itself a refutation.

import (
	"fmt"
	"strings"

	kit "github.com/XiaoMi/Gaea/verifkit"
	"github.com/XiaoMi/Gaea/verifkit/mycli"
)

type c15Between struct {
	Kind string `json:"kind"` // ping | query | other (prepare + execute + close of another statement) | otherlong
	Size int    `json:"size"` // wire size the packet is padded to (query text / other statement's value)
}

type c15Seq struct {
	Mode    string       `json:"mode"`
	Charset string       `json:"charset"`
	Shape   string       `json:"shape"` // refused | retypes
	Tpl     int          `json:"tpl"`
	Refuse  string       `json:"refuse,omitempty"` // cursor | types | trunc
	LongAt  int          `json:"long_at,omitempty"`
	Chunks  [][]byte     `json:"chunks,omitempty"`
	First   []c15Param   `json:"first,omitempty"` // retypes: executed with types
	Mid     []c15Param   `json:"mid,omitempty"`   // retypes: optional re-bind with other types
	Between []c15Between `json:"between,omitempty"`
	Final   []c15Param   `json:"final"` // the judged execute
}

func c15WireParams(ps []c15Param) []mycli.Param {
	out := make([]mycli.Param, len(ps))
	for i, p := range ps {
		out[i] = mycli.Param{Type: p.Type, Unsigned: p.Unsigned, Null: p.Null, Raw: p.Raw, LongData: p.IsLong}
	}
	return out
}

const c15Alnum = "abcdefghijklmnopqrstuvwxyzABCDEFGHIJKLMNOPQRSTUVWXYZ0123456789"

func c15AlnumBytes(r *kit.Rand, n int) []byte {
	b := make([]byte, n)
	for i := range b {
		b[i] = c15Alnum[r.Intn(len(c15Alnum))]
	}
	return b
}

// c15BenignFamilies are the type families of sequence values; index = family.
var c15BenignFamilies = []string{"str", "blob", "tiny", "short", "long", "longlong", "double", "float", "date", "datetime", "time"}

func c15Benign(r *kit.Rand, fam int, uns bool) c15Param {
	switch c15BenignFamilies[fam] {
	case "str":
		return c15Bytes(mycli.TVarString, c15AlnumBytes(r, []int{0, 1, 2, 4, 6, 8, 8, 9, 16, 30}[r.Intn(10)]), "benign")
	case "blob":
		return c15Bytes(mycli.TBlob, c15AlnumBytes(r, []int{1, 6, 8, 12}[r.Intn(4)]), "benign")
	case "tiny":
		return c15Int(mycli.TTiny, uns, r.Uint64(), "benign")
	case "short":
		return c15Int(mycli.TShort, uns, r.Uint64(), "benign")
	case "long":
		return c15Int(mycli.TLong, uns, r.Uint64(), "benign")
	case "longlong":
		return c15Int(mycli.TLongLong, uns, r.Uint64(), "benign")
	case "double":
		return c15F64(psF64Bits(float64(r.Intn(2000000)-1000000)/8), "finite")
	case "float":
		return c15F32(psF32Bits(float32(r.Intn(20000)-10000)/4), "finite")
	case "date":
		return c15Date(mycli.TDate, 4, [7]int{1990 + r.Intn(40), 1 + r.Intn(12), 1 + r.Intn(28), 0, 0, 0, 0})
	case "datetime":
		return c15Date(mycli.TDateTime, []int{7, 11}[r.Intn(2)], [7]int{1990 + r.Intn(40), 1 + r.Intn(12), 1 + r.Intn(28), r.Intn(24), r.Intn(60), r.Intn(60), 1 + r.Intn(999999)})
	}
	return c15Time([]int{8, 12}[r.Intn(2)], r.Bool(), r.Intn(30), r.Intn(24), r.Intn(60), r.Intn(60), 1+r.Intn(999999))
}

// c15BenignVector draws values of the given families; the signedness of parameter i is fixed
// by uns[i] (it is part of the declared type that a bound=0 execute relies on).
func c15BenignVector(r *kit.Rand, fams []int, uns []bool) []c15Param {
	out := make([]c15Param, len(fams))
	for i, f := range fams {
		out[i] = c15Benign(r, f, uns[i])
	}
	return out
}

func c15GenSeq(r *kit.Rand) c15Seq {
	tpl := r.Intn(len(c15Templates))
	n := len(c15Templates[tpl]) - 1
	s := c15Seq{Mode: []string{"default", "default", "nbe", "strict"}[r.Intn(4)], Charset: []string{"utf8", "utf8", "gbk"}[r.Intn(3)], Tpl: tpl}
	fams := make([]int, n)
	uns := make([]bool, n)
	for i := range fams {
		fams[i] = r.Intn(len(c15BenignFamilies))
		uns[i] = r.Bool()
	}
	if r.Chance(2, 5) {
		s.Shape = "refused"
		s.Refuse = []string{"cursor", "cursor", "types", "trunc"}[r.Intn(4)]
		s.LongAt = r.Intn(n)
		for k := 0; k < 1+r.Intn(2); k++ {
			s.Chunks = append(s.Chunks, c15AlnumBytes(r, 1+r.Intn(12)))
		}
		s.Final = c15BenignVector(r, fams, uns)
		return s
	}
	s.Shape = "retypes"
	s.First = c15BenignVector(r, fams, uns)
	if r.Chance(1, 2) {
		// re-bind with a different type vector before the bound=0 execute
		for i := range fams {
			fams[i] = (fams[i] + 1 + r.Intn(len(c15BenignFamilies)-1)) % len(c15BenignFamilies)
			uns[i] = r.Bool()
		}
		s.Mid = c15BenignVector(r, fams, uns)
	}
	s.Final = c15BenignVector(r, fams, uns)
	for k := r.Intn(5); k > 0; k-- {
		s.Between = append(s.Between, c15Between{Kind: []string{"ping", "query", "query", "other", "otherlong"}[r.Intn(5)],
			Size: []int{-2, -1, 0, 1, 2, 16, 32, 64, 128, 256, 1000}[r.Intn(11)]})
	}
	return s
}

func c15Pad(prefix, suffix string, total int) string {
	n := total - len(prefix) - len(suffix)
	if n < 0 {
		n = 0
	}
	return prefix + strings.Repeat("x", n) + suffix
}

// runSeq plays a sequence; it returns the outcome of the judged execute. skip != "" means
// a preparatory step did not behave as the shape needs (counted, not judged).
func (x *c15Runner) runSeq(s c15Seq) (out c15Outcome, skip string) {
	cl, err := x.client(s.Mode, s.Charset)
	if err != nil {
		out.HarnessErr = err.Error()
		return
	}
	cl.uses++
	c := cl.c
	bad := func(what string, err error) {
		out.HarnessErr = fmt.Sprintf("%s: %v", what, err)
		x.drop(s.Mode, s.Charset)
	}
	pieces := c15Templates[s.Tpl]
	st, ep, err := c.Prepare(strings.Join(pieces, "?"))
	if err != nil || ep != nil {
		bad("prepare", fmt.Errorf("%v %v", err, ep))
		return
	}
	id := st.ID
	dropped := false
	defer func() {
		if out.HarnessErr == "" && !dropped {
			c.StmtClose(id)
		}
	}()
	final := c15WireParams(s.Final)
	switch s.Shape {
	case "refused":
		for _, ch := range s.Chunks {
			if err := c.SendLongData(id, uint16(s.LongAt), ch); err != nil {
				bad("send_long_data", err)
				return
			}
		}
		if uns, err := psBarrier(c); err != nil || len(uns) > 0 {
			bad("barrier", fmt.Errorf("%v %v", uns, err))
			return
		}
		first := c15WireParams(s.Final)
		first[s.LongAt] = mycli.Param{Type: mycli.TBlob, LongData: true}
		var payload []byte
		switch s.Refuse {
		case "cursor":
			payload = mycli.BuildExecute(id, 1, first, true)
		case "types":
			payload = append(psLE(4, uint64(id)), 0)
			payload = append(payload, psLE(4, 1)...)
			payload = append(payload, make([]byte, (len(first)+7)/8)...)
			payload = append(payload, 1, first[0].Type)
		default:
			payload = mycli.BuildExecute(id, 0, first, true)
			cut := 1
			for _, p := range first {
				if !p.LongData && !p.Null && len(p.Raw) > 0 {
					cut = len(p.Raw)/2 + 1
				}
			}
			if cut >= len(payload) {
				cut = 1
			}
			payload = payload[:len(payload)-cut]
		}
		rp, err := c.ExecuteRaw(payload)
		if err != nil {
			// the proxy closed the connection on a packet it must refuse: counted, nothing to judge
			skip = "connection dropped on the " + s.Refuse + " execute"
			x.drop(s.Mode, s.Charset)
			out.HarnessErr = ""
			dropped = true
			return
		}
		if rp.Err == nil {
			skip = "the " + s.Refuse + " execute was not refused"
		}
	case "retypes":
		rp, err := c.Execute(id, c15WireParams(s.First))
		if err != nil {
			bad("first execute", err)
			return
		}
		if rp.Err != nil {
			skip = "first execute refused: " + rp.Err.Error()
			return
		}
		firstLen := len(mycli.BuildExecute(id, 0, c15WireParams(s.First), true)) + 1
		if s.Mid != nil {
			rp, err := c.Execute(id, c15WireParams(s.Mid))
			if err != nil {
				bad("re-bind execute", err)
				return
			}
			if rp.Err != nil {
				skip = "re-bind execute refused: " + rp.Err.Error()
				return
			}
			firstLen = len(mycli.BuildExecute(id, 0, c15WireParams(s.Mid), true)) + 1
		}
		for _, b := range s.Between {
			size := b.Size
			if size <= 2 {
				size += firstLen
			}
			switch b.Kind {
			case "ping":
				if _, err := c.Ping(); err != nil {
					bad("ping", err)
					return
				}
			case "query":
				if _, err := c.Query(c15Pad("select 1 from t2 where k = '", "'", size-1)); err != nil {
					bad("query", err)
					return
				}
			default:
				o, ep, err := c.Prepare(c15Pad("select * from t2 where k = '", "' and a = ?", size-1))
				if err != nil || ep != nil {
					bad("other prepare", fmt.Errorf("%v %v", err, ep))
					return
				}
				val := []byte(strings.Repeat("y", size))
				p := mycli.Param{Type: mycli.TVarString, Raw: mycli.LenEncBytes(val)}
				if b.Kind == "otherlong" {
					if err := c.SendLongData(o.ID, 0, val); err != nil {
						bad("other long data", err)
						return
					}
					p = mycli.Param{Type: mycli.TBlob, LongData: true}
				}
				if _, err := c.Execute(o.ID, []mycli.Param{p}); err != nil {
					bad("other execute", err)
					return
				}
				c.StmtClose(o.ID)
				if _, err := psBarrier(c); err != nil {
					bad("barrier", err)
					return
				}
			}
		}
	}
	from := x.rig.B.Len()
	var rp *mycli.Reply
	if s.Shape == "retypes" {
		rp, err = c.ExecuteRaw(mycli.BuildExecute(id, 0, final, false))
	} else {
		rp, err = c.Execute(id, final)
	}
	if err != nil {
		bad("judged execute", err)
		return
	}
	out.Execs = psExecsSince(x.rig, from)
	if rp.Err != nil {
		out.Rejected = rp.Err.Error()
	}
	return
}

// seqFails reports the coarse clause refuted by a sequence ("" = held / undecidable).
func (x *c15Runner) seqFails(s c15Seq) (string, string) {
	out, skip := x.runSeq(s)
	if out.HarnessErr != "" || (skip != "" && len(out.Execs) == 0 && out.Rejected == "") {
		return "", ""
	}
	clause, _, detail := c15Judge(c15Case{Mode: s.Mode, Charset: s.Charset, Tpl: s.Tpl, Params: s.Final}, out)
	switch clause {
	case "", "harness":
		return "", ""
	case "rejected", "exec_count":
		return clause, detail
	}
	return "wrong_text", detail
}

func (x *c15Runner) oneSeq(s c15Seq) {
	x.rec.Eval(1)
	out, skip := x.runSeq(s)
	if out.HarnessErr != "" {
		x.rec.Count("harness_errors", 1)
		if x.fatal == "" {
			x.fatal = out.HarnessErr
		}
		return
	}
	if skip != "" {
		x.rec.Count("seq.skipped", 1)
		if len(out.Execs) == 0 && out.Rejected == "" {
			return
		}
	}
	x.rec.Count("seq."+s.Shape, 1)
	key := s.Shape + "/" + s.Refuse
	if s.Mid != nil {
		key += "/rebind"
	}
	for _, b := range s.Between {
		key += "/" + b.Kind
	}
	x.rec.Nontrivial(fmt.Sprintf("seq/%s/%s/tpl%d/%s", c15Mode(s.Mode).Class, s.Charset, s.Tpl, key))
	clause, _, detail := c15Judge(c15Case{Mode: s.Mode, Charset: s.Charset, Tpl: s.Tpl, Params: s.Final}, out)
	if clause == "" {
		x.rec.Count("executed", 1)
		return
	}
	if clause == "harness" {
		x.rec.Count("harness_errors", 1)
		return
	}
	x.rec.Count("refuted.seq."+clause, 1)
	// shrink: drop the packets in between, the re-bind, all but one long-data chunk; default mode/charset
	cur := s
	coarse := map[bool]string{true: clause, false: "wrong_text"}[clause == "rejected" || clause == "exec_count"]
	try := func(c c15Seq) bool {
		if cl, d := x.seqFails(c); cl != "" {
			cur, coarse, detail = c, cl, d
			return true
		}
		return false
	}
	between := "between"
	if len(cur.Between) > 0 {
		c := cur
		c.Between = nil
		if try(c) {
			between = "direct"
		}
	} else {
		between = "direct"
	}
	rebind := ""
	if cur.Mid != nil {
		c := cur
		c.First, c.Mid = cur.Mid, nil
		if !try(c) {
			rebind = "+rebind"
		}
	}
	if len(cur.Chunks) > 1 {
		c := cur
		c.Chunks = cur.Chunks[:1]
		try(c)
	}
	if cur.Mode != "default" {
		c := cur
		c.Mode = "default"
		try(c)
	}
	if cur.Charset != "utf8" {
		c := cur
		c.Charset = "utf8"
		try(c)
	}
	what := cur.Refuse
	if cur.Shape == "retypes" {
		what = "bound0" + rebind + "." + between
	}
	sig := fmt.Sprintf("seq.%s|%s|%s|mode=%s|cs=%s", cur.Shape, what, coarse, c15Mode(cur.Mode).Class, cur.Charset)
	x.rec.Violation(sig, detail, map[string]interface{}{"seq": cur, "seq_original": s})
}
