package server

// C30, wire part — the same oracle through the real connection path: a real ClientConn /
// Session over in-memory net.Conn pairs, the handshake response parsed by the real
// readHandshakeResponse from a packet buffer of the shared pool, while other connections
// read small packets from the same pool.
//
// Two schedules: (1) interleaved: connection B reads a small packet after connection A has
// parsed its handshake response and before A's password check — a legal schedule of two
// session goroutines, produced deterministically; (2) concurrent: many goroutines run the
// real Session.Handshake at once with other connections' packets in flight.
// This part relies on sync.Pool handing a just-returned buffer to the next reader, which it
// does not do under the race detector: C30 is a non-race build.

import (
	"encoding/hex"
	"fmt"
	"io"
	"net"
	"sync"
	"sync/atomic"

	"github.com/XiaoMi/Gaea/models"
	"github.com/XiaoMi/Gaea/mysql"
	kit "github.com/XiaoMi/Gaea/verifkit"
)

// c30WireCase is one handshake of the interleaved schedule (replayable).
type c30WireCase struct {
	Wire     bool     `json:"wire"`
	Schedule string   `json:"schedule"`
	User     string   `json:"user"`
	Stored   []string `json:"stored"` // stored passwords of User, table order (namespaces ns0, ns1)
	SaltHex  string   `json:"salt_hex"`
	RespHex  string   `json:"resp_hex"`
	Kind     string   `json:"kind"`
	JunkLen  int      `json:"junk_len"` // payload length of the other connection's packet
}

type c30WireUser struct {
	name   string
	stored []string
	plain  [][]byte
}

// c30WireUsers: a user table with clear-text and '*'-hash passwords, alone and mixed.
func c30WireUsers() ([]c30WireUser, *UserManager) {
	mk := func(name string, forms string) c30WireUser {
		u := c30WireUser{name: name}
		for i, f := range forms {
			p := []byte(fmt.Sprintf("pw-%s-%d", name, i))
			u.plain = append(u.plain, p)
			if f == 'H' {
				u.stored = append(u.stored, mgHashForm(p))
			} else {
				u.stored = append(u.stored, string(p))
			}
		}
		return u
	}
	users := []c30WireUser{mk("w0", "C"), mk("w1", "H"), mk("w2", "CH"), mk("w3", "HC"), mk("w4", "C"), mk("w5", "CC")}
	um := NewUserManager()
	for i := 0; i < 2; i++ {
		ns := &models.Namespace{Name: fmt.Sprintf("ns%d", i)}
		for _, u := range users {
			if i < len(u.stored) {
				ns.Users = append(ns.Users, &models.User{UserName: u.name, Password: u.stored[i]})
			}
		}
		um.addNamespaceUsers(ns)
	}
	return users, um
}

func c30WireSession(m *Manager, srv *Server, conn net.Conn, id uint32) *Session {
	cc := new(Session)
	cc.c = NewClientConn(mysql.NewConn(conn), m)
	cc.c.proxy = srv
	cc.c.SetConnectionID(id)
	cc.proxy = srv
	cc.manager = m
	cc.executor = newSessionExecutor(m)
	cc.executor.clientAddr = "pipe"
	cc.executor.session = cc
	cc.closed.Store(false)
	return cc
}

// ---- client side of the protocol, written from the protocol description

func c30WritePacket(w io.Writer, seq byte, payload []byte) error {
	buf := make([]byte, 4+len(payload))
	buf[0], buf[1], buf[2], buf[3] = byte(len(payload)), byte(len(payload)>>8), byte(len(payload)>>16), seq
	copy(buf[4:], payload)
	_, err := w.Write(buf)
	return err
}

func c30ReadPacket(r io.Reader) ([]byte, error) {
	var h [4]byte
	if _, err := io.ReadFull(r, h[:]); err != nil {
		return nil, err
	}
	p := make([]byte, int(h[0])|int(h[1])<<8|int(h[2])<<16)
	_, err := io.ReadFull(r, p)
	return p, err
}

// c30GreetingSalt extracts the 20 bytes of auth-plugin-data from a HandshakeV10 packet.
func c30GreetingSalt(p []byte) ([]byte, bool) {
	if len(p) < 1 || p[0] != 10 {
		return nil, false
	}
	i := 1
	for i < len(p) && p[i] != 0 {
		i++
	}
	i++    // NUL of the server version
	i += 4 // connection id
	if i+8 > len(p) {
		return nil, false
	}
	salt := append([]byte(nil), p[i:i+8]...)
	i += 8 + 1 + 2 + 1 + 2 + 2 + 1 + 10
	if i+12 > len(p) {
		return nil, false
	}
	return append(salt, p[i:i+12]...), true
}

// c30HandshakeResponse41: CLIENT_PROTOCOL_41 | CLIENT_SECURE_CONNECTION | CLIENT_LONG_PASSWORD,
// no database, no plugin name.
func c30HandshakeResponse41(user string, auth []byte) []byte {
	capability := uint32(1 | 0x200 | 0x8000)
	p := []byte{byte(capability), byte(capability >> 8), byte(capability >> 16), byte(capability >> 24), 0, 0, 0, 1, 33}
	p = append(p, make([]byte, 23)...)
	p = append(p, user...)
	p = append(p, 0, byte(len(auth)))
	return append(p, auth...)
}

// c30WireResponse makes a response of the given kind for user u against salt.
func c30WireResponse(r *kit.Rand, u c30WireUser, target int, kind string, salt []byte) []byte {
	switch kind {
	case "native-correct":
		return mgNativeProof(salt, u.plain[target])
	case "sha2-correct":
		return mgSha2Proof(salt, u.plain[target])
	case "native-bitflip":
		b := mgNativeProof(salt, u.plain[target])
		b[r.Intn(len(b))] ^= 1 << uint(r.Intn(8))
		return b
	case "native-of-stored-text":
		return mgNativeProof(salt, []byte(u.stored[target]))
	}
	return r.Bytes(20)
}

var c30WireKinds = []string{"native-correct", "native-correct", "native-correct", "sha2-correct", "native-bitflip", "native-of-stored-text", "random-20"}

func c30WireClause(want, wantNS string, accepted bool, gotNS string) string {
	switch {
	case want == "accept" && !accepted:
		return "false-reject"
	case want == "reject" && accepted:
		return "false-accept"
	case want == "accept" && gotNS != wantNS:
		return "wrong-namespace"
	}
	return ""
}

// c30RunInterleaved: connection A's response is parsed by the real readHandshakeResponse,
// then connection B reads one small packet, then A's password check runs.
func c30RunInterleaved(m *Manager, srv *Server, c c30WireCase) (clause string, detail string) {
	salt, _ := hex.DecodeString(c.SaltHex)
	resp, _ := hex.DecodeString(c.RespHex)
	a, b := net.Pipe()
	ia, ib := net.Pipe()
	defer func() { a.Close(); b.Close(); ia.Close(); ib.Close() }()
	sess := c30WireSession(m, srv, a, 1)
	sess.c.salt = append([]byte(nil), salt...)
	go c30WritePacket(b, 0, c30HandshakeResponse41(c.User, resp))
	info, err := sess.c.readHandshakeResponse()
	if err != nil {
		return "handshake-response-not-read", err.Error()
	}
	other := mysql.NewConn(ia)
	junk := make([]byte, c.JunkLen)
	for i := range junk {
		junk[i] = 0xEE
	}
	go c30WritePacket(ib, 0, junk)
	if _, err := other.ReadEphemeralPacket(); err != nil {
		return "other-connection-read-failed", err.Error()
	}
	other.RecycleReadPacket()
	var pan interface{}
	func() {
		defer func() { pan = recover() }()
		err = sess.handleHandshakeResponse(info)
	}()
	if pan != nil {
		return "panic", fmt.Sprint(pan)
	}
	method := c30Method(mgPlugDefault, len(resp))
	want, idx := c30Reference(method, c.Stored, salt, resp)
	w, wantNS := "reject", ""
	if want {
		w, wantNS = "accept", fmt.Sprintf("ns%d", idx)
	}
	accepted := err == nil && sess.getNamespace() != nil
	return c30WireClause(w, wantNS, accepted, sess.namespace), fmt.Sprintf("expected %s %q, password check returned %v, session bound to %q", w, wantNS, err, sess.namespace)
}

// c30WirePart runs both schedules.
func c30WirePart(rec *kit.Rec, m *Manager) {
	users, um := c30WireUsers()
	current, _, _ := m.switchIndex.Get()
	m.users[current] = um
	srv := &Server{manager: m, ServerVersion: "5.7.25-gaea", ServerConfig: &models.Proxy{}}

	// ---- schedule 1: interleaved read of another connection
	r := kit.SubRand(kit.Seed(), "C30/wire-interleaved")
	n1 := kit.N(600, 20000)
	for i := 0; i < n1; i++ {
		u := users[r.Intn(len(users))]
		target := r.Intn(len(u.stored))
		kind := c30WireKinds[r.Intn(len(c30WireKinds))]
		salt := r.Bytes(20)
		c := c30WireCase{Wire: true, Schedule: "interleaved", User: u.name, Stored: u.stored, SaltHex: hex.EncodeToString(salt),
			RespHex: hex.EncodeToString(c30WireResponse(r, u, target, kind, salt)), Kind: kind, JunkLen: r.Range(24, 128)}
		clause, detail := c30RunInterleaved(m, srv, c)
		rec.Eval(1)
		rec.Count("wire.interleaved", 1)
		rec.Nontrivial(fmt.Sprintf("wire|interleaved|%s|%d/%d|%s", u.name, target, len(u.stored), kind))
		if clause != "" {
			rec.Violation(fmt.Sprintf("wire|%s|schedule=interleaved|resp=%s", clause, kind),
				fmt.Sprintf("user %s, %s response; another connection read a %d-byte packet between the parsing of the handshake response and the password check: %s", u.name, kind, c.JunkLen, detail), c)
		}
		if i == 0 {
			rec.Sample(c)
		}
	}

	// ---- schedule 2: concurrent real Session.Handshake calls with other packets in flight
	stop := make(chan struct{})
	var bg sync.WaitGroup
	var junkPackets int64
	for k := 0; k < 4; k++ {
		ia, ib := net.Pipe()
		bg.Add(2)
		go func(seed uint64) { // writer of small packets
			defer bg.Done()
			jr := kit.NewRand(seed)
			seq := byte(0)
			for {
				select {
				case <-stop:
					ib.Close()
					return
				default:
				}
				p := make([]byte, jr.Range(24, 128))
				for i := range p {
					p[i] = 0xEE
				}
				if c30WritePacket(ib, seq, p) != nil {
					return
				}
				seq++
			}
		}(r.Uint64())
		go func() { // reader: a session reading commands from the shared pool
			defer bg.Done()
			oc := mysql.NewConn(ia)
			for {
				if _, err := oc.ReadEphemeralPacket(); err != nil {
					ia.Close()
					return
				}
				oc.RecycleReadPacket()
				atomic.AddInt64(&junkPackets, 1)
			}
		}()
	}
	workers, per := 8, kit.N(100, 2500)
	var wg sync.WaitGroup
	var connID uint32
	for w := 0; w < workers; w++ {
		wr := kit.NewRand(r.Uint64())
		wg.Add(1)
		go func(wr *kit.Rand) {
			defer wg.Done()
			for i := 0; i < per; i++ {
				u := users[wr.Intn(len(users))]
				target := wr.Intn(len(u.stored))
				kind := c30WireKinds[wr.Intn(len(c30WireKinds))]
				a, b := net.Pipe()
				sess := c30WireSession(m, srv, a, atomic.AddUint32(&connID, 1))
				type sent struct {
					salt, resp []byte
					err        error
				}
				done := make(chan sent, 1)
				go func() { // the client
					g, err := c30ReadPacket(b)
					if err != nil {
						done <- sent{err: err}
						return
					}
					salt, ok := c30GreetingSalt(g)
					if !ok {
						done <- sent{err: fmt.Errorf("greeting not understood")}
						return
					}
					resp := c30WireResponse(wr, u, target, kind, salt)
					err = c30WritePacket(b, 1, c30HandshakeResponse41(u.name, resp))
					done <- sent{salt: salt, resp: resp, err: err}
					c30ReadPacket(b) // OK packet, or EOF when the server side gives up
				}()
				_, herr := sess.Handshake()
				gotNS := sess.namespace
				a.Close()
				s := <-done
				b.Close()
				rec.Eval(1)
				rec.Count("wire.concurrent", 1)
				if s.err != nil {
					rec.Count("wire.client-errors", 1)
					continue
				}
				want, idx := c30Reference(c30Method(mgPlugDefault, len(s.resp)), u.stored, s.salt, s.resp)
				w, wantNS := "reject", ""
				if want {
					w, wantNS = "accept", fmt.Sprintf("ns%d", idx)
					rec.Count("wire.concurrent.expected-accept", 1)
				}
				if clause := c30WireClause(w, wantNS, herr == nil, gotNS); clause != "" {
					c := c30WireCase{Wire: true, Schedule: "concurrent", User: u.name, Stored: u.stored, SaltHex: hex.EncodeToString(s.salt), RespHex: hex.EncodeToString(s.resp), Kind: kind}
					rec.Violation(fmt.Sprintf("wire|%s|schedule=concurrent|resp=%s", clause, kind),
						fmt.Sprintf("user %s, %s response through the real Session.Handshake with %d other handshakes and small packets of other connections in flight: expected %s %q, Handshake returned %v, session bound to %q", u.name, kind, workers-1, w, wantNS, herr, gotNS), c)
				}
			}
		}(wr)
	}
	wg.Wait()
	close(stop)
	bg.Wait()
	rec.Count("wire.other-connection-packets", atomic.LoadInt64(&junkPackets))
	if rec.CounterValue("wire.concurrent.expected-accept") == 0 || atomic.LoadInt64(&junkPackets) == 0 {
		rec.Inconclusive("wire part: no handshake was expected to be accepted or no packet of another connection was in flight")
	}
}
