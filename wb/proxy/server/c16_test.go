package server

// C16 — prepared statements are isolated and never reuse stale parameters.
//
// Monitor: generated histories of prepare / send_long_data / execute (well-formed and
// malformed) / reset / close over up to three statements are played against a real
// Server/Session (rig R2, loopback TCP). A reference map stmtId -> {template, pending long
// data, open?} predicts, for every command, the kind of reply and - for executes - the
// values that must appear in the text reaching the fake backend: this execute's own values
// plus the long data sent since the previous execute of that statement. The observed text
// is decomposed by the independent literal lexer (common_ps_lex_test.go).

import (
	"fmt"
	"strings"
	"testing"

	kit "github.com/XiaoMi/Gaea/verifkit"
	"github.com/XiaoMi/Gaea/verifkit/mycli"
)

type c16Op struct {
	K string `json:"k"`           // P prepare | L send_long_data | X execute | R reset | C close
	S int    `json:"s"`           // statement slot 0..2
	P int    `json:"p,omitempty"` // parameter index (L)
	V string `json:"v,omitempty"` // execute variant: ok okswap okdbl okT:<fam>,<fam> oknull oknotypes trunc len types cursor
	E bool   `json:"e,omitempty"` // L: the chunk has no payload (an empty value streamed as long data)
}

func (o c16Op) String() string {
	switch o.K {
	case "L":
		if o.E {
			return fmt.Sprintf("L%d.%de", o.S, o.P)
		}
		return fmt.Sprintf("L%d.%d", o.S, o.P)
	case "X":
		return fmt.Sprintf("X%d:%s", o.S, o.V)
	}
	return fmt.Sprintf("%s%d", o.K, o.S)
}

type c16Case struct {
	Ops []c16Op `json:"ops"`
}

func (c c16Case) String() string {
	s := make([]string, len(c.Ops))
	for i, o := range c.Ops {
		s[i] = o.String()
	}
	return strings.Join(s, " ")
}

// execute variants of the exhaustive alphabet. ok binds (varstring, longlong), okswap
// (longlong, varstring), okdbl (double, date); random histories also use okT:<fam>,<fam>
// over all pairs of psFamilies.
var c16Variants = []string{"ok", "okswap", "okdbl", "oknull", "oknotypes", "trunc", "len", "types", "cursor"}

func c16Pieces(slot int) []string {
	return []string{fmt.Sprintf("select * from tq%d where x = ", slot), " and y = ", ""}
}

// c16Alphabet lists the commands over nslots slots.
func c16Alphabet(nslots int) []c16Op {
	var a []c16Op
	for s := 0; s < nslots; s++ {
		a = append(a, c16Op{K: "P", S: s}, c16Op{K: "L", S: s, P: 0}, c16Op{K: "L", S: s, P: 1}, c16Op{K: "L", S: s, P: 0, E: true}, c16Op{K: "L", S: s, P: 1, E: true})
		for _, v := range c16Variants {
			a = append(a, c16Op{K: "X", S: s, V: v})
		}
		a = append(a, c16Op{K: "R", S: s}, c16Op{K: "C", S: s})
	}
	return a
}

// c16Enumerate emits every history of exactly n commands over nslots slots in which slots
// appear in order of first use (slot symmetry) and - if prepFirst - the first command on
// every slot is its prepare.
func c16Enumerate(nslots, n int, prepFirst bool, emit func(c16Case)) {
	alpha := c16Alphabet(nslots)
	ops := make([]c16Op, 0, n)
	var rec func(used int)
	rec = func(used int) {
		if len(ops) == n {
			emit(c16Case{Ops: append([]c16Op{}, ops...)})
			return
		}
		for _, o := range alpha {
			if o.S > used {
				continue
			}
			nu := used
			if o.S == used {
				if prepFirst && o.K != "P" {
					continue
				}
				nu = used + 1
			}
			ops = append(ops, o)
			rec(nu)
			ops = ops[:len(ops)-1]
		}
	}
	rec(0)
}

// ---------------------------------------------------------------- reference model

type c16Stmt struct {
	slot     int
	open     bool
	long     [2][]byte
	hasLong  [2]bool
	lastFams []string // type families declared by the last successful execute that carried types; nil = unknown
}

type c16Ref struct {
	stmts  map[uint32]*c16Stmt
	cur    [3]uint32
	hasCur [3]bool
}

func (r *c16Ref) id(slot int) (uint32, *c16Stmt) {
	if !r.hasCur[slot] {
		return 0x70000000 + uint32(slot), nil
	}
	id := r.cur[slot]
	return id, r.stmts[id]
}

// c16Exec is a built COM_STMT_EXECUTE payload with the reference's expectation.
type c16Exec struct {
	payload  []byte
	wantOK   bool
	want     []psWant
	fams     []string // type families declared by a complete type section (nil: none sent)
	notypes  bool
	effected string // the variant actually built (a variant that does not apply degrades to ok)
}

// c16Fams returns the type families a well-formed variant declares for its two parameters.
func c16Fams(variant string) [2]string {
	switch {
	case variant == "okswap":
		return [2]string{"longlong", "varstring"}
	case variant == "okdbl":
		return [2]string{"double", "date"}
	case strings.HasPrefix(variant, "okT:"):
		p := strings.Split(variant[4:], ",")
		if len(p) == 2 {
			return [2]string{p[0], p[1]}
		}
	}
	return [2]string{"varstring", "longlong"}
}

func c16BuildExec(id uint32, st *c16Stmt, variant string, opIdx int) c16Exec {
	var hasLong [2]bool
	var long [2][]byte
	var lastFams []string
	if st != nil && st.open {
		hasLong, long, lastFams = st.hasLong, st.long, st.lastFams
	}
	x := c16Exec{wantOK: true, effected: "ok"}
	fams := c16Fams(variant)
	sendTypes := true
	if variant == "oknotypes" && lastFams != nil {
		// re-execute without a type section: the values are encoded in the types declared last
		usable := true
		for i := 0; i < 2; i++ {
			if hasLong[i] && lastFams[i] != "blob" {
				usable = false
			}
		}
		if usable {
			fams = [2]string{lastFams[0], lastFams[1]}
			sendTypes = false
			x.effected = "oknotypes"
		}
	}
	params := make([]mycli.Param, 2)
	want := make([]psWant, 2)
	for i := 0; i < 2; i++ {
		if hasLong[i] {
			params[i] = mycli.Param{Type: mycli.TBlob, LongData: true}
			want[i] = psWant{Kind: "bytes", Bytes: append([]byte{}, long[i]...)}
			fams[i] = "blob"
		} else {
			params[i], want[i] = psFamValue(fams[i], opIdx)
		}
	}
	x.want = want
	intVal := uint64(1000 + opIdx)
	badLen := []byte{0xfc, 0x10, 0x27, 'a', 'b', 'c'} // announces 10000 bytes, carries 3
	if st == nil || !st.open {
		x.payload = mycli.BuildExecute(id, 0, params, true)
		x.wantOK = false
		return x
	}
	switch variant {
	case "okswap", "okdbl":
		x.effected = variant
	case "oknull":
		if !hasLong[0] {
			params[0].Null = true
			want[0] = psWant{Kind: "null"}
			x.effected = "oknull"
		}
	case "cursor":
		x.payload = mycli.BuildExecute(id, 1, params, true)
		x.wantOK, x.effected = false, "cursor"
		return x
	case "types":
		p := make([]byte, 0, 16)
		p = append(p, psLE(4, uint64(id))...)
		p = append(p, 0)
		p = append(p, psLE(4, 1)...)
		p = append(p, 0, 1, params[0].Type, 0) // null bitmap, new-params-bound, ONE type pair for two parameters
		x.payload, x.wantOK, x.effected = p, false, "types"
		return x
	case "trunc":
		if !hasLong[1] {
			params[1].Raw = params[1].Raw[:3]
			x.wantOK, x.effected = false, "trunc"
		} else if !hasLong[0] {
			params[0].Raw = params[0].Raw[:2]
			x.wantOK, x.effected = false, "trunc"
		}
	case "len":
		if !hasLong[1] {
			if !hasLong[0] {
				params[0] = mycli.Param{Type: mycli.TLongLong, Raw: psLE(8, intVal)}
			}
			params[1] = mycli.Param{Type: mycli.TVarString, Raw: badLen}
			x.wantOK, x.effected = false, "len"
		} else if !hasLong[0] {
			params[0] = mycli.Param{Type: mycli.TVarString, Raw: badLen}
			x.wantOK, x.effected = false, "len"
		}
	default:
		if strings.HasPrefix(variant, "okT:") {
			x.effected = "okT"
		}
	}
	if sendTypes {
		x.fams = []string{fams[0], fams[1]}
	} else {
		x.notypes = true
	}
	x.payload = mycli.BuildExecute(id, 0, params, sendTypes)
	return x
}

// ---------------------------------------------------------------- driver + oracle

type c16Runner struct {
	rec        *kit.Rec
	rig        *rig
	c          *mycli.Conn
	issued     map[uint32]bool // ids handed out on the current connection
	uses       int
	fatal      string
	lastDetail string // detail of the last refuted replay (shrinking)
}

func (x *c16Runner) conn() (*mycli.Conn, error) {
	if x.c != nil && x.uses < 400 {
		return x.c, nil
	}
	if x.c != nil {
		x.c.Quit()
		x.c = nil
	}
	c, err := x.rig.Dial(psUser, psPass, psDB)
	if err != nil {
		return nil, err
	}
	x.c, x.uses, x.issued = c, 0, map[uint32]bool{}
	return c, nil
}

func (x *c16Runner) dropConn() {
	if x.c != nil {
		x.c.Close()
		x.c = nil
	}
}

// c16Verdict is the outcome of one history.
type c16Verdict struct {
	Clause  string // "" = held
	At      int    // index of the refuted command
	Detail  string
	Harness string // transport trouble: nothing can be said
	Dropped bool   // the proxy closed the connection on a malformed execute (history ends there)
	Stats   map[string]int
}

// play runs one history on a clean set of statements and applies the oracle after every
// command. It stops at the first refutation.
func (x *c16Runner) play(cs c16Case) (v c16Verdict) {
	v.Stats = map[string]int{}
	v.At = -1
	c, err := x.conn()
	if err != nil {
		v.Harness = "dial: " + err.Error()
		return
	}
	x.uses++
	ref := &c16Ref{stmts: map[uint32]*c16Stmt{}}
	defer func() {
		if x.c == nil {
			return
		}
		for id, st := range ref.stmts {
			if st.open {
				x.c.StmtClose(id)
			}
		}
		if _, err := psBarrier(x.c); err != nil {
			x.dropConn()
		}
	}()
	fail := func(i int, clause, detail string) {
		v.Clause, v.At, v.Detail = clause, i, detail
	}
	for i, op := range cs.Ops {
		id, st := ref.id(op.S)
		open := st != nil && st.open
		switch op.K {
		case "P":
			ps, ep, err := c.Prepare(strings.Join(c16Pieces(op.S), "?"))
			if err != nil {
				v.Harness = "prepare: " + err.Error()
				x.dropConn()
				return
			}
			if ep != nil {
				fail(i, "reply:P:ok->err", ep.Error())
				return
			}
			if ps.Params != 2 {
				fail(i, "prepare.params", fmt.Sprintf("prepare reports %d parameters for 2 placeholders", ps.Params))
				return
			}
			if x.issued[ps.ID] {
				fail(i, "prepare.id_reused", fmt.Sprintf("statement id %d was handed out before on this connection", ps.ID))
				return
			}
			x.issued[ps.ID] = true
			ref.stmts[ps.ID] = &c16Stmt{slot: op.S, open: true}
			ref.cur[op.S], ref.hasCur[op.S] = ps.ID, true
			v.Stats["prepare"]++
		case "L":
			chunk := []byte(fmt.Sprintf("ld%dp%d.", i, op.P))
			if op.E {
				chunk = []byte{}
			}
			if err := c.SendLongData(id, uint16(op.P), chunk); err != nil {
				v.Harness = "send_long_data: " + err.Error()
				x.dropConn()
				return
			}
			uns, err := psBarrier(c)
			if err != nil {
				v.Harness = "barrier after send_long_data: " + err.Error()
				x.dropConn()
				return
			}
			if open {
				if len(uns) > 0 {
					fail(i, "reply:L:none->err", fmt.Sprintf("send_long_data for parameter %d of open statement %d was answered with error(s) %v", op.P, id, uns))
					return
				}
				st.long[op.P] = append(append([]byte{}, st.long[op.P]...), chunk...)
				st.hasLong[op.P] = true
				v.Stats["long.open"]++
				if op.E {
					v.Stats["long.open.empty_chunk"]++
				}
			} else {
				v.Stats["long.unknown"]++
				if len(uns) > 0 {
					v.Stats["long.unknown.answered_with_error_packet"]++
				}
			}
		case "X":
			ex := c16BuildExec(id, st, op.V, i)
			from := x.rig.B.Len()
			rp, err := c.ExecuteRaw(ex.payload)
			if err != nil {
				if !ex.wantOK {
					// the proxy dropped the connection on a packet it must refuse: a failure, though not a reply
					v.Dropped = true
					v.Stats["exec.malformed.connection_dropped"]++
					x.dropConn()
					return
				}
				fail(i, "reply:X:ok->lost", "connection lost on a well-formed execute: "+err.Error())
				x.dropConn()
				return
			}
			execs := psExecsSince(x.rig, from)
			if !ex.wantOK {
				if rp.Err == nil {
					fail(i, "reply:X:err->ok", fmt.Sprintf("execute (%s) on statement id %d (open=%v) was answered without error", ex.effected, id, open))
					return
				}
				if len(execs) != 0 {
					fail(i, "exec.count", fmt.Sprintf("a refused execute sent %d statement(s) to the backend: %q", len(execs), execs[0].SQL))
					return
				}
				if open {
					v.Stats["exec.refused.open."+ex.effected]++
					st.long, st.hasLong, st.lastFams = [2][]byte{}, [2]bool{}, nil
				} else {
					v.Stats["exec.refused.unknown"]++
				}
				break
			}
			if rp.Err != nil {
				fail(i, "reply:X:ok->err", fmt.Sprintf("well-formed execute (%s) refused: %v", ex.effected, rp.Err))
				return
			}
			if len(execs) != 1 {
				fail(i, "exec.count", fmt.Sprintf("%d statements reached the backend for one execute", len(execs)))
				return
			}
			toks, at, clause := psWalk(c16Pieces(st.slot), []byte(execs[0].SQL), false, "utf8")
			if clause != "" {
				fail(i, "exec.text", fmt.Sprintf("backend text %q does not follow the template of slot %d (placeholder %d: %s)", execs[0].SQL, st.slot, at, clause))
				return
			}
			for k, tk := range toks {
				if ok, _ := psTokMatches(tk, ex.want[k]); !ok {
					fail(i, "exec.values", fmt.Sprintf("placeholder %d of %q is %s, the reference expects %s", k, execs[0].SQL, psDescribeTok(tk), c16DescribeWant(ex.want[k])))
					return
				}
			}
			v.Stats["exec.ok."+ex.effected]++
			if st.hasLong[0] || st.hasLong[1] {
				v.Stats["exec.ok.with_long_data"]++
			}
			if ex.fams != nil {
				if st.lastFams != nil && (st.lastFams[0] != ex.fams[0] || st.lastFams[1] != ex.fams[1]) {
					v.Stats["exec.ok.rebind_other_types"]++
				}
				st.lastFams = ex.fams
			}
			st.long, st.hasLong = [2][]byte{}, [2]bool{}
		case "R":
			b := psLE(4, uint64(id))
			rp, err := c.Simple(mycli.ComStmtReset, b)
			if err != nil {
				v.Harness = "reset: " + err.Error()
				x.dropConn()
				return
			}
			if open {
				if rp.Err != nil {
					fail(i, "reply:R:ok->err", rp.Err.Error())
					return
				}
				st.long, st.hasLong = [2][]byte{}, [2]bool{}
				v.Stats["reset.open"]++
			} else {
				if rp.Err == nil {
					fail(i, "reply:R:err->ok", fmt.Sprintf("reset of statement id %d that is not open was answered OK", id))
					return
				}
				v.Stats["reset.unknown"]++
			}
		case "C":
			if err := c.StmtClose(id); err != nil {
				v.Harness = "close: " + err.Error()
				x.dropConn()
				return
			}
			uns, err := psBarrier(c)
			if err != nil {
				v.Harness = "barrier after close: " + err.Error()
				x.dropConn()
				return
			}
			if len(uns) > 0 {
				fail(i, "reply:C:none->err", fmt.Sprintf("close was answered with error(s) %v", uns))
				return
			}
			if open {
				st.open = false
				v.Stats["close.open"]++
			} else {
				v.Stats["close.unknown"]++
			}
		}
	}
	return
}

func c16DescribeWant(w psWant) string {
	switch w.Kind {
	case "bytes":
		return fmt.Sprintf("str(%q)", w.Bytes)
	case "int":
		return "int(" + w.Int + ")"
	}
	return w.Kind
}

// failsAny replays a history; it reports the refuted clause ("" = held or undecidable)
// and the history cut after the refuted command.
func (x *c16Runner) failsAny(cs c16Case) (string, c16Case) {
	v := x.play(cs)
	if v.Harness != "" || v.Clause == "" {
		return "", cs
	}
	x.lastDetail = v.Detail
	return v.Clause, c16Case{Ops: append([]c16Op{}, cs.Ops[:v.At+1]...)}
}

// c16Canon renumbers slots in order of first appearance.
func c16Canon(cs c16Case) c16Case {
	m := map[int]int{}
	out := c16Case{}
	for _, o := range cs.Ops {
		if _, ok := m[o.S]; !ok {
			m[o.S] = len(m)
		}
		o.S = m[o.S]
		out.Ops = append(out.Ops, o)
	}
	return out
}

// c16Shrink reduces a refuted history to a canonical 1-minimal core: cut after the refuted
// command; make the last command a plain well-formed execute of the same slot if the
// history is still refuted then (every way a stale state shows up is normalised to "the
// next well-formed execute is wrong"); remove commands one at a time while the history is
// still refuted (whatever the clause); simplify symbols (oknull/oknotypes -> ok, long data
// on parameter 1 -> 0); renumber slots. It returns the core and the clause the core refutes.
func (x *c16Runner) shrink(cs c16Case, clause string, at int) (c16Case, string) {
	cur := c16Case{Ops: append([]c16Op{}, cs.Ops[:at+1]...)}
	detail := ""
	if cl, c := x.failsAny(cur); cl != "" {
		cur, clause, detail = c, cl, x.lastDetail
	} else {
		x.lastDetail = "refutation not reproduced on replay"
		return c16Canon(cs), clause + "(not reproduced)"
	}
	try := func(c c16Case) bool {
		if len(c.Ops) == 0 {
			return false
		}
		if cl, cut := x.failsAny(c); cl != "" {
			cur, clause, detail = cut, cl, x.lastDetail
			return true
		}
		return false
	}
	for round := 0; round < 4; round++ {
		before := cur.String()
		if last := cur.Ops[len(cur.Ops)-1]; !(last.K == "X" && last.V == "ok") {
			c := c16Case{Ops: append([]c16Op{}, cur.Ops...)}
			c.Ops[len(c.Ops)-1] = c16Op{K: "X", S: last.S, V: "ok"}
			try(c)
		}
		for changed := true; changed; {
			changed = false
			for i := 0; i < len(cur.Ops); i++ {
				if try(c16Case{Ops: append(append([]c16Op{}, cur.Ops[:i]...), cur.Ops[i+1:]...)}) {
					changed = true
					break
				}
			}
		}
		for i := 0; i < len(cur.Ops); i++ {
			o := cur.Ops[i]
			c := c16Case{Ops: append([]c16Op{}, cur.Ops...)}
			if o.K == "X" && strings.HasPrefix(o.V, "okT:") {
				// a canonical representative of the two declared families
				c.Ops[i].V = "okswap"
				if !try(c) {
					c = c16Case{Ops: append([]c16Op{}, cur.Ops...)}
					c.Ops[i].V = "okdbl"
					if !try(c) {
						c = c16Case{Ops: append([]c16Op{}, cur.Ops...)}
						c.Ops[i].V = "ok"
						try(c)
					}
				}
				continue
			}
			if o.K == "X" && (o.V == "oknull" || o.V == "oknotypes" || o.V == "okswap" || o.V == "okdbl") {
				c.Ops[i].V = "ok"
			} else if o.K == "L" && o.E {
				c.Ops[i].E = false
			} else if o.K == "L" && o.P == 1 {
				c.Ops[i].P = 0
			} else {
				continue
			}
			try(c)
		}
		if cur.String() == before {
			break
		}
	}
	x.lastDetail = detail
	return c16Canon(cur), clause
}

func (x *c16Runner) one(cs c16Case) {
	x.rec.Eval(1)
	v := x.play(cs)
	if v.Harness != "" {
		x.rec.Count("harness_errors", 1)
		if x.fatal == "" {
			x.fatal = v.Harness + " in " + cs.String()
		}
		return
	}
	for k, n := range v.Stats {
		x.rec.Count(k, int64(n))
	}
	x.rec.Count("commands", int64(len(cs.Ops)))
	// non-trivial: the history executed a statement after a refused execute, a reset, a
	// close or pending long data on the same connection state
	if v.Stats["exec.ok.ok"]+v.Stats["exec.ok.oknull"]+v.Stats["exec.ok.oknotypes"]+v.Stats["exec.ok.okswap"]+v.Stats["exec.ok.okdbl"]+v.Stats["exec.ok.okT"] > 0 || v.Stats["exec.refused.unknown"] > 0 {
		x.rec.Nontrivial(cs.String())
	}
	if v.Clause == "" {
		return
	}
	x.rec.Count("refuted."+v.Clause, 1)
	min, clause := x.shrink(cs, v.Clause, v.At)
	sig := clause + "|" + min.String()
	x.rec.Violation(sig, x.lastDetail+" [core: "+min.String()+"; found in: "+cs.String()+"]", map[string]interface{}{"ops": min.Ops, "original": cs.Ops})
}

// c16Random draws a history of up to maxLen commands over three slots; the first command
// on a slot is its prepare three times out of four.
func c16Random(r *kit.Rand, maxLen int) c16Case {
	n := 2 + r.Intn(maxLen-1)
	alpha := c16Alphabet(3)
	var ops []c16Op
	var prepared [3]bool
	for len(ops) < n {
		o := alpha[r.Intn(len(alpha))]
		if !prepared[o.S] && r.Chance(3, 4) {
			o = c16Op{K: "P", S: o.S}
		}
		if o.K == "P" {
			prepared[o.S] = true
		}
		if o.K == "X" && r.Chance(1, 4) {
			o.V = "ok"
		} else if o.K == "X" && r.Chance(1, 3) {
			o.V = "okT:" + psFamilies[r.Intn(len(psFamilies))] + "," + psFamilies[r.Intn(len(psFamilies))]
		} else if o.K == "X" && r.Chance(1, 4) {
			o.V = "oknotypes"
		}
		ops = append(ops, o)
	}
	return c16Case{Ops: ops}
}

func TestVerif_C16(t *testing.T) {
	rec := kit.Start("C16", "exploration",
		"histories over {prepare, send_long_data(param, chunk or empty chunk), execute(ok|okswap|okdbl|okT:<fam>,<fam> over all pairs of 12 type families|oknull|oknotypes|trunc|len|types|cursor), reset, close} x up to 3 statement slots (slot symmetry removed); exhaustive to a length bound plus random histories of up to 8 commands; distinct = histories that executed a statement or addressed an unknown id")
	defer rec.Finish(t)
	rec.Assume("reference semantics of MySQL: an execute attempt (successful or refused) and a reset discard the long data of that statement; parameter types persist from the last successful execute that carried them; send_long_data and close are never answered")
	rec.Assume("an error packet in reply to send_long_data on an unknown statement id is tolerated (counted), a dropped connection on a malformed execute ends the history and is counted, not judged here")
	r := psRigStart(t)
	defer r.Close()
	x := &c16Runner{rec: rec, rig: r}
	defer func() {
		if x.c != nil {
			x.c.Quit()
		}
	}()
	if p := kit.ReplayPath(); p != "" {
		var doc struct {
			Ops      []c16Op  `json:"ops"`
			Original []c16Op  `json:"original"`
			Wide     *c16Wide `json:"wide"`
			WideOrig *c16Wide `json:"wide_original"`
		}
		if err := kit.LoadReplay(p, &doc); err != nil {
			t.Fatal(err)
		}
		for _, w := range []*c16Wide{doc.Wide, doc.WideOrig} {
			if w != nil {
				x.oneWide(*w)
				rec.Sample(w.String())
			}
		}
		for _, ops := range [][]c16Op{doc.Ops, doc.Original} {
			if len(ops) > 0 {
				x.one(c16Case{Ops: ops})
				rec.Sample(c16Case{Ops: ops}.String())
			}
		}
		rec.Nontrivial("replay-a")
		rec.Nontrivial("replay-b")
		return
	}
	n := 0
	run := func(cs c16Case) {
		if rec.CounterValue("harness_errors") > 20 {
			return
		}
		x.one(cs)
		n++
		if n%499 == 0 {
			rec.Sample(cs.String())
		}
		if n%500 == 0 {
			psTrimEvents(r)
		}
	}
	thorough := kit.Tier() == "thorough"
	// exhaustive part
	type bound struct {
		slots, length int
		prepFirst     bool
	}
	bounds := []bound{{1, 1, false}, {1, 2, false}, {2, 2, false}, {1, 3, true}}
	if thorough {
		bounds = []bound{{1, 1, false}, {1, 2, false}, {2, 2, false}, {3, 3, false}, {1, 3, true}, {1, 4, true}, {1, 5, true},
			{2, 4, true}, {3, 4, true}, {2, 5, true}}
	}
	var exh []string
	for _, b := range bounds {
		before := n
		c16Enumerate(b.slots, b.length, b.prepFirst, run)
		exh = append(exh, fmt.Sprintf("slots<=%d length=%d prepare_first=%v: %d histories", b.slots, b.length, b.prepFirst, n-before))
	}
	rec.Set("exhaustive_bounds", exh)
	rec.Exhaustive(thorough)
	// random part
	rr := kit.SubRand(kit.Seed(), "C16/random")
	for k := 0; k < kit.N(12000, 100000); k++ {
		run(c16Random(rr, 8))
	}
	// statements with 1..64 parameters (c16_wide_test.go)
	x.runWide()
	rec.Set("histories", n)
	if rec.CounterValue("harness_errors") > 0 {
		rec.Inconclusive(fmt.Sprintf("%d harness errors, first: %s", rec.CounterValue("harness_errors"), x.fatal))
	}
	if rec.CounterValue("exec.ok.ok") == 0 || rec.CounterValue("exec.refused.open.trunc") == 0 || rec.CounterValue("exec.ok.with_long_data") == 0 {
		rec.Inconclusive("the run never executed a statement / never had a malformed execute refused / never executed with long data")
	}
}
