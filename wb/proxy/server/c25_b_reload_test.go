package server

// C25 part b — locality of replica selection survives a namespace reload.
//
// A real Manager is built with an explicit server_idc that differs from what the host name
// would give. Namespaces with datacenter-tagged, weighted replicas are loaded and then
// RELOADED through the real ReloadNamespacePrepare + ReloadNamespaceCommit (which copies the
// namespace manager generation and rebuilds the namespace). Before and after every reload, for
// every slice, replica group and local-read policy, selections are made through the real
// backend.Slice.GetConn (fake pools name the node that served) and judged by the statement:
// the slice must have been built for the proxy's datacenter; forced-local never returns a
// replica of another datacenter and finds a local one when there is one; preferred-local
// leaves the datacenter only when no local replica can serve; every window of W selections
// holds each eligible replica w_i/gcd times.

import (
	"fmt"
	"io/ioutil"
	"os"
	"strings"
	"testing"

	"github.com/XiaoMi/Gaea/backend"
	"github.com/XiaoMi/Gaea/models"
	"github.com/XiaoMi/Gaea/util"
	kit "github.com/XiaoMi/Gaea/verifkit"
)

type c25bReplica struct {
	Weight   int    `json:"weight"`
	DC       string `json:"dc"`
	NoWeight bool   `json:"no_weight,omitempty"` // the address carries no '@weight': the weight is the default 1
}

// want is the weight the configuration gives this replica (the oracle never reads the
// weight or datacenter the code under test parsed).
func (r c25bReplica) want() int {
	if r.NoWeight {
		return 1
	}
	return r.Weight
}

type c25bCase struct {
	Name     string          `json:"namespace"`
	Priority int             `json:"local_slave_read_priority"`
	Slaves   [][]c25bReplica `json:"slaves"`     // per slice
	Stats    [][]c25bReplica `json:"statistics"` // per slice
	Reloads  int             `json:"reloads"`    // how many times the same config is reloaded
}

func c25bGCD(a, b int) int {
	for b != 0 {
		a, b = b, a%b
	}
	return a
}

func c25bConfig(c c25bCase, portBase int) *models.Namespace {
	ns := rigBasicNamespace(c.Name)
	ns.ShardRules = nil
	ns.Slices = nil
	ns.LocalSlaveReadPriority = c.Priority
	ns.DefaultSlice = "slice-0"
	port := portBase
	addrs := func(rs []c25bReplica) []string {
		var out []string
		for _, r := range rs {
			port++
			if r.NoWeight {
				out = append(out, fmt.Sprintf("127.0.0.1:%d#%s", port, r.DC))
			} else {
				out = append(out, fmt.Sprintf("127.0.0.1:%d@%d#%s", port, r.Weight, r.DC))
			}
		}
		return out
	}
	for i := range c.Slaves {
		port++
		sl := rigSlice(fmt.Sprintf("slice-%d", i), fmt.Sprintf("127.0.0.1:%d", port), addrs(c.Slaves[i]))
		if i < len(c.Stats) {
			sl.StatisticSlaves = addrs(c.Stats[i])
		}
		ns.Slices = append(ns.Slices, sl)
	}
	return ns
}

type c25bFail struct {
	Clause string
	Detail string
}

// c25bJudgeGroup makes selections from one replica group of one slice with one policy.
// usePolicy is what is handed to GetConn, policy is what the configuration asks for (they
// differ only when the namespace mapped the configured priority wrongly).
func c25bJudgeGroup(sl *backend.Slice, group *backend.DBInfo, cfg []c25bReplica, userType int, usePolicy int, policy int, idc string, picksOut *int64) *c25bFail {
	if len(cfg) == 0 {
		return nil
	}
	if group == nil || len(group.Nodes) != len(cfg) {
		n := 0
		if group != nil {
			n = len(group.Nodes)
		}
		return &c25bFail{Clause: "group-size-mismatch", Detail: fmt.Sprintf("%d replicas configured, the group holds %d", len(cfg), n)}
	}
	type nd struct {
		w     int
		local bool
	}
	byAddr := map[string]int{}
	nodes := make([]nd, len(group.Nodes))
	localServes := false
	for i, n := range group.Nodes {
		byAddr[n.Address] = i
		nodes[i] = nd{w: cfg[i].want(), local: cfg[i].DC == idc}
		if nodes[i].w > 0 && nodes[i].local {
			localServes = true
		}
	}
	may := make([]bool, len(nodes))
	anyMay := false
	g, total := 0, 0
	for i, n := range nodes {
		if n.w <= 0 {
			continue
		}
		switch policy {
		case backend.LocalSlaveReadForce:
			may[i] = n.local
		case backend.LocalSlaveReadPrefer:
			may[i] = n.local || !localServes
		default:
			may[i] = true
		}
		if may[i] {
			anyMay = true
			g = c25bGCD(g, n.w)
		}
	}
	exp := make([]int, len(nodes))
	for i, n := range nodes {
		if may[i] {
			exp[i] = n.w / g
			total += exp[i]
		}
	}
	reqCtx := util.NewRequestContext()
	reqCtx.SetFromSlave(true)
	d := 3*total + 6
	picks := make([]int, 0, d)
	for j := 0; j < d; j++ {
		pc, err := sl.GetConn(reqCtx, userType, usePolicy)
		*picksOut++
		idx := -1
		if err == nil && pc != nil {
			if i, ok := byAddr[pc.GetAddr()]; ok {
				idx = i
			}
			pc.Recycle()
		}
		picks = append(picks, idx)
		switch {
		case idx < 0:
			// refused, or served by the master as a fallback
			if anyMay {
				what := "fell back to the master"
				if err != nil {
					what = "refused: " + err.Error()
				}
				return &c25bFail{Clause: "no-pick-while-eligible-up", Detail: fmt.Sprintf("selection %d %s although an eligible replica is up", j, what)}
			}
		case nodes[idx].w <= 0:
			return &c25bFail{Clause: "zero-weight-picked", Detail: fmt.Sprintf("selection %d returned %s (configured weight 0)", j, group.Nodes[idx].Address)}
		case policy == backend.LocalSlaveReadForce && !nodes[idx].local:
			return &c25bFail{Clause: "force-remote", Detail: fmt.Sprintf("selection %d returned %s in datacenter %q, the proxy is in %q", j, group.Nodes[idx].Address, group.Nodes[idx].Datacenter, idc)}
		case policy == backend.LocalSlaveReadPrefer && !nodes[idx].local && localServes:
			return &c25bFail{Clause: "prefer-remote-while-local-up", Detail: fmt.Sprintf("selection %d returned %s in datacenter %q, the proxy is in %q and a local replica is up", j, group.Nodes[idx].Address, group.Nodes[idx].Datacenter, idc)}
		}
	}
	if total > 0 {
		for pos := 0; pos+total <= len(picks); pos++ {
			cnt := make([]int, len(nodes))
			for _, p := range picks[pos : pos+total] {
				if p >= 0 {
					cnt[p]++
				}
			}
			for i := range cnt {
				if cnt[i] != exp[i] {
					return &c25bFail{Clause: "window", Detail: fmt.Sprintf("window of %d selections starting at %d = %v, expected per-node counts %v from the configured weights %+v", total, pos, picks[pos:pos+total], exp, cfg)}
				}
			}
		}
	}
	return nil
}

func c25bWantPolicy(priority int) int {
	switch priority {
	case 1:
		return backend.LocalSlaveReadPrefer
	case 2:
		return backend.LocalSlaveReadForce
	}
	return backend.LocalSlaveReadClosed
}

func c25bJudgeNamespace(ns *Namespace, c c25bCase, idc string, picks *int64) *c25bFail {
	for i := range c.Slaves {
		name := fmt.Sprintf("slice-%d", i)
		sl := ns.slices[name]
		if sl == nil {
			return &c25bFail{Clause: "slice-missing", Detail: name}
		}
		var stats []c25bReplica
		if i < len(c.Stats) {
			stats = c.Stats[i]
		}
		type pass struct {
			use, want int
			tag       string
		}
		// the way a session selects (executor.go): the namespace's own mapping of the configured
		// local_slave_read_priority; then every policy handed over directly
		passes := []pass{{ns.localSlaveReadPriority, c25bWantPolicy(c.Priority), "configured-priority"}}
		for _, p := range []int{backend.LocalSlaveReadClosed, backend.LocalSlaveReadPrefer, backend.LocalSlaveReadForce} {
			passes = append(passes, pass{p, p, "direct"})
		}
		for _, ps := range passes {
			if f := c25bJudgeGroup(sl, sl.Slave, c.Slaves[i], 0, ps.use, ps.want, idc, picks); f != nil {
				f.Clause = fmt.Sprintf("%s/normal/policy%d/%s", f.Clause, ps.want, ps.tag)
				f.Detail = "slice " + name + " group Slave: " + f.Detail
				return f
			}
			if f := c25bJudgeGroup(sl, sl.StatisticSlave, stats, models.StatisticUser, ps.use, ps.want, idc, picks); f != nil {
				f.Clause = fmt.Sprintf("%s/statistic/policy%d/%s", f.Clause, ps.want, ps.tag)
				f.Detail = "slice " + name + " group StatisticSlave: " + f.Detail
				return f
			}
		}
		if sl.ProxyDatacenter != idc {
			return &c25bFail{Clause: "slice-built-for-wrong-datacenter", Detail: fmt.Sprintf("slice %s was built for proxy datacenter %q, the proxy's server_idc is %q", name, sl.ProxyDatacenter, idc)}
		}
	}
	return nil
}

func TestVerif_C25b(t *testing.T) {
	rigQuietLogs()
	rec := kit.Start("C25", "exploration", "part b: namespaces with 1-2 slices, 1-5 weighted datacenter-tagged replicas per Slave / StatisticSlave group and every local_slave_read_priority are loaded into a real Manager (explicit server_idc) and reloaded 1-2 times through ReloadNamespacePrepare/Commit; after the initial load and after every reload each group x policy is exercised through backend.Slice.GetConn; non-trivial = distinct (replica lists, priority) with local and remote replicas in one group, judged after a reload")
	defer rec.Finish(t)
	rec.Assume("part b: the node that served is identified by the address of the fake pool's connection; all replicas are up")

	dir, err := ioutil.TempDir("", "verifc25b")
	if err != nil {
		rec.Inconclusive("temp dir: " + err.Error())
		return
	}
	defer os.RemoveAll(dir)
	// an explicit server_idc that differs from the datacenter the host name would give
	idc := "c3"
	if hn, e := os.Hostname(); e == nil {
		if hdc, e2 := util.GetHostDatacenter(hn); e2 == nil && hdc == idc {
			idc = "c4"
		}
	}
	other := "zz9"
	cfg := rigProxyCfg(dir, rigOpts{})
	cfg.ServerIdc = idc

	r := kit.SubRand(kit.Seed(), "C25b/cases")
	gen := func(i int) c25bCase {
		c := c25bCase{Name: fmt.Sprintf("c25b_%d", i%3), Priority: i % 3, Reloads: 1 + i%2}
		for s, ns := 0, r.Range(1, 2); s < ns; s++ {
			mk := func(n int) []c25bReplica {
				var out []c25bReplica
				for k := 0; k < n; k++ {
					rp := c25bReplica{Weight: r.Range(1, 8), DC: idc}
					if r.Chance(1, 6) {
						rp.Weight = 0
					}
					if r.Chance(2, 5) {
						rp.DC = other
					}
					if r.Chance(1, 3) {
						rp.NoWeight = true // "host:port#dc": default weight 1, whatever the neighbours say
					}
					out = append(out, rp)
				}
				return out
			}
			c.Slaves = append(c.Slaves, mk(r.Range(1, 5)))
			c.Stats = append(c.Stats, mk(r.Range(0, 3)))
		}
		return c
	}

	first := []*models.Namespace{}
	cases := []c25bCase{}
	for i := 0; i < 3; i++ {
		c := gen(i)
		cases = append(cases, c)
		first = append(first, c25bConfig(c, 20000+i*100))
	}
	m, err := rigNewManager(cfg, rigOpts{Namespaces: first})
	if err != nil {
		rec.Inconclusive("cannot build the Manager: " + err.Error())
		return
	}
	B := newRigBackend()
	gen0 := 0
	current := func(name string) *Namespace { return m.GetNamespace(name) }
	for _, c := range cases {
		gen0++
		B.rigInstallFakes(current(c.Name), gen0)
	}

	var picks, reloads int64
	report := func(c c25bCase, stage string, f *c25bFail) {
		when := "after-initial-load"
		if stage != "initial" {
			when = "after-reload"
		}
		rec.Violation("reload/"+when+"/"+f.Clause, fmt.Sprintf("server_idc=%q namespace %s priority=%d slaves=%+v statistic=%+v, %s: %s", idc, c.Name, c.Priority, c.Slaves, c.Stats, stage, f.Detail), c)
	}
	judge := func(c c25bCase, stage string) {
		ns := current(c.Name)
		if ns == nil {
			rec.Inconclusive("namespace " + c.Name + " vanished")
			return
		}
		rec.Eval(1)
		if f := c25bJudgeNamespace(ns, c, idc, &picks); f != nil {
			report(c, stage, f)
		}
		if stage != "initial" {
			mixed := false
			for _, g := range append(append([][]c25bReplica{}, c.Slaves...), c.Stats...) {
				l, rm := false, false
				for _, rp := range g {
					if rp.want() > 0 && rp.DC == idc {
						l = true
					}
					if rp.want() > 0 && rp.DC != idc {
						rm = true
					}
				}
				mixed = mixed || (l && rm)
			}
			if mixed {
				rec.Nontrivial(fmt.Sprintf("%d/%v/%v", c.Priority, c.Slaves, c.Stats))
			}
		}
	}
	reload := func(c c25bCase, port int) bool {
		nc := c25bConfig(c, port)
		if err := m.ReloadNamespacePrepare(nc); err != nil {
			rec.Inconclusive("prepare failed: " + err.Error())
			return false
		}
		_, otherIdx, _ := m.switchIndex.Get()
		nsNew := m.namespaces[otherIdx].GetNamespace(c.Name)
		if nsNew != nil {
			gen0++
			B.rigInstallFakes(nsNew, gen0)
		}
		if err := m.ReloadNamespaceCommit(c.Name); err != nil {
			rec.Inconclusive("commit failed: " + err.Error())
			return false
		}
		if nsNew != nil {
			nsNew.CloseCancel()
		}
		reloads++
		return true
	}

	if p := kit.ReplayPath(); p != "" {
		var c c25bCase
		if err := kit.LoadReplay(p, &c); err != nil || len(c.Slaves) == 0 || !strings.HasPrefix(c.Name, "c25b_") {
			rec.Eval(1)
			rec.Set("replay", "not a part-b case")
			return
		}
		for k := 0; k < c.Reloads; k++ {
			if !reload(c, 30000+k*100) {
				return
			}
			judge(c, fmt.Sprintf("reload #%d", k+1))
		}
		return
	}

	for _, c := range cases {
		judge(c, "initial")
	}
	n := kit.N(45, 600)
	for i := 0; i < n; i++ {
		c := gen(i + 3)
		for k := 0; k < c.Reloads; k++ {
			if !reload(c, 21000+((i*2+k)%300)*100) {
				return
			}
			judge(c, fmt.Sprintf("reload #%d", k+1))
		}
		if i < 3 {
			rec.Sample(c)
		}
	}
	// directed: explicit weights followed by addresses without '@weight', every priority
	for pr := 0; pr < 3; pr++ {
		c := c25bCase{Name: "c25b_0", Priority: pr, Reloads: 1,
			Slaves: [][]c25bReplica{{{Weight: 3, DC: idc}, {NoWeight: true, DC: idc}, {Weight: 0, DC: idc}, {NoWeight: true, DC: other}, {Weight: 5, DC: other}, {NoWeight: true, DC: idc}}},
			Stats:  [][]c25bReplica{{{Weight: 4, DC: other}, {NoWeight: true, DC: idc}}}}
		if !reload(c, 52000+pr*100) {
			return
		}
		judge(c, "reload #1")
	}
	rec.Count("reloads", reloads)
	rec.Count("selections", picks)
	rec.Set("server_idc", idc)
	if reloads == 0 || picks == 0 {
		rec.Inconclusive("no reload / selection observed")
	}
}
