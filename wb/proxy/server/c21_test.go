package server

// C21 — read-only users cannot change data or schema.
//
// Ground truth by construction (R6): a statement is assembled from a KIND (its first
// keyword decides what it does: INSERT/REPLACE/UPDATE/DELETE/CREATE/ALTER/DROP/TRUNCATE/
// RENAME/LOAD are data- or schema-modifying, SELECT/SHOW are controls) and DECORATIONS that
// never change what MySQL would execute (comments, white space, keyword case, optimizer
// hint, /*! */ version-comment wrapper). Oracle (rig R2, fake pools): such a statement sent
// by a read-only user — as a query, as a piece of a multi-statement query (before/after a
// control), via prepare+execute (with and without parameters), outside or inside a
// transaction — must be answered with an error and must cause ZERO backend pool `get`
// (beyond those of the control piece). Controls must be served whenever the same text is
// served for a read-write user. Liveness of a case (non-trivial) = the same text sent by a
// read-write user reaches a master, i.e. the only thing that can stop it is the
// read-only check.

import (
	"fmt"
	"sort"
	"strings"
	"testing"

	"github.com/XiaoMi/Gaea/models"
	kit "github.com/XiaoMi/Gaea/verifkit"
	"github.com/XiaoMi/Gaea/verifkit/mycli"
)

type c21Kind struct {
	Name  string
	KW    string // first keyword = class
	Rest  string // template after the gap
	PRest string // prepared variant with placeholders ("" = none)
	PArgs []mycli.Param
	Write bool
}

var c21Kinds = []c21Kind{
	{"insert", "insert", "{into} t2 (id, c) {values} (1, 'x')", "{into} t2 (id, c) {values} (?, ?)", []mycli.Param{rwParamInt(1), rwParamStr("x")}, true},
	{"insert_nointo", "insert", "t2 (id, c) {values} (1, 'x')", "", nil, true},
	{"insert_select", "insert", "{into} t2 {select} * {from} t3", "", nil, true},
	{"insert_set", "insert", "{into} t2 {set} id = 1, c = 'x'", "", nil, true},
	{"insert_shard", "insert", "{into} tbl_shard (id, c) {values} (1, 'x')", "{into} tbl_shard (id, c) {values} (?, ?)", []mycli.Param{rwParamInt(1), rwParamStr("x")}, true},
	{"replace", "replace", "{into} t2 (id, c) {values} (1, 'x')", "{into} t2 (id, c) {values} (?, ?)", []mycli.Param{rwParamInt(1), rwParamStr("x")}, true},
	{"replace_shard", "replace", "{into} tbl_shard (id, c) {values} (1, 'x')", "", nil, true},
	{"update", "update", "t2 {set} c = 'x' {where} id = 1", "t2 {set} c = ? {where} id = ?", []mycli.Param{rwParamStr("x"), rwParamInt(1)}, true},
	{"update_shard", "update", "tbl_shard {set} c = 'x' {where} id = 1", "", nil, true},
	{"delete", "delete", "{from} t2 {where} id = 1", "{from} t2 {where} id = ?", []mycli.Param{rwParamInt(1)}, true},
	{"delete_shard", "delete", "{from} tbl_shard {where} id = 1", "", nil, true},
	{"create_table", "create", "{table} t9 (id int)", "", nil, true},
	{"create_index", "create", "{index} i1 {on} t2 (c)", "", nil, true},
	{"alter_table", "alter", "{table} t2 {add} {column} d int", "", nil, true},
	{"drop_table", "drop", "{table} t2", "", nil, true},
	{"drop_index", "drop", "{index} i1 {on} t2", "", nil, true},
	{"truncate", "truncate", "{table} t2", "", nil, true},
	{"truncate_bare", "truncate", "t2", "", nil, true},
	{"rename", "rename", "{table} t2 {to} t8", "", nil, true},
	{"load_data", "load", "{data} {infile} '/tmp/x.csv' {into} {table} t2", "", nil, true},
	// controls
	{"sel_const", "select", "1", "", nil, false},
	{"sel_t2", "select", "c {from} t2 {where} id = 1", "c {from} t2 {where} id = ?", []mycli.Param{rwParamInt(1)}, false},
	{"sel_shard", "select", "c {from} tbl_shard {where} id = 1", "", nil, false},
	{"show_tables", "show", "{tables}", "", nil, false},
	{"show_vars", "show", "{variables} {like} 'version'", "", nil, false},
}

var c21KindIdx = func() map[string]int {
	m := map[string]int{}
	for i, k := range c21Kinds {
		m[k.Name] = i
	}
	return m
}()

// decoration dimensions; index 0 is the default (= feature absent)
var c21Dims = []struct {
	Name string
	Vals []string
}{
	{"lead", []string{"none", "block", "block_tight", "line", "hash", "ws",
		"block_slash", "block_slash_tight", "block_empty", "block_star", "block_open_in", "two_blocks",
		"line_tab", "line_vt", "line_ff", "line_ctl", "line_empty", "hash_empty", "ver_empty", "bang_empty"}},
	{"case", []string{"lower", "upper", "mixed"}},
	{"gap", []string{"space", "nl", "tab", "comment", "comment_sp", "hint_tight", "hint_sp", "vt", "comment_slash", "comment_star"}},
	{"wrap", []string{"none", "bang", "ver", "ver6"}},
	{"trail", []string{"none", "block"}},
	{"channel", []string{"query", "multi_after", "multi_before", "prepare", "prepare_param", "nosplit_after",
		// unsplit packets whose statement separator sits INSIDE a version comment after a control
		// (MySQL executes the comment's content, so the packet is `control ; statement`):
		// blanks/tabs/newline between the version number and the ';', comment closed after the
		// statement or right after the ';'; sent as COM_QUERY on the namespace without
		// support_multi_query and as COM_STMT_PREPARE/EXECUTE
		"nosplit_vc1", "nosplit_vc2", "nosplit_vc3", "nosplit_vctab", "nosplit_vcnl", "nosplit_vc_close", "prepare_vc2", "prepare_vc_close"}},
	{"user", []string{"ro", "ro2"}},
	{"tx", []string{"none", "begin", "ac0"}},
}

var c21LeadText = map[string]string{"none": "", "block": "/* c */ ", "block_tight": "/*c*/", "line": "-- c\n", "hash": "# c\n", "ws": "\n\t ",
	// comment bodies that stress comment scanners: starting with '/', empty, '*', holding an opener; two comments
	"block_slash": "/*/ trace */ ", "block_slash_tight": "/*/ trace */", "block_empty": "/**/", "block_star": "/***/ ", "block_open_in": "/* /* x */ ", "two_blocks": "/* a */ /* b */ ",
	// `--` followed by each kind of white space / control character (MySQL: a comment), empty comments
	"line_tab": "--\tc\n", "line_vt": "--\vc\n", "line_ff": "--\fc\n", "line_ctl": "--\x01c\n", "line_empty": "--\n", "hash_empty": "#\n",
	// an EMPTY version comment in front of the statement
	"ver_empty": "/*!40101 */ ", "bang_empty": "/*! */ "}
var c21GapText = map[string]string{"space": " ", "nl": "\n", "tab": "\t", "comment": "/**/", "comment_sp": " /* g */ ",
	"hint_tight": "/*+ SET_VAR(sort_buffer_size=262144) */", "hint_sp": " /*+ SET_VAR(sort_buffer_size=262144) */ ",
	"vt": "\v", "comment_slash": "/*/ g */", "comment_star": "/***/"}

func c21DimVals(name string) []string {
	for _, d := range c21Dims {
		if d.Name == name {
			return d.Vals
		}
	}
	return nil
}

const c21Control = "select 7"

// c21VCOpen: text between the control and the ';' for the version-comment channels; the
// statement follows the ';' directly (no blank)
var c21VCOpen = map[string]string{
	"nosplit_vc1": " /*!40101 ", "nosplit_vc2": " /*!40101  ", "nosplit_vc3": " /*!40101   ", "nosplit_vctab": " /*!40101\t ", "nosplit_vcnl": " /*!40101\n",
	"nosplit_vc_close": " /*!40101 ", "prepare_vc2": " /*!40101  ", "prepare_vc_close": " /*!40101 ",
}

// vcText builds the unsplit packet of a version-comment channel.
func (c c21Case) vcText() string {
	ch := c.get("channel")
	if strings.HasSuffix(ch, "_close") {
		return c21Control + c21VCOpen[ch] + "; */" + c.text(false)
	}
	return c21Control + c21VCOpen[ch] + ";" + c.text(false) + " */"
}

// packet is the text that goes on the wire for the statement under test (without the
// control piece of the multi-statement channels).
func (c c21Case) packet() string {
	if c21IsVC(c.get("channel")) {
		return c.vcText()
	}
	return c.text(c.get("channel") == "prepare_param")
}

// c21ObserveOnly: channels executed and counted but not reported. Empty: the two defects
// that once needed it (`*/` opening a piece, newline behind the version number) were repaired
// in /repo (fix commit 3a04651), so every channel is enforced by the normal oracle.
var c21ObserveOnly = map[string]bool{}

func c21IsVC(ch string) bool { _, ok := c21VCOpen[ch]; return ok }

type c21Case struct {
	Kind string            `json:"kind"`
	D    map[string]string `json:"dims"` // dimension -> value (absent = default)
	Text string            `json:"text,omitempty"`
	// reload histories: the rw_flag history of the user ("rw>ro", ...) and whether the session
	// was connected before the last reload (stale) or after it (fresh); "" = no reload involved
	History string `json:"history,omitempty"`
	Session string `json:"session,omitempty"`
}

func (c c21Case) get(dim string) string {
	if v, ok := c.D[dim]; ok {
		return v
	}
	for _, d := range c21Dims {
		if d.Name == dim {
			return d.Vals[0]
		}
	}
	return ""
}

func (c c21Case) with(dim, val string) c21Case {
	d := map[string]string{}
	for k, v := range c.D {
		d[k] = v
	}
	def := ""
	for _, x := range c21Dims {
		if x.Name == dim {
			def = x.Vals[0]
		}
	}
	if val == def {
		delete(d, dim)
	} else {
		d[dim] = val
	}
	return c21Case{Kind: c.Kind, D: d}
}

func (c c21Case) decoKey() string {
	var ks []string
	for k, v := range c.D {
		ks = append(ks, k+"="+v)
	}
	sort.Strings(ks)
	if len(ks) == 0 {
		return "-"
	}
	return strings.Join(ks, ",")
}

func (c c21Case) key() string { return c.Kind + "|" + c.decoKey() }

func (c c21Case) kind() c21Kind { return c21Kinds[c21KindIdx[c.Kind]] }

// valid: combinations that are well-formed by construction.
func (c c21Case) valid() bool {
	k := c.kind()
	if c.get("wrap") != "none" {
		// no comment nested inside the version comment
		switch c.get("gap") {
		case "comment", "comment_sp", "hint_tight", "hint_sp", "comment_slash", "comment_star":
			return false
		}
	}
	if c.get("channel") == "prepare_param" && k.PRest == "" {
		return false
	}
	if ch := c.get("channel"); c21IsVC(ch) && !strings.HasSuffix(ch, "_close") {
		// the statement sits inside the version comment: no comment may be nested in it
		if c.get("wrap") != "none" || c.get("trail") != "none" {
			return false
		}
		switch c.get("lead") {
		case "none", "ws":
		default:
			return false
		}
		switch c.get("gap") {
		case "space", "nl", "tab", "vt":
		default:
			return false
		}
	}
	return true
}

// text renders the statement (param = prepared variant with placeholders).
func (c c21Case) text(param bool) string {
	k := c.kind()
	rest := k.Rest
	if param {
		rest = k.PRest
	}
	cm := c.get("case")
	core := rwRender("{"+k.KW+"}", cm, " ") + c21GapText[c.get("gap")] + rwRender(rest, cm, " ")
	switch c.get("wrap") {
	case "bang":
		core = "/*! " + core + " */"
	case "ver":
		core = "/*!40101 " + core + " */"
	case "ver6":
		core = "/*!080000 " + core + " */" // six-digit version number (MySQL 8: Mmmmrr)
	}
	t := c21LeadText[c.get("lead")] + core
	if c.get("trail") == "block" {
		t += " /* t */"
	}
	return t
}

type c21Result struct {
	ErrReply  bool     // the reply for the statement under test is an error
	Replies   string   // rendering of all replies
	Gets      int      // pool gets beyond those of the control piece
	Execs     []string // backend execs that are not the control
	Roles     []string
	IOErr     string
	ControlOK bool // multi channels: the control piece behaved as expected
}

type c21Harness struct {
	t    *testing.T
	r    *rig
	sess map[string]*rwSession
}

// c21NS is the namespace of the C21 rig: rwNamespace plus two users whose rw_flag is changed
// by online reloads while their sessions stay connected (flip starts read-write, flop starts
// read-only).
func c21NS(flipReadOnly, flopReadOnly bool) *models.Namespace {
	ns := rwNamespace("ns21", true)
	flag := func(ro bool) int {
		if ro {
			return models.ReadOnly
		}
		return models.ReadWrite
	}
	ns.Users = append(ns.Users,
		rigUser("ns21", "ns21_flip", "pw_flip", flag(flipReadOnly), models.NoReadWriteSplit),
		rigUser("ns21", "ns21_flop", "pw_flop", flag(flopReadOnly), models.ReadWriteSplit))
	return ns
}

func c21NewHarness(t *testing.T) *c21Harness {
	h := &c21Harness{t: t, sess: map[string]*rwSession{}}
	nosplit := rwNamespace("ns21n", true)
	nosplit.SupportMultiQuery = false
	h.r = rigStart(t, rigOpts{Namespaces: rwNSList(c21NS(false, true), nosplit), FakePools: true})
	for _, u := range []string{"ro", "ro2", "rw"} {
		s, err := rwOpen(h.r, "ns21n", u, "db")
		if err != nil {
			h.r.Close()
			t.Fatalf("C21 dial ns21n %s: %v", u, err)
		}
		h.sess["n_"+u] = s
	}
	for _, u := range []string{"ro", "ro2", "rw", "flip", "flop"} {
		s, err := rwOpen(h.r, "ns21", u, "db")
		if err != nil {
			h.r.Close()
			t.Fatalf("C21 dial %s: %v", u, err)
		}
		h.sess[u] = s
	}
	return h
}

func (h *c21Harness) close() {
	for _, s := range h.sess {
		s.Close()
	}
	h.r.Close()
}

// run executes the case as `user` (the case's own user unless overridden).
func (h *c21Harness) run(c c21Case, user string) c21Result {
	s := h.sess[user]
	if ch := c.get("channel"); ch == "nosplit_after" || c21IsVC(ch) {
		// namespace without support_multi_query: the packet is not split, it is ONE statement
		// text for the proxy although it holds a modifying statement after the control
		if ns, ok := h.sess["n_"+user]; ok {
			s = ns
		}
	}
	var res c21Result
	tx := c.get("tx")
	switch tx {
	case "begin":
		s.Query("begin")
	case "ac0":
		s.Query("set autocommit=0")
	}
	var rs []*mycli.Reply
	var obs rwObs
	var err error
	ch := c.get("channel")
	allowedGets := 0
	switch ch {
	case "query":
		rs, obs, err = s.Query(c.text(false))
		if err == nil && len(rs) > 0 {
			res.ErrReply = rs[len(rs)-1].Err != nil
		}
	case "multi_after":
		rs, obs, err = s.Query(c21Control + "; " + c.text(false))
		allowedGets = 1
		if err == nil && len(rs) > 0 {
			res.ErrReply = rs[len(rs)-1].Err != nil
			res.ControlOK = rs[0].Err == nil
		}
	case "multi_before":
		rs, obs, err = s.Query(c.text(false) + "; " + c21Control)
		if err == nil && len(rs) > 0 {
			res.ErrReply = rs[0].Err != nil
			if !res.ErrReply {
				allowedGets = 1
			}
		}
	case "nosplit_vc1", "nosplit_vc2", "nosplit_vc3", "nosplit_vctab", "nosplit_vcnl", "nosplit_vc_close":
		rs, obs, err = s.Query(c.vcText())
		if err == nil && len(rs) > 0 {
			res.ErrReply = rs[len(rs)-1].Err != nil
		}
	case "prepare_vc2", "prepare_vc_close":
		rs, obs, err = s.PrepExec(c.vcText(), nil)
		if err == nil && len(rs) > 0 {
			res.ErrReply = rs[0].Err != nil
		}
	case "nosplit_after":
		rs, obs, err = s.Query(c21Control + "; " + c.text(false))
		if err == nil && len(rs) > 0 {
			res.ErrReply = rs[len(rs)-1].Err != nil
		}
	case "prepare":
		rs, obs, err = s.PrepExec(c.text(false), nil)
		if err == nil && len(rs) > 0 {
			res.ErrReply = rs[0].Err != nil
		}
	case "prepare_param":
		rs, obs, err = s.PrepExec(c.text(true), c.kind().PArgs)
		if err == nil && len(rs) > 0 {
			res.ErrReply = rs[0].Err != nil
		}
	}
	if err != nil {
		res.IOErr = err.Error()
	}
	res.Replies = rwReplyBrief(rs, err)
	nctl := 0
	for _, e := range obs.Execs {
		if strings.TrimSpace(e.SQL) == c21Control && nctl < allowedGets {
			nctl++
			continue
		}
		res.Execs = append(res.Execs, e.SQL)
	}
	res.Gets = len(obs.Gets) - nctl
	res.Roles = obs.Roles()
	switch tx {
	case "begin":
		s.Query("rollback")
	case "ac0":
		s.Query("rollback")
		s.Query("set autocommit=1")
	}
	return res
}

func TestVerif_C21(t *testing.T) {
	rec := kit.Start("C21", "exploration",
		"case = statement kind (20 modifying kinds: INSERT x5, REPLACE x2, UPDATE x2, DELETE x2, CREATE TABLE/INDEX, ALTER, DROP TABLE/INDEX, TRUNCATE x2, RENAME, LOAD DATA; 5 SELECT/SHOW controls) x decorations "+
			"{lead (20: comments with bodies /*/..*/, /**/, /***/, holding an opener, two comments, `--`+blank/tab/VT/FF/control byte, empty -- and # comments, EMPTY /*!40101 */ and /*! */ in front, white space), keyword case (3), gap between first keyword and next token (10: blank, newline, tab, VT, glued /**/ /*/..*/ /***/, spaced comment, optimizer hint glued/spaced), /*! */ wrapper (3), trailing comment (2)} "+
			"x channel {query, multi-statement piece after/before a control, prepare+execute, prepare+execute with parameters, unsplit packet `control; statement` on a namespace without support_multi_query} x read-only user {with, without rw-split} x {no tx, BEGIN, autocommit=0}; plus configuration-change histories (online reload flips a connected user's rw_flag rw>ro, ro>rw>ro, rw>ro>rw>ro; every modifying kind x channel on the stale and on a fresh session); "+
			"thorough enumerates lead x gap x wrapper x channel x user and case x trailer / transactions on single-decoration cases; configuration variants (user entries whose names differ by blanks/case; what Verify accepts decides) ; non-trivial = the same text sent by a read-write user reaches a master")
	defer rec.Finish(t)
	rec.Assume("decorations are semantically neutral for MySQL by construction; no comment is nested inside a /*! */ wrapper")
	rec.Assume("SQL-level PREPARE/EXECUTE, CALL, WITH ... UPDATE/DELETE and SELECT ... INTO OUTFILE are outside the generated space")

	h := c21NewHarness(t)
	defer h.close()

	// liveness of a text: does it reach a master when a read-write user sends it
	live := map[string]bool{}
	isLive := func(c c21Case) bool {
		lc := c21Case{Kind: c.Kind, D: map[string]string{}}
		for _, d := range []string{"lead", "case", "gap", "wrap", "trail"} {
			lc = lc.with(d, c.get(d))
		}
		k := lc.key()
		if v, ok := live[k]; ok {
			return v
		}
		res := h.run(lc, "rw")
		v := !res.ErrReply && res.Gets > 0
		live[k] = v
		rec.Count("liveness.probes", 1)
		if v {
			rec.Count("liveness.live", 1)
		}
		return v
	}

	// verdict of a case (cached: the verdict is a function of the case)
	type verdict struct {
		Clause string
		What   string
	}
	cache := map[string]verdict{}
	eval := func(c c21Case) verdict {
		if v, ok := cache[c.key()]; ok {
			return v
		}
		var v verdict
		k := c.kind()
		res := h.run(c, c.get("user"))
		rec.Count("rig.commands", 1)
		rec.Count("rig.events.get", int64(res.Gets))
		describe := func(msg string) string {
			return fmt.Sprintf("%s: user %s, channel %s, tx %s, statement %q -> replies [%s], backend gets %d on %v, execs %q", msg, c.get("user"), c.get("channel"), c.get("tx"), c.packet(), res.Replies, res.Gets, res.Roles, res.Execs)
		}
		switch {
		case res.IOErr != "":
			v = verdict{"io", describe("client I/O error " + res.IOErr)}
		case k.Write:
			if res.Gets > 0 || len(res.Execs) > 0 {
				v = verdict{"backend-reached", describe("modifying statement of a read-only user reached a backend")}
			} else if !res.ErrReply {
				v = verdict{"no-error", describe("modifying statement of a read-only user was not answered with an error")}
			}
		default:
			if res.ErrReply {
				// control refused for the read-only user: only a violation if a read-write user is served
				rw := h.run(c, "rw")
				if !rw.ErrReply {
					v = verdict{"control-refused", describe("read statement refused for the read-only user but served for a read-write user")}
				}
			} else {
				rec.Count("controls.served", 1)
			}
		}
		if v.Clause != "" && v.Clause != "io" && c21ObserveOnly[c.get("channel")] {
			rec.Count("pending_fix."+c.get("channel")+"."+v.Clause, 1)
			v = verdict{}
		}
		cache[c.key()] = v
		return v
	}

	shrink := func(c c21Case, clause string) c21Case {
		cur := c
		for changed := true; changed; {
			changed = false
			var names []string
			for k := range cur.D {
				names = append(names, k)
			}
			sort.Strings(names)
			for _, dim := range names {
				def := ""
				for _, x := range c21Dims {
					if x.Name == dim {
						def = x.Vals[0]
					}
				}
				cand := cur.with(dim, def)
				if !cand.valid() {
					continue
				}
				if eval(cand).Clause == clause {
					cur = cand
					changed = true
					break
				}
			}
		}
		return cur
	}

	ioFail := false
	nSamples := 0
	one := func(c c21Case) {
		if !c.valid() || ioFail {
			return
		}
		rec.Eval(1)
		k := c.kind()
		if k.Write {
			if isLive(c) {
				rec.Nontrivial(c.key())
			} else {
				rec.Count("cases.not_live", 1)
			}
		} else {
			rec.Nontrivial(c.key())
		}
		v := eval(c)
		if nSamples%997 == 0 && nSamples < 997*6 {
			rec.Sample(map[string]interface{}{"case": c.key(), "text": c.text(c.get("channel") == "prepare_param"), "verdict": v.Clause})
		}
		nSamples++
		if v.Clause == "" {
			return
		}
		if v.Clause == "io" {
			rec.Inconclusive(v.What)
			ioFail = true
			return
		}
		min := shrink(c, v.Clause)
		mv := eval(min)
		min.Text = min.packet()
		rec.Violation(fmt.Sprintf("C21/%s/%s/%s", v.Clause, k.KW, min.decoKey()), mv.What, min)
	}

	// ---- configuration-change histories: the user's rw_flag is changed by online reloads
	// (rig.Reload = ReloadNamespacePrepare + Commit on the real Manager) while a session of that
	// user stays connected. The property speaks of a user CONFIGURED read-only, so the judge is
	// the configuration in force when the statement is sent: while it says read-only, the
	// modifying statement must be refused with zero pool gets, on the session that was
	// connected before the change (stale) and on a new one (fresh). No claim while it says
	// read-write (only counted).
	reloadPhase := func() {
		var cases []c21Case
		for _, k := range c21Kinds {
			if !k.Write {
				continue
			}
			for _, ch := range c21DimVals("channel") {
				if ch == "nosplit_after" || c21IsVC(ch) {
					continue // the flipped users live in the namespace with multi-statement support
				}
				base := c21Case{Kind: k.Name, D: map[string]string{}}.with("channel", ch)
				if base.valid() {
					cases = append(cases, base)
				}
				if kit.Tier() == "thorough" {
					for _, d := range []string{"lead", "case", "gap", "wrap", "trail"} {
						for _, v := range c21DimVals(d)[1:] {
							if c := base.with(d, v); c.valid() {
								cases = append(cases, c)
							}
						}
					}
				}
			}
		}
		check := func(user, history, session string) {
			for _, c := range cases {
				if ioFail {
					return
				}
				rec.Eval(1)
				rec.Count("reload.must_refuse_cases", 1)
				res := h.run(c, user)
				if res.IOErr != "" {
					rec.Inconclusive("reload phase: client I/O error " + res.IOErr)
					ioFail = true
					return
				}
				if isLive(c) {
					rec.Nontrivial("reload|" + history + "|" + session + "|" + c.key())
				}
				clause := ""
				switch {
				case res.Gets > 0 || len(res.Execs) > 0:
					clause = "backend-reached-after-reload"
				case !res.ErrReply:
					clause = "no-error-after-reload"
				}
				if clause == "" {
					continue
				}
				if eval(c.with("user", "ro")).Clause != "" {
					// the same statement also passes the check for a user that was read-only all
					// along: a defect of the statement check (reported by the main enumeration
					// under its own signature), not of the configuration change
					rec.Count("reload.failures_not_due_to_reload", 1)
					continue
				}
				w := c
				w.History, w.Session = history, session
				w.Text = c.text(c.get("channel") == "prepare_param")
				rec.Violation(fmt.Sprintf("C21/%s/%s/history=%s,session=%s", clause, c.kind().KW, history, session),
					fmt.Sprintf("user whose configuration went %s (now read-only), %s session, channel %s: %q -> replies [%s], backend gets %d on %v, execs %q",
						history, session, c.get("channel"), w.Text, res.Replies, res.Gets, res.Roles, res.Execs), w)
			}
		}
		noClaim := func(user string) {
			served := 0
			for _, c := range cases {
				if res := h.run(c, user); !res.ErrReply && res.Gets > 0 {
					served++
				}
			}
			rec.Count("reload.served_while_read_write", int64(served))
		}
		fresh := func(user, history string) {
			s, err := rwOpen(h.r, "ns21", user, "db")
			if err != nil {
				rec.Inconclusive("reload phase: cannot open a fresh session: " + err.Error())
				ioFail = true
				return
			}
			old := h.sess[user]
			h.sess[user] = s
			check(user, history, "fresh")
			h.sess[user] = old
			s.Close()
		}
		reload := func(flipRO, flopRO bool) bool {
			if err := h.r.Reload(c21NS(flipRO, flopRO)); err != nil {
				rec.Inconclusive("reload phase: Reload failed: " + err.Error())
				ioFail = true
				return false
			}
			rec.Count("reload.reloads", 1)
			return true
		}
		// step 0: as connected (flip read-write, flop read-only)
		noClaim("flip")
		check("flop", "ro", "stale")
		// R1: flip rw>ro, flop ro>rw
		if !reload(true, false) {
			return
		}
		check("flip", "rw>ro", "stale")
		fresh("flip", "rw>ro")
		noClaim("flop")
		// R2: flip back to rw, flop back to ro
		if !reload(false, true) {
			return
		}
		noClaim("flip")
		check("flop", "ro>rw>ro", "stale")
		fresh("flop", "ro>rw>ro")
		// R3
		if !reload(true, false) {
			return
		}
		check("flip", "rw>ro>rw>ro", "stale")
		if rec.CounterValue("reload.served_while_read_write") == 0 && !ioFail {
			rec.Inconclusive("reload phase: no modifying statement was ever served while the user was configured read-write")
		}
	}

	// ---- configuration variants: user lists whose entries have names differing only in
	// surrounding blanks / letter case, or the same name twice with different flags. What
	// models.Namespace.Verify ACCEPTS is loaded (online reload of a new namespace); then every
	// entry configured read-only must be refused its modifying statements when a client logs in
	// with that entry's (trimmed) name and password. Rejected configurations are only counted.
	configPhase := func() {
		if ioFail {
			return
		}
		type entry struct {
			name, pw string
			ro       bool
		}
		variants := []struct {
			name    string
			entries []entry
		}{
			{"plain_ro", []entry{{"cfga", "pa1", true}}},
			{"blank_padded_ro", []entry{{" cfgb ", "pb1", true}}},
			{"ro_then_trailing_blank_rw", []entry{{"cfgc", "pc1", true}, {"cfgc ", "pc2", false}}},
			{"rw_then_trailing_blank_ro", []entry{{"cfgd", "pd1", false}, {"cfgd ", "pd2", true}}},
			{"ro_then_leading_blank_rw", []entry{{"cfge", "pe1", true}, {" cfge", "pe2", false}}},
			{"ro_then_tab_rw", []entry{{"cfgf", "pf1", true}, {"cfgf\t", "pf2", false}}},
			{"ro_then_newline_rw", []entry{{"cfgg", "pg1", true}, {"cfgg\n", "pg2", false}}},
			{"ro_then_nbsp_rw", []entry{{"cfgh", "ph1", true}, {"cfgh\u00a0", "ph2", false}}},
			{"blank_ro_then_rw", []entry{{"cfgi ", "pi1", true}, {"cfgi", "pi2", false}}},
			{"both_blank_padded", []entry{{" cfgj", "pj1", true}, {"cfgj ", "pj2", false}}},
			{"case_differs", []entry{{"cfgk", "pk1", true}, {"CFGK", "pk2", false}}},
			{"same_name_twice", []entry{{"cfgl", "pl1", true}, {"cfgl", "pl2", false}}},
			{"three_entries", []entry{{"cfgm", "pm1", true}, {"cfgm ", "pm2", false}, {"  cfgm", "pm3", true}}},
			{"same_password_padded", []entry{{"cfgn", "pn1", true}, {"cfgn ", " pn1 ", false}}},
		}
		var cases []c21Case
		for _, k := range c21Kinds {
			if !k.Write {
				continue
			}
			for _, ch := range []string{"query", "multi_after", "multi_before", "prepare", "prepare_param"} {
				if c := (c21Case{Kind: k.Name, D: map[string]string{}}).with("channel", ch); c.valid() {
					cases = append(cases, c)
				}
			}
		}
		for i, v := range variants {
			cfg := rwNamespace(fmt.Sprintf("ns21c%d", i), true)
			cfg.Users = nil
			for _, e := range v.entries {
				flag := models.ReadWrite
				if e.ro {
					flag = models.ReadOnly
				}
				cfg.Users = append(cfg.Users, &models.User{UserName: e.name, Password: e.pw, Namespace: cfg.Name, RWFlag: flag, RWSplit: models.NoReadWriteSplit})
			}
			rec.Eval(1)
			if err := cfg.Verify(); err != nil {
				rec.Count("config.rejected_by_verify", 1)
				continue
			}
			rec.Count("config.accepted_by_verify", 1)
			if err := h.r.Reload(cfg); err != nil {
				rec.Count("config.reload_failed", 1)
				continue
			}
			for ei, e := range v.entries {
				user, pw := strings.TrimSpace(e.name), strings.TrimSpace(e.pw)
				conn, err := h.r.Dial(user, pw, "db")
				if err != nil {
					rec.Count("config.login_refused", 1)
					continue
				}
				sess := &rwSession{r: h.r, c: conn}
				h.sess["cfg"] = sess
				served := 0
				for _, c := range cases {
					res := h.run(c, "cfg")
					if res.IOErr != "" {
						rec.Inconclusive("config phase: client I/O error " + res.IOErr)
						ioFail = true
						break
					}
					if !e.ro {
						if !res.ErrReply && res.Gets > 0 {
							served++
						}
						continue
					}
					rec.Eval(1)
					rec.Count("config.must_refuse_cases", 1)
					rec.Nontrivial("config|" + v.name + fmt.Sprintf("|%d|", ei) + c.key())
					clause := ""
					switch {
					case res.Gets > 0 || len(res.Execs) > 0:
						clause = "backend-reached-config-variant"
					case !res.ErrReply:
						clause = "no-error-config-variant"
					}
					if clause != "" {
						w := c
						w.History, w.Session = "config:"+v.name, fmt.Sprintf("entry%d", ei)
						w.Text = c.text(c.get("channel") == "prepare_param")
						rec.Violation(fmt.Sprintf("C21/%s/%s/variant=%s,entry=%d", clause, c.kind().KW, v.name, ei),
							fmt.Sprintf("configuration accepted by Verify with user entries %q: login %q with the password of entry %d (configured READ-ONLY), channel %s: %q -> replies [%s], backend gets %d on %v, execs %q",
								fmt.Sprint(v.entries), user, ei, c.get("channel"), w.Text, res.Replies, res.Gets, res.Roles, res.Execs), w)
					}
				}
				rec.Count("config.served_for_read_write_entries", int64(served))
				delete(h.sess, "cfg")
				sess.Close()
				if ioFail {
					return
				}
			}
		}
		if rec.CounterValue("config.must_refuse_cases") == 0 {
			rec.Inconclusive("config phase: no read-only entry of an accepted configuration could log in")
		}
	}

	if p := kit.ReplayPath(); p != "" {
		var c c21Case
		if err := kit.LoadReplay(p, &c); err != nil {
			rec.Inconclusive("cannot load replay: " + err.Error())
			return
		}
		if c.D == nil {
			c.D = map[string]string{}
		}
		if c.History != "" {
			fmt.Printf("REPLAY reload history %s/%s: running the whole reload phase\n", c.History, c.Session)
			reloadPhase()
			configPhase()
			rec.Nontrivial(c.key() + "#replay")
			rec.Sample(c)
			return
		}
		c.Text = ""
		v := eval(c)
		rec.Eval(1)
		rec.Nontrivial(c.key())
		rec.Nontrivial(c.key() + "#replay")
		rec.Sample(c)
		fmt.Printf("REPLAY %s clause=%q %s\n", c.key(), v.Clause, v.What)
		if v.Clause != "" {
			rec.Violation(fmt.Sprintf("C21/%s/%s/%s", v.Clause, c.kind().KW, c.decoKey()), v.What, c)
		}
		return
	}

	dimVals := func(name string) []string {
		for _, d := range c21Dims {
			if d.Name == name {
				return d.Vals
			}
		}
		return nil
	}

	if kit.Tier() == "thorough" {
		for _, k := range c21Kinds {
			// full product of lead x gap x wrapper x channel x user (lower case, no trailer) ...
			for _, lead := range dimVals("lead") {
				for _, gap := range dimVals("gap") {
					for _, wrap := range dimVals("wrap") {
						for _, ch := range dimVals("channel") {
							for _, u := range dimVals("user") {
								c := c21Case{Kind: k.Name, D: map[string]string{}}
								one(c.with("lead", lead).with("gap", gap).with("wrap", wrap).with("channel", ch).with("user", u))
							}
						}
					}
				}
			}
			// ... and keyword case x trailer on the undecorated statement and on every single decoration
			for _, cs := range dimVals("case") {
				for _, trail := range dimVals("trail") {
					if cs == "lower" && trail == "none" {
						continue
					}
					for _, ch := range dimVals("channel") {
						for _, u := range dimVals("user") {
							base := c21Case{Kind: k.Name, D: map[string]string{}}.with("case", cs).with("trail", trail).with("channel", ch).with("user", u)
							one(base)
							for _, d := range []string{"lead", "gap", "wrap"} {
								for _, v := range dimVals(d)[1:] {
									one(base.with(d, v))
								}
							}
						}
					}
				}
			}
			// transactions: on the undecorated statement and on every single decoration
			for _, tx := range []string{"begin", "ac0"} {
				for _, ch := range dimVals("channel") {
					for _, u := range dimVals("user") {
						base := c21Case{Kind: k.Name, D: map[string]string{}}.with("tx", tx).with("channel", ch).with("user", u)
						one(base)
						for _, d := range []string{"lead", "case", "gap", "wrap", "trail"} {
							for _, v := range dimVals(d)[1:] {
								one(base.with(d, v))
							}
						}
					}
				}
			}
		}
		rec.Exhaustive(true)
	} else {
		rnd := kit.SubRand(kit.Seed(), "C21/cases")
		n := 3000
		for i := 0; i < n; i++ {
			var k c21Kind
			if rnd.Chance(1, 6) {
				k = c21Kinds[20+rnd.Intn(len(c21Kinds)-20)]
			} else {
				k = c21Kinds[rnd.Intn(20)]
			}
			c := c21Case{Kind: k.Name, D: map[string]string{}}
			for _, d := range c21Dims {
				// bias towards few decorations so that single-feature cases are common
				if d.Name == "channel" || d.Name == "user" || rnd.Chance(1, 2) {
					c = c.with(d.Name, rnd.Pick(d.Vals))
				}
			}
			if c.get("tx") != "none" && !rnd.Chance(1, 3) {
				c = c.with("tx", "none")
			}
			if !c.valid() && c21IsVC(c.get("channel")) {
				c = c.with("lead", "none").with("gap", "space").with("wrap", "none").with("trail", "none")
			}
			if !c.valid() {
				if c.get("channel") == "prepare_param" {
					c = c.with("channel", "prepare")
				}
				if !c.valid() {
					c = c.with("wrap", "none")
				}
			}
			one(c)
		}
	}
	reloadPhase()
	configPhase()
	rec.Set("distinct_cases_evaluated", len(cache))
	if rec.CounterValue("liveness.live") == 0 {
		rec.Inconclusive("no modifying statement was live for a read-write user: the rig observed nothing")
	}
	if rec.CounterValue("controls.served") == 0 {
		rec.Inconclusive("no control statement was served")
	}
}
