package server

// C31 — online reload never loses or resurrects a namespace configuration.
//
// Sequential monitor: every history over {prepare(n,v), commit(n), delete(n)} up to a
// bound runs on the real Manager; after every step the namespace set, the versions and the
// user table seen through Manager.GetNamespace / CheckUser / GetNamespaceByUser / CheckPassword are compared
// with the abstract specification (active map + last-prepared map; a failing commit
// changes nothing; a successful commit(n) needs a prepared configuration of n and
// activates exactly it).
//
// Concurrent monitor: administrators issue atomic units (prepare+commit, delete), one at a
// time as one control plane does, while reader goroutines call GetNamespace, CheckUser and
// GetNamespaceByUser; the recorded history is checked for linearizability with porcupine
// against the same specification, under the race detector.

import (
	"fmt"
	"sort"
	"strings"
	"sync"
	"sync/atomic"
	"testing"
	"time"

	"github.com/XiaoMi/Gaea/models"
	kit "github.com/XiaoMi/Gaea/verifkit"
	"github.com/anishathalye/porcupine"
)

// ---------------------------------------------------------------- sequential part

type c31Op struct {
	K string `json:"k"` // P prepare | F prepare of a configuration NewNamespace refuses | C commit | D delete
	N string `json:"n"`
}

// c31Case: namespaces Names exist in the universe, Active of them are configured (version
// 0) when the manager is created; Ops[i] of kind P prepares version i+1.
type c31Case struct {
	Names  []string `json:"names"`
	Active []string `json:"active"`
	Ops    []c31Op  `json:"ops"`
}

type c31Fail struct {
	Step   int    `json:"step"` // index of the failing op
	Clause string `json:"clause"`
	Detail string `json:"detail"`
}

func c31User(ns string) string { return "u_" + ns }
func c31Password(v int) string { return fmt.Sprintf("p%d", v) }

// c31SharedUser is configured in every namespace, with a password per (namespace, version):
// one user name with several passwords in a generation, as UserManager supports.
const c31SharedUser = "shared"

func c31SharedPassword(ns string, v int) string { return fmt.Sprintf("s_%s_%d", ns, v) }

func c31Users(ns string, v int) []mgUser {
	return []mgUser{{User: c31User(ns), Password: c31Password(v)}, {User: c31SharedUser, Password: c31SharedPassword(ns, v)}}
}

func c31Config(ns string, v int) *models.Namespace {
	return mgNamespaceConfig(ns, v, c31Users(ns, v))
}

var (
	c31Salt   = []byte("c31-fixed-salt-20-by")
	c31Proofs sync.Map // password -> mysql_native_password proof for c31Salt (independent implementation)
)

func c31Proof(password string) []byte {
	if p, ok := c31Proofs.Load(password); ok {
		return p.([]byte)
	}
	p := mgNativeProof(c31Salt, []byte(password))
	c31Proofs.Store(password, p)
	return p
}

func c31Key(c c31Case) string {
	var sb strings.Builder
	sb.WriteString(strings.Join(c.Names, ""))
	sb.WriteByte('/')
	sb.WriteString(strings.Join(c.Active, ""))
	sb.WriteByte('/')
	for _, op := range c.Ops {
		sb.WriteString(op.K)
		sb.WriteString(op.N)
	}
	return sb.String()
}

// c31View is what a session can see of one namespace.
type c31View struct {
	Version      int   // -1: GetNamespace returned nil
	UserKnown    bool  // CheckUser(u_ns)
	UserVersions []int // versions v with GetNamespaceByUser(u_ns, p_v) == ns
	SharedPass   []int // versions v whose shared-user password s_ns_v passes Manager.CheckPassword
}

func c31Observe(m *Manager, ns string, maxV int) c31View {
	v := c31View{Version: -1}
	if n := m.GetNamespace(ns); n != nil {
		v.Version = n.GetMaxExecuteTime() - mgVersionBase
	}
	v.UserKnown = m.CheckUser(c31User(ns))
	for i := 0; i <= maxV; i++ {
		if m.GetNamespaceByUser(c31User(ns), c31Password(i)) == ns {
			v.UserVersions = append(v.UserVersions, i)
		}
		// the password list of a user name shared by all namespaces (CheckPassword walks
		// UserManager.users, which GetNamespaceByUser does not touch)
		pw := c31SharedPassword(ns, i)
		if ok, got := m.CheckPassword(c31SharedUser, c31Salt, append([]byte(nil), c31Proof(pw)...)); ok && got == pw {
			v.SharedPass = append(v.SharedPass, i)
		}
	}
	return v
}

// c31Run executes one history on a fresh real Manager; nil = the specification held.
func c31Run(st *StatisticManager, c c31Case, count func(string, int64)) *c31Fail {
	var initial []*models.Namespace
	active := map[string]int{}
	for _, n := range c.Active {
		initial = append(initial, c31Config(n, 0))
		active[n] = 0
	}
	m := mgNewManager(st, initial)
	defer mgDropManager(m)
	prepared := map[string]int{}
	compare := func(step int) *c31Fail {
		kinds := map[string]bool{}
		details := []string{}
		for _, n := range c.Names {
			want, ok := active[n]
			if !ok {
				want = -1
			}
			got := c31Observe(m, n, len(c.Ops))
			wantShared := []int{}
			if want >= 0 {
				wantShared = []int{want}
			}
			if fmt.Sprint(wantShared) != fmt.Sprint(append([]int{}, got.SharedPass...)) {
				kinds["shared-user-passwords-differ"] = true
				details = append(details, fmt.Sprintf("namespace %s at version %d: passwords of versions %v of the user name shared by all namespaces pass the password check", n, want, got.SharedPass))
			}
			switch {
			case want >= 0 && got.Version < 0:
				kinds["lost"] = true
				details = append(details, fmt.Sprintf("namespace %s should be active with version %d, GetNamespace returns nil", n, want))
				continue
			case want < 0 && got.Version >= 0:
				kinds["resurrected"] = true
				details = append(details, fmt.Sprintf("namespace %s should not exist, GetNamespace returns version %d", n, got.Version))
				continue
			case want != got.Version:
				kinds["wrong-version"] = true
				details = append(details, fmt.Sprintf("namespace %s should have version %d, has %d", n, want, got.Version))
				continue
			}
			wantUsers := []int{}
			if want >= 0 {
				wantUsers = []int{want}
			}
			if fmt.Sprint(wantUsers) != fmt.Sprint(append([]int{}, got.UserVersions...)) || got.UserKnown != (want >= 0) {
				kinds["users-differ"] = true
				details = append(details, fmt.Sprintf("namespace %s at version %d: user known=%v, passwords of versions %v resolve to it", n, want, got.UserKnown, got.UserVersions))
			}
		}
		if len(kinds) == 0 {
			return nil
		}
		// the clause is the set of mismatch kinds over all namespaces: independent of namespace names
		ks := []string{}
		for k := range kinds {
			ks = append(ks, k)
		}
		sort.Strings(ks)
		return &c31Fail{step, strings.Join(ks, "+"), strings.Join(details, "; ")}
	}
	if f := compare(-1); f != nil {
		f.Clause = "initial-" + f.Clause
		return f
	}
	for i, op := range c.Ops {
		var err error
		var pan interface{}
		func() {
			defer func() { pan = recover() }()
			switch op.K {
			case "P":
				err = m.ReloadNamespacePrepare(c31Config(op.N, i+1))
			case "F":
				err = m.ReloadNamespacePrepare(mgBrokenConfig(op.N, i+1, c31Users(op.N, i+1)))
			case "C":
				err = m.ReloadNamespaceCommit(op.N)
			case "D":
				err = m.DeleteNamespace(op.N)
			}
		}()
		count("ops."+op.K, 1)
		if pan != nil {
			return &c31Fail{i, "panic-in-" + op.K, fmt.Sprint(pan)}
		}
		switch op.K {
		case "P":
			if err != nil {
				return &c31Fail{i, "prepare-refused", err.Error()}
			}
			prepared[op.N] = i + 1
		case "F":
			// a failed prepare changes nothing, including what a later commit may activate
			if err == nil {
				count("broken-config-accepted", 1)
				prepared[op.N] = i + 1
			}
		case "C":
			if err != nil {
				count("commit.refused", 1)
				break // a failing commit changes nothing
			}
			v, ok := prepared[op.N]
			if !ok {
				return &c31Fail{i, "commit-without-prepare", fmt.Sprintf("commit(%s) succeeded although no configuration of %s was ever prepared", op.N, op.N)}
			}
			active[op.N] = v
		case "D":
			if err != nil {
				return &c31Fail{i, "delete-refused", err.Error()}
			}
			delete(active, op.N)
		}
		if f := compare(i); f != nil {
			return f
		}
	}
	return nil
}

// c31Canon renames namespaces by class (X = configured at start, Y = not) and order of
// first occurrence, and renders the op sequence.
func c31Canon(c c31Case) string {
	act := map[string]bool{}
	for _, n := range c.Active {
		act[n] = true
	}
	names := map[string]string{}
	nx, ny := 0, 0
	parts := []string{}
	for _, op := range c.Ops {
		if _, ok := names[op.N]; !ok {
			if act[op.N] {
				nx++
				names[op.N] = fmt.Sprintf("X%d", nx)
			} else {
				ny++
				names[op.N] = fmt.Sprintf("Y%d", ny)
			}
		}
		parts = append(parts, op.K+"("+names[op.N]+")")
	}
	return strings.Join(parts, " ")
}

// c31Seq drives the sequential exploration of one worker.
type c31Seq struct {
	st    *StatisticManager
	rec   *kit.Rec
	cache map[string]*c31Fail // executed histories (nil value = held)
	runs  int64
}

func (s *c31Seq) run(c c31Case) *c31Fail {
	k := c31Key(c)
	if f, ok := s.cache[k]; ok {
		return f
	}
	mgThrottle(kit.N(60000, 120000), s.rec.Inconclusive)
	f := c31Run(s.st, c, s.rec.Count)
	s.cache[k] = f
	s.runs++
	return f
}

// shrink: truncate after the failing op, then remove one op at a time while the history
// still fails (any clause); the result is 1-minimal.
func (s *c31Seq) shrink(c c31Case) (c31Case, *c31Fail) {
	f := s.run(c)
	if f == nil {
		return c, nil
	}
	if f.Step >= 0 {
		c.Ops = append([]c31Op(nil), c.Ops[:f.Step+1]...)
	}
	for changed := true; changed; {
		changed = false
		for i := range c.Ops {
			d := c
			d.Ops = append(append([]c31Op(nil), c.Ops[:i]...), c.Ops[i+1:]...)
			if df := s.run(d); df != nil {
				if df.Step >= 0 {
					d.Ops = append([]c31Op(nil), d.Ops[:df.Step+1]...)
				}
				c, changed = d, true
				break
			}
		}
	}
	return c, s.run(c)
}

func (s *c31Seq) report(c c31Case) {
	min, f := s.shrink(c)
	if f == nil {
		s.rec.Violation("unstable|"+c31Canon(c), "history failed once and held when repeated: "+c31Canon(c), c)
		return
	}
	sig := "seq|" + c31Canon(min) + "|" + f.Clause
	what := fmt.Sprintf("start with %v configured of %v; %s: %s (%s)", min.Active, min.Names, c31Canon(min), f.Clause, f.Detail)
	s.rec.Violation(sig, what, map[string]interface{}{"kind": "seq", "history": min, "failure": f})
}

// exhaust runs every history of exactly maxLen ops over the alphabet that starts with
// prefix (shorter histories are prefixes of those). When a history fails at step k its
// prefix of k+1 ops is reported once and every other history with that prefix is skipped.
func (s *c31Seq) exhaust(names, active []string, kinds []string, maxLen int, prefix []c31Op) {
	var alphabet []c31Op
	for _, k := range kinds {
		for _, n := range names {
			alphabet = append(alphabet, c31Op{k, n})
		}
	}
	mk := func(ops []c31Op) c31Case {
		return c31Case{Names: names, Active: active, Ops: append([]c31Op(nil), ops...)}
	}
	var rec func(ops []c31Op) int // 0 = nothing failed below, else length of the failing prefix
	rec = func(ops []c31Op) int {
		if len(ops) == maxLen {
			c := mk(ops)
			s.rec.Eval(1)
			c31Nontrivial(s.rec, c)
			f := s.run(c)
			if f == nil {
				if s.runs%4000 == 1 {
					s.rec.Sample(map[string]interface{}{"kind": "seq", "start": active, "history": c31Canon(c), "held": true})
				}
				return 0
			}
			k := f.Step + 1
			s.rec.Count("seq.failing-prefixes", 1)
			s.report(mk(ops[:k]))
			if k == 0 {
				return -1 // the initial state is already wrong: nothing to explore
			}
			return k
		}
		for _, op := range alphabet {
			k := rec(append(append([]c31Op(nil), ops...), op))
			if k != 0 && k <= len(ops) {
				return k
			}
		}
		return 0
	}
	rec(append([]c31Op(nil), prefix...))
}

func c31Nontrivial(rec *kit.Rec, c c31Case) {
	// interesting: an operation on one namespace between prepare and commit of another/the same
	for i, op := range c.Ops {
		if op.K != "P" && op.K != "F" {
			continue
		}
		for j := i + 1; j < len(c.Ops); j++ {
			if c.Ops[j].K == "C" && j > i+1 {
				rec.Nontrivial(c31Key(c))
				return
			}
		}
	}
}

// ---------------------------------------------------------------- concurrent part

type c31In struct {
	Op string `json:"op"` // seed | put | del | getns | checkuser | nsbyuser
	NS string `json:"ns"`
	V  int    `json:"v"`
}

type c31Out struct {
	OK  bool   `json:"ok"` // put/del: no error; checkuser: result; nsbyuser: result == ns
	V   int    `json:"v"`  // getns: version or -1
	Err string `json:"err,omitempty"`
}

type c31HistOp struct {
	Client int    `json:"client"`
	In     c31In  `json:"in"`
	Out    c31Out `json:"out"`
	Call   int64  `json:"call"`
	Ret    int64  `json:"ret"`
}

const c31Uninit = -2

// c31Model is the specification of one namespace (porcupine partitions by namespace):
// the state is the active version, -1 when the namespace does not exist.
func c31Model() porcupine.Model {
	return porcupine.Model{
		Partition: func(history []porcupine.Operation) [][]porcupine.Operation {
			by := map[string][]porcupine.Operation{}
			keys := []string{}
			for _, op := range history {
				ns := op.Input.(c31In).NS
				if _, ok := by[ns]; !ok {
					keys = append(keys, ns)
				}
				by[ns] = append(by[ns], op)
			}
			sort.Strings(keys)
			out := [][]porcupine.Operation{}
			for _, k := range keys {
				out = append(out, by[k])
			}
			return out
		},
		Init: func() interface{} { return c31Uninit },
		Step: func(state, input, output interface{}) (bool, interface{}) {
			s := state.(int)
			in := input.(c31In)
			out := output.(c31Out)
			if in.Op == "seed" {
				return s == c31Uninit, in.V
			}
			if s == c31Uninit {
				return false, s
			}
			switch in.Op {
			case "put":
				if !out.OK {
					return true, s // a refused unit changes nothing
				}
				return true, in.V
			case "del":
				if !out.OK {
					return true, s
				}
				return true, -1
			case "getns":
				return out.V == s, s
			case "checkuser":
				return out.OK == (s >= 0), s
			case "nsbyuser":
				return out.OK == (s == in.V && s >= 0), s
			}
			return false, s
		},
		Equal: func(a, b interface{}) bool { return a.(int) == b.(int) },
		DescribeOperation: func(input, output interface{}) string {
			return fmt.Sprintf("%+v -> %+v", input, output)
		},
	}
}

func c31ToPorcupine(h []c31HistOp) []porcupine.Operation {
	ops := make([]porcupine.Operation, 0, len(h))
	for _, o := range h {
		ops = append(ops, porcupine.Operation{ClientId: o.Client, Input: o.In, Call: o.Call, Output: o.Out, Return: o.Ret})
	}
	return ops
}

type c31ConcStats struct {
	ops, overlapping, units int
	panics                  []string
}

// c31Concurrent runs one concurrent history on a fresh real Manager and returns it.
func c31Concurrent(st *StatisticManager, r *kit.Rand, nAdmins, unitsPerAdmin, nReaders, readsPerReader int) ([]c31HistOp, c31ConcStats) {
	names := []string{"A", "B", "C"}
	m := mgNewManager(st, []*models.Namespace{c31Config("A", 0), c31Config("B", 0)})
	defer mgDropManager(m)
	base := time.Now()
	// monotonic clock, read without synchronisation: the recorder must not add
	// happens-before edges between readers and administrators
	now := func() int64 { return int64(time.Since(base)) + 1 }
	var hist []c31HistOp
	seedT := int64(0)
	for _, n := range names {
		v := -1
		if n != "C" {
			v = 0
		}
		hist = append(hist, c31HistOp{Client: 0, In: c31In{"seed", n, v}, Out: c31Out{OK: true}, Call: seedT, Ret: seedT})
	}
	var adminMu sync.Mutex // one control plane: units do not overlap
	var version int64
	var latest [3]int64 // hint for readers which versions are worth asking for
	var wg sync.WaitGroup
	var stats c31ConcStats
	var panicMu sync.Mutex
	results := make([][]c31HistOp, nAdmins+nReaders)
	start := make(chan struct{})
	for a := 0; a < nAdmins; a++ {
		ar := kit.NewRand(r.Uint64())
		wg.Add(1)
		go func(id int, ar *kit.Rand) {
			defer wg.Done()
			<-start
			for u := 0; u < unitsPerAdmin; u++ {
				ni := ar.Intn(3)
				n := names[ni]
				del := ar.Chance(1, 4)
				adminMu.Lock()
				op := c31HistOp{Client: id}
				func() {
					defer func() {
						if p := recover(); p != nil {
							op.Out = c31Out{Err: "panic: " + fmt.Sprint(p)}
							panicMu.Lock()
							stats.panics = append(stats.panics, fmt.Sprintf("%+v: %v", op.In, p))
							panicMu.Unlock()
						}
					}()
					if del {
						op.In = c31In{"del", n, 0}
						op.Call = now()
						err := m.DeleteNamespace(n)
						op.Ret = now()
						op.Out = c31Out{OK: err == nil}
					} else {
						v := int(atomic.AddInt64(&version, 1))
						op.In = c31In{"put", n, v}
						cfg := c31Config(n, v)
						op.Call = now()
						err := m.ReloadNamespacePrepare(cfg)
						if err == nil {
							err = m.ReloadNamespaceCommit(n)
						}
						op.Ret = now()
						op.Out = c31Out{OK: err == nil}
						if err != nil {
							op.Out.Err = err.Error()
						}
						atomic.StoreInt64(&latest[ni], int64(v))
					}
				}()
				if op.Ret == 0 {
					op.Ret = now()
				}
				adminMu.Unlock()
				results[id] = append(results[id], op)
			}
		}(a, ar)
	}
	for q := 0; q < nReaders; q++ {
		rr := kit.NewRand(r.Uint64())
		wg.Add(1)
		go func(id int, rr *kit.Rand) {
			defer wg.Done()
			<-start
			for i := 0; i < readsPerReader; i++ {
				ni := rr.Intn(3)
				n := names[ni]
				op := c31HistOp{Client: id}
				switch rr.Intn(3) {
				case 0:
					op.In = c31In{"getns", n, 0}
					op.Call = now()
					ns := m.GetNamespace(n)
					v := -1
					if ns != nil {
						v = ns.GetMaxExecuteTime() - mgVersionBase
					}
					op.Ret = now()
					op.Out = c31Out{V: v}
				case 1:
					op.In = c31In{"checkuser", n, 0}
					op.Call = now()
					ok := m.CheckUser(c31User(n))
					op.Ret = now()
					op.Out = c31Out{OK: ok}
				default:
					v := int(atomic.LoadInt64(&latest[ni])) - rr.Intn(2)
					if v < 0 {
						v = 0
					}
					op.In = c31In{"nsbyuser", n, v}
					op.Call = now()
					got := m.GetNamespaceByUser(c31User(n), c31Password(v))
					op.Ret = now()
					op.Out = c31Out{OK: got == n}
				}
				results[id] = append(results[id], op)
			}
		}(nAdmins+q, rr)
	}
	close(start)
	wg.Wait()
	var units []c31HistOp
	for id, rs := range results {
		hist = append(hist, rs...)
		if id < nAdmins {
			units = append(units, rs...)
		}
	}
	stats.ops = len(hist)
	stats.units = len(units)
	for id := nAdmins; id < len(results); id++ {
		for _, rd := range results[id] {
			for _, u := range units {
				if rd.In.NS == u.In.NS && rd.Call <= u.Ret && u.Call <= rd.Ret {
					stats.overlapping++
					break
				}
			}
		}
	}
	return hist, stats
}

// ---------------------------------------------------------------- concurrent administrators

// c31SplitState is the specification state of one namespace when prepare, commit and delete
// are separate operations: active version (-1 none) and last prepared version (-1 none).
type c31SplitState struct{ A, P int }

var c31SplitUninit = c31SplitState{c31Uninit, c31Uninit}

// c31SplitModel: every operation is atomic. prepare(n,v) ok => P=v; commit(n) refused =>
// nothing; commit(n) accepted => needs P>=0 and A=P; delete(n) => A=-1; reads as before.
func c31SplitModel() porcupine.Model {
	m := c31Model()
	m.Init = func() interface{} { return c31SplitUninit }
	m.Equal = func(a, b interface{}) bool { return a.(c31SplitState) == b.(c31SplitState) }
	m.Step = func(state, input, output interface{}) (bool, interface{}) {
		s := state.(c31SplitState)
		in := input.(c31In)
		out := output.(c31Out)
		if in.Op == "seed" {
			return s == c31SplitUninit, c31SplitState{in.V, -1}
		}
		if s == c31SplitUninit {
			return false, s
		}
		switch in.Op {
		case "prepare":
			if !out.OK {
				return true, s
			}
			return true, c31SplitState{s.A, in.V}
		case "commit":
			if !out.OK {
				return true, s
			}
			if s.P < 0 {
				return false, s
			}
			return true, c31SplitState{s.P, s.P}
		case "del":
			if !out.OK {
				return true, s
			}
			return true, c31SplitState{-1, s.P}
		case "getns":
			return out.V == s.A, s
		case "checkuser":
			return out.OK == (s.A >= 0), s
		case "nsbyuser":
			return out.OK == (s.A == in.V && s.A >= 0), s
		}
		return false, s
	}
	return m
}

// c31Storm runs one history in which administrators issue prepare / commit / delete as
// separate calls from their own goroutines with no harness lock between them (several
// control planes, or retries racing each other), plus readers.
func c31Storm(st *StatisticManager, r *kit.Rand, nAdmins, opsPerAdmin, nReaders, readsPerReader int) ([]c31HistOp, c31ConcStats) {
	names := []string{"A", "B", "C"}
	m := mgNewManager(st, []*models.Namespace{c31Config("A", 0), c31Config("B", 0)})
	defer mgDropManager(m)
	base := time.Now()
	now := func() int64 { return int64(time.Since(base)) + 1 }
	var hist []c31HistOp
	for _, n := range names {
		v := -1
		if n != "C" {
			v = 0
		}
		hist = append(hist, c31HistOp{Client: 0, In: c31In{"seed", n, v}, Out: c31Out{OK: true}})
	}
	var version int64
	var latest [3]int64
	var wg sync.WaitGroup
	var stats c31ConcStats
	var panicMu sync.Mutex
	results := make([][]c31HistOp, nAdmins+nReaders)
	start := make(chan struct{})
	for a := 0; a < nAdmins; a++ {
		ar := kit.NewRand(r.Uint64())
		wg.Add(1)
		go func(id int, ar *kit.Rand) {
			defer wg.Done()
			<-start
			pending := -1 // namespace this administrator prepared last
			for u := 0; u < opsPerAdmin; u++ {
				ni := ar.Intn(3)
				kind := []string{"prepare", "prepare", "commit", "del"}[ar.Intn(4)]
				if pending >= 0 && ar.Chance(3, 4) {
					ni, kind = pending, "commit"
				}
				n := names[ni]
				op := c31HistOp{Client: id}
				func() {
					defer func() {
						if p := recover(); p != nil {
							op.Out = c31Out{Err: "panic: " + fmt.Sprint(p)}
							panicMu.Lock()
							stats.panics = append(stats.panics, fmt.Sprintf("%+v: %v", op.In, p))
							panicMu.Unlock()
						}
					}()
					var err error
					switch kind {
					case "prepare":
						v := int(atomic.AddInt64(&version, 1))
						op.In = c31In{"prepare", n, v}
						cfg := c31Config(n, v)
						op.Call = now()
						err = m.ReloadNamespacePrepare(cfg)
						op.Ret = now()
						atomic.StoreInt64(&latest[ni], int64(v))
						pending = ni
					case "commit":
						op.In = c31In{"commit", n, 0}
						op.Call = now()
						err = m.ReloadNamespaceCommit(n)
						op.Ret = now()
						pending = -1
					default:
						op.In = c31In{"del", n, 0}
						op.Call = now()
						err = m.DeleteNamespace(n)
						op.Ret = now()
					}
					op.Out = c31Out{OK: err == nil}
					if err != nil {
						op.Out.Err = err.Error()
					}
				}()
				if op.Ret == 0 {
					op.Ret = now()
				}
				results[id] = append(results[id], op)
			}
		}(a, ar)
	}
	for q := 0; q < nReaders; q++ {
		rr := kit.NewRand(r.Uint64())
		wg.Add(1)
		go func(id int, rr *kit.Rand) {
			defer wg.Done()
			<-start
			for i := 0; i < readsPerReader; i++ {
				ni := rr.Intn(3)
				n := names[ni]
				op := c31HistOp{Client: id}
				switch rr.Intn(3) {
				case 0:
					op.In = c31In{"getns", n, 0}
					op.Call = now()
					ns := m.GetNamespace(n)
					v := -1
					if ns != nil {
						v = ns.GetMaxExecuteTime() - mgVersionBase
					}
					op.Ret = now()
					op.Out = c31Out{V: v}
				case 1:
					op.In = c31In{"checkuser", n, 0}
					op.Call = now()
					ok := m.CheckUser(c31User(n))
					op.Ret = now()
					op.Out = c31Out{OK: ok}
				default:
					v := int(atomic.LoadInt64(&latest[ni])) - rr.Intn(3)
					if v < 0 {
						v = 0
					}
					op.In = c31In{"nsbyuser", n, v}
					op.Call = now()
					got := m.GetNamespaceByUser(c31User(n), c31Password(v))
					op.Ret = now()
					op.Out = c31Out{OK: got == n}
				}
				results[id] = append(results[id], op)
			}
		}(nAdmins+q, rr)
	}
	close(start)
	wg.Wait()
	// final reads, after everything returned: what the history left behind must be explained too
	for ni, n := range names {
		op := c31HistOp{Client: nAdmins + nReaders, In: c31In{"getns", n, 0}}
		op.Call = now()
		v := -1
		if ns := m.GetNamespace(n); ns != nil {
			v = ns.GetMaxExecuteTime() - mgVersionBase
		}
		op.Ret = now()
		op.Out = c31Out{V: v}
		hist = append(hist, op)
		_ = ni
	}
	var admin []c31HistOp
	for id, rs := range results {
		hist = append(hist, rs...)
		if id < nAdmins {
			admin = append(admin, rs...)
		}
	}
	stats.ops = len(hist)
	stats.units = len(admin)
	// overlapping = pairs of administrator operations of different goroutines that overlap in time
	for i := range admin {
		for j := i + 1; j < len(admin); j++ {
			if admin[i].Client != admin[j].Client && admin[i].Call <= admin[j].Ret && admin[j].Call <= admin[i].Ret {
				stats.overlapping++
			}
		}
	}
	return hist, stats
}

func TestVerif_C31(t *testing.T) {
	rec := kit.Start("C31", "exploration", "sequential: every history of exactly L operations over {prepare, prepare of a configuration NewNamespace refuses, commit, delete} x namespaces on a fresh real Manager (2 namespaces, one configured at start; 3 namespaces, two configured at start), extensions of a failing prefix skipped, checked after every step; non-trivial = distinct histories with an operation between a prepare and a later commit. concurrent: (a) histories of 2 administrators (atomic prepare+commit / delete units, serialised) and 8 readers, (b) histories of 4 administrators issuing prepare / commit / delete as separate unserialised calls and 4 readers; both checked with porcupine per namespace under the race detector")
	defer rec.Finish(t)
	if err := mgInit(); err != nil {
		t.Fatal(err)
	}
	defer mgCleanup()
	rec.Assume("specification: prepare(n,v) records v as the configuration last prepared for n when it succeeds and changes nothing when it fails; commit(n) may be refused (then nothing changes); a commit(n) that succeeds requires a configuration prepared for n and makes exactly it active; delete(n) removes n; nothing else changes; sessions see namespaces and users of the same generation")
	rec.Assume("concurrent part (a): administrators serialised as atomic prepare+commit / delete units (what one control plane issues); part (b): administrators call prepare, commit and delete from their own goroutines with nothing between them, and the specification treats each call as atomic (a refused commit is always legal)")
	rec.Assume("timestamps of concurrent histories come from the process's monotonic clock read without synchronisation (an atomic counter would order reader and administrator goroutines for the race detector); they are used only as the real-time order of the linearizability check")
	rec.Assume("namespaces have no backend addresses; one StatisticManager per worker shares the process-wide gauges")

	if p := kit.ReplayPath(); p != "" {
		var w struct {
			Kind    string      `json:"kind"`
			History c31Case     `json:"history"`
			Conc    []c31HistOp `json:"concurrent"`
		}
		if err := kit.LoadReplay(p, &w); err != nil {
			t.Fatal(err)
		}
		if w.Kind == "seq" {
			s := &c31Seq{st: mgStatsFor(), rec: rec, cache: map[string]*c31Fail{}}
			rec.Eval(1)
			if f := s.run(w.History); f != nil {
				fmt.Printf("replay: %+v\n", *f)
				s.report(w.History)
			}
		} else {
			rec.Eval(1)
			model := c31Model()
			if w.Kind == "storm" {
				model = c31SplitModel()
			}
			res, _ := porcupine.CheckOperationsVerbose(model, c31ToPorcupine(w.Conc), 60*time.Second)
			fmt.Printf("replay: porcupine says %v\n", res)
			if res == porcupine.Illegal {
				rec.Violation("concurrent|not-linearizable", "recorded concurrent history is not linearizable", w)
			}
		}
		return
	}

	// ---- sequential, split over workers by the first operation
	t0 := time.Now() // reporting only
	type job struct {
		names, active []string
		kinds         []string
		maxLen        int
		prefix        []c31Op
	}
	type space struct {
		names, active []string
		kinds         []string
		quick, full   int // length enumerated by quick (0 = not enumerated) and by thorough
	}
	pcd, pfcd := []string{"P", "C", "D"}, []string{"P", "F", "C", "D"}
	two, three := []string{"A", "B"}, []string{"A", "B", "C"}
	// thorough enumerates every space up to `full`; quick enumerates less and samples the rest
	// of that same space (so that every failing history of quick is one thorough has shrunk).
	// F is a prepare of a configuration that NewNamespace refuses.
	spaces := []space{
		{two, []string{"A"}, pcd, 4, 6},
		{three, []string{"A", "B"}, pcd, 0, 5},
		{two, []string{"A"}, pfcd, 3, 5},
		{three, []string{"A", "B"}, pfcd, 3, 4},
	}
	var jobs []job
	bounds := []string{}
	for _, sp := range spaces {
		l := kit.N(sp.quick, sp.full)
		bounds = append(bounds, fmt.Sprintf("%d namespaces, ops %s: enumerated to %d, thorough %d", len(sp.names), strings.Join(sp.kinds, ""), l, sp.full))
		if l == 0 {
			continue
		}
		for _, k := range sp.kinds {
			for _, n := range sp.names {
				jobs = append(jobs, job{sp.names, sp.active, sp.kinds, l, []c31Op{{k, n}}})
			}
		}
	}
	rec.Set("sequential_bounds", bounds)
	jobCh := make(chan job, len(jobs))
	for _, j := range jobs {
		jobCh <- j
	}
	close(jobCh)
	var wg sync.WaitGroup
	var totalRuns int64
	workers := 12
	for w := 0; w < workers; w++ {
		wg.Add(1)
		go func() {
			defer wg.Done()
			s := &c31Seq{st: mgStatsFor(), rec: rec, cache: map[string]*c31Fail{}}
			for j := range jobCh {
				s.exhaust(j.names, j.active, j.kinds, j.maxLen, j.prefix)
			}
			atomic.AddInt64(&totalRuns, s.runs)
		}()
	}
	wg.Wait()
	fmt.Printf("phase sequential-exhaustive: %.1fs\n", time.Since(t0).Seconds())
	rec.Set("sequential_histories_executed_including_shrinking", totalRuns)

	rec.Exhaustive(kit.Tier() == "thorough")

	// ---- quick only: seeded histories of the part of the space that only thorough enumerates
	if kit.Tier() != "thorough" {
		s := &c31Seq{st: mgStatsFor(), rec: rec, cache: map[string]*c31Fail{}}
		r := kit.SubRand(kit.Seed(), "C31/sampled")
		for i := 0; i < 400; i++ {
			sp := spaces[i%len(spaces)]
			c := c31Case{Names: sp.names, Active: sp.active}
			lo := sp.quick + 1
			if lo > sp.full {
				lo = sp.full
			}
			n := r.Range(lo, sp.full)
			for j := 0; j < n; j++ {
				c.Ops = append(c.Ops, c31Op{sp.kinds[r.Intn(len(sp.kinds))], c.Names[r.Intn(len(c.Names))]})
			}
			rec.Eval(1)
			c31Nontrivial(rec, c)
			if f := s.run(c); f != nil {
				rec.Count("seq.sampled-failing", 1)
				c.Ops = c.Ops[:f.Step+1]
				s.report(c)
			} else if i%100 == 0 {
				rec.Sample(map[string]interface{}{"kind": "seq", "history": c31Canon(c), "held": true})
			}
		}
	}

	// ---- concurrent
	fmt.Printf("phase sequential-all: %.1fs\n", time.Since(t0).Seconds())
	r := kit.SubRand(kit.Seed(), "C31/concurrent")
	nConc := kit.N(40, 600)
	model := c31Model()
	var overlapping, totalOps int
	for i := 0; i < nConc; i++ {
		mgThrottle(kit.N(60000, 120000), rec.Inconclusive)
		hist, stats := c31Concurrent(mgStatsFor(), r, 2, 18, 8, 45)
		rec.Eval(1)
		totalOps += stats.ops
		overlapping += stats.overlapping
		if stats.overlapping > 0 {
			rec.Nontrivial(fmt.Sprintf("conc-%d-%d", i, stats.overlapping))
		}
		for _, p := range stats.panics {
			rec.Violation("concurrent|panic-in-unit", "administrator unit panicked: "+p, map[string]interface{}{"kind": "conc", "concurrent": hist})
		}
		res, _ := porcupine.CheckOperationsVerbose(model, c31ToPorcupine(hist), 60*time.Second)
		switch res {
		case porcupine.Illegal:
			rec.Violation("concurrent|not-linearizable", fmt.Sprintf("concurrent history %d (%d operations) is not linearizable against the per-namespace specification", i, len(hist)),
				map[string]interface{}{"kind": "conc", "concurrent": hist})
		case porcupine.Unknown:
			rec.Inconclusive(fmt.Sprintf("porcupine did not finish history %d within 60 s", i))
		}
		if i == 0 {
			n := len(hist)
			if n > 12 {
				n = 12
			}
			rec.Sample(map[string]interface{}{"kind": "conc", "first_operations": hist[:n]})
		}
	}
	// ---- concurrent administrators: prepare / commit / delete as separate, unserialised calls
	fmt.Printf("phase concurrent-units: %.1fs\n", time.Since(t0).Seconds())
	rs := kit.SubRand(kit.Seed(), "C31/storm")
	nStorm := kit.N(60, 800)
	split := c31SplitModel()
	var adminOverlaps, acceptedCommits int
	for i := 0; i < nStorm; i++ {
		mgThrottle(kit.N(60000, 120000), rec.Inconclusive)
		hist, stats := c31Storm(mgStatsFor(), rs, 4, 16, 4, 20)
		rec.Eval(1)
		totalOps += stats.ops
		adminOverlaps += stats.overlapping
		for _, o := range hist {
			if o.In.Op == "commit" && o.Out.OK {
				acceptedCommits++
			}
		}
		if stats.overlapping > 0 {
			rec.Nontrivial(fmt.Sprintf("storm-%d-%d", i, stats.overlapping))
		}
		for _, p := range stats.panics {
			rec.Violation("concurrent-admins|panic", "administrator operation panicked: "+p, map[string]interface{}{"kind": "storm", "concurrent": hist})
		}
		res, _ := porcupine.CheckOperationsVerbose(split, c31ToPorcupine(hist), 60*time.Second)
		switch res {
		case porcupine.Illegal:
			rec.Violation("concurrent-admins|not-linearizable", fmt.Sprintf("history %d of unserialised administrators (%d operations) is not linearizable against the specification in which every prepare / commit / delete is atomic", i, len(hist)),
				map[string]interface{}{"kind": "storm", "concurrent": hist})
		case porcupine.Unknown:
			rec.Inconclusive(fmt.Sprintf("porcupine did not finish concurrent-administrator history %d within 60 s", i))
		}
		if i == 0 {
			n := len(hist)
			if n > 10 {
				n = 10
			}
			rec.Sample(map[string]interface{}{"kind": "storm", "first_operations": hist[:n]})
		}
	}
	rec.Count("concurrent-admins.overlapping-operation-pairs", int64(adminOverlaps))
	rec.Count("concurrent-admins.accepted-commits", int64(acceptedCommits))
	if adminOverlaps == 0 || acceptedCommits == 0 {
		rec.Inconclusive("administrator operations never overlapped or no commit was accepted: the concurrent-administrator part observed nothing")
	}
	fmt.Printf("phase all: %.1fs\n", time.Since(t0).Seconds())
	rec.Count("concurrent.operations", int64(totalOps))
	rec.Count("concurrent.reads-overlapping-a-unit-on-the-same-namespace", int64(overlapping))
	if overlapping == 0 {
		rec.Inconclusive("no reader call overlapped an administrator unit: the concurrent part observed nothing")
	}
}
