package server

// C39 — results are complete or an error, never silently truncated.
//
// Monitor: a real Manager/Server/Session stack (rig R2) whose namespaces use REAL connection
// pools pointed at the fake MySQL server of rig R3. The fake emits, per backend statement, a
// scripted number of rows of scripted sizes (ids + payload cut from a pseudo-random block);
// the client (mycli, independent decoder) records what arrives. The oracle compares the
// multiset of per-row SHA-256 the client received with what the backends produce.

import (
	"encoding/binary"
	"fmt"
	"sort"
	"strconv"
	"strings"
	"sync"
	"testing"
	"time"

	"github.com/XiaoMi/Gaea/models"
	kit "github.com/XiaoMi/Gaea/verifkit"
	"github.com/XiaoMi/Gaea/verifkit/fakemysql"
	"github.com/XiaoMi/Gaea/verifkit/mycli"
)

// c39Case is one point of the structured case space.
type c39Case struct {
	Path  string `json:"path"`  // unshard | single | shard2 | shard4
	Proto string `json:"proto"` // text | binary
	Limit int    `json:"limit"` // max_sql_result_size: -1, 5, 10000
	Rel   string `json:"rel"`   // rows per shard relative to the limit: lt | eq | gt ; "free" (12 rows) when unlimited
	Size  string `json:"size"`  // bytes per shard result: small | m15_9 | m16 | m16_1 | m33 | giant | m36x1 m36x3 m50x1 m50x3 m70x1 m70x3 (3, 4, 5 chunks of 16 MiB from ONE backend; x1 = 1 MiB rows, x3 = ~3.5 MiB rows when the row count is free)
	Order bool   `json:"order"` // ORDER BY id
}

func (c c39Case) key() string {
	return fmt.Sprintf("%s/%s/limit%d/%s/%s/order=%v", c.Path, c.Proto, c.Limit, c.Rel, c.Size, c.Order)
}

var (
	c39Paths  = []string{"unshard", "single", "shard2", "shard4"}
	c39Protos = []string{"text", "binary"}
	c39Limits = []int{-1, 5, 10000}
	c39Sizes  = []string{"small", "m15_9", "m16", "m16_1", "m33", "giant", "m36x1", "m36x3", "m50x1", "m50x3", "m70x1", "m70x3", "e1m1", "e1", "e1p1", "e2m1", "e2", "e2p1"}
)

func c39Rels(limit int) []string {
	if limit < 0 {
		return []string{"free"}
	}
	return []string{"lt", "eq", "gt"}
}

// c39MultiChunk returns the MiB per shard and the row size class of the sizes that make one
// backend deliver its result in three or more 16 MiB chunks.
func c39MultiChunk(size string) (mib int, x3 bool, ok bool) {
	switch size {
	case "m36x1":
		return 36, false, true
	case "m36x3":
		return 36, true, true
	case "m50x1":
		return 50, false, true
	case "m50x3":
		return 50, true, true
	case "m70x1":
		return 70, false, true
	case "m70x3":
		return 70, true, true
	}
	return 0, false, false
}

// c39Edge returns the row packet size of the "frame edge" size classes: four rows, the second
// of which reaches the client as a packet of exactly k*(2^24-1) bytes (k = 1, 2) or one byte
// less / more, i.e. k full frames that must be followed by an empty frame.
func c39Edge(size string) (int, bool) {
	switch size {
	case "e1m1":
		return 1<<24 - 2, true
	case "e1":
		return 1<<24 - 1, true
	case "e1p1":
		return 1 << 24, true
	case "e2m1":
		return 2*(1<<24-1) - 1, true
	case "e2":
		return 2 * (1<<24 - 1), true
	case "e2p1":
		return 2*(1<<24-1) + 1, true
	}
	return 0, false
}

func (c c39Case) valid() bool {
	if _, ok := c39Edge(c.Size); ok {
		return c.Rel == "free" && c.Path != "shard4" && !c.Order
	}
	if _, x3, ok := c39MultiChunk(c.Size); ok {
		if c.Path == "shard4" {
			return false // 4 x 70 MiB per case: the per-backend chunk loop is the same code as with 2 shards
		}
		if x3 && c.Rel != "free" {
			return false // the row count is fixed by the limit: the row size variant is meaningless
		}
		if c.Order && c.Path != "shard2" {
			return false
		}
	}
	if c.Size == "giant" && (c.Limit == 10000 || c.Path == "single" || c.Path == "shard4") {
		return false // 10 000 rows of > 16 MiB each; multi-frame rows are exercised on the unsharded and 2-shard paths only
	}
	return true
}

func (c c39Case) shards() int {
	switch c.Path {
	case "shard2":
		return 2
	case "shard4":
		return 4
	}
	return 1
}

// rows per shard
func (c c39Case) rows() int {
	switch c.Rel {
	case "lt":
		return c.Limit - 1
	case "eq":
		return c.Limit
	case "gt":
		return c.Limit + 1
	}
	if c.Size == "giant" {
		return 2
	}
	if _, ok := c39Edge(c.Size); ok {
		return 4
	}
	if mib, x3, ok := c39MultiChunk(c.Size); ok {
		if x3 {
			return mib * 2 / 7 // rows of about 3.5 MiB
		}
		return mib // rows of 1 MiB
	}
	return 12
}

// bytes of row packets per shard result
func (c c39Case) bytes() int64 {
	n := int64(c.rows())
	switch c.Size {
	case "small":
		return n * 100
	case "m15_9":
		return 16672358
	case "m16":
		return 16777216
	case "m16_1":
		return 16882073
	case "m33":
		return 34603008
	case "giant":
		return n * 17 << 20 // every row is one multi-frame packet of 17 MiB
	}
	if mib, _, ok := c39MultiChunk(c.Size); ok {
		return int64(mib) << 20
	}
	if t, ok := c39Edge(c.Size); ok {
		return int64(t) + 300
	}
	return 0
}

func (c c39Case) sql() string {
	var s string
	switch c.Path {
	case "unshard":
		s = "select * from c39un"
	case "single":
		s = "select * from c39s2 where id = 1"
	case "shard2":
		s = "select * from c39s2"
	default:
		s = "select * from c39s4"
	}
	if c.Order {
		// explicit field list: with "*" the planner appends the sort column to the select list
		s = strings.Replace(s, "select *", "select id, payload", 1) + " order by id"
	}
	return s
}

// ---------------------------------------------------------------- row generator

var (
	c39BlockOnce sync.Once
	c39Block     []byte
)

func c39GetBlock() []byte {
	c39BlockOnce.Do(func() {
		// fixed content (not seed dependent): the verdict of a shape is a function of the shape
		c39Block = kit.NewRand(0xC39).Bytes(1 << 20)
	})
	return c39Block
}

// c39Gen produces the rows of one shard of one case. Not safe for concurrent use.
type c39Gen struct {
	shard, shards, n int
	total            int64
	lens             []int // payload length per row
	buf              []byte
	maxLen           int
	exact            bool
}

func c39LenEncSize(l int) int {
	switch {
	case l < 251:
		return 1
	case l < 1<<16:
		return 3
	case l < 1<<24:
		return 4
	}
	return 9
}

func c39Digits(v int64) int {
	d := 1
	for v >= 10 {
		v /= 10
		d++
	}
	return d
}

func (g *c39Gen) id(i int) int64 { return int64(i)*int64(g.shards) + int64(g.shard) + 1 }

func newC39Gen(shard, shards, n int, total int64) *c39Gen {
	g := &c39Gen{shard: shard, shards: shards, n: n, total: total, lens: make([]int, n)}
	if n == 0 {
		g.exact = total == 0
		return g
	}
	base, rem := total/int64(n), total%int64(n)
	var carry int64
	maxLen := 0
	for i := 0; i < n; i++ {
		p := base + carry
		if int64(i) < rem {
			p++
		}
		d := c39Digits(g.id(i))
		// payload length L with 1 + d + lenEncSize(L) + L == p (largest L not exceeding it)
		l := int(p) - 1 - d
		best := 0
		switch {
		case l-1 >= 0 && l-1 < 251:
			best = l - 1
		case l-3 >= 251 && l-3 < 1<<16:
			best = l - 3
		case l-4 >= 1<<16 && l-4 < 1<<24:
			best = l - 4
		case l-9 >= 1<<24:
			best = l - 9
		case l-3 >= 0 && l-3 < 251:
			best = 250 // gap between the 1- and 3-byte length prefixes: take what fits, carry the rest
		case l-4 >= 0 && l-4 < 1<<16:
			best = 1<<16 - 1
		case l-9 >= 0:
			best = 1<<24 - 1
		}
		g.lens[i] = best
		carry = p - int64(1+d+c39LenEncSize(best)+best)
		if best > maxLen {
			maxLen = best
		}
	}
	g.exact = carry == 0
	g.maxLen = maxLen
	return g
}

// c39GenFor builds the generator of one shard of case c.
func c39GenFor(c c39Case, shard, shards int) *c39Gen {
	t, ok := c39Edge(c.Size)
	if !ok {
		return newC39Gen(shard, shards, c.rows(), c.bytes())
	}
	// rows 0, 2, 3 are small; row 1 is sized so that the packet THE CLIENT receives has
	// exactly t bytes: text row = lenenc(id) + lenenc(payload); binary row = 0x00 + null
	// bitmap (1 byte for 2 columns) + 8-byte id + lenenc(payload)
	g := &c39Gen{shard: shard, shards: shards, n: 4, lens: []int{90, 0, 90, 90}, exact: true}
	fixed := 1 + c39Digits(g.id(1))
	if c.Proto == "binary" {
		fixed = 1 + 1 + 8
	}
	l := t - fixed - 4
	if l >= 1<<24 {
		l = t - fixed - 9
	}
	if fixed+c39LenEncSize(l)+l != t {
		g.exact = false
	}
	g.lens[1] = l
	g.maxLen = l
	g.total = int64(t) + 300
	return g
}

// cells returns the two cells (id, payload) of row i; valid until the next call.
func (g *c39Gen) cells(i int) [][]byte {
	blk := c39GetBlock()
	l := g.lens[i]
	if g.buf == nil {
		g.buf = make([]byte, g.maxLen) // allocated on first use: large allocations are expensive under the race detector
	}
	p := g.buf[:l]
	off := (i*7919 + g.shard*104729) % len(blk)
	for w := 0; w < l; {
		n := copy(p[w:], blk[off:])
		w += n
		off = 0
	}
	tag := fmt.Sprintf("<s%d/%d r%d>", g.shard, g.shards, i)
	copy(p, tag)
	return [][]byte{[]byte(strconv.FormatInt(g.id(i), 10)), p}
}

// ---------------------------------------------------------------- rig

type c39Rig struct {
	r   *rig
	srv *fakemysql.Server
	mu  sync.Mutex
	cur *c39Case
	// statements of the current case seen by the fake, per shard user
	served map[string]int
}

func c39NsName(limit int) string {
	switch limit {
	case -1:
		return "c39unl"
	case 5:
		return "c39l5"
	}
	return "c39l10k"
}

func c39Namespace(limit int, addr string) *models.Namespace {
	name := c39NsName(limit)
	ns := &models.Namespace{
		Name: name, Online: true,
		AllowedDBS:    map[string]bool{"db": true},
		DefaultPhyDBS: map[string]string{"db": "db"},
		ShardRules: []*models.Shard{
			{DB: "db", Table: "c39s2", Type: "mod", Key: "id", Locations: []int{1, 1}, Slices: []string{"slice-0", "slice-1"}},
			{DB: "db", Table: "c39s4", Type: "mod", Key: "id", Locations: []int{1, 1, 1, 1}, Slices: []string{"slice-0", "slice-1", "slice-2", "slice-3"}},
		},
		Users:            []*models.User{rigUser(name, name+"_u", "pw", models.ReadWrite, models.NoReadWriteSplit)},
		DefaultSlice:     "slice-0",
		MaxSqlResultSize: limit,
	}
	for i := 0; i < 4; i++ {
		sl := rigSlice(fmt.Sprintf("slice-%d", i), addr, nil)
		sl.UserName = fmt.Sprintf("s%d", i)
		sl.HandshakeTimeout = 20000
		ns.Slices = append(ns.Slices, sl)
	}
	return ns
}

var c39Cols = []fakemysql.Column{
	{Schema: "db", Table: "t", OrgTable: "t", Name: "id", OrgName: "id", Charset: 63, Length: 20, Type: fakemysql.TypeLongLong, Flags: 0x1 | 0x2 | 0x80}, // NOT NULL | PRI | BINARY
	{Schema: "db", Table: "t", OrgTable: "t", Name: "payload", OrgName: "payload", Charset: 63, Length: 1 << 30, Type: fakemysql.TypeBlob, Flags: 0x10 | 0x80},
}

func (rg *c39Rig) handler(conn *fakemysql.ConnState, sql string) fakemysql.Response {
	low := strings.ToLower(sql)
	if !strings.HasPrefix(strings.TrimSpace(low), "select") || !strings.Contains(low, "c39") {
		return fakemysql.Default()
	}
	rg.mu.Lock()
	c := rg.cur
	if c != nil {
		rg.served[conn.User]++
	}
	rg.mu.Unlock()
	if c == nil {
		return fakemysql.Err(1146, "42S02", "no case is active")
	}
	shard, err := strconv.Atoi(strings.TrimPrefix(conn.User, "s"))
	if err != nil {
		return fakemysql.Err(1045, "28000", "unexpected backend user "+conn.User)
	}
	shards := c.shards()
	if c.Path == "single" {
		// id = 1 lives on slice-1 of the two-slice rule; ids keep the two-shard layout
		shards = 2
	}
	g := c39GenFor(*c, shard, shards)
	idx, ok := c39SelectList(low)
	if !ok {
		return fakemysql.Err(1054, "42S22", "fake backend cannot answer this select list: "+sql)
	}
	if len(idx) == 2 && idx[0] == 0 && idx[1] == 1 {
		return fakemysql.ResultSet(c39Cols, &fakemysql.FuncRows{N: g.n, Fn: g.cells})
	}
	// any other projection of (id, payload), as real MySQL would return it
	cols := make([]fakemysql.Column, len(idx))
	for i, j := range idx {
		cols[i] = c39Cols[j]
	}
	out := make([][]byte, len(idx))
	return fakemysql.ResultSet(cols, &fakemysql.FuncRows{N: g.n, Fn: func(i int) [][]byte {
		base := g.cells(i)
		for k, j := range idx {
			out[k] = base[j]
		}
		return out
	}})
}

// c39SelectList maps the select list of a (lower-cased) statement onto column indexes of
// (id, payload): "*" is both, names may be back-quoted and table-qualified.
func c39SelectList(low string) ([]int, bool) {
	i := strings.Index(low, "select")
	j := strings.Index(low, " from ")
	if i < 0 || j < 0 || j < i+6 {
		return nil, false
	}
	var idx []int
	for _, f := range strings.Split(low[i+6:j], ",") {
		f = strings.TrimSpace(f)
		if k := strings.LastIndexByte(f, '.'); k >= 0 {
			f = f[k+1:]
		}
		f = strings.Trim(f, "` ")
		switch f {
		case "*":
			idx = append(idx, 0, 1)
		case "id":
			idx = append(idx, 0)
		case "payload":
			idx = append(idx, 1)
		default:
			return nil, false
		}
	}
	return idx, len(idx) > 0
}

func c39Start(t *testing.T) (*c39Rig, error) {
	srv, err := fakemysql.Start()
	if err != nil {
		return nil, err
	}
	rg := &c39Rig{srv: srv, served: map[string]int{}}
	srv.SetHandler(rg.handler)
	var nss []*models.Namespace
	for _, l := range c39Limits {
		nss = append(nss, c39Namespace(l, srv.Addr()))
	}
	rg.r = rigStart(t, rigOpts{Namespaces: nss, FakePools: false})
	return rg, nil
}

func (rg *c39Rig) close() {
	rg.r.Close()
	rg.srv.Close()
}

// ---------------------------------------------------------------- client side

type c39Obs struct {
	ErrCode  uint16     `json:"err_code,omitempty"`
	ErrMsg   string     `json:"err_msg,omitempty"`
	IOErr    string     `json:"io_err,omitempty"`
	Rows     int        `json:"rows_received"`
	Expected int        `json:"rows_produced"`
	Missing  int        `json:"missing"`
	Extra    int        `json:"extra"`
	Sorted   bool       `json:"sorted"`
	Served   int        `json:"backend_statements"`
	hashes   [][32]byte // received
	ids      []int64
}

func c39IsEOF(p []byte) bool { return len(p) > 0 && p[0] == 0xfe && len(p) < 9 }

// c39ReadResult reads one result set, hashing rows as they arrive instead of keeping them.
func c39ReadResult(c *mycli.Conn, binaryRows bool, o *c39Obs) {
	fail := func(err error) { o.IOErr = err.Error() }
	p, err := c.ReadPacket()
	if err != nil {
		fail(err)
		return
	}
	if len(p) == 0 {
		fail(fmt.Errorf("empty reply packet"))
		return
	}
	setErr := func(p []byte) {
		o.ErrCode = binary.LittleEndian.Uint16(p[1:])
		msg := p[3:]
		if len(msg) >= 6 && msg[0] == '#' {
			msg = msg[6:]
		}
		o.ErrMsg = string(msg)
	}
	switch {
	case p[0] == 0xff && len(p) >= 3:
		setErr(p)
		return
	case p[0] == 0x00:
		fail(fmt.Errorf("OK packet instead of a result set"))
		return
	}
	ncol, _, _, ok := mycli.LenEnc(p, 0)
	if !ok || ncol == 0 || ncol > 64 {
		fail(fmt.Errorf("bad column count packet % x", p))
		return
	}
	cols := make([]mycli.Col, ncol)
	for i := range cols {
		if p, err = c.ReadPacket(); err != nil {
			fail(err)
			return
		}
		if len(p) < 13 {
			fail(fmt.Errorf("short column definition"))
			return
		}
		cols[i].Type = p[len(p)-6]
		cols[i].Flags = binary.LittleEndian.Uint16(p[len(p)-5:])
	}
	if p, err = c.ReadPacket(); err != nil {
		fail(err)
		return
	}
	if !c39IsEOF(p) {
		fail(fmt.Errorf("expected EOF after column definitions"))
		return
	}
	for {
		if p, err = c.ReadPacket(); err != nil {
			fail(err)
			return
		}
		if c39IsEOF(p) {
			return
		}
		if len(p) >= 3 && p[0] == 0xff {
			setErr(p)
			return
		}
		var row []*string
		if binaryRows {
			row, err = mycli.DecodeBinaryRow(cols, p)
		} else {
			row, err = mycli.DecodeTextRow(len(cols), p)
		}
		if err != nil {
			fail(fmt.Errorf("row %d: %v", o.Rows, err))
			return
		}
		cells := make([][]byte, len(row))
		for i, v := range row {
			if v != nil {
				cells[i] = []byte(*v)
			}
		}
		o.hashes = append(o.hashes, fakemysql.HashCells(cells))
		var id int64 = -1
		if len(row) > 0 && row[0] != nil {
			id, _ = strconv.ParseInt(*row[0], 10, 64)
		}
		o.ids = append(o.ids, id)
		o.Rows++
	}
}

// expected row hashes per (shard, shards, rows, bytes), computed once
var (
	c39ExpMu sync.Mutex
	c39Exp   = map[string][][32]byte{}
)

func c39Expected(c c39Case, shard, shards int) ([][32]byte, bool) {
	n := c.rows()
	k := fmt.Sprintf("%d/%d/%d/%d/%s", shard, shards, n, c.bytes(), c.Size)
	if _, edge := c39Edge(c.Size); edge {
		k += "/" + c.Proto
	}
	c39ExpMu.Lock()
	defer c39ExpMu.Unlock()
	g := c39GenFor(c, shard, shards)
	if h, ok := c39Exp[k]; ok {
		return h, g.exact
	}
	h := make([][32]byte, n)
	for i := 0; i < n; i++ {
		h[i] = fakemysql.HashCells(g.cells(i))
	}
	c39Exp[k] = h
	return h, g.exact
}

// c39RunCase drives one case through the proxy and applies the oracle. clause "" = held.
func c39RunCase(rg *c39Rig, c c39Case) (clause string, o c39Obs, err error) {
	ns := c39NsName(c.Limit)
	cli, err := rg.r.Dial(ns+"_u", "pw", "db")
	if err != nil {
		return "", o, fmt.Errorf("dial: %v", err)
	}
	defer cli.Close()
	cli.Timeout = 45 * time.Second // per packet read; a reply that never ends (missing EOF) shows up as an I/O error
	rg.mu.Lock()
	cc := c
	rg.cur = &cc
	rg.served = map[string]int{}
	rg.mu.Unlock()
	defer func() {
		rg.mu.Lock()
		rg.cur = nil
		rg.mu.Unlock()
	}()

	if c.Proto == "binary" {
		st, ep, perr := cli.Prepare(c.sql())
		if perr != nil {
			return "", o, fmt.Errorf("prepare: %v", perr)
		}
		if ep != nil {
			return "", o, fmt.Errorf("prepare refused: %v", ep)
		}
		if err := cli.Command(mycli.ComStmtExecute, mycli.BuildExecute(st.ID, 0, nil, true)); err != nil {
			return "", o, fmt.Errorf("execute: %v", err)
		}
		c39ReadResult(cli, true, &o)
	} else {
		if err := cli.Command(mycli.ComQuery, []byte(c.sql())); err != nil {
			return "", o, fmt.Errorf("query: %v", err)
		}
		c39ReadResult(cli, false, &o)
	}
	rg.mu.Lock()
	for _, n := range rg.served {
		o.Served += n
	}
	rg.mu.Unlock()

	// what the backends produce for this statement
	shards := c.shards()
	var exp [][32]byte
	if c.Path == "single" {
		h, _ := c39Expected(c, 1, 2)
		exp = h
	} else {
		for s := 0; s < shards; s++ {
			h, _ := c39Expected(c, s, shards)
			exp = append(exp, h...)
		}
	}
	o.Expected = len(exp)
	want := map[[32]byte]int{}
	for _, h := range exp {
		want[h]++
	}
	for _, h := range o.hashes {
		if want[h] > 0 {
			want[h]--
		} else {
			o.Extra++
		}
	}
	for _, n := range want {
		o.Missing += n
	}
	o.Sorted = sort.SliceIsSorted(o.ids, func(i, j int) bool { return o.ids[i] < o.ids[j] })
	gotErr := o.ErrCode != 0 || o.IOErr != ""
	overLimit := c.Limit > 0 && c.rows() > c.Limit
	switch {
	case overLimit && !gotErr:
		clause = "over-limit-delivered"
	case overLimit:
		clause = ""
	case strings.HasPrefix(o.IOErr, "row "):
		clause = "corrupted" // a row packet that does not decode: the stream the client got is not the rows the backends produced
	case gotErr:
		clause = "within-limit-error"
	case o.Extra > 0:
		clause = "corrupted"
	case o.Missing > 0:
		clause = "truncated"
	case c.Order && !o.Sorted:
		clause = "misordered"
	}
	return clause, o, nil
}

// ---------------------------------------------------------------- shrinking / driver

type c39Runner struct {
	rg    *c39Rig
	rec   *kit.Rec
	memo  map[c39Case]string
	obs   map[c39Case]c39Obs
	moved int64
}

func (rn *c39Runner) run(c c39Case) (string, error) {
	if cl, ok := rn.memo[c]; ok {
		return cl, nil
	}
	if _, exact := c39ExpectedExact(c); !exact {
		return "", fmt.Errorf("row generator cannot hit the byte total of this case exactly")
	}
	var clause string
	var o c39Obs
	var err error
	for attempt := 0; ; attempt++ {
		clause, o, err = c39RunCase(rn.rg, c)
		if err != nil {
			return "", err
		}
		// Gaea gives up obtaining a backend connection after 2 s of wall clock; on a stalled
		// machine that says nothing about the property: run the case again
		if !c39PoolTimeout(o.ErrMsg) {
			break
		}
		rn.rec.Count("cases.retried_after_pool_timeout", 1)
		if attempt == 2 {
			return "", fmt.Errorf("backend connection pool timed out three times in a row: %s", o.ErrMsg)
		}
	}
	rn.memo[c] = clause
	rn.obs[c] = o
	rn.rec.Eval(1)
	rn.rec.Count("rows.produced", int64(o.Expected))
	rn.rec.Count("rows.received", int64(o.Rows))
	rn.rec.Count("bytes.produced", c.bytes()*int64(c.shards()))
	rn.rec.Count("backend.statements", int64(o.Served))
	if o.ErrCode != 0 {
		rn.rec.Count("client.err_packets", 1)
	}
	if o.IOErr != "" {
		rn.rec.Count("client.io_errors", 1)
	}
	if clause != "" {
		rn.rec.Count("clause."+clause, 1)
	}
	if o.Served > 0 {
		rn.rec.Nontrivial(c.key())
	}
	return clause, nil
}

func c39PoolTimeout(msg string) bool {
	return strings.Contains(msg, "create resource failed") || strings.Contains(msg, "context deadline exceeded") || strings.Contains(msg, "resource pool timed out")
}

// c39Shrink greedily moves every feature towards its simplest value while the same clause
// keeps failing; the result is 1-minimal with respect to these moves.
func (rn *c39Runner) shrink(c c39Case, clause string) (c39Case, error) {
	try := func(cand c39Case) (bool, error) {
		if !cand.valid() || cand == c {
			return false, nil
		}
		cl, err := rn.run(cand)
		return cl == clause, err
	}
	for changed := true; changed; {
		changed = false
		step := func(cands []c39Case) error {
			for _, cand := range cands {
				ok, err := try(cand)
				if err != nil {
					return err
				}
				if ok {
					c = cand
					changed = true
					return nil
				}
			}
			return nil
		}
		var cands []c39Case
		if c.Order {
			x := c
			x.Order = false
			cands = append(cands, x)
		}
		if err := step(cands); err != nil {
			return c, err
		}
		cands = nil
		if c.Proto == "binary" {
			x := c
			x.Proto = "text"
			cands = append(cands, x)
		}
		if err := step(cands); err != nil {
			return c, err
		}
		cands = nil
		for _, p := range c39Paths {
			if p == c.Path {
				break
			}
			x := c
			x.Path = p
			cands = append(cands, x)
		}
		if err := step(cands); err != nil {
			return c, err
		}
		cands = nil
		for _, s := range c39Sizes {
			if s == c.Size {
				break
			}
			x := c
			x.Size = s
			cands = append(cands, x)
		}
		if err := step(cands); err != nil {
			return c, err
		}
		cands = nil
		if c.Limit == 10000 {
			x := c
			x.Limit = 5
			cands = append(cands, x)
		}
		if err := step(cands); err != nil {
			return c, err
		}
	}
	return c, nil
}

func c39AllCases() []c39Case {
	var out []c39Case
	for _, order := range []bool{false, true} {
		for _, proto := range c39Protos {
			for _, path := range c39Paths {
				for _, limit := range c39Limits {
					for _, rel := range c39Rels(limit) {
						for _, size := range c39Sizes {
							c := c39Case{Path: path, Proto: proto, Limit: limit, Rel: rel, Size: size, Order: order}
							if c.valid() {
								out = append(out, c)
							}
						}
					}
				}
			}
		}
	}
	return out
}

// c39Core is the part of the space every quick run visits: each path around the row limit
// and around the 16 MiB threshold, both protocols on the streaming path.
func c39Core() []c39Case {
	return []c39Case{
		{"unshard", "text", -1, "free", "m16_1", false},
		{"unshard", "text", -1, "free", "m33", false},
		{"unshard", "binary", -1, "free", "m33", false},
		{"unshard", "text", -1, "free", "m16", false},
		{"unshard", "text", -1, "free", "giant", false},
		{"unshard", "text", 5, "lt", "small", false},
		{"unshard", "text", 5, "eq", "small", false},
		{"unshard", "text", 5, "gt", "small", false},
		{"unshard", "text", 5, "gt", "m33", false},
		{"unshard", "text", 10000, "lt", "m16_1", false},
		{"unshard", "binary", 10000, "eq", "m15_9", false},
		{"single", "text", -1, "free", "m16_1", false},
		{"single", "text", 5, "lt", "m15_9", false},
		{"shard2", "text", -1, "free", "m15_9", true},
		{"shard2", "text", -1, "free", "m16_1", false},
		{"shard2", "binary", 5, "lt", "small", true},
		{"shard2", "text", 5, "gt", "m16", false},
		{"shard4", "text", -1, "free", "m33", false},
		{"shard4", "text", 10000, "lt", "small", true},
		{"shard4", "binary", 5, "eq", "small", false},
		// one backend delivering 3, 4, 5 chunks: every chunk loop (sharded fetch-all, streaming) must go round more than twice
		{"single", "text", -1, "free", "m36x1", false},
		{"shard2", "binary", -1, "free", "m36x3", false},
		{"unshard", "text", -1, "free", "m50x1", false},
		// a row reaching the client as exactly two full frames (needs the empty terminating frame), followed by more rows
		{"unshard", "text", -1, "free", "e2", false},
		{"shard2", "binary", -1, "free", "e1", false},
	}
}

func TestVerif_C39(t *testing.T) {
	rec := kit.Start("C39", "exploration", "case = (path unshard|single|shard2|shard4) x (text|binary protocol) x max_sql_result_size {-1,5,10000} x rows per shard {limit-1,limit,limit+1 | 12 when unlimited (2 for 17 MiB rows)} x bytes per shard result {100 B rows, 15.9, 16, 16.1, 33 MiB, 17 MiB rows, 36/50/70 MiB = 3/4/5 chunks from one backend with 1 MiB or 3.5 MiB rows, a row of exactly k*(2^24-1) bytes (k=1,2; -1/+1 byte) followed by further rows} x ORDER BY; quick = fixed core list + seeded sample, thorough = whole space; a case is non-trivial when the fake backend served its statement; distinct key = the feature vector")
	defer rec.Finish(t)
	rec.Assume("the fake MySQL server (rig R3) emits text-protocol result sets exactly as scripted; rows are identified by SHA-256 over their cell values, so the comparison does not depend on packet framing")
	rec.Assume("row limit semantics per the property: a per-shard result with rows <= max_sql_result_size is delivered in full, rows > limit is an error; -1 means unlimited")
	rg, err := c39Start(t)
	if err != nil {
		rec.Inconclusive("cannot start rig: " + err.Error())
		return
	}
	defer rg.close()
	rn := &c39Runner{rg: rg, rec: rec, memo: map[c39Case]string{}, obs: map[c39Case]c39Obs{}}

	report := func(c c39Case, clause string) bool {
		min, err := rn.shrink(c, clause)
		if err != nil {
			rec.Inconclusive("while shrinking " + c.key() + ": " + err.Error())
			return false
		}
		o := rn.obs[min]
		sig := "C39:" + clause + ":" + min.key()
		what := fmt.Sprintf("%s on %q (limit %d, %d shard(s) x %d rows x %d bytes, %s protocol): client received %d of %d rows (missing %d, extra %d), err=%d %q io=%q",
			clause, min.sql(), min.Limit, min.shards(), min.rows(), min.bytes(), min.Proto, o.Rows, o.Expected, o.Missing, o.Extra, o.ErrCode, o.ErrMsg, o.IOErr)
		rec.Violation(sig, what, map[string]interface{}{"case": min, "found_as": c, "observed": o})
		return true
	}

	if p := kit.ReplayPath(); p != "" {
		var w struct {
			Case c39Case `json:"case"`
		}
		if err := kit.LoadReplay(p, &w); err != nil {
			rec.Inconclusive("cannot load replay: " + err.Error())
			return
		}
		clause, err := rn.run(w.Case)
		if err != nil {
			rec.Inconclusive(err.Error())
			return
		}
		rec.Nontrivial("replay")
		rec.Nontrivial("replay2")
		rec.Sample(map[string]interface{}{"case": w.Case, "clause": clause, "observed": rn.obs[w.Case]})
		if clause != "" {
			report(w.Case, clause)
		}
		return
	}

	all := c39AllCases()
	var list []c39Case
	if kit.Tier() == "thorough" {
		list = all
		rec.Exhaustive(true)
	} else {
		list = append(list, c39Core()...)
		r := kit.SubRand(kit.Seed(), "C39/sample")
		for i := 0; i < 32; i++ {
			c := all[r.Intn(len(all))]
			// keep the quick tier within its byte budget: at most every third sampled case is a 33 MiB / giant one,
			// at most every ninth a multi-chunk (36-70 MiB per backend) one
			_, _, multi := c39MultiChunk(c.Size)
			_, edge := c39Edge(c.Size)
			if ((c.Size == "m33" || c.Size == "giant" || edge) && i%3 != 0) || (multi && i%9 != 0) {
				c.Size = []string{"small", "m15_9", "m16", "m16_1"}[r.Intn(4)]
			}
			if !c.valid() {
				c.Order = false
			}
			list = append(list, c)
		}
	}
	for _, c := range list {
		clause, err := rn.run(c)
		if err != nil {
			rec.Inconclusive("case " + c.key() + ": " + err.Error())
			return
		}
		o := rn.obs[c]
		rec.Sample(map[string]interface{}{"case": c, "sql": c.sql(), "clause": clause, "observed": o})
		if clause != "" {
			if !report(c, clause) {
				return
			}
		}
	}
	rec.Set("cases_in_space", len(all))
	rec.Set("cases_run_including_shrinking", len(rn.memo))
	rec.Set("backend_connections_accepted", rg.srv.Accepted())
}

func c39ExpectedExact(c c39Case) (int, bool) {
	shards := c.shards()
	if c.Path == "single" {
		return c.rows(), c39GenFor(c, 1, 2).exact
	}
	ok := true
	for s := 0; s < shards; s++ {
		if !c39GenFor(c, s, shards).exact {
			ok = false
		}
	}
	return c.rows() * shards, ok
}
