package server

// C23 — keep-session clients stay pinned to their backend connections.
//
// Trace checker on rig R2: one keep-session client per case; command sequences over
// statements on slice-0 / slice-1 / both, BEGIN, COMMIT, ROLLBACK, SET autocommit=0/1,
// COM_PING (succeeding or failing on a backend), namespace reload (prepare + commit on the
// real Manager between two commands), ending in COM_QUIT or an abrupt disconnect.

import (
	"fmt"
	"sort"
	"strings"
	"sync"
	"testing"

	kit "github.com/XiaoMi/Gaea/verifkit"
)

type c23Viol struct {
	Clause string `json:"clause"`
	Step   int    `json:"step"`
	Detail string `json:"detail"`
	Fault  string `json:"fault"`
	Last   string `json:"last"` // last pin-changing event before the violation: none | L (reload between commands) | LM (reload during a command) | PF (failed ping)
	InTx   bool   `json:"in_tx"`
}

// c23Judge. Clauses:
//
//	repin                 a second connection of a slice used while the first is still the pin
//	unpinned              a pinned connection given back although nothing allows it (no disconnect, reload, failed ping)
//	use_after_release     a call on a connection that is not checked out
//	double_release        a Recycle of a connection that is not checked out
//	leak                  a connection checked out at a quiescent point that is not the pin of its slice
//	old_not_released      after a reload outside a transaction the old pin is still checked out after the next command
//	stale_generation      after a reload outside a transaction a command ran on a connection of an older generation
//	tx_reload_not_rejected  after a reload inside a transaction the next command was not refused with ErrTxNsChanged + disconnect
//	not_released_at_disconnect  a pin still checked out after the session ended
//	ping_skipped          COM_PING did not ping a pinned connection
//	unexpected_disconnect the server closed the client connection without an error reply (other than after a failed ping)
func c23Judge(tr *txTrace) []c23Viol {
	var out []c23Viol
	seen := map[string]bool{}
	last, lastInTx := "none", false
	add := func(clause string, step int, detail string) {
		if seen[clause] {
			return
		}
		seen[clause] = true
		out = append(out, c23Viol{Clause: clause, Step: step, Detail: detail, Last: last, InTx: lastInTx, Fault: c23FaultTag(tr)})
	}
	reloads := 0
	for _, st := range tr.Steps {
		if st.Step.Op == "reload" {
			reloads++
		}
		for _, e := range st.Events {
			if e.Fault == "reload" {
				reloads++ // reload committed while this backend call was in flight
			}
		}
	}
	gen := tr.GenAtEnd - reloads
	pinned := map[string]int64{}
	pending := map[int64]bool{} // old pins that the next command has to release
	expectReject, nextReject := false, false
	inTx := false
	// an injected backend fault (error / connection closed): the connection it hit may be
	// dropped by the session from the faulted command on, and once a connection was closed
	// under the session a disconnect (ErrBadConn ends the session) is no surprise
	faultStep, faultConn, faultClosed := -1, int64(0), false
	if f := tr.Case.Fault; f != nil && tr.Fired && (f.Kind == "err" || f.Kind == "close") {
		faultStep, faultConn, faultClosed = f.Cmd, tr.FiredEv.Conn, f.Kind == "close"
	}
	ended := false
	for i, st := range tr.Steps {
		op := st.Step.Op
		class := txClass(op)
		if ended {
			continue
		}
		if op == "reload" {
			gen++
			if inTx {
				expectReject = true
			} else {
				for s, c := range pinned {
					pending[c] = true
					delete(pinned, s)
				}
			}
			last, lastInTx = "L", inTx
			continue
		}
		prevPinned := map[int64]bool{}
		for _, c := range pinned {
			prevPinned[c] = true
		}
		rejecting := expectReject
		pingFailed, reloadedMid := false, false
		for _, e := range st.Events {
			if e.Fault == "pingfail" || (e.Op == "ping" && (e.Fault == "err" || e.Fault == "close")) {
				pingFailed = true
			}
			if e.Fault == "reload" {
				reloadedMid = true
			}
		}
		if pingFailed {
			last, lastInTx = "PF", inTx
		}
		if st.Reply.Kind == "lost" && !pingFailed && !(faultClosed && i >= faultStep) {
			// the server dropped the client without telling it why
			add("unexpected_disconnect", i, fmt.Sprintf("%s: connection closed by the server (%s)", op, st.Reply.Msg))
		} else if rejecting {
			if class != "Q" && !(st.Reply.Kind == "err" && strings.Contains(st.Reply.Msg, "namespace changed in transaction") && st.Ended) {
				add("tx_reload_not_rejected", i, fmt.Sprintf("%s after a reload inside a transaction answered %s %q, session ended=%v", op, st.Reply.Kind, st.Reply.Msg, st.Ended))
			}
		}
		// a reload committed while the command was in flight may already be honoured by the
		// command itself (recycleBackendConn -> clearKsConns)
		releaseOK := class == "Q" || rejecting || st.Ended || reloadedMid
		pinged := map[int64]bool{}
		for _, e := range st.Events {
			switch e.Op {
			case "get", "close":
				continue
			case "recycle":
				if !e.Taken {
					add("double_release", i, e.String())
					continue
				}
				if pending[e.Conn] {
					delete(pending, e.Conn)
				} else if !(releaseOK || pingFailed || (faultStep >= 0 && i >= faultStep && e.Conn == faultConn)) {
					add("unpinned", i, e.String())
				}
				for s, c := range pinned {
					if c == e.Conn {
						delete(pinned, s)
					}
				}
				continue
			}
			if !txIsUse(e) {
				continue
			}
			if !e.Taken {
				add("use_after_release", i, e.String())
				continue
			}
			if e.Op == "ping" {
				pinged[e.Conn] = true
			}
			if pending[e.Conn] || e.Gen < gen && !inTx && !rejecting && class != "Q" {
				add("stale_generation", i, fmt.Sprintf("current generation %d: %s", gen, e.String()))
			}
			if c, ok := pinned[e.Slice]; ok && c != e.Conn {
				add("repin", i, fmt.Sprintf("c%d is the pin of %s: %s", c, e.Slice, e.String()))
			} else if !ok {
				pinned[e.Slice] = e.Conn
			}
		}
		if op == "ping" && st.Reply.Kind == "ok" {
			for c := range prevPinned {
				if !pinged[c] {
					add("ping_skipped", i, fmt.Sprintf("pinned connection c%d was not pinged", c))
				}
			}
		}
		if len(pending) > 0 {
			for c := range pending {
				add("old_not_released", i, fmt.Sprintf("c%d of the previous generation still checked out after %s", c, op))
			}
			pending = map[int64]bool{}
		}
		if reloadedMid && !st.Ended {
			// from here on it is a reload like one between two commands
			gen++
			last, lastInTx = "LM", inTx
			if inTx {
				nextReject = true
			} else {
				for s, c := range pinned {
					pending[c] = true
					delete(pinned, s)
				}
			}
		}
		if st.Ended {
			ended = true
			for _, cs := range st.Snap {
				if cs.Taken {
					add("not_released_at_disconnect", i, fmt.Sprintf("c%d %s/%s still checked out after the session ended", cs.ID, cs.Slice, cs.Role))
				}
			}
		} else {
			isPin := map[int64]bool{}
			for _, c := range pinned {
				isPin[c] = true
			}
			for c := range pending {
				isPin[c] = true
			}
			for _, cs := range st.Snap {
				if cs.Taken && !isPin[cs.ID] {
					add("leak", i, fmt.Sprintf("c%d %s/%s checked out but not the pin of its slice", cs.ID, cs.Slice, cs.Role))
				}
			}
		}
		expectReject = nextReject
		nextReject = false
		inTx = st.InTx
	}
	return out
}

func c23Sig(v c23Viol) string {
	return fmt.Sprintf("%s|last=%s|intx=%d%s", v.Clause, v.Last, txB2i(v.InTx), v.Fault)
}

// c23FaultTag is the fault part of a signature: kind and kind of backend call hit.
func c23FaultTag(tr *txTrace) string {
	if f := tr.Case.Fault; f != nil && tr.Fired && (f.Kind == "err" || f.Kind == "close") {
		op := f.Op
		if op == "exec" {
			op = "exec@" + txClass(tr.Case.Steps[f.Cmd].Op)
		}
		return "|f=" + f.Kind + ":" + op
	}
	return ""
}

type c23Witness struct {
	Case   *txCase  `json:"case"`
	Text   string   `json:"text"`
	Clause string   `json:"clause"`
	Detail string   `json:"detail"`
	Trace  []string `json:"trace"`
}

func c23Shrink(tr *txTrace, v c23Viol) (*txTrace, c23Viol) {
	w := tr.w
	cur, curV := tr, v
	sig := c23Sig(v)
	for changed := true; changed; {
		changed = false
		for i := 0; i < len(cur.Case.Steps)-1; i++ {
			if cur.Case.Fault != nil && cur.Case.Fault.Cmd == i {
				continue
			}
			d := cur.Case.clone()
			d.Steps = append(append([]txStep(nil), cur.Case.Steps[:i]...), cur.Case.Steps[i+1:]...)
			if d.Fault != nil && d.Fault.Cmd > i {
				d.Fault.Cmd--
			}
			found := false
			for t := 0; t < 3 && !found; t++ {
				t2 := w.Run(d)
				if t2.Disturbed != "" {
					continue
				}
				for _, v2 := range c23Judge(t2) {
					if c23Sig(v2) == sig {
						cur, curV, found = t2, v2, true
						break
					}
				}
			}
			if found {
				changed = true
				break
			}
		}
	}
	return cur, curV
}

var c23Alpha = []string{"ru", "rs1", "ws2", "wu", "begin", "commit", "rollback", "ac0", "ac1", "ping", "pingfail", "reload", "fl", "sr", "sm", "sp", "rbsp"}
var c23Core = []string{"ru", "rs1", "ws2", "begin", "commit", "ping", "pingfail", "reload", "sr"}

func c23Random(r *kit.Rand, n, maxLen int) []*txCase {
	var out []*txCase
	for i := 0; i < n; i++ {
		l := r.Range(1, maxLen)
		var ops []string
		for len(ops) < l {
			ops = append(ops, r.Pick(c23Alpha))
		}
		end := r.Pick([]string{"quit", "quit", "disc"})
		c := &txCase{Mode: "k", Users: []string{r.Pick([]string{"rw", "rw", "rws", "ro"})}, Steps: txSteps(ops, end)}
		// one case in three: the namespace is reloaded WHILE a backend call of a command is
		// in flight (the call returns after the commit)
		if r.Chance(1, 3) {
			c.Fault = c23ReloadDuring(r, c)
		}
		out = append(out, c)
	}
	return out
}

// c23ReloadDuring picks a command whose transaction state does not change and addresses
// its first ping / execute / field-list call on one slice.
func c23ReloadDuring(r *kit.Rand, c *txCase) *txFault {
	var cand []int
	txSeen := false
	for i, st := range c.Steps {
		switch st.Op {
		case "begin", "ac0":
			txSeen = true
		case "ping", "ru", "rs1", "ws2", "wu", "fl":
			cand = append(cand, i)
		case "sr", "sm":
			// streamed answers: only while the session cannot be in a transaction (the
			// driver's backend-free sync command after a streamed answer would otherwise be
			// the command that is refused)
			if !txSeen {
				cand = append(cand, i, i)
			}
		}
	}
	if len(cand) == 0 {
		return nil
	}
	at := cand[r.Intn(len(cand))]
	f := &txFault{Kind: "reload", Cmd: at, N: 0}
	switch c.Steps[at].Op {
	case "ping":
		f.Op, f.Slice = "ping", r.Pick([]string{"slice-0", "slice-1"})
	case "fl":
		f.Op, f.Slice = "fieldlist", "slice-0"
	case "rs1":
		f.Op, f.Slice = "exec", "slice-1"
	case "ws2":
		f.Op, f.Slice = "exec", r.Pick([]string{"slice-0", "slice-1"})
	default:
		f.Op, f.Slice = "exec", "slice-0"
	}
	return f
}

// c23Curated are fixed cases (both tiers): a reload during a command outside and inside a
// transaction, followed by further commands, and streamed answers.
func c23Curated() []*txCase {
	var out []*txCase
	mk := func(ops []string, cmd int, slice, op string) {
		c := &txCase{Mode: "k", Users: []string{"rw"}, Steps: txSteps(ops, "quit")}
		if cmd >= 0 {
			c.Fault = &txFault{Kind: "reload", Cmd: cmd, Slice: slice, Op: op, N: 0}
		}
		out = append(out, c)
	}
	mk([]string{"ru", "ping", "ru", "ru"}, 1, "slice-0", "ping")
	mk([]string{"ws2", "ping", "ws2", "ping"}, 1, "slice-1", "ping")
	mk([]string{"ru", "ru", "ru", "rs1"}, 1, "slice-0", "exec")
	mk([]string{"ru", "begin", "ping", "ru"}, 2, "slice-0", "ping")
	mk([]string{"ru", "begin", "ru", "ru"}, 2, "slice-0", "exec")
	mk([]string{"begin", "ws2", "ws2", "commit"}, 2, "slice-1", "exec")
	mk([]string{"ru", "ac0", "ping", "commit"}, 2, "slice-0", "ping")
	mk([]string{"ru", "fl", "ru"}, 1, "slice-0", "fieldlist")
	mk([]string{"sr", "ru", "sm", "ru", "ping"}, -1, "", "")
	mk([]string{"ru", "sr", "ru", "sr"}, 1, "slice-0", "exec")
	mk([]string{"sr", "ru"}, 0, "slice-0", "exec")
	mk([]string{"rs1", "sm", "rs1", "ru"}, 1, "slice-0", "exec")
	mk([]string{"ws2", "sm", "ping", "sm"}, 1, "slice-0", "exec")
	mk([]string{"ru", "sr", "begin", "sr", "sm", "commit", "sr"}, -1, "", "")
	mk([]string{"ac0", "sr", "sm", "ac1", "sm"}, -1, "", "")
	return out
}

// c23FaultedCases: for every begin / autocommit / commit / rollback / ping call, every
// savepoint execute and the first execute of every command of a fault-free run, one re-run
// with that call failing and one with it closing the connection.
func c23FaultedCases(tr *txTrace) []*txCase {
	var out []*txCase
	for _, p := range txFaultPositions(tr) {
		switch p.F.Op {
		case "begin", "autocommit", "commit", "rollback", "ping":
		case "exec":
			if p.F.N != 0 {
				continue
			}
		default:
			continue
		}
		for _, k := range []string{"err", "close"} {
			d := tr.Case.clone()
			f := p.F
			f.Kind = k
			d.Fault = &f
			out = append(out, d)
		}
	}
	return out
}

// c23FaultBase are fixed sequences whose fault positions are enumerated in both tiers: a
// slice touched for the first time under autocommit=0 / inside a transaction (the SET
// autocommit / BEGIN replay on the fresh connection), transaction control and savepoints on
// pinned connections, then disconnect.
func c23FaultBase() []*txCase {
	var out []*txCase
	for _, u := range []string{"rw", "ro"} {
		for _, ops := range [][]string{
			{"ac0", "ru", "ru", "rs1", "commit", "ru"},
			{"begin", "ru", "rs1", "ru", "rollback", "ru"},
			{"ru", "begin", "rs1", "sp", "rbsp", "commit", "rs1"},
			{"ws2", "ac0", "ru", "ac1", "ru", "ping"},
			{"ws2", "begin", "commit", "begin", "rollback"},
			{"ru", "ac0", "sp", "ping", "ru"},
		} {
			for _, end := range []string{"quit", "disc"} {
				out = append(out, &txCase{Mode: "k", Users: []string{u}, Steps: txSteps(ops, end)})
			}
		}
	}
	return out
}

func c23Exhaustive(n int) []*txCase {
	var out []*txCase
	var rec func(prefix []string)
	rec = func(prefix []string) {
		if len(prefix) > 0 {
			out = append(out, &txCase{Mode: "k", Users: []string{"rw"}, Steps: txSteps(prefix, "quit")})
		}
		if len(prefix) == n {
			return
		}
		for _, o := range c23Core {
			rec(append(append([]string(nil), prefix...), o))
		}
	}
	rec(nil)
	return out
}

func TestVerif_C23(t *testing.T) {
	rec := kit.Start("C23", "exploration", "keep-session command sequences (length <= 10) over statements on slice-0 / slice-1 / both slices, BEGIN, COMMIT, ROLLBACK, SET autocommit 0/1, COM_FIELD_LIST, COM_PING succeeding or failing on a backend, statements answered with streamed / multi-result sets, SAVEPOINT / ROLLBACK TO, namespace reloads on the real Manager between two commands and (one random case in three) WHILE a backend call of a command is in flight, ending in COM_QUIT or an abrupt disconnect; for fixed base sequences and a sample of the others every transaction-control / savepoint / ping / first-execute backend call is additionally failed or made to close its connection; thorough adds every sequence up to length 5 over a 9-command core; a case is non-trivial when a connection was pinned, keyed by the ordered command classes with reload / failed ping / transaction state marked")
	defer rec.Finish(t)
	rec.Assume("a failed COM_PING (client receives an error) is accepted as a point where the pins may be dropped; everywhere else a pin may only change at a namespace reload or at disconnect")
	env := txStartEnv(t)
	defer env.Close()

	var mu sync.Mutex
	var pinnedRuns, reloadRuns, txReloadRuns, disturbed, total int64
	report := func(tr *txTrace, v c23Viol) {
		sig := c23Sig(v)
		if !rec.IsKnown(sig) {
			tr, v = c23Shrink(tr, v)
		}
		rec.Violation(sig, fmt.Sprintf("%s (step %d): %s [%s]", v.Clause, v.Step, v.Detail, tr.Case.String()),
			c23Witness{Case: tr.Case, Text: tr.Case.String(), Clause: v.Clause, Detail: v.Detail, Trace: txTraceLines(tr)})
	}
	judge := func(tr *txTrace) {
		rec.Eval(1)
		mu.Lock()
		total++
		mu.Unlock()
		if tr.Disturbed != "" {
			mu.Lock()
			disturbed++
			mu.Unlock()
			rec.Count("disturbed."+strings.SplitN(tr.Disturbed, ":", 2)[0], 1)
			return
		}
		pins := 0
		var key []string
		inTx := false
		for _, st := range tr.Steps {
			k := txClass(st.Step.Op)
			if st.Step.Op == "pingfail" {
				k = "PF"
			}
			if st.Step.Op == "reload" && inTx {
				k = "Ltx"
				mu.Lock()
				txReloadRuns++
				mu.Unlock()
			} else if st.Step.Op == "reload" {
				mu.Lock()
				reloadRuns++
				mu.Unlock()
			}
			for _, e := range st.Events {
				rec.Count("events."+e.Op, 1)
				if e.Op == "get" {
					pins++
				}
				if e.Fault == "reload" {
					k += "+reload"
					if inTx {
						rec.Count("reloads_during_command.in_tx", 1)
					} else {
						rec.Count("reloads_during_command.no_tx", 1)
					}
				}
			}
			key = append(key, k)
			if st.Step.Op != "reload" {
				inTx = st.InTx
			}
		}
		vs := c23Judge(tr)
		for _, v := range vs {
			report(tr, v)
		}
		if pins > 0 {
			mu.Lock()
			pinnedRuns++
			mu.Unlock()
			rec.Nontrivial(tr.Case.Users[0] + ":" + strings.Join(key, ","))
			rec.Sample(map[string]interface{}{"case": tr.Case.String(), "connections_pinned": pins, "violations": len(vs)})
		}
	}

	if p := kit.ReplayPath(); p != "" {
		var w c23Witness
		if err := kit.LoadReplay(p, &w); err != nil || w.Case == nil {
			rec.Inconclusive("cannot load replay file")
			return
		}
		for i := 0; i < 10; i++ {
			tr := env.ws[0].Run(w.Case)
			for _, l := range txTraceLines(tr) {
				fmt.Println(l)
			}
			judge(tr)
			rec.Nontrivial("replay")
			if len(c23Judge(tr)) > 0 {
				break
			}
		}
		return
	}

	seed := kit.Seed()
	var cases []*txCase
	if kit.Tier() == "thorough" {
		cases = append(cases, c23Exhaustive(5)...)
		cases = append(cases, c23Random(kit.SubRand(seed, "C23/random"), 15000, 10)...)
		rec.Set("exhaustive_core_len", 5)
	} else {
		ex := c23Exhaustive(4)
		r := kit.SubRand(seed, "C23/pick")
		for _, i := range r.Perm(len(ex))[:500] {
			cases = append(cases, ex[i])
		}
		cases = append(cases, c23Random(kit.SubRand(seed, "C23/random"), 1000, 10)...)
	}
	cases = append(cases, c23Curated()...)
	rec.Set("sequences", len(cases))
	// fault enumeration on a subset: every transaction-control / savepoint / ping call (and
	// the first execute per command) of the fault-free run fails or closes its connection
	nFault := kit.N(70, 1500)
	var mu2 sync.Mutex
	var traces []*txTrace
	env.txRunAll(cases, func(tr *txTrace) {
		judge(tr)
		if tr.Disturbed == "" && tr.Case.Fault == nil {
			mu2.Lock()
			traces = append(traces, tr)
			mu2.Unlock()
		}
	})
	sort.Slice(traces, func(i, j int) bool { return traces[i].Case.String() < traces[j].Case.String() })
	fr := kit.SubRand(seed, "C23/faults")
	var faulted []*txCase
	for _, c := range c23FaultBase() {
		tr := env.ws[0].Run(c)
		judge(tr)
		if tr.Disturbed == "" {
			faulted = append(faulted, c23FaultedCases(tr)...)
		}
	}
	if nFault > len(traces) {
		nFault = len(traces)
	}
	for _, i := range fr.Perm(len(traces))[:nFault] {
		faulted = append(faulted, c23FaultedCases(traces[i])...)
	}
	rec.Set("faulted_runs", len(faulted))
	env.txRunAll(faulted, func(tr *txTrace) {
		if tr.Disturbed == "" && tr.Fired {
			rec.Count("fault."+tr.Case.Fault.Kind+"."+tr.Case.Fault.Op, 1)
		}
		judge(tr)
	})
	rec.Set("runs_with_pinned_connection", pinnedRuns)
	rec.Set("reloads_outside_transaction", reloadRuns)
	rec.Set("reloads_inside_transaction", txReloadRuns)
	rec.Set("runs_disturbed", disturbed)
	if pinnedRuns == 0 || reloadRuns == 0 || txReloadRuns == 0 {
		rec.Inconclusive("no pinned connection / no reload outside / inside a transaction was exercised")
	}
	if disturbed*50 > total {
		rec.Inconclusive(fmt.Sprintf("%d of %d runs were disturbed", disturbed, total))
	}
}
