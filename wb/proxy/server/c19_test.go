package server

// C19 — backend connections are returned exactly once and never leaked.
//
// Fault enumeration on rig R2: every command sequence is first run fault-free; then, for
// EVERY backend call of that run (pool Get and every call on a pooled connection), the
// sequence is re-run with that call failing (error returned / connection closed) and, for
// statement executions, blocked past max_sql_execute_time. The oracle reads the fake pools'
// ledger at every quiescent point (the client has its reply) and after the session ended.

import (
	"fmt"
	"sort"
	"strings"
	"sync"
	"testing"

	kit "github.com/XiaoMi/Gaea/verifkit"
)

type c19Viol struct {
	Clause string `json:"clause"`
	Conn   int64  `json:"conn"`
	Step   int    `json:"step"`
	Detail string `json:"detail"`
}

// c19Judge is the oracle. Clauses:
//
//	double_return     a Recycle of a connection that is not checked out
//	use_after_return  a call on a connection that is not checked out
//	return_inflight   a live connection handed back to the pool while a call is executing on it
//	leak              a connection checked out at a quiescent point without a stated reason
//	                  (open transaction: master, one per slice; keep-session pin: one per
//	                  slice), or checked out after the session ended
func c19Judge(tr *txTrace) []c19Viol {
	var out []c19Viol
	seen := map[string]bool{}
	add := func(clause string, conn int64, step int, detail string) {
		if seen[clause] {
			return
		}
		seen[clause] = true
		out = append(out, c19Viol{Clause: clause, Conn: conn, Step: step, Detail: detail})
	}
	ks := txKS(tr.Case.Mode)
	for i, st := range tr.Steps {
		for _, e := range st.Events {
			if e.Op == "recycle" && !e.Taken {
				add("double_return", e.Conn, i, e.String())
			}
			if txIsUse(e) && !e.Taken {
				add("use_after_return", e.Conn, i, e.String())
			}
			if st.BlockSeq >= 0 && e.Seq > st.BlockSeq && e.Seq < st.ReleaseSeq && e.Conn == tr.FiredEv.Conn && e.Op == "recycle" && e.Taken && !e.Closed {
				add("return_inflight", e.Conn, i, e.String())
			}
		}
		perSlice := map[string]int{}
		for _, cs := range st.Snap {
			if !cs.Taken {
				continue
			}
			if st.Ended {
				add("leak", cs.ID, i, fmt.Sprintf("c%d %s/%s still checked out after the session ended", cs.ID, cs.Slice, cs.Role))
				continue
			}
			perSlice[cs.Slice]++
			if perSlice[cs.Slice] > 1 {
				add("leak", cs.ID, i, fmt.Sprintf("two connections of %s checked out at a quiescent point", cs.Slice))
			}
			if !ks {
				if !st.InTx {
					add("leak", cs.ID, i, fmt.Sprintf("c%d %s/%s checked out, no transaction open, no keep-session", cs.ID, cs.Slice, cs.Role))
				} else if cs.Role != "master" {
					add("leak", cs.ID, i, fmt.Sprintf("c%d %s/%s (replica) held across commands", cs.ID, cs.Slice, cs.Role))
				}
			}
		}
	}
	return out
}

func c19Shape(c *txCase) string {
	var p []string
	for _, s := range c.Steps {
		x := txClass(s.Op)
		if s.Op == "disc" {
			x = "D"
		}
		p = append(p, x)
	}
	return strings.Join(p, ",")
}

// c19Phase is the kind of backend call a fault hit.
func c19Phase(op string) string {
	switch op {
	case "get":
		return "get"
	case "syncvars", "begin", "autocommit":
		return "txctl"
	case "usedb", "setcharset", "setvars", "writeset":
		return "init"
	case "exec", "fieldlist":
		return "exec"
	case "fetchmore", "readmore":
		return "stream"
	case "commit", "rollback":
		return "end"
	}
	return op
}

// c19Context is the feature class of a run (signature suffix and non-triviality key):
// keep-session or not, fault kind, kind of backend call hit, class of the faulted command,
// whether more than one connection was checked out and whether the client was in a
// transaction when the fault hit.
func c19Context(tr *txTrace) string {
	c := tr.Case
	mode := "p"
	if txKS(c.Mode) {
		mode = "k"
	}
	if c.Fault != nil && tr.Fired {
		return fmt.Sprintf("%s|%s:%s@%s|multi=%d|intx=%d", mode, c.Fault.Kind, c19Phase(c.Fault.Op), txClass(c.Steps[c.Fault.Cmd].Op), txB2i(tr.FiredHeld > 1), txB2i(tr.FiredInTx))
	}
	return fmt.Sprintf("%s|nofault|%s", mode, c19Shape(c))
}

// c19Sig is the canonical signature of a violation: oracle clause, keep-session or not,
// fault kind, kind of backend call hit, class of the faulted command and, without
// keep-session, whether the violated connection is the one the fault hit (self) or another
// one (other) and whether the client was in a transaction when the fault hit. Fault-free
// violations are keyed by the class shape of the (shrunk) command sequence.
func c19Sig(tr *txTrace, v c19Viol) string {
	c := tr.Case
	mode := "p"
	if txKS(c.Mode) {
		mode = "k"
	}
	if c.Fault != nil && tr.Fired {
		victim := "other"
		if v.Conn == tr.FiredEv.Conn {
			victim = "self"
		}
		s := fmt.Sprintf("%s|%s|%s:%s@%s", v.Clause, mode, c.Fault.Kind, c19Phase(c.Fault.Op), txClass(c.Steps[c.Fault.Cmd].Op))
		if mode == "p" {
			s += fmt.Sprintf("|%s|intx=%d", victim, txB2i(tr.FiredInTx))
		}
		return s
	}
	return fmt.Sprintf("%s|%s|nofault|%s", v.Clause, mode, c19Shape(c))
}

type c19Witness struct {
	Case    *txCase  `json:"case"`
	Text    string   `json:"text"`
	Clause  string   `json:"clause"`
	Detail  string   `json:"detail"`
	Trace   []string `json:"trace"`
	Minimal bool     `json:"minimal"`
}

// c19HasClause re-runs a case (its outcome can depend on Go's map iteration order) and
// returns a trace violating the clause with the same signature, if one is found.
func c19Reproduce(w *txWorker, c *txCase, sig string, tries int) (*txTrace, c19Viol, bool) {
	for t := 0; t < tries; t++ {
		tr := w.Run(c)
		if tr.Disturbed != "" {
			continue
		}
		for _, v := range c19Judge(tr) {
			if c19Sig(tr, v) == sig {
				return tr, v, true
			}
		}
	}
	return nil, c19Viol{}, false
}

// c19Shrink removes steps greedily while the same signature is still violated. For
// fault-free cases the signature contains the shape, so only the clause is kept fixed.
func c19Shrink(tr *txTrace, v c19Viol) (*txTrace, c19Viol) {
	w := tr.w
	cur, curV := tr, v
	faulted := tr.Case.Fault != nil && tr.Fired
	same := func(t2 *txTrace, v2 c19Viol) bool {
		if faulted {
			return c19Sig(t2, v2) == c19Sig(tr, v)
		}
		return v2.Clause == v.Clause
	}
	for changed := true; changed; {
		changed = false
		for i := 0; i < len(cur.Case.Steps)-1; i++ {
			c := cur.Case
			if c.Fault != nil && c.Fault.Cmd == i {
				continue
			}
			d := c.clone()
			d.Steps = append(append([]txStep(nil), c.Steps[:i]...), c.Steps[i+1:]...)
			if d.Fault != nil && d.Fault.Cmd > i {
				d.Fault.Cmd--
			}
			found := false
			for t := 0; t < 3 && !found; t++ {
				t2 := w.Run(d)
				if t2.Disturbed != "" {
					continue
				}
				for _, v2 := range c19Judge(t2) {
					if same(t2, v2) {
						cur, curV, found = t2, v2, true
						break
					}
				}
			}
			if found {
				changed = true
				break
			}
		}
	}
	return cur, curV
}

var c19Alpha = []string{"begin", "start", "commit", "rollback", "ac0", "ac1", "sp", "rbsp", "relsp", "rs0", "rs1", "rs2", "ws0", "ws1", "ws2", "fs1", "ru", "wu", "fu", "rg", "wg", "ping", "fl", "sr", "sm"}
var c19Core = []string{"begin", "ac0", "commit", "rollback", "ac1", "sp", "rbsp", "ws0", "ws1", "ws2", "ru", "ping", "fl", "sr"}

// c19Exhaustive enumerates every sequence over c19Core up to length n.
func c19Exhaustive(n int, modes []string, ends []string) []*txCase {
	var out []*txCase
	var rec func(prefix []string)
	rec = func(prefix []string) {
		if len(prefix) > 0 {
			for _, m := range modes {
				for _, e := range ends {
					out = append(out, &txCase{Mode: m, Users: []string{"rw"}, Steps: txSteps(prefix, e)})
				}
			}
		}
		if len(prefix) == n {
			return
		}
		for _, o := range c19Core {
			rec(append(append([]string(nil), prefix...), o))
		}
	}
	rec(nil)
	return out
}

// c19Curated is a fixed set of sequences run in both tiers: together they put every command
// class (BEGIN inside a transaction, COMMIT, ROLLBACK, autocommit switches, savepoint
// statements, sharded / unsharded statements, field list, ping, quit, disconnect) into a
// transaction holding two connections, into a single-connection transaction and outside
// any transaction, with and without keep-session.
func c19Curated() []*txCase {
	seqs := [][]string{
		{"begin", "ws2", "ru", "sp", "rbsp", "relsp", "commit", "quit"},
		{"ac0", "ws2", "ru", "commit", "ws1", "ac1", "quit"},
		{"begin", "ws2", "fl", "rollback", "quit"},
		{"start", "ru", "begin", "ws1", "rollback", "quit"},
		{"ws2", "ru", "fl", "ping", "wg", "quit"},
		{"ac0", "ru", "ws1", "ac1", "ru", "quit"},
		{"begin", "ws2", "ping", "disc"},
		{"ac0", "ru", "disc"},
		{"begin", "ws0", "ws1", "quit"},
		{"sr", "sm", "begin", "sm", "ws1", "sr", "commit", "quit"},
		{"ac0", "sr", "ws1", "sm", "ac1", "sr", "quit"},
		{"ws1", "sm", "disc"},
	}
	var out []*txCase
	for _, m := range []string{"p", "k"} {
		for _, ops := range seqs {
			c := &txCase{Mode: m, Users: []string{"rw"}}
			for _, o := range ops {
				c.Steps = append(c.Steps, txStep{Op: o})
			}
			out = append(out, c)
		}
	}
	return out
}

func c19Random(r *kit.Rand, n, maxLen int) []*txCase {
	var out []*txCase
	for i := 0; i < n; i++ {
		l := r.Range(1, maxLen)
		var ops []string
		if r.Chance(1, 2) {
			ops = append(ops, r.Pick([]string{"begin", "start", "ac0"}))
		}
		for len(ops) < l {
			ops = append(ops, r.Pick(c19Alpha))
		}
		end := "quit"
		if r.Chance(1, 4) {
			end = "disc"
		}
		out = append(out, &txCase{Mode: r.Pick([]string{"p", "k"}), Users: []string{r.Pick([]string{"rw", "rw", "rws", "ro"})}, Steps: txSteps(ops, end)})
	}
	return out
}

// c19FaultedCases returns the error/close faulted variants of a fault-free run (one per
// backend call and kind) and the candidate block-faulted variants (statement executions).
func c19FaultedCases(tr *txTrace) (faulted []*txCase, blockCand []*txCase) {
	for _, p := range txFaultPositions(tr) {
		kinds := []string{"err"}
		if p.F.Op != "get" {
			kinds = append(kinds, "close")
		}
		for _, k := range kinds {
			d := tr.Case.clone()
			f := p.F
			f.Kind = k
			d.Fault = &f
			faulted = append(faulted, d)
		}
		if p.F.Op == "exec" && txIsStatement(tr.Case.Steps[p.F.Cmd].Op) && !strings.HasPrefix(strings.ToLower(p.SQL), "savepoint") {
			d := tr.Case.clone()
			f := p.F
			f.Kind = "block"
			d.Fault = &f
			if txKS(d.Mode) {
				d.Mode = "u"
			} else {
				d.Mode = "t"
			}
			blockCand = append(blockCand, d)
		}
	}
	return
}

// c19Scenarios are hand-picked faulted cases that are always run: a statement blocked past
// max_sql_execute_time in every transaction / keep-session context, and a sharded statement
// failing on both slices at once.
func c19Scenarios() []*txCase {
	var out []*txCase
	mk := func(mode string, ops []string, cmd int, kind, slice string) {
		out = append(out, &txCase{Mode: mode, Users: []string{"rw"}, Steps: txSteps(ops, "quit"),
			Fault: &txFault{Kind: kind, Cmd: cmd, Slice: slice, Op: "exec", N: 0}})
	}
	for _, m := range []string{"t", "u"} {
		mk(m, []string{"ws2", "ru"}, 0, "block", "slice-1")
		mk(m, []string{"ws2", "ru"}, 0, "block", "slice-0")
		mk(m, []string{"ru", "ru"}, 0, "block", "slice-0")
		mk(m, []string{"ws2", "ru", "ws2"}, 1, "block", "slice-0")
		mk(m, []string{"begin", "ru", "ru", "commit"}, 1, "block", "slice-0")
		mk(m, []string{"begin", "ws2", "ru", "ws2", "rollback"}, 2, "block", "slice-0")
		mk(m, []string{"begin", "ws2", "ru", "commit"}, 1, "block", "slice-1")
		mk(m, []string{"begin", "ws1", "ru", "ws1", "commit"}, 2, "block", "slice-0")
		mk(m, []string{"ac0", "ws2", "ru", "ac1"}, 2, "block", "slice-0")
	}
	for _, m := range []string{"p", "k"} {
		mk(m, []string{"ws2", "ru"}, 0, "err", "*")
		mk(m, []string{"begin", "ws2", "commit"}, 1, "err", "*")
		mk(m, []string{"begin", "ws2", "rollback"}, 1, "close", "*")
	}
	return out
}

func TestVerif_C19(t *testing.T) {
	rec := kit.Start("C19", "fault_enumeration", "command sequences (exhaustive over a 14-command core alphabet up to a length bound + seeded random ones over 25 commands incl. streamed (chunked / multi-result) answers, users rw/rw-split/read-only, keep-session on/off, ending in COM_QUIT or an abrupt disconnect) x EVERY backend call of the fault-free run x {error, connection closed, statement blocked past max_sql_execute_time}; a faulted run is non-trivial when the addressed call was reached, keyed by (mode, fault kind, call kind, class of the faulted command, role, connections held, in transaction)")
	defer rec.Finish(t)
	rec.Assume("fake pools (rig R2) stand in for connectionPoolImpl: a Recycle of a connection that is not checked out is counted as a second return even though the fake tolerates it")
	rec.Assume("the real pool's Put resets transaction state (ResetConnection), so 'no backend transaction left open' reduces to 'no connection left checked out'")
	rec.Assume("one client command in flight per namespace, so every backend event is attributable to the command in flight")
	env := txStartEnv(t)
	defer env.Close()

	var mu sync.Mutex
	var runs, disturbed, fired, notReached int64
	sampled := 0
	report := func(tr *txTrace, v c19Viol) {
		sig := c19Sig(tr, v)
		min := false
		if !rec.IsKnown(sig) {
			tr, v = c19Shrink(tr, v)
			sig = c19Sig(tr, v)
			min = true
		}
		w := c19Witness{Case: tr.Case, Text: tr.Case.String(), Clause: v.Clause, Detail: v.Detail, Trace: txTraceLines(tr), Minimal: min}
		rec.Violation(sig, fmt.Sprintf("%s: %s [%s]", v.Clause, v.Detail, tr.Case.String()), w)
	}
	judge := func(tr *txTrace) {
		rec.Eval(1)
		mu.Lock()
		runs++
		mu.Unlock()
		if tr.Disturbed != "" {
			mu.Lock()
			disturbed++
			mu.Unlock()
			rec.Count("disturbed."+strings.SplitN(tr.Disturbed, ":", 2)[0], 1)
			return
		}
		for _, st := range tr.Steps {
			for _, e := range st.Events {
				rec.Count("events."+e.Op, 1)
			}
		}
		if tr.Case.Fault != nil {
			if tr.Fired {
				mu.Lock()
				fired++
				mu.Unlock()
				rec.Nontrivial(c19Context(tr))
				rec.Count("fault."+tr.Case.Fault.Kind, 1)
			} else {
				mu.Lock()
				notReached++
				mu.Unlock()
			}
		}
		vs := c19Judge(tr)
		for _, v := range vs {
			report(tr, v)
		}
		mu.Lock()
		doSample := tr.Case.Fault != nil && tr.Fired && sampled < 400
		if doSample {
			sampled++
		}
		mu.Unlock()
		if doSample {
			var cl []string
			for _, v := range vs {
				cl = append(cl, v.Clause)
			}
			rec.Sample(map[string]interface{}{"case": tr.Case.String(), "faulted_call": tr.FiredEv.String(), "violated": cl})
		}
	}

	if p := kit.ReplayPath(); p != "" {
		var w c19Witness
		if err := kit.LoadReplay(p, &w); err != nil || w.Case == nil {
			rec.Inconclusive("cannot load replay file")
			return
		}
		for i := 0; i < 20; i++ {
			tr := env.ws[0].Run(w.Case)
			rec.Eval(1)
			rec.Nontrivial(c19Context(tr))
			rec.Nontrivial("replay")
			vs := c19Judge(tr)
			for _, l := range txTraceLines(tr) {
				fmt.Println(l)
			}
			for _, v := range vs {
				report(tr, v)
			}
			rec.Sample(map[string]interface{}{"case": tr.Case.String(), "violations": len(vs)})
			if len(vs) > 0 {
				break
			}
		}
		return
	}

	seed := kit.Seed()
	var base []*txCase
	if kit.Tier() == "thorough" {
		base = append(base, c19Exhaustive(3, []string{"p", "k"}, []string{"quit"})...)
		base = append(base, c19Exhaustive(2, []string{"p", "k"}, []string{"disc"})...)
		base = append(base, c19Random(kit.SubRand(seed, "C19/random"), 300, 8)...)
	} else {
		ex := c19Exhaustive(3, []string{"p", "k"}, []string{"quit"})
		ex = append(ex, c19Exhaustive(2, []string{"p", "k"}, []string{"disc"})...)
		r := kit.SubRand(seed, "C19/pick")
		for _, i := range r.Perm(len(ex))[:45] {
			base = append(base, ex[i])
		}
		base = append(base, c19Random(kit.SubRand(seed, "C19/random"), 25, 5)...)
	}
	base = append(base, c19Curated()...)
	rec.Set("sequences", len(base))

	// phase 1: fault-free runs
	var traces []*txTrace
	env.txRunAll(base, func(tr *txTrace) {
		judge(tr)
		if tr.Disturbed == "" {
			mu.Lock()
			traces = append(traces, tr)
			mu.Unlock()
		}
	})
	// phase 2: every backend call position x fault kind
	sort.Slice(traces, func(i, j int) bool { return traces[i].Case.String() < traces[j].Case.String() })
	var faulted, blockCand []*txCase
	positions := 0
	for _, tr := range traces {
		positions += len(txFaultPositions(tr))
		f, bc := c19FaultedCases(tr)
		faulted = append(faulted, f...)
		blockCand = append(blockCand, bc...)
	}
	// statement executions blocked past max_sql_execute_time cost wall time (the executor's
	// timeout has to expire): the hand-picked scenarios plus a uniform sample of all candidates
	faulted = append(faulted, c19Scenarios()...)
	br := kit.SubRand(seed, "C19/block")
	nb := kit.N(16, 200)
	if nb > len(blockCand) {
		nb = len(blockCand)
	}
	for _, i := range br.Perm(len(blockCand))[:nb] {
		faulted = append(faulted, blockCand[i])
	}
	rec.Set("block_candidates", len(blockCand))
	rec.Set("fault_positions", positions)
	rec.Set("faulted_runs", len(faulted))
	env.txRunAll(faulted, judge)

	rec.Set("runs", runs)
	rec.Set("runs_fault_reached", fired)
	rec.Set("runs_fault_not_reached", notReached)
	rec.Set("runs_disturbed", disturbed)
	rec.Exhaustive(false)
	if fired == 0 {
		rec.Inconclusive("no injected fault was reached")
	}
	if disturbed*50 > runs {
		rec.Inconclusive(fmt.Sprintf("%d of %d runs were disturbed (watchdogs / spurious timeouts)", disturbed, runs))
	}
}
