package server

// C06 — the fast unsharded path never bypasses sharding.
//
// Ground truth by construction (R6): a statement is a TEMPLATE with table slots; each slot
// is filled with a table whose ROLE the generator knows (unsharded / sharded / linked /
// global, from the namespace's shard rules) and the names are DECORATED in ways that do not
// change which table MySQL/Gaea's grammar resolves (letter case, back-quotes, schema
// qualification, a comment glued to the name, newline/tab separators, a `--` line comment
// before the name). A case "references a sharded table" when a slot with role != unsharded
// resolves (qualified, or session db set); this is CONFIRMED by the full planner
// (plan.NewChecker on the parsed AST, and plan.BuildPlan does not yield an UnshardPlan) —
// a disagreement is a generator problem (counted, never a violation).
// Oracle (white-box): the real SessionExecutor.preBuildUnshardPlan(reqCtx, db, sql) of an
// executor bound to the rig's Manager/namespace must not return (plan, true) for it.

import (
	"fmt"
	"sort"
	"strings"
	"testing"

	"github.com/XiaoMi/Gaea/models"
	"github.com/XiaoMi/Gaea/parser"
	"github.com/XiaoMi/Gaea/proxy/plan"
	"github.com/XiaoMi/Gaea/util"
	kit "github.com/XiaoMi/Gaea/verifkit"
)

type c06Tmpl struct {
	Name  string
	KW    string // statement keyword: its first template is the default template of the keyword
	Text  string // $1 $2 $3 = table slots
	Slots int
}

var c06Tmpls = []c06Tmpl{
	{"sel_single", "select", "select * from $1 where id = 1", 1},
	{"sel_alias", "select", "select a.id from $1 a where a.id = 1", 1},
	{"sel_as_alias", "select", "select a.id from $1 as a where a.id = 1", 1},
	{"sel_nowhere", "select", "select id from $1", 1},
	{"sel_comma", "select", "select a.id from $1 a, $2 b where a.id = b.id", 2},
	{"sel_comma_tight", "select", "select a.id from $1 a,$2 b where a.id = b.id", 2},
	{"sel_join", "select", "select a.id from $1 a join $2 b on a.id = b.id", 2},
	{"sel_inner_join", "select", "select a.id from $1 a inner join $2 b on a.id = b.id", 2},
	{"sel_left_join", "select", "select a.id from $1 a left join $2 b on a.id = b.id", 2},
	{"sel_straight_join", "select", "select a.id from $1 a straight_join $2 b on a.id = b.id", 2},
	{"sel_join3", "select", "select a.id from $1 a join $2 b on a.id = b.id join $3 c on b.id = c.id", 3},
	{"sel_paren_join", "select", "select a.id from ($1 a join $2 b on a.id = b.id)", 2},
	{"sel_sub_from", "select", "select x.id from (select id from $1) x", 1},
	{"sel_sub_from_sp", "select", "select x.id from ( select id from $1 ) x", 1},
	{"sel_sub_where", "select", "select id from $1 where id in (select id from $2)", 2},
	{"sel_sub_where_sp", "select", "select id from $1 where id in ( select id from $2 )", 2},
	{"sel_exists", "select", "select a.id from $1 a where exists (select 1 from $2 b where b.id = a.id)", 2},
	{"sel_scalar_sub", "select", "select (select count(*) from $1 ) from $2", 2},
	{"sel_union", "select", "select id from $1 union select id from $2", 2},
	{"sel_union_all", "select", "select id from $1 union all select id from $2", 2},
	{"del_single", "delete", "delete from $1 where id = 1", 1},
	{"del_alias", "delete", "delete a from $1 a where a.id = 1", 1},
	{"del_multi", "delete", "delete a from $1 a join $2 b on a.id = b.id where b.id = 1", 2},
	{"del_sub", "delete", "delete from $1 where id in (select id from $2)", 2},
	{"ins_values", "insert", "insert into $1 (id, c) values (1, 'x')", 1},
	{"ins_tight_paren", "insert", "insert into $1(id, c) values (1, 'x')", 1},
	{"ins_nointo", "insert", "insert $1 (id, c) values (1, 'x')", 1},
	{"ins_ignore", "insert", "insert ignore into $1 (id, c) values (1, 'x')", 1},
	{"ins_set", "insert", "insert into $1 set id = 1, c = 'x'", 1},
	{"ins_dup", "insert", "insert into $1 (id, c) values (1, 'x') on duplicate key update c = 'y'", 1},
	{"ins_select", "insert", "insert into $1 (id, c) select id, c from $2", 2},
	{"rep_values", "replace", "replace into $1 (id, c) values (1, 'x')", 1},
	{"rep_nointo", "replace", "replace $1 (id, c) values (1, 'x')", 1},
	{"rep_select", "replace", "replace into $1 (id, c) select id, c from $2", 2},
	{"upd_single", "update", "update $1 set c = 'x' where id = 1", 1},
	{"upd_alias", "update", "update $1 a set a.c = 'x' where a.id = 1", 1},
	{"upd_as_alias", "update", "update $1 as a set a.c = 'x' where a.id = 1", 1},
	{"upd_multi", "update", "update $1 a, $2 b set a.c = b.c where a.id = b.id", 2},
	{"upd_join", "update", "update $1 a join $2 b on a.id = b.id set a.c = b.c", 2},
	{"upd_sub", "update", "update $1 set c = 'x' where id in (select id from $2)", 2},
	{"upd_low_priority", "update", "update low_priority $1 set c = 'x' where id = 1", 1},
	// multi-line statements: the table is referenced on a continuation line, and that physical
	// line starts with `--`, `#` or `/*` WITHOUT being a comment (inside a string, or `--1`
	// arithmetic); LF and CRLF line ends
	{"sel_multiline", "select", "select id\nfrom $1\nwhere id in (select id\nfrom $2 )", 2},
	{"sel_multiline_crlf", "select", "select id\r\nfrom $1\r\nwhere id in (select id\r\nfrom $2 )", 2},
	{"sel_str_dashline1", "select", "select 'see\n-- regards', id from $1 where id = 1", 1},
	{"sel_str_dashline", "select", "select id from $1 where c = 'see\n-- regards' and id in (select id from $2 )", 2},
	{"sel_str_dashline_crlf", "select", "select id from $1 where c = 'see\r\n-- regards' and id in (select id from $2 )", 2},
	{"sel_minusminus_line", "select", "select id from $1 where id = 5\n--1 or id in (select id from $2 )", 2},
	{"sel_minusminus_crlf", "select", "select id from $1 where id = 5\r\n--1 or id in (select id from $2 )", 2},
	{"sel_str_hashline", "select", "select id from $1 where c = 'see\n# regards' and id in (select id from $2 )", 2},
	{"sel_str_blockline", "select", "select id from $1 where c = 'see\n/* regards' and id in (select id from $2 )", 2},
	{"del_str_dashline", "delete", "delete from $1 where c = 'see\n-- regards' and id in (select id from $2 )", 2},
	{"ins_str_dashline", "insert", "insert into $1 (id, c) select id, 'see\n-- regards' from $2", 2},
	{"rep_str_dashline", "replace", "replace into $1 (id, c) select id, 'see\n-- regards' from $2", 2},
	{"upd_str_dashline", "update", "update $1 set c = 'see\n-- regards' where id in (select id from $2 )", 2},
	{"upd_minusminus_line", "update", "update $1 set c = 5\n--1 where id in (select id from $2 )", 2},
}

var c06TmplIdx = func() map[string]int {
	m := map[string]int{}
	for i, t := range c06Tmpls {
		m[t.Name] = i
	}
	return m
}()

func c06DefaultTmpl(kw string) c06Tmpl {
	for _, t := range c06Tmpls {
		if t.KW == kw {
			return t
		}
	}
	return c06Tmpls[0]
}

var c06Roles = []string{"U", "S", "L", "G", "N"} // unsharded, sharded, linked, global, sharded with a non-ASCII (multi-byte UTF-8) name

const c06NonASCIITable = "tbl_订单"

func c06TableName(role string, slot int) string {
	switch role {
	case "S":
		return "tbl_shard"
	case "L":
		return "tbl_link"
	case "G":
		return "tbl_glob"
	case "N":
		return c06NonASCIITable
	}
	return fmt.Sprintf("t%d", slot+2)
}

var c06Dims = []struct {
	Name string
	Vals []string
}{
	{"case", []string{"lower", "upper", "mixed"}},
	{"quote", []string{"none", "backquote"}},
	{"qualify", []string{"none", "db", "DB"}},
	{"glue", []string{"none", "comment_before", "comment_after"}},
	{"sep", []string{"space", "nl", "tab"}},
	{"linecomment", []string{"none", "before_name"}},
	{"session", []string{"set", "unset"}},
	{"lead", []string{"none", "dashline", "block"}}, // a comment line / block comment in front of the statement
}

func c06Default(dim string) string {
	for _, d := range c06Dims {
		if d.Name == dim {
			return d.Vals[0]
		}
	}
	return ""
}

type c06Case struct {
	Tmpl  string            `json:"template"`
	Roles []string          `json:"roles"`
	D     map[string]string `json:"dims"`
	SQL   string            `json:"sql,omitempty"`
}

func (c c06Case) get(dim string) string {
	if v, ok := c.D[dim]; ok {
		return v
	}
	return c06Default(dim)
}

func (c c06Case) with(dim, val string) c06Case {
	d := map[string]string{}
	for k, v := range c.D {
		d[k] = v
	}
	if val == c06Default(dim) {
		delete(d, dim)
	} else {
		d[dim] = val
	}
	return c06Case{Tmpl: c.Tmpl, Roles: c.Roles, D: d}
}

func (c c06Case) withRole(i int, role string) c06Case {
	r := append([]string{}, c.Roles...)
	r[i] = role
	return c06Case{Tmpl: c.Tmpl, Roles: r, D: c.D}
}

func (c c06Case) decoKey() string {
	var ks []string
	for k, v := range c.D {
		ks = append(ks, k+"="+v)
	}
	sort.Strings(ks)
	if len(ks) == 0 {
		return "-"
	}
	return strings.Join(ks, ",")
}

func (c c06Case) key() string {
	return c.Tmpl + "|" + strings.Join(c.Roles, "") + "|" + c.decoKey()
}

func (c c06Case) sessionDB() string {
	if c.get("session") == "unset" {
		return ""
	}
	return "db"
}

// constructedSharded: by construction the statement references a table with a shard rule
// through a name that resolves.
func (c c06Case) constructedSharded() bool {
	if c.get("session") == "unset" && c.get("qualify") == "none" {
		return false
	}
	for _, r := range c.Roles {
		if r != "U" {
			return true
		}
	}
	return false
}

func (c c06Case) name(slot int) string {
	n := c06TableName(c.Roles[slot], slot)
	switch c.get("case") {
	case "upper":
		n = strings.ToUpper(n)
	case "mixed":
		n = rwCaseWord(n, 2)
	}
	q := ""
	if c.get("quote") == "backquote" {
		q = "`"
	}
	n = q + n + q
	switch c.get("qualify") {
	case "db":
		n = q + "db" + q + "." + n
	case "DB":
		n = q + "DB" + q + "." + n
	}
	switch c.get("glue") {
	case "comment_before":
		n = "/**/" + n
	case "comment_after":
		n = n + "/**/"
	}
	if c.get("linecomment") == "before_name" {
		n = "-- c\n" + n
	}
	return n
}

func (c c06Case) sql() string {
	t := c06Tmpls[c06TmplIdx[c.Tmpl]]
	s := t.Text
	sep := map[string]string{"space": " ", "nl": "\n", "tab": "\t"}[c.get("sep")]
	if sep != " " {
		s = strings.Replace(s, " ", sep, -1)
	}
	for i := t.Slots - 1; i >= 0; i-- {
		s = strings.Replace(s, fmt.Sprintf("$%d", i+1), c.name(i), -1)
	}
	switch c.get("lead") {
	case "dashline":
		s = "-- trace\n" + s
	case "block":
		s = "/* trace */ " + s
	}
	return s
}

type c06Harness struct {
	r  *rig
	se *SessionExecutor
	p  *parser.Parser
}

func c06NewHarness(t *testing.T) *c06Harness {
	ns := rwNamespace("ns06", true)
	ns.ShardRules = append(ns.ShardRules, &models.Shard{DB: "db", Table: c06NonASCIITable, Type: "mod", Key: "id", Locations: []int{2, 2}, Slices: []string{"slice-0", "slice-1"}})
	r := rigStart(t, rigOpts{Namespaces: rwNSList(ns), FakePools: true})
	se := newSessionExecutor(r.m)
	se.namespace = "ns06"
	se.user = "ns06_rw"
	se.SetContextNamespace()
	if se.GetNamespace() == nil {
		r.Close()
		t.Fatalf("C06: namespace not found")
	}
	return &c06Harness{r: r, se: se, p: parser.New()}
}

type c06Obs struct {
	Fast      bool   // preBuildUnshardPlan returned (plan, true)
	Parsed    bool   // Gaea's parser accepts the text
	Confirmed bool   // full planner: Checker.IsShard and BuildPlan did not produce an UnshardPlan
	Planner   string // what BuildPlan produced
}

func (h *c06Harness) observe(c c06Case) c06Obs {
	sql := c.sql()
	db := c.sessionDB()
	var o c06Obs
	h.se.db = db
	reqCtx := util.NewRequestContext()
	reqCtx.SetStmtType(parser.Preview(sql))
	_, o.Fast = h.se.preBuildUnshardPlan(reqCtx, db, sql)

	n, err := h.p.ParseOneStmt(sql, "", "")
	if err != nil {
		o.Planner = "parse error: " + err.Error()
		return o
	}
	o.Parsed = true
	ns := h.se.GetNamespace()
	ck := plan.NewChecker(db, ns.GetRouter())
	n.Accept(ck)
	if ck.IsDatabaseInvalid() {
		o.Planner = "no database selected"
		return o
	}
	if !ck.IsShard() {
		o.Planner = "checker: unsharded"
		return o
	}
	// BuildPlan mutates the AST: parse again
	n2, err := h.p.ParseOneStmt(sql, "", "")
	if err != nil {
		return o
	}
	var p plan.Plan
	func() {
		// the shard planner panics on some shapes (handleQuery recovers and answers an error)
		defer func() {
			if e := recover(); e != nil {
				err = fmt.Errorf("panic: %v", e)
			}
		}()
		p, err = plan.BuildPlan(n2, ns.GetPhysicalDBs(), db, sql, ns.GetRouter(), ns.GetSequences(), nil)
	}()
	if err != nil {
		o.Confirmed = true
		o.Planner = "sharded (shard planner refuses: " + err.Error() + ")"
		return o
	}
	if _, isUnshard := p.(*plan.UnshardPlan); isUnshard {
		o.Planner = "BuildPlan: UnshardPlan although checker says sharded"
		return o
	}
	o.Confirmed = true
	o.Planner = fmt.Sprintf("sharded (%T)", p)
	return o
}

func TestVerif_C06(t *testing.T) {
	rec := kit.Start("C06", "exploration",
		fmt.Sprintf("case = template (%d: single table, alias, comma join, JOIN variants, sub-queries, UNION, multi-table DELETE/UPDATE, INSERT/REPLACE with and without INTO, INSERT..SELECT) x role vector over {unsharded, sharded, linked, global, sharded with a multi-byte UTF-8 name} for every table slot "+
			"x name decorations {case (3), back-quotes (2), schema qualification (3), glued comment (3), separator (3), line comment before the name (2)} x session db {set, unset} x leading comment {none, `-- line`, block}; templates include multi-line statements (LF/CRLF) whose continuation line starts with --, # or /* without being a comment; thorough enumerates the whole product; "+
			"non-trivial = references a sharded/linked/global table by construction AND confirmed by plan.NewChecker/BuildPlan (key = template|roles|decorations)", len(c06Tmpls)))
	defer rec.Finish(t)
	rec.Assume("table names resolve case-insensitively, as Gaea's parser-based analysis does (property text); decorations are semantically neutral by construction")
	rec.Assume("cases that the full planner does not classify as sharded (parse error, 'no database selected') are outside the claim and only counted")

	h := c06NewHarness(t)
	defer h.r.Close()

	fails := func(c c06Case) (bool, c06Obs) {
		if !c.constructedSharded() {
			return false, c06Obs{}
		}
		o := h.observe(c)
		return o.Confirmed && o.Fast, o
	}

	shrink := func(c c06Case) c06Case {
		cur := c
		for changed := true; changed; {
			changed = false
			var cands []c06Case
			for i, r := range cur.Roles {
				if r != "U" {
					cands = append(cands, cur.withRole(i, "U"))
				}
			}
			for i, r := range cur.Roles {
				if r == "L" || r == "G" || r == "N" {
					cands = append(cands, cur.withRole(i, "S"))
				}
			}
			var names []string
			for k := range cur.D {
				names = append(names, k)
			}
			sort.Strings(names)
			for _, dim := range names {
				cands = append(cands, cur.with(dim, c06Default(dim)))
			}
			// default template of the keyword when exactly one slot is sharded
			t := c06Tmpls[c06TmplIdx[cur.Tmpl]]
			if dt := c06DefaultTmpl(t.KW); dt.Name != t.Name {
				var non []string
				for _, r := range cur.Roles {
					if r != "U" {
						non = append(non, r)
					}
				}
				if len(non) == 1 {
					cands = append(cands, c06Case{Tmpl: dt.Name, Roles: non, D: cur.D})
				}
			}
			for _, d := range cands {
				if f, _ := fails(d); f {
					cur = d
					changed = true
					break
				}
			}
		}
		return cur
	}

	nSeen := 0
	unconfirmed := map[string]int{}
	one := func(c c06Case) {
		rec.Eval(1)
		if !c.constructedSharded() {
			// control: no claim; shows that the fast path is exercised
			o := h.observe(c)
			if o.Fast {
				rec.Count("control.fastpath_true", 1)
			} else {
				rec.Count("control.fastpath_false", 1)
			}
			return
		}
		f, o := fails(c)
		if !o.Confirmed {
			rec.Count("constructed_sharded.unconfirmed", 1)
			if !o.Parsed {
				rec.Count("constructed_sharded.unparsed", 1)
			}
			if len(unconfirmed) < 12 {
				unconfirmed[c.Tmpl+": "+o.Planner]++
			}
			return
		}
		rec.Count("constructed_sharded.confirmed", 1)
		rec.Nontrivial(c.key())
		if o.Fast {
			rec.Count("fastpath.bypass", 1)
		} else {
			rec.Count("fastpath.declined", 1)
		}
		if nSeen%4001 == 0 && nSeen < 4001*6 {
			rec.Sample(map[string]interface{}{"case": c.key(), "sql": c.sql(), "session_db": c.sessionDB(), "planner": o.Planner, "fastpath_took_it": o.Fast})
		}
		nSeen++
		if !f {
			return
		}
		min := shrink(c)
		_, mo := fails(min)
		min.SQL = min.sql()
		rec.Violation(fmt.Sprintf("C06/fastpath-bypass/%s/%s/%s", min.Tmpl, strings.Join(min.Roles, ""), min.decoKey()),
			fmt.Sprintf("preBuildUnshardPlan(db=%q, %q) = (plan, true): forwarded unrewritten to the default slice although the full planner says %s", min.sessionDB(), min.SQL, mo.Planner), min)
	}

	if p := kit.ReplayPath(); p != "" {
		var c c06Case
		if err := kit.LoadReplay(p, &c); err != nil {
			rec.Inconclusive("cannot load replay: " + err.Error())
			return
		}
		if c.D == nil {
			c.D = map[string]string{}
		}
		c.SQL = ""
		f, o := fails(c)
		rec.Eval(1)
		rec.Nontrivial(c.key())
		rec.Nontrivial(c.key() + "#replay")
		rec.Sample(c)
		fmt.Printf("REPLAY %s sql=%q fast=%v confirmed=%v planner=%s\n", c.key(), c.sql(), o.Fast, o.Confirmed, o.Planner)
		if f {
			rec.Violation(fmt.Sprintf("C06/fastpath-bypass/%s/%s/%s", c.Tmpl, strings.Join(c.Roles, ""), c.decoKey()), "replayed: fast path took a sharded statement: "+c.sql(), c)
		}
		return
	}

	roleVectors := func(n int) [][]string {
		out := [][]string{{}}
		for i := 0; i < n; i++ {
			var next [][]string
			for _, v := range out {
				for _, r := range c06Roles {
					next = append(next, append(append([]string{}, v...), r))
				}
			}
			out = next
		}
		return out
	}

	if kit.Tier() == "thorough" {
		for _, t := range c06Tmpls {
			for _, rv := range roleVectors(t.Slots) {
				var walk func(i int, c c06Case)
				walk = func(i int, c c06Case) {
					if i == len(c06Dims) {
						one(c)
						return
					}
					for _, v := range c06Dims[i].Vals {
						walk(i+1, c.with(c06Dims[i].Name, v))
					}
				}
				walk(0, c06Case{Tmpl: t.Name, Roles: rv, D: map[string]string{}})
			}
		}
		rec.Exhaustive(true)
	} else {
		rnd := kit.SubRand(kit.Seed(), "C06/cases")
		// every template x role vector undecorated, then sampled decorations
		for _, t := range c06Tmpls {
			for _, rv := range roleVectors(t.Slots) {
				one(c06Case{Tmpl: t.Name, Roles: rv, D: map[string]string{}})
			}
		}
		for i := 0; i < 5000; i++ {
			t := c06Tmpls[rnd.Intn(len(c06Tmpls))]
			c := c06Case{Tmpl: t.Name, D: map[string]string{}}
			for s := 0; s < t.Slots; s++ {
				c.Roles = append(c.Roles, rnd.Pick(c06Roles))
			}
			for _, d := range c06Dims {
				if rnd.Chance(1, 3) {
					c = c.with(d.Name, rnd.Pick(d.Vals))
				}
			}
			one(c)
		}
	}
	rec.Set("unconfirmed_examples", unconfirmed)
	if rec.CounterValue("constructed_sharded.confirmed") == 0 {
		rec.Inconclusive("the full planner confirmed no constructed-sharded statement")
	}
	if rec.CounterValue("control.fastpath_true") == 0 {
		rec.Inconclusive("the fast path never accepted an all-unsharded statement: pre-check not exercised")
	}
	if rec.CounterValue("fastpath.declined") == 0 {
		rec.Inconclusive("the fast path never declined a sharded statement")
	}
}
