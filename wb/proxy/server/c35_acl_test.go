package server

// C35 — only allow-listed client addresses can connect.
// Monitor: allow-lists are assembled from numeric (128-bit value, prefix length, written
// form) triples the generator knows; the real parseAllowIps / NewNamespace path builds the
// namespace's list from the rendered texts; Namespace.IsClientIPAllowed is asked about
// clients placed at the first/last/just-below/just-above/inside/far positions of every
// block, each IPv4 client in its three presentations (4-byte, dotted text, ::ffff: text), and
// again through the real Session.IsAllowConnect over a fake net.Conn whose RemoteAddr is a
// *net.TCPAddr (IPv4, IPv4-mapped, IPv6, no IP; ports 1/3306/65535).
// Oracle: an independent prefix comparison on 128-bit values (IPv4 normalised to the
// ::ffff:0:0/96 range), plus presentation invariance for IPv4 clients.

import (
	"fmt"
	"io"
	"net"
	"sort"
	"strings"
	"testing"
	"time"

	"github.com/XiaoMi/Gaea/models"
	"github.com/XiaoMi/Gaea/mysql"
	kit "github.com/XiaoMi/Gaea/verifkit"
)

const c35MappedLoPrefix = uint64(0xffff) << 32

type c35Entry struct {
	Form string `json:"form"` // v4addr v4cidr v6addr v6cidr mapaddr mapcidr blank
	Hi   uint64 `json:"hi"`   // value as written, IPv4 forms already mapped into ::ffff:0:0/96
	Lo   uint64 `json:"lo"`
	Plen int    `json:"plen"` // prefix length in the 128-bit space (IPv4 /p is 96+p); 128 for single addresses
	Text string `json:"text"` // rendered entry, with surrounding blanks
}

type c35Client struct {
	Hi  uint64 `json:"hi"`
	Lo  uint64 `json:"lo"`
	Nil bool   `json:"nil,omitempty"` // the address the session could not parse (net.IP(nil))
	Pos string `json:"pos"`           // position class relative to the entry it was derived from
	Of  int    `json:"of"`            // index of that entry (-1: none)
}

type c35Case struct {
	Entries []c35Entry `json:"entries"`
	Client  c35Client  `json:"client"`
	Real    bool       `json:"real_newnamespace"`
}

func c35IsV4(hi, lo uint64) bool { return hi == 0 && lo>>32 == 0xffff }

func c35Mask(plen int) (uint64, uint64) {
	switch {
	case plen <= 0:
		return 0, 0
	case plen >= 128:
		return ^uint64(0), ^uint64(0)
	case plen == 64:
		return ^uint64(0), 0
	case plen < 64:
		return ^uint64(0) << uint(64-plen), 0
	}
	return ^uint64(0), ^uint64(0) << uint(128-plen)
}

// c35Ref is the independent oracle: 1 allowed, 0 refused, -1 not specified by the property
// (only an IPv6-syntax block shorter than /96 covers the IPv4 client's mapped value).
func c35Ref(entries []c35Entry, cl c35Client) int {
	n := 0
	unknown := false
	for _, e := range entries {
		if e.Form == "blank" {
			continue
		}
		n++
		if cl.Nil {
			continue
		}
		mh, ml := c35Mask(e.Plen)
		if cl.Hi&mh != e.Hi&mh || cl.Lo&ml != e.Lo&ml {
			continue
		}
		if c35IsV4(cl.Hi, cl.Lo) && (e.Form == "v6cidr" || e.Form == "mapcidr") && e.Plen < 96 {
			unknown = true
			continue
		}
		return 1
	}
	if n == 0 {
		return 1
	}
	if unknown {
		return -1
	}
	return 0
}

func c35Dotted(v uint32) string {
	return fmt.Sprintf("%d.%d.%d.%d", byte(v>>24), byte(v>>16), byte(v>>8), byte(v))
}

func c35Groups(hi, lo uint64) [8]uint16 {
	var g [8]uint16
	for i := 0; i < 4; i++ {
		g[i] = uint16(hi >> uint(48-16*i))
		g[4+i] = uint16(lo >> uint(48-16*i))
	}
	return g
}

// c35V6Text renders a 128-bit value; style 0 full, 1 full upper-case, 2 longest zero run compressed.
func c35V6Text(hi, lo uint64, style int) string {
	g := c35Groups(hi, lo)
	parts := make([]string, 8)
	for i, x := range g {
		if style == 1 {
			parts[i] = fmt.Sprintf("%X", x)
		} else {
			parts[i] = fmt.Sprintf("%x", x)
		}
	}
	if style != 2 {
		return strings.Join(parts, ":")
	}
	bestAt, bestLen := -1, 0
	for i := 0; i < 8; {
		if g[i] != 0 {
			i++
			continue
		}
		j := i
		for j < 8 && g[j] == 0 {
			j++
		}
		if j-i > bestLen {
			bestAt, bestLen = i, j-i
		}
		i = j
	}
	if bestLen < 2 {
		return strings.Join(parts, ":")
	}
	return strings.Join(parts[:bestAt], ":") + "::" + strings.Join(parts[bestAt+bestLen:], ":")
}

func c35MappedText(v uint32, style int) string {
	switch style {
	case 0:
		return "::ffff:" + c35Dotted(v)
	case 1:
		return "0:0:0:0:0:FFFF:" + c35Dotted(v)
	}
	return fmt.Sprintf("::ffff:%x:%x", uint16(v>>16), uint16(v))
}

var c35Pads = []string{"", "", "", " ", "  ", "\t", " \t "}

func c35Pad(r *kit.Rand, s string) string {
	return c35Pads[r.Intn(len(c35Pads))] + s + c35Pads[r.Intn(len(c35Pads))]
}

func c35RandV4(r *kit.Rand) uint32 {
	switch r.Intn(8) {
	case 0:
		return 0
	case 1:
		return 0xffffffff
	case 2:
		return 0x7f000001
	case 3:
		return 0x0a000000 | uint32(r.Intn(1<<24))
	case 4:
		return uint32(r.Intn(256))<<24 | 0x00ffffff
	}
	return uint32(r.Uint64())
}

func c35RandV6(r *kit.Rand) (uint64, uint64) {
	switch r.Intn(8) {
	case 0:
		return 0, 1 // ::1
	case 1:
		return 0x20010db800000000, r.Uint64()
	case 2:
		return 0xfe80000000000000, r.Uint64()
	case 3:
		return ^uint64(0), ^uint64(0)
	case 4:
		return 0, uint64(uint32(r.Uint64())) // IPv4-compatible (NOT mapped): ::a.b.c.d
	case 5:
		return 0, 0
	}
	hi, lo := r.Uint64(), r.Uint64()
	if c35IsV4(hi, lo) {
		hi |= 1 << 61
	}
	return hi, lo
}

func c35GenEntry(r *kit.Rand, plenPick int) c35Entry {
	form := []string{"v4addr", "v4cidr", "v4cidr", "v6addr", "v6cidr", "v6cidr", "mapaddr", "mapcidr", "blank"}[r.Intn(9)]
	e := c35Entry{Form: form}
	switch form {
	case "blank":
		e.Text = c35Pads[r.Intn(len(c35Pads))]
		e.Plen = 128
	case "v4addr":
		v := c35RandV4(r)
		e.Hi, e.Lo, e.Plen = 0, c35MappedLoPrefix|uint64(v), 128
		e.Text = c35Pad(r, c35Dotted(v))
	case "v4cidr":
		v := c35RandV4(r)
		p := plenPick % 33
		e.Hi, e.Lo, e.Plen = 0, c35MappedLoPrefix|uint64(v), 96+p
		e.Text = c35Pad(r, fmt.Sprintf("%s/%d", c35Dotted(v), p))
	case "v6addr":
		e.Hi, e.Lo = c35RandV6(r)
		e.Plen = 128
		e.Text = c35Pad(r, c35V6Text(e.Hi, e.Lo, r.Intn(3)))
	case "v6cidr":
		e.Hi, e.Lo = c35RandV6(r)
		e.Plen = plenPick % 129
		e.Text = c35Pad(r, fmt.Sprintf("%s/%d", c35V6Text(e.Hi, e.Lo, r.Intn(3)), e.Plen))
	case "mapaddr":
		v := c35RandV4(r)
		e.Hi, e.Lo, e.Plen = 0, c35MappedLoPrefix|uint64(v), 128
		e.Text = c35Pad(r, c35MappedText(v, r.Intn(3)))
	case "mapcidr":
		v := c35RandV4(r)
		p := 96 + plenPick%33
		if r.Chance(1, 8) {
			p = plenPick % 96 // shorter than /96: covers more than the IPv4 range (unspecified for IPv4 clients)
		}
		e.Hi, e.Lo, e.Plen = 0, c35MappedLoPrefix|uint64(v), p
		e.Text = c35Pad(r, fmt.Sprintf("%s/%d", c35MappedText(v, r.Intn(3)), p))
	}
	return e
}

func c35Add(hi, lo uint64, d int) (uint64, uint64, bool) {
	if d > 0 {
		nlo := lo + 1
		nhi := hi
		if nlo == 0 {
			nhi++
			if nhi == 0 {
				return 0, 0, false
			}
		}
		return nhi, nlo, true
	}
	if lo == 0 {
		if hi == 0 {
			return 0, 0, false
		}
		return hi - 1, ^uint64(0), true
	}
	return hi, lo - 1, true
}

// c35Clients derives the probe addresses of one list.
func c35Clients(r *kit.Rand, entries []c35Entry) []c35Client {
	var out []c35Client
	for i, e := range entries {
		if e.Form == "blank" {
			continue
		}
		mh, ml := c35Mask(e.Plen)
		fh, fl := e.Hi&mh, e.Lo&ml
		lh, ll := fh|^mh, fl|^ml
		out = append(out, c35Client{Hi: e.Hi, Lo: e.Lo, Pos: "self", Of: i},
			c35Client{Hi: fh, Lo: fl, Pos: "first", Of: i}, c35Client{Hi: lh, Lo: ll, Pos: "last", Of: i})
		if h, l, ok := c35Add(fh, fl, -1); ok {
			out = append(out, c35Client{Hi: h, Lo: l, Pos: "below", Of: i})
		}
		if h, l, ok := c35Add(lh, ll, +1); ok {
			out = append(out, c35Client{Hi: h, Lo: l, Pos: "above", Of: i})
		}
		rh, rl := r.Uint64(), r.Uint64()
		out = append(out, c35Client{Hi: fh | rh&^mh, Lo: fl | rl&^ml, Pos: "inside", Of: i})
		if e.Plen > 0 && e.Plen <= 128 {
			// flip exactly the last prefix bit: the sibling block
			bit := e.Plen - 1
			sh, sl := fh|rh&^mh, fl|rl&^ml
			if bit < 64 {
				sh ^= 1 << uint(63-bit)
			} else {
				sl ^= 1 << uint(127-bit)
			}
			out = append(out, c35Client{Hi: sh, Lo: sl, Pos: "sibling", Of: i})
		}
		if c35IsV4(e.Hi, e.Lo) {
			// same low 32 bits outside the mapped range: IPv4-compatible and a global prefix
			out = append(out, c35Client{Hi: 0, Lo: e.Lo & 0xffffffff, Pos: "compat", Of: i},
				c35Client{Hi: 0x20010db800000000, Lo: e.Lo, Pos: "v6-same-low", Of: i})
		}
	}
	v := c35RandV4(r)
	out = append(out, c35Client{Hi: 0, Lo: c35MappedLoPrefix | uint64(v), Pos: "far-v4", Of: -1})
	h, l := c35RandV6(r)
	out = append(out, c35Client{Hi: h, Lo: l, Pos: "far-v6", Of: -1})
	out = append(out, c35Client{Nil: true, Pos: "unparsed", Of: -1})
	return out
}

// c35Presentations returns the net.IP values a session could hand to IsClientIPAllowed.
func c35Presentations(cl c35Client) (names []string, ips []net.IP, perr string) {
	if cl.Nil {
		return []string{"nil"}, []net.IP{nil}, ""
	}
	if c35IsV4(cl.Hi, cl.Lo) {
		v := uint32(cl.Lo)
		t1, t2 := c35Dotted(v), c35MappedText(v, 0)
		p1, p2 := net.ParseIP(t1), net.ParseIP(t2)
		if p1 == nil || p2 == nil {
			return nil, nil, "generator rendered an unparsable client " + t1 + " / " + t2
		}
		return []string{"v4bytes", "v4text", "maptext"}, []net.IP{{byte(v >> 24), byte(v >> 16), byte(v >> 8), byte(v)}, p1, p2}, ""
	}
	t := c35V6Text(cl.Hi, cl.Lo, int(cl.Lo%3))
	p := net.ParseIP(t)
	if p == nil {
		return nil, nil, "generator rendered an unparsable client " + t
	}
	return []string{"v6text"}, []net.IP{p}, ""
}

func c35Texts(entries []c35Entry) []string {
	out := make([]string, len(entries))
	for i, e := range entries {
		out[i] = e.Text
	}
	return out
}

// c35Build builds the namespace allow-list through the real code.
func c35Build(entries []c35Entry, real bool) (*Namespace, func(), error) {
	if real {
		cfg := &models.Namespace{Name: "c35", AllowedIP: c35Texts(entries), DefaultSlice: "slice-0",
			Slices: []*models.Slice{{Name: "slice-0"}}}
		ns, err := NewNamespace(cfg, "")
		if err != nil {
			return nil, func() {}, err
		}
		return ns, func() { ns.Close(false) }, nil
	}
	ips, err := parseAllowIps(c35Texts(entries))
	if err != nil {
		return nil, func() {}, err
	}
	return &Namespace{allowips: ips}, func() {}, nil
}

// ---- the session's entry point: a real Session over a fake net.Conn whose RemoteAddr is a
// *net.TCPAddr chosen by the monitor; IsAllowConnect does its own host/port splitting.

type c35FakeConn struct{ addr net.Addr }

func (c *c35FakeConn) Read(b []byte) (int, error)         { return 0, io.EOF }
func (c *c35FakeConn) Write(b []byte) (int, error)        { return len(b), nil }
func (c *c35FakeConn) Close() error                       { return nil }
func (c *c35FakeConn) LocalAddr() net.Addr                { return &net.TCPAddr{IP: net.IPv4(127, 0, 0, 1), Port: 13306} }
func (c *c35FakeConn) RemoteAddr() net.Addr               { return c.addr }
func (c *c35FakeConn) SetDeadline(t time.Time) error      { return nil }
func (c *c35FakeConn) SetReadDeadline(t time.Time) error  { return nil }
func (c *c35FakeConn) SetWriteDeadline(t time.Time) error { return nil }

type c35SessionRig struct {
	conn *c35FakeConn
	nm   *NamespaceManager
	sess *Session
}

func c35NewSessionRig() *c35SessionRig {
	m := NewManager()
	nm := NewNamespaceManager()
	cur, _, _ := m.switchIndex.Get()
	m.namespaces[cur] = nm
	conn := &c35FakeConn{addr: &net.TCPAddr{}}
	sess := &Session{c: NewClientConn(mysql.NewConn(conn), m), manager: m, namespace: "c35"}
	sess.closed.Store(false)
	return &c35SessionRig{conn: conn, nm: nm, sess: sess}
}

var c35Rig *c35SessionRig

// c35SessionAddrs: the TCP peer addresses under which the client can reach the listener.
func c35SessionAddrs(cl c35Client) (names []string, addrs []*net.TCPAddr) {
	port := []int{1, 3306, 65535}[int(cl.Lo%3)]
	if cl.Nil {
		return []string{"session/no-ip"}, []*net.TCPAddr{{Port: port}}
	}
	ip16 := make(net.IP, 16)
	for i := 0; i < 8; i++ {
		ip16[i] = byte(cl.Hi >> uint(56-8*i))
		ip16[8+i] = byte(cl.Lo >> uint(56-8*i))
	}
	if c35IsV4(cl.Hi, cl.Lo) {
		return []string{"session/tcp4", "session/tcp4-mapped"}, []*net.TCPAddr{{IP: net.IP{ip16[12], ip16[13], ip16[14], ip16[15]}, Port: port}, {IP: ip16, Port: port}}
	}
	return []string{"session/tcp6"}, []*net.TCPAddr{{IP: ip16, Port: port}}
}

// c35Check returns "" or the failed clause for one (list, client) pair.
func c35Check(ns *Namespace, entries []c35Entry, cl c35Client) (clause, detail string, results []bool, names []string) {
	names, ips, perr := c35Presentations(cl)
	if perr != "" {
		return "generator", perr, nil, nil
	}
	want := c35Ref(entries, cl)
	for i, ip := range ips {
		got := ns.IsClientIPAllowed(ip)
		results = append(results, got)
		if want == 1 && !got {
			return "listed-client-refused", names[i], results, names
		}
		if want == 0 && got {
			return "unlisted-client-admitted", names[i], results, names
		}
	}
	// the same question through Session.IsAllowConnect
	if c35Rig != nil {
		c35Rig.nm.namespaces["c35"] = ns
		sn, sa := c35SessionAddrs(cl)
		for i, a := range sa {
			c35Rig.conn.addr = a
			got := c35Rig.sess.IsAllowConnect()
			results = append(results, got)
			names = append(names, sn[i])
			if want == 1 && !got {
				return "listed-client-refused", sn[i], results, names
			}
			if want == 0 && got {
				return "unlisted-client-admitted", sn[i], results, names
			}
		}
	}
	for i := 1; i < len(results); i++ {
		if results[i] != results[0] {
			return "presentation-variance", names[0] + "!=" + names[i], results, names
		}
	}
	return "", "", results, names
}

func c35PlenClass(e c35Entry) string {
	switch {
	case e.Plen == 0:
		return "p0"
	case e.Plen == 128:
		return "full"
	case e.Plen == 96 && c35IsV4(e.Hi, e.Lo):
		return "v4-p0"
	case e.Plen < 96 && (e.Form == "mapcidr"):
		return "below96"
	case e.Plen%8 == 0:
		return "aligned"
	}
	return "unaligned"
}

func c35Sig(c c35Case, clause, detail string) string {
	var fs []string
	for _, e := range c.Entries {
		fs = append(fs, e.Form+":"+c35PlenClass(e))
	}
	sort.Strings(fs)
	fam := "v6"
	if c.Client.Nil {
		fam = "nil"
	} else if c35IsV4(c.Client.Hi, c.Client.Lo) {
		fam = "v4"
	}
	if clause == "valid-list-refused" {
		detail = "build" // the error text is free text, it stays in the description only
	}
	return fmt.Sprintf("%s/%s/[%s]/client-%s", clause, detail, strings.Join(fs, ","), fam)
}

func TestVerif_C35(t *testing.T) {
	rec := kit.Start("C35", "exploration", "allow-lists of 0-4 entries (IPv4/IPv6/IPv4-mapped addresses and blocks, every prefix length, blanks) rendered from numeric triples and parsed by the real parseAllowIps/NewNamespace; clients at self/first/last/below/above/inside/sibling/compat/far positions of every block, IPv4 clients in 3 presentations, and every client again through Session.IsAllowConnect with a *net.TCPAddr peer; non-trivial = distinct (entry form, prefix length, position, client family, outcome)")
	rec.Assume("blank entries are treated as absent (a list of blanks is an empty list)")
	rec.Assume("not judged: whether an IPv4 client lies in an IPv6-syntax block shorter than /96 that covers ::ffff:0:0/96 (e.g. ::/0); only presentation invariance is demanded there")
	defer rec.Finish(t)
	lxQuietLogs()
	c35Rig = c35NewSessionRig()

	runCase := func(c c35Case) (string, string) {
		ns, done, err := c35Build(c.Entries, c.Real)
		defer done()
		if err != nil {
			return "valid-list-refused", err.Error()
		}
		cl, d, _, _ := c35Check(ns, c.Entries, c.Client)
		return cl, d
	}
	report := func(c c35Case, clause, detail string) {
		if clause == "generator" {
			rec.Inconclusive("C35 generator self-check: " + detail)
			return
		}
		// shrink: drop entries while the same client still fails
		for i := 0; i < len(c.Entries); {
			d := c35Case{Client: c.Client, Real: c.Real}
			d.Entries = append(append([]c35Entry{}, c.Entries[:i]...), c.Entries[i+1:]...)
			if len(d.Entries) > 0 {
				if cl, dt := runCase(d); cl != "" && cl != "generator" {
					c, clause, detail = d, cl, dt
					continue
				}
			}
			i++
		}
		rec.Violation(c35Sig(c, clause, detail), fmt.Sprintf("allow-list %q client hi=%x lo=%x nil=%v (%s): %s %s", c35Texts(c.Entries), c.Client.Hi, c.Client.Lo, c.Client.Nil, c.Client.Pos, clause, detail), c)
	}

	if p := kit.ReplayPath(); p != "" {
		var c c35Case
		if err := kit.LoadReplay(p, &c); err != nil {
			t.Fatal(err)
		}
		rec.Eval(1)
		cl, d := runCase(c)
		rec.Nontrivial("replay/" + cl)
		rec.Nontrivial("replay")
		rec.Sample(c)
		if cl != "" {
			report(c, cl, d)
		}
		return
	}

	r := kit.SubRand(kit.Seed(), "C35/lists")
	nLists := kit.N(2500, 250000)
	nReal := kit.N(150, 3000)
	samples := 0
	for li := 0; li < nLists; li++ {
		n := r.Intn(5)
		if li%50 == 0 {
			n = 0
		}
		entries := make([]c35Entry, 0, n)
		for i := 0; i < n; i++ {
			// prefix lengths sweep every value deterministically as well as randomly
			entries = append(entries, c35GenEntry(r, li+i*37+r.Intn(2)*r.Intn(129)))
		}
		real := li < nReal
		ns, done, err := c35Build(entries, real)
		if err != nil {
			rec.Eval(1)
			report(c35Case{Entries: entries, Client: c35Client{Nil: true, Pos: "build", Of: -1}, Real: real}, "valid-list-refused", err.Error())
			done()
			continue
		}
		if real {
			rec.Count("lists.via_NewNamespace", 1)
		} else {
			rec.Count("lists.via_parseAllowIps", 1)
		}
		for _, cl := range c35Clients(r, entries) {
			clause, detail, results, names := c35Check(ns, entries, cl)
			rec.Eval(1)
			want := c35Ref(entries, cl)
			if want == -1 {
				rec.Count("clients.unspecified_region", 1)
			}
			for i := range results {
				if strings.HasPrefix(names[i], "session/") {
					rec.Count("calls.Session.IsAllowConnect."+names[i][8:], 1)
				} else {
					rec.Count("calls.IsClientIPAllowed."+names[i], 1)
				}
				if results[i] {
					rec.Count("calls.allowed", 1)
				} else {
					rec.Count("calls.refused", 1)
				}
			}
			if cl.Of >= 0 && len(results) > 0 {
				e := entries[cl.Of]
				rec.Nontrivial(fmt.Sprintf("%s/%d/%s/%s/%v", e.Form, e.Plen, cl.Pos, names[0], results[0]))
			} else if len(results) > 0 {
				rec.Nontrivial(fmt.Sprintf("list%d/%s/%v", len(ns.allowips), cl.Pos, results[0]))
			}
			if clause != "" {
				report(c35Case{Entries: entries, Client: cl, Real: real}, clause, detail)
			} else if samples < 6 && cl.Of >= 0 && li%7 == 3 && cl.Pos == []string{"inside", "below", "last", "sibling", "above", "first"}[samples] {
				samples++
				rec.Sample(map[string]interface{}{"list": c35Texts(entries), "client": fmt.Sprintf("%x:%x", cl.Hi, cl.Lo), "pos": cl.Pos, "presentations": names, "allowed": results, "reference": want})
			}
		}
		done()
	}
}
