package server

// C16, parameter-count dimension: the histories of c16_test.go use statements with two
// parameters. Here statements with 1..17, 23..25, 31..33 and 64 placeholders are prepared
// and taken through short histories (execute with NULL patterns touching the first, last
// and byte-boundary bits of the NULL bitmap; long data on a parameter; re-execute without
// a type section; refused execute then a good one). The oracle is the same: every
// placeholder of the text at the backend must denote the value THIS execute supplied (or
// the long data sent for it), refused executes must not reach the backend.

import (
	"fmt"
	"sort"
	"strings"

	kit "github.com/XiaoMi/Gaea/verifkit"
	"github.com/XiaoMi/Gaea/verifkit/mycli"
)

type c16WStep struct {
	K     string `json:"k"`               // X execute | L send_long_data | R reset
	V     string `json:"v,omitempty"`     // X: ok | notypes | cursor
	Nulls []int  `json:"nulls,omitempty"` // X: parameters sent as NULL (bitmap)
	P     int    `json:"p,omitempty"`     // L: parameter
}

type c16Wide struct {
	N     int        `json:"n"`     // number of placeholders
	Shift int        `json:"shift"` // rotates the type families over the parameters
	Steps []c16WStep `json:"steps"`
}

func (w c16Wide) String() string {
	var s []string
	for _, st := range w.Steps {
		switch st.K {
		case "X":
			nl := ""
			if len(st.Nulls) > 0 {
				nl = "+nulls"
			}
			s = append(s, "X:"+st.V+nl)
		case "L":
			s = append(s, "L")
		default:
			s = append(s, st.K)
		}
	}
	return fmt.Sprintf("n=%d %s", w.N, strings.Join(s, " "))
}

func c16WidePieces(n int) []string {
	p := []string{"select * from tw where c0 = "}
	for i := 1; i < n; i++ {
		p = append(p, fmt.Sprintf(" and c%d = ", i))
	}
	return append(p, "")
}

var c16WideCounts = []int{1, 2, 3, 4, 5, 6, 7, 8, 9, 10, 11, 12, 13, 14, 15, 16, 17, 23, 24, 25, 31, 32, 33, 64}

// playWide runs one wide history; it returns the refuted clause ("" = held), a detail and
// a harness error.
func (x *c16Runner) playWide(w c16Wide) (clause, detail, harness string) {
	c, err := x.conn()
	if err != nil {
		return "", "", "dial: " + err.Error()
	}
	x.uses++
	pieces := c16WidePieces(w.N)
	ps, ep, err := c.Prepare(strings.Join(pieces, "?"))
	if err != nil {
		x.dropConn()
		return "", "", "prepare: " + err.Error()
	}
	if ep != nil {
		return "reply:P:ok->err", ep.Error(), ""
	}
	if int(ps.Params) != w.N {
		return "prepare.params", fmt.Sprintf("prepare reports %d parameters for %d placeholders", ps.Params, w.N), ""
	}
	id := ps.ID
	x.issued[id] = true
	defer func() {
		if x.c != nil {
			x.c.StmtClose(id)
			if _, err := psBarrier(x.c); err != nil {
				x.dropConn()
			}
		}
	}()
	long := map[int][]byte{}
	lastPlain := false // the last successful typed execute declared the plain family vector
	for i, st := range w.Steps {
		switch st.K {
		case "L":
			p := st.P % w.N
			chunk := []byte(fmt.Sprintf("w%dp%d.", i, p))
			if err := c.SendLongData(id, uint16(p), chunk); err != nil {
				x.dropConn()
				return "", "", "send_long_data: " + err.Error()
			}
			uns, err := psBarrier(c)
			if err != nil {
				x.dropConn()
				return "", "", "barrier: " + err.Error()
			}
			if len(uns) > 0 {
				return "reply:L:none->err", fmt.Sprintf("send_long_data for parameter %d of %d was answered with %v", p, w.N, uns), ""
			}
			long[p] = append(long[p], chunk...)
		case "R":
			rp, err := c.Simple(mycli.ComStmtReset, psLE(4, uint64(id)))
			if err != nil {
				x.dropConn()
				return "", "", "reset: " + err.Error()
			}
			if rp.Err != nil {
				return "reply:R:ok->err", rp.Err.Error(), ""
			}
			long = map[int][]byte{}
		case "X":
			params := make([]mycli.Param, w.N)
			want := make([]psWant, w.N)
			isNull := map[int]bool{}
			for _, k := range st.Nulls {
				isNull[k%w.N] = true
			}
			for k := 0; k < w.N; k++ {
				if v, ok := long[k]; ok {
					params[k] = mycli.Param{Type: mycli.TBlob, LongData: true}
					want[k] = psWant{Kind: "bytes", Bytes: v}
					continue
				}
				params[k], want[k] = psFamValue(psFamilies[(k+w.Shift)%len(psFamilies)], 10*i+k)
				if isNull[k] {
					params[k].Null = true
					want[k] = psWant{Kind: "null"}
				}
			}
			sendTypes, flags, wantOK := true, byte(0), true
			switch st.V {
			case "notypes":
				if lastPlain && len(long) == 0 {
					sendTypes = false
				}
			case "cursor":
				flags, wantOK = 1, false
			}
			from := x.rig.B.Len()
			rp, err := c.ExecuteRaw(mycli.BuildExecute(id, flags, params, sendTypes))
			if err != nil {
				x.dropConn()
				if !wantOK {
					return "", "", ""
				}
				return "reply:X:ok->lost", "connection lost on a well-formed execute: " + err.Error(), ""
			}
			execs := psExecsSince(x.rig, from)
			hadLong := len(long) > 0
			long = map[int][]byte{}
			if !wantOK {
				if rp.Err == nil {
					return "reply:X:err->ok", "an execute with a cursor flag was answered without error", ""
				}
				if len(execs) != 0 {
					return "exec.count", "a refused execute reached the backend", ""
				}
				lastPlain = false
				continue
			}
			if rp.Err != nil {
				return "reply:X:ok->err", fmt.Sprintf("well-formed execute of a statement with %d parameters (nulls %v, types sent %v) refused: %v", w.N, st.Nulls, sendTypes, rp.Err), ""
			}
			if len(execs) != 1 {
				return "exec.count", fmt.Sprintf("%d statements reached the backend for one execute", len(execs)), ""
			}
			toks, at, cl := psWalk(pieces, []byte(execs[0].SQL), false, "utf8")
			if cl != "" {
				return "exec.text", fmt.Sprintf("backend text %q does not follow the template (placeholder %d: %s)", execs[0].SQL, at, cl), ""
			}
			for k, tk := range toks {
				if ok, _ := psTokMatches(tk, want[k]); !ok {
					return "exec.values", fmt.Sprintf("placeholder %d of %d in %q is %s, the reference expects %s", k, w.N, execs[0].SQL, psDescribeTok(tk), c16DescribeWant(want[k])), ""
				}
			}
			if sendTypes {
				lastPlain = !hadLong
			}
		}
	}
	return "", "", ""
}

func (x *c16Runner) oneWide(w c16Wide) {
	x.rec.Eval(1)
	clause, detail, harness := x.playWide(w)
	if harness != "" {
		x.rec.Count("harness_errors", 1)
		if x.fatal == "" {
			x.fatal = harness + " in wide " + w.String()
		}
		return
	}
	x.rec.Count("wide.histories", 1)
	x.rec.Count(fmt.Sprintf("wide.n%%8=%d", w.N%8), 1)
	x.rec.Nontrivial("wide/" + w.String())
	if clause == "" {
		return
	}
	x.rec.Count("refuted.wide."+clause, 1)
	// shrink: remove steps, then NULLs, while the history is still refuted (any clause)
	cur := w
	try := func(c c16Wide) bool {
		if len(c.Steps) == 0 {
			return false
		}
		if cl, d, h := x.playWide(c); h == "" && cl != "" {
			cur, clause, detail = c, cl, d
			return true
		}
		return false
	}
	for changed := true; changed; {
		changed = false
		for i := range cur.Steps {
			c := cur
			c.Steps = append(append([]c16WStep{}, cur.Steps[:i]...), cur.Steps[i+1:]...)
			if try(c) {
				changed = true
				break
			}
		}
	}
	for i := range cur.Steps {
		if len(cur.Steps[i].Nulls) > 0 {
			c := cur
			c.Steps = append([]c16WStep{}, cur.Steps...)
			c.Steps[i].Nulls = nil
			try(c)
		}
	}
	if cur.Shift != 0 {
		c := cur
		c.Shift = 0
		try(c)
	}
	x.rec.Violation("wide:"+clause+"|"+cur.String(), detail+" [found in: "+w.String()+"]", map[string]interface{}{"wide": cur, "wide_original": w})
}

// c16WideNullPatterns are the NULL sets tried for n parameters: none, first, last, the bits
// around byte boundaries of the bitmap, all.
func c16WideNullPatterns(n int) [][]int {
	set := map[string][]int{"": nil}
	add := func(v []int) {
		var u []int
		seen := map[int]bool{}
		for _, k := range v {
			if k >= 0 && k < n && !seen[k] {
				seen[k] = true
				u = append(u, k)
			}
		}
		sort.Ints(u)
		set[fmt.Sprint(u)] = u
	}
	add([]int{0})
	add([]int{n - 1})
	add([]int{7})
	add([]int{8})
	add([]int{7, 8, 15, 16})
	all := make([]int, n)
	for i := range all {
		all[i] = i
	}
	add(all)
	keys := make([]string, 0, len(set))
	for k := range set {
		keys = append(keys, k)
	}
	sort.Strings(keys)
	var out [][]int
	for _, k := range keys {
		out = append(out, set[k])
	}
	return out
}

// runWide plays the systematic and random wide histories.
func (x *c16Runner) runWide() {
	r := kit.SubRand(kit.Seed(), "C16/wide")
	for _, n := range c16WideCounts {
		for _, nl := range c16WideNullPatterns(n) {
			x.oneWide(c16Wide{N: n, Steps: []c16WStep{{K: "X", V: "ok", Nulls: nl}}})
			x.oneWide(c16Wide{N: n, Shift: 3, Steps: []c16WStep{{K: "X", V: "ok"}, {K: "X", V: "notypes", Nulls: nl}}})
		}
		for _, p := range []int{0, n - 1, 7 % n, 8 % n} {
			x.oneWide(c16Wide{N: n, Steps: []c16WStep{{K: "L", P: p}, {K: "X", V: "ok"}, {K: "X", V: "ok"}}})
			x.oneWide(c16Wide{N: n, Shift: 1, Steps: []c16WStep{{K: "L", P: p}, {K: "X", V: "cursor"}, {K: "X", V: "ok", Nulls: []int{n - 1}}}})
			x.oneWide(c16Wide{N: n, Shift: 5, Steps: []c16WStep{{K: "L", P: p}, {K: "R"}, {K: "X", V: "ok"}}})
		}
	}
	for k := 0; k < kit.N(600, 12000); k++ {
		n := c16WideCounts[r.Intn(len(c16WideCounts))]
		w := c16Wide{N: n, Shift: r.Intn(len(psFamilies))}
		for s := 1 + r.Intn(5); s > 0; s-- {
			switch r.Intn(8) {
			case 0:
				w.Steps = append(w.Steps, c16WStep{K: "L", P: r.Intn(n)})
			case 1:
				w.Steps = append(w.Steps, c16WStep{K: "R"})
			default:
				st := c16WStep{K: "X", V: []string{"ok", "ok", "notypes", "cursor"}[r.Intn(4)]}
				for j := r.Intn(4); j > 0; j-- {
					st.Nulls = append(st.Nulls, r.Intn(n))
				}
				w.Steps = append(w.Steps, st)
			}
		}
		x.oneWide(w)
		if k%500 == 499 {
			psTrimEvents(x.rig)
		}
		if x.rec.CounterValue("harness_errors") > 20 {
			return
		}
	}
}
