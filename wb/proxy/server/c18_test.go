package server

// C18 — a transaction stays on one master connection per slice.
//
// Online trace checker over the event log of rig R2 (real Session/SessionExecutor, fake
// pools). Fault-free command sequences for one or two client sessions sharing the pools of
// one namespace, driven one command at a time so that every backend event belongs to the
// command (and session) in flight.

import (
	"fmt"
	"strings"
	"sync"
	"testing"

	kit "github.com/XiaoMi/Gaea/verifkit"
)

type c18Viol struct {
	Clause string `json:"clause"`
	Sess   int    `json:"sess"`
	Step   int    `json:"step"`
	Detail string `json:"detail"`
}

// c18SliceOfSQL returns the slice a rewritten statement was planned for, when the physical
// table name tells (tbl_shard_0000/1 live on slice-0, 0002/3 on slice-1).
func c18SliceOfSQL(sql string) string {
	i := strings.Index(sql, "tbl_shard_000")
	if i < 0 || i+13 >= len(sql) {
		return ""
	}
	switch sql[i+13] {
	case '0', '1':
		return "slice-0"
	case '2', '3':
		return "slice-1"
	}
	return ""
}

// c18Judge. Clauses:
//
//	replica            a statement of an open transaction ran on a replica connection
//	affinity           two different connections of one slice used inside one transaction
//	wrong_slice        a statement planned for slice A was executed on a connection of slice B
//	use_after_release  a call on a connection that is not checked out
//	shared             a call on (or a get/recycle of) a connection another session holds
//	end_missing        COMMIT / ROLLBACK / autocommit=1 not sent to a connection the transaction used
//	end_extra          ... sent to a connection the transaction did not use
//	not_released       a transaction connection not recycled after the end (no keep-session)
//	released_in_tx     a live transaction connection recycled before the transaction ended
//	tx_reload_continued keep-session: the command after a reload inside a transaction was not refused + disconnected
//	sp_missing/sp_extra SAVEPOINT / ROLLBACK TO / RELEASE not executed on exactly the transaction's connections
func c18Judge(tr *txTrace) []c18Viol {
	var out []c18Viol
	seen := map[string]bool{}
	add := func(clause string, sess, step int, detail string) {
		k := fmt.Sprintf("%s/%d", clause, sess)
		if seen[k] {
			return
		}
		seen[k] = true
		out = append(out, c18Viol{Clause: clause, Sess: sess, Step: step, Detail: detail})
	}
	ks := txKS(tr.Case.Mode)
	n := len(tr.Case.Users)
	inTx := make([]bool, n)
	txConn := make([]map[string]int64, n) // per session: slice -> connection of the open transaction
	for i := range txConn {
		txConn[i] = map[string]int64{}
	}
	owner := map[int64]int{}
	// keep-session: a session that was in a transaction when the namespace was reloaded must
	// be refused (ErrTxNsChanged) and disconnected at its next command
	mustReject := make([]bool, n)
	afterReload := func() {
		if !ks {
			return
		}
		for y := range mustReject {
			if inTx[y] {
				mustReject[y] = true
			}
		}
	}
	for i, st := range tr.Steps {
		x := st.Step.S
		prev := inTx[x]
		after := st.InTx
		class := txClass(st.Step.Op)
		if st.Step.Op == "reload" {
			afterReload()
			continue
		}
		// the step in which an injected fault closed a connection: the transaction may lose
		// its connections here (the client is told by an error or is disconnected), so only
		// the per-call clauses apply and the connections given up leave the transaction
		lossStep := tr.Fired && tr.Case.Fault != nil && tr.Case.Fault.Kind == "close" && tr.Case.Fault.Cmd == i
		reloadedMid := false
		for _, e := range st.Events {
			if e.Fault == "reload" {
				reloadedMid = true
			}
		}
		if mustReject[x] {
			mustReject[x] = false
			if class != "Q" && !(st.Reply.Kind == "err" && st.Ended) {
				add("tx_reload_continued", x, i, fmt.Sprintf("%s after a reload inside a keep-session transaction answered %s %q, session ended=%v", st.Step.Op, st.Reply.Kind, st.Reply.Msg, st.Ended))
			}
		}
		isEnd := prev && (class == "C" || class == "R" || class == "A1" || class == "Q")
		window := (prev || after) && !lossStep
		endOp := map[string]string{"C": "commit", "R": "rollback", "A1": "autocommit", "Q": "rollback"}[class]
		if prev && st.Ended && class != "Q" && st.Reply.Kind != "ok" && st.Reply.Kind != "rows" && !lossStep {
			// the server refused the command and ended the session inside the transaction:
			// Session.Close rolls back
			isEnd, endOp = true, "rollback"
		}
		if lossStep {
			isEnd = false
		}
		endSet := map[int64]bool{}
		released := map[int64]bool{}
		spSet := map[int64]bool{}
		for _, e := range st.Events {
			switch e.Op {
			case "get":
				if o, ok := owner[e.Conn]; ok && o != x {
					add("shared", x, i, "pool handed out a connection held by the other session: "+e.String())
				}
				owner[e.Conn] = x
				continue
			case "recycle":
				if o, ok := owner[e.Conn]; ok && o != x {
					add("shared", x, i, "recycled a connection held by the other session: "+e.String())
				}
				if e.Taken {
					delete(owner, e.Conn)
					released[e.Conn] = true
					// the connection the injected fault hit, given up (closed and recycled)
					// in the faulted command, is no longer part of the transaction
					if e.Closed && tr.Fired && tr.Case.Fault != nil && tr.Case.Fault.Cmd == i && e.Conn == tr.FiredEv.Conn {
						for sl, c := range txConn[x] {
							if c == e.Conn {
								delete(txConn[x], sl)
							}
						}
					}
					// a live connection of the open transaction must stay checked out
					// until the transaction ends
					if window && !isEnd && !e.Closed && !st.Ended {
						for _, c := range txConn[x] {
							if c == e.Conn {
								add("released_in_tx", x, i, e.String())
							}
						}
					}
				}
				continue
			case "close":
				continue
			}
			if !txIsUse(e) {
				continue
			}
			if !e.Taken {
				add("use_after_release", x, i, e.String())
			}
			if o, ok := owner[e.Conn]; ok && o != x {
				add("shared", x, i, "call on a connection held by the other session: "+e.String())
			}
			if e.Op == "exec" {
				if want := c18SliceOfSQL(e.SQL); want != "" && want != e.Slice {
					add("wrong_slice", x, i, e.String())
				}
			}
			if !window {
				continue
			}
			if isEnd && e.Op == endOp && (class != "A1" || e.Arg == "1") {
				endSet[e.Conn] = true
				continue
			}
			if class == "SP" && e.Op == "exec" {
				spSet[e.Conn] = true
			}
			if e.Role != "master" {
				add("replica", x, i, e.String())
			}
			if c, ok := txConn[x][e.Slice]; ok && c != e.Conn {
				add("affinity", x, i, fmt.Sprintf("transaction already uses c%d on %s: %s", c, e.Slice, e.String()))
			} else {
				txConn[x][e.Slice] = e.Conn
			}
		}
		if class == "SP" && prev && st.Reply.Kind != "err" {
			for _, c := range txConn[x] {
				if !spSet[c] {
					add("sp_missing", x, i, fmt.Sprintf("%s not executed on transaction connection c%d", st.Step.Op, c))
				}
			}
		}
		if isEnd {
			used := map[int64]bool{}
			for _, c := range txConn[x] {
				used[c] = true
			}
			for c := range used {
				if !endSet[c] {
					add("end_missing", x, i, fmt.Sprintf("%s: no %s on transaction connection c%d", st.Step.Op, endOp, c))
				}
				if !ks && !released[c] {
					add("not_released", x, i, fmt.Sprintf("%s: transaction connection c%d not recycled", st.Step.Op, c))
				}
			}
			for c := range endSet {
				if !used[c] {
					add("end_extra", x, i, fmt.Sprintf("%s: %s sent to c%d which the transaction did not use", st.Step.Op, endOp, c))
				}
			}
			// with keep-session every pinned connection stays part of the session's next
			// (implicit, autocommit=0) transaction; without it the connections are gone
			if !(ks && after) {
				txConn[x] = map[string]int64{}
			}
		}
		if !after {
			txConn[x] = map[string]int64{}
		} else if lossStep {
			// connections given up in the loss step leave the transaction, the others stay
			for sl, c := range txConn[x] {
				if released[c] {
					delete(txConn[x], sl)
				}
			}
		}
		inTx[x] = after
		if st.Ended {
			inTx[x] = false
		}
		if reloadedMid {
			afterReload()
		}
	}
	return out
}

func c18Sig(tr *txTrace, v c18Viol) string {
	mode := "p"
	if txKS(tr.Case.Mode) {
		mode = "k"
	}
	return fmt.Sprintf("%s|%s|%s", v.Clause, mode, tr.Case.Users[v.Sess])
}

type c18Witness struct {
	Case   *txCase  `json:"case"`
	Text   string   `json:"text"`
	Clause string   `json:"clause"`
	Detail string   `json:"detail"`
	Trace  []string `json:"trace"`
}

func c18Shrink(tr *txTrace, v c18Viol) (*txTrace, c18Viol) {
	w := tr.w
	cur, curV := tr, v
	sig := c18Sig(tr, v)
	for changed := true; changed; {
		changed = false
		for i := 0; i < len(cur.Case.Steps); i++ {
			if txClass(cur.Case.Steps[i].Op) == "Q" || (cur.Case.Fault != nil && cur.Case.Fault.Cmd == i) {
				continue
			}
			d := cur.Case.clone()
			d.Steps = append(append([]txStep(nil), cur.Case.Steps[:i]...), cur.Case.Steps[i+1:]...)
			if d.Fault != nil && d.Fault.Cmd > i {
				d.Fault.Cmd--
			}
			found := false
			for t := 0; t < 3 && !found; t++ {
				t2 := w.Run(d)
				if t2.Disturbed != "" {
					continue
				}
				for _, v2 := range c18Judge(t2) {
					if c18Sig(t2, v2) == sig {
						cur, curV, found = t2, v2, true
						break
					}
				}
			}
			if found {
				changed = true
				break
			}
		}
	}
	return cur, curV
}

var c18Alpha = []string{"begin", "start", "commit", "rollback", "ac0", "ac1", "sp", "rbsp", "relsp", "rs0", "rs1", "rs2", "ws0", "ws1", "ws2", "fs1", "ru", "wu", "fu", "rg", "wg", "fl", "sr", "sm"}
var c18Core = []string{"begin", "ac0", "commit", "rollback", "ac1", "sp", "ws2", "ru", "rs1", "sr"}

func c18Random(r *kit.Rand, n, maxLen int) []*txCase {
	var out []*txCase
	for i := 0; i < n; i++ {
		ns := 1
		if r.Chance(1, 2) {
			ns = 2
		}
		c := &txCase{Mode: r.Pick([]string{"p", "k"})}
		for s := 0; s < ns; s++ {
			c.Users = append(c.Users, r.Pick([]string{"rw", "rw", "rws", "rws", "ro"}))
		}
		l := r.Range(2, maxLen)
		for j := 0; j < l; j++ {
			s := r.Intn(ns)
			op := r.Pick(c18Alpha)
			if j < ns && r.Chance(2, 3) {
				s = j
				op = r.Pick([]string{"begin", "start", "ac0"})
			}
			c.Steps = append(c.Steps, txStep{S: s, Op: op})
		}
		// one case in four: a backend error on the COMMIT / ROLLBACK of
		// one slice, followed by a further transaction of the same session
		if r.Chance(1, 4) {
			var ends []int
			for j, st := range c.Steps {
				if st.Op == "commit" || st.Op == "rollback" {
					ends = append(ends, j)
				}
			}
			if len(ends) == 0 {
				s := r.Intn(ns)
				c.Steps = append(c.Steps, txStep{S: s, Op: r.Pick([]string{"ws2", "ws1", "ru"})}, txStep{S: s, Op: r.Pick([]string{"commit", "rollback"})})
				ends = append(ends, len(c.Steps)-1)
			}
			at := ends[r.Intn(len(ends))]
			sx := c.Steps[at].S
			c.Fault = &txFault{Kind: "err", Cmd: at, Slice: r.Pick([]string{"slice-0", "slice-1"}), Op: c.Steps[at].Op, N: 0}
			tail := []txStep{{S: sx, Op: r.Pick([]string{"begin", "ac0", "start"})}, {S: sx, Op: "ws2"}, {S: sx, Op: r.Pick([]string{"commit", "rollback"})}}
			c.Steps = append(c.Steps[:at+1], append(tail, c.Steps[at+1:]...)...)
		}
		if c.Fault == nil && r.Chance(1, 3) {
			c18AddScenario(r, c, r.Intn(ns))
		}
		for _, s := range r.Perm(ns) {
			c.Steps = append(c.Steps, txStep{S: s, Op: r.Pick([]string{"quit", "quit", "disc"})})
		}
		out = append(out, c)
	}
	return out
}

// c18ExecSlice is the slice on which the first execute of a statement op can be addressed.
func c18ExecSlice(r *kit.Rand, op string) string {
	switch op {
	case "rs1", "ws1", "fs1":
		return "slice-1"
	case "rs2", "ws2", "wg":
		return r.Pick([]string{"slice-0", "slice-1"})
	}
	return "slice-0"
}

// c18AddScenario appends, for session sx, a transaction that is hit in the middle by
//   - keep-session: a namespace reload between two of its statements or while one of them
//     is executing (the client has to be refused and disconnected, never continued silently);
//   - no keep-session: a backend fault that closes the connection of one slice while the
//     transaction holds a second one, followed by further statements and the end.
func c18AddScenario(r *kit.Rand, c *txCase, sx int) {
	add := func(op string) int {
		c.Steps = append(c.Steps, txStep{S: sx, Op: op})
		return len(c.Steps) - 1
	}
	// leave whatever transaction state the random prefix produced
	add("ac1")
	add("rollback")
	add(r.Pick([]string{"begin", "start", "ac0"}))
	if txKS(c.Mode) {
		first := r.Pick([]string{"ru", "ws2", "rs1", "wu", "ws0"})
		at := add(first)
		if r.Bool() {
			add("reload")
		} else {
			c.Fault = &txFault{Kind: "reload", Cmd: at, Slice: c18ExecSlice(r, first), Op: "exec", N: 0}
		}
		add(r.Pick([]string{"ru", "ws2", "rs1", "commit", "sp"}))
		add(r.Pick([]string{"commit", "rollback", "ru"}))
		return
	}
	add(r.Pick([]string{"ws1", "rs1", "ws2", "fs1", "ws1", "rs1"}))
	victim := r.Pick([]string{"ru", "wu", "fu", "fl", "sr"})
	at := add(victim)
	if r.Chance(1, 3) {
		// the fault hits while the transaction opens its connection on the second slice
		// (session-variable sync, BEGIN / SET autocommit=0 on the fresh connection)
		op := r.Pick([]string{"syncvars", "syncvars", "begin", "autocommit"})
		c.Fault = &txFault{Kind: r.Pick([]string{"err", "close"}), Cmd: at, Slice: "slice-0", Op: op, N: 0}
	} else {
		op := r.Pick([]string{"usedb", "setcharset", "setvars", "exec"})
		if victim == "fl" && op == "exec" {
			op = "fieldlist"
		}
		c.Fault = &txFault{Kind: "close", Cmd: at, Slice: "slice-0", Op: op, N: 0}
	}
	add(r.Pick([]string{"ws1", "rs1", "ru", "ws2"}))
	add(r.Pick([]string{"commit", "rollback", "ac1"}))
}

// c18Curated are fixed cases run in both tiers (one per scenario family and variant).
func c18Curated() []*txCase {
	var out []*txCase
	mk := func(mode, user string, ops []string, f *txFault) {
		out = append(out, &txCase{Mode: mode, Users: []string{user}, Steps: txSteps(ops, "quit"), Fault: f})
	}
	for _, u := range []string{"rw", "rws"} {
		mk("k", u, []string{"begin", "ru", "reload", "ru", "commit"}, nil)
		mk("k", u, []string{"ac0", "ws2", "reload", "ws2", "commit"}, nil)
		mk("k", u, []string{"begin", "ws2", "reload", "commit"}, nil)
		mk("k", u, []string{"begin", "ru", "ru", "commit"}, &txFault{Kind: "reload", Cmd: 1, Slice: "slice-0", Op: "exec"})
		mk("k", u, []string{"start", "ws2", "rs1", "rollback"}, &txFault{Kind: "reload", Cmd: 1, Slice: "slice-1", Op: "exec"})
		mk("k", u, []string{"ru", "reload", "begin", "ru", "commit"}, nil)
		mk("p", u, []string{"begin", "ws2", "reload", "ws2", "commit"}, nil)
		mk("p", u, []string{"begin", "ws1", "ru", "ws1", "commit"}, &txFault{Kind: "close", Cmd: 2, Slice: "slice-0", Op: "usedb"})
		mk("p", u, []string{"ac0", "ws1", "ru", "rs1", "rollback"}, &txFault{Kind: "close", Cmd: 2, Slice: "slice-0", Op: "setvars"})
		mk("p", u, []string{"begin", "ws2", "fl", "ws2", "commit"}, &txFault{Kind: "close", Cmd: 2, Slice: "slice-0", Op: "setcharset"})
		mk("p", u, []string{"begin", "ws1", "ru", "commit"}, &txFault{Kind: "close", Cmd: 2, Slice: "slice-0", Op: "setvars"})
		mk("p", u, []string{"begin", "ws1", "ru", "ws1"}, &txFault{Kind: "close", Cmd: 2, Slice: "slice-0", Op: "exec"})
		mk("p", u, []string{"begin", "ws1", "wu", "ws1", "commit"}, &txFault{Kind: "err", Cmd: 2, Slice: "slice-0", Op: "syncvars"})
		mk("p", u, []string{"begin", "ws1", "fl", "rs1", "wu", "commit"}, &txFault{Kind: "close", Cmd: 2, Slice: "slice-0", Op: "syncvars"})
		mk("p", u, []string{"begin", "rs1", "ru", "ws1", "rollback"}, &txFault{Kind: "err", Cmd: 2, Slice: "slice-0", Op: "begin"})
		mk("p", u, []string{"ac0", "ws1", "ru", "ws1", "ru", "commit"}, &txFault{Kind: "err", Cmd: 2, Slice: "slice-0", Op: "autocommit"})
		mk("p", u, []string{"ac0", "fs1", "sr", "ws1", "commit"}, &txFault{Kind: "err", Cmd: 2, Slice: "slice-0", Op: "syncvars"})
	}
	return out
}

func c18Exhaustive(n int) []*txCase {
	var out []*txCase
	var rec func(prefix []string)
	rec = func(prefix []string) {
		if len(prefix) > 0 {
			for _, m := range []string{"p", "k"} {
				out = append(out, &txCase{Mode: m, Users: []string{"rws"}, Steps: txSteps(prefix, "quit")})
			}
		}
		if len(prefix) == n {
			return
		}
		for _, o := range c18Core {
			rec(append(append([]string(nil), prefix...), o))
		}
	}
	rec(nil)
	return out
}

func TestVerif_C18(t *testing.T) {
	rec := kit.Start("C18", "exploration", "command sequences over 25 commands (BEGIN, START TRANSACTION, COMMIT, ROLLBACK, SET autocommit 0/1, SAVEPOINT/ROLLBACK TO/RELEASE, sharded reads/writes on one or two slices, unsharded reads/writes, SELECT FOR UPDATE, global-table statements, COM_FIELD_LIST, statements answered with streamed / multi-result sets; one random case in four adds a backend error on the COMMIT / ROLLBACK of one slice followed by a further transaction; one in three adds a transaction hit by a namespace reload between or during its statements (keep-session) or by a fault closing the connection of one slice while a second one is held (no keep-session)) for one or two interleaved client sessions sharing the pools, users rw / rw-split / read-only, keep-session on/off; thorough adds every sequence up to length 4 over a 10-command core; a case is non-trivial when a transaction touched a backend, keyed by (mode, users, ordered command classes)")
	defer rec.Finish(t)
	rec.Assume("one client command in flight per namespace, so every backend event is attributable to one session")
	rec.Assume("the slice a rewritten statement was planned for is read from the physical table name (tbl_shard_000N)")
	env := txStartEnv(t)
	defer env.Close()

	var mu sync.Mutex
	var txRuns, disturbed, total int64
	report := func(tr *txTrace, v c18Viol) {
		sig := c18Sig(tr, v)
		if !rec.IsKnown(sig) {
			tr, v = c18Shrink(tr, v)
		}
		rec.Violation(sig, fmt.Sprintf("%s (session %d, step %d): %s [%s]", v.Clause, v.Sess, v.Step, v.Detail, tr.Case.String()),
			c18Witness{Case: tr.Case, Text: tr.Case.String(), Clause: v.Clause, Detail: v.Detail, Trace: txTraceLines(tr)})
	}
	judge := func(tr *txTrace) {
		rec.Eval(1)
		mu.Lock()
		total++
		mu.Unlock()
		if tr.Disturbed != "" {
			mu.Lock()
			disturbed++
			mu.Unlock()
			rec.Count("disturbed."+strings.SplitN(tr.Disturbed, ":", 2)[0], 1)
			return
		}
		txEvents := 0
		var classes []string
		prev := make([]bool, len(tr.Case.Users))
		for _, st := range tr.Steps {
			classes = append(classes, txClass(st.Step.Op))
			for _, e := range st.Events {
				rec.Count("events."+e.Op, 1)
				if (prev[st.Step.S] || st.InTx) && txIsUse(e) {
					txEvents++
				}
			}
			prev[st.Step.S] = st.InTx && !st.Ended
		}
		if txEvents > 0 {
			mu.Lock()
			txRuns++
			mu.Unlock()
			rec.Nontrivial(tr.Case.Mode + "/" + strings.Join(tr.Case.Users, ",") + ":" + strings.Join(classes, ","))
			rec.Count("calls_inside_transactions", int64(txEvents))
		}
		vs := c18Judge(tr)
		for _, v := range vs {
			report(tr, v)
		}
		if txEvents > 0 {
			rec.Sample(map[string]interface{}{"case": tr.Case.String(), "calls_inside_transactions": txEvents, "violations": len(vs)})
		}
	}

	if p := kit.ReplayPath(); p != "" {
		var w c18Witness
		if err := kit.LoadReplay(p, &w); err != nil || w.Case == nil {
			rec.Inconclusive("cannot load replay file")
			return
		}
		for i := 0; i < 10; i++ {
			tr := env.ws[0].Run(w.Case)
			for _, l := range txTraceLines(tr) {
				fmt.Println(l)
			}
			judge(tr)
			rec.Nontrivial("replay")
			if len(c18Judge(tr)) > 0 {
				break
			}
		}
		return
	}

	seed := kit.Seed()
	var cases []*txCase
	if kit.Tier() == "thorough" {
		cases = append(cases, c18Exhaustive(4)...)
		cases = append(cases, c18Random(kit.SubRand(seed, "C18/random"), 30000, 10)...)
		rec.Set("exhaustive_core_len", 4)
	} else {
		ex := c18Exhaustive(3)
		r := kit.SubRand(seed, "C18/pick")
		for _, i := range r.Perm(len(ex))[:500] {
			cases = append(cases, ex[i])
		}
		cases = append(cases, c18Random(kit.SubRand(seed, "C18/random"), 2500, 10)...)
	}
	cases = append(cases, c18Curated()...)
	rec.Set("sequences", len(cases))
	env.txRunAll(cases, judge)
	rec.Set("runs_with_transaction_calls", txRuns)
	rec.Set("runs_disturbed", disturbed)
	if txRuns == 0 {
		rec.Inconclusive("no transaction reached a backend")
	}
	if disturbed*50 > total {
		rec.Inconclusive(fmt.Sprintf("%d of %d runs were disturbed", disturbed, total))
	}
}
