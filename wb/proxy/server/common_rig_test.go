package server

// Rig R2 (shared by the proxy/server monitors): a REAL Manager / Namespace / Server /
// Session stack (real onConn -> Handshake -> Session.Run over loopback TCP) whose backend
// connection pools are either hand-written fakes that log every call (FakePools: true) or
// the real connectionPoolImpl/DirectConnection towards addresses in the namespace config
// (FakePools: false, for wire-level rigs with a fake MySQL server).
//
// Everything here is prefixed rig*. The event log is the monitor's shadow state: it is
// updated in the same critical section as the fake's own state.

import (
	"context"
	"errors"
	"fmt"
	"io/ioutil"
	"net"
	"os"
	"strings"
	"sync"
	"sync/atomic"
	"testing"
	"time"

	"github.com/XiaoMi/Gaea/backend"
	"github.com/XiaoMi/Gaea/log"
	"github.com/XiaoMi/Gaea/models"
	"github.com/XiaoMi/Gaea/mysql"
	"github.com/XiaoMi/Gaea/util"
	"github.com/XiaoMi/Gaea/verifkit/mycli"
)

// ---------------------------------------------------------------- null logger

type rigNullLogger struct{}

func (rigNullLogger) SetLevel(name, level string) error                        { return nil }
func (rigNullLogger) Debug(format string, a ...interface{}) error             { return nil }
func (rigNullLogger) Trace(format string, a ...interface{}) error             { return nil }
func (rigNullLogger) Notice(format string, a ...interface{}) error            { return nil }
func (rigNullLogger) Warn(format string, a ...interface{}) error              { return nil }
func (rigNullLogger) Fatal(format string, a ...interface{}) error             { return nil }
func (rigNullLogger) Debugx(logID, format string, a ...interface{}) error     { return nil }
func (rigNullLogger) Tracex(logID, format string, a ...interface{}) error     { return nil }
func (rigNullLogger) Noticex(logID, format string, a ...interface{}) error    { return nil }
func (rigNullLogger) Warnx(logID, format string, a ...interface{}) error      { return nil }
func (rigNullLogger) Fatalx(logID, format string, a ...interface{}) error     { return nil }
func (rigNullLogger) Close()                                                  {}
func (rigNullLogger) Dropped(i int) uint64                                    { return 0 }

var rigLogOnce sync.Once

// rigQuietLogs replaces Gaea's console logger (debug level, stdout) by a no-op logger.
func rigQuietLogs() {
	rigLogOnce.Do(func() { log.SetGlobalLogger(rigNullLogger{}) })
}

// ---------------------------------------------------------------- fake backend

// rigEvent is one call on a fake pool or fake connection.
type rigEvent struct {
	Seq    int    `json:"seq"`
	NS     string `json:"ns"`
	Gen    int    `json:"gen"`   // namespace generation the pool belongs to (0 = initial, +1 per reload)
	Slice  string `json:"slice"`
	Role   string `json:"role"`  // master | slave#i | stat#i | monmaster | monslave#i
	Conn   int64  `json:"conn"`  // unique connection id (0 for pool-level events)
	Op     string `json:"op"`    // get getcheck put recycle close usedb exec begin commit rollback autocommit setcharset setvars syncvars writeset ping fieldlist reconnect fetchmore
	SQL    string `json:"sql,omitempty"`
	Arg    string `json:"arg,omitempty"`
	Fault  string `json:"fault,omitempty"` // injected fault applied to this call
	Err    string `json:"err,omitempty"`   // error returned to the caller
	Taken  bool   `json:"taken"`           // connection was checked out when the call arrived
	Closed bool   `json:"closed"`          // connection was closed when the call arrived
	Check  bool   `json:"check,omitempty"` // connection came from GetCheck (health checks)
	Cmd    int64  `json:"cmd"`             // value of rigBackend.CmdTag when the call arrived
}

func (e rigEvent) String() string {
	return fmt.Sprintf("#%d cmd=%d %s/g%d/%s/%s c%d %s %q%s%s", e.Seq, e.Cmd, e.NS, e.Gen, e.Slice, e.Role, e.Conn, e.Op, e.SQL+e.Arg,
		map[bool]string{true: " fault=" + e.Fault, false: ""}[e.Fault != ""], map[bool]string{true: " err=" + e.Err, false: ""}[e.Err != ""])
}

// rigFault is what an injected fault does to one call.
type rigFault struct {
	Name      string
	Err       error         // returned to the caller
	CloseConn bool          // the connection becomes closed (IsClosed() == true)
	Block     chan struct{} // the call blocks until this channel is closed (before returning)
}

// rigBackend owns the event log, the fake pools and the fault script.
type rigBackend struct {
	mu       sync.Mutex
	events   []rigEvent
	nextConn int64
	pools    []*rigPool
	conns    map[int64]*rigConn
	// Fault is consulted (under the lock) for every call; return nil for no fault.
	Fault func(ev *rigEvent) *rigFault
	// Respond produces the result of an exec; nil = rigDefaultRespond.
	Respond func(c *rigConn, sql string) (*mysql.Result, error)
	// Stream scripts a streamed answer to a successful exec: moreRowChunks further chunks of
	// the same result set have to be fetched with FetchMoreRows (MoreRowsExist() stays true
	// until the last one was fetched, as DirectConnection does for results > 16 MiB), and
	// moreResults further result sets follow (MoreResultsExist(), ReadMoreResult, and
	// ServerMoreResultsExists in the status of every result but the last). nil = nothing streamed.
	Stream func(c *rigConn, sql string) (moreRowChunks int, moreResults int)
	// CmdTag is set by the driver before each client command to attribute events.
	CmdTag int64
}

func newRigBackend() *rigBackend { return &rigBackend{conns: map[int64]*rigConn{}} }

// SetCmd tags following events with the client command number.
func (b *rigBackend) SetCmd(n int64) { atomic.StoreInt64(&b.CmdTag, n) }

// Events returns a copy of the log from index `from`.
func (b *rigBackend) Events(from int) []rigEvent {
	b.mu.Lock()
	defer b.mu.Unlock()
	if from > len(b.events) {
		from = len(b.events)
	}
	return append([]rigEvent(nil), b.events[from:]...)
}

// Len is the current length of the log.
func (b *rigBackend) Len() int {
	b.mu.Lock()
	defer b.mu.Unlock()
	return len(b.events)
}

// rigConnInfo is a snapshot of a fake connection's ledger.
type rigConnInfo struct {
	ID         int64
	NS         string
	Gen        int
	Slice      string
	Role       string
	Taken      bool
	Closed     bool
	InTx       bool
	Autocommit bool
	Takes      int
	Returns    int
	DB         string
	Check      bool
}

// Conns snapshots every fake connection ever created.
func (b *rigBackend) Conns() []rigConnInfo {
	b.mu.Lock()
	defer b.mu.Unlock()
	out := make([]rigConnInfo, 0, len(b.conns))
	for id := int64(1); id <= b.nextConn; id++ {
		c := b.conns[id]
		if c == nil {
			continue
		}
		out = append(out, rigConnInfo{ID: c.id, NS: c.pool.ns, Gen: c.pool.gen, Slice: c.pool.slice, Role: c.pool.role, Taken: c.taken, Closed: c.closed,
			InTx: c.inTx, Autocommit: c.autocommit, Takes: c.takes, Returns: c.returns, DB: c.db, Check: c.check})
	}
	return out
}

// rigPool is a fake backend.ConnectionPool.
type rigPool struct {
	b         *rigBackend
	ns        string
	gen       int
	slice     string
	role      string
	addr      string
	dc        string
	idle      []*rigConn
	closed    bool
	inUse     int64
	lastCheck int64
}

func (b *rigBackend) newPool(ns string, gen int, slice, role, addr, dc string) *rigPool {
	p := &rigPool{b: b, ns: ns, gen: gen, slice: slice, role: role, addr: addr, dc: dc, lastCheck: time.Now().Unix()}
	b.mu.Lock()
	b.pools = append(b.pools, p)
	b.mu.Unlock()
	return p
}

func (p *rigPool) ev(op string) rigEvent {
	return rigEvent{NS: p.ns, Gen: p.gen, Slice: p.slice, Role: p.role, Op: op}
}

func (p *rigPool) get(check bool) (backend.PooledConnect, error) {
	b := p.b
	b.mu.Lock()
	op := "get"
	if check {
		op = "getcheck"
	}
	e := p.ev(op)
	e.Seq = len(b.events)
	e.Cmd = atomic.LoadInt64(&b.CmdTag)
	e.Check = check
	var f *rigFault
	if b.Fault != nil {
		f = b.Fault(&e)
	}
	if f != nil && f.Err != nil {
		e.Fault, e.Err = f.Name, f.Err.Error()
		b.events = append(b.events, e)
		b.mu.Unlock()
		return nil, f.Err
	}
	if p.closed {
		e.Err = "pool closed"
		b.events = append(b.events, e)
		b.mu.Unlock()
		return nil, errors.New("rig: pool closed")
	}
	var c *rigConn
	for len(p.idle) > 0 {
		c = p.idle[len(p.idle)-1]
		p.idle = p.idle[:len(p.idle)-1]
		if !c.closed {
			break
		}
		c = nil
	}
	if c == nil {
		b.nextConn++
		c = &rigConn{pool: p, id: b.nextConn, autocommit: true, charset: "", vars: mysql.NewSessionVariables()}
		b.conns[c.id] = c
	}
	c.taken = true
	c.takes++
	c.check = check
	p.inUse++
	e.Conn = c.id
	e.Taken = true
	b.events = append(b.events, e)
	b.mu.Unlock()
	return c, nil
}

func (p *rigPool) Open() error        { return nil }
func (p *rigPool) Addr() string       { return p.addr }
func (p *rigPool) Datacenter() string { return p.dc }
func (p *rigPool) Close() {
	p.b.mu.Lock()
	p.closed = true
	e := p.ev("poolclose")
	e.Seq = len(p.b.events)
	e.Cmd = atomic.LoadInt64(&p.b.CmdTag)
	p.b.events = append(p.b.events, e)
	p.b.mu.Unlock()
}
func (p *rigPool) Get(ctx context.Context) (backend.PooledConnect, error) { return p.get(false) }
func (p *rigPool) GetCheck(ctx context.Context) (backend.PooledConnect, error) {
	return p.get(true)
}
func (p *rigPool) Put(pc backend.PooledConnect) {
	if c, ok := pc.(*rigConn); ok {
		c.Recycle()
	}
}
func (p *rigPool) SetCapacity(capacity int) error           { return nil }
func (p *rigPool) SetIdleTimeout(idleTimeout time.Duration) {}
func (p *rigPool) StatsJSON() string                        { return "{}" }
func (p *rigPool) Capacity() int64                          { return 64 }
func (p *rigPool) Available() int64                         { return 64 - p.InUse() }
func (p *rigPool) Active() int64                            { return p.InUse() }
func (p *rigPool) InUse() int64 {
	p.b.mu.Lock()
	defer p.b.mu.Unlock()
	return p.inUse
}
func (p *rigPool) MaxCap() int64              { return 128 }
func (p *rigPool) WaitCount() int64           { return 0 }
func (p *rigPool) WaitTime() time.Duration    { return 0 }
func (p *rigPool) IdleTimeout() time.Duration { return time.Hour }
func (p *rigPool) IdleClosed() int64          { return 0 }
func (p *rigPool) SetLastChecked()            { atomic.StoreInt64(&p.lastCheck, time.Now().Unix()) }
func (p *rigPool) GetLastChecked() int64      { return atomic.LoadInt64(&p.lastCheck) }

// rigConn is a fake backend.PooledConnect with a ledger.
type rigConn struct {
	pool       *rigPool
	id         int64
	taken      bool
	closed     bool
	check      bool
	takes      int
	returns    int
	inTx       bool
	autocommit bool
	db         string
	charset    string
	collation  mysql.CollationID
	vars       *mysql.SessionVariables
	returnTime time.Time
	// streaming state of the last exec (guarded by the backend lock)
	moreRows    int
	moreResults int
}

// call logs one call and applies the fault script. It returns the fault (possibly nil)
// after having blocked / closed as the fault demands. mutate runs under the lock when the
// call is not failed by the fault.
func (c *rigConn) call(op, sql, arg string, mutate func()) error {
	b := c.pool.b
	b.mu.Lock()
	e := c.pool.ev(op)
	e.Seq = len(b.events)
	e.Cmd = atomic.LoadInt64(&b.CmdTag)
	e.Conn, e.SQL, e.Arg, e.Taken, e.Closed, e.Check = c.id, sql, arg, c.taken, c.closed, c.check
	var f *rigFault
	if b.Fault != nil {
		f = b.Fault(&e)
	}
	var err error
	if f != nil {
		e.Fault = f.Name
		err = f.Err
		if f.CloseConn {
			c.closed = true
		}
	}
	if err == nil && c.closed && f == nil && op != "close" && op != "recycle" {
		err = mysql.ErrBadConn
	}
	if err == nil && mutate != nil {
		mutate()
	}
	if err != nil {
		e.Err = err.Error()
	}
	idx := len(b.events)
	b.events = append(b.events, e)
	b.mu.Unlock()
	_ = idx
	if f != nil && f.Block != nil {
		<-f.Block
	}
	return err
}

func (c *rigConn) Recycle() {
	b := c.pool.b
	b.mu.Lock()
	e := c.pool.ev("recycle")
	e.Seq = len(b.events)
	e.Cmd = atomic.LoadInt64(&b.CmdTag)
	e.Conn, e.Taken, e.Closed, e.Check = c.id, c.taken, c.closed, c.check
	if c.taken {
		c.taken = false
		c.returns++
		c.pool.inUse--
		c.returnTime = time.Now()
		if !c.closed {
			// connectionPoolImpl.Put -> ResetConnection: a returned connection is rolled
			// back and set to autocommit=1 before it is handed out again
			c.inTx, c.autocommit = false, true
			c.moreRows, c.moreResults = 0, 0
		}
		if !c.closed && !c.pool.closed {
			c.pool.idle = append(c.pool.idle, c)
		}
	} else {
		e.Err = "recycle of a connection that is not checked out"
	}
	b.events = append(b.events, e)
	b.mu.Unlock()
}

func (c *rigConn) Reconnect() error {
	return c.call("reconnect", "", "", func() { c.closed = false; c.inTx = false; c.autocommit = true })
}
func (c *rigConn) Close() { c.call("close", "", "", func() { c.closed = true; c.inTx = false }) }
func (c *rigConn) IsClosed() bool {
	c.pool.b.mu.Lock()
	defer c.pool.b.mu.Unlock()
	return c.closed
}
func (c *rigConn) UseDB(db string) error {
	return c.call("usedb", "", db, func() { c.db = db })
}

func rigFirstWord(sql string) string {
	s := strings.TrimSpace(sql)
	for strings.HasPrefix(s, "/*") {
		i := strings.Index(s, "*/")
		if i < 0 {
			break
		}
		s = strings.TrimSpace(s[i+2:])
	}
	s = strings.TrimLeft(s, "(")
	for i, r := range s {
		if !(r >= 'a' && r <= 'z' || r >= 'A' && r <= 'Z' || r == '_') {
			return strings.ToLower(s[:i])
		}
	}
	return strings.ToLower(s)
}

// rigDefaultRespond answers reads with a one-row result set and everything else with OK.
func rigDefaultRespond(c *rigConn, sql string) (*mysql.Result, error) {
	switch rigFirstWord(sql) {
	case "select", "show", "desc", "describe", "explain":
		rs, err := mysql.BuildResultset(nil, []string{"c"}, [][]interface{}{{int64(1)}})
		if err != nil {
			return nil, err
		}
		return &mysql.Result{Status: c.status(), Resultset: rs}, nil
	}
	return &mysql.Result{Status: c.status(), AffectedRows: 1}, nil
}

func (c *rigConn) status() uint16 {
	var s uint16
	if c.autocommit {
		s |= mysql.ServerStatusAutocommit
	}
	if c.inTx {
		s |= mysql.ServerStatusInTrans
	}
	return s
}

func (c *rigConn) Execute(sql string, maxRows int) (*mysql.Result, error) {
	err := c.call("exec", sql, "", func() {
		switch rigFirstWord(sql) {
		case "begin", "start":
			c.inTx = true
		case "commit", "rollback":
			if !strings.Contains(strings.ToLower(sql), " to ") {
				c.inTx = false
			}
		default:
			if !c.autocommit {
				c.inTx = true
			}
		}
	})
	if err != nil {
		return nil, err
	}
	var res *mysql.Result
	if r := c.pool.b.Respond; r != nil {
		res, err = r(c, sql)
	} else {
		res, err = rigDefaultRespond(c, sql)
	}
	b := c.pool.b
	b.mu.Lock()
	c.moreRows, c.moreResults = 0, 0
	if st := b.Stream; st != nil && err == nil && res != nil {
		c.moreRows, c.moreResults = st(c, sql)
		if c.moreResults > 0 {
			res.Status |= mysql.ServerMoreResultsExists
		}
	}
	b.mu.Unlock()
	return res, err
}
func (c *rigConn) ExecuteWithTimeout(sql string, maxRows int, timeout time.Duration) (*mysql.Result, error) {
	return c.Execute(sql, maxRows)
}
func (c *rigConn) SetAutoCommit(v uint8) error {
	return c.call("autocommit", "", fmt.Sprint(v), func() {
		c.autocommit = v != 0
		if v != 0 {
			c.inTx = false
		}
	})
}
func (c *rigConn) Begin() error    { return c.call("begin", "", "", func() { c.inTx = true }) }
func (c *rigConn) Commit() error   { return c.call("commit", "", "", func() { c.inTx = false }) }
func (c *rigConn) Rollback() error { return c.call("rollback", "", "", func() { c.inTx = false }) }
func (c *rigConn) Ping() error     { return c.call("ping", "", "", nil) }
func (c *rigConn) PingWithTimeout(timeout time.Duration) error {
	return c.call("ping", "", "", nil)
}
func (c *rigConn) SetCharset(charset string, collation mysql.CollationID) (bool, error) {
	changed := false
	err := c.call("setcharset", "", fmt.Sprintf("%s/%d", charset, collation), func() {
		if c.charset != charset || c.collation != collation {
			changed = true
			c.charset, c.collation = charset, collation
		}
	})
	return changed, err
}
func (c *rigConn) FieldList(table string, wildcard string) ([]*mysql.Field, error) {
	if err := c.call("fieldlist", "", table+"|"+wildcard, nil); err != nil {
		return nil, err
	}
	return []*mysql.Field{{Name: []byte("c"), Type: mysql.TypeLonglong}}, nil
}
func (c *rigConn) GetAddr() string { return c.pool.addr }
func (c *rigConn) SetSessionVariables(frontend *mysql.SessionVariables) (bool, error) {
	var changed bool
	var serr error
	err := c.call("setvars", "", "", func() { changed, serr = c.vars.SetEqualsWith(frontend) })
	if err == nil {
		err = serr
	}
	return changed, err
}
func (c *rigConn) SyncSessionVariables(frontend *mysql.SessionVariables) error {
	var serr error
	err := c.call("syncvars", "", "", func() { _, serr = c.vars.SetEqualsWith(frontend) })
	if err == nil {
		err = serr
	}
	return err
}
func (c *rigConn) WriteSetStatement() error {
	return c.call("writeset", "", "", func() { c.vars.GetUnusedAndClear() })
}
func (c *rigConn) GetConnectionID() int64   { return c.id }
func (c *rigConn) GetReturnTime() time.Time { return c.returnTime }
func (c *rigConn) MoreRowsExist() bool {
	c.pool.b.mu.Lock()
	defer c.pool.b.mu.Unlock()
	return c.moreRows > 0
}
func (c *rigConn) MoreResultsExist() bool {
	c.pool.b.mu.Lock()
	defer c.pool.b.mu.Unlock()
	return c.moreResults > 0
}

// FetchMoreRows delivers the next chunk (one text row "1") of a streamed result set.
func (c *rigConn) FetchMoreRows(result *mysql.Result, maxRows int) error {
	fetched := false
	err := c.call("fetchmore", "", "", func() {
		if c.moreRows > 0 {
			c.moreRows--
			fetched = true
		}
	})
	if err != nil {
		return err
	}
	if fetched && result != nil && result.Resultset != nil {
		result.RowDatas = append(result.RowDatas, mysql.RowData{1, '1'})
	}
	return nil
}

// ReadMoreResult delivers the next result set of a multi-result answer.
func (c *rigConn) ReadMoreResult(maxRows int) (*mysql.Result, error) {
	more := false
	var status uint16
	err := c.call("readmore", "", "", func() {
		if c.moreResults > 0 {
			c.moreResults--
		}
		more = c.moreResults > 0
		status = c.status()
	})
	if err != nil {
		return nil, err
	}
	rs, err := mysql.BuildResultset(nil, []string{"c"}, [][]interface{}{{int64(1)}})
	if err != nil {
		return nil, err
	}
	if more {
		status |= mysql.ServerMoreResultsExists
	}
	return &mysql.Result{Status: status, Resultset: rs}, nil
}

// ---------------------------------------------------------------- rig

type rigOpts struct {
	Namespaces        []*models.Namespace
	FakePools         bool
	SessionTimeoutSec int    // default 3600
	ServerVersion     string // default 5.7.25-gaea
	AuthPlugin        string
	HealthCheck       bool // keep the namespaces' health-check goroutines running (default: stopped)
}

type rig struct {
	t      testing.TB
	dir    string
	cfg    *models.Proxy
	m      *Manager
	s      *Server
	B      *rigBackend // nil unless FakePools
	opts   rigOpts
	gen    map[string]int
	wg     sync.WaitGroup
	closed int32
	connMu sync.Mutex
	conns  []net.Conn
}

// rigProxyCfg is the models.Proxy every rig uses (logs into dir).
func rigProxyCfg(dir string, o rigOpts) *models.Proxy {
	st := o.SessionTimeoutSec
	if st == 0 {
		st = 3600
	}
	sv := o.ServerVersion
	if sv == "" {
		sv = "5.7.25-gaea"
	}
	return &models.Proxy{ConfigType: "file", Service: "gaea_proxy", Cluster: "gaea", Environ: "local",
		LogPath: dir, LogLevel: "Notice", LogFileName: "gaea", LogOutput: "file",
		ProtoType: "tcp4", ProxyAddr: "127.0.0.1:0", AdminAddr: "127.0.0.1:0", AdminUser: "admin", AdminPassword: "admin",
		SlowSQLTime: 100000, SessionTimeout: st, StatsEnabled: "false", StatsInterval: 3600,
		EncryptKey: "1234abcd5678efg*", ServerVersion: sv, AuthPlugin: o.AuthPlugin}
}

// rigNewManager builds a real Manager from namespace configs without starting health
// checks (unless asked), exactly as CreateManager does otherwise.
func rigNewManager(cfg *models.Proxy, o rigOpts) (*Manager, error) {
	m := NewManager()
	sm, err := CreateStatisticManager(cfg, m)
	if err != nil {
		return nil, err
	}
	m.statistics = sm
	current, _, _ := m.switchIndex.Get()
	nsMgr := NewNamespaceManager()
	idc, err := util.GetLocalDatacenter(cfg.ServerIdc)
	if err != nil {
		idc = DefaultDatacenter
	}
	nsMgr.serverIDC = idc
	cfgs := map[string]*models.Namespace{}
	for _, c := range o.Namespaces {
		cfgs[c.Name] = c
		ns, err := NewNamespace(c, idc)
		if err != nil {
			return nil, fmt.Errorf("NewNamespace(%s): %v", c.Name, err)
		}
		if o.HealthCheck {
			ns.Init()
		}
		nsMgr.namespaces[ns.name] = ns
		m.statistics.SQLResponsePercentile[ns.name] = NewSQLResponse(ns.name)
	}
	m.namespaces[current] = nsMgr
	um, err := CreateUserManager(cfgs)
	if err != nil {
		return nil, err
	}
	m.users[current] = um
	return m, nil
}

// rigInstallFakes replaces every real pool of ns by a fake of generation gen.
func (b *rigBackend) rigInstallFakes(ns *Namespace, gen int) {
	for name, sl := range ns.slices {
		repl := func(info *backend.DBInfo, role string, numbered bool) {
			if info == nil {
				return
			}
			for i, node := range info.Nodes {
				if node.ConnPool != nil {
					node.ConnPool.Close()
				}
				r := role
				if numbered {
					r = fmt.Sprintf("%s#%d", role, i)
				}
				node.ConnPool = b.newPool(ns.name, gen, name, r, node.Address, node.Datacenter)
			}
		}
		repl(sl.Master, "master", false)
		repl(sl.Slave, "slave", true)
		repl(sl.StatisticSlave, "stat", true)
		repl(sl.MonitorMaster, "monmaster", false)
		repl(sl.MonitorSlave, "monslave", true)
	}
}

// rigStart builds the stack and starts accepting client connections on loopback.
func rigStart(t testing.TB, o rigOpts) *rig {
	rigQuietLogs()
	dir, err := ioutil.TempDir("", "verifrig")
	if err != nil {
		t.Fatalf("rig: %v", err)
	}
	r := &rig{t: t, dir: dir, opts: o, gen: map[string]int{}}
	r.cfg = rigProxyCfg(dir, o)
	m, err := rigNewManager(r.cfg, o)
	if err != nil {
		os.RemoveAll(dir)
		t.Fatalf("rig: manager: %v", err)
	}
	r.m = m
	if o.FakePools {
		r.B = newRigBackend()
		cur, _, _ := m.switchIndex.Get()
		for _, ns := range m.namespaces[cur].namespaces {
			r.B.rigInstallFakes(ns, 0)
		}
	}
	s := new(Server)
	s.EncryptKey = r.cfg.EncryptKey
	s.ServerConfig = r.cfg
	s.manager = m
	s.ServerVersion = util.CompactServerVersion(r.cfg.ServerVersion)
	s.ServerVersionCompareStatus = util.NewVersionCompareStatus(r.cfg.ServerVersion)
	s.AuthPlugin = r.cfg.AuthPlugin
	s.sessionTimeout = time.Duration(r.cfg.SessionTimeout) * time.Second
	s.listener, err = net.Listen("tcp4", "127.0.0.1:0")
	if err != nil {
		t.Fatalf("rig: listen: %v", err)
	}
	s.tw, err = util.NewTimeWheel(timeWheelUnit, timeWheelBucketsNum)
	if err != nil {
		t.Fatalf("rig: time wheel: %v", err)
	}
	s.tw.Start()
	r.s = s
	r.wg.Add(1)
	go func() {
		defer r.wg.Done()
		for {
			c, err := s.listener.Accept()
			if err != nil {
				return
			}
			r.connMu.Lock()
			r.conns = append(r.conns, c)
			r.connMu.Unlock()
			r.wg.Add(1)
			go func() {
				defer r.wg.Done()
				s.onConn(c) // the real per-connection entry point
			}()
		}
	}()
	return r
}

func (r *rig) Addr() string      { return r.s.listener.Addr().String() }
func (r *rig) Manager() *Manager { return r.m }

// Dial connects a mycli client and authenticates.
func (r *rig) Dial(user, password, db string) (*mycli.Conn, error) {
	return mycli.Dial(r.Addr(), mycli.Options{User: user, Password: password, DB: db, Timeout: 60 * time.Second})
}

// DialRaw opens a TCP connection without handshaking.
func (r *rig) DialRaw() (net.Conn, error) {
	return net.DialTimeout("tcp", r.Addr(), 10*time.Second)
}

// Reload performs prepare + (fake installation) + commit of a namespace config on the real
// Manager, and stops the health checks the commit starts (unless HealthCheck is set).
func (r *rig) Reload(cfg *models.Namespace) error {
	if err := r.m.ReloadNamespacePrepare(cfg); err != nil {
		return err
	}
	_, other, _ := r.m.switchIndex.Get()
	nsNew := r.m.namespaces[other].GetNamespace(cfg.Name)
	if r.B != nil && nsNew != nil {
		r.gen[cfg.Name]++
		r.B.rigInstallFakes(nsNew, r.gen[cfg.Name])
	}
	if err := r.m.ReloadNamespaceCommit(cfg.Name); err != nil {
		return err
	}
	if !r.opts.HealthCheck && nsNew != nil {
		nsNew.CloseCancel()
	}
	return nil
}

// WaitSessions waits until every accepted connection's onConn has returned (after the
// clients have disconnected), or the timeout elapses. Returns false on timeout.
func (r *rig) WaitSessions(timeout time.Duration) bool {
	done := make(chan struct{})
	go func() {
		// the accept loop itself is part of wg; wait on a polling basis instead
		for {
			if r.activeSessions() == 0 {
				close(done)
				return
			}
			time.Sleep(2 * time.Millisecond)
		}
	}()
	select {
	case <-done:
		return true
	case <-time.After(timeout):
		return false
	}
}

var rigActive int64

func (r *rig) activeSessions() int {
	// a session is active while its client socket is still open on the server side
	r.connMu.Lock()
	defer r.connMu.Unlock()
	n := 0
	for _, c := range r.conns {
		if tc, ok := c.(*net.TCPConn); ok {
			// a closed *net.TCPConn returns an error from SetDeadline
			if err := tc.SetReadDeadline(time.Time{}); err == nil {
				n++
			}
		}
	}
	return n
}

// Close shuts the rig down and removes its temp dir.
func (r *rig) Close() {
	if !atomic.CompareAndSwapInt32(&r.closed, 0, 1) {
		return
	}
	r.s.listener.Close()
	r.connMu.Lock()
	for _, c := range r.conns {
		c.Close()
	}
	r.connMu.Unlock()
	done := make(chan struct{})
	go func() { r.wg.Wait(); close(done) }()
	select {
	case <-done:
	case <-time.After(20 * time.Second):
	}
	r.s.tw.Stop()
	cur, _, _ := r.m.switchIndex.Get()
	for _, ns := range r.m.namespaces[cur].namespaces {
		ns.Close(false)
	}
	r.m.statistics.Close()
	if r.m.statistics.generalLogger != nil {
		r.m.statistics.generalLogger.Close()
	}
	os.RemoveAll(r.dir)
}

// ---------------------------------------------------------------- config helpers

// rigUser builds a user entry. rwFlag: 1 read-only, 2 read-write; rwSplit 0/1.
func rigUser(ns, name, pw string, rwFlag, rwSplit int) *models.User {
	return &models.User{UserName: name, Password: pw, Namespace: ns, RWFlag: rwFlag, RWSplit: rwSplit}
}

// rigSlice builds a slice entry with nSlaves replicas (addresses are placeholders for
// fake pools; give real addresses for wire rigs).
func rigSlice(name, master string, slaves []string) *models.Slice {
	return &models.Slice{Name: name, UserName: "root", Password: "root", Master: master, Slaves: slaves,
		Capacity: 4, MaxCapacity: 8, IdleTimeout: 3600}
}

// rigBasicNamespace is a two-slice namespace with one sharded (mod on id, 2 tables per
// slice), and users rw / rws (rw-split) / ro (read-only, rw-split).
func rigBasicNamespace(name string) *models.Namespace {
	return &models.Namespace{
		Name: name, Online: true,
		AllowedDBS:    map[string]bool{"db": true},
		DefaultPhyDBS: map[string]string{"db": "db"},
		Slices: []*models.Slice{
			rigSlice("slice-0", "127.0.0.1:13306", []string{"127.0.0.1:13307", "127.0.0.1:13308"}),
			rigSlice("slice-1", "127.0.0.1:23306", []string{"127.0.0.1:23307"}),
		},
		ShardRules: []*models.Shard{
			{DB: "db", Table: "tbl_shard", Type: "mod", Key: "id", Locations: []int{2, 2}, Slices: []string{"slice-0", "slice-1"}},
		},
		Users: []*models.User{
			rigUser(name, name+"_rw", "pw_rw", models.ReadWrite, models.NoReadWriteSplit),
			rigUser(name, name+"_rws", "pw_rws", models.ReadWrite, models.ReadWriteSplit),
			rigUser(name, name+"_ro", "pw_ro", models.ReadOnly, models.ReadWriteSplit),
		},
		DefaultSlice:      "slice-0",
		MaxSqlExecuteTime: 0,
		SupportMultiQuery: true,
	}
}
