package server

// C33 part b — "... loaded by a proxy from the coordinator or from its LOCAL COPY": the path
// that lives in proxy/server. Namespaces are saved encrypted through the real models.Store
// into the fake etcd (verifkit/cc) exactly as the control plane does (Verify, Encrypt,
// UpdateNamespace); a proxy configured with coordinator + local_namespace_storage_path starts
// (real LoadAllNamespace -> loadNamespacesFromClient -> SyncNamespaces ->
// persistenceEncryptNamespaces); then the proxy starts again with the coordinator unreachable
// and loads from its local copy only (LoadDecryptNamespaces on the real LocalClient). Both
// results must be deep-equal to the submission after Verify's own normalisation. A second
// generation (one namespace modified, one deleted, one added in the coordinator, proxy
// re-synchronised) must leave the local copy equal to the coordinator's new content.

import (
	"bytes"
	"fmt"
	"io/ioutil"
	"os"
	"path/filepath"
	"reflect"
	"sort"
	"strconv"
	"strings"
	"testing"

	"github.com/XiaoMi/Gaea/log"
	"github.com/XiaoMi/Gaea/models"
	kit "github.com/XiaoMi/Gaea/verifkit"
	cckit "github.com/XiaoMi/Gaea/verifkit/cc"
)

type c33bNullLog struct{}

func (c33bNullLog) SetLevel(name, level string) error                    { return nil }
func (c33bNullLog) Debug(format string, a ...interface{}) error          { return nil }
func (c33bNullLog) Trace(format string, a ...interface{}) error          { return nil }
func (c33bNullLog) Notice(format string, a ...interface{}) error         { return nil }
func (c33bNullLog) Warn(format string, a ...interface{}) error           { return nil }
func (c33bNullLog) Fatal(format string, a ...interface{}) error          { return nil }
func (c33bNullLog) Debugx(logID, format string, a ...interface{}) error  { return nil }
func (c33bNullLog) Tracex(logID, format string, a ...interface{}) error  { return nil }
func (c33bNullLog) Noticex(logID, format string, a ...interface{}) error { return nil }
func (c33bNullLog) Warnx(logID, format string, a ...interface{}) error   { return nil }
func (c33bNullLog) Fatalx(logID, format string, a ...interface{}) error  { return nil }
func (c33bNullLog) Close()                                               {}
func (c33bNullLog) Dropped(i int) uint64                                 { return 0 }

// c33bCase: everything is a function of these fields.
type c33bCase struct {
	Part    string `json:"part"` // "sync"
	State   uint64 `json:"prng_state"`
	NameCls string `json:"name_class"`
	CredCls string `json:"cred_class"`
	KeyLen  int    `json:"key_len"`
	Count   int    `json:"count"` // namespaces in the coordinator
	Gen2    bool   `json:"gen2"`  // also the second generation
}

var c33bNameClasses = []string{"plain", "dotted", "unicode", "innerspace"}
var c33bCredClasses = []string{"ascii", "padded", "badutf8", "allbytes", "len15", "len16", "len17", "len32", "quotes", "nul", "long"}

func c33bCred(cls string, r *kit.Rand) string {
	switch cls {
	case "padded":
		return "  pad" + strconv.Itoa(r.Intn(100000)) + "\t "
	case "badutf8":
		return string([]byte{0xff, 0xfe, 'a', 0x80, byte(r.Intn(256)), byte(r.Intn(256)), 0xc3, 0x28, 'z'})
	case "allbytes":
		b := make([]byte, 256)
		for i := range b {
			b[i] = byte(i + 1)
		}
		return "x" + strconv.Itoa(r.Intn(100000)) + string(b) + "y"
	case "len15", "len16", "len17", "len32":
		n, _ := strconv.Atoi(cls[3:])
		b := r.Bytes(n)
		b[0], b[n-1] = 'k', 'z'
		return string(b)
	case "quotes":
		return "a\"b'c\\d`e" + strconv.Itoa(r.Intn(100000))
	case "nul":
		return "a\x00b" + strconv.Itoa(r.Intn(100000))
	case "long":
		return "L" + string(bytes.Repeat([]byte{0xe2, 0x82, 0xac}, 200)) + strconv.Itoa(r.Intn(100000))
	}
	return "user_" + strconv.Itoa(r.Intn(1000000))
}

func c33bName(cls string, i int) string {
	base := "ns" + strconv.Itoa(i)
	switch cls {
	case "dotted":
		return base + ".prod-eu_1"
	case "unicode":
		return base + "_数据库_ß"
	case "innerspace":
		return base + " with space"
	}
	return base
}

// c33bGen builds the i-th submitted namespace of a case in the given version; two calls give
// independent identical values.
func c33bGen(c c33bCase, i, version int) *models.Namespace {
	r := kit.NewRand(c.State + uint64(i)*7919 + uint64(version)*104729)
	name := c33bName(c.NameCls, i)
	n := &models.Namespace{Name: name, Online: true, AllowedDBS: map[string]bool{"db1": true}, MaxSqlExecuteTime: 1000 + version,
		DefaultSlice: "slice-0", SlowSQLTime: "100"}
	for u := 0; u < 1+r.Intn(3); u++ {
		n.Users = append(n.Users, &models.User{UserName: "u" + strconv.Itoa(u) + c33bCred(c.CredCls, r), Password: c33bCred(c.CredCls, r),
			Namespace: name, RWFlag: r.Range(1, 2), RWSplit: r.Intn(2)})
	}
	for s := 0; s < 1+r.Intn(2); s++ {
		n.Slices = append(n.Slices, &models.Slice{Name: "slice-" + strconv.Itoa(s), UserName: "b" + c33bCred(c.CredCls, r), Password: c33bCred(c.CredCls, r),
			Master: "127.0.0.1:3306", Slaves: []string{"127.0.0.1:3307"}, Capacity: 2, MaxCapacity: 4, IdleTimeout: 60})
	}
	return n
}

func c33bDiff(got, want *models.Namespace) string {
	if got == nil {
		return "missing"
	}
	g := *got
	g.IsEncrypt = want.IsEncrypt
	if reflect.DeepEqual(&g, want) {
		return ""
	}
	gv, wv := reflect.ValueOf(g), reflect.ValueOf(*want)
	for i := 0; i < gv.NumField(); i++ {
		if !reflect.DeepEqual(gv.Field(i).Interface(), wv.Field(i).Interface()) {
			return "differs:" + gv.Type().Field(i).Name
		}
	}
	return "differs"
}

type c33bOutcome struct {
	Case     c33bCase `json:"case"`
	Rejected string   `json:"rejected,omitempty"`
	Clauses  []string `json:"clauses,omitempty"`
	Errors   []string `json:"errors,omitempty"`
}

var c33bSeq int

func c33bRun(fake *cckit.FakeEtcd, tmp string, c c33bCase) (out c33bOutcome) {
	out.Case = c
	defer func() {
		if p := recover(); p != nil {
			out.Clauses = append(out.Clauses, "panic")
			out.Errors = append(out.Errors, fmt.Sprint(p))
		}
		sort.Strings(out.Clauses)
	}()
	c33bSeq++
	root := "/c33b_" + strconv.Itoa(c33bSeq)
	dir := filepath.Join(tmp, "local_"+strconv.Itoa(c33bSeq))
	defer os.RemoveAll(dir)
	key := string(kit.NewRand(c.State ^ 0x5bd1e995).Bytes(c.KeyLen))
	remote, err := models.NewClient(models.ConfigEtcd, fake.URL(), "", "", root)
	if err != nil {
		out.Rejected = "etcd client: " + err.Error()
		return
	}
	rstore := models.NewStore(remote)
	defer func() {
		for _, k := range fake.Keys(root) {
			fake.Del(k)
		}
	}()
	fail := func(clause string, err error) {
		for _, x := range out.Clauses {
			if x == clause {
				return
			}
		}
		out.Clauses = append(out.Clauses, clause)
		if err != nil {
			out.Errors = append(out.Errors, clause+": "+err.Error())
		}
	}
	// save the way cc/service.ModifyNamespace does
	save := func(i, version int) (*models.Namespace, bool) {
		want := c33bGen(c, i, version)
		if err := want.Verify(); err != nil {
			out.Rejected = "verify: " + err.Error()
			return nil, false
		}
		sub := c33bGen(c, i, version)
		if err := sub.Verify(); err != nil {
			out.Rejected = "verify: " + err.Error()
			return nil, false
		}
		if err := sub.Encrypt(key); err != nil {
			out.Rejected = "encrypt: " + err.Error()
			return nil, false
		}
		if err := rstore.UpdateNamespace(sub); err != nil {
			out.Rejected = "store: " + err.Error()
			return nil, false
		}
		return want, true
	}
	want := map[string]*models.Namespace{}
	for i := 0; i < c.Count; i++ {
		w, ok := save(i, 0)
		if !ok {
			return
		}
		want[w.Name] = w
	}
	cfgUp := &models.Proxy{ConfigType: models.ConfigEtcd, CoordinatorAddr: fake.URL(), CoordinatorRoot: root, LocalNamespaceStoragePath: dir, EncryptKey: key}
	cfgDown := &models.Proxy{ConfigType: models.ConfigEtcd, CoordinatorAddr: "http://127.0.0.1:1", CoordinatorRoot: root, LocalNamespaceStoragePath: dir, EncryptKey: key}
	cfgRemoteOnly := &models.Proxy{ConfigType: models.ConfigEtcd, CoordinatorAddr: fake.URL(), CoordinatorRoot: root, EncryptKey: key}
	compare := func(stage string, got map[string]*models.Namespace, err error) {
		if err != nil {
			fail(stage+":load-error", err)
			return
		}
		for name, w := range want {
			if d := c33bDiff(got[name], w); d != "" {
				fail(stage+":"+d, nil)
			}
		}
		for name := range got {
			if _, ok := want[name]; !ok {
				fail(stage+":unexpected-namespace", nil)
			}
		}
	}
	stages := func(gen string) {
		got, err := LoadAllNamespace(cfgRemoteOnly) // proxy without a local copy
		compare(gen+"coordinator-only", got, err)
		got, err = LoadAllNamespace(cfgUp) // start-up with coordinator and local storage: SyncNamespaces
		compare(gen+"sync", got, err)
		got, err = LoadAllNamespace(cfgDown) // restart with the coordinator unreachable: local copy only
		compare(gen+"local-copy-only", got, err)
		got, err = LoadAllNamespace(cfgUp) // and once more with the coordinator back
		compare(gen+"resync", got, err)
	}
	stages("")
	if c.Gen2 {
		// second generation in the coordinator: namespace 0 modified, the last one deleted
		// (when there are several), a new one added; the proxy re-synchronises
		w, ok := save(0, 1)
		if !ok {
			return
		}
		want[w.Name] = w
		if c.Count > 1 {
			last := c33bName(c.NameCls, c.Count-1)
			if err := rstore.DelNamespace(last); err != nil {
				out.Rejected = "delete: " + err.Error()
				return
			}
			delete(want, last)
		}
		w, ok = save(c.Count, 0)
		if !ok {
			return
		}
		want[w.Name] = w
		stages("gen2.")
	}
	return
}

func c33bSig(c c33bCase, clauses []string) string {
	return fmt.Sprintf("sync|name=%s|cred=%s|keylen=%d|count=%d|gen2=%v|%s", c.NameCls, c.CredCls, c.KeyLen, c.Count, c.Gen2, strings.Join(clauses, "+"))
}

func c33bWeaker(c c33bCase) []c33bCase {
	var out []c33bCase
	if c.Gen2 {
		d := c
		d.Gen2 = false
		out = append(out, d)
	}
	if c.Count > 1 {
		d := c
		d.Count = 1
		out = append(out, d)
	}
	if c.NameCls != "plain" {
		d := c
		d.NameCls = "plain"
		out = append(out, d)
	}
	if c.CredCls != "ascii" {
		d := c
		d.CredCls = "ascii"
		out = append(out, d)
	}
	if c.KeyLen != 16 {
		d := c
		d.KeyLen = 16
		out = append(out, d)
	}
	return out
}

func TestVerif_C33b(t *testing.T) {
	rec := kit.Start("C33", "exploration",
		"part b (proxy/server): 1..4 namespaces (name class x credential class grid, key length 16/24/32) saved encrypted through the real Store into the fake etcd, then the real "+
			"LoadAllNamespace with coordinator only / coordinator + local storage (SyncNamespaces) / coordinator unreachable (local copy only) / coordinator back, and the same after a second "+
			"generation (one namespace modified, one deleted, one added); non-trivial = the local-copy-only load returned namespaces; key = (name class, credential class, key length, count, gen2)")
	defer rec.Finish(t)
	rec.Assume("the coordinator is a protocol-level fake of the etcd v2 keys API; 'unreachable' is a closed loopback port (immediate connection refused)")
	rec.Assume("is_encrypt is a storage flag and not part of the configuration that must round-trip; Verify's normalisation is taken as specification")
	log.SetGlobalLogger(c33bNullLog{})
	fake, err := cckit.NewFakeEtcd()
	if err != nil {
		rec.Inconclusive("fake etcd: " + err.Error())
		return
	}
	defer fake.Close()
	tmp, err := ioutil.TempDir("", "c33b_")
	if err != nil {
		rec.Inconclusive("temp dir: " + err.Error())
		return
	}
	defer os.RemoveAll(tmp)

	shrunk := map[string]c33bOutcome{}
	report := func(o c33bOutcome) {
		ck := c33bSig(o.Case, o.Clauses)
		cur, ok := shrunk[ck]
		if !ok {
			cur = o
			for changed := true; changed; {
				changed = false
				for _, w := range c33bWeaker(cur.Case) {
					wo := c33bRun(fake, tmp, w)
					if len(wo.Clauses) > 0 {
						cur, changed = wo, true
						break
					}
				}
			}
			shrunk[ck] = cur
		}
		rec.Violation(c33bSig(cur.Case, cur.Clauses), fmt.Sprintf("%d namespace(s), name class %s, credential class %s, key length %d: %s %v",
			cur.Case.Count, cur.Case.NameCls, cur.Case.CredCls, cur.Case.KeyLen, strings.Join(cur.Clauses, ", "), cur.Errors), cur)
	}
	if p := kit.ReplayPath(); p != "" {
		var o c33bOutcome
		if err := kit.LoadReplay(p, &o); err != nil || o.Case.Part != "sync" {
			// a witness of another part of C33; this part runs its plain baseline case
			o.Case = c33bCase{Part: "sync", State: 1, NameCls: "plain", CredCls: "ascii", KeyLen: 16, Count: 2, Gen2: true}
		}
		out := c33bRun(fake, tmp, o.Case)
		rec.Eval(1)
		rec.Sample(out)
		if len(out.Clauses) > 0 {
			report(out)
		}
		return
	}
	r := kit.SubRand(kit.Seed(), "C33b/sync")
	total := kit.N(300, 4000)
	for i := 0; i < total; i++ {
		c := c33bCase{Part: "sync", State: r.Uint64(), KeyLen: []int{16, 24, 32}[r.Intn(3)], Count: r.Range(1, 4), Gen2: r.Bool()}
		c.NameCls = c33bNameClasses[i%len(c33bNameClasses)]
		c.CredCls = c33bCredClasses[(i/len(c33bNameClasses))%len(c33bCredClasses)]
		o := c33bRun(fake, tmp, c)
		rec.Eval(1)
		rec.Count("sync.cases", 1)
		if o.Rejected != "" {
			rec.Count("sync.rejected", 1)
			continue
		}
		rec.Count("sync.loaded_from_local_copy", 1)
		rec.Nontrivial(fmt.Sprintf("sync|%s|%s|%d|%d|%v", c.NameCls, c.CredCls, c.KeyLen, c.Count, c.Gen2))
		if i%37 == 0 {
			rec.Sample(o)
		}
		if len(o.Clauses) > 0 {
			rec.Count("sync.refuted", 1)
			report(o)
		}
	}
	if rec.CounterValue("sync.loaded_from_local_copy") == 0 {
		rec.Inconclusive("no case reached the load from the local copy")
	}
}
