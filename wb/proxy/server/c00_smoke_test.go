package server

import (
	"fmt"
	"testing"

	"github.com/XiaoMi/Gaea/models"
	kit "github.com/XiaoMi/Gaea/verifkit"
)

func TestVerif_C00(t *testing.T) {
	rec := kit.Start("C00", "exploration", "smoke")
	defer rec.Finish(t)
	r := rigStart(t, rigOpts{Namespaces: rigSmokeNS(), FakePools: true})
	defer r.Close()
	c, err := r.Dial("ns1_rws", "pw_rws", "db")
	if err != nil {
		t.Fatal(err)
	}
	for i, q := range []string{"select 1", "begin", "update tbl_shard set a=1 where id=1", "update tbl_shard set a=1 where id in (1,2,3)", "select * from tbl_shard where id=2", "select * from t2", "commit", "select * from tbl_shard where id=1", "select * from t2", "insert into t2 values (1)"} {
		r.B.SetCmd(int64(i))
		rs, err := c.Query(q)
		fmt.Printf("Q %q -> err=%v", q, err)
		for _, x := range rs {
			fmt.Printf(" [ok=%v err=%v rows=%d status=%x]", x.IsOK, x.Err, len(x.Rows), x.Status)
		}
		fmt.Println()
		rec.Eval(1)
		rec.Nontrivial(q)
	}
	c.Quit()
	fmt.Println("wait:", r.WaitSessions(5e9))
	for _, e := range r.B.Events(0) {
		fmt.Println(e.String())
	}
	for _, ci := range r.B.Conns() {
		fmt.Printf("%+v\n", ci)
	}
	rec.Sample("smoke")
}

func rigSmokeNS() []*models.Namespace { return []*models.Namespace{rigBasicNamespace("ns1")} }
