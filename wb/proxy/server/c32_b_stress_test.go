package server

// C32 part b — two namespace changes of different namespaces reaching ONE proxy at the same
// moment, without any gating: the exact calls the admin handlers make
// (Server.ReloadNamespacePrepare(name, client) then Server.ReloadNamespaceCommit(name)) are
// issued by two administrators that start each round together, against a real Manager and a
// real Store (LocalClient) holding the encrypted configurations. The gated schedules of the
// main part order whole requests; this part lets the requests overlap inside the proxy.
//
// Oracle (C32 on one proxy): a change whose prepare and commit were both answered OK is
// reported successful by the control plane, so the proxy must run its new configuration; a
// change answered with an error must leave the proxy on the previous one; the other
// namespace and a bystander are affected by neither.

import (
	"fmt"
	"io/ioutil"
	"os"
	"path/filepath"
	"sort"
	"strings"
	"sync"
	"testing"
	"time"

	"github.com/XiaoMi/Gaea/log"
	"github.com/XiaoMi/Gaea/models"
	kit "github.com/XiaoMi/Gaea/verifkit"
)

type c32bNullLog struct{}

func (c32bNullLog) SetLevel(name, level string) error                    { return nil }
func (c32bNullLog) Debug(format string, a ...interface{}) error          { return nil }
func (c32bNullLog) Trace(format string, a ...interface{}) error          { return nil }
func (c32bNullLog) Notice(format string, a ...interface{}) error         { return nil }
func (c32bNullLog) Warn(format string, a ...interface{}) error           { return nil }
func (c32bNullLog) Fatal(format string, a ...interface{}) error          { return nil }
func (c32bNullLog) Debugx(logID, format string, a ...interface{}) error  { return nil }
func (c32bNullLog) Tracex(logID, format string, a ...interface{}) error  { return nil }
func (c32bNullLog) Noticex(logID, format string, a ...interface{}) error { return nil }
func (c32bNullLog) Warnx(logID, format string, a ...interface{}) error   { return nil }
func (c32bNullLog) Fatalx(logID, format string, a ...interface{}) error  { return nil }
func (c32bNullLog) Close()                                               {}
func (c32bNullLog) Dropped(i int) uint64                                 { return 0 }

const c32bKey = "1234abcd5678efg*"

func c32bNamespace(name string, version int) *models.Namespace {
	return &models.Namespace{
		Name:              name,
		Online:            true,
		AllowedDBS:        map[string]bool{"db_" + name: true},
		SlowSQLTime:       "1000",
		Users:             []*models.User{{UserName: fmt.Sprintf("u_%s_v%d", name, version), Password: fmt.Sprintf("pw_%s_v%d", name, version), Namespace: name, RWFlag: 2, RWSplit: 0}},
		Slices:            []*models.Slice{{Name: "slice-0", UserName: "backend", Password: "backendpw", Master: "127.0.0.1:1#dc1", Capacity: 1, MaxCapacity: 1, IdleTimeout: 60}},
		DefaultSlice:      "slice-0",
		MaxSqlExecuteTime: version,
		DownAfterNoAlive:  3600,
	}
}

type c32bCase struct {
	Part   string `json:"part"` // "stress"
	Rounds int    `json:"rounds"`
}

type c32bRound struct {
	Case     c32bCase `json:"case"`
	Round    int      `json:"round"`
	Version  int      `json:"version"`
	Results  []string `json:"results"`  // per change A, B: "ok" or the error
	Previous []int    `json:"previous"` // version each namespace ran before the round
	Running  []int    `json:"running"`  // version each namespace runs after the round (-1 absent)
	Broken   []string `json:"broken"`
}

func TestVerif_C32b(t *testing.T) {
	rec := kit.Start("C32", "fault_enumeration",
		"part b (proxy/server): rounds in which two administrators start together and each issues, for its own namespace, the calls of the admin handlers "+
			"(Server.ReloadNamespacePrepare from a real Store, then Server.ReloadNamespaceCommit) on one real Manager, ungated; after each round the running configuration of both "+
			"namespaces and of a bystander is compared with what the answers imply; every round starts both changes together; key = the pattern of answers of the round (rounds in which one change was answered 'not prepared' are counted as rounds.overlapped)")
	defer rec.Finish(t)
	rec.Assume("the interleaving inside the proxy is left to the Go scheduler: this part samples schedules, it does not enumerate them")
	log.SetGlobalLogger(c32bNullLog{})

	cse := c32bCase{Part: "stress", Rounds: kit.N(600, 6000)}
	if p := kit.ReplayPath(); p != "" {
		var r c32bRound
		if err := kit.LoadReplay(p, &r); err == nil && r.Case.Part == "stress" && r.Case.Rounds > 0 {
			cse = r.Case
		} else {
			cse.Rounds = 100 // a witness of the main part; this part runs a short baseline
		}
	}

	tmp, err := ioutil.TempDir("", "c32b_")
	if err != nil {
		rec.Inconclusive("temp dir: " + err.Error())
		return
	}
	defer os.RemoveAll(tmp)
	newStore := func() (*models.Store, models.Client, error) {
		lc, err := models.NewLocalClient(filepath.Join(tmp, "store"), "/c32b")
		if err != nil {
			return nil, nil, err
		}
		return models.NewStore(lc), lc, nil
	}
	put := func(st *models.Store, ns *models.Namespace) error {
		if err := ns.Verify(); err != nil {
			return err
		}
		if err := ns.Encrypt(c32bKey); err != nil {
			return err
		}
		return st.UpdateNamespace(ns)
	}
	names := []string{"c32b_a", "c32b_b"}
	const bystander = "c32b_bystander"
	const base = 1000
	initial := map[string]*models.Namespace{}
	for _, n := range append([]string{bystander}, names...) {
		ns := c32bNamespace(n, base)
		if err := ns.Verify(); err != nil {
			rec.Inconclusive("set-up: " + err.Error())
			return
		}
		initial[n] = ns
	}
	cfg := &models.Proxy{ConfigType: "file", Service: "gaea_proxy", Cluster: "c32b", Environ: "local",
		LogPath: filepath.Join(tmp, "log"), LogLevel: "Notice", LogFileName: "gaea", LogOutput: "file",
		ProtoType: "tcp4", ProxyAddr: "127.0.0.1:0", AdminAddr: "127.0.0.1:0", AdminUser: "admin", AdminPassword: "admin",
		SlowSQLTime: 100000, SessionTimeout: 3600, StatsEnabled: "false", StatsInterval: 3600, EncryptKey: c32bKey}
	os.MkdirAll(cfg.LogPath, 0o755)
	mgr, err := CreateManager(cfg, initial)
	if err != nil {
		rec.Inconclusive("CreateManager: " + err.Error())
		return
	}
	srv := &Server{manager: mgr, EncryptKey: c32bKey}

	observe := func(name string) int {
		ns := mgr.GetNamespace(name)
		if ns == nil {
			return -1
		}
		v := ns.GetMaxExecuteTime()
		// the user generation must agree with the namespace generation
		if !mgr.CheckUser(fmt.Sprintf("u_%s_v%d", name, v)) {
			return -2
		}
		return v
	}
	running := []int{base, base}
	stores := make([]*models.Store, 2)
	clients := make([]models.Client, 2)
	for k := range stores {
		if stores[k], clients[k], err = newStore(); err != nil {
			rec.Inconclusive("store: " + err.Error())
			return
		}
	}
	for r := 1; r <= cse.Rounds; r++ {
		version := base + r
		for k, n := range names {
			if err := put(stores[k], c32bNamespace(n, version)); err != nil {
				rec.Inconclusive("store put: " + err.Error())
				return
			}
		}
		results := make([]string, 2)
		start := make(chan struct{})
		var wg sync.WaitGroup
		for k := range names {
			k := k
			wg.Add(1)
			go func() {
				defer wg.Done()
				defer func() {
					if p := recover(); p != nil {
						results[k] = "panic: " + fmt.Sprint(p)
					}
				}()
				<-start
				if err := srv.ReloadNamespacePrepare(names[k], clients[k]); err != nil {
					results[k] = "prepare: " + err.Error()
					return
				}
				if err := srv.ReloadNamespaceCommit(names[k]); err != nil {
					results[k] = "commit: " + err.Error()
					return
				}
				results[k] = "ok"
			}()
		}
		done := make(chan struct{})
		go func() { wg.Wait(); close(done) }()
		close(start)
		select {
		case <-done:
		case <-time.After(120 * time.Second): // watchdog only
			rec.Inconclusive("a round did not finish within 120 s")
			return
		}
		rd := c32bRound{Case: cse, Round: r, Version: version, Results: results, Previous: append([]int{}, running...)}
		for k, n := range names {
			got := observe(n)
			rd.Running = append(rd.Running, got)
			if results[k] == "ok" {
				if got != version {
					rd.Broken = append(rd.Broken, "ok:proxy-not-new")
				}
			} else if got != running[k] {
				rd.Broken = append(rd.Broken, "fail:proxy-changed")
			}
			if strings.HasPrefix(results[k], "panic") {
				rd.Broken = append(rd.Broken, "panic")
			}
		}
		if observe(bystander) != base {
			rd.Broken = append(rd.Broken, "bystander-changed")
		}
		rec.Eval(1)
		pattern := results[0] + "|" + results[1]
		if results[0] != "ok" || results[1] != "ok" {
			rec.Count("rounds.overlapped", 1)
			rec.Nontrivial(fmt.Sprintf("%s|%v", pattern, len(rd.Broken) == 0))
		} else {
			rec.Nontrivial("ok|ok")
		}
		rec.Count("rounds", 1)
		for k := range names {
			rec.Count("answers."+strings.SplitN(results[k], ":", 2)[0], 1)
		}
		if r%97 == 1 {
			rec.Sample(rd)
		}
		if len(rd.Broken) > 0 {
			sort.Strings(rd.Broken)
			uniq := rd.Broken[:0]
			for i, b := range rd.Broken {
				if i == 0 || b != rd.Broken[i-1] {
					uniq = append(uniq, b)
				}
			}
			rd.Broken = uniq
			rec.Count("rounds.broken", 1)
			rec.Violation("proxy-stress|modify+modify|"+strings.Join(rd.Broken, "+"),
				fmt.Sprintf("round %d: two overlapping changes on one proxy were answered %q; namespaces ran versions %v before, run %v after (new version %d): %s",
					r, results, rd.Previous, rd.Running, version, strings.Join(rd.Broken, ", ")), rd)
		}
		// the next round starts from what the proxy really runs; namespaces that got lost or
		// inconsistent are re-established sequentially
		for k, n := range names {
			got := observe(n)
			if got < 0 {
				if srv.ReloadNamespacePrepare(n, clients[k]) == nil && srv.ReloadNamespaceCommit(n) == nil {
					got = observe(n)
				}
			}
			running[k] = got
		}
	}
	if rec.CounterValue("rounds.overlapped") == 0 {
		rec.Set("note", "no round overlapped inside the proxy in this run")
	}
}
