package server

// Shared by the lx monitors (C14, C35, C36): a no-op logger so that building and closing
// real namespaces does not flood the run log.

import (
	"sync"

	"github.com/XiaoMi/Gaea/log"
)

type lxNullLogger struct{}

func (lxNullLogger) SetLevel(name, level string) error                     { return nil }
func (lxNullLogger) Debug(format string, a ...interface{}) error           { return nil }
func (lxNullLogger) Trace(format string, a ...interface{}) error           { return nil }
func (lxNullLogger) Notice(format string, a ...interface{}) error          { return nil }
func (lxNullLogger) Warn(format string, a ...interface{}) error            { return nil }
func (lxNullLogger) Fatal(format string, a ...interface{}) error           { return nil }
func (lxNullLogger) Debugx(logID, format string, a ...interface{}) error   { return nil }
func (lxNullLogger) Tracex(logID, format string, a ...interface{}) error   { return nil }
func (lxNullLogger) Noticex(logID, format string, a ...interface{}) error  { return nil }
func (lxNullLogger) Warnx(logID, format string, a ...interface{}) error    { return nil }
func (lxNullLogger) Fatalx(logID, format string, a ...interface{}) error   { return nil }
func (lxNullLogger) Close()                                                {}
func (lxNullLogger) Dropped(i int) uint64                                  { return 0 }

var lxLogOnce sync.Once

func lxQuietLogs() {
	lxLogOnce.Do(func() { log.SetGlobalLogger(lxNullLogger{}) })
}
