package server

// C07 — concurrent sessions plan independently of each other.
//
// One real Manager/Namespace/Router (rig R2). Every statement of a seeded corpus (sharded,
// unsharded fast-path, unsharded parsed path, global tables, explain, COM_FIELD_LIST) is first
// planned ALONE, sequentially, through the real planning path of a session executor
// (checkSQLAllowed -> getPlan [preBuildUnshardPlan -> plan.CheckUnshard* / plan.BuildPlan]
// -> Plan.ExecuteIn with a recording plan.Executor; handleFieldList for COM_FIELD_LIST, whose
// routing decision is read off the fake pool's event log). That gives the baseline
// slice -> db -> SQL map per (session db, text). Then G goroutines, each owning its own
// SessionExecutor of the SAME namespace, plan statements drawn from the corpus at the same
// time; a second phase does the same end to end through real sessions over TCP (the fake
// backend echoes slice/db/SQL into the rows it returns, so the client sees its own plan).
//
// Oracle: every plan produced under concurrency is one of the plans the same (db, text)
// produced alone (a global-table SELECT has one plan per copy; all copies are collected in the
// baseline), and — decided by the runner from the race detector's log — no data race whose
// stacks pass through proxy/router, proxy/plan or proxy/server/executor*.go.

import (
	"errors"
	"fmt"
	"os"
	"reflect"
	"strconv"
	"runtime"
	"sort"
	"strings"
	"sync"
	"sync/atomic"
	"testing"
	"time"

	"github.com/XiaoMi/Gaea/models"
	"github.com/XiaoMi/Gaea/mysql"
	"github.com/XiaoMi/Gaea/parser/ast"
	"github.com/XiaoMi/Gaea/util"
	kit "github.com/XiaoMi/Gaea/verifkit"
	"github.com/XiaoMi/Gaea/verifkit/mycli"
)

// ---------------------------------------------------------------- namespace

func c07Namespace() *models.Namespace {
	both := []string{"slice-0", "slice-1"}
	return &models.Namespace{
		Name: "c07ns", Online: true,
		AllowedDBS:    map[string]bool{"db_ks": true, "db_mycat": true, "db_alias": true},
		DefaultPhyDBS: map[string]string{"db_ks": "db_ks", "db_mycat": "db_mycat_0", "db_alias": "db_alias_phy"},
		Slices: []*models.Slice{
			rigSlice("slice-0", "127.0.0.1:13306", []string{"127.0.0.1:13307"}),
			rigSlice("slice-1", "127.0.0.1:23306", []string{"127.0.0.1:23307"}),
		},
		ShardRules: []*models.Shard{
			{DB: "db_ks", Table: "tbl_ks", Type: "mod", Key: "id", Locations: []int{2, 2}, Slices: both},
			{DB: "db_ks", Table: "tbl_ks_child", Type: "linked", Key: "id", ParentTable: "tbl_ks"},
			{DB: "db_ks", Table: "tbl_ks_hash", Type: "hash", Key: "id", Locations: []int{1, 3}, Slices: both},
			{DB: "db_ks", Table: "tbl_ks_range", Type: "range", Key: "id", Locations: []int{2, 2}, Slices: both, TableRowLimit: 100},
			{DB: "db_ks", Table: "tbl_ks_year", Type: "date_year", Key: "create_time", Slices: both, DateRange: []string{"2014-2017", "2018-2019"}},
			{DB: "db_ks", Table: "tbl_ks_month", Type: "date_month", Key: "create_time", Slices: both, DateRange: []string{"201405-201407", "201409-201411"}},
			{DB: "db_ks", Table: "tbl_ks_day", Type: "date_day", Key: "create_time", Slices: both, DateRange: []string{"20140901-20140904", "20140906-20140908"}},
			{DB: "db_ks", Table: "tbl_ks_range_child", Type: "linked", Key: "id", ParentTable: "tbl_ks_range"},
			{DB: "db_ks", Table: "tbl_ks_global", Type: "global", Locations: []int{2, 2}, Slices: both},
			{DB: "db_mycat", Table: "tbl_mycat", Type: "mycat_mod", Key: "id", Locations: []int{2, 2}, Slices: both, Databases: []string{"db_mycat_[0-3]"}},
			{DB: "db_mycat", Table: "tbl_mycat_child", Type: "linked", Key: "id", ParentTable: "tbl_mycat"},
			{DB: "db_mycat", Table: "tbl_mycat_long", Type: "mycat_long", Key: "id", Locations: []int{2, 2}, Slices: both, Databases: []string{"db_mycat_[0-3]"}, PartitionCount: "4", PartitionLength: "256"},
			{DB: "db_mycat", Table: "tbl_mycat_global", Type: "global", Locations: []int{2, 2}, Slices: both, Databases: []string{"db_mycat_[0-3]"}},
			// the same table name sharded differently in another logical db
			{DB: "db_mycat", Table: "tbl_ks_hash", Type: "mycat_mod", Key: "id", Locations: []int{3, 1}, Slices: both, Databases: []string{"db_mycat_[0-3]"}},
		},
		Users: []*models.User{
			rigUser("c07ns", "c07_rw", "pw_rw", models.ReadWrite, models.NoReadWriteSplit),
		},
		DefaultSlice:      "slice-1", // not the first slice, so that "default" is distinguishable from "index 0"
		SupportMultiQuery: true,
	}
}

// ---------------------------------------------------------------- corpus

type c07Stmt struct {
	Kind  string `json:"kind"` // query | fieldlist
	Class string `json:"class"`
	DB    string `json:"db"`
	Text  string `json:"text"` // SQL text, or table name for fieldlist
	E2E   bool   `json:"e2e"`  // usable in the end-to-end phase (plain SELECT whose rows are concatenated)
}

func (s c07Stmt) key() string { return s.Kind + "\x00" + s.DB + "\x00" + s.Text }

type c07Tmpl struct {
	class string
	dbs   []string
	f     func(r *kit.Rand) string
	e2e   bool
}

func c07Corpus(seed uint64) []c07Stmt {
	r := kit.SubRand(seed, "C07/corpus")
	id := func() int { return r.Range(0, 399) }
	all := []string{"db_ks", "db_mycat", "db_alias"}
	ks := []string{"db_ks"}
	my := []string{"db_mycat"}
	sp := fmt.Sprintf
	tm := []c07Tmpl{
		// sharded, session db = rule db
		{"shard-select-eq", ks, func(r *kit.Rand) string { return sp("select * from tbl_ks where id = %d", id()) }, true},
		{"shard-select-in", ks, func(r *kit.Rand) string { return sp("select id, a from tbl_ks where id in (%d, %d, %d)", id(), id(), id()) }, true},
		{"shard-select-scan", ks, func(r *kit.Rand) string { return sp("select id, a from tbl_ks where a = %d", id()) }, true},
		{"shard-select-orderlimit", ks, func(r *kit.Rand) string {
			return sp("select id, a from tbl_ks where a > %d order by id desc limit %d, %d", id(), r.Range(0, 5), r.Range(1, 9))
		}, false},
		{"shard-select-agg", ks, func(r *kit.Rand) string { return sp("select a, count(*), max(id) from tbl_ks where a > %d group by a", id()) }, false},
		{"shard-update", ks, func(r *kit.Rand) string { return sp("update tbl_ks set a = %d where id = %d", id(), id()) }, false},
		{"shard-delete-in", ks, func(r *kit.Rand) string { return sp("delete from tbl_ks where id in (%d, %d)", id(), id()) }, false},
		{"shard-insert", ks, func(r *kit.Rand) string { return sp("insert into tbl_ks (id, a) values (%d, %d)", id(), id()) }, false},
		{"shard-insert-multi", ks, func(r *kit.Rand) string {
			return sp("insert into tbl_ks (id, a) values (%d, %d), (%d, %d), (%d, %d)", id(), id(), id(), id(), id(), id())
		}, false},
		{"shard-linked-eq", ks, func(r *kit.Rand) string { return sp("select * from tbl_ks_child where id = %d", id()) }, true},
		{"shard-join", ks, func(r *kit.Rand) string {
			return sp("select a.id, b.a from tbl_ks a join tbl_ks_child b on a.id = b.id where a.id = %d", id())
		}, true},
		{"shard-hash-eq", ks, func(r *kit.Rand) string { return sp("select * from tbl_ks_hash where id = %d", id()) }, true},
		{"shard-range-between", ks, func(r *kit.Rand) string {
			a := id()
			return sp("select * from tbl_ks_range where id between %d and %d", a, a+r.Range(0, 150))
		}, true},
		{"shard-year-eq", ks, func(r *kit.Rand) string {
			return sp("select * from tbl_ks_year where create_time = '%d-03-05 10:00:00'", r.Range(2014, 2019))
		}, true},
		{"shard-subquery", ks, func(r *kit.Rand) string {
			return sp("select * from tbl_ks where id in (select id from tbl_ks_child where id = %d)", id())
		}, false},
		{"shard-union", ks, func(r *kit.Rand) string {
			return sp("select id from tbl_ks where id = %d union select id from tbl_ks where id = %d", id(), id())
		}, false},
		{"explain-shard", ks, func(r *kit.Rand) string { return sp("explain select * from tbl_ks where id in (%d, %d)", id(), id()) }, false},
		{"explain-unshard", all, func(r *kit.Rand) string { return sp("explain select * from t_plain where id = %d", id()) }, false},
		// sharded, reached through a qualified name from any session db
		{"shard-qualified-eq", all, func(r *kit.Rand) string { return sp("select * from db_ks.tbl_ks where id = %d", id()) }, true},
		{"shard-qualified-update", all, func(r *kit.Rand) string { return sp("update db_ks.tbl_ks set a = %d where id = %d", id(), id()) }, false},
		{"shard-qualified-insert", all, func(r *kit.Rand) string { return sp("insert into db_ks.tbl_ks (id, a) values (%d, %d)", id(), id()) }, false},
		{"mycat-qualified-eq", all, func(r *kit.Rand) string { return sp("select * from db_mycat.tbl_mycat where id = %d", id()) }, true},
		// the same unqualified text means different things in different session dbs
		{"samename-select-eq", all, func(r *kit.Rand) string { return sp("select * from tbl_ks_hash where id = %d", id()) }, true},
		{"samename-update", all, func(r *kit.Rand) string { return sp("update tbl_ks_hash set a = %d where id = %d", id(), id()) }, false},
		{"samename-insert", all, func(r *kit.Rand) string { return sp("insert into tbl_ks_hash (id, a) values (%d, %d)", id(), id()) }, false},
		{"samename-delete", all, func(r *kit.Rand) string { return sp("delete from tbl_ks_hash where id = %d", id()) }, false},
		{"onlyks-select-eq", all, func(r *kit.Rand) string { return sp("select * from tbl_ks where id = %d", id()) }, true},
		// mycat
		{"mycat-select-eq", my, func(r *kit.Rand) string { return sp("select * from tbl_mycat where id = %d", id()) }, true},
		{"mycat-select-in", my, func(r *kit.Rand) string { return sp("select * from tbl_mycat where id in (%d, %d, %d)", id(), id(), id()) }, true},
		{"mycat-insert", my, func(r *kit.Rand) string { return sp("insert into tbl_mycat (id, a) values (%d, %d)", id(), id()) }, false},
		{"mycat-update", my, func(r *kit.Rand) string { return sp("update tbl_mycat set a = %d where id = %d", id(), id()) }, false},
		{"mycat-linked-eq", my, func(r *kit.Rand) string { return sp("select * from tbl_mycat_child where id = %d", id()) }, true},
		{"mycat-long-eq", my, func(r *kit.Rand) string { return sp("select * from tbl_mycat_long where id = %d", r.Range(0, 1023)) }, true},
		// global tables
		{"global-select", ks, func(r *kit.Rand) string { return sp("select * from tbl_ks_global where a = %d", id()) }, true},
		{"global-update", ks, func(r *kit.Rand) string { return sp("update tbl_ks_global set a = %d where id = %d", id(), id()) }, false},
		{"global-insert", ks, func(r *kit.Rand) string { return sp("insert into tbl_ks_global (id, a) values (%d, %d)", id(), id()) }, false},
		{"global-join-shard", ks, func(r *kit.Rand) string {
			return sp("select a.id from tbl_ks a join tbl_ks_global g on a.id = g.id where a.id = %d", id())
		}, true},
		{"global-mycat-select", my, func(r *kit.Rand) string { return sp("select * from tbl_mycat_global where a = %d", id()) }, true},
		{"global-mycat-delete", my, func(r *kit.Rand) string { return sp("delete from tbl_mycat_global where id = %d", id()) }, false},
		// unsharded (default rule; token fast path where the physical db has the logical name)
		{"unshard-select", all, func(r *kit.Rand) string { return sp("select * from t_plain where id = %d", id()) }, true},
		{"unshard-select-join", all, func(r *kit.Rand) string {
			return sp("select p.id from t_plain p join t_other o on p.id = o.id where p.id = %d", id())
		}, true},
		{"unshard-update", all, func(r *kit.Rand) string { return sp("update t_plain set a = %d where id = %d", id(), id()) }, false},
		{"unshard-insert", all, func(r *kit.Rand) string { return sp("insert into t_plain (id, a) values (%d, %d)", id(), id()) }, false},
		{"unshard-replace", all, func(r *kit.Rand) string { return sp("replace into t_plain (id, a) values (%d, %d)", id(), id()) }, false},
		{"unshard-delete", all, func(r *kit.Rand) string { return sp("delete from t_plain where id = %d", id()) }, false},
		{"unshard-qualified-select", all, func(r *kit.Rand) string { return sp("select * from db_alias.t_plain where id = %d", id()) }, true},
		{"unshard-qualified-ks", all, func(r *kit.Rand) string { return sp("select * from db_ks.t_plain where id = %d", id()) }, true},
		{"unshard-notable", all, func(r *kit.Rand) string { return sp("select %d + 1", id()) }, true},
		// every pruning form on range / date / mod / mycat rules and their linked tables. The
		// pruned index lists are derived from the rule's own sub-table list, which all sessions share.
		{"prune-range-notbetween-far", ks, func(r *kit.Rand) string {
			a := r.Range(0, 99)
			return sp("select * from tbl_ks_range where id not between %d and %d", a, a+r.Range(200, 300))
		}, true},
		{"prune-range-notbetween-near", ks, func(r *kit.Rand) string {
			a := id()
			return sp("select * from tbl_ks_range where id not between %d and %d", a, a+r.Range(0, 120))
		}, true},
		{"prune-range-notbetween-reversed", ks, func(r *kit.Rand) string {
			return sp("select * from tbl_ks_range where id not between %d and %d", r.Range(200, 399), r.Range(0, 150))
		}, true},
		{"prune-range-notbetween-dml", ks, func(r *kit.Rand) string {
			a := r.Range(0, 99)
			return sp(r.Pick([]string{"update tbl_ks_range set a = 1 where id not between %d and %d", "delete from tbl_ks_range where id not between %d and %d"}), a, a+r.Range(200, 300))
		}, false},
		{"prune-range-child-notbetween", ks, func(r *kit.Rand) string {
			a := r.Range(0, 99)
			return sp("select * from tbl_ks_range_child where id not between %d and %d", a, a+r.Range(200, 300))
		}, true},
		{"prune-range-child-eq", ks, func(r *kit.Rand) string { return sp("select * from tbl_ks_range_child where id = %d", id()) }, true},
		{"prune-range-in", ks, func(r *kit.Rand) string { return sp("select * from tbl_ks_range where id in (%d, %d)", id(), id()) }, true},
		{"prune-range-notin", ks, func(r *kit.Rand) string { return sp("select * from tbl_ks_range where id not in (%d, %d)", id(), id()) }, true},
		{"prune-range-cmp", ks, func(r *kit.Rand) string {
			return sp("select * from tbl_ks_range where id %s %d", r.Pick([]string{"<", "<=", ">", ">=", "!=", "="}), id())
		}, true},
		{"prune-range-and", ks, func(r *kit.Rand) string {
			a := id()
			return sp("select * from tbl_ks_range where id >= %d and id < %d", a, a+r.Range(1, 250))
		}, true},
		{"prune-range-or", ks, func(r *kit.Rand) string { return sp("select * from tbl_ks_range where id < %d or id > %d", r.Range(0, 150), r.Range(250, 399)) }, true},
		{"prune-range-scan", ks, func(r *kit.Rand) string { return sp("select * from tbl_ks_range where a = %d", id()) }, true},
		{"prune-range-join-child", ks, func(r *kit.Rand) string {
			return sp("select p.id from tbl_ks_range p join tbl_ks_range_child c on p.id = c.id where p.id between %d and %d", r.Range(0, 150), r.Range(151, 399))
		}, true},
		{"prune-year-notbetween-far", ks, func(r *kit.Rand) string {
			return sp("select * from tbl_ks_year where create_time not between '%d-02-01 00:00:00' and '%d-02-01 00:00:00'", r.Range(2014, 2015), r.Range(2018, 2019))
		}, true},
		{"prune-year-between", ks, func(r *kit.Rand) string {
			return sp("select * from tbl_ks_year where create_time between '%d-02-01 00:00:00' and '%d-02-01 00:00:00'", r.Range(2014, 2016), r.Range(2016, 2019))
		}, true},
		{"prune-year-cmp", ks, func(r *kit.Rand) string {
			return sp("select * from tbl_ks_year where create_time %s '%d-06-01 00:00:00'", r.Pick([]string{"<", "<=", ">", ">="}), r.Range(2014, 2019))
		}, true},
		{"prune-year-in", ks, func(r *kit.Rand) string {
			return sp("select * from tbl_ks_year where create_time in ('%d-01-02 00:00:00', '%d-01-02 00:00:00')", r.Range(2014, 2019), r.Range(2014, 2019))
		}, true},
		{"prune-year-scan", ks, func(r *kit.Rand) string { return sp("select * from tbl_ks_year where a = %d", id()) }, true},
		{"prune-month-notbetween-far", ks, func(r *kit.Rand) string {
			return sp("select * from tbl_ks_month where create_time not between '2014-0%d-03 00:00:00' and '2014-%d-03 00:00:00'", r.Range(5, 6), r.Range(10, 11))
		}, true},
		{"prune-month-between", ks, func(r *kit.Rand) string {
			return sp("select * from tbl_ks_month where create_time between '2014-0%d-03 00:00:00' and '2014-%d-03 00:00:00'", r.Range(5, 7), r.Range(10, 11))
		}, true},
		{"prune-month-eq", ks, func(r *kit.Rand) string {
			return sp("select * from tbl_ks_month where create_time = '2014-%02d-03 00:00:00'", r.PickInt([]int{5, 6, 7, 9, 10, 11}))
		}, true},
		{"prune-month-scan", ks, func(r *kit.Rand) string { return sp("select * from tbl_ks_month where a = %d", id()) }, true},
		{"prune-day-notbetween-far", ks, func(r *kit.Rand) string {
			return sp("select * from tbl_ks_day where create_time not between '2014-09-0%d 01:00:00' and '2014-09-0%d 01:00:00'", r.Range(1, 2), r.Range(6, 8))
		}, true},
		{"prune-day-between", ks, func(r *kit.Rand) string {
			return sp("select * from tbl_ks_day where create_time between '2014-09-0%d 01:00:00' and '2014-09-0%d 01:00:00'", r.Range(1, 4), r.Range(6, 8))
		}, true},
		{"prune-day-scan", ks, func(r *kit.Rand) string { return sp("select * from tbl_ks_day where a = %d", id()) }, true},
		{"prune-mod-notin", ks, func(r *kit.Rand) string { return sp("select * from tbl_ks where id not in (%d, %d)", id(), id()) }, true},
		{"prune-mod-between", ks, func(r *kit.Rand) string {
			a := id()
			return sp("select * from tbl_ks where id between %d and %d", a, a+r.Range(0, 5))
		}, true},
		{"prune-mod-notbetween", ks, func(r *kit.Rand) string { return sp("select * from tbl_ks where id not between %d and %d", id(), id()) }, true},
		{"prune-mod-or", ks, func(r *kit.Rand) string { return sp("select * from tbl_ks where id = %d or id = %d", id(), id()) }, true},
		{"prune-linked-in", ks, func(r *kit.Rand) string { return sp("select * from tbl_ks_child where id in (%d, %d)", id(), id()) }, true},
		{"prune-linked-update", ks, func(r *kit.Rand) string { return sp("update tbl_ks_child set a = %d where id = %d", id(), id()) }, false},
		{"prune-linked-delete", ks, func(r *kit.Rand) string { return sp("delete from tbl_ks_child where id in (%d, %d)", id(), id()) }, false},
		{"prune-linked-insert", ks, func(r *kit.Rand) string { return sp("insert into tbl_ks_child (id, a) values (%d, %d)", id(), id()) }, false},
		{"prune-linked-scan", ks, func(r *kit.Rand) string { return sp("select * from tbl_ks_child where a = %d", id()) }, true},
		{"prune-mycat-notin", my, func(r *kit.Rand) string { return sp("select * from tbl_mycat where id not in (%d, %d)", id(), id()) }, true},
		{"prune-mycat-between", my, func(r *kit.Rand) string {
			a := id()
			return sp("select * from tbl_mycat where id between %d and %d", a, a+r.Range(0, 5))
		}, true},
		{"prune-mycat-scan", my, func(r *kit.Rand) string { return sp("select * from tbl_mycat where a = %d", id()) }, true},
		{"prune-mycat-child-scan", my, func(r *kit.Rand) string { return sp("select * from tbl_mycat_child where a = %d", id()) }, true},
		{"prune-mycat-child-in", my, func(r *kit.Rand) string { return sp("select * from tbl_mycat_child where id in (%d, %d, %d)", id(), id(), id()) }, true},
		{"prune-mycat-child-update", my, func(r *kit.Rand) string { return sp("update tbl_mycat_child set a = 1 where id = %d", id()) }, false},
		{"prune-mycat-long-scan", my, func(r *kit.Rand) string { return sp("select * from tbl_mycat_long where a = %d", id()) }, true},
		{"prune-mycat-long-in", my, func(r *kit.Rand) string { return sp("select * from tbl_mycat_long where id in (%d, %d)", r.Range(0, 1023), r.Range(0, 1023)) }, true},
		{"prune-mycat-samename-scan", my, func(r *kit.Rand) string { return sp("select * from tbl_ks_hash where a = %d", id()) }, true},
		{"hint-mycat-db-and-key", my, func(r *kit.Rand) string {
			return sp("select * from tbl_mycat where database() = 'db_mycat_%d' and id = %d", r.Range(0, 3), id())
		}, true},
		{"hint-mycat-db-in", my, func(r *kit.Rand) string {
			return sp("select * from tbl_mycat where database() in ('db_mycat_%d', 'db_mycat_%d')", r.Range(0, 3), r.Range(0, 3))
		}, true},
		{"hint-mycat-db-notin", my, func(r *kit.Rand) string {
			return sp("select * from tbl_mycat where database() not in ('db_mycat_%d')", r.Range(0, 3))
		}, true},
		{"hint-mycat-db-unknown", my, func(r *kit.Rand) string { return "select * from tbl_mycat where database() = 'db_mycat_9'" }, false},
		// identical text in every session db (fixed literals): a plan leaking between sessions of
		// different dbs shows up as the other db's plan
		{"sametext-unshard-select", all, func(r *kit.Rand) string { return "select * from t_plain where id = 7" }, true},
		{"sametext-samename-select", all, func(r *kit.Rand) string { return "select * from tbl_ks_hash where id = 11" }, true},
		{"sametext-samename-insert", all, func(r *kit.Rand) string { return "insert into tbl_ks_hash (id, a) values (13, 1)" }, false},
		{"sametext-onlyks-update", all, func(r *kit.Rand) string { return "update tbl_ks set a = 1 where id = 5" }, false},
		{"parse-error", all, func(r *kit.Rand) string { return sp("select * from tbl_ks where id = = %d", id()) }, false},
		{"unknown-db", all, func(r *kit.Rand) string { return sp("select * from db_nowhere.tbl_ks where id = %d", id()) }, false},
	}
	var out []c07Stmt
	seen := map[string]bool{}
	add := func(s c07Stmt) {
		if !seen[s.key()] {
			seen[s.key()] = true
			out = append(out, s)
		}
	}
	per := 3
	for _, t := range tm {
		for _, db := range t.dbs {
			for i := 0; i < per; i++ {
				add(c07Stmt{Kind: "query", Class: t.class, DB: db, Text: t.f(r), E2E: t.e2e})
			}
		}
	}
	for _, tb := range []string{"tbl_mycat", "tbl_mycat_child", "tbl_mycat_long", "tbl_ks_hash"} {
		for d := 0; d < 4; d++ {
			add(c07Stmt{Kind: "query", Class: "hint-mycat-db-eq", DB: "db_mycat", Text: sp("select * from %s where database() = 'db_mycat_%d'", tb, d), E2E: true})
			add(c07Stmt{Kind: "query", Class: "hint-mycat-db-eq-scan", DB: "db_mycat", Text: sp("select * from %s where database() = 'db_mycat_%d' and a = 1", tb, d), E2E: true})
		}
	}
	for _, db := range all {
		for _, tb := range []string{"tbl_ks", "tbl_ks_hash", "tbl_ks_range", "tbl_ks_range_child", "tbl_ks_year", "tbl_mycat_child", "tbl_ks_global", "tbl_mycat", "t_plain", "db_ks.tbl_ks", "db_mycat.tbl_mycat", "db_ks.t_plain", "db_mycat.tbl_ks_hash"} {
			cls := "fieldlist-default"
			if strings.HasPrefix(tb, "db_") || strings.HasPrefix(tb, "tbl_") {
				cls = "fieldlist-" + strings.Replace(tb, ".", "-", -1)
			}
			add(c07Stmt{Kind: "fieldlist", Class: cls, DB: db, Text: tb, E2E: true})
		}
	}
	return out
}

// ---------------------------------------------------------------- recording plan.Executor

var c07ErrCaptured = errors.New("c07: captured")

type c07Call struct{ slice, db, sql string }

type c07Capture struct {
	calls []c07Call
	lid   uint64
}

func (c *c07Capture) ExecuteSQL(ctx *util.RequestContext, slice, db, sql string) (*mysql.Result, error) {
	c.calls = append(c.calls, c07Call{slice, db, sql})
	return &mysql.Result{Resultset: &mysql.Resultset{}}, nil
}

func (c *c07Capture) ExecuteSQLs(ctx *util.RequestContext, sqls map[string]map[string][]string) ([]*mysql.Result, error) {
	for sl, dbs := range sqls {
		for db, list := range dbs {
			for i, s := range list {
				c.calls = append(c.calls, c07Call{sl, fmt.Sprintf("%s#%d", db, i), s})
			}
		}
	}
	return nil, c07ErrCaptured
}
func (c *c07Capture) SetLastInsertID(v uint64) { c.lid = v }
func (c *c07Capture) GetLastInsertID() uint64  { return c.lid }
func (c *c07Capture) HandleSet(*util.RequestContext, string, *ast.SetStmt) (*mysql.Result, error) {
	return nil, nil
}

func (c *c07Capture) canon() string {
	ss := make([]string, 0, len(c.calls))
	for _, x := range c.calls {
		ss = append(ss, x.slice+"/"+x.db+": "+x.sql)
	}
	sort.Strings(ss)
	return strings.Join(ss, "\n")
}

// ---------------------------------------------------------------- one planner (one "session")

type c07Planner struct {
	r    *rig
	se   *SessionExecutor
	id   int
	seq  int
	from int
}

func c07NewPlanner(r *rig, id int) *c07Planner {
	se := newSessionExecutor(r.m)
	se.user = "c07_rw"
	se.namespace = "c07ns"
	se.SetCollationID(mysql.CollationID(33))
	se.SetCharset("utf8")
	cc := new(Session)
	cc.proxy = r.s
	cc.manager = r.m
	cc.namespace = "c07ns"
	cc.closed.Store(false)
	cc.c = NewClientConn(mysql.NewConn(nil), r.m)
	cc.c.proxy = r.s
	cc.executor = se
	se.session = cc
	se.SetContextNamespace()
	se.userPriv = models.ReadWrite
	return &c07Planner{r: r, se: se, id: id}
}

// plan returns the canonical plan of st as this session sees it. Mirrors doQuery up to the
// point where SQL would be sent to the backends.
func (p *c07Planner) plan(st c07Stmt) (out string) {
	defer func() {
		if e := recover(); e != nil {
			out = fmt.Sprintf("PANIC: %v", e)
		}
	}()
	se := p.se
	se.db = st.DB
	reqCtx := util.NewRequestContext()
	if st.Kind == "fieldlist" {
		p.seq++
		tag := fmt.Sprintf("w%dx%d", p.id, p.seq)
		from := p.r.B.Len()
		_, err := se.handleFieldList(reqCtx, append(append([]byte(st.Text), 0), tag...))
		if err != nil {
			return "ERR: " + err.Error()
		}
		return c07FieldListPlan(p.r.B.Events(from), st.Text+"|"+tag)
	}
	if err := se.checkSQLAllowed(reqCtx, st.Text); err != nil {
		return "ERR(allowed): " + err.Error()
	}
	if canHandleWithoutPlan(reqCtx.GetStmtType()) {
		return "NOPLAN"
	}
	pl, err := se.getPlan(reqCtx, se.GetNamespace(), se.db, st.Text, true)
	if err != nil {
		return "ERR(plan): " + err.Error()
	}
	reqCtx.SetFromSlave(false)
	reqCtx.SetDefaultSlice(se.GetNamespace().GetDefaultSlice())
	cp := &c07Capture{}
	_, err = pl.ExecuteIn(reqCtx, cp)
	if err != nil && !strings.Contains(err.Error(), c07ErrCaptured.Error()) {
		return fmt.Sprintf("%T ERR(exec): %v\n%s", pl, err, cp.canon())
	}
	return fmt.Sprintf("%T\n%s", pl, cp.canon())
}

// c07FieldListPlan finds the fieldlist event carrying arg and the physical db selected on
// that connection just before it.
func c07FieldListPlan(evs []rigEvent, arg string) string {
	for i := len(evs) - 1; i >= 0; i-- {
		e := evs[i]
		if e.Op != "fieldlist" || e.Arg != arg {
			continue
		}
		db := "?"
		for j := i - 1; j >= 0; j-- {
			if evs[j].Conn == e.Conn && evs[j].Op == "usedb" {
				db = evs[j].Arg
				break
			}
			if evs[j].Conn == e.Conn && evs[j].Op == "get" {
				break
			}
		}
		return fmt.Sprintf("FIELDLIST %s/%s/%s", e.Slice, e.Role, db)
	}
	return "FIELDLIST event not found"
}

// ---------------------------------------------------------------- fresh namespace, router snapshot

// c07FreshPlanner builds a brand-new Namespace (hence Router and rules) from the same config
// and a planner bound to it, so that nothing planned before can have touched its state.
func c07FreshPlanner(r *rig, id int) (*c07Planner, *Namespace, error) {
	ns, err := NewNamespace(c07Namespace(), DefaultDatacenter)
	if err != nil {
		return nil, nil, err
	}
	r.B.rigInstallFakes(ns, 1000+id)
	p := c07NewPlanner(r, id)
	p.se.contextNamespace = ns
	return p, ns, nil
}

// c07RouterSnapshot is a structural dump of the whole *router.Router: every field of the
// router, of every rule and of every shard object, exported or not, read through reflection
// WITHOUT calling any method of the observed objects (a getter that initialises something
// lazily would otherwise hide exactly the change that is looked for). path -> rendered value.
func c07RouterSnapshot(ns *Namespace) map[string]string {
	out := map[string]string{}
	c07Dump(reflect.ValueOf(ns.GetRouter()), "router", out, 0)
	return out
}

func c07Scalar(k reflect.Kind) bool {
	switch k {
	case reflect.Bool, reflect.Int, reflect.Int8, reflect.Int16, reflect.Int32, reflect.Int64, reflect.Uint, reflect.Uint8, reflect.Uint16,
		reflect.Uint32, reflect.Uint64, reflect.Uintptr, reflect.Float32, reflect.Float64, reflect.String:
		return true
	}
	return false
}

func c07ScalarText(v reflect.Value) string {
	switch v.Kind() {
	case reflect.Bool:
		return fmt.Sprint(v.Bool())
	case reflect.Int, reflect.Int8, reflect.Int16, reflect.Int32, reflect.Int64:
		return fmt.Sprint(v.Int())
	case reflect.Uint, reflect.Uint8, reflect.Uint16, reflect.Uint32, reflect.Uint64, reflect.Uintptr:
		return fmt.Sprint(v.Uint())
	case reflect.Float32, reflect.Float64:
		return fmt.Sprint(v.Float())
	case reflect.String:
		return strconv.Quote(v.String())
	}
	return "?"
}

func c07Dump(v reflect.Value, path string, out map[string]string, depth int) {
	if depth > 14 {
		out[path] = "<depth>"
		return
	}
	if !v.IsValid() {
		out[path] = "<invalid>"
		return
	}
	switch v.Kind() {
	case reflect.Ptr, reflect.Interface:
		if v.IsNil() {
			out[path] = "nil"
			return
		}
		if v.Kind() == reflect.Interface {
			out[path+"(type)"] = v.Elem().Type().String()
		}
		c07Dump(v.Elem(), path, out, depth+1)
	case reflect.Struct:
		for i := 0; i < v.NumField(); i++ {
			c07Dump(v.Field(i), path+"."+v.Type().Field(i).Name, out, depth+1)
		}
		if v.NumField() == 0 {
			out[path] = "{}"
		}
	case reflect.Map:
		if v.IsNil() {
			out[path] = "nil-map"
			return
		}
		keys := v.MapKeys()
		ks := make([]string, len(keys))
		byText := map[string]reflect.Value{}
		for i, k := range keys {
			t := "?"
			if c07Scalar(k.Kind()) {
				t = c07ScalarText(k)
			}
			ks[i] = t
			byText[t] = k
		}
		sort.Strings(ks)
		if c07Scalar(v.Type().Elem().Kind()) {
			var sb strings.Builder
			fmt.Fprintf(&sb, "map(len %d)", v.Len())
			for _, t := range ks {
				sb.WriteString(" " + t + ":" + c07ScalarText(v.MapIndex(byText[t])))
			}
			out[path] = sb.String()
			return
		}
		out[path+"(len)"] = fmt.Sprint(v.Len())
		for _, t := range ks {
			c07Dump(v.MapIndex(byText[t]), path+"["+strings.Trim(t, "\"")+"]", out, depth+1)
		}
	case reflect.Slice, reflect.Array:
		if v.Kind() == reflect.Slice && v.IsNil() {
			out[path] = "nil-slice"
			return
		}
		if c07Scalar(v.Type().Elem().Kind()) {
			var sb strings.Builder
			fmt.Fprintf(&sb, "[len %d]", v.Len())
			for i := 0; i < v.Len(); i++ {
				sb.WriteString(" " + c07ScalarText(v.Index(i)))
			}
			out[path] = sb.String()
			return
		}
		out[path+"(len)"] = fmt.Sprint(v.Len())
		for i := 0; i < v.Len(); i++ {
			c07Dump(v.Index(i), fmt.Sprintf("%s[%d]", path, i), out, depth+1)
		}
	case reflect.Func, reflect.Chan, reflect.UnsafePointer:
		// not state
	default:
		out[path] = c07ScalarText(v)
	}
}

// c07DiffName turns the first differing path into the coarse name used in signatures:
// router.rules[db][table].field
func c07DiffName(d string) string {
	if i := strings.Index(d, ": was "); i > 0 {
		d = d[:i]
	} else if i := strings.Index(d, ": new "); i > 0 {
		d = d[:i]
	}
	// cut after the first field name behind the rule key
	if i := strings.LastIndex(d, "]."); i > 0 {
		rest := d[i+2:]
		if j := strings.IndexAny(rest, ".[("); j > 0 {
			rest = rest[:j]
		}
		return d[:i+2] + rest
	}
	return d
}

// c07SnapshotDiff lists the rules whose rendering differs (sorted).
func c07SnapshotDiff(want, got map[string]string) []string {
	var bad []string
	for k, w := range want {
		if got[k] != w {
			bad = append(bad, fmt.Sprintf("%s: was {%s} now {%s}", k, w, got[k]))
		}
	}
	for k := range got {
		if _, ok := want[k]; !ok {
			bad = append(bad, fmt.Sprintf("%s: new entry {%s}", k, got[k]))
		}
	}
	sort.Strings(bad)
	return bad
}

// ---------------------------------------------------------------- the monitor

type c07Case struct {
	Phase     string   `json:"phase"`
	Stmt      c07Stmt  `json:"stmt"`
	Got       string   `json:"got"`
	Baseline  []string `json:"baseline"`
	Goroutine int      `json:"goroutine"`
	Round     int      `json:"round"`
}

func TestVerif_C07(t *testing.T) {
	rec := kit.Start("C07", "exploration",
		"corpus = templates (sharded/unsharded fast+parsed path/global/explain/field-list) x session db x seeded literals; "+
			"a case is one statement planned while other goroutines plan against the same Router; distinct = class|db|plan")
	defer rec.Finish(t)
	rec.Set("race_detector", c07RaceEnabled)
	if !c07RaceEnabled {
		rec.Inconclusive("binary was built without -race: the unsynchronized-write half of C07 cannot be observed")
	}
	rec.Assume("the race detector only reports races on interleavings that happened in this run")
	rec.Assume("plans are compared as slice->db->SQL maps sent to plan.Executor (direct phase) or seen by the fake backends (end-to-end phase); merge behaviour is not compared")

	r := rigStart(t, rigOpts{Namespaces: []*models.Namespace{c07Namespace()}, FakePools: true})
	defer r.Close()

	seed := kit.Seed()
	corpus := c07Corpus(seed)
	rec.Set("corpus_size", len(corpus))

	if p := kit.ReplayPath(); p != "" {
		var c c07Case
		if err := kit.LoadReplay(p, &c); err != nil {
			t.Fatal(err)
		}
		corpus = append(corpus, c.Stmt)
	}

	t0 := time.Now()
	// ---- the structural snapshot: the shared router right after construction. A fresh namespace
	// built from the same config must render identically (else the snapshot itself is unstable).
	sharedNS := r.m.GetNamespace("c07ns")
	snap0 := c07RouterSnapshot(sharedNS)
	rec.Set("router_snapshot_paths", len(snap0))
	if _, fns, err := c07FreshPlanner(r, 0); err != nil {
		rec.Inconclusive("cannot build a fresh namespace: " + err.Error())
		return
	} else {
		if d := c07SnapshotDiff(snap0, c07RouterSnapshot(fns)); len(d) > 0 {
			rec.Inconclusive("two namespaces built from the same config render differently: " + strings.Join(d, "; "))
			return
		}
		fns.Close(false)
	}
	invariant := func(point string) {
		rec.Count("invariant_checks", 1)
		if d := c07SnapshotDiff(snap0, c07RouterSnapshot(sharedNS)); len(d) > 0 {
			name := c07DiffName(d[0])
			rec.Violation("router-state-changed:shared:"+name, fmt.Sprintf("the routing tables shared by all sessions differ from their state after construction (%s): %s", point, strings.Join(d, "; ")),
				map[string]interface{}{"point": point, "diff": d})
		}
	}

	// ---- reference: every statement ALONE on a FRESH namespace/router built from the same config
	base := map[string]map[string]bool{}
	nondet := 0
	for si, st := range corpus {
		fp, fns, err := c07FreshPlanner(r, si+1)
		if err != nil {
			rec.Inconclusive("cannot build a fresh namespace: " + err.Error())
			return
		}
		set := map[string]bool{}
		first := fp.plan(st)
		set[first] = true
		// (c) on the fresh router: did planning this one statement alter the routing tables?
		if d := c07SnapshotDiff(snap0, c07RouterSnapshot(fns)); len(d) > 0 {
			c := c07Case{Phase: "alone-on-fresh-router", Stmt: st, Got: first, Baseline: d}
			rec.Sample(c)
			rec.Violation("router-state-changed:"+st.Class, fmt.Sprintf("planning %q (db %s) alone on a fresh router changed routing tables that all sessions share: %s", st.Text, st.DB, strings.Join(d, "; ")), c)
			// the variants below must not be collected on the altered router
			fns.Close(false)
			if fp, fns, err = c07FreshPlanner(r, si+1); err != nil {
				rec.Inconclusive("cannot build a fresh namespace: " + err.Error())
				return
			}
		}
		if strings.HasPrefix(st.Class, "global-") {
			// a statement with a random choice (one plan per copy): collect until no new variant for 64 draws
			quiet := 0
			for n := 0; n < 600 && quiet < 64; n++ {
				g := fp.plan(st)
				if set[g] {
					quiet++
				} else {
					set[g] = true
					quiet = 0
				}
			}
			if len(set) > 1 {
				nondet++
				rec.Count("baseline.random_choice."+st.Class, 1)
			}
		} else if again := fp.plan(st); !set[again] {
			// not a random-choice class: the second plan on the same private router must be the same
			c := c07Case{Phase: "replan-on-private-router", Stmt: st, Got: again, Baseline: []string{first}}
			rec.Sample(c)
			rec.Violation("plan-differs:replan-alone:"+st.Class, fmt.Sprintf("%q (db %s) planned twice by one session on its own router gave %q then %q", st.Text, st.DB, first, again), c)
		}
		fns.Close(false)
		for g := range set {
			if strings.HasPrefix(g, "PANIC") || strings.Contains(g, "event not found") {
				rec.Inconclusive(fmt.Sprintf("baseline of %q (db %s) could not be observed: %s", st.Text, st.DB, g))
			}
			rec.Count("baseline.kind."+c07PlanKind(g), 1)
		}
		base[st.key()] = set
		if os.Getenv("VERIF_C07_DUMP") != "" {
			for g := range set {
				fmt.Printf("BASE %s [%s] %s\n   => %s\n", st.Class, st.DB, st.Text, strings.Replace(g, "\n", "\n      ", -1))
			}
		}
	}
	rec.Set("baseline_statements_with_random_choice", nondet)

	rec.Set("wall_baseline_s", time.Since(t0).Seconds())
	t0 = time.Now()
	var inflight, maxInflight int64
	var distinctPlans sync.Map
	seqP := c07NewPlanner(r, 0)
	check := func(phase string, st c07Stmt, got string, g, round int) {
		rec.Eval(1)
		set := base[st.key()]
		rec.Count("planned."+phase+"."+st.Kind, 1)
		if set[got] {
			rec.Nontrivial(st.Class + "|" + st.DB + "|" + kit.Hash64(got))
			distinctPlans.Store(kit.Hash64(got), true)
			return
		}
		var bl []string
		for b := range set {
			bl = append(bl, b)
		}
		sort.Strings(bl)
		c := c07Case{Phase: phase, Stmt: st, Got: got, Baseline: bl, Goroutine: g, Round: round}
		rec.Sample(c)
		rec.Violation("plan-differs:"+phase+":"+st.Class, fmt.Sprintf("%s planned concurrently in db %q gave %q, alone %q", st.Text, st.DB, got, bl), c)
	}

	// ---- cold start: for each statement class a FRESH namespace/router on which several sessions
	// plan their FIRST statements at the same moment (same and different statements of the class,
	// released together). State that is initialised lazily by a read path is written here by
	// several goroutines at once (race detector), and shows in the structural snapshot afterwards.
	{
		byClass := map[string][]c07Stmt{}
		var classNames []string
		for _, st := range corpus {
			if _, ok := byClass[st.Class]; !ok {
				classNames = append(classNames, st.Class)
			}
			byClass[st.Class] = append(byClass[st.Class], st)
		}
		cr := kit.SubRand(seed, "C07/cold")
		mixed := kit.N(40, 400)
		coldG := 8
		for ci := 0; ci < len(classNames)+mixed; ci++ {
			var pick func(g int) c07Stmt
			label := ""
			if ci < len(classNames) {
				sts := byClass[classNames[ci]]
				label = classNames[ci]
				// goroutines 0..3 the same first statement, the others different ones of the class
				pick = func(g int) c07Stmt {
					if g < 4 {
						return sts[0]
					}
					return sts[g%len(sts)]
				}
			} else {
				label = "mixed"
				picks := make([]c07Stmt, coldG)
				for g := range picks {
					picks[g] = corpus[cr.Intn(len(corpus))]
				}
				pick = func(g int) c07Stmt { return picks[g] }
			}
			_, fns, err := c07FreshPlanner(r, 100000+ci)
			if err != nil {
				rec.Inconclusive("cannot build a fresh namespace: " + err.Error())
				return
			}
			var wg sync.WaitGroup
			start := make(chan struct{})
			for g := 0; g < coldG; g++ {
				wg.Add(1)
				go func(g int) {
					defer wg.Done()
					pl := c07NewPlanner(r, 200000+ci*coldG+g)
					pl.se.contextNamespace = fns
					st := pick(g)
					<-start
					got := pl.plan(st)
					check("cold", st, got, g, ci)
				}(g)
			}
			close(start)
			wg.Wait()
			rec.Count("cold_start_routers", 1)
			if d := c07SnapshotDiff(snap0, c07RouterSnapshot(fns)); len(d) > 0 {
				c := c07Case{Phase: "cold-start", Stmt: pick(0), Baseline: d, Round: ci}
				rec.Violation("router-state-changed:cold:"+label+":"+c07DiffName(d[0]), fmt.Sprintf("after %d sessions planned their first statements (class %s) at the same moment on a fresh router, routing tables that all sessions share differ from their state after construction: %s", coldG, label, strings.Join(d, "; ")), c)
			}
			fns.Close(false)
		}
	}

	// ---- phase 0: the whole corpus sequentially on the shared router (one session after the
	// other's statements: a statement that leaves something behind changes a later plan)
	for _, st := range corpus {
		check("sequential", st, seqP.plan(st), 0, -1)
	}
	invariant("after the first sequential pass over the corpus")

	// ---- phase 1: direct planning, G goroutines x N statements, several rounds
	G := 32
	N := 400
	rounds := kit.N(4, 40)
	procs := []int{2, 4, 16}
	old := runtime.GOMAXPROCS(0)
	defer runtime.GOMAXPROCS(old)
	for round := 0; round < rounds; round++ {
		if kit.Tier() == "thorough" {
			runtime.GOMAXPROCS(procs[round%len(procs)])
		}
		var wg sync.WaitGroup
		start := make(chan struct{})
		for g := 0; g < G; g++ {
			wg.Add(1)
			go func(g int) {
				defer wg.Done()
				pr := kit.SubRand(seed, fmt.Sprintf("C07/direct/r%d/g%d", round, g))
				pl := c07NewPlanner(r, 1+round*G+g)
				<-start
				for i := 0; i < N; i++ {
					st := corpus[pr.Intn(len(corpus))]
					n := atomic.AddInt64(&inflight, 1)
					for {
						m := atomic.LoadInt64(&maxInflight)
						if n <= m || atomic.CompareAndSwapInt64(&maxInflight, m, n) {
							break
						}
					}
					got := pl.plan(st)
					atomic.AddInt64(&inflight, -1)
					check("direct", st, got, g, round)
				}
			}(g)
		}
		close(start)
		wg.Wait()
		invariant(fmt.Sprintf("after concurrent round %d", round))
	}
	runtime.GOMAXPROCS(old)
	rec.Set("direct_max_plans_in_flight", atomic.LoadInt64(&maxInflight))
	if atomic.LoadInt64(&maxInflight) < 2 {
		rec.Inconclusive("no two plans were ever in flight at the same time")
	}

	rec.Set("wall_direct_s", time.Since(t0).Seconds())
	t0 = time.Now()

	// ---- phase 2: end to end through real sessions
	c07EndToEnd(rec, r, corpus)
	rec.Set("wall_e2e_s", time.Since(t0).Seconds())
	invariant("after the end-to-end phase")

	// ---- final: re-plan the whole corpus sequentially and compare with the fresh-router references
	for _, st := range corpus {
		check("replan", st, seqP.plan(st), 0, -2)
	}
	invariant("after the final sequential re-plan")

	n := 0
	distinctPlans.Range(func(k, v interface{}) bool { n++; return true })
	rec.Set("distinct_plans_confirmed", n)
	for i := 0; i < 4 && i < len(corpus); i++ {
		st := corpus[(int(seed)*7+i*53)%len(corpus)]
		var bl []string
		for b := range base[st.key()] {
			bl = append(bl, b)
		}
		sort.Strings(bl)
		rec.Sample(map[string]interface{}{"stmt": st, "plans_alone": bl})
	}
}

func c07PlanKind(g string) string {
	if i := strings.IndexAny(g, "\n "); i > 0 {
		g = g[:i]
	}
	return strings.TrimPrefix(g, "*plan.")
}

// ---------------------------------------------------------------- end-to-end phase

// c07Echo makes every fake backend SELECT return one row (slice, role, db, sql) so that the
// client can see where its statement went; the merge of a plain multi-shard SELECT is the
// concatenation of those rows.
func c07Echo(c *rigConn, sql string) (*mysql.Result, error) {
	switch rigFirstWord(sql) {
	case "select":
		rs, err := mysql.BuildResultset(nil, []string{"slice", "db", "sql"}, [][]interface{}{{c.pool.slice, c.db, sql}})
		if err != nil {
			return nil, err
		}
		return &mysql.Result{Status: c.status(), Resultset: rs}, nil
	}
	return rigDefaultRespond(c, sql)
}

func c07EndToEnd(rec *kit.Rec, r *rig, corpus []c07Stmt) {
	var e2e []c07Stmt
	for _, st := range corpus {
		if st.E2E {
			e2e = append(e2e, st)
		}
	}
	// installed and removed under the backend's lock, which every fake Execute takes before reading the hook
	r.B.mu.Lock()
	r.B.Respond = c07Echo
	r.B.mu.Unlock()
	defer func() {
		r.B.mu.Lock()
		r.B.Respond = nil
		r.B.mu.Unlock()
	}()
	seed := kit.Seed()

	// baseline of the end-to-end view: one session, sequentially
	one := func(c *mycli.Conn, id int, seq *int, st c07Stmt) (string, error) {
		if _, err := c.InitDB(st.DB); err != nil {
			return "", err
		}
		if st.Kind == "fieldlist" {
			*seq++
			tag := fmt.Sprintf("e%dx%d", id, *seq)
			from := r.B.Len()
			_, ep, err := c.FieldList(st.Text, tag)
			if err != nil {
				return "", err
			}
			if ep != nil {
				return "ERR: " + ep.Msg, nil
			}
			return c07FieldListPlan(r.B.Events(from), st.Text+"|"+tag), nil
		}
		rs, err := c.Query(st.Text)
		if err != nil {
			return "", err
		}
		rp := rs[len(rs)-1]
		if rp.Err != nil {
			return "ERR: " + rp.Err.Msg, nil
		}
		var rows []string
		for _, row := range rp.Rows {
			var cols []string
			for _, v := range row {
				if v == nil {
					cols = append(cols, "NULL")
				} else {
					cols = append(cols, *v)
				}
			}
			rows = append(rows, strings.Join(cols, " | "))
		}
		sort.Strings(rows)
		return "ROWS\n" + strings.Join(rows, "\n"), nil
	}

	c, err := r.Dial("c07_rw", "pw_rw", "db_ks")
	if err != nil {
		rec.Inconclusive("end-to-end: cannot open a session: " + err.Error())
		return
	}
	seq := 0
	ebase := map[string]map[string]bool{}
	for _, st := range e2e {
		set := map[string]bool{}
		lim := 2
		if strings.HasPrefix(st.Class, "global-") {
			lim = 120
		}
		for i := 0; i < lim; i++ {
			g, err := one(c, 0, &seq, st)
			if err != nil {
				rec.Inconclusive("end-to-end baseline: " + err.Error())
				c.Close()
				return
			}
			set[g] = true
		}
		ebase[st.key()] = set
	}
	c.Quit()

	S := 16
	N := kit.N(100, 1500)
	var wg sync.WaitGroup
	start := make(chan struct{})
	var fail int64
	for s := 0; s < S; s++ {
		wg.Add(1)
		go func(s int) {
			defer wg.Done()
			pr := kit.SubRand(seed, fmt.Sprintf("C07/e2e/s%d", s))
			c, err := r.Dial("c07_rw", "pw_rw", "db_ks")
			if err != nil {
				atomic.AddInt64(&fail, 1)
				<-start
				return
			}
			defer c.Quit()
			seq := 0
			<-start
			for i := 0; i < N; i++ {
				st := e2e[pr.Intn(len(e2e))]
				got, err := one(c, 1+s, &seq, st)
				if err != nil {
					atomic.AddInt64(&fail, 1)
					return
				}
				// compare against the end-to-end baseline of the same statement
				rec.Eval(1)
				rec.Count("planned.e2e."+st.Kind, 1)
				if ebase[st.key()][got] {
					rec.Nontrivial("e2e|" + st.Class + "|" + st.DB + "|" + kit.Hash64(got))
					continue
				}
				var bl []string
				for b := range ebase[st.key()] {
					bl = append(bl, b)
				}
				sort.Strings(bl)
				cs := c07Case{Phase: "e2e", Stmt: st, Got: got, Baseline: bl, Goroutine: s}
				rec.Sample(cs)
				rec.Violation("plan-differs:e2e:"+st.Class, fmt.Sprintf("%s sent by a session in db %q concurrently reached %q, alone %q", st.Text, st.DB, got, bl), cs)
			}
		}(s)
	}
	close(start)
	done := make(chan struct{})
	go func() { wg.Wait(); close(done) }()
	select {
	case <-done:
	case <-time.After(10 * time.Minute):
		rec.Inconclusive("end-to-end phase did not finish within the 10 min watchdog")
		return
	}
	if fail > 0 {
		rec.Inconclusive(fmt.Sprintf("end-to-end: %d session(s) lost their connection", fail))
	}
}
