package server

// C36 — the SQL blacklist ignores literals, spacing, case and comments.
// Monitor (rig R6, metamorphic): a base statement is rendered from a small statement
// description (SELECT/INSERT/UPDATE/DELETE shapes) in one canonical style and put into the
// blacklist of a real Namespace (NewNamespace -> parseBlackSqls). Equivalent variants are
// produced by edits whose meaning the generator knows — replace a literal by a literal of
// the same kind, change the white space of a gap, add/remove optional white space next to an
// operator or punctuation, re-case a keyword, put a comment into a gap — and every one of
// them must be rejected by IsSQLAllowed. Structural mutants of the description (other
// table/column/operator, added/removed conjunct, AND<->OR, negation, other statement kind,
// added/removed LIMIT / ORDER BY / DESC, other select list) must be allowed.

import (
	"fmt"
	"runtime"
	"sort"
	"strings"
	"testing"

	"github.com/XiaoMi/Gaea/models"
	"github.com/XiaoMi/Gaea/util"
	kit "github.com/XiaoMi/Gaea/verifkit"
)

// ---------------------------------------------------------------- statement description

type c36Lit struct {
	Kind string `json:"kind"` // int dec str
	Text string `json:"text"`
}

type c36Cond struct {
	Col  string   `json:"col"`
	Form string   `json:"form"` // cmp in between like null
	Op   string   `json:"op,omitempty"`
	Not  bool     `json:"not,omitempty"`
	Lits []c36Lit `json:"lits,omitempty"`
}

type c36Stmt struct {
	Kind    string    `json:"kind"` // select insert update delete
	Table   string    `json:"table"`
	Cols    []string  `json:"cols,omitempty"` // select list (empty: *) / insert column list
	Vals    []c36Lit  `json:"vals,omitempty"` // insert values
	Sets    []c36Cond `json:"sets,omitempty"` // update assignments (cmp with =)
	Conds   []c36Cond `json:"conds,omitempty"`
	Conj    []string  `json:"conj,omitempty"` // len(Conds)-1 of and/or
	OrderBy string    `json:"order_by,omitempty"`
	Desc    bool      `json:"desc,omitempty"`
	Limit   *c36Lit   `json:"limit,omitempty"`
}

type c36Tok struct {
	T string
	K string // kw id int dec str op , ( ) *
}

func c36Kw(ws ...string) []c36Tok {
	var out []c36Tok
	for _, w := range ws {
		out = append(out, c36Tok{w, "kw"})
	}
	return out
}

func c36CondToks(c c36Cond) []c36Tok {
	out := []c36Tok{{c.Col, "id"}}
	lit := func(l c36Lit) c36Tok { return c36Tok{l.Text, l.Kind} }
	switch c.Form {
	case "cmp":
		out = append(out, c36Tok{c.Op, "op"}, lit(c.Lits[0]))
	case "in":
		if c.Not {
			out = append(out, c36Kw("not")...)
		}
		out = append(out, c36Kw("in")...)
		out = append(out, c36Tok{"(", "("})
		for i, l := range c.Lits {
			if i > 0 {
				out = append(out, c36Tok{",", ","})
			}
			out = append(out, lit(l))
		}
		out = append(out, c36Tok{")", ")"})
	case "between":
		if c.Not {
			out = append(out, c36Kw("not")...)
		}
		out = append(out, c36Kw("between")...)
		out = append(out, lit(c.Lits[0]))
		out = append(out, c36Kw("and")...)
		out = append(out, lit(c.Lits[1]))
	case "like":
		if c.Not {
			out = append(out, c36Kw("not")...)
		}
		out = append(out, c36Kw("like")...)
		out = append(out, lit(c.Lits[0]))
	case "null":
		out = append(out, c36Kw("is")...)
		if c.Not {
			out = append(out, c36Kw("not")...)
		}
		out = append(out, c36Kw("null")...)
	}
	return out
}

func c36Tokens(s c36Stmt) []c36Tok {
	var out []c36Tok
	idList := func(ids []string) {
		for i, c := range ids {
			if i > 0 {
				out = append(out, c36Tok{",", ","})
			}
			out = append(out, c36Tok{c, "id"})
		}
	}
	switch s.Kind {
	case "select":
		out = append(out, c36Kw("select")...)
		if len(s.Cols) == 0 {
			out = append(out, c36Tok{"*", "*"})
		} else {
			idList(s.Cols)
		}
		out = append(out, c36Kw("from")...)
		out = append(out, c36Tok{s.Table, "id"})
	case "delete":
		out = append(out, c36Kw("delete", "from")...)
		out = append(out, c36Tok{s.Table, "id"})
	case "update":
		out = append(out, c36Kw("update")...)
		out = append(out, c36Tok{s.Table, "id"})
		out = append(out, c36Kw("set")...)
		for i, a := range s.Sets {
			if i > 0 {
				out = append(out, c36Tok{",", ","})
			}
			out = append(out, c36CondToks(a)...)
		}
	case "insert":
		out = append(out, c36Kw("insert", "into")...)
		out = append(out, c36Tok{s.Table, "id"}, c36Tok{"(", "("})
		idList(s.Cols)
		out = append(out, c36Tok{")", ")"})
		out = append(out, c36Kw("values")...)
		out = append(out, c36Tok{"(", "("})
		for i, l := range s.Vals {
			if i > 0 {
				out = append(out, c36Tok{",", ","})
			}
			out = append(out, c36Tok{l.Text, l.Kind})
		}
		out = append(out, c36Tok{")", ")"})
	}
	if len(s.Conds) > 0 {
		out = append(out, c36Kw("where")...)
		for i, c := range s.Conds {
			if i > 0 {
				out = append(out, c36Kw(s.Conj[i-1])...)
			}
			out = append(out, c36CondToks(c)...)
		}
	}
	if s.OrderBy != "" {
		out = append(out, c36Kw("order", "by")...)
		out = append(out, c36Tok{s.OrderBy, "id"})
		if s.Desc {
			out = append(out, c36Kw("desc")...)
		}
	}
	if s.Limit != nil {
		out = append(out, c36Kw("limit")...)
		out = append(out, c36Tok{s.Limit.Text, s.Limit.Kind})
	}
	return out
}

func c36IsLitKind(k string) bool {
	return k == "int" || k == "dec" || k == "str" || k == "float" || k == "hex" || k == "bit"
}

func c36Wordlike(k string) bool {
	return k == "kw" || k == "id" || c36IsLitKind(k)
}

// c36BaseGap is the canonical text between tokens i-1 and i (gap 0: before the first
// token, gap n: after the last) and whether white space is mandatory there.
func c36BaseGap(toks []c36Tok, i int) (text string, mandatory bool) {
	if i == 0 || i == len(toks) {
		return "", false
	}
	l, r := toks[i-1].K, toks[i].K
	if c36Wordlike(l) && c36Wordlike(r) {
		return " ", true
	}
	switch {
	case r == ",":
		return "", false
	case l == ",":
		return " ", false
	case l == "(":
		return "", false
	case r == ")":
		return "", false
	}
	return " ", false // around operators, *, before ( and after )
}

// ---------------------------------------------------------------- edits

type c36Edit struct {
	Type string `json:"type"` // ws optdel optadd cmt case lit
	Pos  int    `json:"pos"`  // gap index (ws optdel optadd cmt) or token index (case lit)
	Arg  string `json:"arg,omitempty"`
}

var c36WsForms = map[string]string{"sp2": "  ", "tab": "\t", "nl": "\n", "crlf": "\r\n", "mix": " \t\n "}
var c36WsOrder = []string{"sp2", "tab", "nl", "crlf", "mix"}
// raw comment bodies: c36MlcBody goes between /* and */ (never begins with ! or +, never
// contains */), c36LineBody between "--<blank>" or "#" and the line break.
var c36MlcBody = map[string]string{
	"plain": " note ", "quote": " it's ", "dquote": " say \"hi ", "bquote": " `x ", "digits": " 42 ", "sql": " and x = 1 ",
	"empty": "", "star": "*", "slash": "/", "slash-lead": "/ c ", "slash-tail": " c /", "star-lead": "* c ", "star-tail": " c *",
	"dash-lead": "- c ", "dashes": "-- c ", "hash-lead": "# c ", "quote-lead": "'c ", "quote-tail": " c'", "open-inside": " a /* b ",
	"close-lookalike": " a * / b ", "stars": " a ** b ", "slashes": " a // b ", "newline": " line one\nline two ", "crlf": " a\r\n b ", "tight": "c",
}
var c36MlcBodyOrder = []string{"plain", "quote", "dquote", "bquote", "digits", "sql", "empty", "star", "slash", "slash-lead", "slash-tail", "star-lead", "star-tail",
	"dash-lead", "dashes", "hash-lead", "quote-lead", "quote-tail", "open-inside", "close-lookalike", "stars", "slashes", "newline", "crlf", "tight"}
var c36LineBody = map[string]string{
	"plain": " note", "quote": " it's", "dquote": " say \"hi", "bquote": " `x", "digits": " 42", "sql": " and x = 1",
	"empty": "", "star": "*", "slash": "/", "open-inside": " a /* b", "close-inside": " a */ b", "close-lead": "*/ c", "dashes": " a -- b", "dash-lead": "- c", "dash-tail": " c --",
	"hash-lead": "# c", "hash-inside": " a # b", "quote-lead": "'c", "quote-tail": " c'", "stars": " a ** b", "slashes": "// c", "cr-tail": " c\r", "tight": "c",
}
var c36LineBodyOrder = []string{"plain", "quote", "dquote", "bquote", "digits", "sql", "empty", "star", "slash", "open-inside", "close-inside", "close-lead", "dashes", "dash-lead", "dash-tail",
	"hash-lead", "hash-inside", "quote-lead", "quote-tail", "stars", "slashes", "cr-tail", "tight"}

// c36CommentText renders the comment (without the blanks the form puts around it).
func c36CommentText(form, content string) (string, bool) {
	switch form {
	case "mlc-spaced", "mlc-tight":
		b, ok := c36MlcBody[content]
		if !ok || strings.Index(b+"*/", "*/") != len(b) || strings.HasPrefix(b, "!") || strings.HasPrefix(b, "+") {
			return "", false
		}
		return "/*" + b + "*/", true
	case "dash":
		b, ok := c36LineBody[content]
		if !ok || strings.Contains(b, "\n") {
			return "", false
		}
		return "-- " + b + "\n", true // the blank after the dashes is part of the opener
	case "hash":
		b, ok := c36LineBody[content]
		if !ok || strings.Contains(b, "\n") {
			return "", false
		}
		return "#" + b + "\n", true
	}
	return "", false
}

func c36CommentContents(form string) []string {
	if form == "dash" || form == "hash" {
		return c36LineBodyOrder
	}
	return c36MlcBodyOrder
}
var c36CmtForms = []string{"mlc-spaced", "mlc-tight", "dash", "hash"}
var c36CaseStyles = []string{"upper", "capital", "alternate"}

// every spelling MySQL accepts for a literal of the kind (default sql_mode)
var c36LitForms = map[string][]string{
	"int":   {"digit", "zero", "long", "leading-zero", "neg", "pos"},
	"dec":   {"short", "long", "leading-dot", "trailing-dot", "zero-int", "neg", "pos"},
	"float": {"lower", "upper", "neg-exp", "upper-neg-exp", "pos-exp", "mantissa", "upper-mantissa", "dot-mantissa", "neg"},
	"hex":   {"lower-digits", "upper-digits", "mixed", "decimal-digits", "all-lower", "all-upper", "FF", "ff", "zero", "F0", "x-quote", "X-quote", "x-quote-upper-digits"},
	"bit":   {"b-quote", "B-quote", "0b", "0b-long", "b-quote-empty"},
	"str": {"plain", "space", "empty", "doubled-quote", "bs-quote", "dq-delim", "dq-inside", "sq-in-dq", "cmt-dash", "cmt-hash", "cmt-mlc", "digits", "sql", "paren", "qmark",
		"only-quote", "dq-empty", "dq-doubled", "dq-doubled-short", "dq-only-quote", "dq-bs-dq", "dq-bs-sq", "bs-bs-tail", "dq-bs-bs-tail", "newline", "dq-space", "doubled-twice", "dq-digits"},
}
var c36LitText = map[string]string{
	"int/digit": "7", "int/zero": "0", "int/long": "1234567", "int/leading-zero": "007", "int/neg": "-42", "int/pos": "+42",
	"dec/short": "2.5", "dec/long": "1234.5678", "dec/leading-dot": ".75", "dec/trailing-dot": "5.", "dec/zero-int": "0.25", "dec/neg": "-2.5", "dec/pos": "+2.5",
	"float/lower": "3e7", "float/upper": "3E7", "float/neg-exp": "1e-5", "float/upper-neg-exp": "1E-5", "float/pos-exp": "1e+5", "float/mantissa": "2.5e10", "float/upper-mantissa": "1.5E-3", "float/dot-mantissa": ".5e1", "float/neg": "-1e5",
	"hex/lower-digits": "0xab12", "hex/upper-digits": "0xAB12", "hex/mixed": "0xAbCdEf", "hex/decimal-digits": "0x0123456789", "hex/all-lower": "0xabcdef", "hex/all-upper": "0xABCDEF",
	"hex/FF": "0xFF", "hex/ff": "0xff", "hex/zero": "0x0", "hex/F0": "0xF0", "hex/x-quote": "x'1f'", "hex/X-quote": "X'1f'", "hex/x-quote-upper-digits": "x'1F'",
	"bit/b-quote": "b'1010'", "bit/B-quote": "B'01'", "bit/0b": "0b01", "bit/0b-long": "0b11110000", "bit/b-quote-empty": "b''",
	"str/plain": "'zz'", "str/space": "'hello world'", "str/empty": "''", "str/doubled-quote": "'it''s'", "str/bs-quote": `'it\'s'`,
	"str/dq-delim": `"zz"`, "str/dq-inside": `'say "hi"'`, "str/sq-in-dq": `"it's"`, "str/cmt-dash": "'a -- b'", "str/cmt-hash": "'a # b'", "str/cmt-mlc": "'a /* b */ c'",
	"str/digits": "'12345'", "str/sql": "'x = 1 or y in (2)'", "str/paren": "'a) (b'", "str/qmark": "'?'",
	"str/only-quote": "''''", "str/dq-empty": `""`, "str/dq-doubled": `"say ""hi"""`, "str/dq-doubled-short": `"a""b"`, "str/dq-only-quote": `""""`,
	"str/dq-bs-dq": `"a\"b"`, "str/dq-bs-sq": `"a\'b"`, "str/bs-bs-tail": `'a\\'`, "str/dq-bs-bs-tail": `"a\\"`, "str/newline": "'a\nb'", "str/dq-space": `"hello world"`,
	"str/doubled-twice": "'a''b''c'", "str/dq-digits": `"12345"`,
}

func c36Comment(arg string) (form, content string) {
	p := strings.SplitN(arg, ":", 2)
	return p[0], p[1]
}

func c36CaseOf(w, style string) string {
	switch style {
	case "upper":
		return strings.ToUpper(w)
	case "capital":
		return strings.ToUpper(w[:1]) + w[1:]
	}
	b := []byte(w)
	for i := range b {
		if i%2 == 1 && b[i] >= 'a' && b[i] <= 'z' {
			b[i] -= 32
		}
	}
	return string(b)
}

// c36Render writes the token list with the edits applied; ok=false for an edit that does
// not fit the token list.
func c36Render(toks []c36Tok, edits []c36Edit) (string, bool) {
	gapEd := map[int]c36Edit{}
	tokEd := map[int]c36Edit{}
	for _, e := range edits {
		switch e.Type {
		case "ws", "optdel", "optadd", "cmt":
			if _, dup := gapEd[e.Pos]; dup || e.Pos < 0 || e.Pos > len(toks) {
				return "", false
			}
			gapEd[e.Pos] = e
		case "case", "lit":
			if _, dup := tokEd[e.Pos]; dup || e.Pos < 0 || e.Pos >= len(toks) {
				return "", false
			}
			tokEd[e.Pos] = e
		default:
			return "", false
		}
	}
	var b strings.Builder
	for i := 0; i <= len(toks); i++ {
		base, mand := c36BaseGap(toks, i)
		g := base
		if e, ok := gapEd[i]; ok {
			switch e.Type {
			case "ws":
				f, okf := c36WsForms[e.Arg]
				if !okf || (base != " " && i != 0 && i != len(toks)) {
					return "", false
				}
				g = f
			case "optdel":
				if mand || base != " " {
					return "", false
				}
				g = ""
			case "optadd":
				if base != "" || i == 0 || i == len(toks) {
					return "", false
				}
				g = " "
			case "cmt":
				form, content := c36Comment(e.Arg)
				ct, okc := c36CommentText(form, content)
				if !okc {
					return "", false
				}
				switch form {
				case "mlc-spaced":
					g = " " + ct + " "
				case "mlc-tight":
					g = ct
				default: // dash, hash: a blank in front, the line break behind
					g = " " + ct
				}
			}
		}
		b.WriteString(g)
		if i == len(toks) {
			break
		}
		t := toks[i]
		if e, ok := tokEd[i]; ok {
			switch e.Type {
			case "case":
				if t.K != "kw" {
					return "", false
				}
				b.WriteString(c36CaseOf(t.T, e.Arg))
			case "lit":
				txt, okl := c36LitText[t.K+"/"+e.Arg]
				if !okl {
					return "", false
				}
				b.WriteString(txt)
			}
			continue
		}
		b.WriteString(t.T)
	}
	return b.String(), true
}

func c36CtxKind(toks []c36Tok, i int) string {
	if i < 0 {
		return "^"
	}
	if i >= len(toks) {
		return "$"
	}
	switch toks[i].K {
	case "kw", "id":
		return "W"
	case "int", "dec", "str", "float", "hex", "bit":
		return "V"
	case "op":
		return "O"
	}
	return toks[i].K
}

// c36EditSig is the canonical class of one edit: type, argument class, kinds of the
// neighbouring tokens.
func c36EditSig(toks []c36Tok, e c36Edit) string {
	switch e.Type {
	case "ws", "optdel", "optadd", "cmt":
		arg := ""
		if e.Arg != "" {
			arg = ":" + e.Arg
		}
		return e.Type + arg + "@" + c36CtxKind(toks, e.Pos-1) + "|" + c36CtxKind(toks, e.Pos)
	case "case":
		return "case:" + e.Arg + "@" + toks[e.Pos].T
	}
	return "lit:" + toks[e.Pos].K + "/" + e.Arg
}

// c36AllSingleEdits enumerates every single edit that fits the token list.
func c36AllSingleEdits(toks []c36Tok) []c36Edit {
	var out []c36Edit
	for i := 0; i <= len(toks); i++ {
		base, mand := c36BaseGap(toks, i)
		if base == " " || i == 0 || i == len(toks) {
			for _, f := range c36WsOrder {
				out = append(out, c36Edit{"ws", i, f})
			}
		}
		if base == " " && !mand {
			out = append(out, c36Edit{"optdel", i, ""})
		}
		if base == "" && i != 0 && i != len(toks) {
			out = append(out, c36Edit{"optadd", i, ""})
		}
		for _, f := range c36CmtForms {
			for _, c := range c36CommentContents(f) {
				out = append(out, c36Edit{"cmt", i, f + ":" + c})
			}
		}
	}
	for i, t := range toks {
		if t.K == "kw" {
			for _, s := range c36CaseStyles {
				out = append(out, c36Edit{"case", i, s})
			}
		}
		for _, f := range c36LitForms[t.K] {
			if (f == "neg" || f == "pos") && i > 0 && toks[i-1].T == "limit" {
				continue // not a valid row count
			}
			out = append(out, c36Edit{"lit", i, f})
		}
	}
	return out
}

// ---------------------------------------------------------------- generation

var c36Tables = []string{"t", "t_order", "users", "t1", "t2", "item2"}
var c36Columns = []string{"id", "name", "a", "b", "col1", "uid", "status", "c2", "c3"}
var c36Ops = []string{"=", "<", ">", "<=", ">=", "!=", "<>"}

func c36BaseLit(r *kit.Rand) c36Lit {
	switch r.Intn(8) {
	case 0, 1:
		return c36Lit{"str", "'x'"}
	case 2:
		return c36Lit{"dec", "1.5"}
	case 3:
		return c36Lit{"hex", "0x1f"}
	case 4:
		return c36Lit{"float", "1e5"}
	case 5:
		if r.Bool() {
			return c36Lit{"bit", "b'01'"}
		}
	}
	return c36Lit{"int", fmt.Sprint(1 + r.Intn(9))}
}

func c36GenCond(r *kit.Rand) c36Cond {
	c := c36Cond{Col: r.Pick(c36Columns)}
	switch r.Intn(10) {
	case 0, 1, 2, 3, 4:
		c.Form, c.Op, c.Lits = "cmp", r.Pick(c36Ops), []c36Lit{c36BaseLit(r)}
	case 5, 6:
		c.Form = "in"
		for n := 1 + r.Intn(3); n > 0; n-- {
			c.Lits = append(c.Lits, c36BaseLit(r))
		}
		c.Not = r.Chance(1, 4)
	case 7:
		c.Form, c.Lits = "between", []c36Lit{{"int", "1"}, {"int", "9"}}
		c.Not = r.Chance(1, 4)
	case 8:
		c.Form, c.Lits = "like", []c36Lit{{"str", "'x%'"}}
		c.Not = r.Chance(1, 4)
	default:
		c.Form, c.Not = "null", r.Bool()
	}
	return c
}

func c36GenStmt(r *kit.Rand) c36Stmt {
	s := c36Stmt{Kind: []string{"select", "select", "select", "insert", "update", "delete"}[r.Intn(6)], Table: r.Pick(c36Tables)}
	conds := func(min int) {
		n := min + r.Intn(3)
		if r.Chance(1, 5) {
			n += 1 + r.Intn(3)
		}
		for i := 0; i < n; i++ {
			s.Conds = append(s.Conds, c36GenCond(r))
			if i > 0 {
				s.Conj = append(s.Conj, []string{"and", "and", "or"}[r.Intn(3)])
			}
		}
	}
	switch s.Kind {
	case "select":
		for n := r.Intn(4); n > 0; n-- {
			s.Cols = append(s.Cols, r.Pick(c36Columns))
		}
		conds(0)
		if r.Chance(1, 3) {
			s.OrderBy = r.Pick(c36Columns)
			s.Desc = r.Chance(1, 3)
		}
		if r.Chance(1, 3) {
			s.Limit = &c36Lit{"int", "10"}
		}
	case "insert":
		for n := 1 + r.Intn(3); n > 0; n-- {
			s.Cols = append(s.Cols, r.Pick(c36Columns))
			s.Vals = append(s.Vals, c36BaseLit(r))
		}
	case "update":
		for n := 1 + r.Intn(2); n > 0; n-- {
			s.Sets = append(s.Sets, c36Cond{Col: r.Pick(c36Columns), Form: "cmp", Op: "=", Lits: []c36Lit{c36BaseLit(r)}})
		}
		conds(1)
	case "delete":
		conds(1)
	}
	return s
}

func c36CloneStmt(s c36Stmt) c36Stmt {
	d := s
	d.Cols = append([]string{}, s.Cols...)
	d.Vals = append([]c36Lit{}, s.Vals...)
	d.Conj = append([]string{}, s.Conj...)
	cp := func(cs []c36Cond) []c36Cond {
		out := make([]c36Cond, len(cs))
		for i, c := range cs {
			out[i] = c
			out[i].Lits = append([]c36Lit{}, c.Lits...)
		}
		return out
	}
	d.Sets, d.Conds = cp(s.Sets), cp(s.Conds)
	if s.Limit != nil {
		l := *s.Limit
		d.Limit = &l
	}
	return d
}

func c36Other(r *kit.Rand, pool []string, not string) string {
	for {
		if x := r.Pick(pool); x != not {
			return x
		}
	}
}

var c36MutKinds = []string{"table", "column", "operator", "add-conjunct", "remove-conjunct", "and-or", "negate", "stmt-kind", "limit", "order-by", "desc", "select-list"}

// c36Mutate returns a structurally different statement, or ok=false if the mutation kind
// does not apply to s.
func c36Mutate(r *kit.Rand, s c36Stmt, kind string) (c36Stmt, bool) {
	m := c36CloneStmt(s)
	switch kind {
	case "table":
		m.Table = c36Other(r, c36Tables, s.Table)
	case "column":
		var slots []*string
		for i := range m.Cols {
			slots = append(slots, &m.Cols[i])
		}
		for i := range m.Sets {
			slots = append(slots, &m.Sets[i].Col)
		}
		for i := range m.Conds {
			slots = append(slots, &m.Conds[i].Col)
		}
		if m.OrderBy != "" {
			slots = append(slots, &m.OrderBy)
		}
		if len(slots) == 0 {
			return m, false
		}
		p := slots[r.Intn(len(slots))]
		*p = c36Other(r, c36Columns, *p)
	case "operator":
		var idx []int
		for i, c := range m.Conds {
			if c.Form == "cmp" {
				idx = append(idx, i)
			}
		}
		if len(idx) == 0 {
			return m, false
		}
		c := &m.Conds[idx[r.Intn(len(idx))]]
		for {
			op := r.Pick(c36Ops)
			same := op == c.Op || (op == "!=" && c.Op == "<>") || (op == "<>" && c.Op == "!=")
			if !same {
				c.Op = op
				break
			}
		}
	case "add-conjunct":
		if m.Kind == "insert" {
			return m, false
		}
		m.Conds = append(m.Conds, c36Cond{Col: r.Pick(c36Columns), Form: "cmp", Op: "=", Lits: []c36Lit{{"int", "1"}}})
		if len(m.Conds) > 1 {
			m.Conj = append(m.Conj, "and")
		}
	case "remove-conjunct":
		if len(m.Conds) < 2 {
			return m, false
		}
		i := r.Intn(len(m.Conds))
		m.Conds = append(m.Conds[:i], m.Conds[i+1:]...)
		j := i
		if j >= len(m.Conj) {
			j = len(m.Conj) - 1
		}
		m.Conj = append(m.Conj[:j], m.Conj[j+1:]...)
	case "and-or":
		if len(m.Conj) == 0 {
			return m, false
		}
		i := r.Intn(len(m.Conj))
		if m.Conj[i] == "and" {
			m.Conj[i] = "or"
		} else {
			m.Conj[i] = "and"
		}
	case "negate":
		var idx []int
		for i, c := range m.Conds {
			if c.Form != "cmp" {
				idx = append(idx, i)
			}
		}
		if len(idx) == 0 {
			return m, false
		}
		c := &m.Conds[idx[r.Intn(len(idx))]]
		c.Not = !c.Not
	case "stmt-kind":
		switch m.Kind {
		case "select":
			if len(m.Conds) == 0 {
				return m, false
			}
			m.Kind, m.Cols, m.OrderBy, m.Desc, m.Limit = "delete", nil, "", false, nil
		case "delete":
			m.Kind = "select"
		case "update":
			m.Kind, m.Sets = "delete", nil
		default:
			return m, false
		}
	case "limit":
		if m.Kind != "select" {
			return m, false
		}
		if m.Limit == nil {
			m.Limit = &c36Lit{"int", "5"}
		} else {
			m.Limit = nil
		}
	case "order-by":
		if m.Kind != "select" {
			return m, false
		}
		if m.OrderBy == "" {
			m.OrderBy = r.Pick(c36Columns)
		} else {
			m.OrderBy, m.Desc = "", false
		}
	case "desc":
		if m.OrderBy == "" {
			return m, false
		}
		m.Desc = !m.Desc
	case "select-list":
		if m.Kind != "select" {
			return m, false
		}
		if len(m.Cols) == 0 {
			m.Cols = []string{r.Pick(c36Columns)}
		} else if r.Bool() {
			m.Cols = nil
		} else {
			m.Cols = append(m.Cols, r.Pick(c36Columns))
		}
	default:
		return m, false
	}
	return m, true
}

func c36Shape(s c36Stmt) string {
	var fs []string
	for _, c := range s.Conds {
		f := c.Form
		if c.Not {
			f = "not-" + f
		}
		fs = append(fs, f)
	}
	sort.Strings(fs)
	u := fs[:0]
	for i, f := range fs {
		if i == 0 || f != fs[i-1] {
			u = append(u, f)
		}
	}
	x := ""
	if s.OrderBy != "" {
		x += "+order"
		if s.Desc {
			x += "-desc"
		}
	}
	if s.Limit != nil {
		x += "+limit"
	}
	return s.Kind + "[" + strings.Join(u, ",") + "]" + x
}

// ---------------------------------------------------------------- monitor

type c36Case struct {
	Base     c36Stmt   `json:"base"`
	Edits    []c36Edit `json:"edits,omitempty"`
	Mutation string    `json:"mutation,omitempty"`
	Mutant   *c36Stmt  `json:"mutant,omitempty"`
}

func c36NewNS(blackSQL string, real bool) (*Namespace, func(), error) {
	if real {
		cfg := &models.Namespace{Name: "c36", BlackSQL: []string{blackSQL}, DefaultSlice: "slice-0", Slices: []*models.Slice{{Name: "slice-0"}}}
		ns, err := NewNamespace(cfg, "")
		if err != nil {
			return nil, func() {}, err
		}
		return ns, func() { ns.Close(false) }, nil
	}
	return &Namespace{sqls: parseBlackSqls([]string{blackSQL})}, func() {}, nil
}

// c36Outcome asks the real blacklist: "rejected", "allowed" or "panic" (detail: the class
// of the crash = Gaea function that panicked + kind of runtime error).
func c36Outcome(ns *Namespace, sql string) (out, detail string) {
	defer func() {
		if r := recover(); r != nil {
			out, detail = "panic", c36PanicSite()+"/"+c36PanicClass(fmt.Sprint(r))
		}
	}()
	if ns.IsSQLAllowed(util.NewRequestContext(), sql) {
		return "allowed", ""
	}
	return "rejected", ""
}

// c36PanicSite names the innermost Gaea function on the stack of the current panic.
func c36PanicSite() string {
	pcs := make([]uintptr, 64)
	n := runtime.Callers(2, pcs)
	frames := runtime.CallersFrames(pcs[:n])
	for {
		f, more := frames.Next()
		if strings.HasPrefix(f.Function, "github.com/XiaoMi/Gaea/") && !strings.Contains(f.File, "zzverif_") && !strings.Contains(f.Function, "/verifkit") {
			return strings.TrimPrefix(f.Function, "github.com/XiaoMi/Gaea/")
		}
		if !more {
			return "unknown"
		}
	}
}

// c36PanicClass is the kind of runtime error, without its numbers.
func c36PanicClass(msg string) string {
	switch {
	case strings.Contains(msg, "out of range"):
		return "out-of-range"
	case strings.Contains(msg, "nil pointer"):
		return "nil-dereference"
	}
	var b strings.Builder
	for _, r := range msg {
		if r >= '0' && r <= '9' {
			continue
		}
		b.WriteRune(r)
	}
	f := strings.Fields(strings.NewReplacer("[", " ", "]", " ", ":", " ").Replace(b.String()))
	return strings.Join(f, "-")
}

func c36Rejected(ns *Namespace, sql string) bool {
	o, _ := c36Outcome(ns, sql)
	return o == "rejected"
}

func c36Fingerprint(sql string) (fp string) {
	defer func() {
		if r := recover(); r != nil {
			fp = "<panic: " + fmt.Sprint(r) + ">"
		}
	}()
	return getSQLFingerprint(util.NewRequestContext(), sql)
}

func TestVerif_C36(t *testing.T) {
	rec := kit.Start("C36", "exploration", "base statements from a SELECT/INSERT/UPDATE/DELETE description (cmp/in/between/like/is-null conditions, and/or, order by, limit) blacklisted in a real Namespace; equivalent variants = every single edit (white-space form, optional white space added/removed, 4 comment forms x 25/23 raw bodies (empty, leading/trailing / * - # quotes, /* and */ look-alikes, **, //, line breaks) in every gap, keyword case, literal form per kind) plus random multi-edit variants; structural mutants of 12 kinds; non-trivial = distinct (edit class with neighbour kinds | mutation kind with statement shape, outcome)")
	rec.Assume("default sql_mode: \"...\" is a string literal; /*! */ and /*+ */ comments are not generated")
	rec.Assume("normalisations the fingerprint documents on purpose (IN-list / VALUES-list length, ORDER BY ... ASC) are not used as mutants; != and <> are not used as each other's operator mutant")
	defer rec.Finish(t)
	lxQuietLogs()

	sigSeen := map[string]bool{}
	evals := 0

	wantOutcome := "allowed" // the failure class the shrinker preserves (allowed | panic)
	notRejected := func(ns *Namespace, toks []c36Tok, edits []c36Edit) bool {
		sql, ok := c36Render(toks, edits)
		if !ok {
			return false
		}
		o, _ := c36Outcome(ns, sql)
		return o == wantOutcome
	}
	// shrink a failing set of edits (keeping its failure class) and report it
	reportEquiv := func(ns *Namespace, base c36Stmt, toks []c36Tok, edits []c36Edit) {
		ed := append([]c36Edit{}, edits...)
		full, _ := c36Render(toks, ed)
		wantOutcome, _ = c36Outcome(ns, full)
		if wantOutcome == "rejected" {
			return
		}
		for changed := true; changed; {
			changed = false
			for i := 0; i < len(ed) && !changed; i++ {
				d := append(append([]c36Edit{}, ed[:i]...), ed[i+1:]...)
				if len(d) > 0 && notRejected(ns, toks, d) {
					ed, changed = d, true
				}
			}
			// two at a time (an even number of quote characters cancels out)
			for i := 0; i < len(ed) && !changed; i++ {
				for j := i + 1; j < len(ed) && !changed; j++ {
					d := append(append(append([]c36Edit{}, ed[:i]...), ed[i+1:j]...), ed[j+1:]...)
					if len(d) > 0 && notRejected(ns, toks, d) {
						ed, changed = d, true
					}
				}
			}
			// simplest argument that still fails
			for i := 0; i < len(ed) && !changed; i++ {
				var alt string
				switch ed[i].Type {
				case "ws":
					alt = "sp2"
				case "cmt":
					// a comment is white space: the same gap with a plain blank instead
					d := append([]c36Edit{}, ed...)
					d[i] = c36Edit{Type: "optadd", Pos: ed[i].Pos}
					if notRejected(ns, toks, d) {
						ed, changed = d, true
						continue
					}
					f, _ := c36Comment(ed[i].Arg)
					alt = f + ":plain"
				default:
					continue
				}
				if alt == ed[i].Arg {
					continue
				}
				d := append([]c36Edit{}, ed...)
				d[i].Arg = alt
				if notRejected(ns, toks, d) {
					ed, changed = d, true
				}
			}
		}
		var parts []string
		for _, e := range ed {
			parts = append(parts, c36EditSig(toks, e))
		}
		sort.Strings(parts)
		b, _ := c36Render(toks, nil)
		v, _ := c36Render(toks, ed)
		out, detail := c36Outcome(ns, v)
		sig := "equivalent-not-rejected/" + strings.Join(parts, "+")
		if out == "panic" {
			// one class per crash site, whatever edits lead there
			sig = "statement-panics/" + detail
		}
		if sigSeen[sig] {
			rec.Violation(sig, "", nil)
			return
		}
		sigSeen[sig] = true
		rec.Violation(sig, fmt.Sprintf("blacklisted %q; variant %q: IsSQLAllowed %s (fingerprints %q vs %q)", b, v, out, c36Fingerprint(b), c36Fingerprint(v)), c36Case{Base: base, Edits: ed})
	}
	reportMutant := func(base c36Stmt, kind string, m c36Stmt, out string) {
		sig := "mutant-rejected/" + kind + "/" + c36Shape(base)
		if out == "panic" {
			mv, _ := c36Render(c36Tokens(m), nil)
			_, detail := c36Outcome(&Namespace{sqls: map[string]string{"x": "x"}}, mv)
			sig = "statement-panics/" + detail
		}
		if sigSeen[sig] {
			rec.Violation(sig, "", nil)
			return
		}
		sigSeen[sig] = true
		b, _ := c36Render(c36Tokens(base), nil)
		v, _ := c36Render(c36Tokens(m), nil)
		mm := m
		rec.Violation(sig, fmt.Sprintf("blacklisted %q; structurally different %q: IsSQLAllowed %s (fingerprint %q)", b, v, out, c36Fingerprint(v)), c36Case{Base: base, Mutation: kind, Mutant: &mm})
	}

	if p := kit.ReplayPath(); p != "" {
		var c c36Case
		if err := kit.LoadReplay(p, &c); err != nil {
			t.Fatal(err)
		}
		toks := c36Tokens(c.Base)
		b, _ := c36Render(toks, nil)
		ns, done, err := c36NewNS(b, true)
		if err != nil {
			t.Fatal(err)
		}
		defer done()
		rec.Eval(1)
		rec.Nontrivial("replay")
		rec.Nontrivial("replay/" + c.Mutation)
		rec.Sample(c)
		if c.Mutant != nil {
			v, _ := c36Render(c36Tokens(*c.Mutant), nil)
			if o, _ := c36Outcome(ns, v); o != "allowed" {
				reportMutant(c.Base, c.Mutation, *c.Mutant, o)
			}
		} else if notRejected(ns, toks, c.Edits) {
			reportEquiv(ns, c.Base, toks, c.Edits)
		}
		return
	}

	// the first bases are fixed: k copies of one condition form, k = 1..4
	var fixed []c36Stmt
	for _, form := range []string{"cmp", "in1", "in", "between", "like", "null"} {
		for k := 1; k <= 4; k++ {
			b := c36Stmt{Kind: "select", Table: "t", Cols: []string{"a"}}
			for i := 0; i < k; i++ {
				c := c36Cond{Col: c36Columns[i], Form: form}
				switch form {
				case "cmp":
					c.Op, c.Lits = "=", []c36Lit{{"int", "1"}}
				case "in1":
					c.Form, c.Lits = "in", []c36Lit{{"int", "1"}}
				case "in":
					c.Lits = []c36Lit{{"int", "1"}, {"str", "'x'"}}
				case "between":
					c.Lits = []c36Lit{{"int", "1"}, {"int", "9"}}
				case "like":
					c.Lits = []c36Lit{{"str", "'x%'"}}
				}
				b.Conds = append(b.Conds, c)
				if i > 0 {
					b.Conj = append(b.Conj, "or")
				}
			}
			fixed = append(fixed, b)
		}
	}
	r := kit.SubRand(kit.Seed(), "C36/bases")
	nBases := kit.N(300, 20000)
	nReal := kit.N(300, 2000)
	nExhaustive := kit.N(60, 6000)
	nMulti := 30
	samples := 0
	for bi := 0; bi < nBases; bi++ {
		base := c36GenStmt(r)
		if bi < len(fixed) {
			base = fixed[bi]
		}
		toks := c36Tokens(base)
		baseSQL, _ := c36Render(toks, nil)
		ns, done, err := c36NewNS(baseSQL, bi < nReal)
		if err != nil {
			rec.Inconclusive("C36: NewNamespace failed: " + err.Error())
			return
		}
		if bi < nReal {
			rec.Count("namespaces.via_NewNamespace", 1)
		} else {
			rec.Count("namespaces.via_parseBlackSqls", 1)
		}
		// identity
		evals++
		if o, _ := c36Outcome(ns, baseSQL); o != "rejected" {
			rec.Violation("base-not-rejected/"+base.Kind+"/"+o, fmt.Sprintf("blacklisted %q itself: IsSQLAllowed %s", baseSQL, o), c36Case{Base: base})
		}
		singles := c36AllSingleEdits(toks)
		try := func(edits []c36Edit, key string) {
			sql, ok := c36Render(toks, edits)
			if !ok {
				rec.Count("generator.invalid_skipped", 1)
				return
			}
			evals++
			eo, _ := c36Outcome(ns, sql)
			rej := eo == "rejected"
			rec.Count("calls.IsSQLAllowed.equivalent", 1)
			if eo == "panic" {
				rec.Count("equivalent.panic", 1)
			}
			if rej {
				rec.Count("equivalent.rejected", 1)
				if samples < 4 && len(edits) >= 3 {
					samples++
					rec.Sample(map[string]interface{}{"blacklisted": baseSQL, "equivalent_variant": sql, "rejected": true})
				}
			} else {
				rec.Count("equivalent.allowed", 1)
				reportEquiv(ns, base, toks, edits)
			}
			if key != "" {
				rec.Nontrivial(fmt.Sprintf("%s/%v", key, eo))
			}
		}
		if bi < nExhaustive {
			for _, e := range singles {
				try([]c36Edit{e}, c36EditSig(toks, e))
			}
		}
		// the whole statement in the tightest and in the loosest spacing
		var tight, loose []c36Edit
		for i := 1; i < len(toks); i++ {
			if g, mand := c36BaseGap(toks, i); g == " " && !mand {
				tight = append(tight, c36Edit{"optdel", i, ""})
			} else if g == "" {
				loose = append(loose, c36Edit{"optadd", i, ""})
			}
		}
		// the same gap edit in every gap it fits
		if bi < nExhaustive {
			byKind := map[string][]c36Edit{}
			var order []string
			for _, e := range singles {
				if e.Type == "case" || e.Type == "lit" || e.Type == "optdel" || e.Type == "optadd" {
					continue
				}
				k := e.Type + ":" + e.Arg
				if _, ok := byKind[k]; !ok {
					order = append(order, k)
				}
				byKind[k] = append(byKind[k], e)
			}
			for _, k := range order {
				try(byKind[k], "")
			}
		}
		if len(tight) > 0 {
			try(tight, "")
		}
		if len(loose) > 0 {
			try(loose, "")
		}
		for k := 0; k < nMulti; k++ {
			n := 1
			if k%3 != 0 {
				n = 2 + r.Intn(4)
			}
			var ed []c36Edit
			used := map[string]bool{}
			for len(ed) < n {
				e := singles[r.Intn(len(singles))]
				slot := fmt.Sprint(e.Type == "case" || e.Type == "lit", e.Pos)
				if used[slot] {
					if len(used) >= len(toks) {
						break
					}
					continue
				}
				used[slot] = true
				ed = append(ed, e)
			}
			key := ""
			if len(ed) == 1 {
				key = c36EditSig(toks, ed[0])
			}
			try(ed, key)
		}
		for _, mk := range c36MutKinds {
			m, ok := c36Mutate(r, base, mk)
			if !ok {
				continue
			}
			msql, _ := c36Render(c36Tokens(m), nil)
			if msql == baseSQL {
				rec.Count("generator.mutant_identical_skipped", 1)
				continue
			}
			evals++
			mo, _ := c36Outcome(ns, msql)
			rec.Count("calls.IsSQLAllowed.mutant", 1)
			rec.Nontrivial(fmt.Sprintf("mutant/%s/%s/%v", mk, c36Shape(base), mo))
			if mo != "allowed" {
				rec.Count("mutant."+mo, 1)
				reportMutant(base, mk, m, mo)
			} else {
				rec.Count("mutant.allowed", 1)
				if samples < 6 && bi%5 == 1 {
					samples++
					rec.Sample(map[string]interface{}{"blacklisted": baseSQL, "structural_mutant": msql, "mutation": mk, "rejected": false})
				}
			}
		}
		done()
	}
	rec.Eval(evals)
}
