//go:build race
// +build race

package server

const c07RaceEnabled = true
