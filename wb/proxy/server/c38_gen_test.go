package server

// C38 input generators: deterministic, structure-aware mutation of well-formed seeds.
// Everything is a function of (VERIF_SEED, tier) through kit.SubRand; nothing is time-budgeted.

import (
	"encoding/binary"
	"fmt"
	"strings"

	kit "github.com/XiaoMi/Gaea/verifkit"
	"github.com/XiaoMi/Gaea/verifkit/mycli"
)

// c38HS is a structured handshake response; the bytes are composed at run time because a
// valid proof needs the salt of the connection.
type c38HS struct {
	Cap      uint32 `json:"cap"`
	MaxPkt   uint32 `json:"maxpkt"`
	Coll     int    `json:"coll"`
	Filler   int    `json:"filler"` // number of reserved zero bytes (23 when well-formed)
	User     string `json:"user"`
	UserNUL  bool   `json:"user_nul"`
	Auth     string `json:"auth"`     // "native:<password>" | "sha2:<password>" | "hex:<bytes>" | "zero:<n>"
	AuthLen  string `json:"auth_len"` // "byte" (1-byte true length) | "byte:<n>" (1-byte lie) | "lenenc:<hexprefix>" | "nul" | "none"
	DB       string `json:"db"`
	DBNUL    bool   `json:"db_nul"`
	HasDB    bool   `json:"has_db"`
	Plugin   string `json:"plugin"`
	PlugNUL  bool   `json:"plugin_nul"`
	HasPlug  bool   `json:"has_plugin"`
	Tail     []byte `json:"tail,omitempty"`  // appended after everything (connection attributes, garbage)
	Trunc    int    `json:"trunc"`           // keep only the first Trunc bytes (-1: all)
	FlipPos  []int  `json:"flip_pos,omitempty"`
	FlipXor  []int  `json:"flip_xor,omitempty"`
	RawWhole []byte `json:"raw_whole,omitempty"` // if set, the payload is exactly these bytes
}

// c38Frame is one frame written to the socket.
type c38Frame struct {
	Class   string  `json:"class"`
	Seq     int     `json:"seq"`               // sequence id byte of the header
	HdrLen  int     `json:"hdr_len"`           // length field of the header; -1 = true payload length
	Payload []byte  `json:"payload,omitempty"` // command byte + argument (cmd cases)
	HS      *c38HS  `json:"hs,omitempty"`      // structured handshake response (first frame of hs cases)
	Half    bool    `json:"half,omitempty"`    // after this frame the client shuts down its write side (frame promises more than it carries)
	NoReply bool    `json:"noreply,omitempty"` // protocol says: no reply to this command when it is accepted
	// multi-frame commands: Big filler bytes are appended to Payload in the first frame (not stored),
	// Cont are the payloads of the continuation frames (sequence ids Seq+1, ...). Complete = every
	// announced byte is sent and the last frame is shorter than 0xFFFFFF: the command is whole.
	Big      int      `json:"big,omitempty"`
	Cont     [][]byte `json:"cont,omitempty"`
	Complete bool     `json:"complete,omitempty"`
}

// c38Case is one hostile client: a connection, an optional well-formed prelude, and frames.
type c38Case struct {
	Group  string     `json:"group"`
	Idx    int        `json:"idx"`
	Kind   string     `json:"kind"`  // hs | cmd
	User   string     `json:"user"`  // cmd: which user logs in (ns1_rw / ns2_rw keep-session namespace / ns3_rw small max_client_connections)
	DB     string     `json:"db,omitempty"` // cmd: database named in the (well-formed) handshake; "" = db, "<none>" = none
	Setup  string     `json:"setup"` // "", prep (4 statements), prep1 (statement 0 only), tx, tx+prep, noac
	Frames []c38Frame `json:"frames"`
}

const (
	c38CapSSL          = 1 << 11
	c38CapConnAttrs    = 1 << 20
	c38CapLenencClient = 1 << 21
)

var c38PrepSet = []string{
	"select * from tbl_shard where id = ?",
	"insert into t2 (a, b, c) values (?, ?, ?)",
	"select 1",
	"update tbl_shard set a=?, b=?, c=?, d=?, e=?, f=?, g=?, h=?, i=? where id=?",
}
var c38PrepParams = []int{1, 3, 0, 10}

func c38GoodHS() c38HS {
	return c38HS{Cap: mycli.DefaultCapability, MaxPkt: 1 << 24, Coll: 33, Filler: 23, User: "ns1_rw", UserNUL: true,
		Auth: "native:pw_rw", AuthLen: "byte", DB: "db", DBNUL: true, HasDB: true, Trunc: -1}
}

func c38HSFrame(class string, h c38HS) c38Frame {
	hh := h
	return c38Frame{Class: class, Seq: 1, HdrLen: -1, HS: &hh}
}

func c38Cmd(class string, cmd byte, arg []byte) c38Frame {
	return c38Frame{Class: class, Seq: 0, HdrLen: -1, Payload: append([]byte{cmd}, arg...)}
}

func c38U32(v uint32) []byte { b := make([]byte, 4); binary.LittleEndian.PutUint32(b, v); return b }
func c38U16(v uint16) []byte { b := make([]byte, 2); binary.LittleEndian.PutUint16(b, v); return b }

// ---------------------------------------------------------------- handshake groups

func c38GenHandshake(seed uint64) map[string][]c38Case {
	out := map[string][]c38Case{}
	add := func(group string, frames ...c38Frame) {
		out[group] = append(out[group], c38Case{Group: group, Idx: len(out[group]), Kind: "hs", Frames: frames})
	}
	// three seeds: with db, with db + plugin name, without db
	seeds := []c38HS{c38GoodHS(), c38GoodHS(), c38GoodHS()}
	seeds[1].Cap |= mycli.ClientPluginAuth
	seeds[1].HasPlug, seeds[1].Plugin, seeds[1].PlugNUL = true, "", true // equals the server's (empty) plugin name: no auth switch
	seeds[2].Cap &^= mycli.ClientConnectWithDB
	seeds[2].HasDB = false

	// 1. every truncation length (exhaustive; upper bound covers the longest seed)
	for si, s := range seeds {
		for n := 0; n <= 80; n++ {
			h := s
			h.Trunc = n
			add("hs/trunc", c38HSFrame(fmt.Sprintf("hs/trunc/seed%d", si), h))
		}
	}
	// 2. capability flag combinations over the bits the reader branches on
	bits := []uint32{mycli.ClientProtocol41, mycli.ClientSecureConnection, c38CapLenencClient, mycli.ClientConnectWithDB,
		mycli.ClientPluginAuth, c38CapConnAttrs, c38CapSSL, mycli.ClientMultiStatements, mycli.ClientLongPassword}
	nc := 1 << uint(len(bits))
	r := kit.SubRand(seed, "C38/hs/caps")
	step := kit.N(4, 1)
	for m := 0; m < nc; m += step {
		mm := m
		if step > 1 {
			mm = m + r.Intn(step)
		}
		var capab uint32
		for i, b := range bits {
			if mm&(1<<uint(i)) != 0 {
				capab |= b
			}
		}
		h := c38GoodHS()
		h.Cap = capab
		h.HasPlug, h.Plugin, h.PlugNUL = true, "mysql_native_password", true // bytes are there whether or not the flag says so
		add("hs/caps", c38HSFrame("hs/caps", h), c38Frame{Class: "hs/caps/switch-reply", Seq: 3, HdrLen: -1, Payload: r.Bytes(20)})
	}
	// 3. auth length byte 0..40 against 20 real bytes, and with matching data
	for n := 0; n <= 40; n++ {
		h := c38GoodHS()
		h.AuthLen = fmt.Sprintf("byte:%d", n)
		add("hs/authlen", c38HSFrame("hs/authlen/lie", h))
		h2 := c38GoodHS()
		h2.Auth = fmt.Sprintf("zero:%d", n)
		add("hs/authlen", c38HSFrame("hs/authlen/match", h2))
		h3 := c38GoodHS()
		h3.Auth = fmt.Sprintf("zero:%d", n)
		h3.HasDB, h3.Cap = false, h3.Cap&^mycli.ClientConnectWithDB
		h3.Trunc = -1
		add("hs/authlen", c38HSFrame("hs/authlen/last-field", h3))
	}
	// 4. oversized length prefixes (length-encoded auth length, with and without the lenenc capability)
	for _, p := range []string{"fc0000", "fcffff", "fd000000", "fdffffff", "fe0000000000000000", "feffffffffffff7f", "fe0000000000000080",
		"feffffffffffffff", "fe00000000010000", "fb", "ff", "fc", "fd00", "fe00"} {
		for _, lenenc := range []bool{false, true} {
			h := c38GoodHS()
			h.AuthLen = "lenenc:" + p
			if lenenc {
				h.Cap |= c38CapLenencClient
			}
			add("hs/oversize", c38HSFrame("hs/oversize/auth-lenenc", h))
		}
	}
	// frame header promising more / less than is sent
	for _, d := range []int{1, 2, 100, 70000, 1<<24 - 1} {
		f := c38HSFrame("hs/oversize/header-more", c38GoodHS())
		f.HdrLen = d + 60
		if d == 1<<24-1 {
			f.HdrLen = d
		}
		f.Half = true
		add("hs/oversize", f)
	}
	for _, l := range []int{0, 1, 4, 31, 32, 33} {
		f := c38HSFrame("hs/oversize/header-less", c38GoodHS())
		f.HdrLen = l
		f.Half = true
		add("hs/oversize", f)
	}
	// 5. auth plugin names
	long := strings.Repeat("p", 300)
	for _, p := range []string{"", "mysql_native_password", "caching_sha2_password", "mysql_clear_password", "sha256_password", "x", long, "\xff\xfe"} {
		for _, nul := range []bool{true, false} {
			for _, reply := range [][]byte{nil, {}, make([]byte, 20), make([]byte, 32), make([]byte, 1000), {0}} {
				h := c38GoodHS()
				h.Cap |= mycli.ClientPluginAuth
				h.HasPlug, h.Plugin, h.PlugNUL = true, p, nul
				fr := []c38Frame{c38HSFrame("hs/plugin", h)}
				if reply != nil {
					fr = append(fr, c38Frame{Class: "hs/plugin/switch-reply", Seq: 3, HdrLen: -1, Payload: reply})
				}
				add("hs/plugin", fr...)
			}
		}
	}
	// 6. missing NULs and odd user / db values
	for _, u := range []string{"", "ns1_rw", "nobody", strings.Repeat("u", 1000), "ns1_rw\x00x", "\x00", "ns1_rw:pw_rw"} {
		for _, un := range []bool{true, false} {
			for _, db := range []string{"", "db", "nodb", strings.Repeat("d", 1000)} {
				for _, dn := range []bool{true, false} {
					h := c38GoodHS()
					h.User, h.UserNUL, h.DB, h.DBNUL = u, un, db, dn
					add("hs/nul", c38HSFrame("hs/nul", h))
				}
			}
		}
	}
	// 7. every collation id, passwords
	for c := 0; c < 256; c++ {
		h := c38GoodHS()
		h.Coll = c
		add("hs/collation", c38HSFrame("hs/collation", h))
	}
	for _, a := range []string{"native:", "native:wrong", "sha2:pw_rw", "sha2:wrong", "hex:", "zero:32", "zero:255", "zero:21", "zero:19"} {
		for _, u := range []string{"ns1_rw", "ns2_rw", "ns1_ro"} {
			h := c38GoodHS()
			h.User, h.Auth = u, a
			add("hs/auth", c38HSFrame("hs/auth", h))
		}
	}
	// 8. filler sizes, wrong sequence ids, empty and random packets
	for _, fl := range []int{0, 1, 22, 24, 100} {
		h := c38GoodHS()
		h.Filler = fl
		add("hs/shape", c38HSFrame("hs/shape/filler", h))
	}
	for _, sq := range []int{0, 2, 3, 255} {
		f := c38HSFrame("hs/shape/seq", c38GoodHS())
		f.Seq = sq
		add("hs/shape", f)
	}
	r = kit.SubRand(seed, "C38/hs/random")
	for i := 0; i < kit.N(150, 3000); i++ {
		h := c38GoodHS()
		h.RawWhole = r.Bytes(r.Range(0, 64))
		if r.Chance(1, 2) && len(h.RawWhole) >= 4 {
			// plausible capability prefix so that the reader goes deeper
			binary.LittleEndian.PutUint32(h.RawWhole, mycli.DefaultCapability|uint32(r.Intn(4))<<19)
		}
		add("hs/random", c38HSFrame("hs/random", h))
	}
	// 9. byte flips of the well-formed seeds
	r = kit.SubRand(seed, "C38/hs/flip")
	for i := 0; i < kit.N(300, 6000); i++ {
		h := seeds[r.Intn(len(seeds))]
		k := r.Range(1, 4)
		for j := 0; j < k; j++ {
			h.FlipPos = append(h.FlipPos, r.Intn(72))
			h.FlipXor = append(h.FlipXor, 1+r.Intn(255))
		}
		add("hs/flip", c38HSFrame("hs/flip", h))
	}
	// 10. connection attributes / trailing garbage
	r = kit.SubRand(seed, "C38/hs/tail")
	for i := 0; i < kit.N(40, 400); i++ {
		h := seeds[1]
		h.Cap |= c38CapConnAttrs
		h.Tail = r.Bytes(r.Range(0, 40))
		if r.Chance(1, 3) {
			h.Tail = append([]byte{0xfe, 0xff, 0xff, 0xff, 0xff, 0xff, 0xff, 0xff, 0x7f}, h.Tail...)
		}
		add("hs/tail", c38HSFrame("hs/tail", h))
	}
	return out
}

// ---------------------------------------------------------------- command groups

type c38FrameGen func(r *kit.Rand) c38Frame

func c38Nest(open, close, core string, d int) string {
	return strings.Repeat(open, d) + core + strings.Repeat(close, d)
}

func c38OddQueries(tierDepth, tierIn int) []string {
	inList := func(n int) string {
		var sb strings.Builder
		for i := 0; i < n; i++ {
			if i > 0 {
				sb.WriteByte(',')
			}
			fmt.Fprintf(&sb, "%d", i*7%1013)
		}
		return sb.String()
	}
	qs := []string{
		"", " ", ";", ";;;;", "\x00", "select a[1]", "select a[1]; select 2", "select 1; select \x07", "select \x07", "[;]", "select 1;\x00;", "select '[;\x01]'; select 2", "select", "select ", "select 1;", "select 1;;", "select 1; select", "select 1; select 2; select 3",
		strings.Repeat("select 1;", 300),
		"select 'abc", "select \"abc", "select `abc", "select 'a\\", "select 'a''", "select /* abc", "select 1 /*", "select 1 /*!", "/*", "/* */", "/*! */",
		"-- ", "--", "#", "# x\nselect 1", "select 1 -- x", "select x'", "select x'0", "select 0x", "select b'2'", "select _utf8", "select N'",
		"select 1 /* !mycat:sql= */", "select 1 /* !mycat:sql=select * from tbl_shard where id=1 */", "select 1 /* !mycat:sql=( */", "/* !mycat:sql=select 1 */",
		"select * from tbl_shard where id = 1 /*master*/", "/*master*/", "/*master*/ select", "select /*+ hint( */ 1",
		"use", "use ", "use db", "use nodb", "use `", "use db;use db", "use " + strings.Repeat("d", 70000),
		"set", "set names", "set names utf8", "set names nothing", "set names utf8 collate", "set names utf8 collate utf8_bin", "set names 'gbk' collate 'utf8_general_ci'",
		"set autocommit=2", "set autocommit=", "set autocommit=0", "set autocommit=1", "set @@autocommit=on, @@autocommit=off", "set @a=1, @b:=", "set @@global.x=1",
		"set sql_mode=''", "set sql_mode='" + strings.Repeat("A,", 3000) + "'", "set character_set_results=null", "set time_zone='+25:99'", "set transaction", "set session transaction read only",
		"set tx_read_only=2", "set gaea_general_log=1", "set gaea_general_log=x", "set group_concat_max_len=-1", "set sql_select_limit=99999999999999999999999",
		"set @" + strings.Repeat("v", 5000) + "=1", "set password = 'x'",
		"show", "show ", "show databases", "show tables", "show tables from", "show variables like '", "show create table", "show fields from tbl_shard", "show full columns from `",
		"show variables like 'tx_read_only'", "show variables like 'gaea_general_log'", "show processlist", "show warnings", "show " + strings.Repeat("x ", 2000),
		"kill", "kill 1", "kill query 10001", "kill -1", "kill 99999999999999999999",
		"begin", "begin;begin", "start transaction", "start transaction read only", "commit", "commit;commit", "rollback", "rollback to", "rollback to x", "rollback to savepoint `",
		"savepoint", "savepoint x", "savepoint `", "release savepoint x", "release", "lock tables", "lock tables t2 write", "unlock tables",
		"select last_insert_id(", "select last_insert_id()", "select last_insert_id( ) as", "select last_insert_id() as `", "select last_insert_id() from tbl_shard",
		"explain", "explain select", "explain select * from tbl_shard", "explain explain select 1", "explain insert into tbl_shard (id) values (1)", "explain update tbl_shard set a=1", "desc tbl_shard", "describe",
		"insert into tbl_shard values", "insert into tbl_shard values (1)", "insert into tbl_shard (id) values (1),(", "insert into tbl_shard (id) values ()", "insert into tbl_shard (id,a) values (1)",
		"insert into tbl_shard (id) values (1,2)", "insert into tbl_shard (id) select 1", "insert into tbl_shard set id=1", "insert into tbl_shard set id=id+1", "insert into tbl_shard (id) values (-5),(2+1),(null),('x'),(1.5)",
		"insert into tbl_shard (a) values (1)", "insert into tbl_shard (id) values (1) on duplicate key update id=", "replace into tbl_shard (id) values (99999999999999999999)",
		"insert into tbl_shard (id) values (" + inList(tierIn) + ")", "insert into tbl_shard (id) values (" + strings.Replace(inList(2000), ",", "),(", -1) + ")",
		"update tbl_shard", "update tbl_shard set", "update tbl_shard set id=id+1", "update tbl_shard set a=1 where id in ()", "update tbl_shard, t2 set tbl_shard.a=1", "update tbl_shard set a=1 limit 1, 2",
		"delete", "delete from", "delete from tbl_shard where", "delete tbl_shard from tbl_shard, t2", "delete from tbl_shard order by", "delete from tbl_shard limit 18446744073709551616",
		"select * from tbl_shard where id = 99999999999999999999999999", "select * from tbl_shard where id = -9223372036854775808", "select * from tbl_shard where id = -9223372036854775809",
		"select * from tbl_shard where id = 1e308", "select * from tbl_shard where id = 1e309", "select * from tbl_shard where id in ()", "select * from tbl_shard where id in (null)",
		"select * from tbl_shard where id between 'a' and x'00'", "select * from tbl_shard where id between 9 and 1", "select * from tbl_shard where id = '1'", "select * from tbl_shard where id = ''", "select * from tbl_shard where id = '\xff\xfe'",
		"select * from tbl_shard where id in (" + inList(tierIn) + ")", "select * from tbl_shard where id = 1 " + strings.Repeat("or id = 2 ", 2000),
		"select * from tbl_shard limit 18446744073709551615, 18446744073709551615", "select * from tbl_shard limit -1", "select * from tbl_shard limit 5 offset 18446744073709551615", "select * from tbl_shard order by 999", "select * from tbl_shard group by 100",
		"select count(*), sum(a), max(a), min(a), avg(a) from tbl_shard", "select count(distinct a) from tbl_shard", "select a, count(*) from tbl_shard group by a having count(*) > 1 order by 2 limit 3",
		"select group_concat(a) from tbl_shard", "select a from tbl_shard group by b order by c", "select distinct a from tbl_shard order by b", "select * from tbl_shard order by id limit 1,1",
		"select * from tbl_shard t1, tbl_shard t2, tbl_shard t3, tbl_shard t4 where t1.id=t2.id", "select * from tbl_shard join t2 on", "select * from tbl_shard a join tbl_shard a on a.id=a.id", "select * from tbl_shard a join t2 b using (id)",
		"select * from (select * from tbl_shard) t", "select * from tbl_shard where id in (select id from tbl_shard)", "select (select 1 from tbl_shard limit 1)", "select * from tbl_shard union select * from tbl_shard", "select 1 union select", "(select 1) union (select 2) order by 9 limit 1",
		"select * from nodb.tbl_shard", "select * from db.tbl_shard where id=1", "select * from `db`.`tbl_shard` where `db`.`tbl_shard`.`id`=1", "select * from db..tbl_shard", "select * from .tbl_shard", "select tbl_shard.* from t2", "select nodb.tbl_shard.id from tbl_shard",
		"select * from tbl_shard_0000", "select * from tbl_shard partition (p0)", "select * from tbl_shard for update", "select * from tbl_shard lock in share mode", "select * into outfile '/tmp/x' from tbl_shard", "load data infile 'x' into table tbl_shard",
		"select sleep(", "select @@", "select @@version_comment limit 1", "select @", "select @a:=", "select database()", "select user(), current_user(), connection_id()", "select 1 from dual where", "select ?", "select :1", "select $1", "select {d '2020'}", "select {",
		"create table", "create table tbl_shard (id int)", "drop table tbl_shard", "alter table tbl_shard add", "truncate tbl_shard", "create database x", "drop database db", "grant all on *.* to x", "flush tables", "analyze table tbl_shard", "call p()", "do 1", "handler t open", "prepare s from 'select 1'", "execute s", "deallocate prepare s", "xa start 'x'", "change master to", "shutdown", "reset master", "purge binary logs to 'x'",
		c38Nest("(", ")", "1", 1), "select " + c38Nest("(", ")", "1", 10), "select " + c38Nest("(", ")", "1", 100), "select " + c38Nest("(", ")", "1", tierDepth), "select " + strings.Repeat("(", tierDepth),
		"select * from tbl_shard where id = " + c38Nest("(", ")", "1", tierDepth), "select * from tbl_shard where " + c38Nest("not (", ")", "id=1", tierDepth), "select * from tbl_shard where id = 1 " + strings.Repeat("and (id = 1 ", 500) + strings.Repeat(")", 500),
		"select " + c38Nest("(select ", ")", "1", 200), "select * from " + c38Nest("(select * from ", ") t", "tbl_shard", 60), "select " + strings.Repeat("-", tierDepth) + "1", "select " + strings.Repeat("!", tierDepth) + "1", "select " + strings.Repeat("1+", tierDepth) + "1",
		"select " + c38Nest("concat(", ")", "'a'", 300), "select " + c38Nest("case when 1 then ", " end", "1", 200), "select * from tbl_shard where id in (" + c38Nest("(", ")", "1", 200) + ")",
		"select `" + strings.Repeat("i", 70000) + "`", "select '" + strings.Repeat("s", 70000), "select /*" + strings.Repeat("c", 70000), "select " + strings.Repeat("a.", 3000) + "b",
		"select * from tbl_shard where id = 1 and a = '" + strings.Repeat("\\'", 2000) + "'",
	}
	return qs
}

var c38Vocab = []string{"select", "insert", "into", "update", "delete", "from", "where", "set", "values", "(", ")", ",", "*", "=", "tbl_shard", "t2", "db", ".", "id", "a", "1", "2",
	"'x'", "'", "\"", "`", "/*", "*/", "--", ";", "in", "between", "and", "or", "not", "null", "limit", "order", "by", "group", "having", "join", "on", "as", "union", "all", "?",
	"begin", "commit", "rollback", "use", "show", "explain", "last_insert_id", "count", "sum", "distinct", "for", "update", "-", "+", "0x", "1e999", "@@", "@", "!", "replace", "desc", "\x00", "\xff", "\n"}

func c38GenCommands(seed uint64) map[string][]c38Case {
	out := map[string][]c38Case{}
	// frames are packed into cases of at most `per` frames; the driver reconnects when the
	// server closes the connection, so every frame is sent.
	pack := func(group, user, setup string, per int, frames []c38Frame) {
		for i := 0; i < len(frames); i += per {
			j := i + per
			if j > len(frames) {
				j = len(frames)
			}
			out[group] = append(out[group], c38Case{Group: group, Idx: len(out[group]), Kind: "cmd", User: user, Setup: setup, Frames: frames[i:j]})
		}
	}
	depth := kit.N(1500, 6000)
	inN := kit.N(3000, 30000)

	// ---- COM_QUERY: odd texts, truncations, token soup, byte mutations
	var fr []c38Frame
	for _, q := range c38OddQueries(depth, inN) {
		fr = append(fr, c38Cmd("cmd/query/odd", mycli.ComQuery, []byte(q)))
	}
	pack("cmd/query-odd", "ns1_rw", "", 6, fr)
	pack("cmd/query-odd-tx", "ns1_rw", "tx", 6, fr[:len(fr)/2])
	pack("cmd/query-odd-ks", "ns2_rw", "", 6, fr)

	fr = nil
	for _, q := range []string{"select id, a from tbl_shard where id in (1, 2, 3) order by id desc limit 2, 5",
		"insert into tbl_shard (id, a) values (1, 'x'), (2, \"y\") /* c */", "update `tbl_shard` set a = 'it''s' where id = 3 -- t"} {
		for n := 0; n <= len(q); n++ {
			fr = append(fr, c38Cmd("cmd/query/trunc", mycli.ComQuery, []byte(q[:n])))
		}
	}
	pack("cmd/query-trunc", "ns1_rw", "", 8, fr)

	r := kit.SubRand(seed, "C38/cmd/soup")
	fr = nil
	for i := 0; i < kit.N(1000, 40000); i++ {
		n := r.Range(1, 14)
		var parts []string
		for j := 0; j < n; j++ {
			parts = append(parts, r.Pick(c38Vocab))
		}
		sep := " "
		if r.Chance(1, 8) {
			sep = ""
		}
		fr = append(fr, c38Cmd("cmd/query/soup", mycli.ComQuery, []byte(strings.Join(parts, sep))))
	}
	pack("cmd/query-soup", "ns1_rw", "", 8, fr)

	r = kit.SubRand(seed, "C38/cmd/mutate")
	fr = nil
	seedsQ := []string{"select * from tbl_shard where id = 1", "select a, count(*) from tbl_shard where id in (1,2,3) group by a order by a limit 3",
		"insert into tbl_shard (id, a) values (1, 'v')", "update tbl_shard set a = 2 where id between 1 and 3", "delete from tbl_shard where id = 2",
		"select * from t2 join tbl_shard on t2.id = tbl_shard.id where tbl_shard.id = 4", "set names utf8mb4", "show variables like 'x'", "use db", "select 1; select 2"}
	for i := 0; i < kit.N(1000, 40000); i++ {
		b := []byte(r.Pick(seedsQ))
		for k := r.Range(1, 3); k > 0 && len(b) > 0; k-- {
			p := r.Intn(len(b))
			switch r.Intn(4) {
			case 0:
				b[p] ^= byte(1 + r.Intn(255))
			case 1:
				b = append(b[:p], b[p+1:]...)
			case 2:
				b = append(b[:p], append([]byte{byte(r.Intn(256))}, b[p:]...)...)
			case 3:
				b = append(b[:p], append([]byte(r.Pick(c38Vocab)), b[p:]...)...)
			}
		}
		fr = append(fr, c38Cmd("cmd/query/mutate", mycli.ComQuery, b))
	}
	pack("cmd/query-mutate", "ns1_rw", "", 8, fr)

	// ---- every command byte, empty and with a small payload (exhaustive)
	fr = nil
	for c := 0; c < 256; c++ {
		if c == mycli.ComQuit {
			continue // handled in cmd/quit
		}
		fr = append(fr, c38Cmd("cmd/anybyte/empty", byte(c), nil))
		fr = append(fr, c38Cmd("cmd/anybyte/payload", byte(c), []byte{0, 0, 0, 0, 0, 1, 0, 0, 0, 0}))
		fr = append(fr, c38Cmd("cmd/anybyte/text", byte(c), []byte("db")))
	}
	for i := range fr {
		if c := fr[i].Payload[0]; c == mycli.ComStmtClose || c == mycli.ComStmtSendLongData {
			fr[i].NoReply = true
		}
	}
	pack("cmd/anybyte", "ns1_rw", "prep", 8, fr)
	pack("cmd/anybyte-ks-tx", "ns2_rw", "tx", 8, fr)

	// ---- empty packet, wrong sequence ids, header length lies
	fr = nil
	fr = append(fr, c38Frame{Class: "cmd/frame/empty", Seq: 0, HdrLen: -1, Payload: nil})
	for _, sq := range []int{1, 2, 127, 255} {
		f := c38Cmd("cmd/frame/seq", mycli.ComQuery, []byte("select 1"))
		f.Seq = sq
		fr = append(fr, f)
		f2 := c38Frame{Class: "cmd/frame/empty-seq", Seq: sq, HdrLen: -1}
		fr = append(fr, f2)
	}
	for _, more := range []int{1, 2, 1000, 70000, 1<<24 - 1} {
		f := c38Cmd("cmd/frame/header-more", mycli.ComQuery, []byte("select 1"))
		f.HdrLen = len(f.Payload) + more
		if more == 1<<24-1 {
			f.HdrLen = more
		}
		f.Half = true
		fr = append(fr, f)
	}
	for _, l := range []int{0, 1, 2, 5} {
		f := c38Cmd("cmd/frame/header-less", mycli.ComQuery, []byte("select 1"))
		f.HdrLen = l
		f.Half = true
		fr = append(fr, f)
	}
	pack("cmd/frame", "ns1_rw", "", 1, fr)
	pack("cmd/frame-tx", "ns1_rw", "tx+prep", 1, fr)
	pack("cmd/frame-ks-tx", "ns2_rw", "tx", 1, fr)

	// ---- commands spanning several frames: a first frame of the maximal length 0xFFFFFF followed by
	// a continuation (empty, short, 1 byte). Few of them: every one moves 16 MiB through a race build.
	{
		const maxFrame = 1<<24 - 1
		big := func(class string, cmd []byte, noReply bool, cont ...[]byte) c38Frame {
			return c38Frame{Class: class, Seq: 0, HdrLen: -1, Payload: cmd, Big: maxFrame - len(cmd), Cont: cont, Complete: true, NoReply: noReply}
		}
		fr = nil
		fr = append(fr, big("cmd/multiframe/ping-short-cont", []byte{mycli.ComPing}, false, []byte("abcde")))
		fr = append(fr, big("cmd/multiframe/unknown-empty-cont", []byte{0xF0}, false, []byte{}))
		fr = append(fr, big("cmd/multiframe/initdb-1byte-cont", []byte{mycli.ComInitDB}, false, []byte("x")))
		if kit.Tier() == "thorough" {
			ld := append([]byte{mycli.ComStmtSendLongData}, append(c38U32(1), 0, 0)...)
			fr = append(fr, big("cmd/multiframe/longdata-short-cont", ld, true, []byte("tail")))
			fr = append(fr, c38Cmd("cmd/multiframe/exec-after-longdata", mycli.ComStmtExecute, c38ExecPayload(1, 0, 1, []byte{0x06}, 1, []byte{mycli.TVarString, 0, mycli.TNull, 0, mycli.TNull, 0}, nil)))
			fr = append(fr, big("cmd/multiframe/fieldlist-short-cont", []byte{mycli.ComFieldList}, false, []byte("\x00w")))
		}
		pack("cmd/multiframe", "ns1_rw", "prep", 8, fr)
	}

	// ---- COM_QUIT variants
	fr = nil
	for _, arg := range [][]byte{nil, {0}, []byte("select 1")} {
		fr = append(fr, c38Cmd("cmd/quit", mycli.ComQuit, arg))
	}
	pack("cmd/quit", "ns1_rw", "tx", 1, fr)
	pack("cmd/quit-ks", "ns2_rw", "tx+prep", 1, fr)

	// ---- INIT_DB, FIELD_LIST
	fr = nil
	for _, d := range []string{"", "db", "nodb", "DB", "information_schema", "INFORMATION_SCHEMA", "db\x00", "\x00", "`db`", "db;", strings.Repeat("d", 70000), "\xff\xfe"} {
		fr = append(fr, c38Cmd("cmd/initdb", mycli.ComInitDB, []byte(d)))
	}
	for _, t := range []string{"", "\x00", "tbl_shard", "tbl_shard\x00", "tbl_shard\x00%", "t2\x00", "nodb.tbl_shard\x00", "db.tbl_shard\x00x", "a.b.c\x00", ".\x00", "`\x00", "\x00\x00\x00",
		strings.Repeat("t", 70000), strings.Repeat("t", 70000) + "\x00", "tbl_shard\x00" + strings.Repeat("w", 70000), "\xff\x00\xff"} {
		fr = append(fr, c38Cmd("cmd/fieldlist", mycli.ComFieldList, []byte(t)))
	}
	pack("cmd/initdb-fieldlist", "ns1_rw", "", 4, fr)
	pack("cmd/initdb-fieldlist-tx", "ns1_rw", "tx", 4, fr)
	pack("cmd/initdb-fieldlist-ks", "ns2_rw", "tx", 4, fr)

	// ---- STMT_PREPARE
	fr = nil
	for _, q := range []string{"", "?", "select ?", "select '?", "select \"?", "select '?' , ?", "select \\'?", "select ? ;", strings.Repeat("?", 70000), "select " + strings.Repeat("?,", 5000) + "?",
		"select * from tbl_shard where id = ? and a = '", "select /* ? */ ?", "select `?`", "use ?", "set @a = ?", "begin", "select 1; select ?", "insert into tbl_shard (id) values (?),(?)", "\x00?", "select ? -- ?"} {
		fr = append(fr, c38Cmd("cmd/prepare", mycli.ComStmtPrepare, []byte(q)))
	}
	pack("cmd/prepare", "ns1_rw", "", 5, fr)

	// ---- sessions whose current database is odd (the handshake's database name is taken unchecked),
	// and sessions after a failed COM_INIT_DB: then every command
	{
		var odd []c38Frame
		odd = append(odd, c38Cmd("cmd/odddb/fieldlist", mycli.ComFieldList, []byte("t1\x00")), c38Cmd("cmd/odddb/fieldlist", mycli.ComFieldList, []byte("tbl_shard\x00%")),
			c38Cmd("cmd/odddb/query", mycli.ComQuery, []byte("select * from tbl_shard where id = 1")), c38Cmd("cmd/odddb/query", mycli.ComQuery, []byte("select * from t2")),
			c38Cmd("cmd/odddb/query", mycli.ComQuery, []byte("insert into tbl_shard (id, a) values (1, 2), (2, 3)")), c38Cmd("cmd/odddb/query", mycli.ComQuery, []byte("select database()")),
			c38Cmd("cmd/odddb/query", mycli.ComQuery, []byte("show tables")), c38Cmd("cmd/odddb/query", mycli.ComQuery, []byte("begin")), c38Cmd("cmd/odddb/query", mycli.ComQuery, []byte("update t2 set a = 1")),
			c38Cmd("cmd/odddb/fieldlist-in-tx", mycli.ComFieldList, []byte("t2\x00")), c38Cmd("cmd/odddb/query", mycli.ComQuery, []byte("commit")),
			c38Cmd("cmd/odddb/initdb-fails", mycli.ComInitDB, []byte("no_such_db_2")), c38Cmd("cmd/odddb/fieldlist-after-failed-initdb", mycli.ComFieldList, []byte("t2\x00")),
			c38Cmd("cmd/odddb/prepare", mycli.ComStmtPrepare, []byte("select * from t2 where id = ?")),
			c38Cmd("cmd/odddb/execute", mycli.ComStmtExecute, c38ExecPayload(0, 0, 1, []byte{0}, 1, []byte{mycli.TLongLong, 0}, []byte{1, 0, 0, 0, 0, 0, 0, 0})),
			c38Cmd("cmd/odddb/ping", mycli.ComPing, nil), c38Cmd("cmd/odddb/fieldlist", mycli.ComFieldList, []byte("db.t2\x00")), c38Cmd("cmd/odddb/fieldlist-nonul", mycli.ComFieldList, []byte("t2")),
			c38Cmd("cmd/odddb/initdb", mycli.ComInitDB, []byte("db")), c38Cmd("cmd/odddb/fieldlist-after-initdb", mycli.ComFieldList, []byte("t2\x00")))
		for _, user := range []string{"ns1_rw", "ns2_rw"} {
			for _, db := range []string{"no_such_db", "<none>", "DB", "information_schema", "db ", "`db`", "db.t2", strings.Repeat("d", 300), "\xff\xfe", "db;"} {
				for i := 0; i < len(odd); i += 10 {
					j := i + 10
					if j > len(odd) {
						j = len(odd)
					}
					out["cmd/odddb"] = append(out["cmd/odddb"], c38Case{Group: "cmd/odddb", Idx: len(out["cmd/odddb"]), Kind: "cmd", User: user, DB: db, Frames: odd[i:j]})
				}
			}
		}
		// a valid login followed by a failed COM_INIT_DB, then the same commands
		pack("cmd/after-failed-initdb", "ns1_rw", "", 10, append([]c38Frame{c38Cmd("cmd/odddb/initdb-fails", mycli.ComInitDB, []byte("no_such_db"))}, odd...))
	}

	// ---- inputs that end the session through a recovered panic, in bulk, against the namespace
	// with max_client_connections = 8: one frame per connection, several times the limit
	{
		dateLie := c38ExecPayload(0, 0, 1, []byte{0}, 1, []byte{mycli.TDate, 0}, []byte{11, 1, 2})
		var bulk []c38Frame
		for i := 0; i < 3*c38SmallMaxConns+2; i++ {
			switch i % 3 {
			case 0:
				bulk = append(bulk, c38Frame{Class: "cmd/bulk/empty-frame", Seq: 0, HdrLen: -1})
			case 1:
				bulk = append(bulk, c38Cmd("cmd/bulk/fieldlist-nonul", mycli.ComFieldList, []byte("tbl_shard")))
			case 2:
				bulk = append(bulk, c38Cmd("cmd/bulk/exec-date-lie", mycli.ComStmtExecute, dateLie))
			}
		}
		pack("cmd/bulk-small-maxconn", "ns3_rw", "prep1", 1, bulk)
	}

	// ---- the unit alphabet of SQL lexemes in every position, for COM_STMT_PREPARE and COM_QUERY
	for _, lx := range []struct {
		group string
		cmd   byte
		class string
	}{{"cmd/prepare-lex", mycli.ComStmtPrepare, "cmd/prepare/lex"}, {"cmd/query-lex", mycli.ComQuery, "cmd/query/lex"}} {
		fr = nil
		for _, q := range c38LexTexts(seed, lx.group) {
			fr = append(fr, c38Cmd(lx.class, lx.cmd, []byte(q)))
		}
		pack(lx.group, "ns1_rw", "", 8, fr)
	}

	// ---- STMT_EXECUTE / SEND_LONG_DATA / RESET / CLOSE against the prepared set
	out2 := c38GenStmt(seed)
	for g, frames := range out2 {
		setup := "prep"
		if g == "cmd/stmt-exec-types" {
			setup = "prep1" // these frames only use statement 0; most of them end the connection
		}
		pack(g, "ns1_rw", setup, 8, frames)
	}
	pack("cmd/stmt-exec-trunc-tx", "ns1_rw", "tx+prep", 8, out2["cmd/stmt-exec-trunc"])
	ksTypes := out2["cmd/stmt-exec-types"]
	if kit.Tier() != "thorough" {
		// quick: every 4th frame (phase from the seed) against the keep-session namespace
		var sub []c38Frame
		for i := int(seed % 4); i < len(ksTypes); i += 4 {
			sub = append(sub, ksTypes[i])
		}
		ksTypes = sub
	}
	pack("cmd/stmt-exec-types-ks", "ns2_rw", "tx+prep1", 8, ksTypes)
	return out
}

// c38ExecPayload builds a COM_STMT_EXECUTE argument from parts.
func c38ExecPayload(id uint32, flags byte, iter uint32, bitmap []byte, bound int, types []byte, values []byte) []byte {
	b := append([]byte{}, c38U32(id)...)
	b = append(b, flags)
	b = append(b, c38U32(iter)...)
	b = append(b, bitmap...)
	if bound >= 0 {
		b = append(b, byte(bound))
	}
	b = append(b, types...)
	b = append(b, values...)
	return b
}

func c38GenStmt(seed uint64) map[string][]c38Frame {
	out := map[string][]c38Frame{}
	ex := func(group, class string, arg []byte) {
		out[group] = append(out[group], c38Cmd(class, mycli.ComStmtExecute, arg))
	}
	// well-formed seeds for every prepared statement
	wf := map[int][]byte{}
	for id, np := range c38PrepParams {
		var types, vals []byte
		for i := 0; i < np; i++ {
			switch i % 4 {
			case 0:
				types = append(types, mycli.TLongLong, 0)
				vals = append(vals, 1, 0, 0, 0, 0, 0, 0, 0)
			case 1:
				types = append(types, mycli.TVarString, 0)
				vals = append(vals, 3, 'a', 'b', 'c')
			case 2:
				types = append(types, mycli.TDateTime, 0)
				vals = append(vals, 7, 0xe4, 0x07, 2, 29, 12, 30, 59)
			case 3:
				types = append(types, mycli.TDouble, 0)
				vals = append(vals, 0, 0, 0, 0, 0, 0, 0xf0, 0x3f)
			}
		}
		bm := make([]byte, (np+7)/8)
		if np == 0 {
			wf[id] = c38ExecPayload(uint32(id), 0, 1, nil, -1, nil, nil)
		} else {
			wf[id] = c38ExecPayload(uint32(id), 0, 1, bm, 1, types, vals)
		}
	}
	// every truncation length of every seed (exhaustive)
	for id := range c38PrepParams {
		for n := 0; n <= len(wf[id]); n++ {
			ex("cmd/stmt-exec-trunc", fmt.Sprintf("cmd/stmt/exec/trunc/p%d", c38PrepParams[id]), wf[id][:n])
		}
	}
	// ids out of range, flags, iteration counts
	for _, id := range []uint32{4, 5, 999, 0x7fffffff, 0x80000000, 0xffffffff} {
		ex("cmd/stmt-exec-shape", "cmd/stmt/exec/id", c38ExecPayload(id, 0, 1, []byte{0}, 1, []byte{8, 0}, []byte{1, 0, 0, 0, 0, 0, 0, 0}))
	}
	for _, fl := range []byte{1, 2, 4, 8, 0xff} {
		ex("cmd/stmt-exec-shape", "cmd/stmt/exec/flags", c38ExecPayload(0, fl, 1, []byte{0}, 1, []byte{8, 0}, []byte{1, 0, 0, 0, 0, 0, 0, 0}))
	}
	for _, it := range []uint32{0, 2, 0xffffffff} {
		ex("cmd/stmt-exec-shape", "cmd/stmt/exec/iter", c38ExecPayload(0, 0, it, []byte{0}, 1, []byte{8, 0}, []byte{1, 0, 0, 0, 0, 0, 0, 0}))
	}
	// null bitmaps and the new-params-bound flag
	for _, bm := range [][]byte{{0xff}, {0x01}, {0xfe}, {}} {
		for _, bound := range []int{-1, 0, 1, 2, 0xff} {
			ex("cmd/stmt-exec-shape", "cmd/stmt/exec/bitmap-bound", c38ExecPayload(0, 0, 1, bm, bound, []byte{8, 0}, []byte{1, 0, 0, 0, 0, 0, 0, 0}))
			ex("cmd/stmt-exec-shape", "cmd/stmt/exec/bitmap-bound-notypes", c38ExecPayload(0, 0, 1, bm, bound, nil, []byte{1, 0, 0, 0, 0, 0, 0, 0}))
			ex("cmd/stmt-exec-shape", "cmd/stmt/exec/bitmap-bound-10", c38ExecPayload(3, 0, 1, append(bm, bm...), bound, []byte{8, 0, 8, 0}, []byte{1, 0, 0, 0}))
		}
	}
	// every type code with every value length 0..13 and a few long/oversized encodings (exhaustive)
	for tp := 0; tp < 256; tp++ {
		for _, un := range []byte{0, 0x80} {
			for n := 0; n <= 13; n++ {
				if n > 1 && kit.Tier() != "thorough" && c38TypeClass(byte(tp)) == "unknown" {
					break // quick: type codes the binder does not know all take the same branch
				}
				v := make([]byte, n)
				for i := range v {
					v[i] = byte(n) // first byte = n: for date/time/string types it is the stated length
				}
				if n > 0 {
					v[0] = byte(n - 1 + int(un>>7)*3) // stated length exact, or 3 more than present
				}
				ex("cmd/stmt-exec-types", fmt.Sprintf("cmd/stmt/exec/type/%s", c38TypeClass(byte(tp))), c38ExecPayload(0, 0, 1, []byte{0}, 1, []byte{byte(tp), un}, v))
			}
		}
	}
	for _, tp := range []byte{mycli.TVarString, mycli.TBlob, mycli.TDate, mycli.TTime, mycli.TDateTime, mycli.TTimestamp, mycli.TNewDecimal, mycli.TJSON} {
		for _, v := range [][]byte{{0xfb}, {0xfc}, {0xfc, 0xff}, {0xfc, 0xff, 0xff}, {0xfd, 0xff, 0xff, 0xff}, {0xfe, 0, 0, 0, 0, 0, 0, 0, 0x80}, {0xfe, 0xff, 0xff, 0xff, 0xff, 0xff, 0xff, 0xff, 0x7f},
			{0xfe, 0xff, 0xff, 0xff, 0xff, 0xff, 0xff, 0xff, 0xff}, {0xff}, {0xfa}, {250}, {4, 0xff, 0xff, 0xff, 0xff}, {7, 0xff, 0xff, 0xff, 0xff, 0xff, 0xff, 0xff}, {11, 0, 0, 13, 32, 25, 61, 61, 0xff, 0xff, 0xff, 0xff},
			{12, 1, 0xff, 0xff, 0xff, 0xff, 25, 61, 61, 0xff, 0xff, 0xff, 0xff}, {8, 2, 0, 0, 0, 0x80, 0, 0, 0}, {5, 1, 2, 3, 4, 5}, {255}} {
			ex("cmd/stmt-exec-types", fmt.Sprintf("cmd/stmt/exec/value/%s", c38TypeClass(tp)), c38ExecPayload(0, 0, 1, []byte{0}, 1, []byte{tp, 0}, v))
		}
	}
	// random well-typed mutations on the 3- and 10-parameter statements
	r := kit.SubRand(seed, "C38/cmd/stmt-mutate")
	for i := 0; i < kit.N(600, 20000); i++ {
		id := []int{1, 3, 0}[r.Intn(3)]
		b := append([]byte{}, wf[id]...)
		for k := r.Range(1, 3); k > 0; k-- {
			p := r.Intn(len(b))
			switch r.Intn(3) {
			case 0:
				b[p] ^= byte(1 + r.Intn(255))
			case 1:
				b = b[:p]
			case 2:
				b = append(b[:p], append(r.Bytes(r.Range(1, 9)), b[p:]...)...)
			}
			if len(b) == 0 {
				break
			}
		}
		ex("cmd/stmt-exec-mutate", "cmd/stmt/exec/mutate", b)
	}
	// SEND_LONG_DATA
	ld := func(class string, arg []byte) {
		f := c38Cmd(class, mycli.ComStmtSendLongData, arg)
		f.NoReply = true
		out["cmd/stmt-longdata"] = append(out["cmd/stmt-longdata"], f)
	}
	for n := 0; n <= 7; n++ {
		ld("cmd/stmt/longdata/short", append(c38U32(1), 0, 0, 'x')[:n])
	}
	for _, id := range []uint32{0, 1, 2, 3, 4, 0xffffffff} {
		for _, pid := range []uint16{0, 1, 2, 3, 9, 10, 0x7fff, 0xffff} {
			ld("cmd/stmt/longdata/ids", append(append(c38U32(id), c38U16(pid)...), "data"...))
		}
	}
	// long data followed by executes that bind the same parameter with other types / as NULL / truncated
	for _, follow := range [][]byte{wf[1], wf[1][:12], c38ExecPayload(1, 0, 1, []byte{0x07}, 1, []byte{8, 0, 8, 0, 8, 0}, nil), c38ExecPayload(1, 0, 1, []byte{0}, 0, nil, nil),
		c38ExecPayload(1, 0, 1, []byte{0}, 1, []byte{mycli.TDate, 0, mycli.TTime, 0, mycli.TLongLong, 0}, []byte{4, 1, 2, 3, 4, 8, 0, 1, 0, 0, 0, 1, 1, 1, 9, 9, 9, 9, 9, 9, 9, 9})} {
		ld("cmd/stmt/longdata/then-exec", append(append(c38U32(1), c38U16(0)...), strings.Repeat("L", 1000)...))
		ld("cmd/stmt/longdata/then-exec", append(append(c38U32(1), c38U16(0)...), "more'\\"...))
		out["cmd/stmt-longdata"] = append(out["cmd/stmt-longdata"], c38Cmd("cmd/stmt/longdata/exec-after", mycli.ComStmtExecute, follow))
	}
	ld("cmd/stmt/longdata/big", append(append(c38U32(1), c38U16(1)...), make([]byte, 1<<20)...))
	out["cmd/stmt-longdata"] = append(out["cmd/stmt-longdata"], c38Cmd("cmd/stmt/longdata/exec-after", mycli.ComStmtExecute, wf[1]))
	// RESET / CLOSE
	for n := 0; n <= 5; n++ {
		out["cmd/stmt-reset-close"] = append(out["cmd/stmt-reset-close"], c38Cmd("cmd/stmt/reset/short", mycli.ComStmtReset, append(c38U32(1), 0)[:n]))
		f := c38Cmd("cmd/stmt/close/short", mycli.ComStmtClose, append(c38U32(2), 0)[:n])
		f.NoReply = true
		out["cmd/stmt-reset-close"] = append(out["cmd/stmt-reset-close"], f)
	}
	for _, id := range []uint32{0, 3, 4, 999, 0xffffffff} {
		out["cmd/stmt-reset-close"] = append(out["cmd/stmt-reset-close"], c38Cmd("cmd/stmt/reset/id", mycli.ComStmtReset, c38U32(id)))
		f := c38Cmd("cmd/stmt/close/id", mycli.ComStmtClose, c38U32(id))
		f.NoReply = true
		out["cmd/stmt-reset-close"] = append(out["cmd/stmt-reset-close"], f)
		// use after close
		out["cmd/stmt-reset-close"] = append(out["cmd/stmt-reset-close"], c38Cmd("cmd/stmt/exec-after-close", mycli.ComStmtExecute, wf[0]))
		g := c38Cmd("cmd/stmt/longdata-after-close", mycli.ComStmtSendLongData, append(append(c38U32(id), 0, 0), 'x'))
		g.NoReply = true
		out["cmd/stmt-reset-close"] = append(out["cmd/stmt-reset-close"], g)
	}
	return out
}

func c38TypeClass(tp byte) string {
	switch tp {
	case mycli.TDate, mycli.TNewDate:
		return "date"
	case mycli.TTime:
		return "time"
	case mycli.TDateTime, mycli.TTimestamp:
		return "datetime"
	case mycli.TTiny, mycli.TShort, mycli.TYear, mycli.TLong, mycli.TInt24, mycli.TLongLong, mycli.TFloat, mycli.TDouble:
		return "fixed"
	case mycli.TNull:
		return "null"
	case mycli.TDecimal, mycli.TNewDecimal, mycli.TVarchar, mycli.TBit, mycli.TEnum, mycli.TSet, mycli.TTinyBlob, mycli.TMediumBlob, mycli.TLongBlob, mycli.TBlob,
		mycli.TVarString, mycli.TString, mycli.TGeometry, mycli.TJSON:
		return "lenenc"
	}
	return "unknown"
}

// c38LexUnits is the unit alphabet of SQL lexemes (well-formed ones first, then broken variants).
var c38LexUnits = []string{
	"'str'", "'it''s'", "'a\\'b'", "'q?'", "''", "\"dq\"", "\"d\"\"q\"", "\"d\\\"q\"", "`bq`", "`b``q`", "`?`",
	"-- c\n", "--\n", "-- ?\n", "-- 'c\n", "--\tc\n", "--x", "# c\n", "#\n", "# ?\n", "#'\n",
	"/* c */", "/**/", "/* ? */", "/* ' */", "/* -- \n */", "/*! 1 */", "/*!40101 id */", "/*!50000 ? */", "/*+ h */",
	"?", " ? ", "1", "id", ",", "=", "(", ")", ";", " ", "\n", "\t",
	// broken
	"'", "\"", "`", "'a\\", "-- c", "# c", "/*", "/* c", "/*!", "/*! 1", "*/", "--", "#", "\\", "\x00",
}

// c38LexTexts places the units in every position of a well-formed statement, concatenates every
// ordered pair, and adds seeded longer sequences.
func c38LexTexts(seed uint64, label string) []string {
	var out []string
	seen := map[string]bool{}
	add := func(q string) {
		if !seen[q] {
			seen[q] = true
			out = append(out, q)
		}
	}
	skeleton := []string{"", "select", " id from t2", " where id = ?", " and a = ", "?", ""}
	for _, u := range c38LexUnits {
		for slot := 0; slot < len(skeleton); slot++ {
			var sb strings.Builder
			for i, part := range skeleton {
				if i == slot {
					sb.WriteString(" " + u + " ")
				}
				sb.WriteString(part)
			}
			add(sb.String())
		}
		add(u)
		add("select id from t2 " + u + " where id = ?") // the form named in the report: a unit in the middle, text goes on after it
		add("select id from t2 " + u + "\n where id = ?")
	}
	step := kit.N(4, 1)
	k := int(seed % uint64(step))
	for _, a := range c38LexUnits {
		for _, b := range c38LexUnits {
			k++
			if k%step != 0 {
				continue
			}
			add("select " + a + b + " from t2 where id = ?")
		}
	}
	r := kit.SubRand(seed, "C38/"+label)
	for i := 0; i < kit.N(300, 6000); i++ {
		n := r.Range(3, 9)
		var sb strings.Builder
		sb.WriteString(r.Pick([]string{"select ", "insert into t2 values (", "update t2 set a = ", ""}))
		for j := 0; j < n; j++ {
			sb.WriteString(r.Pick(c38LexUnits))
			if r.Chance(1, 2) {
				sb.WriteByte(' ')
			}
		}
		add(sb.String())
	}
	return out
}
