package server

// Driver helpers shared by the prepared-statement monitors (C15, C16): rig start-up,
// reading what reached the fake backend, a ping barrier that detects unsolicited replies
// to commands that must not be answered, and wire encoders for binary-protocol values
// (written from the protocol description, independent of Gaea's mysql package).

import (
	"encoding/binary"
	"fmt"
	"io"
	"math"
	"testing"
	"time"

	"github.com/XiaoMi/Gaea/models"
	"github.com/XiaoMi/Gaea/mysql"
	"github.com/XiaoMi/Gaea/verifkit/mycli"
)

const (
	psUser = "psns_rw"
	psPass = "pw_rw"
	psDB   = "db"
)

func psRigStart(t testing.TB) *rig {
	return rigStart(t, rigOpts{Namespaces: []*models.Namespace{rigBasicNamespace("psns")}, FakePools: true})
}

// psExec is one statement that reached a fake backend connection, with the state that
// connection had been put in by the proxy (what the backend would lex the text under).
type psExec struct {
	SQL     string
	Conn    int64
	SQLMode string // text assigned to sql_mode on that backend connection ("" = never set)
	HasMode bool
	Charset string
}

// psExecsSince returns the exec events logged since index from.
func psExecsSince(r *rig, from int) []psExec {
	var out []psExec
	for _, e := range r.B.Events(from) {
		if e.Op != "exec" {
			continue
		}
		x := psExec{SQL: e.SQL, Conn: e.Conn}
		r.B.mu.Lock()
		if c := r.B.conns[e.Conn]; c != nil {
			x.Charset = c.charset
			if v, ok := c.vars.Get(mysql.SQLModeStr); ok {
				if vv, ok2 := v.(*mysql.Variable); ok2 {
					if s, ok3 := vv.Get().(string); ok3 {
						x.SQLMode, x.HasMode = s, true
					}
				}
			}
		}
		r.B.mu.Unlock()
		out = append(out, x)
	}
	return out
}

// psTrimEvents drops the event log (the monitors read it incrementally; an unbounded log
// would dominate memory in the thorough tier).
func psTrimEvents(r *rig) {
	r.B.mu.Lock()
	r.B.events = nil
	r.B.mu.Unlock()
}

// psReadRaw reads one physical packet without checking the sequence id.
func psReadRaw(c *mycli.Conn) ([]byte, error) {
	c.C.SetDeadline(time.Now().Add(60 * time.Second))
	hdr := make([]byte, 4)
	if _, err := io.ReadFull(c.C, hdr); err != nil {
		return nil, err
	}
	n := int(hdr[0]) | int(hdr[1])<<8 | int(hdr[2])<<16
	buf := make([]byte, n)
	if _, err := io.ReadFull(c.C, buf); err != nil {
		return nil, err
	}
	return buf, nil
}

// psBarrier sends COM_PING and reads until its OK arrives. Every error packet seen before
// is an unsolicited reply to the preceding no-reply command(s) (COM_STMT_SEND_LONG_DATA /
// COM_STMT_CLOSE). The server handles commands strictly in order, so this needs no timing.
func psBarrier(c *mycli.Conn) (unsolicited []uint16, err error) {
	if err = c.Command(mycli.ComPing, nil); err != nil {
		return nil, err
	}
	for k := 0; k < 64; k++ {
		p, err := psReadRaw(c)
		if err != nil {
			return unsolicited, err
		}
		if len(p) > 0 && p[0] == 0x00 {
			return unsolicited, nil
		}
		if len(p) >= 3 && p[0] == 0xff {
			unsolicited = append(unsolicited, binary.LittleEndian.Uint16(p[1:]))
			continue
		}
		return unsolicited, fmt.Errorf("ps barrier: unexpected packet % x", p[:psMin(len(p), 16)])
	}
	return unsolicited, fmt.Errorf("ps barrier: no OK after 64 packets")
}

func psMin(a, b int) int {
	if a < b {
		return a
	}
	return b
}

// ---- wire encoders

func psLE(width int, v uint64) []byte {
	b := make([]byte, width)
	for i := 0; i < width; i++ {
		b[i] = byte(v >> (8 * uint(i)))
	}
	return b
}

func psF32(bits uint32) []byte { return psLE(4, uint64(bits)) }
func psF64(bits uint64) []byte { return psLE(8, bits) }

func psF64Bits(f float64) uint64 { return math.Float64bits(f) }
func psF32Bits(f float32) uint32 { return math.Float32bits(f) }

// psDateWire encodes a DATE/DATETIME/TIMESTAMP value with the given payload length
// (0, 4, 7 or 11).
func psDateWire(n int, t [7]int) []byte {
	b := []byte{byte(n)}
	if n >= 4 {
		b = append(b, byte(t[0]), byte(t[0]>>8), byte(t[1]), byte(t[2]))
	}
	if n >= 7 {
		b = append(b, byte(t[3]), byte(t[4]), byte(t[5]))
	}
	if n >= 11 {
		b = append(b, psLE(4, uint64(t[6]))...)
	}
	return b
}

// psTimeWire encodes a TIME value with payload length 0, 8 or 12.
func psTimeWire(n int, neg bool, days, h, m, s, us int) []byte {
	b := []byte{byte(n)}
	if n >= 8 {
		sign := byte(0)
		if neg {
			sign = 1
		}
		b = append(b, sign)
		b = append(b, psLE(4, uint64(days))...)
		b = append(b, byte(h), byte(m), byte(s))
	}
	if n >= 12 {
		b = append(b, psLE(4, uint64(us))...)
	}
	return b
}

// ---- type families for re-binding a statement with different declared types

// psFamilies are the type families of well-formed parameters the C16 histories bind.
var psFamilies = []string{"varstring", "longlong", "tiny", "short", "long", "float", "double", "blob", "date", "datetime", "time", "nulltype"}

// psFamValue builds the wire parameter of family fam for the small seed n together with
// the value the monitor expects to see in the statement text.
func psFamValue(fam string, n int) (mycli.Param, psWant) {
	switch fam {
	case "varstring":
		v := []byte(fmt.Sprintf("s%da", n))
		return mycli.Param{Type: mycli.TVarString, Raw: mycli.LenEncBytes(v)}, psWant{Kind: "bytes", Bytes: v}
	case "blob":
		v := []byte(fmt.Sprintf("b%dz", n))
		return mycli.Param{Type: mycli.TBlob, Raw: mycli.LenEncBytes(v)}, psWant{Kind: "bytes", Bytes: v}
	case "tiny":
		v := n%100 + 1
		return mycli.Param{Type: mycli.TTiny, Raw: psLE(1, uint64(v))}, psWant{Kind: "int", Int: fmt.Sprint(v)}
	case "short":
		v := 2000 + n%20000
		return mycli.Param{Type: mycli.TShort, Raw: psLE(2, uint64(v))}, psWant{Kind: "int", Int: fmt.Sprint(v)}
	case "long":
		v := 300000 + n
		return mycli.Param{Type: mycli.TLong, Raw: psLE(4, uint64(v))}, psWant{Kind: "int", Int: fmt.Sprint(v)}
	case "longlong":
		v := 1000 + n
		return mycli.Param{Type: mycli.TLongLong, Raw: psLE(8, uint64(v))}, psWant{Kind: "int", Int: fmt.Sprint(v)}
	case "float":
		f := float32(n) + 0.5
		return mycli.Param{Type: mycli.TFloat, Raw: psF32(psF32Bits(f))}, psWant{Kind: "f32", Bits: uint64(psF32Bits(f))}
	case "double":
		f := float64(n) + 0.25
		return mycli.Param{Type: mycli.TDouble, Raw: psF64(psF64Bits(f))}, psWant{Kind: "f64", Bits: psF64Bits(f)}
	case "date":
		t := [7]int{2001, 1 + n%12, 1 + n%28, 0, 0, 0, 0}
		return mycli.Param{Type: mycli.TDate, Raw: psDateWire(4, t)}, psWant{Kind: "date", T: t}
	case "datetime":
		t := [7]int{2001, 2, 3, 4, n % 60, (n / 60) % 60, 0}
		return mycli.Param{Type: mycli.TDateTime, Raw: psDateWire(7, t)}, psWant{Kind: "datetime", T: t}
	case "time":
		w := psWant{Kind: "time"}
		w.T[3], w.T[4], w.T[5] = 1, n%60, (n/60)%60
		return mycli.Param{Type: mycli.TTime, Raw: psTimeWire(8, false, 0, 1, n%60, (n/60)%60, 0)}, w
	}
	return mycli.Param{Type: mycli.TNull}, psWant{Kind: "null"}
}
