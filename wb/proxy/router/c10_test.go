package router

// C10 — accepted configurations load and give an unambiguous routing table.
// Monitor: namespaces are generated from a structured lattice (slices, default slice, rules
// of every type with arbitrary locations / slice lists / database lists / date ranges /
// partition parameters / table and parent names), handed to the real models.Namespace.Verify
// and, when Verify accepts, to the real NewRouter. The oracle then inspects the built router:
// (a) NewRouter must succeed, (b) every rule's sub-table list is duplicate free, every listed
// table maps to exactly one slice inside the rule's slice list (and to a database for
// mycat/global rules) and no unlisted table is mapped, (c) the shard function of hash / mod /
// range / mycat rules, run on a key grid, never panics with a runtime error and never names
// a table that is not listed.

import (
	"encoding/json"
	"fmt"
	"math"
	"regexp"
	"runtime"
	"sort"
	"strconv"
	"strings"
	"testing"

	"github.com/XiaoMi/Gaea/models"
	kit "github.com/XiaoMi/Gaea/verifkit"
)

type c10RuleSpec struct {
	Type       string `json:"type"`
	DB         string `json:"db"`
	Table      string `json:"table"`
	Parent     string `json:"parent,omitempty"`
	Locations  []int  `json:"locations,omitempty"`
	NDates     int    `json:"n_dates,omitempty"`
	SliceShape string `json:"slice_shape"`          // match | shorter | longer | unknown | repeat
	DBShape    string `json:"db_shape,omitempty"`   // match | fewer | more | empty | range | badrange
	Param      string `json:"param,omitempty"`      // valid | type specific invalid / hazardous variant
	HashSlice  string `json:"hash_slice,omitempty"` // mycat_string only; "" means the valid default "2"
	VBT        string `json:"vbt,omitempty"`        // mycat_murmur only; "" means the default "16"
	DateShape  string `json:"date_shape,omitempty"` // single | span | desc-span | overlap | wrong-length | bad-month | non-numeric | empty-list
	Limit      int    `json:"limit,omitempty"`      // range only
}

type c10Spec struct {
	NSlices int           `json:"n_slices"`
	Default string        `json:"default"` // present | last | empty | unknown | case
	Rules   []c10RuleSpec `json:"rules"`
}

var c10LocTypes = []string{models.ShardHash, models.ShardMod, models.ShardRange, models.ShardMycatMod, models.ShardMycatLong,
	models.ShardMycatString, models.ShardMycatMURMUR, models.ShardMycatPaddingMod, models.ShardGlobal}
var c10DateTypes = []string{models.ShardYear, models.ShardMonth, models.ShardDay}
var c10SliceShapes = []string{"match", "shorter", "longer", "unknown", "repeat"}
var c10DBShapes = []string{"match", "fewer", "more", "empty", "range", "badrange"}
var c10DateShapes = []string{"single", "span", "desc-span", "overlap", "touching", "overlap-inner", "repeat-single", "single-then-span", "reversed-touching",
	"wrong-length", "bad-month", "non-numeric", "empty-list"}

// shapes in which neighbouring entries share a boundary period (end of one == start of the next)
var c10TouchingShapes = []string{"touching", "overlap-inner", "repeat-single", "single-then-span", "reversed-touching"}
var c10Defaults = []string{"present", "last", "empty", "unknown", "case"}

func c10UsesDBs(t string) bool {
	return strings.HasPrefix(t, "mycat_") || t == models.ShardGlobal
}

func c10IsDate(t string) bool {
	return t == models.ShardYear || t == models.ShardMonth || t == models.ShardDay
}

func c10Params(t string) []string {
	switch t {
	case models.ShardMycatLong, models.ShardMycatString:
		return []string{"valid", "neg-count", "non-numeric", "len-mismatch", "wrong-sum", "empty", "neg-length"}
	case models.ShardMycatMURMUR:
		return []string{"valid", "seed-non-numeric", "seed-empty", "seed-negative"}
	case models.ShardMycatPaddingMod:
		return []string{"valid", "left", "begin-zero", "begin-zero-left", "short-pad", "short-pad-left", "whole-key", "whole-key-left", "one-digit",
			"pad-shorter-than-mod-end", "bad-from", "zero-length", "non-numeric", "begin-after-end"}
	}
	return []string{"valid"}
}

// c10SimTables mirrors nothing but arithmetic: how many distinct table numbers the
// "count per slice" notation produces when entries are taken literally (generator use only,
// to choose database lists that make the case pass validation; it decides no verdict).
func c10SimTables(locs []int) int {
	seen := map[int]bool{}
	sum := 0
	for _, l := range locs {
		for j := 0; j < l; j++ {
			seen[sum+j] = true
		}
		sum += l
	}
	return len(seen)
}

func c10SliceNames(n int) []string {
	out := make([]string, n)
	for i := range out {
		out[i] = "slice-" + strconv.Itoa(i)
	}
	return out
}

func c10RuleSlices(shape string, l, n int) []string {
	names := c10SliceNames(n)
	match := func(k int) []string {
		out := []string{}
		for i := 0; i < k; i++ {
			out = append(out, names[i%n])
		}
		return out
	}
	switch shape {
	case "shorter":
		if l == 0 {
			return match(0)
		}
		return match(l - 1)
	case "longer":
		return match(l + 1)
	case "unknown":
		if l == 0 {
			return []string{"slice-x"}
		}
		o := match(l)
		o[l-1] = "slice-x"
		return o
	case "repeat":
		out := []string{}
		for i := 0; i < l; i++ {
			out = append(out, names[0])
		}
		return out
	}
	return match(l)
}

func c10Databases(shape string, t int) []string {
	mk := func(k int) []string {
		out := []string{}
		for i := 0; i < k; i++ {
			out = append(out, "d"+strconv.Itoa(i))
		}
		return out
	}
	switch shape {
	case "fewer":
		if t <= 0 {
			return mk(0)
		}
		return mk(t - 1)
	case "more":
		return mk(t + 1)
	case "empty":
		return nil
	case "range":
		if t >= 2 {
			return []string{fmt.Sprintf("d[0-%d]", t-1)}
		}
		return mk(t)
	case "badrange":
		return []string{"d[3-1]"}
	}
	return mk(t)
}

func c10Dates(typ, shape string, n int) []string {
	tab := map[string]map[string][]string{
		models.ShardYear: {
			"single":    {"2015", "2017", "2019"},
			"span":      {"2015-2016", "2018-2019", "2021-2023"},
			"desc-span": {"2016-2015", "2019-2018", "2023-2021"},
			"overlap":   {"2015-2017", "2016", "2016-2019"},
			// the last year of an entry is the first year of the next one
			"touching":          {"2014-2016", "2016-2018", "2018-2019"},
			"overlap-inner":     {"2014-2016", "2015-2018", "2017-2019"},
			"repeat-single":     {"2015", "2015", "2015"},
			"single-then-span":  {"2015", "2015-2016", "2016"},
			"reversed-touching": {"2016-2014", "2018-2016", "2019-2018"},
		},
		models.ShardMonth: {
			"single":            {"201511", "201601", "201603"},
			"span":              {"201511-201602", "201603-201604", "201611-201802"},
			"desc-span":         {"201602-201511", "201604-201603", "201802-201611"},
			"overlap":           {"201511-201602", "201601", "201512-201603"},
			"touching":          {"201511-201601", "201601-201603", "201603-201604"},
			"overlap-inner":     {"201511-201602", "201601-201603", "201602-201605"},
			"repeat-single":     {"201512", "201512", "201512"},
			"single-then-span":  {"201512", "201512-201601", "201601"},
			"reversed-touching": {"201601-201511", "201603-201601", "201604-201603"},
		},
		models.ShardDay: {
			"single":            {"20151230", "20160102", "20160229"},
			"span":              {"20151230-20160102", "20160105-20160106", "20160227-20160301"},
			"desc-span":         {"20160102-20151230", "20160106-20160105", "20160301-20160227"},
			"overlap":           {"20151230-20160102", "20160101", "20151231-20160105"},
			"touching":          {"20151230-20160101", "20160101-20160103", "20160103-20160104"},
			"overlap-inner":     {"20151230-20160102", "20160101-20160103", "20160102-20160105"},
			"repeat-single":     {"20160229", "20160229", "20160229"},
			"single-then-span":  {"20151231", "20151231-20160101", "20160101"},
			"reversed-touching": {"20160101-20151230", "20160103-20160101", "20160104-20160103"},
		},
	}
	var src []string
	switch shape {
	case "empty-list":
		return nil
	case "wrong-length":
		src = map[string][]string{models.ShardYear: {"20155", "2017", "2019"}, models.ShardMonth: {"2015111", "201601", "201603"}, models.ShardDay: {"201512301", "20160102", "20160229"}}[typ]
	case "bad-month":
		src = map[string][]string{models.ShardYear: {"20x5", "2017", "2019"}, models.ShardMonth: {"201513", "201601", "201603"}, models.ShardDay: {"20151301-20151302", "20160102", "20160230"}}[typ]
	case "non-numeric":
		src = map[string][]string{models.ShardYear: {"abcd", "2017", "2019"}, models.ShardMonth: {"abcdef", "201601", "201603"}, models.ShardDay: {"abcdefgh", "20160102", "20160229"}}[typ]
	default:
		src = tab[typ][shape]
	}
	if n > len(src) {
		n = len(src)
	}
	return append([]string{}, src[:n]...)
}

func c10BuildNS(sp c10Spec) *models.Namespace {
	n := sp.NSlices
	if n < 1 {
		n = 1
	}
	ns := &models.Namespace{Name: "ns_c10", AllowedDBS: map[string]bool{"db0": true, "db1": true},
		Users: []*models.User{{UserName: "u1", Password: "p1", Namespace: "ns_c10", RWFlag: models.ReadWrite, RWSplit: models.NoReadWriteSplit}}}
	for _, name := range c10SliceNames(n) {
		ns.Slices = append(ns.Slices, &models.Slice{Name: name, UserName: "root", Password: "pw", Master: "127.0.0.1:3306", Capacity: 4, MaxCapacity: 8})
	}
	switch sp.Default {
	case "present":
		ns.DefaultSlice = "slice-0"
	case "last":
		ns.DefaultSlice = "slice-" + strconv.Itoa(n-1)
	case "empty":
		ns.DefaultSlice = ""
	case "unknown":
		ns.DefaultSlice = "slice-x"
	case "case":
		ns.DefaultSlice = "SLICE-0"
	}
	for _, rs := range sp.Rules {
		sh := &models.Shard{DB: rs.DB, Table: rs.Table, Type: rs.Type, Key: "id", ParentTable: rs.Parent}
		switch {
		case rs.Type == models.ShardLinked:
			sh.Slices = nil
		case c10IsDate(rs.Type):
			sh.DateRange = c10Dates(rs.Type, rs.DateShape, rs.NDates)
			sh.Slices = c10RuleSlices(rs.SliceShape, rs.NDates, n)
		default:
			sh.Locations = append([]int{}, rs.Locations...)
			sh.Slices = c10RuleSlices(rs.SliceShape, len(rs.Locations), n)
		}
		t := c10SimTables(rs.Locations)
		if c10UsesDBs(rs.Type) {
			sh.Databases = c10Databases(rs.DBShape, t)
		}
		switch rs.Type {
		case models.ShardRange:
			sh.TableRowLimit = rs.Limit
		case models.ShardMycatLong, models.ShardMycatString:
			switch rs.Param {
			case "neg-count":
				sh.PartitionCount, sh.PartitionLength = strconv.Itoa(t+1)+",-1", "512,512"
			case "non-numeric":
				sh.PartitionCount, sh.PartitionLength = "a", "1024"
			case "len-mismatch":
				sh.PartitionCount, sh.PartitionLength = strconv.Itoa(t), "512,512"
			case "wrong-sum":
				sh.PartitionCount, sh.PartitionLength = strconv.Itoa(t), "1000"
			case "empty":
				sh.PartitionCount, sh.PartitionLength = "", ""
			case "neg-length":
				// lengths 1024,-512,512 also end at 1024
				if t == 3 {
					sh.PartitionCount, sh.PartitionLength = "1,1,1", "1024,-512,512"
				} else {
					sh.PartitionCount, sh.PartitionLength = strconv.Itoa(t)+",1", "0,1024"
				}
			default:
				if t >= 2 {
					sh.PartitionCount, sh.PartitionLength = strconv.Itoa(t-1)+",1", "1,"+strconv.Itoa(1025-t)
				} else {
					sh.PartitionCount, sh.PartitionLength = "1", "1024"
				}
			}
			if rs.Type == models.ShardMycatString {
				sh.HashSlice = rs.HashSlice
				if rs.HashSlice == "" {
					sh.HashSlice = "2"
				} else if rs.HashSlice == "<empty>" {
					sh.HashSlice = ""
				}
			}
		case models.ShardMycatMURMUR:
			sh.Seed = map[string]string{"valid": "0", "seed-non-numeric": "x", "seed-empty": "", "seed-negative": "-7"}[rs.Param]
			sh.VirtualBucketTimes = rs.VBT
			if rs.VBT == "" {
				sh.VirtualBucketTimes = "16"
			} else if rs.VBT == "<empty>" {
				sh.VirtualBucketTimes = ""
			}
		case models.ShardMycatPaddingMod:
			p := map[string][4]string{"valid": {"1", "18", "10", "16"}, "left": {"0", "18", "10", "16"},
				// valid shapes whose mod segment starts at the first character (where the sign of a negative key sits when
				// padding goes to the other end), short pads (keys longer than pad_length get cut), the whole key, one digit
				"begin-zero": {"1", "18", "0", "6"}, "begin-zero-left": {"0", "18", "0", "6"}, "short-pad": {"1", "5", "0", "5"}, "short-pad-left": {"0", "5", "1", "4"},
				"whole-key": {"1", "18", "0", "18"}, "whole-key-left": {"0", "18", "0", "18"}, "one-digit": {"1", "3", "2", "3"},
				"pad-shorter-than-mod-end": {"1", "5", "10", "14"},
				"bad-from":                 {"2", "18", "10", "16"}, "zero-length": {"1", "0", "0", "0"}, "non-numeric": {"x", "18", "10", "16"}, "begin-after-end": {"1", "18", "16", "10"}}[rs.Param]
			sh.PadFrom, sh.PadLength, sh.ModBegin, sh.ModEnd = p[0], p[1], p[2], p[3]
		}
		ns.ShardRules = append(ns.ShardRules, sh)
	}
	return ns
}

// ---------------------------------------------------------------------------------------
// oracle

type c10Finding struct {
	Clause string
	Rule   int    // index into spec.Rules of the rule concerned, -1 for namespace level
	KeyCls string // for clause (c): which keys fail
	Detail string
}

// key grid of clause (c): extremes, negative and positive integers of 1..19 digits (shorter and longer than
// the pad lengths of the padding-mod shapes), negative / signed / zero-padded numeric text, non-numeric text
var c10IntGrid = []int64{math.MinInt64, math.MinInt64 + 1, -123456789012345678, -1000000, -2000, -1025, -17, -3, -1, 0, 1, 2, 3, 5, 7, 999, 1000, 1023, 1024, 2047,
	12345, 987654, 1 << 31, 1 << 40, 123456789012345678, math.MaxInt64 - 1, math.MaxInt64}
var c10StrGrid = []string{"", "17", "-17", "-2000", "-00017", "+17", "-9223372036854775808", "9223372036854775807", "12345678901234567890123", "1.5", " 7",
	"abc", "hello, world", "你好", "\U0001F600x", "2016-01-01"}

func c10RuleIndex(sp c10Spec, db, table string) int {
	for i, r := range sp.Rules {
		if r.DB == db && strings.ToLower(r.Table) == table {
			return i
		}
	}
	return -1
}

// c10Check runs Verify and NewRouter on the namespace of sp and applies the oracle.
// accepted reports Verify()==nil.
func c10Check(sp c10Spec) (accepted bool, verifyPanic interface{}, verifyErr error, out []c10Finding) {
	func() {
		defer func() {
			if p := recover(); p != nil {
				verifyPanic = p
			}
		}()
		verifyErr = c10BuildNS(sp).Verify()
	}()
	if verifyPanic != nil || verifyErr != nil {
		return false, verifyPanic, verifyErr, nil
	}
	// (a) the proxy must be able to load it
	var rt *Router
	var err error
	var pan interface{}
	func() {
		defer func() {
			if p := recover(); p != nil {
				pan = p
			}
		}()
		rt, err = NewRouter(c10BuildNS(sp))
	}()
	if pan != nil {
		return true, nil, nil, []c10Finding{{Clause: "newrouter-panic", Rule: -1, Detail: fmt.Sprintf("NewRouter panicked: %v", pan)}}
	}
	if err != nil {
		return true, nil, nil, []c10Finding{{Clause: "newrouter-error", Rule: -1, Detail: fmt.Sprintf("NewRouter: %v", err)}}
	}
	nsSlices := map[string]bool{}
	for _, s := range c10SliceNames(sp.NSlices) {
		nsSlices[s] = true
	}
	dbs := make([]string, 0)
	for db := range rt.GetAllRules() {
		dbs = append(dbs, db)
	}
	sort.Strings(dbs)
	for _, db := range dbs {
		tables := make([]string, 0)
		for tb := range rt.GetAllRules()[db] {
			tables = append(tables, tb)
		}
		sort.Strings(tables)
		for _, tb := range tables {
			rule := rt.GetAllRules()[db][tb]
			if rule.IsLinkedRule() {
				continue // checked through its parent
			}
			ri := c10RuleIndex(sp, db, tb)
			base, _ := rule.(*BaseRule)
			// (b) routing table
			list := rule.GetSubTableIndexes()
			seen := map[int]bool{}
			dupAt := -1
			for _, idx := range list {
				if seen[idx] && dupAt < 0 {
					dupAt = idx
				}
				seen[idx] = true
			}
			if dupAt >= 0 {
				out = append(out, c10Finding{Clause: "dup-table", Rule: ri, Detail: fmt.Sprintf("%s.%s: table %d is listed more than once in %v", db, tb, dupAt, list)})
			}
			slices := rule.GetSlices()
			badSlice := ""
			for _, idx := range list {
				si := rule.GetSliceIndexFromTableIndex(idx)
				if si < 0 || si >= len(slices) {
					badSlice = fmt.Sprintf("table %d has slice index %d outside the rule's slice list %v", idx, si, slices)
					break
				}
				if !nsSlices[slices[si]] {
					badSlice = fmt.Sprintf("table %d belongs to %q which is not a namespace slice", idx, slices[si])
					break
				}
			}
			if badSlice != "" {
				out = append(out, c10Finding{Clause: "slice-out-of-list", Rule: ri, Detail: fmt.Sprintf("%s.%s: %s", db, tb, badSlice)})
			}
			if base != nil {
				for idx := range base.tableToSlice {
					if !seen[idx] {
						out = append(out, c10Finding{Clause: "unlisted-table-mapped", Rule: ri, Detail: fmt.Sprintf("%s.%s: table %d has a slice but is not in the sub-table list %v", db, tb, idx, list)})
						break
					}
				}
			}
			if IsMycatShardingRule(rule.GetType()) || rule.GetType() == GlobalTableRuleType {
				for _, idx := range list {
					var name string
					var derr error
					func() {
						defer func() {
							if p := recover(); p != nil {
								derr = fmt.Errorf("panic: %v", p)
							}
						}()
						name, derr = rule.GetDatabaseNameByTableIndex(idx)
					}()
					if derr != nil || name == "" {
						out = append(out, c10Finding{Clause: "table-without-database", Rule: ri, Detail: fmt.Sprintf("%s.%s: table %d has no physical database (%v)", db, tb, idx, derr)})
						break
					}
				}
			}
			// (c) shard function only names listed tables
			switch rule.GetType() {
			case models.ShardHash, models.ShardMod, models.ShardRange, models.ShardMycatMod, models.ShardMycatLong, models.ShardMycatString,
				models.ShardMycatMURMUR, models.ShardMycatPaddingMod:
				type fail struct {
					clause, detail string
					min64          bool
				}
				var fails []fail
				try := func(key interface{}, isMin bool) {
					var idx int
					var e error
					var p interface{}
					func() {
						defer func() { p = recover() }()
						idx, e = rule.FindTableIndex(key)
					}()
					if p != nil {
						if _, ok := p.(runtime.Error); ok {
							fails = append(fails, fail{"shard-panic", fmt.Sprintf("FindTableIndex(%v) panicked: %v", key, p), isMin})
						}
						return
					}
					if e == nil && !seen[idx] {
						fails = append(fails, fail{"shard-names-unlisted-table", fmt.Sprintf("FindTableIndex(%v) = %d which is not in the sub-table list %v", key, idx, c10Head(list)), isMin})
					}
				}
				for _, k := range c10IntGrid {
					try(k, k == math.MinInt64)
				}
				for _, k := range c10StrGrid {
					try(k, false)
				}
				byClause := map[string][]fail{}
				for _, f := range fails {
					byClause[f.clause] = append(byClause[f.clause], f)
				}
				for _, cl := range []string{"shard-panic", "shard-names-unlisted-table"} {
					fs := byClause[cl]
					if len(fs) == 0 {
						continue
					}
					cls := "key=min-int64-only"
					for _, f := range fs {
						if !f.min64 {
							cls = "key=general"
						}
					}
					out = append(out, c10Finding{Clause: cl, Rule: ri, KeyCls: cls, Detail: fmt.Sprintf("%s.%s (%s): %s (%d of %d grid keys)", db, tb, rule.GetType(), fs[0].detail, len(fs), len(c10IntGrid)+len(c10StrGrid))})
				}
			}
		}
	}
	return true, nil, nil, out
}

var c10EmptyFieldRe = regexp.MustCompile(`,"[a-z_]+":(""|null|0)`)

// c10Compact drops empty fields from the JSON of the shard rules (witness text only).
func c10Compact(j string) string { return c10EmptyFieldRe.ReplaceAllString(j, "") }

func c10Head(v []int) []int {
	if len(v) > 10 {
		return v[:10]
	}
	return v
}

func c10Has(fs []c10Finding, clause, keyCls string) bool {
	for _, f := range fs {
		if f.Clause == clause && f.KeyCls == keyCls {
			return true
		}
	}
	return false
}

// ---------------------------------------------------------------------------------------
// shrinking and signatures

func c10CopySpec(sp c10Spec) c10Spec {
	b, _ := json.Marshal(sp)
	var o c10Spec
	json.Unmarshal(b, &o)
	return o
}

func c10StillFails(sp c10Spec, clause, keyCls string) bool {
	acc, _, _, fs := c10Check(sp)
	return acc && c10Has(fs, clause, keyCls)
}

// c10Shrink greedily moves every axis of the spec to its plain value while the same clause
// keeps being violated: drop rules, plain default slice, fewer slices, plain shapes and
// parameters, shorter locations, entries replaced by 1.
func c10Shrink(sp c10Spec, clause, keyCls string) c10Spec {
	cur := c10CopySpec(sp)
	try := func(mut func(s *c10Spec) bool) bool {
		cand := c10CopySpec(cur)
		if !mut(&cand) {
			return false
		}
		if c10StillFails(cand, clause, keyCls) {
			cur = cand
			return true
		}
		return false
	}
	for progress := true; progress; {
		progress = false
		for i := 0; i < len(cur.Rules); i++ {
			i := i
			if try(func(s *c10Spec) bool { s.Rules = append(s.Rules[:i], s.Rules[i+1:]...); return true }) {
				progress = true
				i--
			}
		}
		if try(func(s *c10Spec) bool { ch := s.Default != "present"; s.Default = "present"; return ch }) {
			progress = true
		}
		for cur.NSlices > 1 && try(func(s *c10Spec) bool { s.NSlices--; return true }) {
			progress = true
		}
		for i := range cur.Rules {
			i := i
			// all axes of the rule to their plain values at once (some only make sense together)
			if try(func(s *c10Spec) bool {
				r := s.Rules[i]
				if r.Type == models.ShardLinked {
					return false
				}
				pl := c10PlainRule(r.Type, r.DB, r.Table)
				b1, _ := json.Marshal(r)
				b2, _ := json.Marshal(pl)
				s.Rules[i] = pl
				return string(b1) != string(b2)
			}) {
				progress = true
			}
			set := func(get func(r *c10RuleSpec) *string, plain string) {
				if try(func(s *c10Spec) bool { p := get(&s.Rules[i]); ch := *p != plain; *p = plain; return ch }) {
					progress = true
				}
			}
			set(func(r *c10RuleSpec) *string { return &r.SliceShape }, "match")
			if c10UsesDBs(cur.Rules[i].Type) {
				set(func(r *c10RuleSpec) *string { return &r.DBShape }, "match")
			}
			if cur.Rules[i].Param != "" {
				set(func(r *c10RuleSpec) *string { return &r.Param }, "valid")
			}
			set(func(r *c10RuleSpec) *string { return &r.HashSlice }, "")
			set(func(r *c10RuleSpec) *string { return &r.VBT }, "")
			if c10IsDate(cur.Rules[i].Type) {
				set(func(r *c10RuleSpec) *string { return &r.DateShape }, "single")
				for cur.Rules[i].NDates > 1 && try(func(s *c10Spec) bool { s.Rules[i].NDates--; return true }) {
					progress = true
				}
			}
			set(func(r *c10RuleSpec) *string { return &r.DB }, "db0")
			if cur.Rules[i].Type == models.ShardRange {
				if try(func(s *c10Spec) bool { ch := s.Rules[i].Limit != 1000; s.Rules[i].Limit = 1000; return ch }) {
					progress = true
				}
			}
			if !c10IsDate(cur.Rules[i].Type) && cur.Rules[i].Type != models.ShardLinked && c10LocClass(cur.Rules[i].Locations) != "positive" {
				if try(func(s *c10Spec) bool { s.Rules[i].Locations = []int{1}; return true }) {
					progress = true
				}
			}
			for j := 0; j < len(cur.Rules[i].Locations) && len(cur.Rules[i].Locations) > 1; j++ {
				j := j
				if try(func(s *c10Spec) bool {
					l := s.Rules[i].Locations
					s.Rules[i].Locations = append(append([]int{}, l[:j]...), l[j+1:]...)
					return true
				}) {
					progress = true
					j--
				}
			}
			for j := range cur.Rules[i].Locations {
				j := j
				if try(func(s *c10Spec) bool { ch := s.Rules[i].Locations[j] != 1; s.Rules[i].Locations[j] = 1; return ch }) {
					progress = true
				}
			}
		}
	}
	return cur
}

// c10PlainRule is the plain (valid, one table) rule of a type.
func c10PlainRule(typ, db, table string) c10RuleSpec {
	rs := c10RuleSpec{Type: typ, DB: db, Table: table, SliceShape: "match"}
	switch {
	case c10IsDate(typ):
		rs.NDates, rs.DateShape = 1, "single"
	default:
		rs.Locations, rs.Param = []int{1}, "valid"
		if c10UsesDBs(typ) {
			rs.DBShape = "match"
		}
		if typ == models.ShardRange {
			rs.Limit = 1000
		}
	}
	return rs
}

func c10LocClass(locs []int) string {
	sum, neg := 0, false
	for _, l := range locs {
		sum += l
		if l < 0 {
			neg = true
		}
	}
	switch {
	case neg:
		return "negative-entry"
	case sum == 0:
		return "no-tables"
	}
	return "positive"
}

// c10Describe is the canonical descriptor of a (shrunk) spec: only structural classes.
func c10Describe(sp c10Spec) string {
	parts := []string{}
	if sp.Default != "present" {
		parts = append(parts, "default="+sp.Default)
	}
	names := map[string]int{}
	lower := map[string]int{}
	for _, r := range sp.Rules {
		names[r.DB+"."+r.Table]++
		lower[r.DB+"."+strings.ToLower(r.Table)]++
	}
	caseDup := false
	for k, n := range lower {
		_ = k
		if n > 1 {
			caseDup = true
		}
	}
	for _, n := range names {
		if n > 1 {
			caseDup = false // exact duplicates are a different (rejected) thing
		}
	}
	if caseDup {
		parts = append(parts, "tables-differ-only-in-case")
	}
	nsLevel := len(parts) > 0
	rs := []string{}
	for _, r := range sp.Rules {
		if r.Type == models.ShardLinked {
			rs = append(rs, r.Type)
			continue
		}
		// generic features come from code shared by every rule type; specific ones are tied to the type
		var generic, specific []string
		if c10IsDate(r.Type) {
			if r.DateShape != "single" {
				specific = append(specific, "dates="+r.DateShape)
			}
		} else if lc := c10LocClass(r.Locations); lc != "positive" {
			generic = append(generic, "locations="+lc)
		}
		if r.SliceShape != "match" {
			generic = append(generic, "slices="+r.SliceShape)
		}
		if c10UsesDBs(r.Type) && r.DBShape != "match" {
			generic = append(generic, "databases="+r.DBShape)
		}
		if r.Param != "" && r.Param != "valid" {
			specific = append(specific, "param="+r.Param)
		}
		if r.HashSlice != "" {
			specific = append(specific, "hash_slice=other")
		}
		if r.VBT != "" {
			specific = append(specific, "vbt="+r.VBT)
		}
		if r.Type == models.ShardRange && r.Limit != 1000 {
			specific = append(specific, "limit=other")
		}
		head := r.Type
		if len(specific) == 0 && (len(generic) > 0 || nsLevel) {
			head = "rule"
		}
		rs = append(rs, strings.Join(append(append([]string{head}, specific...), generic...), ","))
	}
	sort.Strings(rs)
	parts = append(parts, "rules=["+strings.Join(rs, ";")+"]")
	return strings.Join(parts, " ")
}

// ---------------------------------------------------------------------------------------
// generators

func c10AllLocations() [][]int {
	vals := []int{-1, 0, 1, 2, 3}
	out := [][]int{{}}
	for _, a := range vals {
		out = append(out, []int{a})
		for _, b := range vals {
			out = append(out, []int{a, b})
			for _, c := range vals {
				out = append(out, []int{a, b, c})
			}
		}
	}
	return out
}

func c10RandRule(r *kit.Rand, idx int) c10RuleSpec {
	tables := []string{"t1", "T1", "t2", "T2", "tbl_three"}
	rs := c10RuleSpec{DB: r.Pick([]string{"db0", "db0", "db0", "db1"}), Table: tables[r.Intn(len(tables))], SliceShape: "match", DBShape: "match", Param: "valid"}
	switch k := r.Intn(20); {
	case k < 12:
		rs.Type = c10LocTypes[r.Intn(len(c10LocTypes))]
	case k < 16:
		rs.Type = c10DateTypes[r.Intn(len(c10DateTypes))]
	case k < 19:
		rs.Type = models.ShardLinked
	default:
		rs.Type = r.Pick([]string{models.ShardDefault, "unknown_type", ""})
	}
	if r.Chance(1, 4) {
		rs.SliceShape = c10SliceShapes[r.Intn(len(c10SliceShapes))]
	}
	if r.Chance(1, 4) {
		rs.DBShape = c10DBShapes[r.Intn(len(c10DBShapes))]
	}
	switch {
	case rs.Type == models.ShardLinked:
		rs.Parent = r.Pick([]string{"t1", "T1", "t2", "t9", rs.Table})
		rs.SliceShape, rs.DBShape, rs.Param = "match", "", ""
	case c10IsDate(rs.Type):
		rs.NDates = r.Range(1, 3)
		rs.DateShape = "single"
		if r.Chance(1, 2) {
			rs.DateShape = c10DateShapes[r.Intn(len(c10DateShapes))]
		}
		rs.DBShape, rs.Param = "", ""
	default:
		n := r.Range(1, 3)
		if r.Chance(1, 10) {
			n = 0
		}
		for i := 0; i < n; i++ {
			v := r.Range(1, 3)
			if r.Chance(1, 4) {
				v = r.Range(-1, 0)
			}
			rs.Locations = append(rs.Locations, v)
		}
		ps := c10Params(rs.Type)
		if r.Chance(1, 3) {
			rs.Param = ps[r.Intn(len(ps))]
		}
		if rs.Type == models.ShardRange {
			rs.Limit = []int{1000, 1000, 1, 0, -5, 1 << 40}[r.Intn(6)]
		}
		if rs.Type == models.ShardMycatString && r.Chance(1, 3) {
			rs.HashSlice = r.Pick([]string{":", "-3:", "a", "<empty>", "1:2:3", ":-1"})
		}
		if rs.Type == models.ShardMycatMURMUR && r.Chance(1, 3) {
			rs.VBT = r.Pick([]string{"<empty>", "0", "-1", "x", "1"})
		}
		if !c10UsesDBs(rs.Type) {
			rs.DBShape = ""
		}
	}
	return rs
}

func c10RandSpec(r *kit.Rand) c10Spec {
	sp := c10Spec{NSlices: r.Range(1, 3), Default: "present"}
	if r.Chance(1, 3) {
		sp.Default = c10Defaults[r.Intn(len(c10Defaults))]
	}
	n := r.Range(0, 3)
	for i := 0; i < n; i++ {
		sp.Rules = append(sp.Rules, c10RandRule(r, i))
	}
	return sp
}

// c10Enumerate calls f on every spec of the enumerated sub-lattices (thorough tier);
// with stride > 1 only every stride-th spec is visited (quick tier).
func c10Enumerate(stride int, f func(sp c10Spec)) (total int) {
	n := 0
	emit := func(sp c10Spec) {
		n++
		if n%stride == 0 {
			f(sp)
		}
	}
	locs := c10AllLocations()
	defaults := []string{"present", "empty", "unknown"}
	// E0 (never strided, so the quick tier always has it): calendar rules whose neighbouring
	// entries share a boundary period or repeat one
	for _, typ := range c10DateTypes {
		for _, ds := range c10TouchingShapes {
			for nd := 2; nd <= 3; nd++ {
				for _, ns := range []int{1, 3} {
					n++
					f(c10Spec{NSlices: ns, Default: "present", Rules: []c10RuleSpec{{Type: typ, DB: "db0", Table: "t1", NDates: nd, DateShape: ds, SliceShape: "match"}}})
				}
			}
		}
	}
	// E0 (never strided): every location-based rule type with every parameter shape on two plain layouts, so that
	// clause (c) runs its key grid over each shard function and each padding-mod shape in the quick tier too
	for _, typ := range c10LocTypes {
		for _, pm := range c10Params(typ) {
			for _, l := range [][]int{{3}, {1, 2}} {
				rs := c10PlainRule(typ, "db0", "t1")
				rs.Locations, rs.Param = l, pm
				n++
				f(c10Spec{NSlices: 2, Default: "present", Rules: []c10RuleSpec{rs}})
			}
		}
	}
	// E1: one location-based rule: type x locations x slice shape x database shape
	for ns := 1; ns <= 3; ns++ {
		for _, def := range defaults {
			for _, typ := range c10LocTypes {
				dbShapes := []string{""}
				if c10UsesDBs(typ) {
					dbShapes = c10DBShapes
				}
				for _, l := range locs {
					for _, ss := range c10SliceShapes {
						for _, ds := range dbShapes {
							rs := c10RuleSpec{Type: typ, DB: "db0", Table: "t1", Locations: l, SliceShape: ss, DBShape: ds, Param: "valid"}
							if typ == models.ShardRange {
								rs.Limit = 1000
							}
							emit(c10Spec{NSlices: ns, Default: def, Rules: []c10RuleSpec{rs}})
						}
					}
				}
			}
		}
	}
	// E2: parameter axes of one rule on plain layouts
	plain := [][]int{{1}, {2}, {1, 2}, {2, 2}, {3}, {1, 1, 1}}
	for ns := 1; ns <= 3; ns++ {
		for _, def := range defaults {
			for _, typ := range c10LocTypes {
				for _, l := range plain {
					for _, pm := range c10Params(typ) {
						base := c10RuleSpec{Type: typ, DB: "db0", Table: "t1", Locations: l, SliceShape: "match", DBShape: "match", Param: pm}
						if !c10UsesDBs(typ) {
							base.DBShape = ""
						}
						switch typ {
						case models.ShardRange:
							for _, lim := range []int{1000, 1, 0, -5, 1 << 40} {
								b := base
								b.Limit = lim
								emit(c10Spec{NSlices: ns, Default: def, Rules: []c10RuleSpec{b}})
							}
						case models.ShardMycatString:
							for _, hs := range []string{"", ":", "-3:", "a", "<empty>", "1:2:3", ":-1"} {
								b := base
								b.HashSlice = hs
								emit(c10Spec{NSlices: ns, Default: def, Rules: []c10RuleSpec{b}})
							}
						case models.ShardMycatMURMUR:
							for _, v := range []string{"", "<empty>", "0", "-1", "x", "1"} {
								b := base
								b.VBT = v
								emit(c10Spec{NSlices: ns, Default: def, Rules: []c10RuleSpec{b}})
							}
						default:
							emit(c10Spec{NSlices: ns, Default: def, Rules: []c10RuleSpec{base}})
						}
					}
				}
			}
		}
	}
	// E3: one calendar rule
	for ns := 1; ns <= 3; ns++ {
		for _, def := range defaults {
			for _, typ := range c10DateTypes {
				for _, ds := range c10DateShapes {
					for nd := 1; nd <= 3; nd++ {
						for _, ss := range c10SliceShapes {
							emit(c10Spec{NSlices: ns, Default: def, Rules: []c10RuleSpec{{Type: typ, DB: "db0", Table: "t1", NDates: nd, DateShape: ds, SliceShape: ss}}})
						}
					}
				}
			}
		}
	}
	// E4: two and three rules: table-name case, duplicate names, linked rules and parents
	mk := func(typ, db, table string) c10RuleSpec {
		rs := c10RuleSpec{Type: typ, DB: db, Table: table, SliceShape: "match", Param: "valid"}
		switch {
		case c10IsDate(typ):
			rs.NDates, rs.DateShape, rs.Param = 1, "single", ""
		default:
			rs.Locations = []int{2}
			if c10UsesDBs(typ) {
				rs.DBShape = "match"
			}
		}
		return rs
	}
	aTypes := []string{models.ShardHash, models.ShardGlobal, models.ShardYear, models.ShardMycatMod}
	var bs, cs []c10RuleSpec
	for _, db := range []string{"db0", "db1"} {
		for _, tb := range []string{"t1", "T1", "t2"} {
			for _, typ := range aTypes {
				bs = append(bs, mk(typ, db, tb))
			}
			for _, parent := range []string{"t1", "T1", "t2", "t9"} {
				l := c10RuleSpec{Type: models.ShardLinked, DB: db, Table: tb, Parent: parent, SliceShape: "match"}
				bs = append(bs, l)
				cs = append(cs, l)
			}
		}
	}
	for _, def := range []string{"present", "empty"} {
		for _, typ := range aTypes {
			for _, tb := range []string{"t1", "T1"} {
				a := mk(typ, "db0", tb)
				for _, b := range bs {
					emit(c10Spec{NSlices: 2, Default: def, Rules: []c10RuleSpec{a, b}})
					emit(c10Spec{NSlices: 2, Default: def, Rules: []c10RuleSpec{b, a}})
					for _, c := range cs {
						emit(c10Spec{NSlices: 2, Default: def, Rules: []c10RuleSpec{a, b, c}})
					}
				}
			}
		}
	}
	// E5: no rules / odd rule types x every default-slice form
	for ns := 1; ns <= 3; ns++ {
		for _, def := range c10Defaults {
			emit(c10Spec{NSlices: ns, Default: def})
			for _, typ := range []string{models.ShardDefault, "unknown_type", ""} {
				emit(c10Spec{NSlices: ns, Default: def, Rules: []c10RuleSpec{{Type: typ, DB: "db0", Table: "t1", Locations: []int{1}, SliceShape: "match"}}})
			}
			emit(c10Spec{NSlices: ns, Default: def, Rules: []c10RuleSpec{{Type: models.ShardHash, DB: "db0", Table: "t1", Locations: []int{1}, SliceShape: "match", Param: "valid"}}})
		}
	}
	return n
}

// ---------------------------------------------------------------------------------------

func TestVerif_C10(t *testing.T) {
	rec := kit.Start("C10", "exploration", "namespace lattice: 1-3 slices x default slice {present,last,empty,unknown,case-variant} x 0-3 rules of every type (hash, mod, range, date_year/month/day, mycat_mod/long/string/murmur/padding_mod, global, linked, default, unknown) with locations from {-1,0,1,2,3}^<=3, slice lists {matching,shorter,longer,unknown,repeated}, database lists {matching,fewer,more,empty,range,bad range}, date ranges {single,span,descending,overlapping,touching (end of one == start of the next),overlapping by an inner period,repeated single period,single then span from it,reversed+touching,wrong length,bad month,non-numeric,empty}, partition/murmur/padding parameters {valid and invalid variants}, table/parent names in varying case; thorough enumerates the sub-lattices E0-E5 and adds random multi-axis draws, quick strides through the same enumeration plus random draws; non-trivial = distinct structural descriptors of configurations that Verify() accepted")
	rec.Assume("loading by a proxy is represented by router.NewRouter on a namespace built from the same specification (what proxy/server/namespace.go calls after decoding the stored JSON)")
	rec.Assume("a KeyError panic of a shard function is its designed rejection of a key; runtime-error panics and indexes outside the sub-table list refute clause (c); clause (c) is evaluated on a fixed grid of 27 integers and 16 strings")
	rec.Assume("a configuration on which Verify() itself panics counts as not accepted (reported in coverage as verify_panics)")
	defer rec.Finish(t)

	sigCache := map[string]string{}
	runOne := func(sp c10Spec) {
		accepted, vpan, _, fs := c10Check(sp)
		rec.Eval(1)
		switch {
		case vpan != nil:
			rec.Count("verify.panicked", 1)
		case accepted:
			rec.Count("verify.accepted", 1)
		default:
			rec.Count("verify.rejected", 1)
		}
		if !accepted {
			return
		}
		desc := c10Describe(sp)
		rec.Nontrivial(desc)
		if len(fs) == 0 {
			rec.Count("accepted.loaded-and-unambiguous", 1)
			if len(sp.Rules) > 0 {
				rec.Sample(map[string]interface{}{"spec": sp, "verify": "ok", "newrouter": "ok"})
			}
			return
		}
		for _, f := range fs {
			rec.Count("refuted."+f.Clause, 1)
			ck := f.Clause + "|" + f.KeyCls + "|" + desc
			sig, ok := sigCache[ck]
			var min c10Spec
			if !ok {
				min = c10Shrink(sp, f.Clause, f.KeyCls)
				sig = f.Clause
				if f.KeyCls != "" {
					sig += "/" + f.KeyCls
				}
				sig += "/" + c10Describe(min)
				sigCache[ck] = sig
			}
			if ok {
				rec.Violation(sig, f.Detail, sp) // already reported once with its minimal witness; counted
				continue
			}
			_, _, _, mfs := c10Check(min)
			detail := f.Detail
			for _, mf := range mfs {
				if mf.Clause == f.Clause && mf.KeyCls == f.KeyCls {
					detail = mf.Detail
				}
			}
			nsj, _ := json.Marshal(c10BuildNS(min).ShardRules)
			rec.Violation(sig, fmt.Sprintf("Verify()==nil but %s; minimal configuration: slices=%d default_slice=%s shard_rules=%s", detail, min.NSlices, min.Default, c10Compact(string(nsj))), min)
		}
	}

	if p := kit.ReplayPath(); p != "" {
		var sp c10Spec
		if err := kit.LoadReplay(p, &sp); err != nil {
			t.Fatal(err)
		}
		runOne(sp)
		return
	}

	stride := kit.N(23, 1)
	total := c10Enumerate(stride, runOne)
	rec.Set("enumerated_lattice_size", total)
	rec.Set("enumeration_stride", stride)
	r := kit.SubRand(kit.Seed(), "C10/random")
	for i, n := 0, kit.N(8000, 1000000); i < n; i++ {
		runOne(c10RandSpec(r))
	}
}
