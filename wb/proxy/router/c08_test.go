package router

// C08 — Mycat-compatible rules place keys exactly where Mycat does.
// Monitor: real rules are built with parseRule from models.Shard configurations drawn from
// the valid Mycat parameter space; Rule.FindTableIndex (and the physical database name of
// the returned index) is compared, key by key, with the independent Java-semantics
// reference of c08_ref_test.go. The reference is first validated against the
// Mycat-derived constants of /repo/proxy/router/shard_mycat_test.go (read from the file at
// run time plus an embedded subset); if it disagrees with them the run is inconclusive.

import (
	"fmt"
	"io/ioutil"
	"math"
	"os"
	"path/filepath"
	"regexp"
	"runtime"
	"strconv"
	"strings"
	"testing"

	"github.com/XiaoMi/Gaea/models"
	kit "github.com/XiaoMi/Gaea/verifkit"
)

type c08Cfg struct {
	Type            string   `json:"type"`
	Locations       []int    `json:"locations"`
	Slices          []string `json:"slices"`
	Databases       []string `json:"databases"`
	PartitionCount  string   `json:"partition_count,omitempty"`
	PartitionLength string   `json:"partition_length,omitempty"`
	HashSlice       string   `json:"hash_slice,omitempty"`
	Seed            string   `json:"seed,omitempty"`
	VBT             string   `json:"virtual_bucket_times,omitempty"`
}

type c08Case struct {
	Cfg     c08Cfg `json:"cfg"`
	KeyKind string `json:"key_kind"` // string | bytes | int64 | int | uint64
	KeyText string `json:"key_text"` // the key (decimal text for the integer kinds)
}

// c08Built is one configuration loaded into the real code and into the reference.
type c08Built struct {
	cfg   c08Cfg
	rule  *BaseRule
	count int
	dbs   []string
	// reference state
	seg             []int
	sliceStart      int
	sliceEnd        int
	ring            *c08RefRing
	sliceRelative   bool
	refErr, gaeaErr error
	gaeaPanic       interface{}
}

func c08ExpandDBs(dbs []string) []string {
	// own expansion of the "prefix[lo-hi]" notation
	re := regexp.MustCompile(`^(\S+?)\[(\d+)-(\d+)\]$`)
	var out []string
	for _, d := range dbs {
		m := re.FindStringSubmatch(d)
		if m == nil {
			out = append(out, d)
			continue
		}
		lo, _ := strconv.Atoi(m[2])
		hi, _ := strconv.Atoi(m[3])
		for i := lo; i <= hi; i++ {
			out = append(out, m[1]+strconv.Itoa(i))
		}
	}
	return out
}

func c08Build(cfg c08Cfg) *c08Built {
	b := &c08Built{cfg: cfg}
	for _, l := range cfg.Locations {
		b.count += l
	}
	b.dbs = c08ExpandDBs(cfg.Databases)
	// reference side
	switch cfg.Type {
	case models.ShardMycatLong, models.ShardMycatString:
		cnt, e1 := c08RefIntArray(cfg.PartitionCount)
		ln, e2 := c08RefIntArray(cfg.PartitionLength)
		if e1 != nil || e2 != nil {
			b.refErr = fmt.Errorf("bad partition arrays: %v %v", e1, e2)
			break
		}
		b.seg, b.refErr = c08RefSegments(cnt, ln)
		if b.refErr == nil && cfg.Type == models.ShardMycatString {
			b.sliceStart, b.sliceEnd, b.refErr = c08RefSlicing(cfg.HashSlice)
			b.sliceRelative = b.sliceStart < 0 || b.sliceEnd <= 0
		}
	case models.ShardMycatMURMUR:
		seed, e := strconv.ParseInt(cfg.Seed, 10, 32)
		vbt := int64(160)
		var e2 error
		if cfg.VBT != "" {
			vbt, e2 = strconv.ParseInt(cfg.VBT, 10, 32)
		}
		if e != nil || e2 != nil {
			b.refErr = fmt.Errorf("bad murmur parameters: %v %v", e, e2)
			break
		}
		b.ring = c08NewRefRing(int32(seed), b.count, int(vbt))
	}
	// real side
	func() {
		defer func() {
			if p := recover(); p != nil {
				b.gaeaPanic = p
			}
		}()
		b.rule, b.gaeaErr = parseRule(&models.Shard{DB: "db_logic", Table: "T_c08", Key: "ID", Type: cfg.Type,
			Locations: cfg.Locations, Slices: cfg.Slices, Databases: cfg.Databases,
			PartitionCount: cfg.PartitionCount, PartitionLength: cfg.PartitionLength, HashSlice: cfg.HashSlice,
			Seed: cfg.Seed, VirtualBucketTimes: cfg.VBT})
	}()
	return b
}

func (b *c08Built) ref(javaKey string) (int, bool) {
	switch b.cfg.Type {
	case models.ShardMycatMod:
		return c08RefMod(b.count, javaKey)
	case models.ShardMycatLong:
		return c08RefLong(b.seg, javaKey)
	case models.ShardMycatString:
		return c08RefString(b.seg, b.sliceStart, b.sliceEnd, javaKey), true
	case models.ShardMycatMURMUR:
		return b.ring.c08RefMurmur(javaKey)
	}
	return 0, false
}

func c08KeyValue(kind, text string) (interface{}, bool) {
	switch kind {
	case "string":
		return text, true
	case "bytes":
		return []byte(text), true
	case "int64":
		v, err := strconv.ParseInt(text, 10, 64)
		return v, err == nil
	case "int":
		v, err := strconv.ParseInt(text, 10, 64)
		return int(v), err == nil
	case "uint64":
		v, err := strconv.ParseUint(text, 10, 64)
		return v, err == nil && v <= math.MaxInt64
	}
	return nil, false
}

// c08Call runs the real Rule.FindTableIndex, converting panics into values.
func c08Call(rule Rule, key interface{}) (idx int, err error, pan interface{}) {
	defer func() {
		if p := recover(); p != nil {
			pan = p
		}
	}()
	idx, err = rule.FindTableIndex(key)
	return
}

func c08PanicClass(p interface{}) string {
	switch p.(type) {
	case KeyError:
		return "panic-keyerror"
	case runtime.Error:
		return "panic-runtime"
	}
	return "panic-other"
}

// c08Compare returns "" when the real code agrees with the reference, else the oracle clause.
// outcome is a label for coverage counting.
func c08Compare(b *c08Built, c c08Case) (clause, detail, outcome string, refIdx int) {
	key, ok := c08KeyValue(c.KeyKind, c.KeyText)
	if !ok {
		return "", "", "skipped-bad-key", -1
	}
	javaKey := c.KeyText
	if c.KeyKind != "string" && c.KeyKind != "bytes" {
		// Mycat receives the literal's text: canonical decimal for integer-typed keys
		if v, err := strconv.ParseInt(c.KeyText, 10, 64); err == nil {
			javaKey = strconv.FormatInt(v, 10)
		}
	}
	if _, digits, isDec := c08JavaParseDecimal(javaKey); isDec && b.cfg.Type == models.ShardMycatMod {
		if _, fits := c08JavaParseLong(javaKey); !fits && len(digits) > 0 {
			// BigInteger accepts it, but the quantifier is signed 64-bit integers
			return "", "", "skipped-beyond-int64", -1
		}
	}
	want, accepted := b.ref(javaKey)
	idx, err, pan := c08Call(b.rule, key)
	if !accepted {
		if pan != nil {
			if c08PanicClass(pan) == "panic-keyerror" {
				return "", "", "both-reject", -1
			}
			return c08PanicClass(pan), fmt.Sprintf("key rejected by Mycat, real code panicked: %v", pan), "reject-panic", -1
		}
		if err != nil {
			return "", "", "both-reject", -1
		}
		return "", "", "mycat-rejects-gaea-accepts", -1
	}
	if pan != nil {
		return c08PanicClass(pan), fmt.Sprintf("Mycat places the key in partition %d, real code panicked: %v", want, pan), "violation", want
	}
	if err != nil {
		return "error", fmt.Sprintf("Mycat places the key in partition %d, real code returned error: %v", want, err), "violation", want
	}
	if idx != want {
		return "mismatch", fmt.Sprintf("Mycat places the key in partition %d (%s), real code in %d", want, c08DBName(b.dbs, want), idx), "violation", want
	}
	// physical database of the index
	var db string
	var dbErr error
	func() {
		defer func() {
			if p := recover(); p != nil {
				dbErr = fmt.Errorf("panic: %v", p)
			}
		}()
		db, dbErr = b.rule.GetDatabaseNameByTableIndex(idx)
	}()
	if dbErr != nil || db != c08DBName(b.dbs, want) {
		return "db-mismatch", fmt.Sprintf("partition %d must be physical database %q, real code names %q (err %v)", want, c08DBName(b.dbs, want), db, dbErr), "violation", want
	}
	return "", "", "agree", want
}

func c08DBName(dbs []string, i int) string {
	if i < 0 || i >= len(dbs) {
		return "?"
	}
	return dbs[i]
}

// ---------------------------------------------------------------------------------------
// key classes, shrinking, signatures

func c08CharClass(s string) string {
	if s == "" {
		return "empty"
	}
	hasSupp, hasMulti := false, false
	for _, r := range s {
		if r >= 0x10000 {
			hasSupp = true
		} else if r >= 0x80 {
			hasMulti = true
		}
	}
	switch {
	case hasSupp:
		return "supplementary"
	case hasMulti:
		return "bmp-multibyte"
	}
	if _, ok := c08JavaParseLong(s); ok {
		return c08NumClass(s)
	}
	return "ascii"
}

func c08NumClass(text string) string {
	v, ok := c08JavaParseLong(text)
	if !ok {
		return "non-numeric"
	}
	switch {
	case v == math.MinInt64:
		return "int-min64"
	case v < 0:
		return "int-negative"
	}
	return "int-nonnegative"
}

func c08KeyClass(c c08Case) string {
	if c.KeyKind == "string" || c.KeyKind == "bytes" {
		return c08CharClass(c.KeyText)
	}
	return c08NumClass(c.KeyText)
}

// c08Shrink removes one character at a time while the same clause keeps failing.
func c08Shrink(b *c08Built, c c08Case, clause string) c08Case {
	if c.KeyKind != "string" && c.KeyKind != "bytes" {
		return c
	}
	if _, numeric := c08JavaParseLong(c.KeyText); numeric {
		return c
	}
	cur := c
	for changed := true; changed; {
		changed = false
		rs := []rune(cur.KeyText)
		for i := 0; i < len(rs); i++ {
			cand := cur
			cand.KeyText = string(rs[:i]) + string(rs[i+1:])
			if cl, _, _, _ := c08Compare(b, cand); cl == clause {
				cur = cand
				changed = true
				break
			}
		}
	}
	return cur
}

func c08Signature(b *c08Built, c c08Case, clause string) string {
	sig := b.cfg.Type + "/" + clause + "/key=" + c08KeyClass(c)
	if b.cfg.Type == models.ShardMycatString {
		if b.sliceRelative {
			sig += "/slice=relative"
		} else {
			sig += "/slice=absolute"
		}
	}
	return sig
}

// ---------------------------------------------------------------------------------------
// generators

var c08SliceNames = []string{"slice-0", "slice-1", "slice-2"}

func c08SplitCount(r *kit.Rand, count int) ([]int, []string) {
	n := r.Range(1, 3)
	if n > count {
		n = count
	}
	locs := make([]int, n)
	for i := range locs {
		locs[i] = 1
	}
	for k := count - n; k > 0; k-- {
		locs[r.Intn(n)]++
	}
	return locs, append([]string{}, c08SliceNames[:n]...)
}

func c08GenDatabases(r *kit.Rand, count int) []string {
	switch {
	case count >= 2 && r.Chance(1, 3):
		lo := r.Intn(3)
		return []string{fmt.Sprintf("db_mycat_[%d-%d]", lo, lo+count-1)}
	case count >= 3 && r.Chance(1, 4):
		return []string{"db_first", fmt.Sprintf("db_m[1-%d]", count-1)}
	}
	out := make([]string, count)
	for i := range out {
		out[i] = fmt.Sprintf("db_mycat_%d", i)
	}
	return out
}

func c08Divisors(n, max int) []int {
	var d []int
	for i := 1; i <= max && i <= n; i++ {
		if n%i == 0 {
			d = append(d, i)
		}
	}
	return d
}

// c08GenPartition draws count/length vectors with sum(count[i]*length[i]) == 1024.
func c08GenPartition(r *kit.Rand) (count, length []int) {
	for {
		k := r.Range(1, 4)
		cuts := map[int]bool{}
		for len(cuts) < k-1 {
			if r.Chance(2, 3) {
				cuts[64*r.Range(1, 15)] = true
			} else {
				cuts[r.Range(1, 1023)] = true
			}
		}
		prev, total := 0, 0
		count, length = nil, nil
		for p := 1; p <= 1024; p++ {
			if cuts[p] || p == 1024 {
				part := p - prev
				prev = p
				ds := c08Divisors(part, 16)
				c := ds[r.Intn(len(ds))]
				count = append(count, c)
				length = append(length, part/c)
				total += c
			}
		}
		limit := 16
		if r.Chance(1, 8) {
			limit = 64
		}
		if total <= limit {
			return
		}
	}
}

func c08JoinInts(r *kit.Rand, v []int) string {
	parts := make([]string, len(v))
	for i, x := range v {
		parts[i] = strconv.Itoa(x)
	}
	if r.Chance(1, 5) {
		return strings.Join(parts, ", ")
	}
	return strings.Join(parts, ",")
}

var c08SliceBounds = []int{0, 1, 2, 3, 4, 5, 8, 16, 31, 32, 100, 1000, 2147483647, -1, -2, -3, -4, -5, -8, -16, -100, -1000, -2147483648}

func c08GenHashSlice(r *kit.Rand) string {
	b := func() string { return strconv.Itoa(c08SliceBounds[r.Intn(len(c08SliceBounds))]) }
	switch r.Intn(7) {
	case 0:
		return b()
	case 1:
		return strconv.Itoa(r.Range(0, 12))
	case 2:
		return strconv.Itoa(-r.Range(1, 12))
	case 3:
		return b() + ":" + b()
	case 4:
		return b() + ":"
	case 5:
		return ":" + b()
	}
	return ":"
}

func c08GenCfg(r *kit.Rand, typ string) c08Cfg {
	cfg := c08Cfg{Type: typ}
	count := r.Range(1, 16)
	switch typ {
	case models.ShardMycatLong, models.ShardMycatString:
		cnt, ln := c08GenPartition(r)
		count = 0
		for _, c := range cnt {
			count += c
		}
		cfg.PartitionCount = c08JoinInts(r, cnt)
		cfg.PartitionLength = c08JoinInts(r, ln)
		if typ == models.ShardMycatString {
			cfg.HashSlice = c08GenHashSlice(r)
		}
	case models.ShardMycatMURMUR:
		seeds := []string{"0", "1", "-1", "2147483647", "-2147483648", strconv.Itoa(int(int32(r.Uint64())))}
		cfg.Seed = seeds[r.Intn(len(seeds))]
		cfg.VBT = r.Pick([]string{"1", "16", "160", "160", "", "3"})
	}
	cfg.Locations, cfg.Slices = c08SplitCount(r, count)
	cfg.Databases = c08GenDatabases(r, count)
	return cfg
}

var c08SpecialInts = []int64{math.MinInt64, math.MinInt64 + 1, -1 << 62, -1<<32 - 1, -1 << 32, -1<<31 - 1, -1 << 31, -1025, -1024, -1023, -3, -2, -1,
	0, 1, 2, 3, 1023, 1024, 1025, 1<<31 - 1, 1 << 31, 1<<32 - 1, 1 << 32, 1 << 53, 1 << 62, math.MaxInt64 - 1, math.MaxInt64}

func c08GenInt(r *kit.Rand) int64 {
	switch r.Intn(6) {
	case 0:
		return c08SpecialInts[r.Intn(len(c08SpecialInts))]
	case 1:
		return c08SpecialInts[r.Intn(len(c08SpecialInts))] + int64(r.Range(-2, 2))*int64(r.Intn(2))
	case 2:
		return int64(r.Range(-5000, 5000))
	case 3:
		return -r.Int63()
	case 4:
		return int64(r.Uint64() >> uint(r.Intn(64)))
	}
	return r.Int63()
}

func c08RandRune(r *kit.Rand, class int) rune {
	switch class {
	case 0: // ASCII printable
		return rune(r.Range(0x20, 0x7e))
	case 1: // two-byte UTF-8
		return rune(r.Range(0xa1, 0x7ff))
	case 2: // CJK unified ideographs
		return rune(r.Range(0x4e00, 0x9fff))
	case 3: // top of the BMP (three-byte UTF-8, above the surrogate block)
		return rune(r.Range(0xe000, 0xfffd))
	case 4: // emoji
		return rune(r.Range(0x1f600, 0x1f64f))
	}
	return rune(r.Range(0x10000, 0x10ffff)) // any supplementary plane
}

func c08GenString(r *kit.Rand) string {
	n := r.Range(0, 24)
	if r.Chance(1, 10) {
		n = r.Range(25, 80)
	}
	mode := r.Intn(8) // 0..5 pure class, 6,7 mixed
	var sb strings.Builder
	for i := 0; i < n; i++ {
		cl := mode
		if mode >= 6 {
			cl = r.Intn(6)
			if r.Chance(1, 2) {
				cl = 0
			}
		}
		sb.WriteRune(c08RandRune(r, cl))
	}
	return sb.String()
}

func c08GenKey(r *kit.Rand, typ string) (kind, text string) {
	numericShare := 40
	if typ == models.ShardMycatMod || typ == models.ShardMycatLong {
		numericShare = 88
	}
	if r.Intn(100) < numericShare {
		v := c08GenInt(r)
		text = strconv.FormatInt(v, 10)
		kinds := []string{"string", "string", "int64", "int", "bytes"}
		if v >= 0 {
			kinds = append(kinds, "uint64")
		}
		kind = kinds[r.Intn(len(kinds))]
		if (kind == "string" || kind == "bytes") && r.Chance(1, 12) {
			// spellings Java accepts as well: explicit plus sign, leading zeros
			if v >= 0 && r.Bool() {
				text = "+" + text
			} else if v >= 0 {
				text = "00" + text
			} else {
				text = "-0" + text[1:]
			}
		}
		return
	}
	kind = "string"
	if r.Chance(1, 6) {
		kind = "bytes"
	}
	if (typ == models.ShardMycatMod || typ == models.ShardMycatLong) && r.Chance(1, 2) {
		// near-numeric text that both sides must reject
		bad := []string{"", " 5", "5 ", "1.0", "1e3", "0x10", "12a", "--1", "+-1", "１２", "9223372036854775808", "-9223372036854775809", "1_000"}
		return kind, bad[r.Intn(len(bad))]
	}
	return kind, c08GenString(r)
}

// ---------------------------------------------------------------------------------------
// validation of the reference against the Mycat-derived constants in Gaea's own test file

type c08Const struct {
	fn     string
	cfg    c08Cfg
	key    string
	expect int
}

func c08ConstCfgs() map[string]c08Cfg {
	long := func(n int, c, l string) c08Cfg {
		return c08Cfg{Type: models.ShardMycatLong, Locations: []int{n}, PartitionCount: c, PartitionLength: l}
	}
	mm := func(seed string, n int) c08Cfg {
		return c08Cfg{Type: models.ShardMycatMURMUR, Locations: []int{n}, Seed: seed, VBT: "160"}
	}
	return map[string]c08Cfg{
		"Test_MycatPartitionLongShard_FindForKey_BalanceLength_1":  long(4, "4", "256"),
		"Test_MycatPartitionLongShard_FindForKey_BalanceLength_2":  long(4, "2,2", "256,256"),
		"Test_MycatPartitionLongShard_FindForKey_InalanceLength_3": long(6, "1,1,4", "512,256,64"),
		"Test_MycatPartitionMurmurHashShard_Seed0_Count1":          mm("0", 1),
		"Test_MycatPartitionMurmurHashShard_Seed0_Count2":          mm("0", 2),
		"Test_MycatPartitionMurmurHashShard_IntKey_Seed0_Count2":   mm("0", 2),
		"Test_MycatPartitionMurmurHashShard_Seed1_Count4":          mm("1", 4),
		"Test_MycatPartitionStringShard_32": {Type: models.ShardMycatString, Locations: []int{64},
			PartitionCount: "64", PartitionLength: "16", HashSlice: "32"},
	}
}

func c08EmbeddedConsts() []c08Const {
	cf := c08ConstCfgs()
	mod := func(n int) c08Cfg { return c08Cfg{Type: models.ShardMycatMod, Locations: []int{n}} }
	s32 := cf["Test_MycatPartitionStringShard_32"]
	m14 := cf["Test_MycatPartitionMurmurHashShard_Seed1_Count4"]
	m02 := cf["Test_MycatPartitionMurmurHashShard_Seed0_Count2"]
	l3 := cf["Test_MycatPartitionLongShard_FindForKey_InalanceLength_3"]
	return []c08Const{
		{"embedded", mod(3), "-4", 1}, {"embedded", mod(3), "-2", 2}, {"embedded", mod(2), "-1", 1}, {"embedded", mod(3), "4", 1},
		{"embedded", l3, "-1", 5}, {"embedded", l3, "512", 1}, {"embedded", l3, "768", 2}, {"embedded", l3, "9223372036854775807", 5},
		{"embedded", l3, "-9223372036854775808", 0},
		{"embedded", s32, "hello, world", 24}, {"embedded", s32, "你好, 中国", 40}, {"embedded", s32, "?!)_FFSD", 58},
		{"embedded", s32, "ddda;kjelwr", 63}, {"embedded", s32, "-120123012", 4}, {"embedded", s32, "-9", 26}, {"embedded", s32, "10", 33},
		{"embedded", m14, "", 2}, {"embedded", m14, "hello, world", 1}, {"embedded", m14, "你好, 中国", 0}, {"embedded", m14, "?!)_FFSD", 1},
		{"embedded", m14, "-50", 1}, {"embedded", m14, "-49", 0}, {"embedded", m14, "-47", 2}, {"embedded", m14, "-46", 3},
		{"embedded", m02, "?!)_FFSD", 1}, {"embedded", m02, "", 0},
	}
}

var c08RowRe = regexp.MustCompile(`^\s*\{(.+),\s*(-?\d+)\},?\s*$`)
var c08ModRowRe = regexp.MustCompile(`^\s*\{(\d+),\s*(-?\d+),\s*(\d+),\s*nil\},?\s*$`)
var c08FuncRe = regexp.MustCompile(`^func (Test\w+)\(`)

func c08ParseKeyExpr(e string) (string, bool) {
	e = strings.TrimSpace(e)
	for _, w := range []string{"uint64(", "int64(", "[]byte("} {
		if strings.HasPrefix(e, w) && strings.HasSuffix(e, ")") {
			e = e[len(w) : len(e)-1]
			break
		}
	}
	if strings.HasPrefix(e, `"`) {
		s, err := strconv.Unquote(e)
		return s, err == nil
	}
	if _, err := strconv.ParseInt(e, 10, 64); err == nil {
		return e, true
	}
	return "", false
}

func c08RepoRoot() string {
	if d := os.Getenv("VERIF_REPO"); d != "" {
		return d
	}
	return "/repo"
}

func c08FileConsts() []c08Const {
	data, err := ioutil.ReadFile(filepath.Join(c08RepoRoot(), "proxy", "router", "shard_mycat_test.go"))
	if err != nil {
		return nil
	}
	cfgs := c08ConstCfgs()
	var out []c08Const
	fn := ""
	for _, line := range strings.Split(string(data), "\n") {
		if m := c08FuncRe.FindStringSubmatch(line); m != nil {
			fn = m[1]
			continue
		}
		if fn == "Test_MycatPartitionModShard_FindForKey" {
			if m := c08ModRowRe.FindStringSubmatch(line); m != nil {
				n, _ := strconv.Atoi(m[1])
				exp, _ := strconv.Atoi(m[3])
				out = append(out, c08Const{fn, c08Cfg{Type: models.ShardMycatMod, Locations: []int{n}}, m[2], exp})
			}
			continue
		}
		cfg, ok := cfgs[fn]
		if !ok {
			continue
		}
		if m := c08RowRe.FindStringSubmatch(line); m != nil {
			key, ok := c08ParseKeyExpr(m[1])
			if !ok {
				continue
			}
			exp, _ := strconv.Atoi(m[2])
			out = append(out, c08Const{fn, cfg, key, exp})
		}
	}
	return out
}

// c08ValidateReference returns the number of constants checked and the disagreements.
func c08ValidateReference() (checked int, fromFile int, bad []string) {
	fc := c08FileConsts()
	fromFile = len(fc)
	built := map[string]*c08Built{}
	for _, k := range append(c08EmbeddedConsts(), fc...) {
		id := fmt.Sprintf("%+v", k.cfg)
		b := built[id]
		if b == nil {
			cfg := k.cfg
			n := cfg.Locations[0]
			cfg.Slices = []string{"slice-0"}
			cfg.Databases = make([]string, n)
			for i := range cfg.Databases {
				cfg.Databases[i] = "d" + strconv.Itoa(i)
			}
			b = &c08Built{cfg: cfg, count: n}
			switch cfg.Type {
			case models.ShardMycatLong, models.ShardMycatString:
				cnt, _ := c08RefIntArray(cfg.PartitionCount)
				ln, _ := c08RefIntArray(cfg.PartitionLength)
				b.seg, b.refErr = c08RefSegments(cnt, ln)
				if cfg.Type == models.ShardMycatString {
					b.sliceStart, b.sliceEnd, _ = c08RefSlicing(cfg.HashSlice)
				}
			case models.ShardMycatMURMUR:
				seed, _ := strconv.Atoi(cfg.Seed)
				vbt, _ := strconv.Atoi(cfg.VBT)
				b.ring = c08NewRefRing(int32(seed), n, vbt)
			}
			built[id] = b
		}
		if b.refErr != nil {
			bad = append(bad, fmt.Sprintf("%s: reference rejects parameters %+v: %v", k.fn, k.cfg, b.refErr))
			continue
		}
		got, ok := b.ref(k.key)
		checked++
		if !ok || got != k.expect {
			bad = append(bad, fmt.Sprintf("%s key %q: constant %d, reference %d (accepted=%v)", k.fn, k.key, k.expect, got, ok))
		}
	}
	return
}

// ---------------------------------------------------------------------------------------

func TestVerif_C08(t *testing.T) {
	rec := kit.Start("C08", "exploration", "rules built by parseRule from drawn valid Mycat parameter sets (count/length vectors summing to 1024, hash slices n,-n,a:b,a:,:b,: with negative/oversized bounds, murmur seeds x virtual buckets, 1-16(64) databases over 1-3 slices) x keys (int64 extremes/neighbours as int64,int,uint64,text,bytes; ASCII, 2-byte, CJK, top-of-BMP and supplementary-plane strings); non-trivial = distinct (rule type, key class, key kind, partition count, partition chosen) of pairs the Mycat reference accepts")
	rec.Assume("the reference re-implementation of Mycat 1.6 (PartitionByMod/Long/String/MurmurHash, Guava murmur3_32.hashUnencodedChars) is trusted after it reproduced every Mycat-derived constant of proxy/router/shard_mycat_test.go")
	rec.Assume("keys are valid UTF-8; integer-typed keys reach Mycat as their canonical decimal text; unsigned keys above 2^63-1 and murmur weight files are outside the quantifier")
	defer rec.Finish(t)

	checked, fromFile, bad := c08ValidateReference()
	rec.Set("reference_constants_checked", checked)
	rec.Set("reference_constants_from_repo_file", fromFile)
	if len(bad) > 0 {
		rec.Set("reference_disagreements", bad)
		rec.Inconclusive(fmt.Sprintf("reference disagrees with %d Mycat-derived constant(s), e.g. %s", len(bad), bad[0]))
		return
	}
	if checked < 20 {
		rec.Inconclusive("fewer than 20 Mycat-derived constants available to validate the reference")
		return
	}

	runOne := func(b *c08Built, c c08Case) {
		clause, detail, outcome, want := c08Compare(b, c)
		rec.Eval(1)
		rec.Count("pairs."+b.cfg.Type, 1)
		rec.Count("outcome."+outcome, 1)
		if want >= 0 && b.count > 1 {
			rec.Nontrivial(fmt.Sprintf("%s|%s|%s|n=%d|p=%d", b.cfg.Type, c08KeyClass(c), c.KeyKind, b.count, want))
		}
		if clause == "" {
			if outcome == "agree" && b.count > 1 {
				rec.Sample(map[string]interface{}{"type": b.cfg.Type, "partitions": b.count, "partition_count": b.cfg.PartitionCount,
					"partition_length": b.cfg.PartitionLength, "hash_slice": b.cfg.HashSlice, "seed": b.cfg.Seed, "vbt": b.cfg.VBT,
					"key_kind": c.KeyKind, "key": c.KeyText, "partition": want, "database": c08DBName(b.dbs, want)})
			}
			return
		}
		min := c08Shrink(b, c, clause)
		_, mdetail, _, _ := c08Compare(b, min)
		if mdetail == "" {
			min, mdetail = c, detail
		}
		rec.Violation(c08Signature(b, min, clause),
			fmt.Sprintf("%s %s key(%s)=%q: %s", b.cfg.Type, c08CfgString(b.cfg), min.KeyKind, min.KeyText, mdetail), min)
	}

	if p := kit.ReplayPath(); p != "" {
		var c c08Case
		if err := kit.LoadReplay(p, &c); err != nil {
			t.Fatal(err)
		}
		b := c08Build(c.Cfg)
		if b.rule == nil {
			t.Fatalf("replay configuration does not load: %v %v", b.gaeaErr, b.gaeaPanic)
		}
		runOne(b, c)
		return
	}

	types := []string{models.ShardMycatMod, models.ShardMycatLong, models.ShardMycatString, models.ShardMycatMURMUR}
	cfgsPerType := kit.N(10, 250)
	keysPerCfg := kit.N(500, 3000)
	for _, typ := range types {
		rc := kit.SubRand(kit.Seed(), "C08/cfg/"+typ)
		rk := kit.SubRand(kit.Seed(), "C08/keys/"+typ)
		for ci := 0; ci < cfgsPerType; ci++ {
			cfg := c08GenCfg(rc, typ)
			b := c08Build(cfg)
			rec.Count("configs."+typ, 1)
			if b.refErr != nil {
				// generator bug: parameters are meant to be valid for Mycat
				rec.Inconclusive(fmt.Sprintf("generated parameters rejected by the reference: %+v: %v", cfg, b.refErr))
				return
			}
			if b.rule == nil || b.gaeaErr != nil || b.gaeaPanic != nil {
				clause := "load-error"
				if b.gaeaPanic != nil {
					clause = "load-panic"
				}
				rec.Eval(1)
				rec.Violation(typ+"/"+clause, fmt.Sprintf("parameters valid for Mycat are not loaded by parseRule: %s: err=%v panic=%v", c08CfgString(cfg), b.gaeaErr, b.gaeaPanic),
					c08Case{Cfg: cfg})
				continue
			}
			for ki := 0; ki < keysPerCfg; ki++ {
				kind, text := c08GenKey(rk, typ)
				runOne(b, c08Case{Cfg: cfg, KeyKind: kind, KeyText: text})
			}
		}
	}
}

func c08CfgString(c c08Cfg) string {
	s := fmt.Sprintf("locations=%v databases=%v", c.Locations, c.Databases)
	if c.PartitionCount != "" {
		s += fmt.Sprintf(" count=%q length=%q", c.PartitionCount, c.PartitionLength)
	}
	if c.Type == models.ShardMycatString {
		s += fmt.Sprintf(" hash_slice=%q", c.HashSlice)
	}
	if c.Type == models.ShardMycatMURMUR {
		s += fmt.Sprintf(" seed=%q vbt=%q", c.Seed, c.VBT)
	}
	return s
}
