package router

// C09 — range and calendar rules place each key in its configured interval.
// Monitor: real rules are built with parseRule from drawn range layouts and date_range
// lists; the loaded sub-table list / table->slice map and Rule.FindTableIndex are compared
// with interval arithmetic (range) and an independent proleptic-Gregorian calendar
// (year/month/day rules) evaluated in the proxy's time zone (time.Local is set by the
// harness to fixed-offset and, when the tz database is present, DST zones; only the UTC
// offset of an instant is taken from package time, never a calendar field).

import (
	"fmt"
	"math"
	"runtime"
	"strconv"
	"strings"
	"testing"
	"time"

	"github.com/XiaoMi/Gaea/models"
	kit "github.com/XiaoMi/Gaea/verifkit"
)

// ---------------------------------------------------------------------------------------
// independent calendar (days <-> civil date, Gregorian, proleptic)

func c09FloorDiv(a, b int64) int64 {
	q := a / b
	if (a%b != 0) && ((a < 0) != (b < 0)) {
		q--
	}
	return q
}

func c09DaysFromCivil(y int64, m, d int) int64 {
	if m <= 2 {
		y--
	}
	era := c09FloorDiv(y, 400)
	yoe := y - era*400
	mp := int64((m + 9) % 12)
	doy := (153*mp+2)/5 + int64(d) - 1
	doe := yoe*365 + yoe/4 - yoe/100 + doy
	return era*146097 + doe - 719468
}

func c09CivilFromDays(z int64) (y int64, m, d int) {
	z += 719468
	era := c09FloorDiv(z, 146097)
	doe := z - era*146097
	yoe := (doe - doe/1460 + doe/36524 - doe/146096) / 365
	y = yoe + era*400
	doy := doe - (365*yoe + yoe/4 - yoe/100)
	mp := (5*doy + 2) / 153
	d = int(doy - (153*mp+2)/5 + 1)
	if mp < 10 {
		m = int(mp + 3)
	} else {
		m = int(mp - 9)
	}
	if m <= 2 {
		y++
	}
	return
}

func c09Leap(y int64) bool { return y%4 == 0 && (y%100 != 0 || y%400 == 0) }

func c09DaysInMonth(y int64, m int) int {
	switch m {
	case 4, 6, 9, 11:
		return 30
	case 2:
		if c09Leap(y) {
			return 29
		}
		return 28
	}
	return 31
}

type c09Civil struct {
	Y          int64
	Mo, D      int
	H, Mi, Sec int
}

func c09CivilOf(ts int64, offset int64) c09Civil {
	local := ts + offset
	days := c09FloorDiv(local, 86400)
	rem := local - days*86400
	y, m, d := c09CivilFromDays(days)
	return c09Civil{y, m, d, int(rem / 3600), int(rem % 3600 / 60), int(rem % 60)}
}

func (c c09Civil) date() string { return fmt.Sprintf("%04d-%02d-%02d", c.Y, c.Mo, c.D) }
func (c c09Civil) datetime() string {
	return fmt.Sprintf("%04d-%02d-%02d %02d:%02d:%02d", c.Y, c.Mo, c.D, c.H, c.Mi, c.Sec)
}

// period index of the rule (the sub-table suffix): YYYY, YYYYMM, YYYYMMDD
func c09Period(rule string, y int64, m, d int) int {
	switch rule {
	case models.ShardYear:
		return int(y)
	case models.ShardMonth:
		return int(y)*100 + m
	}
	return int(y)*10000 + m*100 + d
}

// ---------------------------------------------------------------------------------------
// zones

type c09Zone struct {
	Name   string
	Fixed  bool
	Offset int // seconds east of UTC (fixed zones)
	loc    *time.Location
}

var c09ZoneCache []c09Zone

func c09Zones() []c09Zone {
	if c09ZoneCache != nil {
		return c09ZoneCache
	}
	zs := []c09Zone{{Name: "UTC", Fixed: true, Offset: 0}, {Name: "+08:00", Fixed: true, Offset: 8 * 3600}, {Name: "-05:00", Fixed: true, Offset: -5 * 3600},
		{Name: "+05:45", Fixed: true, Offset: 5*3600 + 45*60}, {Name: "-09:30", Fixed: true, Offset: -(9*3600 + 30*60)}, {Name: "+14:00", Fixed: true, Offset: 14 * 3600},
		{Name: "-12:00", Fixed: true, Offset: -12 * 3600}}
	for i := range zs {
		zs[i].loc = time.FixedZone(zs[i].Name, zs[i].Offset)
	}
	for _, n := range []string{"America/New_York", "Europe/London", "Australia/Lord_Howe", "Asia/Shanghai"} {
		if loc, err := time.LoadLocation(n); err == nil {
			zs = append(zs, c09Zone{Name: n, loc: loc})
		}
	}
	c09ZoneCache = zs
	return zs
}

func c09ZoneByName(name string) (c09Zone, bool) {
	for _, z := range c09Zones() {
		if z.Name == name {
			return z, true
		}
	}
	return c09Zone{}, false
}

// offsetAt: the only thing taken from package time is the UTC offset of an instant.
func (z c09Zone) offsetAt(ts int64) int64 {
	if z.Fixed {
		return int64(z.Offset)
	}
	_, off := time.Unix(ts, 0).In(z.loc).Zone()
	return int64(off)
}

// instantOf finds a timestamp whose civil reading in the zone is (close to) the given one.
func (z c09Zone) instantOf(y int64, m, d, h, mi, s int) int64 {
	naive := c09DaysFromCivil(y, m, d)*86400 + int64(h*3600+mi*60+s)
	ts := naive - z.offsetAt(naive)
	ts = naive - z.offsetAt(ts)
	return ts
}

// ---------------------------------------------------------------------------------------
// cases

type c09Cfg struct {
	Type          string   `json:"type"`
	Locations     []int    `json:"locations,omitempty"`
	Slices        []string `json:"slices"`
	TableRowLimit int      `json:"table_row_limit,omitempty"`
	DateRange     []string `json:"date_range,omitempty"`
	Zone          string   `json:"zone,omitempty"`
}

type c09Case struct {
	Cfg     c09Cfg `json:"cfg"`
	KeyKind string `json:"key_kind"` // string | bytes | int64 | int | uint64 | layout
	KeyText string `json:"key_text"`
	Origin  string `json:"origin"` // generator class of the key (position / mutation), informational
}

type c09Built struct {
	cfg      c09Cfg
	rule     *BaseRule
	zone     c09Zone
	list     []int       // oracle: expected sub-table list
	slice    map[int]int // oracle: expected table -> slice index
	inList   map[int]bool
	loadErr  error
	loadPan  interface{}
	oracleOK bool
}

// oracle enumeration of a date_range entry
func c09ParseDigits(s string, from, to int) (int, bool) {
	if from < 0 || to > len(s) || from >= to {
		return 0, false
	}
	v := 0
	for i := from; i < to; i++ {
		if s[i] < '0' || s[i] > '9' {
			return 0, false
		}
		v = v*10 + int(s[i]-'0')
	}
	return v, true
}

func c09EnumEntry(rule, entry string) ([]int, bool) {
	parts := strings.SplitN(entry, "-", 2)
	width := map[string]int{models.ShardYear: 4, models.ShardMonth: 6, models.ShardDay: 8}[rule]
	ord := func(p string) (int64, bool) {
		if len(p) != width {
			return 0, false
		}
		y, ok := c09ParseDigits(p, 0, 4)
		if !ok {
			return 0, false
		}
		switch rule {
		case models.ShardYear:
			return int64(y), true
		case models.ShardMonth:
			m, ok := c09ParseDigits(p, 4, 6)
			if !ok || m < 1 || m > 12 {
				return 0, false
			}
			return int64(y)*12 + int64(m-1), true
		}
		m, ok1 := c09ParseDigits(p, 4, 6)
		d, ok2 := c09ParseDigits(p, 6, 8)
		if !ok1 || !ok2 || m < 1 || m > 12 || d < 1 || d > c09DaysInMonth(int64(y), m) {
			return 0, false
		}
		return c09DaysFromCivil(int64(y), m, d), true
	}
	lo, ok := ord(parts[0])
	if !ok {
		return nil, false
	}
	hi := lo
	if len(parts) == 2 {
		if hi, ok = ord(parts[1]); !ok {
			return nil, false
		}
	}
	if hi < lo {
		lo, hi = hi, lo
	}
	var out []int
	for o := lo; o <= hi; o++ {
		switch rule {
		case models.ShardYear:
			out = append(out, int(o))
		case models.ShardMonth:
			out = append(out, int(o/12)*100+int(o%12)+1)
		default:
			y, m, d := c09CivilFromDays(o)
			out = append(out, c09Period(rule, y, m, d))
		}
	}
	return out, true
}

func c09Build(cfg c09Cfg) *c09Built {
	b := &c09Built{cfg: cfg, slice: map[int]int{}, inList: map[int]bool{}, oracleOK: true}
	if cfg.Type == models.ShardRange {
		n := 0
		for si, l := range cfg.Locations {
			for j := 0; j < l; j++ {
				b.list = append(b.list, n)
				b.slice[n] = si
				n++
			}
		}
	} else {
		z, ok := c09ZoneByName(cfg.Zone)
		if !ok {
			z, _ = c09ZoneByName("UTC")
		}
		b.zone = z
		for si, e := range cfg.DateRange {
			ps, ok := c09EnumEntry(cfg.Type, e)
			if !ok {
				b.oracleOK = false
				break
			}
			for _, p := range ps {
				b.list = append(b.list, p)
				b.slice[p] = si
			}
		}
	}
	for _, p := range b.list {
		b.inList[p] = true
	}
	func() {
		defer func() {
			if p := recover(); p != nil {
				b.loadPan = p
			}
		}()
		b.rule, b.loadErr = parseRule(&models.Shard{DB: "db_c09", Table: "T_c09", Key: "k", Type: cfg.Type,
			Locations: cfg.Locations, Slices: cfg.Slices, TableRowLimit: cfg.TableRowLimit, DateRange: cfg.DateRange})
	}()
	return b
}

// layout compares what parseRule loaded with the oracle's enumeration.
func (b *c09Built) layout() string {
	got := b.rule.GetSubTableIndexes()
	if len(got) != len(b.list) {
		return fmt.Sprintf("sub-table list has %d entries, expected %d (%v vs %v)", len(got), len(b.list), c09Head(got), c09Head(b.list))
	}
	for i := range got {
		if got[i] != b.list[i] {
			return fmt.Sprintf("sub-table list differs at position %d: %d, expected %d", i, got[i], b.list[i])
		}
		if s := b.rule.GetSliceIndexFromTableIndex(got[i]); s != b.slice[got[i]] {
			return fmt.Sprintf("table %d belongs to slice index %d, expected %d", got[i], s, b.slice[got[i]])
		}
	}
	if b.cfg.Type == models.ShardRange {
		rs, ok := b.rule.GetShard().(*NumRangeShard)
		if !ok || len(rs.Shards) != len(b.list) {
			return "range shard does not have one interval per table"
		}
	}
	return ""
}

func c09Head(v []int) []int {
	if len(v) > 8 {
		return v[:8]
	}
	return v
}

// expectation of the oracle for one key
type c09Expect struct {
	Mode string // exact | either | reject
	P    int
}

func c09KeyValue(kind, text string) (interface{}, bool) {
	switch kind {
	case "string":
		return text, true
	case "bytes":
		return []byte(text), true
	case "int64":
		v, err := strconv.ParseInt(text, 10, 64)
		return v, err == nil
	case "int":
		v, err := strconv.ParseInt(text, 10, 64)
		return int(v), err == nil
	case "uint64":
		v, err := strconv.ParseUint(text, 10, 64)
		return v, err == nil
	}
	return nil, false
}

// c09ExpectRange: table = floor(key/limit) when 0 <= key < tables*limit, else rejected.
func (b *c09Built) expectRange(kind, text string) c09Expect {
	var v int64
	switch kind {
	case "uint64":
		u, _ := strconv.ParseUint(text, 10, 64)
		if u > math.MaxInt64 {
			return c09Expect{Mode: "reject"}
		}
		v = int64(u)
	case "string", "bytes":
		// numeric strings: optional sign and decimal digits denoting a 64-bit integer
		p, err := strconv.ParseInt(text, 10, 64)
		if err != nil || strings.ContainsAny(text, "_") {
			return c09Expect{Mode: "reject"}
		}
		v = p
	default:
		v, _ = strconv.ParseInt(text, 10, 64)
	}
	limit := int64(b.cfg.TableRowLimit)
	if v < 0 || limit <= 0 {
		return c09Expect{Mode: "reject"}
	}
	t := v / limit
	if t >= int64(len(b.list)) {
		return c09Expect{Mode: "reject"}
	}
	return c09Expect{Mode: "exact", P: int(t)}
}

// c09ClassifyDateString: see the comment in expectDate.
func c09ClassifyDateString(rule, s string) c09Expect {
	y, okY := c09ParseDigits(s, 0, 4)
	mo, okM := c09ParseDigits(s, 5, 7)
	okM = okM && mo >= 1 && mo <= 12
	d, okD := c09ParseDigits(s, 8, 10)
	okD = okD && okY && okM && d >= 1 && d <= c09DaysInMonth(int64(y), mo)
	well := false
	if okY && okM && okD && len(s) >= 10 && s[4] == '-' && s[7] == '-' {
		if len(s) == 10 {
			well = true
		} else if len(s) == 19 && s[10] == ' ' && s[13] == ':' && s[16] == ':' {
			h, o1 := c09ParseDigits(s, 11, 13)
			mi, o2 := c09ParseDigits(s, 14, 16)
			se, o3 := c09ParseDigits(s, 17, 19)
			well = o1 && o2 && o3 && h < 24 && mi < 60 && se < 60
		}
	}
	need := okY
	if rule == models.ShardMonth {
		need = okY && okM
	} else if rule == models.ShardDay {
		need = okY && okM && okD
	}
	switch {
	case well:
		return c09Expect{Mode: "exact", P: c09Period(rule, int64(y), mo, d)}
	case need:
		return c09Expect{Mode: "either", P: c09Period(rule, int64(y), mo, d)}
	}
	return c09Expect{Mode: "reject"}
}

// expectDate:
//   - integer keys are unix timestamps read in the proxy's zone: the table of their period;
//   - 'YYYY-MM-DD' and 'YYYY-MM-DD hh:mm:ss' with valid calendar fields: the table of their period;
//   - any other string is malformed. If the fields the rule needs (year; year+month;
//     year+month+day) are absent, non-numeric or outside the calendar it must be rejected;
//     if they are readable at the canonical offsets (e.g. a truncated time part) the key may
//     be rejected or placed by those fields, but never anywhere else.
func (b *c09Built) expectDate(kind, text string) c09Expect {
	if kind == "string" || kind == "bytes" {
		return c09ClassifyDateString(b.cfg.Type, text)
	}
	var ts int64
	if kind == "uint64" {
		u, _ := strconv.ParseUint(text, 10, 64)
		if u > math.MaxInt64 {
			return c09Expect{Mode: "reject"}
		}
		ts = int64(u)
	} else {
		ts, _ = strconv.ParseInt(text, 10, 64)
	}
	if ts > math.MaxInt64/2 || ts < math.MinInt64/2 {
		return c09Expect{Mode: "reject"} // far outside any configurable period
	}
	c := c09CivilOf(ts, b.zone.offsetAt(ts))
	if c.Y < 0 || c.Y > 9999 {
		return c09Expect{Mode: "reject"}
	}
	return c09Expect{Mode: "exact", P: c09Period(b.cfg.Type, c.Y, c.Mo, c.D)}
}

func c09IsInt(c c09Case) bool {
	if c.KeyKind == "string" || c.KeyKind == "bytes" {
		_, err := strconv.ParseInt(c.KeyText, 10, 64)
		return err == nil
	}
	return true
}

func c09PanicClass(p interface{}) string {
	switch p.(type) {
	case KeyError:
		return "panic-keyerror"
	case runtime.Error:
		return "panic-runtime"
	}
	return "panic-other"
}

// c09Judge runs the real FindTableIndex and applies the oracle. clause "" = property held.
func c09Judge(b *c09Built, c c09Case) (clause, detail, outcome string, exp c09Expect) {
	key, ok := c09KeyValue(c.KeyKind, c.KeyText)
	if !ok {
		return "", "", "skipped-bad-key", exp
	}
	isRange := b.cfg.Type == models.ShardRange
	if isRange {
		exp = b.expectRange(c.KeyKind, c.KeyText)
	} else {
		exp = b.expectDate(c.KeyKind, c.KeyText)
	}
	var idx int
	var err error
	var pan interface{}
	func() {
		defer func() {
			if p := recover(); p != nil {
				pan = p
			}
		}()
		idx, err = b.rule.FindTableIndex(key)
	}()
	if pan != nil && c09PanicClass(pan) != "panic-keyerror" {
		return c09PanicClass(pan), fmt.Sprintf("FindTableIndex panicked instead of returning an error: %v", pan), "panic", exp
	}
	rejected := err != nil || pan != nil
	listed := !rejected && b.inList[idx]
	wantListed := exp.Mode != "reject" && b.inList[exp.P]
	switch {
	case exp.Mode == "exact" && wantListed:
		if rejected {
			return "rejected-valid", fmt.Sprintf("key of configured table %d was rejected: err=%v panic=%v", exp.P, err, pan), "violation", exp
		}
		if idx != exp.P {
			return "misplaced", fmt.Sprintf("key belongs to table %d, FindTableIndex returned %d", exp.P, idx), "violation", exp
		}
		return "", "", "placed", exp
	case exp.Mode == "either" && wantListed:
		if rejected || !listed {
			return "", "", "malformed-rejected", exp
		}
		if idx != exp.P {
			return "misplaced", fmt.Sprintf("malformed key whose date fields read table %d was placed in table %d", exp.P, idx), "violation", exp
		}
		return "", "", "malformed-placed-by-fields", exp
	default: // nothing configured holds this key: it must not land in a configured table
		if rejected {
			if exp.Mode == "exact" || (isRange && c09IsInt(c)) {
				return "", "", "outside-rejected", exp
			}
			return "", "", "malformed-rejected", exp
		}
		if listed {
			cl := "outside-placed"
			if exp.Mode != "exact" && !(isRange && c09IsInt(c)) {
				cl = "malformed-placed"
			}
			return cl, fmt.Sprintf("key that belongs to no configured table was placed in table %d", idx), "violation", exp
		}
		if isRange {
			return "outside-accepted", fmt.Sprintf("range key outside every interval was not rejected (index %d, no error)", idx), "violation", exp
		}
		if exp.Mode == "exact" {
			return "", "", "outside-unlisted-index", exp
		}
		return "", "", "malformed-unlisted-index", exp
	}
}

// ---------------------------------------------------------------------------------------
// shapes, shrinking, signatures

func c09LenBucket(n int) string {
	switch {
	case n == 0:
		return "0"
	case n <= 3:
		return "1-3"
	case n <= 6:
		return "4-6"
	case n <= 9:
		return "7-9"
	case n == 10:
		return "10"
	case n <= 18:
		return "11-18"
	case n == 19:
		return "19"
	}
	return ">19"
}

// c09Shape is the structural class of a key relative to the configuration.
func c09Shape(b *c09Built, c c09Case, exp c09Expect) string {
	isStr := c.KeyKind == "string" || c.KeyKind == "bytes"
	if b.cfg.Type == models.ShardRange {
		if exp.Mode == "reject" {
			if isStr {
				if _, err := strconv.ParseInt(c.KeyText, 10, 64); err != nil {
					return "text-not-integer"
				}
			}
			return "outside-every-interval"
		}
		v, _ := strconv.ParseInt(strings.TrimPrefix(c.KeyText, "+"), 10, 64)
		lim := int64(b.cfg.TableRowLimit)
		pos := "interior"
		if lim == 1 {
			pos = "single-row-table"
		} else if v%lim == 0 {
			pos = "first-of-table"
		} else if v%lim == lim-1 {
			pos = "last-of-table"
		}
		return "in-interval/" + pos
	}
	if isStr {
		switch exp.Mode {
		case "exact":
			return "wellformed/len=" + c09LenBucket(len(c.KeyText))
		case "either":
			return "malformed/fields-readable/len=" + c09LenBucket(len(c.KeyText))
		}
		return "malformed/fields-unreadable/len=" + c09LenBucket(len(c.KeyText))
	}
	if exp.Mode == "reject" {
		return "timestamp/out-of-calendar"
	}
	if b.inList[exp.P] {
		return "timestamp/in-list"
	}
	return "timestamp/not-in-list"
}

// c09Shrink truncates a malformed string from the right while the same clause persists.
func c09Shrink(b *c09Built, c c09Case, clause string, exp c09Expect) c09Case {
	if (c.KeyKind != "string" && c.KeyKind != "bytes") || exp.Mode == "exact" || b.cfg.Type == models.ShardRange {
		return c
	}
	cur := c
	for len(cur.KeyText) > 0 {
		cand := cur
		cand.KeyText = cur.KeyText[:len(cur.KeyText)-1]
		cl, _, _, e2 := c09Judge(b, cand)
		if cl != clause || e2.Mode == "exact" {
			break
		}
		cur = cand
	}
	return cur
}

// ---------------------------------------------------------------------------------------
// generators

var c09SliceNames = []string{"slice-0", "slice-1", "slice-2"}

func c09GenRangeCfg(r *kit.Rand) c09Cfg {
	n := r.Range(1, 3)
	locs := make([]int, n)
	for i := range locs {
		locs[i] = r.Range(1, 4)
	}
	if r.Chance(1, 6) {
		locs = []int{1}
		n = 1
	}
	limits := []int{1, 2, 3, 7, 10, 100, 1000, 10000, 65536, 1000000, 1 << 31, 1 << 40, r.Range(2, 5000), r.Range(5000, 1<<30)}
	return c09Cfg{Type: models.ShardRange, Locations: locs, Slices: append([]string{}, c09SliceNames[:n]...), TableRowLimit: limits[r.Intn(len(limits))]}
}

func c09FmtOrd(rule string, o int64) string {
	switch rule {
	case models.ShardYear:
		return fmt.Sprintf("%04d", o)
	case models.ShardMonth:
		return fmt.Sprintf("%04d%02d", o/12, o%12+1)
	}
	y, m, d := c09CivilFromDays(o)
	return fmt.Sprintf("%04d%02d%02d", y, m, d)
}

func c09GenDateCfg(r *kit.Rand, rule string, zones []c09Zone) c09Cfg {
	n := r.Range(1, 3)
	cfg := c09Cfg{Type: rule, Slices: append([]string{}, c09SliceNames[:n]...), Zone: zones[r.Intn(len(zones))].Name}
	// start ordinal near an interesting calendar place
	y0 := int64(r.Range(1971, 2090))
	if r.Chance(1, 3) {
		y0 = []int64{1999, 2000, 2015, 2016, 2019, 2020, 2023, 2024, 2037, 2038}[r.Intn(10)]
	}
	var cur, maxSpan int64
	switch rule {
	case models.ShardYear:
		cur, maxSpan = y0, 5
	case models.ShardMonth:
		cur, maxSpan = y0*12+int64(r.Range(0, 11)), 30
		if r.Chance(1, 2) {
			cur = y0*12 + int64(r.Range(9, 11))
		}
	default:
		switch r.Intn(4) {
		case 0:
			cur = c09DaysFromCivil(y0, 2, r.Range(24, 28)) // around the end of February
		case 1:
			cur = c09DaysFromCivil(y0, 12, r.Range(20, 31)) // around the year end
		case 2:
			cur = c09DaysFromCivil(y0, r.Range(1, 12), r.Range(26, 28)) // around a month end
		default:
			cur = c09DaysFromCivil(y0, r.Range(1, 12), r.Range(1, 28))
		}
		maxSpan = 40
	}
	for i := 0; i < n; i++ {
		span := int64(r.Range(1, int(maxSpan)))
		if r.Chance(1, 3) {
			span = 1
		}
		if rule == models.ShardDay && r.Chance(1, 12) {
			span = int64(r.Range(360, 400))
		}
		lo, hi := cur, cur+span-1
		var e string
		switch {
		case span == 1 && r.Chance(3, 4):
			e = c09FmtOrd(rule, lo)
		case r.Chance(1, 4):
			e = c09FmtOrd(rule, hi) + "-" + c09FmtOrd(rule, lo) // descending span
		default:
			e = c09FmtOrd(rule, lo) + "-" + c09FmtOrd(rule, hi)
		}
		cfg.DateRange = append(cfg.DateRange, e)
		gap := int64(0)
		if r.Chance(1, 2) {
			gap = int64(r.Range(1, int(maxSpan)))
		}
		cur = hi + 1 + gap
	}
	return cfg
}

type c09Key struct{ kind, text, origin string }

func c09IntKinds(r *kit.Rand, v int64, origin string, all bool) []c09Key {
	t := strconv.FormatInt(v, 10)
	ks := []c09Key{{"int64", t, origin}}
	if all || r.Chance(1, 2) {
		ks = append(ks, c09Key{"int", t, origin})
	}
	if v >= 0 && (all || r.Chance(1, 2)) {
		ks = append(ks, c09Key{"uint64", t, origin})
	}
	return ks
}

func c09GenRangeKeys(r *kit.Rand, b *c09Built, n int) []c09Key {
	var out []c09Key
	lim := int64(b.cfg.TableRowLimit)
	tables := int64(len(b.list))
	add := func(v int64, origin string) {
		for _, k := range c09IntKinds(r, v, origin, false) {
			out = append(out, k)
		}
		t := strconv.FormatInt(v, 10)
		switch r.Intn(4) {
		case 0:
			out = append(out, c09Key{"string", t, origin})
		case 1:
			out = append(out, c09Key{"bytes", t, origin})
		case 2:
			if v >= 0 && r.Chance(1, 3) {
				out = append(out, c09Key{"string", "+" + t, origin + "/plus"})
			} else if v >= 0 && r.Chance(1, 2) {
				out = append(out, c09Key{"string", "00" + t, origin + "/zeros"})
			}
		}
	}
	for len(out) < n {
		switch r.Intn(8) {
		case 0, 1, 2: // boundaries of a table
			k := int64(r.Intn(int(tables) + 2))
			add(k*lim+int64(r.Range(-1, 1)), "table-boundary")
		case 3:
			add([]int64{-1, 0, 1, tables*lim - 1, tables * lim, tables*lim + 1, math.MinInt64, math.MaxInt64, math.MinInt64 + 1, math.MaxInt64 - 1, -lim, -lim * tables}[r.Intn(12)], "extreme")
		case 4, 5:
			add(int64(r.Uint64()%uint64(tables*lim+1)), "inside")
		case 6:
			add(r.Int63()-r.Int63(), "random")
		default:
			bad := []string{"", " ", "abc", "1.5", "1e3", " 7", "7 ", "0x10", "--1", "1_0", "9223372036854775808", "-9223372036854775809", "１２", "12a", "NULL"}
			kind := "string"
			if r.Chance(1, 4) {
				kind = "bytes"
			}
			out = append(out, c09Key{kind, bad[r.Intn(len(bad))], "text-not-integer"})
			if r.Chance(1, 8) {
				out = append(out, c09Key{"uint64", strconv.FormatUint(uint64(math.MaxInt64)+uint64(r.Range(1, 1000)), 10), "uint64-above-int64"})
			}
		}
	}
	return out[:n]
}

// c09PeriodStart returns civil first day of listed period p and the first day of the next period.
func c09PeriodBounds(rule string, p int) (y int64, m, d int, ny int64, nm, nd int) {
	switch rule {
	case models.ShardYear:
		return int64(p), 1, 1, int64(p) + 1, 1, 1
	case models.ShardMonth:
		y, m = int64(p/100), p%100
		ny, nm = y, m+1
		if nm > 12 {
			ny, nm = y+1, 1
		}
		return y, m, 1, ny, nm, 1
	}
	y, m, d = int64(p/10000), p/100%100, p%100
	ny, nm, nd = c09CivilFromDays(c09DaysFromCivil(y, m, d) + 1)
	return
}

var c09Replacements = []string{"x", " ", "-", "/", ":", ".", "T", "０", "é", "+", "_"}

func c09Malform(r *kit.Rand, s string, c c09Civil) (string, string) {
	switch r.Intn(12) {
	case 0, 1, 2: // every prefix length
		l := r.Intn(19)
		return s[:l], "prefix"
	case 3, 4: // a non-digit / foreign character at one position
		p := r.Intn(len(s))
		return s[:p] + c09Replacements[r.Intn(len(c09Replacements))] + s[p+1:], "replace-char"
	case 5: // month outside the calendar
		return s[:5] + r.Pick([]string{"13", "00", "99", "20"}) + s[7:], "month-out-of-calendar"
	case 6: // day outside the calendar
		bad := []string{"00", "32", "99", strconv.Itoa(c09DaysInMonth(c.Y, c.Mo) + 1)}
		return s[:8] + bad[r.Intn(len(bad))] + s[10:], "day-out-of-calendar"
	case 7:
		return s + r.Pick([]string{"x", ".123456", " ", "Z", "+08:00"}), "suffix"
	case 8:
		return r.Pick([]string{" ", "'", "x", "+", "-"}) + s, "prefix-junk"
	case 9:
		alts := []string{fmt.Sprintf("%04d%02d%02d", c.Y, c.Mo, c.D), fmt.Sprintf("%04d%02d%02d%02d%02d%02d", c.Y, c.Mo, c.D, c.H, c.Mi, c.Sec),
			fmt.Sprintf("%04d/%02d/%02d", c.Y, c.Mo, c.D), fmt.Sprintf("%02d-%02d-%02d", c.Y%100, c.Mo, c.D), fmt.Sprintf("%d-%d-%d", c.Y, c.Mo, c.D),
			fmt.Sprintf("%04d-%02d", c.Y, c.Mo), fmt.Sprintf("%04d", c.Y), fmt.Sprintf("%04d-%02d-%02dT%02d:%02d:%02d", c.Y, c.Mo, c.D, c.H, c.Mi, c.Sec)}
		return alts[r.Intn(len(alts))], "other-notation"
	case 10:
		short := []string{"", "2", "20", "201", "a", "ab", "abc", "-", "--", "  ", "é", "年", "0", "000", "99", "+1", "-1"}
		return short[r.Intn(len(short))], "short"
	}
	n := r.Range(0, 24)
	bs := make([]byte, n)
	for i := range bs {
		bs[i] = byte(r.Range(0x20, 0x7e))
	}
	return string(bs), "random-ascii"
}

func c09GenDateKeys(r *kit.Rand, b *c09Built, n int) []c09Key {
	var out []c09Key
	z := b.zone
	rule := b.cfg.Type
	emitInstant := func(ts int64, origin string) {
		c := c09CivilOf(ts, z.offsetAt(ts))
		for _, k := range c09IntKinds(r, ts, origin, false) {
			out = append(out, k)
		}
		if c.Y >= 1000 && c.Y <= 9999 {
			out = append(out, c09Key{"string", c.date(), origin}, c09Key{"string", c.datetime(), origin})
			if r.Chance(2, 3) {
				m, how := c09Malform(r, c.datetime(), c)
				out = append(out, c09Key{"string", m, "malformed/" + how})
			}
		}
	}
	for len(out) < n {
		switch r.Intn(10) {
		case 0, 1, 2, 3: // edges of a configured period, +-1 s
			p := b.list[r.Intn(len(b.list))]
			if r.Chance(1, 3) { // ends of the whole list / of an entry are the most interesting
				p = []int{b.list[0], b.list[len(b.list)-1]}[r.Intn(2)]
			}
			y, m, d, ny, nm, nd := c09PeriodBounds(rule, p)
			first := z.instantOf(y, m, d, 0, 0, 0)
			next := z.instantOf(ny, nm, nd, 0, 0, 0)
			switch r.Intn(5) {
			case 0:
				emitInstant(first, "period-first-second")
			case 1:
				emitInstant(first-1, "second-before-period")
			case 2:
				emitInstant(next-1, "period-last-second")
			case 3:
				emitInstant(next, "second-after-period")
			default:
				if next > first {
					emitInstant(first+int64(r.Uint64()%uint64(next-first)), "inside-period")
				}
			}
		case 4: // leap days and year ends near the list
			y := int64(b.list[r.Intn(len(b.list))])
			for y > 9999 {
				y /= 100
			}
			if r.Bool() {
				ly := y - y%4
				emitInstant(z.instantOf(ly, 2, 29, r.Intn(24), r.Intn(60), r.Intn(60)), "leap-day")
			} else {
				emitInstant(z.instantOf(y, 12, 31, 23, 59, 59)+int64(r.Intn(2)), "year-end")
			}
		case 5, 6: // anywhere around the list
			lo := z.instantOf(int64(c09YearOf(rule, b.list[0]))-1, 1, 1, 0, 0, 0)
			hi := z.instantOf(int64(c09YearOf(rule, b.list[len(b.list)-1]))+2, 1, 1, 0, 0, 0)
			emitInstant(lo+int64(r.Uint64()%uint64(hi-lo)), "around-list")
		case 7: // extreme timestamps
			ex := []int64{0, -1, 1, 86399, 86400, 1<<31 - 1, 1 << 31, 1<<32 - 1, 1 << 32, 253402300799, 253402300800, -62135596800, -62135596801,
				-62167219200, math.MaxInt64, math.MinInt64, math.MaxInt64 - 1, 1 << 55, -(1 << 55), 1500000000, 20170601, 201706, 2017}
			v := ex[r.Intn(len(ex))]
			for _, k := range c09IntKinds(r, v, "extreme-timestamp", false) {
				out = append(out, k)
			}
			if r.Chance(1, 3) {
				out = append(out, c09Key{"string", strconv.FormatInt(v, 10), "timestamp-as-text"})
			}
		default: // malformed strings derived from a configured instant
			p := b.list[r.Intn(len(b.list))]
			y, m, d, _, _, _ := c09PeriodBounds(rule, p)
			c := c09Civil{y, m, d, r.Intn(24), r.Intn(60), r.Intn(60)}
			if rule != models.ShardDay {
				c.D = r.Range(1, c09DaysInMonth(y, m))
			}
			if rule == models.ShardYear {
				c.Mo = r.Range(1, 12)
				c.D = r.Range(1, c09DaysInMonth(y, c.Mo))
			}
			s, how := c09Malform(r, c.datetime(), c)
			out = append(out, c09Key{"string", s, "malformed/" + how})
		}
	}
	return out[:n]
}

func c09YearOf(rule string, p int) int {
	switch rule {
	case models.ShardMonth:
		return p / 100
	case models.ShardDay:
		return p / 10000
	}
	return p
}

// ---------------------------------------------------------------------------------------

func TestVerif_C09(t *testing.T) {
	rec := kit.Start("C09", "exploration", "range rules (1-3 slices x 1-4 tables, table_row_limit 1..2^40) and date_year/date_month/date_day rules (1-3 date_range entries: single periods, ascending and descending spans, spans over year ends and leap days, gaps) built by parseRule, in 7 fixed-offset and up to 4 DST time zones; keys: table boundaries +-1, extremes, numeric text, non-integer text; first/last second of configured periods +-1 s as timestamp (int64,int,uint64), 'YYYY-MM-DD' and 'YYYY-MM-DD hh:mm:ss', malformed strings (every prefix length, foreign characters, month/day outside the calendar, other notations, junk); non-trivial = distinct (rule type, key shape, key kind, oracle verdict class) plus distinct (rule, layout class)")
	rec.Assume("a key counts as rejected when FindTableIndex returns an error or panics with the router's own KeyError (its designed rejection channel, turned into an error by handleQuery); any other panic (index/slice out of range) is a violation of 'rejected with an error'")
	rec.Assume("for calendar rules an index that is not a configured sub-table counts as not placed (the planner intersects it with the sub-table list); range rules must return an error for keys outside every interval")
	rec.Assume("malformed date strings whose needed fields (year / year+month / year+month+day) are readable at the canonical offsets may be rejected or placed by those fields; all others must be rejected")
	rec.Assume("date keys reach the calendar rules as int64/uint64/string (what util.GetValueExprResult produces); []byte keys, which the calendar shards refuse with an error, are not generated")
	rec.Assume("the UTC offset of an instant in a DST zone is taken from package time (tz database); all calendar arithmetic is the harness's own")
	defer rec.Finish(t)

	savedLocal := time.Local
	defer func() { time.Local = savedLocal }()
	zones := c09Zones()
	rec.Set("zones", len(zones))

	report := func(b *c09Built, c c09Case, clause, detail string, exp c09Expect) {
		min := c09Shrink(b, c, clause, exp)
		cl2, d2, _, e2 := c09Judge(b, min)
		if cl2 != clause {
			min, d2, e2 = c, detail, exp
		}
		sig := fmt.Sprintf("%s/%s/%s", b.cfg.Type, clause, c09Shape(b, min, e2))
		rec.Violation(sig, fmt.Sprintf("%s %s key(%s)=%q [%s]: %s", b.cfg.Type, c09CfgString(b.cfg), min.KeyKind, min.KeyText, min.Origin, d2), min)
	}
	runKey := func(b *c09Built, c c09Case) {
		clause, detail, outcome, exp := c09Judge(b, c)
		rec.Eval(1)
		rec.Count("keys."+b.cfg.Type, 1)
		rec.Count("outcome."+outcome, 1)
		shape := c09Shape(b, c, exp)
		if outcome != "skipped-bad-key" {
			rec.Nontrivial(b.cfg.Type + "|" + shape + "|" + c.KeyKind + "|" + outcome)
		}
		if clause != "" {
			report(b, c, clause, detail, exp)
			return
		}
		if outcome == "placed" && len(b.list) > 1 {
			rec.Sample(map[string]interface{}{"type": b.cfg.Type, "config": c09CfgString(b.cfg), "key_kind": c.KeyKind, "key": c.KeyText, "origin": c.Origin, "table": exp.P, "slice_index": b.slice[exp.P]})
		}
	}
	// load returns false when the configuration cannot be used for key cases
	load := func(cfg c09Cfg) (*c09Built, bool) {
		b := c09Build(cfg)
		if !b.oracleOK {
			rec.Inconclusive(fmt.Sprintf("generator produced a date_range the oracle cannot enumerate: %+v", cfg))
			return b, false
		}
		if b.zone.loc != nil {
			time.Local = b.zone.loc
		}
		rec.Eval(1)
		rec.Count("configs."+cfg.Type, 1)
		lc := c09LayoutClass(cfg)
		rec.Nontrivial(cfg.Type + "|layout|" + lc)
		if b.rule == nil || b.loadErr != nil || b.loadPan != nil {
			clause := "load-error"
			if b.loadPan != nil {
				clause = "load-panic"
			}
			rec.Violation(cfg.Type+"/"+clause+"/"+lc, fmt.Sprintf("valid layout is not loaded: %s err=%v panic=%v", c09CfgString(cfg), b.loadErr, b.loadPan), c09Case{Cfg: cfg, KeyKind: "layout"})
			return b, false
		}
		if d := b.layout(); d != "" {
			rec.Violation(cfg.Type+"/layout-mismatch/"+lc, fmt.Sprintf("%s: %s", c09CfgString(cfg), d), c09Case{Cfg: cfg, KeyKind: "layout"})
			return b, false
		}
		return b, true
	}

	if p := kit.ReplayPath(); p != "" {
		var c c09Case
		if err := kit.LoadReplay(p, &c); err != nil {
			t.Fatal(err)
		}
		b, ok := load(c.Cfg)
		if ok && c.KeyKind != "layout" {
			runKey(b, c)
		}
		return
	}

	types := []string{models.ShardRange, models.ShardYear, models.ShardMonth, models.ShardDay}
	cfgsPerType := kit.N(50, 500)
	keysPerCfg := kit.N(150, 1000)
	for _, typ := range types {
		rc := kit.SubRand(kit.Seed(), "C09/cfg/"+typ)
		rk := kit.SubRand(kit.Seed(), "C09/keys/"+typ)
		for ci := 0; ci < cfgsPerType; ci++ {
			var cfg c09Cfg
			if typ == models.ShardRange {
				cfg = c09GenRangeCfg(rc)
			} else {
				cfg = c09GenDateCfg(rc, typ, zones)
			}
			b, ok := load(cfg)
			if !ok {
				continue
			}
			var keys []c09Key
			if typ == models.ShardRange {
				keys = c09GenRangeKeys(rk, b, keysPerCfg)
			} else {
				keys = c09GenDateKeys(rk, b, keysPerCfg)
			}
			for _, k := range keys {
				runKey(b, c09Case{Cfg: cfg, KeyKind: k.kind, KeyText: k.text, Origin: k.origin})
			}
		}
	}
}

// c09LayoutClass: structural class of a layout (for signatures of load/layout violations).
func c09LayoutClass(cfg c09Cfg) string {
	if cfg.Type == models.ShardRange {
		if len(cfg.Locations) == 1 && cfg.Locations[0] == 1 {
			return "single-table"
		}
		return fmt.Sprintf("slices=%d", len(cfg.Locations))
	}
	cls := map[string]bool{}
	for _, e := range cfg.DateRange {
		ps := strings.SplitN(e, "-", 2)
		switch {
		case len(ps) == 1:
			cls["single"] = true
		case ps[0] > ps[1]:
			cls["descending"] = true
		default:
			cls["ascending"] = true
		}
		if len(ps) == 2 && ps[0][:4] != ps[1][:4] {
			cls["cross-year"] = true
		}
	}
	var out []string
	for _, k := range []string{"single", "ascending", "descending", "cross-year"} {
		if cls[k] {
			out = append(out, k)
		}
	}
	return strings.Join(out, "+")
}

func c09CfgString(c c09Cfg) string {
	if c.Type == models.ShardRange {
		return fmt.Sprintf("locations=%v table_row_limit=%d", c.Locations, c.TableRowLimit)
	}
	return fmt.Sprintf("date_range=%v zone=%s", c.DateRange, c.Zone)
}
