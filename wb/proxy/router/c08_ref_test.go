package router

// C08 reference: an independent re-implementation of Mycat's partition functions
// (io.mycat.route.function.PartitionByMod / PartitionByLong / PartitionByString /
// PartitionByMurmurHash, io.mycat.route.util.PartitionUtil, io.mycat.util.StringUtil.hash,
// io.mycat.util.PairUtil.sequenceSlicing, Guava Hashing.murmur3_32(seed).hashUnencodedChars)
// with Java semantics: String = sequence of UTF-16 code units, int = 32 bit two's
// complement, long = 64 bit two's complement with silent wrap-around, BigInteger for
// PartitionByMod, TreeMap<Integer,Integer>.tailMap for the consistent-hash ring.
// Nothing here calls into the Gaea implementation under test.

import (
	"errors"
	"math/big"
	"sort"
	"strconv"
	"strings"
	"unicode/utf8"
)

// c08JavaChars converts a (valid UTF-8) Go string into the UTF-16 code units a Java String
// holding the same text consists of. Hand written (no unicode/utf16) so that the oracle
// shares nothing with a possible fix of the code under test.
func c08JavaChars(s string) []uint16 {
	out := make([]uint16, 0, len(s))
	for i := 0; i < len(s); {
		r, n := utf8.DecodeRuneInString(s[i:])
		i += n
		if r >= 0x10000 {
			r -= 0x10000
			out = append(out, uint16(0xD800+(r>>10)), uint16(0xDC00+(r&0x3FF)))
		} else {
			out = append(out, uint16(r))
		}
	}
	return out
}

// c08JavaParseDecimal mimics the grammar shared by Long.parseLong and new BigInteger(String):
// optional single '+' or '-', then one or more ASCII digits (Character.digit also accepts
// other Unicode digits; such keys are not generated). Returns the digits and sign.
func c08JavaParseDecimal(s string) (neg bool, digits string, ok bool) {
	if s == "" {
		return false, "", false
	}
	if s[0] == '-' || s[0] == '+' {
		neg = s[0] == '-'
		s = s[1:]
	}
	if s == "" {
		return false, "", false
	}
	for i := 0; i < len(s); i++ {
		if s[i] < '0' || s[i] > '9' {
			return false, "", false
		}
	}
	return neg, s, true
}

// c08JavaParseLong is Long.parseLong: c08JavaParseDecimal plus the range check.
func c08JavaParseLong(s string) (int64, bool) {
	neg, digits, ok := c08JavaParseDecimal(s)
	if !ok {
		return 0, false
	}
	b, ok2 := new(big.Int).SetString(digits, 10)
	if !ok2 {
		return 0, false
	}
	if neg {
		b.Neg(b)
	}
	if !b.IsInt64() {
		return 0, false
	}
	return b.Int64(), true
}

// c08RefMod is PartitionByMod.calculate: new BigInteger(v).abs().mod(BigInteger.valueOf(count)).intValue()
func c08RefMod(count int, key string) (int, bool) {
	_, digits, ok := c08JavaParseDecimal(key)
	if !ok || count <= 0 {
		return 0, false
	}
	b, ok2 := new(big.Int).SetString(digits, 10) // abs: sign dropped
	if !ok2 {
		return 0, false
	}
	m := new(big.Int).Mod(b, big.NewInt(int64(count)))
	return int(m.Int64()), true
}

// c08RefIntArray is PartitionByLong.toIntArray (split on ',', trimmed, Integer.parseInt).
func c08RefIntArray(s string) ([]int, error) {
	parts := strings.Split(s, ",")
	out := make([]int, 0, len(parts))
	for _, p := range parts {
		p = strings.TrimSpace(p)
		v, err := strconv.ParseInt(p, 10, 32)
		if err != nil {
			return nil, err
		}
		out = append(out, int(v))
	}
	return out, nil
}

// c08RefSegments is the constructor of PartitionUtil: segment[0..1023] -> partition index.
func c08RefSegments(count, length []int) ([]int, error) {
	if len(count) != len(length) {
		return nil, errors.New("count/length size mismatch")
	}
	total := 0
	for _, c := range count {
		if c <= 0 {
			return nil, errors.New("non-positive count")
		}
		total += c
	}
	ai := make([]int, total+1)
	idx := 0
	for i := range count {
		for j := 0; j < count[i]; j++ {
			idx++
			ai[idx] = ai[idx-1] + length[i]
		}
	}
	if ai[len(ai)-1] != 1024 {
		return nil, errors.New("partition scope does not sum to 1024")
	}
	seg := make([]int, 1024)
	for i := 1; i < len(ai); i++ {
		for j := ai[i-1]; j < ai[i]; j++ {
			if j < 0 || j >= 1024 {
				return nil, errors.New("segment out of range")
			}
			seg[j] = i - 1
		}
	}
	return seg, nil
}

// c08RefPartition is PartitionUtil.partition(long hash): segment[(int)(hash & 1023L)]
func c08RefPartition(seg []int, hash int64) int {
	return seg[int(uint64(hash)&1023)]
}

// c08RefLong is PartitionByLong.calculate.
func c08RefLong(seg []int, key string) (int, bool) {
	v, ok := c08JavaParseLong(key)
	if !ok {
		return 0, false
	}
	return c08RefPartition(seg, v), true
}

// c08RefSlicing is PairUtil.sequenceSlicing.
func c08RefSlicing(slice string) (start, end int, err error) {
	ind := strings.IndexByte(slice, ':')
	if ind < 0 {
		v, e := strconv.ParseInt(strings.TrimSpace(slice), 10, 32)
		if e != nil {
			return 0, 0, e
		}
		if v >= 0 {
			return 0, int(v), nil
		}
		return int(v), 0, nil
	}
	left := strings.TrimSpace(slice[:ind])
	right := strings.TrimSpace(slice[ind+1:])
	if left != "" {
		v, e := strconv.ParseInt(left, 10, 32)
		if e != nil {
			return 0, 0, e
		}
		start = int(v)
	}
	if right != "" {
		v, e := strconv.ParseInt(right, 10, 32)
		if e != nil {
			return 0, 0, e
		}
		end = int(v)
	}
	return start, end, nil
}

// c08RefStringHash is StringUtil.hash(String s, int start, int end) over UTF-16 code units
// with Java long arithmetic.
func c08RefStringHash(chars []uint16, start, end int) int64 {
	if start < 0 {
		start = 0
	}
	if end > len(chars) {
		end = len(chars)
	}
	var h uint64 // two's complement wrap-around == Java long
	for i := start; i < end; i++ {
		h = (h << 5) - h + uint64(chars[i])
	}
	return int64(h)
}

// c08RefString is PartitionByString.calculate.
func c08RefString(seg []int, sliceStart, sliceEnd int, key string) int {
	chars := c08JavaChars(key)
	start := sliceStart
	if sliceStart < 0 {
		start = len(chars) + sliceStart
	}
	end := sliceEnd
	if sliceEnd <= 0 {
		end = len(chars) + sliceEnd
	}
	return c08RefPartition(seg, c08RefStringHash(chars, start, end))
}

// ---- Guava Murmur3_32HashFunction.hashUnencodedChars ----

func c08Rotl(x uint32, r uint) uint32 { return x<<r | x>>(32-r) }

func c08MixK1(k1 uint32) uint32 {
	k1 *= 0xcc9e2d51
	k1 = c08Rotl(k1, 15)
	k1 *= 0x1b873593
	return k1
}

func c08MixH1(h1, k1 uint32) uint32 {
	h1 ^= k1
	h1 = c08Rotl(h1, 13)
	h1 = h1*5 + 0xe6546b64
	return h1
}

func c08Fmix(h1, length uint32) uint32 {
	h1 ^= length
	h1 ^= h1 >> 16
	h1 *= 0x85ebca6b
	h1 ^= h1 >> 13
	h1 *= 0xc2b2ae35
	h1 ^= h1 >> 16
	return h1
}

// c08RefMurmurChars returns hashUnencodedChars(chars).asInt() for murmur3_32(seed).
func c08RefMurmurChars(seed int32, chars []uint16) int32 {
	h1 := uint32(seed)
	for i := 1; i < len(chars); i += 2 {
		k1 := uint32(chars[i-1]) | uint32(chars[i])<<16
		h1 = c08MixH1(h1, c08MixK1(k1))
	}
	if len(chars)&1 == 1 {
		h1 ^= c08MixK1(uint32(chars[len(chars)-1]))
	}
	return int32(c08Fmix(h1, uint32(2*len(chars))))
}

// c08RefRing is the TreeMap<Integer,Integer> bucketMap of PartitionByMurmurHash.
type c08RefRing struct {
	seed int32
	keys []int32 // ascending (signed comparison, like Integer.compareTo)
	val  map[int32]int
}

// c08NewRefRing is PartitionByMurmurHash.generateBucketMap with default weight 1, including
// the quirk that the StringBuilder keeps growing: SHARD-i-NODE-0, SHARD-i-NODE-0-NODE-1, ...
func c08NewRefRing(seed int32, count, virtualBucketTimes int) *c08RefRing {
	r := &c08RefRing{seed: seed, val: map[int32]int{}}
	for i := 0; i < count; i++ {
		name := "SHARD-" + strconv.Itoa(i)
		for n := 0; n < virtualBucketTimes; n++ {
			name += "-NODE-" + strconv.Itoa(n)
			h := c08RefMurmurChars(seed, c08JavaChars(name))
			if _, dup := r.val[h]; !dup {
				r.keys = append(r.keys, h)
			}
			r.val[h] = i // TreeMap.put overwrites
		}
	}
	sort.Slice(r.keys, func(a, b int) bool { return r.keys[a] < r.keys[b] })
	return r
}

// c08RefMurmur is PartitionByMurmurHash.calculate: tailMap(hash) first entry, else firstKey.
// ok=false stands for Java's NoSuchElementException on an empty ring.
func (r *c08RefRing) c08RefMurmur(key string) (int, bool) {
	if len(r.keys) == 0 {
		return 0, false
	}
	h := c08RefMurmurChars(r.seed, c08JavaChars(key))
	i := sort.Search(len(r.keys), func(i int) bool { return r.keys[i] >= h })
	if i == len(r.keys) {
		i = 0
	}
	return r.val[r.keys[i]], true
}
