package sequence

// C34 — global sequence values are never issued twice.
//
// Monitor: 1–3 real MySQLSequence instances ("proxies"), each on its own real backend.Slice
// whose master pool (real connectionPoolImpl / DirectConnection) points at the fake MySQL
// server of rig R3. The server simulates ONE sequence table (current += increment; reply
// "current,increment"; mutex-protected) and scripts the outcome of the k-th fetch. 4
// goroutines per proxy call NextSeq concurrently; every call and every fetch is stamped from
// one atomic counter. The oracle looks only at what NextSeq returned and what the table did.

import (
	"fmt"
	"runtime"
	"sort"
	"strings"
	"sync"
	"sync/atomic"
	"testing"
	"time"

	"github.com/XiaoMi/Gaea/backend"
	"github.com/XiaoMi/Gaea/log"
	"github.com/XiaoMi/Gaea/log/xlog"
	"github.com/XiaoMi/Gaea/models"
	kit "github.com/XiaoMi/Gaea/verifkit"
	"github.com/XiaoMi/Gaea/verifkit/fakemysql"
)

type c34Case struct {
	Proxies    int    `json:"proxies"`
	Goroutines int    `json:"goroutines_per_proxy"`
	Block      int    `json:"block_size"`
	Calls      int    `json:"calls_per_goroutine"`
	Start      int64  `json:"table_start"`
	Fault      string `json:"fault"`          // outcome scripted for one fetch ("none": no fault)
	FaultAt    int    `json:"fault_at_fetch"` // 1-based index of the faulted fetch on the table
	Sched      uint64 `json:"sched_seed"`
}

// fault kinds. mustErr: the statement of C34 demands that the request fails.
var c34Faults = []string{"err", "drop", "norows", "one_field", "three_fields", "missing", "nonnum_curr", "nonnum_incr", "zero_incr", "neg_incr"}

type c34Fetch struct {
	K     int    `json:"k"`
	Proxy string `json:"proxy"`
	Kind  string `json:"kind"`
	Reply string `json:"reply"`
	Stamp int64  `json:"stamp"`
}

type c34Call struct {
	Proxy int    `json:"proxy"`
	G     int    `json:"g"`
	TCall int64  `json:"t_call"`
	TRet  int64  `json:"t_ret"`
	Val   int64  `json:"val"`
	Err   string `json:"err,omitempty"`
}

type c34Table struct {
	mu      sync.Mutex
	current int64
	incr    int64
	fault   string
	faultAt int
	fetches []c34Fetch
}

var c34Clock int64

type c34Rig struct {
	srv    *fakemysql.Server
	slices []*backend.Slice
	mu     sync.Mutex
	tables map[string]*c34Table
}

func (rg *c34Rig) handler(conn *fakemysql.ConnState, sql string) fakemysql.Response {
	const pre = "SELECT mycat_seq_nextval('"
	if !strings.HasPrefix(sql, pre) {
		return fakemysql.Default()
	}
	rest := sql[len(pre):]
	i := strings.IndexByte(rest, '\'')
	if i < 0 {
		return fakemysql.Err(1064, "42000", "bad sequence statement")
	}
	name := rest[:i]
	rg.mu.Lock()
	tb := rg.tables[name]
	rg.mu.Unlock()
	if tb == nil {
		// the stored function's default for an unknown sequence
		return fakemysql.TextResult([]string{"seq_val"}, []string{"-999999999,null"})
	}
	if conn.Sess.DB != "mycat" {
		return fakemysql.Err(1305, "42000", "FUNCTION "+conn.Sess.DB+".mycat_seq_nextval does not exist")
	}
	tb.mu.Lock()
	defer tb.mu.Unlock()
	k := len(tb.fetches) + 1
	kind := "ok"
	if k == tb.faultAt && tb.fault != "none" {
		kind = tb.fault
	}
	f := c34Fetch{K: k, Proxy: conn.User, Kind: kind, Stamp: atomic.AddInt64(&c34Clock, 1)}
	var resp fakemysql.Response
	reply := func(s string) {
		f.Reply = s
		resp = fakemysql.TextResult([]string{"seq_val"}, []string{s})
	}
	switch kind {
	case "ok":
		tb.current += tb.incr
		reply(fmt.Sprintf("%d,%d", tb.current, tb.incr))
	case "err":
		f.Reply = "ERR 1213"
		resp = fakemysql.Err(1213, "40001", "Deadlock found when trying to get lock; try restarting transaction")
	case "drop":
		f.Reply = "connection dropped"
		resp = fakemysql.Close()
	case "norows":
		f.Reply = "empty result"
		resp = fakemysql.TextResult([]string{"seq_val"})
	case "one_field":
		reply(fmt.Sprintf("%d", tb.current+tb.incr))
	case "three_fields":
		reply(fmt.Sprintf("%d,%d,1", tb.current+tb.incr, tb.incr))
	case "missing":
		reply("-999999999,null")
	case "nonnum_curr":
		reply(fmt.Sprintf("x%d,%d", tb.current+tb.incr, tb.incr))
	case "nonnum_incr":
		reply(fmt.Sprintf("%d,%dx", tb.current, tb.incr))
	case "zero_incr":
		reply(fmt.Sprintf("%d,0", tb.current))
	case "neg_incr":
		reply(fmt.Sprintf("%d,-%d", tb.current, tb.incr))
	}
	tb.fetches = append(tb.fetches, f)
	return resp
}

func c34NewRig() (*c34Rig, error) {
	srv, err := fakemysql.Start()
	if err != nil {
		return nil, err
	}
	srv.SetLogging(false, false)
	rg := &c34Rig{srv: srv, tables: map[string]*c34Table{}}
	srv.SetHandler(rg.handler)
	for i := 0; i < 3; i++ {
		s := &backend.Slice{
			Cfg: models.Slice{Name: "slice-0", UserName: fmt.Sprintf("p%d", i), Password: "pw", Capacity: 2, MaxCapacity: 2, IdleTimeout: 3600},
			Namespace:        "c34",
			ProxyDatacenter:  "dc1",
			HandshakeTimeout: 20 * time.Second,
		}
		s.SetCharsetInfo("utf8mb4", 45)
		if err := s.ParseMaster(srv.Addr() + "#dc1"); err != nil {
			return nil, err
		}
		s.ParseSlave(nil)
		s.ParseStatisticSlave(nil)
		s.ParseMonitorMaster("")
		s.ParseMonitorSlave(nil)
		rg.slices = append(rg.slices, s)
	}
	return rg, nil
}

func (rg *c34Rig) close() {
	for _, s := range rg.slices {
		s.Close()
	}
	rg.srv.Close()
}

type c34Outcome struct {
	Calls   []c34Call  `json:"calls,omitempty"`
	Fetches []c34Fetch `json:"fetches,omitempty"`
	Fired   bool       `json:"fault_fired"`
	Clause  string     `json:"clause,omitempty"`
	Detail  string     `json:"detail,omitempty"`
	Timeout bool       `json:"timeout,omitempty"`
	Infra   string     `json:"infra,omitempty"` // an error that is neither scripted nor Gaea's: the box was too slow for a 2 s pool timeout
}

var c34RunID int64

// c34Run executes one case against the real MySQLSequence and applies the oracle.
func c34Run(rg *c34Rig, c c34Case) c34Outcome {
	name := fmt.Sprintf("seq%d", atomic.AddInt64(&c34RunID, 1))
	tb := &c34Table{current: c.Start, incr: int64(c.Block), fault: c.Fault, faultAt: c.FaultAt}
	rg.mu.Lock()
	rg.tables[name] = tb
	rg.mu.Unlock()
	defer func() {
		rg.mu.Lock()
		delete(rg.tables, name)
		rg.mu.Unlock()
	}()

	seqs := make([]*MySQLSequence, c.Proxies)
	for i := range seqs {
		seqs[i] = NewMySQLSequence(rg.slices[i], name, "id", 0)
	}
	total := c.Proxies * c.Goroutines
	results := make([][]c34Call, total)
	var wg sync.WaitGroup
	start := make(chan struct{})
	for p := 0; p < c.Proxies; p++ {
		for g := 0; g < c.Goroutines; g++ {
			wg.Add(1)
			go func(p, g int) {
				defer wg.Done()
				r := kit.NewRand(c.Sched ^ uint64(p*131+g+1)*0x9E3779B97F4A7C15)
				out := make([]c34Call, 0, c.Calls)
				<-start
				for i := 0; i < c.Calls; i++ {
					if r.Chance(1, 3) {
						runtime.Gosched()
					}
					cl := c34Call{Proxy: p, G: g, TCall: atomic.AddInt64(&c34Clock, 1)}
					v, err := seqs[p].NextSeq()
					cl.TRet = atomic.AddInt64(&c34Clock, 1)
					cl.Val = v
					if err != nil {
						cl.Err = err.Error()
						if cl.Err == "" {
							cl.Err = "error"
						}
					}
					out = append(out, cl)
				}
				results[p*c.Goroutines+g] = out
			}(p, g)
		}
	}
	done := make(chan struct{})
	go func() { wg.Wait(); close(done) }()
	close(start)
	select {
	case <-done:
	case <-time.After(180 * time.Second):
		return c34Outcome{Timeout: true}
	}
	var o c34Outcome
	for _, rs := range results {
		o.Calls = append(o.Calls, rs...)
	}
	tb.mu.Lock()
	o.Fetches = append(o.Fetches, tb.fetches...)
	tb.mu.Unlock()
	for _, cl := range o.Calls {
		if strings.Contains(cl.Err, "create resource failed") || strings.Contains(cl.Err, "context deadline exceeded") || strings.Contains(cl.Err, "resource pool timed out") {
			o.Infra = cl.Err
			return o
		}
	}
	o.Clause, o.Detail, o.Fired = c34Oracle(c, o.Calls, o.Fetches)
	return o
}

// c34RunRetry repeats a run whose only problem was a wall-clock timeout of Gaea's pool (2 s
// to obtain a connection) on a stalled machine; such a run says nothing about the property.
func c34RunRetry(rec *kit.Rec, rg *c34Rig, c c34Case) c34Outcome {
	var o c34Outcome
	for attempt := 0; attempt < 3; attempt++ {
		o = c34Run(rg, c)
		if o.Timeout || o.Infra == "" {
			return o
		}
		rec.Count("runs.retried_after_pool_timeout", 1)
	}
	return o
}

// c34Oracle returns the first refuted clause ("" = held).
func c34Oracle(c c34Case, calls []c34Call, fetches []c34Fetch) (clause, detail string, fired bool) {
	// clause 1: a request whose fetch was faulted fails and yields no value. Requests of one
	// proxy do at most one fetch each and errors have no other source here (no max limit), so:
	// per proxy, #failed requests == #faulted fetches, and every faulted fetch lies inside the
	// call/return interval of a failed request of that proxy.
	faulted := map[string][]c34Fetch{}
	for _, f := range fetches {
		if f.Kind != "ok" {
			fired = true
			faulted[f.Proxy] = append(faulted[f.Proxy], f)
		}
	}
	for p := 0; p < c.Proxies; p++ {
		user := fmt.Sprintf("p%d", p)
		var failed []c34Call
		for _, cl := range calls {
			if cl.Proxy == p && cl.Err != "" {
				failed = append(failed, cl)
				if cl.Val != 0 {
					return "error-with-value", fmt.Sprintf("proxy %d: NextSeq returned value %d together with error %q", p, cl.Val, cl.Err), fired
				}
			}
		}
		for _, f := range faulted[user] {
			ok := false
			for _, cl := range failed {
				if cl.TCall < f.Stamp && f.Stamp < cl.TRet {
					ok = true
				}
			}
			if !ok {
				return "fault-ignored", fmt.Sprintf("proxy %d: fetch #%d was answered %q (%s) but no NextSeq call spanning it returned an error", p, f.K, f.Reply, f.Kind), fired
			}
		}
		if len(failed) != len(faulted[user]) {
			return "error-count", fmt.Sprintf("proxy %d: %d failed requests but %d faulted fetches", p, len(failed), len(faulted[user])), fired
		}
	}
	// clause 2: all returned values pairwise distinct across proxies
	seen := map[int64]c34Call{}
	for _, cl := range calls {
		if cl.Err != "" {
			continue
		}
		if prev, dup := seen[cl.Val]; dup {
			return "duplicate", fmt.Sprintf("value %d handed out twice: proxy %d goroutine %d and proxy %d goroutine %d", cl.Val, prev.Proxy, prev.G, cl.Proxy, cl.G), fired
		}
		seen[cl.Val] = cl
	}
	// clause 3: per proxy, strictly increasing in real-time order
	for p := 0; p < c.Proxies; p++ {
		var ok []c34Call
		for _, cl := range calls {
			if cl.Proxy == p && cl.Err == "" {
				ok = append(ok, cl)
			}
		}
		byRet := append([]c34Call(nil), ok...)
		sort.Slice(byRet, func(i, j int) bool { return byRet[i].TRet < byRet[j].TRet })
		sort.Slice(ok, func(i, j int) bool { return ok[i].TCall < ok[j].TCall })
		j := 0
		var maxBefore int64
		var maxCall c34Call
		have := false
		for _, b := range ok {
			for j < len(byRet) && byRet[j].TRet < b.TCall {
				if !have || byRet[j].Val > maxBefore {
					maxBefore, maxCall, have = byRet[j].Val, byRet[j], true
				}
				j++
			}
			if have && b.Val <= maxBefore {
				return "not-increasing", fmt.Sprintf("proxy %d: value %d (call stamp %d) was returned after value %d had already been returned (return stamp %d)", p, b.Val, b.TCall, maxBefore, maxCall.TRet), fired
			}
		}
	}
	return "", "", fired
}

func c34Expected(c c34Case) int {
	total := c.Proxies * c.Goroutines * c.Calls
	return (total+c.Block-1)/c.Block + c.Proxies
}

func TestVerif_C34(t *testing.T) {
	rec := kit.Start("C34", "fault_enumeration", "one run = (proxies 1-3, block size 1-5, calls per goroutine, scripted outcome of fetch k) with 4 goroutines per proxy on one simulated sequence table; every fault kind x every fetch index k up to the number of fetches a fault-free run makes; a case is non-trivial when the scripted fault was actually delivered to a fetch; distinct key = (proxies, block, calls, fault, k)")
	defer rec.Finish(t)
	rec.Assume("the fake server's sequence table implements mycat_seq_nextval as 'current += increment; return concat(current, \",\", increment)' under one mutex (what the stored function does under InnoDB row locking)")
	rec.Assume("real connectionPoolImpl/DirectConnection over loopback TCP carry the fetch; errors other than scripted faults do not occur (no max limit configured), so failed requests are attributable to faulted fetches by count and by stamp interval")
	if lg, err := xlog.CreateLogManager("console", map[string]string{"level": "fatal"}); err == nil {
		log.SetGlobalLogger(lg)
	}
	rg, err := c34NewRig()
	if err != nil {
		rec.Inconclusive("cannot build rig: " + err.Error())
		return
	}
	defer rg.close()

	report := func(c c34Case, o c34Outcome) {
		sig := "C34:" + o.Clause + ":" + c.Fault
		if !o.Fired {
			sig = "C34:" + o.Clause + ":none"
		}
		type witness struct {
			Case    c34Case    `json:"case"`
			Detail  string     `json:"detail"`
			Fetches []c34Fetch `json:"fetches"`
			Calls   []c34Call  `json:"calls"`
		}
		rec.Violation(sig, o.Detail, witness{c, o.Detail, o.Fetches, o.Calls})
	}

	if p := kit.ReplayPath(); p != "" {
		var w struct {
			Part string  `json:"part"`
			Case c34Case `json:"case"`
		}
		if err := kit.LoadReplay(p, &w); err == nil && w.Part == "b" {
			// a witness of part b (proxy/plan): nothing to replay here
			rec.Eval(1)
			rec.Nontrivial("replay-not-for-part-a")
			rec.Nontrivial("replay-not-for-part-a-2")
			rec.Sample("replay file belongs to part b")
			return
		} else if err != nil {
			rec.Inconclusive("cannot load replay: " + err.Error())
			return
		}
		o := c34RunRetry(rec, rg, w.Case)
		if o.Timeout || o.Infra != "" {
			rec.Inconclusive("replay run hit a wall-clock timeout: " + o.Infra)
			return
		}
		rec.Eval(1)
		if o.Fired {
			rec.Nontrivial("replay")
			rec.Nontrivial("replay2")
		}
		rec.Sample(map[string]interface{}{"case": w.Case, "clause": o.Clause, "detail": o.Detail, "fetches": len(o.Fetches)})
		if o.Clause != "" {
			report(w.Case, o)
		}
		return
	}

	sched := kit.SubRand(kit.Seed(), "C34/sched")
	startR := kit.SubRand(kit.Seed(), "C34/start")
	callsList := []int{3}
	rounds := 1
	if kit.Tier() == "thorough" {
		callsList = []int{2, 3, 7, 17}
		rounds = 3
	}
	var fetchTotal, callTotal int64
	for round := 0; round < rounds; round++ {
		for _, calls := range callsList {
			for proxies := 1; proxies <= 3; proxies++ {
				for block := 1; block <= 5; block++ {
					base := c34Case{Proxies: proxies, Goroutines: 4, Block: block, Calls: calls}
					maxK := c34Expected(base)
					// fault-free control run
					kinds := append([]string{"none"}, c34Faults...)
					for _, kind := range kinds {
						lo, hi := 1, maxK
						if kind == "none" {
							lo, hi = 0, 0
						}
						for k := lo; k <= hi; k++ {
							c := base
							c.Fault, c.FaultAt = kind, k
							c.Start = []int64{0, 1000, 99999}[startR.Intn(3)]
							c.Sched = sched.Uint64()
							o := c34RunRetry(rec, rg, c)
							if o.Timeout {
								rec.Inconclusive(fmt.Sprintf("run %+v did not finish within the watchdog", c))
								return
							}
							if o.Infra != "" {
								rec.Inconclusive(fmt.Sprintf("run %+v: connection pool timed out three times in a row (%s)", c, o.Infra))
								return
							}
							rec.Eval(1)
							fetchTotal += int64(len(o.Fetches))
							callTotal += int64(len(o.Calls))
							rec.Count("fetch.total", int64(len(o.Fetches)))
							if o.Fired {
								rec.Count("fault.delivered."+kind, 1)
								rec.Nontrivial(fmt.Sprintf("%d/%d/%d/%s/%d", proxies, block, calls, kind, k))
							} else if kind == "none" {
								rec.Count("runs.fault_free", 1)
								rec.Nontrivial(fmt.Sprintf("%d/%d/%d/none", proxies, block, calls))
							} else {
								rec.Count("fault.not_reached", 1)
							}
							if o.Clause != "" {
								rec.Count("clause."+o.Clause, 1)
								report(c, o)
							}
							if k == lo || o.Clause != "" {
								errs := 0
								for _, cl := range o.Calls {
									if cl.Err != "" {
										errs++
									}
								}
								rec.Sample(map[string]interface{}{"case": c, "fetches": len(o.Fetches), "calls": len(o.Calls), "failed_calls": errs, "fault_fired": o.Fired, "clause": o.Clause})
							}
						}
					}
				}
			}
		}
	}
	rec.Set("calls_total", callTotal)
	rec.Set("fetches_total", fetchTotal)
	rec.Set("backend_connections_accepted", rg.srv.Accepted())
	rec.Exhaustive(false)
}
