package plan

// C01 — sharded reads are routed to every table that can hold a matching row.
//
// Monitor: for every generated statement the real planner (parser.ParseSQL + plan.BuildPlan
// on a router loaded through models.Namespace.Verify + router.NewRouter) is run; the routed
// set is decoded from the slice -> db -> SQL map of the plan (physical table name / physical
// database -> table index). Oracle: every row of the boundary-rich universe, placed by the
// rule's own FindTableIndex, on which WHERE and ON evaluate to TRUE (3-valued, evaluator over
// Gaea's AST on a fresh parse of the original text) lives in a routed table.

import (
	"fmt"
	"sort"
	"strings"
	"testing"

	"github.com/XiaoMi/Gaea/parser"
	kit "github.com/XiaoMi/Gaea/verifkit"
)

type c01Case struct {
	Cfg   string  `json:"cfg"`
	Kind  string  `json:"kind"` // select | update | delete | child | join | gjoin
	Style string  `json:"style"`
	Deco  string  `json:"deco,omitempty"` // table-name decorations, see plSpellX
	Cond  *plCond `json:"cond"`
	On    *plCond `json:"on,omitempty"`
	SQL   string  `json:"sql,omitempty"`
}

type c01Result struct {
	Clause    string // "" = oracle satisfied
	Detail    string
	Rejected  string // error | panic | "" (accepted)
	GenBug    string // the generator produced something outside the evaluator / parser subset
	Routed    []int
	Needed    []int
	Strict    bool // routed is a strict subset of all tables
	RowsEvald int
}

func c01SQL(c *plCfg, cs *c01Case) string {
	switch cs.Kind {
	case "select", "update", "delete":
		sp := plSpellX(c, cs.Style, cs.Deco, c.Table, c.Key, "a")
		w := cs.Cond.SQL(sp.Cols)
		switch cs.Kind {
		case "select":
			return "SELECT * FROM " + sp.Ref + " WHERE " + w
		case "update":
			return "UPDATE " + sp.Ref + " SET " + sp.Cols["cnt"] + " = " + sp.Cols["cnt"] + " + 1 WHERE " + w
		}
		return "DELETE FROM " + sp.Ref + " WHERE " + w
	case "child":
		sp := plSpellX(c, cs.Style, cs.Deco, c.Child, c.ChildKey, "a")
		return "SELECT * FROM " + sp.Ref + " WHERE " + cs.Cond.SQL(sp.Cols)
	case "join":
		ps := plSpellX(c, cs.Style, cs.Deco, c.Table, c.Key, "a")
		cc := plSpellX(c, cs.Style, cs.Deco, c.Child, c.ChildKey, "b")
		cols := map[string]string{"key": ps.Cols["key"], "other": ps.Cols["other"], "ckey": cc.Cols["key"]}
		on := cols["key"] + " = " + cols["ckey"]
		if cs.On != nil {
			on += " AND (" + cs.On.SQL(cols) + ")"
		}
		return "SELECT * FROM " + ps.Ref + " JOIN " + cc.Ref + " ON " + on + " WHERE " + cs.Cond.SQL(cols)
	case "gjoin":
		ps := plSpellX(c, cs.Style, cs.Deco, c.Table, c.Key, "a")
		gs := plSpellX(c, cs.Style, cs.Deco, c.Glob, "gid", "b")
		cols := map[string]string{"key": ps.Cols["key"], "other": ps.Cols["other"], "gkey": gs.Cols["key"]}
		return "SELECT * FROM " + ps.Ref + ", " + gs.Ref + " WHERE " + cs.Cond.SQL(cols)
	}
	return ""
}

// c01Names lists the qualifiers that resolve to a table of the statement (lower case, as
// the evaluator compares them; table names are taken case-insensitively).
func c01Names(style, tbl string, second bool) []string {
	if style == "alias" || style == "dbalias" {
		if second {
			return []string{"b"}
		}
		return []string{"a"}
	}
	return []string{tbl}
}

// c01Run executes one case against the real planner and applies the oracle.
func c01Run(cs *c01Case) (res c01Result) {
	c, err := plGetCfg(cs.Cfg, "")
	if err != nil {
		res.GenBug = err.Error()
		return
	}
	sql := c01SQL(c, cs)
	cs.SQL = sql
	pl := plBuild(c, c.DB, sql)
	switch {
	case pl.ParseErr != "":
		res.GenBug = "generated text does not parse: " + pl.ParseErr
		return
	case pl.Panic != "":
		res.Rejected = "panic"
		return
	case pl.Err != "":
		res.Rejected = "error"
		return
	}
	tbl := c.Table
	if cs.Kind == "child" {
		tbl = c.Child
	}
	sent := plFlatten(pl.SQLs)
	if pl.Unshard {
		res.Clause = "planned-as-unsharded"
		how := "BuildPlan returned an UnshardPlan"
		if pl.Fast {
			how = "the session's token pre-check took it for a statement on unsharded tables"
		}
		res.Detail = fmt.Sprintf("statement on sharded table %s: %s; it is sent verbatim to the default slice only: %v", tbl, how, sent)
		return
	}
	idxs, unknown, derr := plDecodeTargets(c, tbl, sent)
	if derr != nil {
		// the backend would refuse the text (syntax error): an execution-time rejection, nothing is read
		res.Rejected = "unparsable_sent_text"
		res.Detail = derr.Error()
		return
	}
	if len(unknown) > 0 {
		res.Clause, res.Detail = "unknown-target", fmt.Sprintf("statement sent to %s/%s which is no configured table of %s: %s", unknown[0].Slice, unknown[0].DB, tbl, unknown[0].SQL)
		return
	}
	routed := map[int]bool{}
	for _, i := range idxs {
		routed[i] = true
	}
	res.Routed = plSortedInts(routed)
	res.Strict = len(routed) < len(c.Idx)

	// reference: fresh parse of the original text, evaluated on the universe
	stmt, err := parser.ParseSQL(sql)
	if err != nil {
		res.GenBug = err.Error()
		return
	}
	conds, _, err := plCondsOf(stmt)
	if err != nil {
		res.GenBug = err.Error()
		return
	}
	needed := map[int]bool{}
	witness := map[int]string{}
	keyCol := c.Key
	types := c.Types
	if cs.Kind == "child" {
		keyCol, types = c.ChildKey, c.CTypes
	}
	for _, k := range c.Keys {
		if needed[k.Idx] {
			continue
		}
		for _, o := range plOthers {
			row := map[string]plVal{keyCol: k.V, "other": o, "cnt": plIntV(0), "v": plStrV("x")}
			envs := []*plEnv{}
			first := &plEnvTable{Names: c01Names(cs.Style, tbl, false), Schema: c.DB, Row: row, Types: types}
			switch cs.Kind {
			case "join":
				crow := map[string]plVal{c.ChildKey: k.V, "other": plIntV(1), "cnt": plIntV(0), "v": plStrV("y")}
				envs = append(envs, &plEnv{Tabs: []*plEnvTable{first, {Names: c01Names(cs.Style, c.Child, true), Schema: c.DB, Row: crow, Types: c.CTypes}}})
			case "gjoin":
				for g := int64(1); g <= 3; g++ {
					grow := map[string]plVal{"gid": plIntV(g), "gname": plStrV("n")}
					envs = append(envs, &plEnv{Tabs: []*plEnvTable{first, {Names: c01Names(cs.Style, c.Glob, true), Schema: c.DB, Row: grow, Types: c.GTypes}}})
				}
			default:
				envs = append(envs, &plEnv{Tabs: []*plEnvTable{first}})
			}
			hit := false
			for _, env := range envs {
				res.RowsEvald++
				ok, err := plAllTrue(env, conds)
				if err != nil {
					res.GenBug = err.Error()
					return
				}
				if ok {
					hit = true
					break
				}
			}
			if hit {
				needed[k.Idx] = true
				witness[k.Idx] = fmt.Sprintf("%s=%s other=%s", keyCol, k.V.String(), o.String())
				break
			}
		}
	}
	res.Needed = plSortedInts(needed)
	for _, i := range res.Needed {
		if !routed[i] {
			res.Clause = "missed-table"
			res.Detail = fmt.Sprintf("row {%s} lives in %s and satisfies the condition, but the statement was routed only to tables %v", witness[i], c.Addr(tbl, i).String(), res.Routed)
			return
		}
	}
	return
}

// c01Minimize shrinks a failing case (same clause must keep failing) and returns the
// canonical signature of the 1-minimal case.
func c01Minimize(cs *c01Case, clause string) (*c01Case, string) {
	cur := *cs
	fails := func(x *c01Case) bool {
		r := c01Run(x)
		return r.GenBug == "" && r.Clause == clause
	}
	// structural reductions of the statement around the condition
	structural := func() {
		for {
			progressed := false
			var cands []*c01Case
			if cur.On != nil {
				x := cur
				x.On = nil
				cands = append(cands, &x)
				// the ON condition alone may be the culprit: move it to WHERE
				y := cur
				y.Cond, y.On = cur.On, nil
				cands = append(cands, &y)
			}
			if cur.Kind != "select" && !cur.Cond.UsesCol("ckey") && !cur.Cond.UsesCol("gkey") && cur.On == nil {
				x := cur
				x.Kind = "select"
				cands = append(cands, &x)
			}
			if cur.Kind == "join" && cur.On == nil && !cur.Cond.UsesCol("key") && !cur.Cond.UsesCol("other") {
				// only the linked child's key is constrained: the child table alone
				x := cur
				x.Kind = "child"
				x.Cond = c01Rename(cur.Cond, "ckey", "key")
				cands = append(cands, &x)
			}
			for i := range cur.Deco {
				x := cur
				x.Deco = cur.Deco[:i] + cur.Deco[i+1:]
				cands = append(cands, &x)
			}
			if cur.Style == "dbalias" {
				for _, st := range []string{"db", "alias"} {
					x := cur
					x.Style = st
					cands = append(cands, &x)
				}
			}
			if cur.Style != "bare" && (cur.Kind == "select" || cur.Kind == "update" || cur.Kind == "delete" || cur.Kind == "child") {
				x := cur
				x.Style = "bare"
				cands = append(cands, &x)
			}
			for _, x := range cands {
				if fails(x) {
					cur = *x
					progressed = true
					break
				}
			}
			if !progressed {
				break
			}
		}
	}
	structural()
	cur.Cond = plShrinkCond(cur.Cond, func(k *plCond) bool {
		x := cur
		x.Cond = k
		return fails(&x)
	})
	structural()
	if cur.On != nil {
		cur.On = plShrinkCond(cur.On, func(k *plCond) bool {
			x := cur
			x.On = k
			return fails(&x)
		})
	}
	c, _ := plGetCfg(cur.Cfg, "")
	cur.Cond = plShrinkLits(c, cur.Cond, func(k *plCond) bool {
		x := cur
		x.Cond = k
		return fails(&x)
	})
	parts := []string{c.Type, clause}
	if clause == "planned-as-unsharded" {
		// decided from the tokens of the statement, before any rule is consulted
		parts = []string{clause}
	}
	if cur.Kind != "select" {
		parts = append(parts, "kind="+cur.Kind)
	}
	if cur.Style != "bare" && cur.Kind != "join" && cur.Kind != "gjoin" {
		parts = append(parts, "style="+cur.Style)
	}
	if cur.Deco != "" {
		parts = append(parts, "deco="+cur.Deco)
	}
	if clause != "planned-as-unsharded" {
		parts = append(parts, cur.Cond.Shape())
		if cur.On != nil {
			parts = append(parts, "on="+cur.On.Shape())
		}
	}
	c01Run(&cur) // refresh SQL text
	return &cur, strings.Join(parts, "|")
}

func c01Rename(c *plCond, from, to string) *plCond {
	n := c.clone()
	var walk func(*plCond)
	walk = func(x *plCond) {
		if x.Col == from {
			x.Col = to
		}
		for _, k := range x.Kids {
			walk(k)
		}
	}
	walk(n)
	return n
}

func c01Roles(kind string) []string {
	switch kind {
	case "join":
		return []string{"other", "ckey"}
	case "gjoin":
		return []string{"other", "gkey"}
	}
	return []string{"other"}
}

func c01StylesFor(kind string) []string {
	if kind == "join" || kind == "gjoin" {
		return []string{"tbl", "alias", "db", "dbalias"}
	}
	return plStyles
}

func TestVerif_C01(t *testing.T) {
	rec := kit.Start("C01", "exploration", "statements = rule layout (13 rule types incl. linked child and global join, 3 layouts each) x kind (select/update/delete/child/join/gjoin) x reference style x condition tree (depth<=3 over key/other/child-key/global-key atoms with boundary-class literals); non-trivial = distinct (rule type, kind, canonical condition shape) whose accepted statement was routed to a strict subset of the tables")
	rec.Assume("binary collation and type-consistent comparisons: int keys are compared with int literals or quoted integers, string keys with strings, datetime keys with 'YYYY-MM-DD' / 'YYYY-MM-DD HH:MM:SS' literals, timestamp keys with ints")
	rec.Assume("rows exist only where the rule's own FindTableIndex places their key (placement itself is C08/C09); a statement rejected by the planner (error, or panic recovered by the session layer) is not a routing violation")
	rec.Assume("joins are checked on co-located row pairs (parent and linked child with the same key; any global row)")
	defer rec.Finish(t)

	var lastGenBug string
	runOne := func(cs *c01Case) {
		res := c01Run(cs)
		rec.Eval(1)
		rec.Count("rows_evaluated", int64(res.RowsEvald))
		c, _ := plGetCfg(cs.Cfg, "")
		switch {
		case res.GenBug != "":
			rec.Count("generator_or_evaluator_limit", 1)
			lastGenBug = res.GenBug + " :: " + cs.SQL
			return
		case res.Rejected != "":
			rec.Count("rejected_"+res.Rejected, 1)
			return
		}
		rec.Count("accepted", 1)
		rec.Count("kind_"+cs.Kind, 1)
		switch {
		case len(res.Routed) == 0:
			rec.Count("routed_none", 1)
		case res.Strict:
			rec.Count("routed_strict_subset", 1)
		default:
			rec.Count("routed_all", 1)
		}
		if res.Strict {
			key := c.Type + "|" + cs.Kind + "|" + cs.Cond.Shape()
			if cs.On != nil {
				key += "|on=" + cs.On.Shape()
			}
			rec.Nontrivial(key)
			rec.Sample(map[string]interface{}{"cfg": cs.Cfg, "sql": cs.SQL, "routed": res.Routed, "needed": res.Needed})
		}
		if res.Clause != "" {
			min, sig := c01Minimize(cs, res.Clause)
			r2 := c01Run(min)
			rec.Violation(sig, fmt.Sprintf("[%s] %s -- %s (first seen as: %s)", min.Cfg, min.SQL, r2.Detail, cs.SQL), min)
		}
	}

	if p := kit.ReplayPath(); p != "" {
		var cs c01Case
		if err := kit.LoadReplay(p, &cs); err != nil {
			t.Fatal(err)
		}
		res := c01Run(&cs)
		rec.Eval(1)
		fmt.Printf("replay: %s\n  routed=%v needed=%v clause=%q %s\n", cs.SQL, res.Routed, res.Needed, res.Clause, res.Detail)
		if res.Clause != "" {
			_, sig := c01Minimize(&cs, res.Clause)
			rec.Violation(sig, res.Detail, &cs)
		}
		rec.Nontrivial("replay")
		rec.Nontrivial("replay2")
		rec.Sample(cs)
		return
	}

	ids := plAllCfgIDs()
	for _, id := range ids {
		if _, err := plGetCfg(id, ""); err != nil {
			rec.Inconclusive("layout does not load: " + err.Error())
			return
		}
	}
	kinds := []string{"select", "select", "select", "update", "delete", "child", "join", "gjoin"}

	// (1) structured part: every atom shape over representative literals of every boundary
	// class, alone and under NOT; in thorough every atom over the full literal pool, and all
	// AND/OR pairs of atoms over one representative per class.
	for _, id := range ids {
		c, _ := plGetCfg(id, "")
		pool := plReps(c, kit.N(2, 3))
		full := kit.Tier() == "thorough"
		atoms := plAtoms(pool, true)
		if full {
			atoms = plAtoms(c.Lits, true)
		}
		for _, a := range atoms {
			runOne(&c01Case{Cfg: id, Kind: "select", Style: "bare", Cond: a})
			if full || a.Op == "between" {
				runOne(&c01Case{Cfg: id, Kind: "select", Style: "bare", Cond: &plCond{Op: "not", Kids: []*plCond{a}}})
			}
		}
		if full {
			small := plAtoms(plReps(c, 1), true)
			for _, a := range small {
				for _, b := range small {
					runOne(&c01Case{Cfg: id, Kind: "select", Style: "bare", Cond: &plCond{Op: "and", Kids: []*plCond{a, b}}})
					runOne(&c01Case{Cfg: id, Kind: "select", Style: "bare", Cond: &plCond{Op: "or", Kids: []*plCond{a, b}}})
				}
			}
		}
	}
	rec.Set("structured_cases", rec.CounterValue("accepted")+rec.CounterValue("rejected_error")+rec.CounterValue("rejected_panic"))

	// (1b) every spelling of the table reference (case, back-quotes, schema, alias with and
	// without AS, comment before the name) with a fixed point condition
	for i, id := range ids {
		if kit.Tier() != "thorough" && i%7 != int(kit.Seed()%7) {
			continue
		}
		c, _ := plGetCfg(id, "")
		point := &plCond{Op: "cmp", Col: "key", Cmp: "=", Lits: []plLit{{SQL: c.Keys[0].SQL, Class: c.Keys[0].Class}}}
		for _, kind := range []string{"select", "update", "delete", "child", "join"} {
			for _, st := range c01StylesFor(kind) {
				for _, dc := range []string{"", "U", "M", "Q", "C", "N", "UQ", "MC", "CN", "UN", "QC"} {
					if strings.Contains(dc, "N") && st != "alias" && st != "dbalias" {
						continue
					}
					runOne(&c01Case{Cfg: id, Kind: kind, Style: st, Deco: dc, Cond: point})
				}
			}
		}
	}

	// (2) random trees of depth <= 3 with every kind and style
	r := kit.SubRand(kit.Seed(), "C01/random")
	n := kit.N(4500, 300000)
	for i := 0; i < n; i++ {
		id := ids[r.Intn(len(ids))]
		c, _ := plGetCfg(id, "")
		kind := kinds[r.Intn(len(kinds))]
		styles := c01StylesFor(kind)
		cs := &c01Case{Cfg: id, Kind: kind, Style: styles[r.Intn(len(styles))], Deco: plDecos[r.Intn(len(plDecos))]}
		cs.Cond = plGenCond(r, c, r.Range(1, 3), c01Roles(kind))
		if kind == "join" && r.Chance(1, 2) {
			cs.On = plGenCond(r, c, r.Range(1, 2), c01Roles(kind))
		}
		runOne(cs)
	}

	if g := rec.CounterValue("generator_or_evaluator_limit"); g > 0 {
		rec.Set("last_generator_limit", lastGenBug)
		if g*20 > rec.CounterValue("accepted") {
			rec.Inconclusive(fmt.Sprintf("%d generated statements were outside the evaluator/parser subset (last: %s)", g, lastGenBug))
		}
	}
	if rec.CounterValue("routed_strict_subset") == 0 {
		rec.Inconclusive("no accepted statement was routed to a strict subset of the tables")
	}
	var types []string
	seen := map[string]bool{}
	for _, id := range ids {
		c, _ := plGetCfg(id, "")
		if !seen[c.Type] {
			seen[c.Type] = true
			types = append(types, c.Type)
		}
	}
	sort.Strings(types)
	rec.Set("rule_types", types)
	rec.Set("layouts", len(ids))
}
